(* What a migration of a minter does to the sale-world state (model/MinterMigrate.v), and
   the history theorems of C01 / C03 lifted to histories that interleave handler calls
   and migrations. *)
From LP Require Import Num Pay Sg1 MinterVending MinterOpen MinterMigrate
                       MinterVendingProofs MinterOpenProofs C03Proofs C07Proofs.
From Coq Require Import ZArith Lia ZifyN ZifyBool.
Local Open Scope N_scope.

Lemma vstate_eta s :
  s = mkVS (s_admin s) (s_payment s) (s_num_tokens s) (s_pal s) (s_whitelist s) (s_start s) (s_price s) (s_denom s)
           (s_discount s) (s_mintable s) (s_positions s) (s_minted s) (s_burned s) (s_public s) (s_wl s) (s_fs s)
           (s_ss s) (s_ts s) (s_fs_count s) (s_ss_count s) (s_ts_count s) (s_airdrops s) (s_last_discount s) (s_trading s).
Proof. destruct s; reflexivity. Qed.

Lemma set_last_discount_same s : set_last_discount s (s_last_discount s) = s.
Proof. unfold set_last_discount, set_config. symmetry. apply vstate_eta. Qed.

(* ---------- the vending family ---------- *)
(* exact description of an accepted migration *)
Theorem migrate_spec vr now name_ok stored admin s s' :
  minter_migrate vr now name_ok stored admin s = Ok s' ->
  admin = true /\ name_ok = true /\
  exists v code, stored = Some v /\ code_version (vending_contract vr) = Some code /\
    ver_ltb code v = false /\
    ((ver_eqb v code || negb (ver_ltb v (3, 9, 0)) = true /\ s' = s) \/
     (ver_eqb v code = false /\ ver_ltb v (3, 9, 0) = true /\
      43200 * 1000000000 <= now /\ s' = set_last_discount s (now - 43200 * 1000000000))).
Proof.
  unfold minter_migrate. intros H.
  destruct admin; [ | discriminate ]. destruct name_ok; [ | discriminate ]. cbn [negb] in H.
  destruct stored as [v|]; [ | discriminate ].
  destruct (code_version (vending_contract vr)) as [code|]; [ | discriminate ].
  destruct (ver_ltb code v) eqn:E1; [ discriminate | ].
  split; [ reflexivity | ]. split; [ reflexivity | ]. exists v, code.
  split; [ reflexivity | ]. split; [ reflexivity | ]. split; [ exact E1 | ].
  destruct (ver_eqb v code) eqn:E2.
  - inv H. left. split; reflexivity.
  - unfold DISCOUNT_INIT_BELOW in H. destruct (ver_ltb v (3, 9, 0)) eqn:E3.
    + bind_in H t Ht. inv H. right. split; [ reflexivity | ]. split; [ reflexivity | ].
      unfold minus_seconds, MIG_H12, NANOS in Ht.
      destruct (U64_MAX <? 60 * 60 * 12 * 1000000000); [ discriminate | ].
      destruct (now <? 60 * 60 * 12 * 1000000000) eqn:E4; [ discriminate | ]. inv Ht.
      split; [ lia | ]. f_equal.
    + inv H. left. split; reflexivity.
Qed.

(* nothing but the discount cooldown anchor can change *)
Theorem migrate_frame vr now name_ok stored admin s s' :
  minter_migrate vr now name_ok stored admin s = Ok s' ->
  s' = set_last_discount s (s_last_discount s') /\
  (s_last_discount s' = s_last_discount s \/ s_last_discount s' + 43200 * 1000000000 = now).
Proof.
  intros H. apply migrate_spec in H. destruct H as (_ & _ & v & code & _ & _ & _ & [[_ ->] | (_ & _ & Hn & ->)]).
  - split; [ symmetry; apply set_last_discount_same | left; reflexivity ].
  - cbn. split; [ reflexivity | right; lia ].
Qed.

Definition same_but_anchor (s s' : vstate) : Prop :=
  s_admin s' = s_admin s /\ s_payment s' = s_payment s /\ s_num_tokens s' = s_num_tokens s /\
  s_pal s' = s_pal s /\ s_whitelist s' = s_whitelist s /\ s_start s' = s_start s /\
  s_price s' = s_price s /\ s_denom s' = s_denom s /\ s_discount s' = s_discount s /\
  s_mintable s' = s_mintable s /\ s_positions s' = s_positions s /\ s_minted s' = s_minted s /\
  s_burned s' = s_burned s /\ s_public s' = s_public s /\ s_wl s' = s_wl s /\ s_fs s' = s_fs s /\
  s_ss s' = s_ss s /\ s_ts s' = s_ts s /\ s_fs_count s' = s_fs_count s /\ s_ss_count s' = s_ss_count s /\
  s_ts_count s' = s_ts_count s /\ s_airdrops s' = s_airdrops s /\ s_trading s' = s_trading s.

Theorem migrate_fields vr now name_ok stored admin s s' :
  minter_migrate vr now name_ok stored admin s = Ok s' -> same_but_anchor s s'.
Proof.
  intros H. apply migrate_frame in H. destruct H as [-> _]. unfold same_but_anchor. cbn. repeat split.
Qed.

(* C01: the supply invariant *)
Theorem migrate_inv n vr now name_ok stored admin s s' :
  InvV n s -> minter_migrate vr now name_ok stored admin s = Ok s' -> InvV n s'.
Proof.
  intros I H. apply migrate_frame in H. destruct H as [-> _]. unfold set_last_discount. apply set_config_inv. exact I.
Qed.

(* C03: every counter; C04 / C07 / C19: the configuration except the anchor *)
Theorem migrate_ctr vr now name_ok stored admin s s' :
  minter_migrate vr now name_ok stored admin s = Ok s' -> ctr s' = ctr s.
Proof. intros H. apply migrate_frame in H. destruct H as [-> _]. reflexivity. Qed.

(* C07: after a migration from a version below 3.9.0 a discount can be set at once *)
Theorem migrate_then_discount_at_once vr now v admin s s' e fp wv d :
  minter_migrate vr now true (Some v) admin s = Ok s' ->
  ver_ltb v (3, 9, 0) = true ->
  code_version (vending_contract vr) <> Some v ->
  e_now e = now -> now <= U64_MAX -> e_sender e = s_admin s -> e_funds e = [] ->
  s_start s <= now -> d <= s_price s -> fp_min_price fp <= d ->
  exists s'', step vr s' e fp wv (OUpdateDiscountPrice d) = Ok (s'', []) /\ s_discount s'' = Some d.
Proof.
  intros H Hlt Hne Hnow Hmax Hs Hf Hst Hd Hm.
  pose proof (migrate_fields _ _ _ _ _ _ _ H) as F.
  destruct F as (A & _ & _ & _ & _ & St & P & _).
  apply migrate_spec in H. destruct H as (_ & _ & v0 & code & Hv & Hc & _ & [[Hb Hs'] | (_ & _ & Hn & Hs')]).
  - inv Hv. exfalso. rewrite Hlt in Hb. cbn [negb] in Hb. rewrite orb_false_r in Hb.
    apply Hne. rewrite Hc. f_equal. clear - Hb. destruct v0 as [[a b] c], code as [[a' b'] c']. cbn in Hb.
    assert (a = a' /\ b = b' /\ c = c') by lia. destruct H as (-> & -> & ->). reflexivity.
  - subst s'. cbn [step]. rewrite Hf. cbn [nonpayable bind].
    unfold is_admin_sender. cbn [set_last_discount set_config s_admin s_start s_last_discount s_price].
    rewrite Hs, N.eqb_refl. cbn [negb]. rewrite Hnow.
    replace (now <? s_start s) with false by lia.
    unfold plus_seconds, NANOS.
    replace (U64_MAX <? 12 * 60 * 60 * 1000000000) with false by (unfold U64_MAX; lia).
    replace (U64_MAX <? now - 43200 * 1000000000 + 12 * 60 * 60 * 1000000000) with false by lia.
    cbn [bind].
    replace (now <? now - 43200 * 1000000000 + 12 * 60 * 60 * 1000000000) with false by lia.
    replace (s_price s <? d) with false by lia.
    replace (d <? fp_min_price fp) with false by lia.
    eexists. split; [ reflexivity | reflexivity ].
Qed.

(* ---------- histories that interleave calls and migrations (vending) ---------- *)
Inductive hitem :=
| HCall (c : call)
| HMigrate (now : N) (name_ok : bool) (stored : option version) (admin : bool).

(* a refused migration leaves the state as it was *)
Definition mig_apply (vr : variant) (s : vstate) (now : N) (name_ok : bool) (stored : option version) (admin : bool)
  : vstate :=
  match minter_migrate vr now name_ok stored admin s with Ok s' => s' | Err => s end.

Definition apply_item (vr : variant) (s : vstate) (it : hitem) : vstate :=
  match it with
  | HCall c => apply_call vr s c
  | HMigrate now k v a => mig_apply vr s now k v a
  end.
Definition run_m (vr : variant) (s : vstate) (items : list hitem) : vstate := fold_left (apply_item vr) items s.

Lemma run_m_calls vr cs : forall s, run_m vr s (map HCall cs) = run vr s cs.
Proof. induction cs as [|c r IH]; intros s; [ reflexivity | ]. cbn. apply IH. Qed.

Lemma mig_apply_fields vr s now k v a : same_but_anchor s (mig_apply vr s now k v a).
Proof.
  unfold mig_apply. destruct (minter_migrate vr now k v a s) eqn:E.
  - eapply migrate_fields; eauto.
  - unfold same_but_anchor. repeat split.
Qed.
Lemma mig_apply_ctr vr s now k v a : ctr (mig_apply vr s now k v a) = ctr s.
Proof.
  unfold mig_apply. destruct (minter_migrate vr now k v a s) eqn:E; [ | reflexivity ]. eapply migrate_ctr; eauto.
Qed.

Theorem run_m_inv n vr items : forall s, InvV n s -> InvV n (run_m vr s items).
Proof.
  induction items as [|it r IH]; intros s I; [ exact I | ]. cbn [run_m fold_left]. apply IH.
  destruct it as [c | now k v a]; cbn [apply_item].
  - unfold apply_call. destruct (step vr s (c_env c) (c_fp c) (c_wv c) (c_op c)) as [[s' ms]|] eqn:E; [ | exact I ].
    eapply step_inv; eauto.
  - unfold mig_apply. destruct (minter_migrate vr now k v a s) eqn:E; [ | exact I ]. eapply migrate_inv; eauto.
Qed.

Theorem zero_is_forever_m vr items : forall s, s_mintable s = 0 -> s_mintable (run_m vr s items) = 0.
Proof.
  induction items as [|it r IH]; intros s Hz; [ exact Hz | ]. cbn [run_m fold_left]. apply IH.
  destruct it as [c | now k v a]; cbn [apply_item].
  - change (s_mintable (run vr s [c]) = 0). apply zero_is_forever. exact Hz.
  - pose proof (mig_apply_fields vr s now k v a) as F. unfold same_but_anchor in F. intuition congruence.
Qed.

(* tallies over the successful calls of such a history: migrations contribute nothing *)
Fixpoint tally_m (vr : variant) (evf : vstate -> call -> ev) (s : vstate) (items : list hitem) (acc : N) : N :=
  match items with
  | [] => acc
  | HCall c :: r =>
      match cstep vr s c with
      | Ok (s', _) => tally_m vr evf s' r (apply_ev (evf s c) acc)
      | Err => tally_m vr evf s r acc
      end
  | HMigrate now k v a :: r => tally_m vr evf (mig_apply vr s now k v a) r acc
  end.

Lemma tally_m_inv vr evf (R : vstate -> N -> Prop) :
  (forall s c s' ms acc, cstep vr s c = Ok (s', ms) -> R s acc -> R s' (apply_ev (evf s c) acc)) ->
  (forall s now k v a acc, R s acc -> R (mig_apply vr s now k v a) acc) ->
  forall items s acc, R s acc -> R (run_m vr s items) (tally_m vr evf s items acc).
Proof.
  intros Hstep Hmig. induction items as [|it r IH]; intros s acc HR; [ exact HR | ].
  destruct it as [c | now k v a]; cbn [tally_m run_m fold_left apply_item].
  - unfold apply_call. fold (cstep vr s c).
    destruct (cstep vr s c) as [[s' ms]|] eqn:E; apply IH; [ eapply Hstep; eauto | exact HR ].
  - apply IH. apply Hmig. exact HR.
Qed.

Theorem public_count_reported_m vr a items s :
  get (s_public (run_m vr s items)) a = tally_m vr (pub_ev a) s items (get (s_public s) a).
Proof.
  apply (tally_m_inv vr (pub_ev a) (fun s acc => get (s_public s) a = acc)); [ | | reflexivity ].
  - intros s0 c s' ms acc H <-. apply (step_public_count vr a) in H. tauto.
  - intros s0 now k v a0 acc <-. pose proof (mig_apply_ctr vr s0 now k v a0) as C.
    apply ctr_fields in C. destruct C as (-> & _). reflexivity.
Qed.

Theorem whitelist_count_reported_m vr a sl items s :
  get (slot_map (run_m vr s items) sl) a = tally_m vr (wl_ev vr a sl) s items (get (slot_map s sl) a).
Proof.
  apply (tally_m_inv vr (wl_ev vr a sl) (fun s acc => get (slot_map s sl) a = acc)); [ | | reflexivity ].
  - intros s0 c s' ms acc H <-. apply (step_wl_count vr a sl) in H. tauto.
  - intros s0 now k v a0 acc <-. pose proof (mig_apply_ctr vr s0 now k v a0) as C.
    apply ctr_fields in C. destruct C as (_ & C & _). rewrite C. reflexivity.
Qed.

Theorem stage_total_reported_m vr sl items s :
  is_stage sl = true ->
  stage_total (run_m vr s items) sl = tally_m vr (stage_ev sl) s items (stage_total s sl).
Proof.
  intros Hst.
  apply (tally_m_inv vr (stage_ev sl) (fun s acc => stage_total s sl = acc)); [ | | reflexivity ].
  - intros s0 c s' ms acc H <-. apply (step_wl_count vr 0 sl) in H. rewrite Hst in H. tauto.
  - intros s0 now k v a0 acc <-. pose proof (mig_apply_ctr vr s0 now k v a0) as C.
    apply ctr_fields in C. destruct C as (_ & _ & C). rewrite C. reflexivity.
Qed.

(* ---------- the open-edition family: a migration writes nothing of the sale state ---------- *)
Theorem o_migrate_spec vr now name_ok stored admin s s' :
  o_minter_migrate vr now name_ok stored admin s = Ok s' ->
  s' = s /\ admin = true /\ name_ok = true /\
  exists v code, stored = Some v /\ code_version (oe_contract vr) = Some code /\ ver_ltb code v = false.
Proof.
  unfold o_minter_migrate. intros H.
  destruct admin; [ | discriminate ]. destruct name_ok; [ | discriminate ]. cbn [negb] in H.
  destruct stored as [v|]; [ | discriminate ].
  destruct (code_version (oe_contract vr)) as [code|]; [ | discriminate ].
  destruct (ver_ltb code v) eqn:E; [ discriminate | ]. inv H.
  repeat split. exists v, code. repeat split. exact E.
Qed.

Inductive ohitem :=
| OHCall (c : ocall)
| OHMigrate (now : N) (name_ok : bool) (stored : option version) (admin : bool).

Definition o_mig_apply (vr : ovariant) (s : ostate) (now : N) (name_ok : bool) (stored : option version) (admin : bool)
  : ostate :=
  match o_minter_migrate vr now name_ok stored admin s with Ok s' => s' | Err => s end.

Lemma o_mig_apply_id vr s now k v a : o_mig_apply vr s now k v a = s.
Proof.
  unfold o_mig_apply. destruct (o_minter_migrate vr now k v a s) eqn:E; [ | reflexivity ].
  apply o_migrate_spec in E. tauto.
Qed.

Definition o_apply_item (vr : ovariant) (s : ostate) (it : ohitem) : ostate :=
  match it with
  | OHCall c => o_apply vr s c
  | OHMigrate now k v a => o_mig_apply vr s now k v a
  end.
Definition orun_m (vr : ovariant) (s : ostate) (items : list ohitem) : ostate := fold_left (o_apply_item vr) items s.

Definition o_calls_of (items : list ohitem) : list ocall :=
  flat_map (fun it => match it with OHCall c => [c] | OHMigrate _ _ _ _ => [] end) items.

(* a history with migrations reaches exactly the state of the same history without them *)
Theorem orun_m_erase vr items : forall s, orun_m vr s items = orun vr s (o_calls_of items).
Proof.
  induction items as [|it r IH]; intros s; [ reflexivity | ].
  destruct it as [c | now k v a]; cbn [orun_m fold_left o_apply_item o_calls_of flat_map app].
  - apply IH.
  - rewrite o_mig_apply_id. apply IH.
Qed.

Theorem orun_m_inv cap vr items s : InvO cap s -> InvO cap (orun_m vr s items).
Proof. intros I. rewrite orun_m_erase. apply orun_inv. exact I. Qed.

(* ---------- per-property projections (statements used by props/C01 .. C19) ---------- *)
Section Projections.
  Variables (vr : variant) (now : N) (name_ok : bool) (stored : option version) (admin : bool) (s s' : vstate).
  Hypothesis H : minter_migrate vr now name_ok stored admin s = Ok s'.

  Lemma migrate_supply :
    s_num_tokens s' = s_num_tokens s /\ s_mintable s' = s_mintable s /\ s_positions s' = s_positions s /\
    s_minted s' = s_minted s /\ s_burned s' = s_burned s /\ s_airdrops s' = s_airdrops s.
  Proof. pose proof (migrate_fields _ _ _ _ _ _ _ H) as F. unfold same_but_anchor in F. tauto. Qed.

  Lemma migrate_counters :
    s_public s' = s_public s /\ s_wl s' = s_wl s /\ s_fs s' = s_fs s /\ s_ss s' = s_ss s /\ s_ts s' = s_ts s /\
    s_fs_count s' = s_fs_count s /\ s_ss_count s' = s_ss_count s /\ s_ts_count s' = s_ts_count s /\
    s_pal s' = s_pal s.
  Proof. pose proof (migrate_fields _ _ _ _ _ _ _ H) as F. unfold same_but_anchor in F. tauto. Qed.

  Lemma migrate_schedule :
    s_start s' = s_start s /\ s_whitelist s' = s_whitelist s /\ s_pal s' = s_pal s /\ s_admin s' = s_admin s.
  Proof. pose proof (migrate_fields _ _ _ _ _ _ _ H) as F. unfold same_but_anchor in F. tauto. Qed.

  Lemma migrate_prices :
    s_price s' = s_price s /\ s_denom s' = s_denom s /\ s_discount s' = s_discount s /\
    (s_last_discount s' = s_last_discount s \/ s_last_discount s' + 43200 * 1000000000 = now) /\
    (forall fp wv, q_current_price s' fp wv = q_current_price s fp wv).
  Proof.
    pose proof (migrate_fields _ _ _ _ _ _ _ H) as F. unfold same_but_anchor in F.
    destruct (migrate_frame _ _ _ _ _ _ _ H) as [_ A].
    repeat split; try tauto.
    intros fp wv. unfold q_current_price, mint_price, public_or_discount.
    destruct F as (_ & _ & _ & _ & W & _ & P & D & Di & _). rewrite W, P, D, Di. reflexivity.
  Qed.

  Lemma migrate_payout_config :
    s_payment s' = s_payment s /\ s_admin s' = s_admin s /\ s_price s' = s_price s /\ s_denom s' = s_denom s.
  Proof. pose proof (migrate_fields _ _ _ _ _ _ _ H) as F. unfold same_but_anchor in F. tauto. Qed.

  Lemma migrate_trading : s_trading s' = s_trading s /\ s_start s' = s_start s.
  Proof. pose proof (migrate_fields _ _ _ _ _ _ _ H) as F. unfold same_but_anchor in F. tauto. Qed.
End Projections.

(* the anchor moves only when the stored version is below 3.9.0 (and differs from the code's) *)
Lemma migrate_anchor_moves_only_below_390 vr now name_ok v admin s s' :
  minter_migrate vr now name_ok (Some v) admin s = Ok s' ->
  ver_ltb v (3, 9, 0) = false -> s' = s.
Proof.
  intros H Hge. apply migrate_spec in H. destruct H as (_ & _ & v0 & code & Hv & _ & _ & [[_ ->] | (_ & Hlt & _)]).
  - reflexivity.
  - inv Hv. congruence.
Qed.

Lemma o_migrate_id vr now name_ok stored admin s s' :
  o_minter_migrate vr now name_ok stored admin s = Ok s' -> s' = s.
Proof. intros H. apply o_migrate_spec in H. tauto. Qed.
