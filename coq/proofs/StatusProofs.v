(* Lemmas about the minter status model (model/Status.v). *)
From Coq Require Import List Bool.
From LP Require Import Status.
Import ListNotations.

Lemma status_roundtrip : forall (R : Type) (k : minter_kind) (s : minter_state R) (v b e : bool),
  exists s', sudo_update_status k s v b e = Ok s' /\ query_status s' = (v, b, e).
Proof. intros. eexists. split; reflexivity. Qed.

Lemma status_never_fails : forall (R : Type) k (s : minter_state R) v b e,
  sudo_update_status k s v b e <> Err.
Proof. intros. discriminate. Qed.

Lemma status_frame : forall (R : Type) k (s s' : minter_state R) v b e,
  sudo_update_status k s v b e = Ok s' -> ms_rest s' = ms_rest s.
Proof. intros R k s s' v b e H. inversion H; subst. reflexivity. Qed.

Lemma status_initial : forall (R : Type) k (rest : R),
  query_status (minter_instantiate k rest) = (false, false, false).
Proof. reflexivity. Qed.

(* the model does not look at the variant *)
Lemma status_kind_irrelevant : forall (R : Type) k1 k2 (s : minter_state R) v b e,
  sudo_update_status k1 s v b e = sudo_update_status k2 s v b e.
Proof. reflexivity. Qed.

Lemma apply_status_seq_app : forall (R : Type) k fs (s : minter_state R) f,
  apply_status_seq k s (fs ++ [f]) = apply_status_seq k (apply_status_seq k s fs) [f].
Proof. intros. unfold apply_status_seq. rewrite fold_left_app. reflexivity. Qed.

Lemma last_nonempty_default : forall (A : Type) (l : list A) (g d1 d2 : A),
  last (g :: l) d1 = last (g :: l) d2.
Proof.
  induction l as [|a l IH]; intros g d1 d2; [reflexivity|].
  change (last (g :: a :: l) d1) with (last (a :: l) d1).
  change (last (g :: a :: l) d2) with (last (a :: l) d2). apply IH.
Qed.

(* after any sequence of updates the query shows the last triple sent *)
Lemma status_sequence_last : forall (R : Type) k fs (s : minter_state R),
  query_status (apply_status_seq k s fs) = last fs (query_status s) /\
  ms_rest (apply_status_seq k s fs) = ms_rest s.
Proof.
  intros R k fs. induction fs as [|f fs IH]; intro s.
  - split; reflexivity.
  - destruct f as [[v b] e].
    change (apply_status_seq k s ((v, b, e) :: fs))
      with (apply_status_seq k (mkMS (mkStatus v b e) (ms_rest s)) fs).
    destruct (IH (mkMS (mkStatus v b e) (ms_rest s))) as [IH1 IH2].
    split; [|rewrite IH2; reflexivity].
    rewrite IH1. destruct fs as [|g fs']; [reflexivity|].
    change (last ((v, b, e) :: g :: fs') (query_status s)) with (last (g :: fs') (query_status s)).
    apply last_nonempty_default.
Qed.

Definition all_triples : list (bool * bool * bool) :=
  [(false,false,false); (false,false,true); (false,true,false); (false,true,true);
   (true,false,false); (true,false,true); (true,true,false); (true,true,true)].

Lemma all_triples_complete : forall v b e, In (v, b, e) all_triples.
Proof. intros [|] [|] [|]; simpl; tauto. Qed.
