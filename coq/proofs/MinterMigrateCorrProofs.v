(* world level (SaleCorr): a migration item never changes the tracked balances *)
From LP Require Import Num Pay Sg1 Bank MinterVending MinterMigrate SaleCorr.
Local Open Scope N_scope.

Lemma run_steps_migrate_bal vr accts s b m i :
  snd (fst (run_steps vr accts s b [IMigrate m] i)) = b.
Proof.
  cbn [run_steps].
  destruct (minter_migrate vr (mg_now m) (mg_name_ok m) (mg_stored m) (mg_admin m) s) as [s'|].
  - destruct (negb (mg_ok m)); [ reflexivity | ]. destruct (migrate_agrees vr accts s' b m); reflexivity.
  - destruct (mg_ok m); [ reflexivity | ]. destruct (migrate_agrees vr accts s b m); reflexivity.
Qed.
