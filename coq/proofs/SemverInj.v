From Coq Require Import String Ascii List Bool ZArith Lia ZifyN ZifyBool.
From LP Require Import Semver SemverProofs.
Local Open Scope N_scope.

Definition slen (s : string) : N := N.of_nat (String.length s).

Lemma slen_cons c r : slen (String c r) = slen r + 1.
Proof. unfold slen. cbn [String.length]. lia. Qed.

Lemma digit_of_lt : forall c d, digit_of c = Some d -> d < 10 /\ N_of_ascii c = d + 48.
Proof.
  intros c d H. unfold digit_of in H.
  destruct ((48 <=? N_of_ascii c) && (N_of_ascii c <=? 57)) eqn:E; [|discriminate].
  inversion H; subst. lia.
Qed.

Lemma digit_of_inj : forall c c' d, digit_of c = Some d -> digit_of c' = Some d -> c = c'.
Proof.
  intros c c' d H H'. apply digit_of_lt in H as [_ H]. apply digit_of_lt in H' as [_ H'].
  rewrite <- (ascii_N_embedding c), <- (ascii_N_embedding c'). congruence.
Qed.

Lemma digits_val_split : forall s acc v, digits_val s acc = Some v ->
  exists w, v = acc * 10 ^ slen s + w /\ w < 10 ^ slen s.
Proof.
  induction s as [|c r IH]; intros acc v H.
  - cbn in H. inversion H; subst. exists 0. unfold slen. cbn. lia.
  - cbn [digits_val] in H. destruct (digit_of c) as [d|] eqn:Hd; [|discriminate].
    apply digit_of_lt in Hd as [Hd _].
    destruct (IH _ _ H) as [w [-> Hw]]. rewrite slen_cons, N.pow_add_r, N.pow_1_r.
    exists (d * 10 ^ slen r + w). split; [lia|].
    assert (0 < 10 ^ slen r) by (apply N.neq_0_lt_0, N.pow_nonzero; lia). nia.
Qed.

Lemma digits_val_inj_len : forall s t acc v, String.length s = String.length t ->
  digits_val s acc = Some v -> digits_val t acc = Some v -> s = t.
Proof.
  induction s as [|c r IH]; intros [|c' r'] acc v Hl Hs Ht; try discriminate; [reflexivity|].
  cbn [digits_val] in Hs, Ht. cbn [String.length] in Hl. injection Hl as Hl.
  destruct (digit_of c) as [d|] eqn:Hd; [|discriminate].
  destruct (digit_of c') as [d'|] eqn:Hd'; [|discriminate].
  destruct (digits_val_split _ _ _ Hs) as [w [E Hw]].
  destruct (digits_val_split _ _ _ Ht) as [w' [E' Hw']].
  assert (slen r = slen r') as El by (unfold slen; congruence). rewrite <- El in *.
  pose proof (digit_of_lt _ _ Hd) as [Hlt _]. pose proof (digit_of_lt _ _ Hd') as [Hlt' _].
  assert (d = d') by nia. subst d'.
  rewrite (digit_of_inj _ _ _ Hd Hd'). f_equal. eapply IH; eassumption.
Qed.

(* what parse_num's acceptance means *)
Lemma parse_num_inv : forall s v, parse_num s = Some v ->
  exists c r d, s = String c r /\ digit_of c = Some d /\
    (d = 0 -> r = EmptyString) /\ digits_val s 0 = Some v.
Proof.
  intros s v H. unfold parse_num in H. destruct s as [|c r]; [discriminate|].
  destruct ((N_of_ascii c =? 48) && negb match r with EmptyString => true | _ => false end) eqn:Hz; [discriminate|].
  destruct (digits_val (String c r) 0) as [w|] eqn:Hw; [|discriminate].
  destruct (w <=? U64_MAX); [|discriminate]. inversion H; subst.
  pose proof Hw as Hw'. cbn [digits_val] in Hw'.
  destruct (digit_of c) as [d|] eqn:Hd; [|discriminate].
  exists c, r, d. repeat split; try assumption.
  intro Hd0. apply digit_of_lt in Hd as [_ Hd]. subst d.
  destruct r; [reflexivity|]. cbn in Hz. lia.
Qed.

Lemma lead_bounds : forall c r d v, digit_of c = Some d -> digits_val (String c r) 0 = Some v ->
  d * 10 ^ slen r <= v /\ v < (d + 1) * 10 ^ slen r.
Proof.
  intros c r d v Hd H. cbn [digits_val] in H. rewrite Hd in H.
  destruct (digits_val_split _ _ _ H) as [w [-> Hw]]. lia.
Qed.

Lemma pow10_lt_mono : forall a b, a < b -> 10 * 10 ^ a <= 10 ^ b.
Proof.
  intros a b H. replace (10 * 10 ^ a) with (10 ^ (a + 1)) by (rewrite N.pow_add_r, N.pow_1_r; lia).
  apply N.pow_le_mono_r; lia.
Qed.

Lemma parse_num_inj : forall s t v, parse_num s = Some v -> parse_num t = Some v -> s = t.
Proof.
  intros s t v Hs Ht.
  destruct (parse_num_inv _ _ Hs) as [c [r [d [-> [Hd [Hz Hv]]]]]].
  destruct (parse_num_inv _ _ Ht) as [c' [r' [d' [-> [Hd' [Hz' Hv']]]]]].
  destruct (lead_bounds _ _ _ _ Hd Hv) as [Lo Hi].
  destruct (lead_bounds _ _ _ _ Hd' Hv') as [Lo' Hi'].
  pose proof (digit_of_lt _ _ Hd) as [Hlt _]. pose proof (digit_of_lt _ _ Hd') as [Hlt' _].
  assert (0 < 10 ^ slen r) as P by (apply N.neq_0_lt_0, N.pow_nonzero; lia).
  assert (0 < 10 ^ slen r') as P' by (apply N.neq_0_lt_0, N.pow_nonzero; lia).
  assert (slen r = slen r') as El.
  { destruct (N.lt_trichotomy (slen r) (slen r')) as [L|[E|L]]; [|exact E|].
    - exfalso. pose proof (pow10_lt_mono _ _ L) as M.
      destruct (N.eq_dec d' 0) as [Z|NZ].
      + specialize (Hz' Z). subst r'. unfold slen in L. cbn in L. lia.
      + assert (10 ^ slen r' <= v) by nia. assert (v < 10 * 10 ^ slen r) by nia. lia.
    - exfalso. pose proof (pow10_lt_mono _ _ L) as M.
      destruct (N.eq_dec d 0) as [Z|NZ].
      + specialize (Hz Z). subst r. unfold slen in L. cbn in L. lia.
      + assert (10 ^ slen r <= v) by nia. assert (v < 10 * 10 ^ slen r') by nia. lia. }
  eapply digits_val_inj_len; [|eassumption|eassumption].
  cbn [String.length]. f_equal. unfold slen in El. lia.
Qed.

(* split_dot is injective: the pieces determine the string *)
Lemma split_dot_nonempty : forall s, split_dot s <> [].
Proof.
  induction s as [|c r IH]; cbn [split_dot]; [discriminate|].
  destruct (is_dot c); [discriminate|]. destruct (split_dot r); discriminate.
Qed.

Lemma all_digits_no_dot : forall s, all_chars is_digit s = true -> all_chars (fun c => negb (is_dot c)) s = true.
Proof.
  induction s as [|c r IH]; cbn [all_chars]; intro H; [reflexivity|].
  apply andb_prop in H as [Hc Hr]. rewrite (IH Hr).
  unfold is_digit in Hc. destruct (digit_of c) as [d|] eqn:Hd; [|discriminate].
  apply digit_of_lt in Hd as [_ Hd]. unfold is_dot. 
  assert (N_of_ascii c =? 46 = false) as -> by lia. reflexivity.
Qed.

Lemma is_dot_eq : forall c c', is_dot c = true -> is_dot c' = true -> c = c'.
Proof.
  unfold is_dot. intros c c' H H'.
  rewrite <- (ascii_N_embedding c), <- (ascii_N_embedding c'). f_equal. lia.
Qed.

Lemma split_dot_inj : forall s t, split_dot s = split_dot t -> s = t.
Proof.
  induction s as [|c r IH]; intros [|c' r'] H.
  - reflexivity.
  - exfalso. cbn [split_dot] in H. destruct (is_dot c') eqn:D.
    + injection H as H. symmetry in H. exact (split_dot_nonempty _ H).
    + destruct (split_dot r'); discriminate.
  - exfalso. cbn [split_dot] in H. destruct (is_dot c) eqn:D.
    + injection H as H. exact (split_dot_nonempty _ H).
    + destruct (split_dot r); discriminate.
  - cbn [split_dot] in H. destruct (is_dot c) eqn:D; destruct (is_dot c') eqn:D'.
    + injection H as H. rewrite (IH _ H), (is_dot_eq _ _ D D'). reflexivity.
    + destruct (split_dot r'); discriminate.
    + destruct (split_dot r); discriminate.
    + pose proof (split_dot_nonempty r) as N. pose proof (split_dot_nonempty r') as N'.
      destruct (split_dot r) as [|h tl] eqn:E; [congruence|].
      destruct (split_dot r') as [|h' tl'] eqn:E'; [congruence|].
      injection H as Hc Hh Ht. subst. rewrite (IH r'); [reflexivity|]. rewrite E'. reflexivity.
Qed.

(* the spelling of a version is canonical: two strings that parse to the same version
   are the same string (so comparing stored cw2 version *strings* for equality is the
   same as comparing versions — unlike ordering them, see semver_not_string_order) *)
Lemma parse_version_inj : forall s t v,
  parse_version s = Some v -> parse_version t = Some v -> s = t.
Proof.
  intros s t v Hs Ht. unfold parse_version in Hs, Ht.
  destruct (split_dot s) as [|a [|b [|c [|x l]]]] eqn:Es; try discriminate.
  destruct (split_dot t) as [|a' [|b' [|c' [|x' l']]]] eqn:Et; try discriminate.
  destruct (parse_num a) eqn:Ha; [|discriminate].
  destruct (parse_num b) eqn:Hb; [|discriminate].
  destruct (parse_num c) eqn:Hc; [|discriminate].
  destruct (parse_num a') eqn:Ha'; [|discriminate].
  destruct (parse_num b') eqn:Hb'; [|discriminate].
  destruct (parse_num c') eqn:Hc'; [|discriminate].
  inversion Hs; subst. inversion Ht; subst.
  apply split_dot_inj. rewrite Es, Et.
  rewrite (parse_num_inj _ _ _ Ha Ha'), (parse_num_inj _ _ _ Hb Hb'), (parse_num_inj _ _ _ Hc Hc').
  reflexivity.
Qed.
