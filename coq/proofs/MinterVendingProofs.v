(* Supply invariants of the vending-minter model (C01) and generic step facts reused by
   the other sale-world properties. *)
From LP Require Import Num Pay Sg1 MinterVending.
From Coq Require Import ZArith Lia ZifyN ZifyBool Permutation.
Local Open Scope N_scope.

(* ---------- generic destructuring of handler results ---------- *)
Ltac inv H := inversion H; subst; clear H.

Lemma bind_ok {A B} (r : result A) (f : A -> result B) b :
  bind r f = Ok b -> exists a, r = Ok a /\ f a = Ok b.
Proof. destruct r as [a|]; cbn [bind]; intros H; [ eauto | discriminate ]. Qed.

Lemma guard_ok b : guard b = Ok tt -> b = true.
Proof. destruct b; cbn; congruence. Qed.

(* break one layer of a hypothesis  H : (bind / if / match) = Ok _ *)
Ltac step_hyp H :=
  match type of H with
  | bind ?r ?f = Ok _ =>
      let a := fresh "a" in let Ha := fresh "Ha" in
      apply bind_ok in H; destruct H as [a [Ha H]]
  | (if ?c then _ else _) = Ok _ =>
      let E := fresh "E" in destruct c eqn:E; [ | ]; try discriminate H
  | (let '(_, _) := ?p in _) = Ok _ => destruct p
  | (match ?x with _ => _ end) = Ok _ =>
      let E := fresh "E" in destruct x eqn:E; try discriminate H
  | Err = Ok _ => discriminate H
  end.

Ltac bind_in H x Hx := apply bind_ok in H; destruct H as [x [Hx H]].

(* ---------- lists of (position, id) ---------- *)
Definition ids (ps : list (N * N)) : list N := map snd ps.
Definition keys (ps : list (N * N)) : list N := map fst ps.

Lemma find_id_in ps id p : find_id ps id = Some p -> In (p, id) ps.
Proof.
  induction ps as [|[q i] r IH]; cbn [find_id]; [ discriminate | ].
  destruct (i =? id) eqn:E.
  - intros H. inv H. apply N.eqb_eq in E. subst. left. reflexivity.
  - intros H. right. auto.
Qed.

Lemma find_id_none ps id : find_id ps id = None -> ~ In id (ids ps).
Proof.
  induction ps as [|[q i] r IH]; cbn [find_id ids map snd]; [ tauto | ].
  destruct (i =? id) eqn:E; [ discriminate | ].
  apply N.eqb_neq in E. intros H [K|K]; [ congruence | ]. apply IH in H. apply H. exact K.
Qed.

Lemma find_id_some_in ps id : In id (ids ps) -> exists p, find_id ps id = Some p.
Proof.
  destruct (find_id ps id) eqn:E; [ eauto | ]. intros H. apply find_id_none in E. contradiction.
Qed.

(* removing position p = removing the entry (p, id), when keys are unique *)
Lemma remove_pos_ids ps p id :
  NoDup (keys ps) -> NoDup (ids ps) -> find_id ps id = Some p ->
  Permutation (ids ps) (id :: ids (remove_pos ps p)) /\
  NoDup (keys (remove_pos ps p)) /\
  (forall x, In x (ids (remove_pos ps p)) -> In x (ids ps) /\ x <> id) /\
  length (remove_pos ps p) = pred (length ps).
Proof.
  induction ps as [|[q i] r IH]; cbn [find_id]; [ discriminate | ].
  intros Hk Hi Hf. cbn [keys ids map fst snd] in Hk, Hi.
  apply NoDup_cons_iff in Hk. destruct Hk as [Hq Hk].
  apply NoDup_cons_iff in Hi. destruct Hi as [Hii Hi].
  cbn [remove_pos]. destruct (i =? id) eqn:E.
  - inv Hf. apply N.eqb_eq in E. subst i. rewrite N.eqb_refl.
    cbn [ids map snd]. split; [ apply Permutation_refl | ]. split; [ exact Hk | ]. split; [ | reflexivity ].
    intros x Hx. split; [ right; exact Hx | intro; subst; contradiction ].
  - apply N.eqb_neq in E.
    assert (Hqp : q <> p).
    { intro; subst q. apply Hq. apply find_id_in in Hf. change (In (fst (p, id)) (map fst r)).
      apply in_map. exact Hf. }
    apply N.eqb_neq in Hqp. rewrite Hqp.
    specialize (IH Hk Hi Hf). destruct IH as [P [K [S L]]].
    cbn [ids keys map fst snd length]. repeat split.
    + change (Permutation (i :: ids r) (id :: i :: ids (remove_pos r p))).
      eapply perm_trans; [ apply perm_skip; exact P | apply perm_swap ].
    + constructor; [ | exact K ].
      intro H. apply Hq. clear - H.
      induction r as [|[a b] r IH]; cbn in *; [ tauto | ].
      destruct (a =? p); cbn in *; tauto.
    + destruct H as [H|H]; [ subst; left; reflexivity | right; apply S; exact H ].
    + destruct H as [H|H]; [ subst; congruence | apply S; exact H ].
    + rewrite L. apply find_id_in in Hf. destruct r; [ contradiction | reflexivity ].
Qed.

Lemma retable_keys ps new : length new = length ps -> keys (retable ps new) = keys ps.
Proof.
  revert new. induction ps as [|[p i] r IH]; intros [|x new]; cbn; try discriminate; auto.
  intros H. f_equal. apply IH. congruence.
Qed.
Lemma retable_ids ps new : length new = length ps -> ids (retable ps new) = new.
Proof.
  revert new. induction ps as [|[p i] r IH]; intros [|x new]; cbn; try discriminate; auto.
  intros H. f_equal. apply IH. congruence.
Qed.
Lemma retable_length ps new : length new = length ps -> length (retable ps new) = length ps.
Proof.
  revert new. induction ps as [|[p i] r IH]; intros [|x new]; cbn; try discriminate; auto.
Qed.

(* same_ids a b = true, NoDup a  ->  b is a permutation of a *)
Lemma count_occ_N_in l x : 0 < count_occ_N l x <-> In x l.
Proof.
  induction l as [|y r IH]; cbn [count_occ_N In]; [ lia | ].
  destruct (y =? x) eqn:E.
  - apply N.eqb_eq in E. split; [ auto | lia ].
  - apply N.eqb_neq in E. rewrite N.add_0_l, IH. split; [ auto | intros [H|H]; [ congruence | exact H ] ].
Qed.

Lemma NoDup_count a x : NoDup a -> In x a -> count_occ_N a x = 1.
Proof.
  induction 1 as [|y r Hn Hd IH]; cbn [In count_occ_N]; [ tauto | ].
  intros [H|H].
  - subst. rewrite N.eqb_refl.
    assert (count_occ_N r x = 0); [ | lia ].
    destruct (count_occ_N r x) eqn:E; [ reflexivity | ].
    exfalso. apply Hn. apply count_occ_N_in. lia.
  - destruct (y =? x) eqn:E; [ apply N.eqb_eq in E; subst; contradiction | ]. rewrite IH by assumption. lia.
Qed.

Lemma same_ids_perm a b : NoDup a -> same_ids a b = true -> Permutation a b.
Proof.
  unfold same_ids. intros Hd H. apply andb_prop in H. destruct H as [Hl Hc].
  apply N.eqb_eq in Hl. apply Nnat.Nat2N.inj in Hl.
  rewrite forallb_forall in Hc.
  assert (Hincl : incl a b).
  { intros x Hx. apply count_occ_N_in. specialize (Hc x Hx). apply N.eqb_eq in Hc.
    rewrite <- Hc. rewrite NoDup_count by assumption. lia. }
  apply NoDup_Permutation_bis; auto. lia.
Qed.

(* ---------- the supply invariant ---------- *)
Definition in_range (n : N) (l : list N) : Prop := forall x, In x l -> 1 <= x <= n.

Record InvV (n : N) (s : vstate) : Prop := mkInv {
  inv_n : s_num_tokens s = n;
  inv_keys : NoDup (keys (s_positions s));
  inv_ids : NoDup (ids (s_positions s));
  inv_range : in_range n (ids (s_positions s));
  inv_minted_nodup : NoDup (s_minted s);
  inv_minted_range : in_range n (s_minted s);
  inv_disjoint : forall x, In x (s_minted s) -> ~ In x (ids (s_positions s));
  inv_len : N.of_nat (length (s_positions s)) = s_mintable s;
  inv_count : s_mintable s + N.of_nat (length (s_minted s)) + s_burned s = n
}.

(* what a successful execute_mint_core does to the supply fields *)
Fixpoint nft_msgs (ms : list omsg) : list (N * addr) :=
  match ms with
  | [] => []
  | OMintNft t o :: r => (t, o) :: nft_msgs r
  | _ :: r => nft_msgs r
  end.

Lemma nft_msgs_app a b : nft_msgs (a ++ b) = nft_msgs a ++ nft_msgs b.
Proof. induction a as [|[m|t o|t] r IH]; cbn [nft_msgs app]; [ reflexivity | exact IH | rewrite IH; reflexivity | exact IH ]. Qed.
Lemma nft_msgs_bank l : nft_msgs (map OBank l) = [].
Proof. induction l; cbn; auto. Qed.

Lemma mint_core_supply vr s e fp wv adm rcp tok choice isp s' ms :
  execute_mint_core vr s e fp wv adm rcp tok choice isp = Ok (s', ms) ->
  exists tid pos,
    find_id (s_positions s) tid = Some pos /\
    s_mintable s <> 0 /\
    (match tok with Some t => tid = t | None => tid = choice /\ legal_choice (s_positions s) choice = true end) /\
    s_positions s' = remove_pos (s_positions s) pos /\
    s_mintable s' = s_mintable s - 1 /\
    s_minted s' = tid :: s_minted s /\
    s_burned s' = s_burned s /\
    s_num_tokens s' = s_num_tokens s /\
    nft_msgs ms = [(tid, match rcp with Some r => r | None => e_sender e end)].
Proof.
  unfold execute_mint_core. intros H.
  destruct (s_mintable s =? 0) eqn:Em; [ discriminate | ]. apply N.eqb_neq in Em.
  bind_in H u1 Hg.
  bind_in H pr Hpr. destruct pr as [amount dn].
  bind_in H payment Hpay.
  destruct (negb (payment =? amount)); [ discriminate | ].
  match type of H with (if ?c then _ else _) = _ => destruct c; [ discriminate | ] end.
  bind_in H fmsgs Hfm.
  bind_in H tid Htid.
  bind_in H pos Hpos.
  destruct (find_id (s_positions s) tid) as [p|] eqn:Ef; [ | discriminate ]. inv Hpos.
  bind_in H s1 Hs1.
  bind_in H smsgs Hsm. inv H.
  exists tid, pos.
  assert (Htok : match tok with Some t => tid = t | None => tid = choice /\ legal_choice (s_positions s) choice = true end).
  { destruct tok as [t|].
    - destruct (find_id (s_positions s) t); inv Htid. reflexivity.
    - destruct (legal_choice (s_positions s) choice) eqn:El; inv Htid. auto. }
  assert (Hfields : s_positions s' = remove_pos (s_positions s) pos /\ s_mintable s' = s_mintable s - 1 /\
                    s_minted s' = tid :: s_minted s /\ s_burned s' = s_burned s /\ s_num_tokens s' = s_num_tokens s).
  { destruct isp.
    - inv Hs1. cbn. auto.
    - destruct wv as [v|]; [ | discriminate ].
      bind_in Hs1 c3 Hc3. destruct c3 as [[cnt tiered] stage].
      destruct tiered.
      + destruct stage as [st|]; [ | discriminate ].
        destruct st as [|st]; [ discriminate | ].
        destruct st as [st|st|]; try (destruct st; try discriminate); inv Hs1; cbn; auto.
      + inv Hs1. cbn. auto. }
  destruct Hfields as (F1 & F2 & F3 & F4 & F5).
  repeat split; auto.
  rewrite !nft_msgs_app, !nft_msgs_bank. cbn [nft_msgs app]. rewrite nft_msgs_bank. reflexivity.
Qed.

Lemma mint_core_inv n vr s e fp wv adm rcp tok choice isp s' ms :
  InvV n s -> execute_mint_core vr s e fp wv adm rcp tok choice isp = Ok (s', ms) -> InvV n s'.
Proof.
  intros I H. apply mint_core_supply in H.
  destruct H as (tid & pos & Hf & Hm & _ & P & M & Mi & B & Nn & _).
  destruct I as [In_ Ik Ii Ir Imd Imr Idj Il Ic].
  destruct (remove_pos_ids _ _ _ Ik Ii Hf) as (Pm & K & S & L).
  assert (Hin : In tid (ids (s_positions s))).
  { apply find_id_in in Hf. change (In (snd (pos, tid)) (map snd (s_positions s))). apply in_map. exact Hf. }
  constructor.
  - congruence.
  - rewrite P. exact K.
  - rewrite P. apply (Permutation_NoDup Pm) in Ii. apply NoDup_cons_iff in Ii. tauto.
  - rewrite P. intros x Hx. apply Ir. apply S. exact Hx.
  - rewrite Mi. constructor; [ | exact Imd ]. intro Hx. apply (Idj _ Hx). exact Hin.
  - rewrite Mi. intros x [Hx|Hx]; [ subst; apply Ir; exact Hin | apply Imr; exact Hx ].
  - rewrite Mi, P. intros x [Hx|Hx] Hy.
    + subst x. apply S in Hy. destruct Hy as [_ Hy]. congruence.
    + apply S in Hy. destruct Hy as [Hy _]. apply (Idj _ Hx Hy).
  - rewrite P, M, L. rewrite <- Il.
    assert (length (s_positions s) <> 0%nat) by (intro Z; rewrite Z in Il; cbn in Il; congruence). lia.
  - rewrite M, Mi, B. cbn [length]. lia.
Qed.

(* config updates keep the supply fields *)
Lemma set_config_inv n s pal wl start price disc last : InvV n s -> InvV n (set_config s pal wl start price disc last).
Proof. intros [? ? ? ? ? ? ? ? ?]. constructor; cbn; auto. Qed.

(* ---------- one step ---------- *)
Theorem step_inv n vr s e fp wv o s' ms :
  InvV n s -> step vr s e fp wv o = Ok (s', ms) -> InvV n s'.
Proof.
  intros I H. destruct o; cbn [step] in H.
  - (* Mint *) repeat step_hyp H. all: eapply mint_core_inv; eauto.
  - repeat step_hyp H. eapply mint_core_inv; eauto.
  - repeat step_hyp H. eapply mint_core_inv; eauto.
  - (* Purge *) repeat step_hyp H. inv H. destruct I. constructor; cbn; auto.
  - (* Shuffle *)
    repeat step_hyp H. inv H. destruct I as [In_ Ik Ii Ir Imd Imr Idj Il Ic].
    apply negb_false_iff in E0.
    pose proof (same_ids_perm _ _ Ii E0) as P.
    assert (Hlen : length newids = length (s_positions s)).
    { apply Permutation_length in P. unfold ids in P. rewrite map_length in P. congruence. }
    constructor; cbn.
    + exact In_.
    + rewrite retable_keys by assumption. exact Ik.
    + rewrite retable_ids by assumption. eapply Permutation_NoDup; eauto.
    + rewrite retable_ids by assumption. intros x Hx. apply Ir. eapply Permutation_in; [ apply Permutation_sym; exact P | exact Hx ].
    + exact Imd.
    + exact Imr.
    + rewrite retable_ids by assumption. intros x Hx Hy. apply (Idj _ Hx).
      eapply Permutation_in; [ apply Permutation_sym; exact P | exact Hy ].
    + rewrite retable_length by assumption. exact Il.
    + exact Ic.
  - (* BurnRemaining *)
    repeat step_hyp H. inv H. destruct I as [In_ Ik Ii Ir Imd Imr Idj Il Ic].
    constructor; cbn; auto.
    + constructor.
    + constructor.
    + intros x [].
    + rewrite Il. lia.
    + rewrite Il. lia.
  - repeat step_hyp H. inv H. apply set_config_inv. exact I.
  - repeat step_hyp H. inv H. apply set_config_inv. exact I.
  - (* trading time *) repeat step_hyp H; inv H; destruct I; constructor; cbn; auto.
  - repeat step_hyp H. inv H. apply set_config_inv. exact I.
  - repeat step_hyp H. inv H. apply set_config_inv. exact I.
  - repeat step_hyp H. inv H. apply set_config_inv. exact I.
  - repeat step_hyp H. inv H. apply set_config_inv. exact I.
Qed.

(* ---------- histories ---------- *)
Record call := mkCall { c_env : env; c_fp : fparams; c_wv : option wlview; c_op : vop }.

(* a failed call leaves the state as it was *)
Definition apply_call (vr : variant) (s : vstate) (c : call) : vstate :=
  match step vr s (c_env c) (c_fp c) (c_wv c) (c_op c) with
  | Ok (s', _) => s'
  | Err => s
  end.
Definition run (vr : variant) (s : vstate) (cs : list call) : vstate := fold_left (apply_call vr) cs s.

Theorem run_inv n vr cs : forall s, InvV n s -> InvV n (run vr s cs).
Proof.
  induction cs as [|c cs IH]; intros s I; cbn [run fold_left]; [ exact I | ].
  apply IH. unfold apply_call.
  destruct (step vr s (c_env c) (c_fp c) (c_wv c) (c_op c)) as [[s' ms]|] eqn:E; [ | exact I ].
  eapply step_inv; eauto.
Qed.

(* the state a minter is created with: a table over keys 1..n whose ids are a
   permutation of 1..n (what instantiate stores; the harness validates it on the real
   raw storage) *)
Definition seqN (n : N) : list N := map N.of_nat (seq 1 (N.to_nat n)).

Definition fresh_state (s : vstate) (n : N) (tbl : list (N * N)) : Prop :=
  s_num_tokens s = n /\ s_positions s = tbl /\ s_mintable s = n /\ s_minted s = [] /\ s_burned s = 0.

Lemma seqN_spec n x : In x (seqN n) <-> 1 <= x <= n.
Proof.
  unfold seqN. rewrite in_map_iff. split.
  - intros [k [Hk Hin]]. apply in_seq in Hin. lia.
  - intros H. exists (N.to_nat x). split; [ apply Nnat.N2Nat.id | apply in_seq; lia ].
Qed.
Lemma seqN_length n : N.of_nat (length (seqN n)) = n.
Proof. unfold seqN. rewrite map_length, seq_length. apply Nnat.N2Nat.id. Qed.
Lemma seqN_nodup n : NoDup (seqN n).
Proof.
  unfold seqN. apply FinFun.Injective_map_NoDup; [ | apply seq_NoDup ].
  intros a b H. apply Nnat.Nat2N.inj. exact H.
Qed.

Theorem init_inv n s tbl :
  fresh_state s n tbl -> NoDup (keys tbl) -> Permutation (ids tbl) (seqN n) -> InvV n s.
Proof.
  intros (Hn & Hp & Hm & Hmi & Hb) Hk Hperm.
  constructor.
  - exact Hn.
  - rewrite Hp. exact Hk.
  - rewrite Hp. eapply Permutation_NoDup; [ apply Permutation_sym; exact Hperm | apply seqN_nodup ].
  - rewrite Hp. intros x Hx. apply seqN_spec. eapply Permutation_in; eauto.
  - rewrite Hmi. constructor.
  - rewrite Hmi. intros x [].
  - rewrite Hmi. intros x [].
  - rewrite Hp, Hm. apply Permutation_length in Hperm. unfold ids in Hperm. rewrite map_length in Hperm.
    rewrite Hperm. apply seqN_length.
  - rewrite Hm, Hmi, Hb. cbn [length]. lia.
Qed.

(* ---------- the user-facing corollaries ---------- *)

(* every token handed to the collection is in range, was still mintable and was never
   handed out before *)
Theorem minted_token_fresh n vr s e fp wv o s' ms t owner :
  InvV n s -> step vr s e fp wv o = Ok (s', ms) -> In (t, owner) (nft_msgs ms) ->
  1 <= t <= n /\ In t (ids (s_positions s)) /\ ~ In t (s_minted s) /\ s_minted s' = t :: s_minted s.
Proof.
  intros I H Hin.
  assert (Hcore : forall adm rcp tok choice isp,
             execute_mint_core vr s e fp wv adm rcp tok choice isp = Ok (s', ms) ->
             1 <= t <= n /\ In t (ids (s_positions s)) /\ ~ In t (s_minted s) /\ s_minted s' = t :: s_minted s).
  { intros adm rcp tok choice isp Hc. apply mint_core_supply in Hc.
    destruct Hc as (tid & pos & Hf & _ & _ & _ & _ & Mi & _ & _ & Hn).
    rewrite Hn in Hin. destruct Hin as [Hin|[]]. inv Hin.
    assert (Hi : In t (ids (s_positions s))).
    { apply find_id_in in Hf. change (In (snd (pos, t)) (map snd (s_positions s))). apply in_map. exact Hf. }
    destruct I. repeat split; auto; try (apply inv_range0; exact Hi).
    intro Hx. apply (inv_disjoint0 _ Hx Hi). }
  destruct o; cbn [step] in H; repeat step_hyp H; try (eapply Hcore; eassumption);
    try (inv H; cbn in Hin; try rewrite nft_msgs_bank in Hin; contradiction).
Qed.

(* mint-for delivers exactly the requested id (or fails) *)
Theorem mint_for_exact vr s e fp wv t rok r s' ms :
  step vr s e fp wv (OMintFor t rok r) = Ok (s', ms) -> nft_msgs ms = [(t, r)].
Proof.
  cbn [step]. intros H. repeat step_hyp H. apply mint_core_supply in H.
  destruct H as (tid & pos & _ & _ & Ht & _ & _ & _ & _ & _ & Hn). subst tid. exact Hn.
Qed.

(* a random mint takes one of the first / last min(50, remaining) positions *)
Theorem random_pick_in_window vr s e fp wv stage proof alloc choice s' ms :
  step vr s e fp wv (OMint stage proof alloc choice) = Ok (s', ms) ->
  legal_choice (s_positions s) choice = true /\ exists o, nft_msgs ms = [(choice, o)].
Proof.
  cbn [step]. intros H. repeat step_hyp H; apply mint_core_supply in H;
    destruct H as (tid & pos & _ & _ & [Ht Hl] & _ & _ & _ & _ & _ & Hn); subst tid; eauto.
Qed.

(* shuffle: same positions, same ids (as a multiset), same counter *)
Theorem shuffle_preserves n vr s e fp wv newids s' ms :
  InvV n s -> step vr s e fp wv (OShuffle newids) = Ok (s', ms) ->
  Permutation (ids (s_positions s)) (ids (s_positions s')) /\
  keys (s_positions s') = keys (s_positions s) /\
  s_mintable s' = s_mintable s /\ s_minted s' = s_minted s /\ s_burned s' = s_burned s /\ nft_msgs ms = [].
Proof.
  intros I H. cbn [step] in H. repeat step_hyp H. inv H. cbn.
  apply negb_false_iff in E0. destruct I.
  pose proof (same_ids_perm _ _ inv_ids0 E0) as P.
  assert (Hlen : length newids = length (s_positions s)).
  { apply Permutation_length in P. unfold ids in P. rewrite map_length in P. congruence. }
  rewrite retable_ids, retable_keys by assumption. rewrite nft_msgs_bank. repeat split; auto.
Qed.

(* nothing is ever minted at zero *)
Theorem mint_at_zero_fails vr s e fp wv o :
  s_mintable s = 0 ->
  (match o with OMint _ _ _ _ | OMintTo _ _ _ | OMintFor _ _ _ => True | _ => False end) ->
  step vr s e fp wv o = Err.
Proof.
  intros Hz Ho. destruct (step vr s e fp wv o) as [[s' ms]|] eqn:H; [ exfalso | reflexivity ].
  destruct o; try contradiction; cbn [step] in H; repeat step_hyp H;
    apply mint_core_supply in H; destruct H as (? & ? & _ & Hm & _); congruence.
Qed.

(* the counter never goes up, so after a successful burn-remaining (counter 0) nothing
   can be minted in any future *)
Theorem mintable_never_increases vr s e fp wv o s' ms :
  step vr s e fp wv o = Ok (s', ms) -> s_mintable s' <= s_mintable s.
Proof.
  intros H.
  assert (Hcore : forall adm rcp tok choice isp,
             execute_mint_core vr s e fp wv adm rcp tok choice isp = Ok (s', ms) -> s_mintable s' <= s_mintable s).
  { intros. apply mint_core_supply in H0. destruct H0 as (? & ? & _ & _ & _ & _ & M & _). lia. }
  destruct o; cbn [step] in H; repeat step_hyp H; try (eapply Hcore; eassumption); inv H; cbn; lia.
Qed.

Theorem burn_remaining_zero n vr s e fp wv s' ms :
  InvV n s -> step vr s e fp wv OBurnRemaining = Ok (s', ms) ->
  s_mintable s' = 0 /\ s_positions s' = [] /\ s_minted s' = s_minted s /\ nft_msgs ms = [].
Proof.
  intros I H. cbn [step] in H. repeat step_hyp H. inv H. cbn. destruct I. rewrite inv_len0. repeat split; auto. lia.
Qed.

Theorem zero_is_forever vr cs : forall s, s_mintable s = 0 -> s_mintable (run vr s cs) = 0.
Proof.
  induction cs as [|c cs IH]; intros s Hz; cbn [run fold_left]; [ exact Hz | ].
  apply IH. unfold apply_call.
  destruct (step vr s (c_env c) (c_fp c) (c_wv c) (c_op c)) as [[s' ms]|] eqn:E; [ | exact Hz ].
  apply mintable_never_increases in E. lia.
Qed.
