(* C06, call-site layer: every place in the contracts that disposes of a protocol fee
   follows the schedule of the property text.  Short corollaries of Sg1Proofs (what the
   sg1 functions emit) and of the bank lemmas of C02Proofs (what the messages do to
   balances). *)
From LP Require Import Num Pay Sg1 Bank FeeSites Consts NumLemmas Sg1Proofs C02Proofs.
From Coq Require Import ZArith Lia ZifyN ZifyBool.
Ltac Zify.zify_post_hook ::= Z.div_mod_to_equations.
Local Open Scope N_scope.

(* ---------- payments ---------- *)
Lemma must_pay_single d p : p <> 0 -> must_pay [mkCoin d p] d = Ok p.
Proof.
  intros Hp. unfold must_pay, one_coin. cbn [c_amount c_denom].
  apply N.eqb_neq in Hp. rewrite Hp. cbn [bind c_denom c_amount]. rewrite N.eqb_refl. reflexivity.
Qed.

Lemma may_pay_single d p : may_pay [mkCoin d p] d = Ok p.
Proof. unfold may_pay. cbn [c_amount c_denom]. rewrite N.eqb_refl. reflexivity. Qed.

Lemma must_pay_may_pay funds d p : must_pay funds d = Ok p -> may_pay funds d = Ok p.
Proof. intros H. apply must_pay_ok_shape in H. destruct H as [-> _]. apply may_pay_single. Qed.

Lemma paid_one d p dd : paid [mkCoin d p] dd = if dd =? d then p else 0.
Proof. cbn [paid c_denom c_amount]. destruct (dd =? d); lia. Qed.

(* the fair burn of F on behalf of `self`, no developer: the documented numbers *)
Definition burn_and_pool (self : addr) (F : N) : list bmsg :=
  [Burn NATIVE (F / 2); FundPool self NATIVE (F - F / 2)].

Lemma fair_burn_spec_none self F : fair_burn_spec self F None = burn_and_pool self F.
Proof. reflexivity. Qed.

Lemma checked_single self F p :
  checked_fair_burn self [mkCoin NATIVE p] F None =
  if p <? F then Err else if p =? 0 then Ok [] else Ok (burn_and_pool self F).
Proof. rewrite checked_fair_burn_cases, may_pay_single. reflexivity. Qed.

(* ---------- the factories ---------- *)
Lemma creation_native_exact k self md F p :
  p <> 0 -> F <= p -> (k = FsOpen -> p = F) ->
  site_creation_fee k self NATIVE md F [mkCoin NATIVE p] = Ok (burn_and_pool self F).
Proof.
  intros Hp Hle Hex. unfold site_creation_fee. rewrite (must_pay_single _ _ Hp). cbn [bind].
  assert (G : (match k with FsOpen => guard (p =? F) | _ => Ok tt end) = Ok tt).
  { destruct k; try reflexivity. rewrite (Hex eq_refl), N.eqb_refl. reflexivity. }
  rewrite G. cbn [bind]. rewrite N.eqb_refl, checked_single.
  assert (E1 : p <? F = false) by (apply N.ltb_ge; exact Hle). rewrite E1.
  apply N.eqb_neq in Hp. rewrite Hp. reflexivity.
Qed.

Lemma creation_non_native_exact k self d md F p :
  d <> NATIVE -> p <> 0 -> F <= p -> (k = FsOpen -> p = F) ->
  site_creation_fee k self d md F [mkCoin d p] = Ok [Send A_LAUNCHPAD_DAO d p].
Proof.
  intros Hd Hp Hle Hex. unfold site_creation_fee. rewrite (must_pay_single _ _ Hp). cbn [bind].
  assert (G : (match k with FsOpen => guard (p =? F) | _ => Ok tt end) = Ok tt).
  { destruct k; try reflexivity. rewrite (Hex eq_refl), N.eqb_refl. reflexivity. }
  rewrite G. cbn [bind]. apply N.eqb_neq in Hd. rewrite Hd.
  rewrite transfer_to_dao_cases, (must_pay_single _ _ Hp).
  assert (E1 : p <? F = false) by (apply N.ltb_ge; exact Hle). rewrite E1. reflexivity.
Qed.

Lemma creation_rejects k self fd md F funds :
  (must_pay funds fd = Err \/ exists p, must_pay funds fd = Ok p /\ p < F) ->
  site_creation_fee k self fd md F funds = Err.
Proof.
  intros [He | [p [Hp Hlt]]]; unfold site_creation_fee.
  - rewrite He. reflexivity.
  - rewrite Hp. cbn [bind]. apply N.ltb_lt in Hlt.
    destruct (match k with FsOpen => guard (p =? F) | _ => Ok tt end); cbn [bind]; [ | reflexivity ].
    destruct (fd =? NATIVE) eqn:Ed.
    + apply N.eqb_eq in Ed. subst fd. rewrite checked_fair_burn_cases, (must_pay_may_pay _ _ _ Hp), Hlt. reflexivity.
    + rewrite transfer_to_dao_cases, Hp, Hlt. reflexivity.
Qed.

Lemma creation_ignores_mint_denom k self fd md md' F funds :
  site_creation_fee k self fd md F funds = site_creation_fee k self fd md' F funds.
Proof. reflexivity. Qed.

(* everything a successful creation-fee disposal can be *)
Lemma creation_ok_shape k self fd md F funds ms :
  site_creation_fee k self fd md F funds = Ok ms ->
  exists p, funds = [mkCoin fd p] /\ p <> 0 /\ F <= p /\ (k = FsOpen -> p = F) /\
            ms = if fd =? NATIVE then burn_and_pool self F else [Send A_LAUNCHPAD_DAO fd p].
Proof.
  unfold site_creation_fee. intros H.
  destruct (must_pay funds fd) as [p|] eqn:Hp; cbn [bind] in H; [ | discriminate ].
  pose proof (must_pay_ok_shape _ _ _ Hp) as [Hf Hnz]. exists p.
  assert (Hex : k = FsOpen -> p = F).
  { intros ->. cbn in H. unfold guard in H. destruct (p =? F) eqn:E; cbn [bind] in H; [ | discriminate ].
    apply N.eqb_eq. exact E. }
  assert (H' : (if fd =? NATIVE then checked_fair_burn self funds F None
                else transfer_funds_to_launchpad_dao funds F fd) = Ok ms).
  { destruct k; cbn [bind] in H; try exact H.
    unfold guard in H. destruct (p =? F); cbn [bind] in H; [ exact H | discriminate ]. }
  clear H. split; [ exact Hf | ]. split; [ exact Hnz | ].
  destruct (fd =? NATIVE) eqn:Ed.
  - apply N.eqb_eq in Ed. subst fd. rewrite checked_fair_burn_cases, (must_pay_may_pay _ _ _ Hp) in H'.
    destruct (p <? F) eqn:E1; [ discriminate | ]. apply N.ltb_ge in E1.
    apply N.eqb_neq in Hnz. rewrite Hnz in H'. injection H' as <-.
    split; [ exact E1 | ]. split; [ exact Hex | reflexivity ].
  - rewrite transfer_to_dao_cases, Hp in H'.
    destruct (p <? F) eqn:E1; [ discriminate | ]. apply N.ltb_ge in E1. injection H' as <-.
    split; [ exact E1 | ]. split; [ exact Hex | reflexivity ].
Qed.

(* ---------- the fair-burn sites ---------- *)
Lemma fair_burn_site_ok_shape r self F funds ms :
  site_fair_burn_fee r self F funds = Ok ms ->
  exists p, may_pay funds NATIVE = Ok p /\ F <= p /\ (r <> PayAtLeast -> p = F) /\
            ms = if p =? 0 then [] else burn_and_pool self F.
Proof.
  unfold site_fair_burn_fee. destruct r; intros H.
  - rewrite checked_fair_burn_cases in H. destruct (may_pay funds NATIVE) as [p|]; [ | discriminate ].
    exists p. destruct (p <? F) eqn:E1; [ discriminate | ]. apply N.ltb_ge in E1.
    split; [ reflexivity | ]. split; [ exact E1 | ]. split; [ intros C; contradiction | ].
    destruct (p =? 0); injection H as <-; reflexivity.
  - destruct (must_pay funds NATIVE) as [p|] eqn:Hp; cbn [bind] in H; [ | discriminate ].
    exists p. destruct (p =? F) eqn:E; cbn [negb] in H; [ | discriminate ]. apply N.eqb_eq in E. subst p.
    rewrite checked_fair_burn_cases, (must_pay_may_pay _ _ _ Hp), N.ltb_irrefl in H.
    split; [ apply must_pay_may_pay; exact Hp | ]. split; [ lia | ]. split; [ reflexivity | ].
    destruct (F =? 0); injection H as <-; reflexivity.
  - destruct (may_pay funds NATIVE) as [p|] eqn:Hp; cbn [bind] in H; [ | discriminate ].
    exists p. destruct (p =? F) eqn:E; cbn [negb] in H; [ | discriminate ]. apply N.eqb_eq in E. subst p.
    split; [ reflexivity | ]. split; [ lia | ]. split; [ reflexivity | ].
    destruct (0 <? F) eqn:E0.
    + rewrite checked_fair_burn_cases, Hp, N.ltb_irrefl in H.
      destruct (F =? 0); injection H as <-; reflexivity.
    + apply N.ltb_ge in E0. assert (F = 0) by lia. subst F. injection H as <-. reflexivity.
Qed.

Lemma fair_burn_site_exact r self F :
  F <> 0 -> site_fair_burn_fee r self F [mkCoin NATIVE F] = Ok (burn_and_pool self F).
Proof.
  intros HF. pose proof HF as HF'. apply N.eqb_neq in HF'.
  unfold site_fair_burn_fee. destruct r.
  - rewrite checked_single, N.ltb_irrefl, HF'. reflexivity.
  - rewrite (must_pay_single _ _ HF). cbn [bind]. rewrite N.eqb_refl. cbn [negb].
    rewrite checked_single, N.ltb_irrefl, HF'. reflexivity.
  - rewrite may_pay_single. cbn [bind]. rewrite N.eqb_refl. cbn [negb].
    assert (E : 0 <? F = true) by (apply N.ltb_lt; lia). rewrite E.
    rewrite checked_single, N.ltb_irrefl, HF'. reflexivity.
Qed.

Lemma fair_burn_site_rejects r self F funds :
  (may_pay funds NATIVE = Err \/ exists p, may_pay funds NATIVE = Ok p /\ p < F) ->
  site_fair_burn_fee r self F funds = Err.
Proof.
  intros Hbad. destruct (site_fair_burn_fee r self F funds) as [ms|] eqn:H; [ | reflexivity ].
  exfalso. apply fair_burn_site_ok_shape in H. destruct H as [p [Hp [Hle _]]].
  destruct Hbad as [He | [q [Hq Hlt]]]; rewrite Hp in *; [ discriminate | ].
  injection Hq as <-. lia.
Qed.

(* ---------- sg-eth-airdrop ---------- *)
Lemma airdrop_init_cases self funds :
  site_airdrop_init self funds =
  match must_pay funds NATIVE with
  | Err => Err
  | Ok p => if p <? 100000000 then Err else Ok (burn_and_pool self 100000000)
  end.
Proof.
  unfold site_airdrop_init. destruct (must_pay funds NATIVE) as [p|]; cbn [bind]; [ | reflexivity ].
  change sg_eth_airdrop__INSTANTIATION_FEE with 100000000.
  destruct (p <? 100000000); [ reflexivity | ]. rewrite fair_burn_exact. reflexivity.
Qed.

(* ---------- mint fees ---------- *)
Definition msite_featured (k : msite) : bool := match k with MsVending ft => ft | _ => false end.
Definition msite_dev (k : msite) : option addr := match k with MsOpen dv _ => Some dv | _ => None end.
Definition msite_valid (k : msite) : bool := match k with MsOpen _ v => v | _ => true end.

Lemma mint_site_cases k d price bps funds :
  site_mint_fee k d price bps funds =
  match may_pay funds d with
  | Err => Err
  | Ok p => if negb (p =? price) then Err
            else if price * bps / 10000 =? 0 then Ok []
            else if msite_valid k
                 then Ok (mint_fees_spec d (price * bps / 10000) (msite_featured k) (msite_dev k))
                 else Err
  end.
Proof.
  unfold site_mint_fee, mint_fee. destruct (may_pay funds d) as [p|]; cbn [bind]; [ | reflexivity ].
  destruct (negb (p =? price)); [ reflexivity | ].
  destruct (price * bps / 10000 =? 0); [ reflexivity | ].
  destruct k as [ft|dv [|]|]; cbn [msite_featured msite_dev msite_valid]; try reflexivity;
    apply distribute_mint_fees_exact.
Qed.

(* the same with the documented numbers written out *)
Lemma mint_site_schedule : forall (k : msite) (d : denom) (price bps : N) (funds : list coin),
  site_mint_fee k d price bps funds =
  match may_pay funds d with
  | Err => Err
  | Ok p =>
      if negb (p =? price) then Err
      else
        let F := price * bps / 10000 in
        if F =? 0 then Ok []
        else match k with
             | MsVending true => Ok [Send A_LIQUIDITY_DAO d ((F + 7) / 8); Send A_LAUNCHPAD_DAO d (F - (F + 7) / 8)]
             | MsVending false | MsTokenMerge =>
                 Ok [Send A_LIQUIDITY_DAO d ((F + 4) / 5); Send A_LAUNCHPAD_DAO d (F - (F + 4) / 5)]
             | MsOpen dev true =>
                 let devf := (F + 1) / 2 in
                 let R := F - devf in
                 Ok [Send dev d devf; Send A_LIQUIDITY_DAO d ((R + 4) / 5); Send A_LAUNCHPAD_DAO d (R - (R + 4) / 5)]
             | MsOpen dev false => Err
             end
  end.
Proof.
  intros k d price bps funds. rewrite mint_site_cases.
  destruct (may_pay funds d) as [q|]; [ | reflexivity ]. destruct (negb (q =? price)); [ reflexivity | ].
  cbv zeta. destruct (price * bps / 10000 =? 0); [ reflexivity | ].
  destruct k as [[|]|dv [|]|]; reflexivity.
Qed.

(* open-edition minters: a developer is configured; whenever a mint that charges a fee is
   accepted the developer is sent exactly ceil(F/2), before anybody else, whatever the
   configured string looks like (a string the chain refuses never yields an accepted mint) *)
Lemma oe_developer_share dev valid d price bps funds ms :
  site_mint_fee (MsOpen dev valid) d price bps funds = Ok ms ->
  price * bps / 10000 <> 0 ->
  valid = true /\
  ms = [Send dev d ((price * bps / 10000 + 1) / 2);
        Send A_LIQUIDITY_DAO d ((price * bps / 10000 - (price * bps / 10000 + 1) / 2 + 4) / 5);
        Send A_LAUNCHPAD_DAO d (price * bps / 10000 - (price * bps / 10000 + 1) / 2
                                - (price * bps / 10000 - (price * bps / 10000 + 1) / 2 + 4) / 5)].
Proof.
  rewrite mint_site_schedule. intros H HF.
  destruct (may_pay funds d) as [q|]; [ | discriminate ]. destruct (negb (q =? price)); [ discriminate | ].
  cbv zeta in H. apply N.eqb_neq in HF. rewrite HF in H.
  destruct valid; [ | discriminate ]. injection H as <-. split; reflexivity.
Qed.

Lemma oe_invalid_developer_rejected dev d price bps funds :
  price * bps / 10000 <> 0 -> site_mint_fee (MsOpen dev false) d price bps funds = Err.
Proof.
  intros HF. rewrite mint_site_cases. destruct (may_pay funds d) as [q|]; [ | reflexivity ].
  destruct (negb (q =? price)); [ reflexivity | ]. apply N.eqb_neq in HF. rewrite HF. reflexivity.
Qed.

(* ---------- all sites at once ---------- *)
Lemma sum_burn_and_pool self F : sum_out (burn_and_pool self F) = F.
Proof. unfold burn_and_pool. cbn [sum_out fold_right bmsg_amount]. lia. Qed.

Lemma debits_burn_and_pool self F d : debits (burn_and_pool self F) d = if d =? NATIVE then F else 0.
Proof. unfold burn_and_pool. cbn [debits debit]. destruct (d =? NATIVE); lia. Qed.

Lemma may_pay_paid funds d p : may_pay funds d = Ok p -> forall dd, paid funds dd = if dd =? d then p else 0.
Proof.
  intros H dd. apply may_pay_ok_shape in H. destruct H as [[-> ->] | ->].
  - cbn [paid]. destruct (dd =? d); reflexivity.
  - apply paid_one.
Qed.

Lemma debits_mint_spec d F ft dev dd : debits (mint_fees_spec d F ft dev) dd = if dd =? d then F else 0.
Proof.
  unfold mint_fees_spec. destruct dev as [dv|]; cbn [debits debit].
  - pose proof (liq_part_le ft (F - (F + 1) / 2)). destruct (dd =? d); lia.
  - pose proof (liq_part_le ft F). destruct (dd =? d); lia.
Qed.

(* a fee rate above 100 % makes the minters abort on `price - fee`; the site model does
   not repeat that test, so the bound is a hypothesis where it is needed *)
Lemma mint_fee_le_price price bps : bps <= 10000 -> price * bps / 10000 <= price.
Proof. intros H. nia. Qed.

(* what a site pays out is covered, denom by denom, by what was paid in with the call *)
Definition site_rate_ok (s : site) : Prop :=
  match s with SMint _ _ _ bps => bps <= 10000 | _ => True end.

Lemma site_funded_by_payment s self funds ms :
  site_rate_ok s -> site_msgs s self funds = Ok ms -> forall d, debits ms d <= paid funds d.
Proof.
  intros Hrate.
  assert (FB : forall r F, site_fair_burn_fee r self F funds = Ok ms -> forall d, debits ms d <= paid funds d).
  { intros r F H d. apply fair_burn_site_ok_shape in H. destruct H as [p [Hp [Hle [_ ->]]]].
    rewrite (may_pay_paid _ _ _ Hp). destruct (p =? 0); [ cbn [debits]; lia | ].
    rewrite debits_burn_and_pool. destruct (d =? NATIVE); lia. }
  intros H dd. destruct s; cbn [site_msgs] in H.
  - apply creation_ok_shape in H. destruct H as [p [-> [_ [Hle [_ ->]]]]]. rewrite paid_one.
    destruct (fee_denom =? NATIVE) eqn:E.
    + apply N.eqb_eq in E. subst fee_denom. rewrite debits_burn_and_pool. destruct (dd =? NATIVE); lia.
    + cbn [debits debit]. destruct (dd =? fee_denom); lia.
  - eapply FB; exact H.
  - eapply FB; exact H.
  - unfold site_wl_increase in H. destruct ((new <=? old) || (wl_max_members k <? new)); [ discriminate | ].
    eapply FB; exact H.
  - eapply FB; exact H.
  - eapply FB; exact H.
  - rewrite airdrop_init_cases in H. destruct (must_pay funds NATIVE) as [p|] eqn:Hp; [ | discriminate ].
    destruct (p <? 100000000) eqn:E; [ discriminate | ]. apply N.ltb_ge in E. injection H as <-.
    rewrite (may_pay_paid _ _ _ (must_pay_may_pay _ _ _ Hp)), debits_burn_and_pool.
    destruct (dd =? NATIVE); lia.
  - eapply FB; exact H.
  - rewrite mint_site_cases in H. destruct (may_pay funds d) as [p|] eqn:Hp; [ | discriminate ].
    destruct (p =? price) eqn:E; cbn [negb] in H; [ | discriminate ]. apply N.eqb_eq in E. subst p.
    rewrite (may_pay_paid _ _ _ Hp).
    destruct (price * bps / 10000 =? 0) eqn:Ez; [ injection H as <- | ].
    + cbn [debits]. lia.
    + destruct (msite_valid k); [ | discriminate ]. injection H as <-.
      rewrite debits_mint_spec. destruct (dd =? d); [ | lia ]. apply mint_fee_le_price. exact Hrate.
Qed.

(* the pool is always funded on behalf of the contract that runs the site *)
Lemma site_pool_sender s self funds ms :
  site_msgs s self funds = Ok ms -> forall snd d x, In (FundPool snd d x) ms -> snd = self.
Proof.
  assert (BP : forall F snd d x, In (FundPool snd d x) (burn_and_pool self F) -> snd = self).
  { intros F snd d x [C|[C|[]]]; [ discriminate | ]. injection C as <- _ _. reflexivity. }
  assert (FB : forall r F, site_fair_burn_fee r self F funds = Ok ms ->
                           forall snd d x, In (FundPool snd d x) ms -> snd = self).
  { intros r F H snd d x Hin. apply fair_burn_site_ok_shape in H. destruct H as [p [_ [_ [_ ->]]]].
    destruct (p =? 0); [ destruct Hin | eapply BP; exact Hin ]. }
  destruct s; cbn [site_msgs]; intros H snd dd x Hin.
  - apply creation_ok_shape in H. destruct H as [p [_ [_ [_ [_ ->]]]]].
    destruct (fee_denom =? NATIVE); [ eapply BP; exact Hin | ].
    destruct Hin as [C|[]]. discriminate.
  - eapply FB; [ exact H | exact Hin ].
  - eapply FB; [ exact H | exact Hin ].
  - unfold site_wl_increase in H. destruct ((new <=? old) || (wl_max_members k <? new)); [ discriminate | ].
    eapply FB; [ exact H | exact Hin ].
  - eapply FB; [ exact H | exact Hin ].
  - eapply FB; [ exact H | exact Hin ].
  - rewrite airdrop_init_cases in H. destruct (must_pay funds NATIVE) as [q|]; [ | discriminate ].
    destruct (q <? 100000000); [ discriminate | ]. injection H as <-. eapply BP; exact Hin.
  - eapply FB; [ exact H | exact Hin ].
  - rewrite mint_site_cases in H. destruct (may_pay funds d) as [q|]; [ | discriminate ].
    destruct (negb (q =? price)); [ discriminate | ].
    destruct (price * bps / 10000 =? 0); [ injection H as <-; destruct Hin | ].
    destruct (msite_valid k); [ | discriminate ]. injection H as <-.
    unfold mint_fees_spec in Hin. destruct (msite_dev k); cbn [In] in Hin;
      repeat (destruct Hin as [C|Hin]; [ discriminate | ]); destruct Hin.
Qed.

(* world level: every balance after a site ran, and the supply *)
Lemma site_world_balances s self payer funds b b' :
  site_world s self payer funds b = Ok b' ->
  exists ms, site_msgs s self funds = Ok ms /\
    (forall a d,
        bal_get b' a d + (if a =? payer then paid funds d else 0) + (if a =? self then debits ms d else 0)
        = bal_get b a d + (if a =? self then paid funds d else 0) + credits ms a d) /\
    (forall d, total b' d = total b d).
Proof.
  unfold site_world. intros H.
  destruct (site_msgs s self funds) as [ms|]; cbn [bind] in H; [ | discriminate ].
  destruct (attach b payer self funds) as [b1|] eqn:Ha; cbn [bind] in H; [ | discriminate ].
  exists ms. split; [ reflexivity | ].
  destruct (attach_apply_balances _ _ _ _ _ _ _ Ha H) as [_ [G1 G2]]. split; assumption.
Qed.

(* the native fair burn seen from the chain: supply falls by floor(F/2), the pool gains
   the rest, the payer loses the payment, the contract keeps what was paid above the fee *)
Lemma fair_burn_world self payer p F b b1 b' :
  self <> payer -> self <> A_BURNED -> self <> A_FAIRBURN_POOL ->
  payer <> A_BURNED -> payer <> A_FAIRBURN_POOL ->
  attach b payer self [mkCoin NATIVE p] = Ok b1 ->
  apply_bmsgs self b1 (burn_and_pool self F) = Ok b' ->
  bal_get b' A_BURNED NATIVE = bal_get b A_BURNED NATIVE + F / 2 /\
  bal_get b' A_FAIRBURN_POOL NATIVE = bal_get b A_FAIRBURN_POOL NATIVE + (F - F / 2) /\
  bal_get b' payer NATIVE + p = bal_get b payer NATIVE /\
  bal_get b' self NATIVE + F = bal_get b self NATIVE + p.
Proof.
  intros N1 N2 N3 N4 N5 Ha Hap.
  destruct (attach_apply_balances _ _ _ _ _ _ _ Ha Hap) as [_ [G _]].
  apply N.eqb_neq in N1, N2, N3, N4, N5.
  assert (N1' : payer =? self = false) by (rewrite N.eqb_sym; exact N1).
  assert (N2' : A_BURNED =? self = false) by (rewrite N.eqb_sym; exact N2).
  assert (N3' : A_FAIRBURN_POOL =? self = false) by (rewrite N.eqb_sym; exact N3).
  assert (N4' : A_BURNED =? payer = false) by (rewrite N.eqb_sym; exact N4).
  assert (N5' : A_FAIRBURN_POOL =? payer = false) by (rewrite N.eqb_sym; exact N5).
  assert (SL : forall a, exists x y, x = bal_get b' a NATIVE /\ y = bal_get b a NATIVE) by (intros a; eauto).
  repeat split.
  - specialize (G A_BURNED NATIVE). destruct (SL A_BURNED) as [x [y [Ex Ey]]]. rewrite <- Ex, <- Ey in *. clear Ex Ey SL.
    unfold burn_and_pool in G. cbn [credits credit debits debit paid c_denom c_amount] in G.
    rewrite N4', N2' in G. cbn in G. clear - G. lia.
  - specialize (G A_FAIRBURN_POOL NATIVE). destruct (SL A_FAIRBURN_POOL) as [x [y [Ex Ey]]]. rewrite <- Ex, <- Ey in *. clear Ex Ey SL.
    unfold burn_and_pool in G. cbn [credits credit debits debit paid c_denom c_amount] in G.
    rewrite N5', N3' in G. cbn in G. clear - G. lia.
  - specialize (G payer NATIVE). destruct (SL payer) as [x [y [Ex Ey]]]. rewrite <- Ex, <- Ey in *. clear Ex Ey SL.
    unfold burn_and_pool in G. cbn [credits credit debits debit paid c_denom c_amount] in G.
    rewrite !N.eqb_refl, ?N1', N4, N5 in G. cbn in G. clear - G. lia.
  - specialize (G self NATIVE). destruct (SL self) as [x [y [Ex Ey]]]. rewrite <- Ex, <- Ey in *. clear Ex Ey SL.
    unfold burn_and_pool in G. cbn [credits credit debits debit paid c_denom c_amount] in G.
    rewrite !N.eqb_refl, ?N1, N2, N3 in G. cbn in G. clear - G. lia.
Qed.

(* ---------- the contract's own balance ---------- *)

(* a site never draws on what the contract held before the call: for an ARBITRARY balance
   sheet b, whatever the contract holds in any denom before an accepted call is still
   there afterwards (it can only grow, by what was paid above the fee) *)
Lemma site_prior_balance_untouched s self payer funds b b' :
  site_rate_ok s -> self <> payer ->
  site_world s self payer funds b = Ok b' ->
  forall d, bal_get b self d <= bal_get b' self d.
Proof.
  intros Hr Hne H d. destruct (site_world_balances _ _ _ _ _ _ H) as [ms [Hm [G _]]].
  specialize (G self d). pose proof (site_funded_by_payment _ _ _ _ Hr Hm d) as Fd.
  rewrite N.eqb_refl in G. apply N.eqb_neq in Hne. rewrite Hne in G.
  remember (bal_get b' self d) as x. remember (bal_get b self d) as y.
  remember (debits ms d) as u. remember (paid funds d) as v. remember (credits ms self d) as w.
  clear - G Fd. lia.
Qed.

(* what the site rejects it rejects whatever anybody holds *)
Lemma site_world_rejects s self payer funds b :
  site_msgs s self funds = Err -> site_world s self payer funds b = Err.
Proof. unfold site_world. intros ->. reflexivity. Qed.

Lemma may_pay_must_pay_bad funds d F :
  (may_pay funds d = Err \/ exists p, may_pay funds d = Ok p /\ p < F) ->
  (must_pay funds d = Err \/ exists p, must_pay funds d = Ok p /\ p < F).
Proof.
  intros Hbad. destruct (must_pay funds d) as [q|] eqn:Hq; [ | left; reflexivity ].
  right. exists q. split; [ reflexivity | ]. pose proof (must_pay_may_pay _ _ _ Hq) as Hm.
  destruct Hbad as [He | [p [Hp Hlt]]]; rewrite Hm in *; [ discriminate | ].
  injection Hp as <-. exact Hlt.
Qed.

Lemma wl_creation_fee_spelled k ml : wl_creation_fee k ml = (ml + 999) / 1000 * 100000000.
Proof. destruct k; reflexivity. Qed.

Lemma wl_upgrade_fee_spelled k o n :
  wl_upgrade_fee k o n = ((n + 999) / 1000 - (o + 999) / 1000) * 100000000.
Proof.
  unfold wl_upgrade_fee, thousands.
  assert (P : wl_price_per_1000 k = 100000000) by (destruct k; reflexivity). rewrite P.
  destruct ((o + 999) / 1000 <? (n + 999) / 1000) eqn:E; [ reflexivity | ].
  apply N.ltb_ge in E.
  assert (Z : (n + 999) / 1000 - (o + 999) / 1000 = 0) by (apply N.sub_0_le; exact E).
  rewrite Z. reflexivity.
Qed.

(* the native fee F of every fair-burn site, with the documented numbers *)
Definition site_native_fee (s : site) (F : N) : Prop :=
  match s with
  | SCreate _ fd _ fee => fd = NATIVE /\ F = fee
  | SShuffle fee => F = fee
  | SWlCreate _ ml => F = (ml + 999) / 1000 * 100000000
  | SWlIncrease _ old new => F = ((new + 999) / 1000 - (old + 999) / 1000) * 100000000
  | SWlMerkleCreate _ => F = 1000000000
  | SEnableUpdatable => F = 1500000000
  | SAirdropInit => F = 100000000
  | SBaseMint price bps => F = price * bps / 10000
  | SMint _ _ _ _ => False
  end.

Lemma underpayment_rejected_whatever_held s self payer funds b F :
  site_native_fee s F ->
  (may_pay funds NATIVE = Err \/ exists p, may_pay funds NATIVE = Ok p /\ p < F) ->
  site_world s self payer funds b = Err.
Proof.
  intros HF Hbad. apply site_world_rejects.
  destruct s; cbn [site_msgs site_native_fee] in *.
  - destruct HF as [-> ->]. apply creation_rejects. apply may_pay_must_pay_bad. exact Hbad.
  - subst F. apply fair_burn_site_rejects. exact Hbad.
  - subst F. unfold site_wl_create. rewrite wl_creation_fee_spelled. apply fair_burn_site_rejects. exact Hbad.
  - subst F. unfold site_wl_increase.
    destruct ((new <=? old) || (wl_max_members k <? new)); [ reflexivity | ].
    rewrite wl_upgrade_fee_spelled. apply fair_burn_site_rejects. exact Hbad.
  - subst F. unfold site_wl_merkle_create.
    destruct tiered; apply fair_burn_site_rejects; exact Hbad.
  - subst F. apply fair_burn_site_rejects. exact Hbad.
  - subst F. rewrite airdrop_init_cases.
    destruct (may_pay_must_pay_bad _ _ _ Hbad) as [He | [p [Hp Hlt]]].
    + rewrite He. reflexivity.
    + rewrite Hp. apply N.ltb_lt in Hlt. rewrite Hlt. reflexivity.
  - subst F. apply fair_burn_site_rejects. exact Hbad.
  - contradiction.
Qed.

(* a mint is paid exactly, in the denom of the price, whatever the minter holds *)
Lemma mint_inexact_rejected_whatever_held k d price bps self payer funds b :
  (may_pay funds d = Err \/ exists p, may_pay funds d = Ok p /\ p <> price) ->
  site_world (SMint k d price bps) self payer funds b = Err.
Proof.
  intros Hbad. apply site_world_rejects. cbn [site_msgs]. rewrite mint_site_cases.
  destruct Hbad as [-> | [p [-> Hne]]]; [ reflexivity | ].
  apply N.eqb_neq in Hne. rewrite Hne. reflexivity.
Qed.

Lemma creation_rejects_whatever_held k self payer fd md F funds b :
  (must_pay funds fd = Err \/ exists p, must_pay funds fd = Ok p /\ p < F) ->
  site_world (SCreate k fd md F) self payer funds b = Err.
Proof. intros H. apply site_world_rejects. cbn [site_msgs]. apply creation_rejects. exact H. Qed.
