(* Lemmas about model/MigrateParams.v (C20: the parameter frame of a factory migration). *)
From Coq Require Import String.
From LP Require Import MigrateParams Consts ParamsProofs SemverProofs MigrateProofs.
Import ListNotations.
Local Open Scope N_scope.

(* base, vending and open-edition apply a supplied message exactly as their sudo
   UpdateParams does (C18) *)
Lemma vending_migrate_is_sudo : forall p m, vending_migrate_params p m = vending_sudo p m.
Proof.
  intros p m. unfold vending_migrate_params, vending_sudo, vext_update, bind.
  destruct (update_params (vp_common p) (vm_common m)); [|reflexivity].
  destruct (native_or_err (vxm_airdrop_mint_price (vm_ext m)) (vx_airdrop_mint_price (vp_ext p))); [|reflexivity].
  destruct (native_or_err (vxm_shuffle_fee (vm_ext m)) (vx_shuffle_fee (vp_ext p))); reflexivity.
Qed.

Lemma oe_migrate_is_sudo : forall p m, oe_migrate_params p m = oe_sudo p m.
Proof.
  intros p m. unfold oe_migrate_params, oe_sudo, oext_update, bind.
  destruct (update_params (op_common p) (om_common m)); reflexivity.
Qed.

(* the allowed code ids survive an update that names no addition and no removal, as a
   set (Vec::dedup runs unconditionally and may drop adjacent repetitions) *)
Lemma ids_unsupplied_same_set : forall ids x, In x (update_code_ids ids None None) <-> In x ids.
Proof.
  intros ids x. rewrite update_code_ids_set. cbn [unwrap_or]. cbn [In]. tauto.
Qed.

Definition common_fields (p : cparams) (m : cmsg) (p' : cparams) : Prop :=
  cp_code_id p' = unwrap_or (cm_code_id m) (cp_code_id p) /\
  cp_frozen p' = unwrap_or (cm_frozen m) (cp_frozen p) /\
  cp_creation_fee p' = unwrap_or (cm_creation_fee m) (cp_creation_fee p) /\
  cp_min_mint_price p' = unwrap_or (cm_min_mint_price m) (cp_min_mint_price p) /\
  cp_mint_fee_bps p' = unwrap_or (cm_mint_fee_bps m) (cp_mint_fee_bps p) /\
  cp_offset p' = unwrap_or (cm_offset m) (cp_offset p) /\
  (forall x, In x (cp_allowed p') <->
             (In x (cp_allowed p) \/ In x (unwrap_or (cm_add m) [])) /\ ~ In x (unwrap_or (cm_rm m) [])) /\
  (cm_add m = None -> cm_rm m = None -> forall x, In x (cp_allowed p') <-> In x (cp_allowed p)).

Lemma common_frame_fields : forall p m p', common_frame p m p' -> common_fields p m p'.
Proof.
  intros p m p' (H1 & H2 & H3 & H4 & H5 & H6 & H7 & _).
  unfold common_fields. refine (conj H1 (conj H2 (conj H3 (conj H4 (conj H5 (conj H6 (conj _ _))))))).
  - intro x. rewrite H7. apply update_code_ids_set.
  - intros Ea Er x. rewrite H7, Ea, Er. apply ids_unsupplied_same_set.
Qed.

Lemma base_migrate_frame : forall p m p', base_migrate_params p m = Ok p' -> common_fields p m p'.
Proof. intros p m p' H. apply common_frame_fields, update_params_frame, H. Qed.

Lemma vending_migrate_frame : forall p m p', vending_migrate_params p m = Ok p' ->
  common_fields (vp_common p) (vm_common m) (vp_common p') /\
  let x := vp_ext p in let x' := vp_ext p' in let xm := vm_ext m in
  vx_max_token_limit x' = unwrap_or (vxm_max_token_limit xm) (vx_max_token_limit x) /\
  vx_max_per_address_limit x' = unwrap_or (vxm_max_per_address_limit xm) (vx_max_per_address_limit x) /\
  vx_airdrop_mint_price x' = unwrap_or (vxm_airdrop_mint_price xm) (vx_airdrop_mint_price x) /\
  vx_airdrop_mint_fee_bps x' = unwrap_or (vxm_airdrop_mint_fee_bps xm) (vx_airdrop_mint_fee_bps x) /\
  vx_shuffle_fee x' = unwrap_or (vxm_shuffle_fee xm) (vx_shuffle_fee x).
Proof.
  intros p m p' H. rewrite vending_migrate_is_sudo in H.
  apply vending_update_frame in H. destruct H as [Hc Hx]. split; [apply common_frame_fields, Hc|].
  apply vext_update_frame in Hx. cbn zeta. tauto.
Qed.

Lemma oe_migrate_frame : forall p m p', oe_migrate_params p m = Ok p' ->
  common_fields (op_common p) (om_common m) (op_common p') /\
  let x := op_ext p in let x' := op_ext p' in let xm := om_ext m in
  ox_max_token_limit x' = unwrap_or (oxm_max_token_limit xm) (ox_max_token_limit x) /\
  ox_max_per_address_limit x' = unwrap_or (oxm_max_per_address_limit xm) (ox_max_per_address_limit x) /\
  ox_airdrop_mint_fee_bps x' = unwrap_or (oxm_airdrop_mint_fee_bps xm) (ox_airdrop_mint_fee_bps x) /\
  ox_airdrop_mint_price x' = unwrap_or (oxm_airdrop_mint_price xm) (ox_airdrop_mint_price x) /\
  ox_dev_fee_address x' = unwrap_or (oxm_dev_fee_address xm) (ox_dev_fee_address x).
Proof.
  intros p m p' H. rewrite oe_migrate_is_sudo in H.
  apply oe_update_frame in H. destruct H as [Hc Hx]. split; [apply common_frame_fields, Hc|].
  cbn zeta. rewrite Hx. unfold oext_update. cbn. repeat split; reflexivity.
Qed.

Lemma tm_migrate_frame : forall p m p', tm_migrate_params p m = Ok p' ->
  (* the common fields are never touched by a token-merge-factory migration *)
  tp_code_id p' = tp_code_id p /\ tp_allowed p' = tp_allowed p /\ tp_frozen p' = tp_frozen p /\
  tp_creation_fee p' = tp_creation_fee p /\ tp_offset p' = tp_offset p /\
  let xm := tm_ext m in
  tp_max_token_limit p' = unwrap_or (vxm_max_token_limit xm) (tp_max_token_limit p) /\
  tp_max_per_address_limit p' = unwrap_or (vxm_max_per_address_limit xm) (tp_max_per_address_limit p) /\
  tp_airdrop_mint_price p' = unwrap_or (vxm_airdrop_mint_price xm) (tp_airdrop_mint_price p) /\
  tp_airdrop_mint_fee_bps p' = unwrap_or (vxm_airdrop_mint_fee_bps xm) (tp_airdrop_mint_fee_bps p) /\
  tp_shuffle_fee p' = unwrap_or (vxm_shuffle_fee xm) (tp_shuffle_fee p).
Proof.
  intros p m p' H. unfold tm_migrate_params, bind in H.
  destruct (native_or_err (vxm_airdrop_mint_price (tm_ext m)) (tp_airdrop_mint_price p)) as [a|] eqn:Ea; [|discriminate].
  destruct (native_or_err (vxm_shuffle_fee (tm_ext m)) (tp_shuffle_fee p)) as [s|] eqn:Es; [|discriminate].
  apply native_or_err_ok in Ea. apply native_or_err_ok in Es.
  destruct Ea as [Ea _]. destruct Es as [Es _].
  inversion H; subst; clear H. cbn. repeat split; try reflexivity; assumption.
Qed.

(* refusals of the parameter half *)
Lemma tm_migrate_refusal : forall p m,
  tm_migrate_params p m = Err <->
  (exists c, vxm_airdrop_mint_price (tm_ext m) = Some c /\ c_denom c <> NATIVE) \/
  (exists c, vxm_shuffle_fee (tm_ext m) = Some c /\ c_denom c <> NATIVE).
Proof.
  intros p m.
  rewrite <- (native_or_err_err (vxm_airdrop_mint_price (tm_ext m)) (tp_airdrop_mint_price p)).
  rewrite <- (native_or_err_err (vxm_shuffle_fee (tm_ext m)) (tp_shuffle_fee p)).
  unfold tm_migrate_params, bind.
  destruct (native_or_err (vxm_airdrop_mint_price (tm_ext m)) (tp_airdrop_mint_price p));
  destruct (native_or_err (vxm_shuffle_fee (tm_ext m)) (tp_shuffle_fee p)); split; intro H;
    try discriminate; try tauto; destruct H; discriminate.
Qed.

(* ---------- the whole factory migration ---------- *)
Section Whole.
  Variables P M : Type.
  Variable c : contract.
  Variable upd : P -> M -> result P.
  Hypothesis K : kind_of c = KFactory.

  (* the recorded cw2 info and every slot stay; without a message the parameters stay;
     with a message they are exactly what the parameter half computes *)
  Lemma factory_migrate_inv : forall now st p msg st' p',
    factory_migrate c upd now st p msg = Ok (st', p') ->
    st' = st /\
    is_ok (migrate c now None st) = true /\
    match msg with
    | None => p' = p
    | Some m => upd p m = Ok p'
    end.
  Proof.
    intros now st p msg st' p' H. unfold factory_migrate in H.
    destruct (migrate c now None st) as [[st1 b]|] eqn:EM; [|discriminate].
    destruct (post_factory _ _ _ _ _ _ K EM) as [-> _].
    destruct msg as [m|].
    - unfold bind in H. destruct (upd p m) as [q|] eqn:EU; [|discriminate].
      inversion H; subst. repeat split; reflexivity.
    - inversion H; subst. repeat split; reflexivity.
  Qed.

  Lemma factory_migrate_ok_iff : forall now st p msg,
    is_ok (factory_migrate c upd now st p msg) = true <->
    is_ok (migrate c now None st) = true /\
    match msg with None => True | Some m => is_ok (upd p m) = true end.
  Proof.
    intros now st p msg. unfold factory_migrate.
    destruct (migrate c now None st) as [[st1 b]|]; cbn [is_ok].
    - destruct msg as [m|]; [|cbn [is_ok]; tauto].
      unfold bind. destruct (upd p m); cbn [is_ok]; tauto.
    - split; [discriminate|intros [H _]; discriminate].
  Qed.
End Whole.

Lemma factory_gate : forall c now st, kind_of c = KFactory ->
  (is_ok (migrate c now None st) = true <->
   c_name st = own_name c /\
   exists v, parse_version (c_version st) = Some v /\ ver_ltb CODE v = false).
Proof.
  intros c now st K. rewrite (factory_ok_iff c now None st K). split.
  - intros [A [v [B [C _]]]]. split; [exact A|]. exists v. split; assumption.
  - intros [A [v [B C]]]. split; [exact A|]. exists v. repeat split; assumption.
Qed.
