(* Lemmas about model/Splits.v (C15). *)
From Coq Require Import ZArith Lia ZifyN ZifyBool.
From LP Require Import Splits Consts.
Import ListNotations.
Local Open Scope N_scope.

Ltac eqbs :=
  repeat match goal with
         | |- context [?x =? ?y] => destruct (N.eqb_spec x y)
         | H : context [?x =? ?y] |- _ => destruct (N.eqb_spec x y)
         end.

(* ---------- arithmetic ---------- *)
Lemma share_le : forall w W b, W <> 0 -> w <= W -> w * (b / W) <= b.
Proof.
  intros w W b HW Hw.
  apply N.le_trans with (W * (b / W)).
  - apply N.mul_le_mono_r; exact Hw.
  - apply N.mul_div_le; exact HW.
Qed.

Lemma remainder_exact : forall W b, W <> 0 -> b - W * (b / W) = b mod W /\ b mod W < W.
Proof.
  intros W b HW. split.
  - rewrite (N.div_mod b W HW) at 1. lia.
  - apply N.mod_lt; exact HW.
Qed.

Lemma twice_exceeds : forall W b, W <> 0 -> 1 <= b / W -> b < 2 * (W * (b / W)).
Proof.
  intros W b HW Hk.
  pose proof (N.div_mod b W HW) as E.
  pose proof (N.mod_lt b W HW) as L.
  assert (W <= W * (b / W)) by nia.
  lia.
Qed.

(* ---------- sums over the message list ---------- *)
Lemma paid_to_app : forall l1 l2 a d, paid_to (l1 ++ l2) a d = paid_to l1 a d + paid_to l2 a d.
Proof.
  induction l1 as [|m l1 IH]; intros l2 a d; cbn [app paid_to].
  - reflexivity.
  - destruct m as [t d' x| | |]; rewrite ?IH; try reflexivity.
    destruct ((t =? a) && (d' =? d)); lia.
Qed.

Lemma paid_app : forall l1 l2 d, paid (l1 ++ l2) d = paid l1 d + paid l2 d.
Proof.
  induction l1 as [|m l1 IH]; intros l2 d; cbn [app paid].
  - reflexivity.
  - destruct m as [t d' x| | |]; rewrite ?IH; try reflexivity.
    destruct (d' =? d); lia.
Qed.

(* sum of the multipliers of the coins of denom d *)
Fixpoint mults (W : N) (funds : list coin) (d : denom) : N :=
  match funds with
  | [] => 0
  | c :: r => if c_denom c =? d then c_amount c / W + mults W r d else mults W r d
  end.

Lemma paid_to_inner : forall W m funds a d,
  paid_to (flat_map (pay_one W m) funds) a d =
  if m_addr m =? a then m_weight m * mults W funds d else 0.
Proof.
  intros W m funds a d. induction funds as [|c r IH]; cbn [flat_map mults].
  - cbn [paid_to]. destruct (m_addr m =? a); lia.
  - rewrite paid_to_app, IH. unfold pay_one.
    destruct (c_amount c / W =? 0) eqn:E.
    + apply N.eqb_eq in E. rewrite E. cbn [paid_to].
      destruct (m_addr m =? a); destruct (c_denom c =? d); lia.
    + cbn [paid_to].
      destruct (m_addr m =? a); destruct (c_denom c =? d); cbn [andb]; lia.
Qed.

Lemma paid_inner : forall W m funds d,
  paid (flat_map (pay_one W m) funds) d = m_weight m * mults W funds d.
Proof.
  intros W m funds d. induction funds as [|c r IH]; cbn [flat_map mults].
  - cbn [paid]. lia.
  - rewrite paid_app, IH. unfold pay_one.
    destruct (c_amount c / W =? 0) eqn:E.
    + apply N.eqb_eq in E. rewrite E. cbn [paid].
      destruct (c_denom c =? d); lia.
    + cbn [paid]. destruct (c_denom c =? d); lia.
Qed.

Lemma paid_to_pay_msgs : forall W ms funds a d,
  paid_to (pay_msgs W ms funds) a d = weight_of ms a * mults W funds d.
Proof.
  intros W ms funds a d. unfold pay_msgs.
  induction ms as [|m r IH]; cbn [filter flat_map weight_of].
  - cbn [paid_to]. lia.
  - destruct (0 <? m_weight m) eqn:E.
    + cbn [flat_map]. rewrite paid_to_app, paid_to_inner, IH.
      destruct (m_addr m =? a); lia.
    + rewrite IH. apply N.ltb_ge in E.
      assert (Hz : m_weight m = 0) by lia. rewrite Hz.
      destruct (m_addr m =? a); lia.
Qed.

Lemma paid_pay_msgs : forall W ms funds d,
  paid (pay_msgs W ms funds) d = total_weight ms * mults W funds d.
Proof.
  intros W ms funds d. unfold pay_msgs.
  induction ms as [|m r IH]; cbn [filter flat_map total_weight fold_right].
  - cbn [paid]. lia.
  - fold (total_weight r).
    destruct (0 <? m_weight m) eqn:E.
    + cbn [flat_map]. rewrite paid_app, paid_inner, IH. lia.
    + rewrite IH. apply N.ltb_ge in E.
      assert (Hz : m_weight m = 0) by lia. rewrite Hz. lia.
Qed.

Lemma mults_funds : forall (b : denom -> N) W l d,
  mults W (filter nonzero_coin (map (fun x => mkCoin x (b x)) l)) d = count d l * (b d / W).
Proof.
  intros b W l d. induction l as [|x r IH]; cbn [map filter mults count].
  - lia.
  - unfold nonzero_coin at 1. cbn [c_amount].
    destruct (b x =? 0) eqn:E; cbn [negb].
    + rewrite IH. apply N.eqb_eq in E.
      destruct (N.eqb_spec x d) as [->|_]; [|reflexivity].
      rewrite E. change (0 / W) with 0. lia.
    + cbn [mults c_denom c_amount]. rewrite IH.
      destruct (N.eqb_spec x d) as [->|_]; lia.
Qed.

Lemma mults_funds_of : forall w dl d,
  mults (total_weight (w_members w)) (funds_of w dl) d =
  count d (requested w dl) * (held w d / total_weight (w_members w)).
Proof.
  intros w dl d. unfold funds_of, requested, held.
  destruct dl as [l|]; apply (mults_funds (fun x => bal (w_bank w) (w_self w) x)).
Qed.

(* ---------- members ---------- *)
Lemma weight_le_total : forall ms m, In m ms -> m_weight m <= total_weight ms.
Proof.
  induction ms as [|x r IH]; intros m Hin; [destruct Hin|].
  unfold total_weight; cbn [fold_right]; fold (total_weight r).
  destruct Hin as [->|Hin]; [lia|]. specialize (IH _ Hin). lia.
Qed.

Lemma total_pos_has_positive : forall ms, total_weight ms <> 0 ->
  filter (fun m => 0 <? m_weight m) ms <> [].
Proof.
  induction ms as [|x r IH]; intros H.
  - exfalso; apply H; reflexivity.
  - cbn [filter]. destruct (0 <? m_weight x) eqn:E; [discriminate|].
    apply IH. apply N.ltb_ge in E.
    unfold total_weight in H; cbn [fold_right] in H; fold (total_weight r) in H. lia.
Qed.

(* the 30-entry page and the 25-member cap *)
Lemma count_ok_spec : forall ms,
  count_ok ms = true <-> (1 <= length ms <= 25)%nat.
Proof.
  intros ms. unfold count_ok, page.
  change (N.to_nat splits__PAGINATION_LIMIT) with 30%nat.
  change splits__MAX_GROUP_SIZE with 25.
  rewrite firstn_length.
  rewrite andb_true_iff, negb_true_iff, N.eqb_neq, N.leb_le.
  destruct (Nat.min_spec 30 (length ms)) as [[L ->]|[L ->]].
  - change (N.of_nat 30) with 30. lia.
  - assert (N.of_nat (length ms) <= 25 <-> (length ms <= 25)%nat) as -> by lia.
    assert (N.of_nat (length ms) <> 0 <-> (1 <= length ms)%nat) as -> by (split; intro; lia). tauto.
Qed.

Lemma count_ok_false_spec : forall ms,
  count_ok ms = false <-> (length ms = 0 \/ 25 < Nat.min (length ms) 30)%nat.
Proof.
  intros ms. pose proof (count_ok_spec ms) as H.
  destruct (count_ok ms); split; intro K; try discriminate; try reflexivity.
  - exfalso. assert (T : true = true) by reflexivity. apply H in T. lia.
  - assert (~ (1 <= length ms <= 25)%nat) as C.
    { intro T. apply H in T. discriminate. } lia.
Qed.

Lemma page_id : forall ms, count_ok ms = true -> page ms = ms.
Proof.
  intros ms H. apply count_ok_spec in H. unfold page.
  change (N.to_nat splits__PAGINATION_LIMIT) with 30%nat.
  apply firstn_all2. lia.
Qed.

(* ---------- the handler ---------- *)
Lemma distribute_ok_inv : forall w s dl msgs,
  distribute w s dl = Ok msgs ->
  can_distribute w s = true /\ total_weight (w_members w) <> 0 /\
  (1 <= length (w_members w) <= 25)%nat /\
  msgs = pay_msgs (total_weight (w_members w)) (w_members w) (funds_of w dl) /\ msgs <> [].
Proof.
  intros w s dl msgs H. unfold distribute in H.
  destruct (can_distribute w s); cbn [negb] in H; [|discriminate].
  destruct (weight_ok (w_members w)) eqn:EW; cbn [negb] in H; [|discriminate].
  destruct (count_ok (w_members w)) eqn:EC; cbn [negb] in H; [|discriminate].
  destruct (is_nil (funds_of w dl)); [discriminate|].
  destruct (existsb _ _); [discriminate|].
  rewrite (page_id _ EC) in H.
  destruct (pay_msgs _ _ _) eqn:EM; cbn [is_nil] in H; [discriminate|].
  inversion H; subst msgs.
  unfold weight_ok in EW. rewrite negb_true_iff, N.eqb_neq in EW.
  apply count_ok_spec in EC.
  repeat split; try assumption; try lia. discriminate.
Qed.

Lemma in_pay_msgs : forall W ms funds msg,
  In msg (pay_msgs W ms funds) <->
  exists m c, In m ms /\ 0 < m_weight m /\ In c funds /\ c_amount c / W <> 0 /\
              msg = Send (m_addr m) (c_denom c) (m_weight m * (c_amount c / W)).
Proof.
  intros W ms funds msg. unfold pay_msgs. rewrite in_flat_map. split.
  - intros [m [Hm Hin]]. apply filter_In in Hm. destruct Hm as [Hm Hpos].
    apply in_flat_map in Hin. destruct Hin as [c [Hc Hin]].
    unfold pay_one in Hin. destruct (c_amount c / W =? 0) eqn:E; [destruct Hin|].
    destruct Hin as [<-|[]]. exists m, c. apply N.eqb_neq in E. apply N.ltb_lt in Hpos.
    repeat split; assumption.
  - intros [m [c [Hm [Hpos [Hc [Hk ->]]]]]]. exists m. split.
    + apply filter_In. split; [assumption|]. apply N.ltb_lt; assumption.
    + apply in_flat_map. exists c. split; [assumption|]. unfold pay_one.
      apply N.eqb_neq in Hk. rewrite Hk. left; reflexivity.
Qed.

Lemma pay_msgs_nil_iff : forall W ms funds,
  filter (fun m => 0 <? m_weight m) ms <> [] ->
  (pay_msgs W ms funds = [] <-> forall c, In c funds -> c_amount c / W = 0).
Proof.
  intros W ms funds Hpos. split.
  - intros Hnil c Hc. destruct (N.eq_dec (c_amount c / W) 0) as [E|E]; [assumption|].
    exfalso. destruct (filter _ ms) as [|m r] eqn:EF; [apply Hpos; reflexivity|].
    assert (Hm : In m (filter (fun m => 0 <? m_weight m) ms)) by (rewrite EF; left; reflexivity).
    apply filter_In in Hm. destruct Hm as [Hm Hw]. apply N.ltb_lt in Hw.
    assert (In (Send (m_addr m) (c_denom c) (m_weight m * (c_amount c / W))) (pay_msgs W ms funds)) as K.
    { apply in_pay_msgs. exists m, c. repeat split; assumption. }
    rewrite Hnil in K. destruct K.
  - intros Hall. destruct (pay_msgs W ms funds) as [|x r] eqn:E; [reflexivity|].
    exfalso. assert (In x (pay_msgs W ms funds)) as K by (rewrite E; left; reflexivity).
    apply in_pay_msgs in K. destruct K as [m [c [_ [_ [Hc [Hk _]]]]]]. apply Hk, Hall, Hc.
Qed.

Lemma funds_amount : forall w dl c, In c (funds_of w dl) -> c_amount c = held w (c_denom c) /\ c_amount c <> 0.
Proof.
  intros w dl c H. unfold funds_of in H.
  destruct dl as [l|]; apply filter_In in H; destruct H as [H Hnz];
    apply in_map_iff in H; destruct H as [x [<- _]]; cbn [c_amount c_denom];
    unfold nonzero_coin in Hnz; cbn [c_amount] in Hnz;
    rewrite negb_true_iff, N.eqb_neq in Hnz; split; try reflexivity; exact Hnz.
Qed.

(* every emitted amount is at most what is held, hence fits u128 *)
Lemma msg_amount_le_held : forall w dl msg,
  total_weight (w_members w) <> 0 ->
  In msg (pay_msgs (total_weight (w_members w)) (w_members w) (funds_of w dl)) ->
  exists a d x, msg = Send a d x /\ x <= held w d /\ x <> 0.
Proof.
  intros w dl msg HW Hin. apply in_pay_msgs in Hin.
  destruct Hin as [m [c [Hm [Hpos [Hc [Hk ->]]]]]].
  exists (m_addr m), (c_denom c), (m_weight m * (c_amount c / total_weight (w_members w))).
  split; [reflexivity|]. destruct (funds_amount _ _ _ Hc) as [<- _]. split.
  - apply share_le; [assumption|]. apply weight_le_total; assumption.
  - nia.
Qed.

Lemma no_overflow : forall w dl,
  (forall d, held w d <= U128_MAX) ->
  total_weight (w_members w) <> 0 ->
  existsb (fun m => U128_MAX <? bmsg_amount m)
          (pay_msgs (total_weight (w_members w)) (w_members w) (funds_of w dl)) = false.
Proof.
  intros w dl Hb HW.
  destruct (existsb _ _) eqn:E; [|reflexivity]. exfalso.
  apply existsb_exists in E. destruct E as [m [Hin Hlt]].
  destruct (msg_amount_le_held _ _ _ HW Hin) as [a [d [x [-> [Hle _]]]]].
  cbn [bmsg_amount] in Hlt. apply N.ltb_lt in Hlt. specialize (Hb d). lia.
Qed.

Lemma distribute_refused_iff : forall w s dl,
  (forall d, held w d <= U128_MAX) ->
  (distribute w s dl = Err <->
   can_distribute w s = false \/
   total_weight (w_members w) = 0 \/
   (length (w_members w) = 0)%nat \/
   (25 < Nat.min (length (w_members w)) 30)%nat \/
   (forall c, In c (funds_of w dl) -> c_amount c / total_weight (w_members w) = 0)).
Proof.
  intros w s dl Hb. unfold distribute.
  destruct (can_distribute w s); cbn [negb]; [|split; [intros _; left; reflexivity|reflexivity]].
  destruct (weight_ok (w_members w)) eqn:EW; cbn [negb].
  2:{ unfold weight_ok in EW. rewrite negb_false_iff, N.eqb_eq in EW.
      split; [intros _; right; left; exact EW|reflexivity]. }
  unfold weight_ok in EW. rewrite negb_true_iff, N.eqb_neq in EW.
  destruct (count_ok (w_members w)) eqn:EC; cbn [negb].
  2:{ apply count_ok_false_spec in EC. split; [intros _|reflexivity].
      destruct EC as [E|E]; [right; right; left; exact E|right; right; right; left; exact E]. }
  pose proof (page_id _ EC) as EP. rewrite EP.
  apply count_ok_spec in EC.
  pose proof (pay_msgs_nil_iff (total_weight (w_members w)) (w_members w) (funds_of w dl)
                               (total_pos_has_positive _ EW)) as NIL.
  destruct (funds_of w dl) as [|c0 fr] eqn:EF; cbn [is_nil].
  - split; [intros _|reflexivity]. right; right; right; right. intros c [].
  - rewrite <- EF in *. rewrite no_overflow by assumption.
    destruct (pay_msgs _ _ (funds_of w dl)) as [|x r] eqn:EM; cbn [is_nil].
    + split; [intros _|reflexivity]. right; right; right; right.
      apply NIL. reflexivity.
    + split; [discriminate|]. intros [K|[K|[K|[K|K]]]]; try discriminate; try lia.
      apply NIL in K. discriminate.
Qed.

(* ---------- bank ---------- *)
Lemma bal_set : forall b a d v a' d',
  bal (bank_set b a d v) a' d' = if (a' =? a) && (d' =? d) then v else bal b a' d'.
Proof.
  induction b as [|[[a0 d0] v0] b IH]; intros a d v a' d'; cbn [bank_set bal].
  - eqbs; subst; cbn [andb]; congruence.
  - destruct ((a0 =? a) && (d0 =? d)) eqn:E1; cbn [bal].
    + eqbs; subst; cbn [andb] in *; try congruence.
    + rewrite IH. eqbs; subst; cbn [andb] in *; try congruence.
Qed.

Lemma exec_sends_spec : forall msgs self b b',
  exec_sends b self msgs = Some b' ->
  forall a d, bal b' a d + (if a =? self then paid msgs d else 0) = bal b a d + paid_to msgs a d.
Proof.
  induction msgs as [|m r IH]; intros self b b' H a d.
  - cbn [exec_sends] in H. inversion H; subst. cbn [paid paid_to]. destruct (a =? self); lia.
  - destruct m as [t d0 x| | |]; cbn [exec_sends] in H; try discriminate.
    unfold bank_send in H. destruct (x <=? bal b self d0) eqn:E; [|discriminate].
    apply N.leb_le in E.
    specialize (IH _ _ _ H a d). cbn [paid paid_to].
    rewrite bal_set in IH. rewrite !bal_set in IH.
    eqbs; subst; cbn [andb] in *; try congruence; try lia.
Qed.

(* ---------- the world step ---------- *)
Lemma step_distribute_inv : forall w s dl w',
  step w (Distribute s dl) = Ok w' ->
  exists msgs, distribute w s dl = Ok msgs /\
    w_self w' = w_self w /\ w_admin w' = w_admin w /\ w_gadmin w' = w_gadmin w /\
    w_members w' = w_members w /\ w_denoms w' = w_denoms w /\
    exec_sends (w_bank w) (w_self w) msgs = Some (w_bank w').
Proof.
  intros w s dl w' H. cbn [step] in H. unfold bind in H.
  destruct (distribute w s dl) as [msgs|] eqn:ED; [|discriminate].
  destruct (exec_sends _ _ _) as [b'|] eqn:EX; [|discriminate].
  inversion H; subst w'. exists msgs. cbn. repeat split; try reflexivity. exact EX.
Qed.

(* balances after a successful distribution, in full generality (any repetition of
   denoms in the request, the contract possibly a member of its own group) *)
Lemma world_distribute_balances : forall w s dl w',
  step w (Distribute s dl) = Ok w' ->
  let W := total_weight (w_members w) in
  forall a d,
    bal (w_bank w') a d + (if a =? w_self w then W * (count d (requested w dl) * (held w d / W)) else 0)
    = bal (w_bank w) a d + weight_of (w_members w) a * (count d (requested w dl) * (held w d / W)).
Proof.
  intros w s dl w' H W a d.
  destruct (step_distribute_inv _ _ _ _ H) as [msgs [HD [_ [_ [_ [_ [_ HX]]]]]]].
  destruct (distribute_ok_inv _ _ _ _ HD) as [_ [_ [_ [-> _]]]].
  pose proof (exec_sends_spec _ _ _ _ HX a d) as E.
  rewrite paid_pay_msgs, paid_to_pay_msgs, mults_funds_of in E. exact E.
Qed.

Lemma weight_of_nonmember : forall ms a, is_member a ms = false -> weight_of ms a = 0.
Proof.
  induction ms as [|m r IH]; intros a H; cbn [weight_of]; [reflexivity|].
  unfold is_member in H. cbn [existsb] in H. apply orb_false_iff in H. destruct H as [H1 H2].
  rewrite H1. apply IH. exact H2.
Qed.

(* never more than is held (the contract not being a member of its own group) *)
Lemma world_no_overpay : forall w s dl w',
  step w (Distribute s dl) = Ok w' ->
  is_member (w_self w) (w_members w) = false ->
  forall d,
    let W := total_weight (w_members w) in
    let total_paid := W * (count d (requested w dl) * (held w d / W)) in
    total_paid <= held w d /\ bal (w_bank w') (w_self w) d = held w d - total_paid.
Proof.
  intros w s dl w' H Hself d W total_paid.
  pose proof (world_distribute_balances _ _ _ _ H (w_self w) d) as E. cbn zeta in E.
  rewrite N.eqb_refl, (weight_of_nonmember _ _ Hself) in E.
  fold W in E. fold total_paid in E. unfold held. unfold held in total_paid. lia.
Qed.

(* a denom named twice that would pay something makes the whole step fail *)
Lemma world_duplicate_refused : forall w s dl d,
  is_member (w_self w) (w_members w) = false ->
  2 <= count d (requested w dl) ->
  1 <= held w d / total_weight (w_members w) ->
  step w (Distribute s dl) = Err.
Proof.
  intros w s dl d Hself Hc Hk.
  destruct (step w (Distribute s dl)) as [w'|] eqn:H; [|reflexivity]. exfalso.
  destruct (step_distribute_inv _ _ _ _ H) as [msgs [HD _]].
  destruct (distribute_ok_inv _ _ _ _ HD) as [_ [HW _]].
  destruct (world_no_overpay _ _ _ _ H Hself d) as [Hle _]. cbn zeta in Hle.
  pose proof (twice_exceeds _ (held w d) HW Hk) as T.
  set (k := held w d / total_weight (w_members w)) in *.
  set (W := total_weight (w_members w)) in *.
  assert (2 * (W * k) <= W * (count d (requested w dl) * k)) by nia.
  lia.
Qed.

(* ---------- well-formed worlds: ascending keys ---------- *)
Lemma ascending_cons : forall x l, ascending (x :: l) = true <->
  (forall y, In y l -> x < y) /\ ascending l = true.
Proof.
  intros x l. revert x. induction l as [|y r IH]; intros x.
  - cbn. split; [intros _; split; [intros ? []|reflexivity]|reflexivity].
  - change (ascending (x :: y :: r)) with ((x <? y) && ascending (y :: r)).
    rewrite andb_true_iff, N.ltb_lt. split.
    + intros [Hxy Hr]. split; [|exact Hr].
      intros z [<-|Hz]; [exact Hxy|]. apply IH in Hr. destruct Hr as [Hr _].
      specialize (Hr _ Hz). lia.
    + intros [Hall Hr]. split; [apply Hall; left; reflexivity|exact Hr].
Qed.

Lemma weight_of_member : forall ms m,
  ascending (map m_addr ms) = true -> In m ms -> weight_of ms (m_addr m) = m_weight m.
Proof.
  induction ms as [|x r IH]; intros m Hs Hin; [destruct Hin|].
  cbn [map] in Hs. apply ascending_cons in Hs. destruct Hs as [Hlt Hs].
  cbn [weight_of]. destruct Hin as [->|Hin].
  - rewrite N.eqb_refl.
    assert (weight_of r (m_addr m) = 0) as ->; [|lia].
    apply weight_of_nonmember. unfold is_member.
    destruct (existsb _ r) eqn:E; [|reflexivity]. exfalso.
    apply existsb_exists in E. destruct E as [y [Hy Hy2]]. apply N.eqb_eq in Hy2.
    specialize (Hlt (m_addr y) (in_map _ _ _ Hy)). lia.
  - assert (m_addr x <> m_addr m) as Hne.
    { specialize (Hlt (m_addr m) (in_map _ _ _ Hin)). lia. }
    apply N.eqb_neq in Hne. rewrite Hne. apply IH; assumption.
Qed.

Lemma count_ascending : forall l d, ascending l = true -> count d l = if existsb (N.eqb d) l then 1 else 0.
Proof.
  induction l as [|x r IH]; intros d Hs; [reflexivity|].
  apply ascending_cons in Hs. destruct Hs as [Hlt Hs].
  cbn [count existsb]. rewrite (IH _ Hs). rewrite (N.eqb_sym d x).
  destruct (N.eqb_spec x d) as [->|Hne]; cbn [orb]; [|reflexivity].
  destruct (existsb (N.eqb d) r) eqn:E; [|reflexivity]. exfalso.
  apply existsb_exists in E. destruct E as [y [Hy Hy2]]. apply N.eqb_eq in Hy2. subst y.
  specialize (Hlt _ Hy). lia.
Qed.

Lemma upsert_addrs : forall m ms a, In a (map m_addr (upsert m ms)) -> a = m_addr m \/ In a (map m_addr ms).
Proof.
  intros m ms a. induction ms as [|x r IH]; cbn [upsert map].
  - intros [<-|[]]. left; reflexivity.
  - destruct (m_addr m <? m_addr x); [|destruct (m_addr m =? m_addr x)]; cbn [map In]; intuition.
Qed.

Lemma upsert_ascending : forall m ms,
  ascending (map m_addr ms) = true -> ascending (map m_addr (upsert m ms)) = true.
Proof.
  intros m ms. induction ms as [|x r IH]; intros Hs; cbn [upsert map].
  - reflexivity.
  - pose proof Hs as Hs0. cbn [map] in Hs. apply ascending_cons in Hs. destruct Hs as [Hlt Hs].
    destruct (N.ltb_spec (m_addr m) (m_addr x)) as [L|L].
    + cbn [map]. apply ascending_cons. split; [|exact Hs0].
      intros y [<-|Hy]; [exact L|]. specialize (Hlt _ Hy). lia.
    + destruct (N.eqb_spec (m_addr m) (m_addr x)) as [E|E]; cbn [map]; apply ascending_cons.
      * split; [|exact Hs]. rewrite E. exact Hlt.
      * split; [|apply IH; exact Hs].
        intros y Hy. apply upsert_addrs in Hy. destruct Hy as [->|Hy]; [lia|apply Hlt; exact Hy].
Qed.

Lemma remove_ascending : forall a ms,
  ascending (map m_addr ms) = true -> ascending (map m_addr (remove_member a ms)) = true.
Proof.
  intros a ms. induction ms as [|x r IH]; intros Hs; cbn [remove_member filter map]; [reflexivity|].
  cbn [map] in Hs. apply ascending_cons in Hs. destruct Hs as [Hlt Hs].
  fold (remove_member a r).
  destruct (negb (m_addr x =? a)); [|apply IH; exact Hs].
  cbn [map]. apply ascending_cons. split; [|apply IH; exact Hs].
  intros y Hy. apply Hlt. apply in_map_iff in Hy. destruct Hy as [z [<- Hz]].
  unfold remove_member in Hz. apply filter_In in Hz. apply in_map. apply Hz.
Qed.

Lemma group_create_ascending : forall adds acc ms,
  ascending (map m_addr acc) = true -> group_create adds acc = Ok ms -> ascending (map m_addr ms) = true.
Proof.
  induction adds as [|m r IH]; intros acc ms Hs H; cbn [group_create] in H.
  - inversion H; subst; exact Hs.
  - destruct (total_weight (upsert m acc) <=? U64_MAX); [|discriminate].
    eapply IH; [|exact H]. apply upsert_ascending; exact Hs.
Qed.

Lemma fold_remove_ascending : forall rems ms,
  ascending (map m_addr ms) = true ->
  ascending (map m_addr (fold_left (fun acc a => remove_member a acc) rems ms)) = true.
Proof.
  induction rems as [|a r IH]; intros ms Hs; cbn [fold_left]; [exact Hs|].
  apply IH. apply remove_ascending. exact Hs.
Qed.

Lemma insert_denom_in : forall d ds y, In y (insert_denom d ds) -> y = d \/ In y ds.
Proof.
  intros d ds y. induction ds as [|x r IH]; cbn [insert_denom].
  - intros [<-|[]]. left; reflexivity.
  - destruct (d <? x); [|destruct (d =? x)]; cbn [In]; intuition.
Qed.

Lemma insert_denom_ascending : forall d ds, ascending ds = true -> ascending (insert_denom d ds) = true.
Proof.
  intros d ds. induction ds as [|x r IH]; intros Hs; cbn [insert_denom]; [reflexivity|].
  pose proof Hs as Hs0. apply ascending_cons in Hs. destruct Hs as [Hlt Hs].
  destruct (N.ltb_spec d x) as [L|L].
  - apply ascending_cons. split; [|exact Hs0].
    intros y [<-|Hy]; [exact L|]. specialize (Hlt _ Hy). lia.
  - destruct (N.eqb_spec d x) as [E|E]; [exact Hs0|].
    apply ascending_cons. split; [|apply IH; exact Hs].
    intros y Hy. apply insert_denom_in in Hy. destruct Hy as [->|Hy]; [lia|apply Hlt; exact Hy].
Qed.

Lemma step_wf : forall w o w', wf_world w -> step w o = Ok w' -> wf_world w'.
Proof.
  intros w o w' [Hm Hd] H. destruct o as [d amt|s adds rems|s na|s dl]; cbn [step] in H.
  - inversion H; subst. split; cbn; [exact Hm|apply insert_denom_ascending; exact Hd].
  - unfold bind in H. destruct (group_update _ _ _ _ _) as [ms|] eqn:E; [|discriminate].
    inversion H; subst. split; cbn; [|exact Hd].
    unfold group_update in E. destruct (has_dup _); [discriminate|].
    destruct (w_gadmin w) as [ga|]; [|discriminate].
    destruct (negb (ga =? s)); [discriminate|]. unfold bind in E.
    destruct (group_create _ _) as [ms1|] eqn:E1; [|discriminate].
    inversion E; subst. apply fold_remove_ascending.
    eapply group_create_ascending; [exact Hm|exact E1].
  - destruct (w_admin w) as [a|]; [|discriminate]. destruct (a =? s); [|discriminate].
    inversion H; subst. split; cbn; assumption.
  - destruct (step_distribute_inv _ _ _ _ H) as [_ [_ [_ [_ [_ [Em [Ed _]]]]]]].
    split; [rewrite Em|rewrite Ed]; assumption.
Qed.

Lemma run_wf : forall ops w, wf_world w -> wf_world (run w ops).
Proof.
  induction ops as [|o r IH]; intros w Hw; cbn [run fold_left]; [exact Hw|].
  apply IH. unfold step'. destruct (step w o) as [w'|] eqn:E; [|exact Hw].
  eapply step_wf; [exact Hw|exact E].
Qed.

Lemma sort_members_ascending : forall ms, ascending (map m_addr (sort_members ms)) = true.
Proof.
  induction ms as [|m r IH]; cbn [sort_members fold_right]; [reflexivity|].
  apply upsert_ascending. exact IH.
Qed.

Lemma init_wf : forall self admin gadmin ms g,
  group_instantiate ms = Ok g -> wf_world (init_world self admin gadmin g).
Proof.
  intros self admin gadmin ms g H. unfold group_instantiate in H.
  destruct (has_dup _); [discriminate|]. split; cbn; [|reflexivity].
  eapply group_create_ascending; [|exact H]. reflexivity.
Qed.

(* ---------- headline forms ---------- *)
(* exact shares in a well-formed world, request without repetition *)
Lemma world_exact : forall w s dl w',
  wf_world w ->
  step w (Distribute s dl) = Ok w' ->
  (forall d, count d (requested w dl) <= 1) ->
  let W := total_weight (w_members w) in
  W <> 0 /\ (1 <= length (w_members w) <= 25)%nat /\ can_distribute w s = true /\
  forall d,
    let k := if existsb (N.eqb d) (requested w dl) then held w d / W else 0 in
    (* every member other than the contract itself receives weight x floor(balance / W) *)
    (forall m, In m (w_members w) -> m_addr m <> w_self w ->
       bal (w_bank w') (m_addr m) d = bal (w_bank w) (m_addr m) d + m_weight m * k) /\
    (* nobody else receives anything *)
    (forall a, is_member a (w_members w) = false -> a <> w_self w ->
       bal (w_bank w') a d = bal (w_bank w) a d) /\
    (* the contract keeps the rest (and its own share, should it be a member) *)
    bal (w_bank w') (w_self w) d + W * k = held w d + weight_of (w_members w) (w_self w) * k /\
    W * k <= held w d /\
    (k <> 0 -> held w d - W * k = held w d mod W /\ held w d mod W < W).
Proof.
  intros w s dl w' [Hm Hd] H Hc W.
  destruct (step_distribute_inv _ _ _ _ H) as [msgs [HD _]].
  destruct (distribute_ok_inv _ _ _ _ HD) as [Hcan [HW [Hlen _]]].
  split; [exact HW|]. split; [exact Hlen|]. split; [exact Hcan|].
  intros d k.
  assert (Hk : count d (requested w dl) * (held w d / W) = k).
  { unfold k. specialize (Hc d).
    destruct (existsb (N.eqb d) (requested w dl)) eqn:E.
    - apply existsb_exists in E. destruct E as [y [Hy Hy2]]. apply N.eqb_eq in Hy2. subst y.
      assert (count d (requested w dl) <> 0).
      { clear -Hy. induction (requested w dl) as [|x r IH]; [destruct Hy|].
        cbn [count]. destruct (N.eqb_spec x d); [lia|]. destruct Hy as [->|Hy]; [congruence|]. apply IH; exact Hy. }
      assert (count d (requested w dl) = 1) as -> by lia. lia.
    - assert (count d (requested w dl) = 0) as ->; [|lia].
      clear -E. induction (requested w dl) as [|x r IH]; [reflexivity|].
      cbn [existsb] in E. apply orb_false_iff in E. destruct E as [E1 E2].
      cbn [count]. rewrite N.eqb_sym in E1. rewrite E1. apply IH; exact E2. }
  pose proof (world_distribute_balances _ _ _ _ H) as B. cbn zeta in B. fold W in B.
  assert (HWk : W * k <= held w d).
  { unfold k. destruct (existsb _ _); [apply N.mul_div_le; exact HW|lia]. }
  split; [|split; [|split; [|split]]].
  - intros m Hin Hne. specialize (B (m_addr m) d). rewrite Hk in B.
    apply N.eqb_neq in Hne. rewrite Hne in B.
    rewrite (weight_of_member _ _ Hm Hin) in B. lia.
  - intros a Hna Hne. specialize (B a d). rewrite Hk in B.
    apply N.eqb_neq in Hne. rewrite Hne in B.
    rewrite (weight_of_nonmember _ _ Hna) in B. lia.
  - specialize (B (w_self w) d). rewrite Hk, N.eqb_refl in B. unfold held. unfold held in B. exact B.
  - exact HWk.
  - intros Hnz. unfold k in *. destruct (existsb _ _); [|congruence].
    apply remainder_exact; exact HW.
Qed.

(* the implicit request never repeats a denom in a well-formed world *)
Lemma implicit_once : forall w d, wf_world w -> count d (requested w None) <= 1.
Proof.
  intros w d [_ Hd]. cbn [requested]. rewrite (count_ascending _ _ Hd).
  destruct (existsb _ _); lia.
Qed.

(* ---------- forms used by the statements ---------- *)
Lemma funds_in_iff : forall w dl c,
  In c (funds_of w dl) <-> exists d, In d (requested w dl) /\ held w d <> 0 /\ c = mkCoin d (held w d).
Proof.
  intros w dl c. unfold funds_of, requested, held. split.
  - intros H. destruct dl as [l|]; apply filter_In in H; destruct H as [H Hnz];
      apply in_map_iff in H; destruct H as [x [<- Hx]]; exists x;
      unfold nonzero_coin in Hnz; cbn [c_amount] in Hnz;
      rewrite negb_true_iff, N.eqb_neq in Hnz; repeat split; assumption.
  - intros [d [Hd [Hnz ->]]].
    destruct dl as [l|]; apply filter_In; (split; [apply in_map_iff; exists d; split; [reflexivity|exact Hd]|]);
      unfold nonzero_coin; cbn [c_amount]; rewrite negb_true_iff, N.eqb_neq; exact Hnz.
Qed.

Lemma messages_exact : forall w s dl msgs,
  distribute w s dl = Ok msgs ->
  forall msg, In msg msgs <->
    exists m d, In m (w_members w) /\ 0 < m_weight m /\ In d (requested w dl) /\
                held w d / total_weight (w_members w) <> 0 /\
                msg = Send (m_addr m) d (m_weight m * (held w d / total_weight (w_members w))).
Proof.
  intros w s dl msgs H msg.
  destruct (distribute_ok_inv _ _ _ _ H) as [_ [HW [_ [-> _]]]].
  rewrite in_pay_msgs. split.
  - intros [m [c [Hm [Hp [Hc [Hk ->]]]]]]. apply funds_in_iff in Hc.
    destruct Hc as [d [Hd [Hnz ->]]]. cbn [c_amount c_denom] in *.
    exists m, d. repeat split; assumption.
  - intros [m [d [Hm [Hp [Hd [Hk ->]]]]]]. exists m, (mkCoin d (held w d)).
    cbn [c_amount c_denom]. repeat split; try assumption.
    apply funds_in_iff. exists d. repeat split; try assumption.
    intro Z. rewrite Z in Hk. apply Hk. reflexivity.
Qed.

Lemma paid_sums : forall w s dl msgs,
  distribute w s dl = Ok msgs ->
  let W := total_weight (w_members w) in
  forall d,
    paid msgs d = W * (count d (requested w dl) * (held w d / W)) /\
    forall a, paid_to msgs a d = weight_of (w_members w) a * (count d (requested w dl) * (held w d / W)).
Proof.
  intros w s dl msgs H W d.
  destruct (distribute_ok_inv _ _ _ _ H) as [_ [_ [_ [-> _]]]].
  split; [|intros a]; rewrite ?paid_pay_msgs, ?paid_to_pay_msgs, mults_funds_of; reflexivity.
Qed.

Lemma amounts_bounded : forall w s dl msgs,
  distribute w s dl = Ok msgs ->
  forall msg, In msg msgs -> exists a d x, msg = Send a d x /\ x <= held w d /\ x <> 0.
Proof.
  intros w s dl msgs H msg Hin.
  destruct (distribute_ok_inv _ _ _ _ H) as [_ [HW [_ [-> _]]]].
  eapply msg_amount_le_held; eassumption.
Qed.

Lemma can_distribute_spec : forall w s,
  can_distribute w s = true <->
  match w_admin w with
  | Some a => a = s
  | None => exists m, In m (w_members w) /\ m_addr m = s
  end.
Proof.
  intros w s. unfold can_distribute. destruct (w_admin w) as [a|].
  - apply N.eqb_eq.
  - unfold is_member. rewrite existsb_exists.
    split; intros [m [Hm E]]; exists m; (split; [exact Hm|]); apply N.eqb_eq; exact E.
Qed.

Lemma step_err_unchanged : forall w o, step w o = Err -> step' w o = w.
Proof. intros w o H. unfold step'. rewrite H. reflexivity. Qed.

Lemma step_other_bank : forall w o w',
  step w o = Ok w' ->
  match o with
  | Deposit d amt =>
      forall a d', bal (w_bank w') a d' =
                   bal (w_bank w) a d' + (if (a =? w_self w) && (d' =? d) then amt else 0)
  | UpdateMembers _ _ _ | UpdateAdmin _ _ => w_bank w' = w_bank w
  | Distribute _ _ => True
  end.
Proof.
  intros w o w' H. destruct o as [d amt|s adds rems|s na|s dl]; cbn [step] in H.
  - inversion H; subst. cbn. intros a d'. rewrite bal_set.
    destruct ((a =? w_self w) && (d' =? d)) eqn:E; [|lia].
    apply andb_true_iff in E. destruct E as [E1 E2]. apply N.eqb_eq in E1, E2. subst. lia.
  - unfold bind in H. destruct (group_update _ _ _ _ _); [|discriminate]. inversion H; reflexivity.
  - destruct (w_admin w) as [a|]; [|discriminate]. destruct (a =? s); [|discriminate]. inversion H; reflexivity.
  - exact I.
Qed.

Lemma repeat_exact : forall self admin gadmin ms g ops s dl w',
  group_instantiate ms = Ok g ->
  let w := run (init_world self admin gadmin g) ops in
  step w (Distribute s dl) = Ok w' ->
  (forall d, count d (requested w dl) <= 1) ->
  let W := total_weight (w_members w) in
  W <> 0 /\ (1 <= length (w_members w) <= 25)%nat /\ can_distribute w s = true /\
  forall d,
    let k := if existsb (N.eqb d) (requested w dl) then held w d / W else 0 in
    (forall m, In m (w_members w) -> m_addr m <> w_self w ->
       bal (w_bank w') (m_addr m) d = bal (w_bank w) (m_addr m) d + m_weight m * k) /\
    (forall a, is_member a (w_members w) = false -> a <> w_self w ->
       bal (w_bank w') a d = bal (w_bank w) a d) /\
    bal (w_bank w') (w_self w) d + W * k = held w d + weight_of (w_members w) (w_self w) * k /\
    W * k <= held w d /\
    (k <> 0 -> held w d - W * k = held w d mod W /\ held w d mod W < W).
Proof.
  intros self admin gadmin ms g ops s dl w' HG w H Hc.
  apply (world_exact w s dl w'); try assumption.
  unfold w. apply run_wf. eapply init_wf; exact HG.
Qed.
