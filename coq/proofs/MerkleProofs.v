(* Lemmas for C14: completeness and soundness of the sorted-pair Merkle fold against the
   tree rs_merkle builds, hex parsing, root immutability, tiered root selection, leaf
   injectivity.  Stdlib only; H and L are Section variables (universally quantified in the
   closed statements).  NB: never use bare [subst] while [length x = L] is in context. *)
From Coq Require Import List NArith Bool Lia Arith.
From LP Require Import Prelude Pay Semver Merkle.
From LP Require Stages.
Import ListNotations.
Local Open Scope N_scope.

(* ---------- generic list facts ---------- *)
Lemma list_pair_ind {A} (P : list A -> Prop) :
  P [] -> (forall a, P [a]) -> (forall a b r, P r -> P (a :: b :: r)) -> forall l, P l.
Proof.
  intros H0 H1 H2.
  fix IH 1. intros [|a [|b r]].
  - exact H0.
  - apply H1.
  - apply H2. apply IH.
Qed.

Lemma list_eqb_N_eq : forall a b : list N, list_eqb N.eqb a b = true <-> a = b.
Proof.
  induction a as [|x a IH]; destruct b as [|y b]; cbn; split; intro E; try discriminate; try reflexivity.
  - apply andb_true_iff in E. destruct E as [E1 E2]. apply N.eqb_eq in E1. apply IH in E2. congruence.
  - inversion E; subst. rewrite N.eqb_refl. cbn. apply IH. reflexivity.
Qed.
Lemma bytes_eqb_eq : forall a b, bytes_eqb a b = true <-> a = b.
Proof. exact list_eqb_N_eq. Qed.
Lemma str_eqb_eq : forall a b, str_eqb a b = true <-> a = b.
Proof. exact list_eqb_N_eq. Qed.
Lemma bytes_eqb_refl : forall a, bytes_eqb a a = true.
Proof. intro a. apply bytes_eqb_eq. reflexivity. Qed.
Lemma bytes_eqb_neq : forall a b, bytes_eqb a b = false <-> a <> b.
Proof.
  intros a b. split.
  - intros E F. apply bytes_eqb_eq in F. congruence.
  - intro F. destruct (bytes_eqb a b) eqn:E; [|reflexivity]. apply bytes_eqb_eq in E. contradiction.
Qed.
Definition bytes_dec : forall a b : bytes, {a = b} + {a <> b} := list_eq_dec N.eq_dec.

Lemma app_inv_len {A} : forall (a c b d : list A),
  length a = length c -> a ++ b = c ++ d -> a = c /\ b = d.
Proof.
  induction a as [|x a IH]; destruct c as [|y c]; cbn; intros b d Hl E; try discriminate.
  - auto.
  - inversion E. destruct (IH c b d) as [E1 E2]; [congruence|assumption|]. split; congruence.
Qed.

(* ---------- the byte order and the sorted pair ---------- *)
Lemma bytes_leb_antisym : forall a b, bytes_leb a b = true -> bytes_leb b a = true -> a = b.
Proof.
  induction a as [|x a IH]; destruct b as [|y b]; cbn; intros E1 E2; try discriminate; try reflexivity.
  destruct (x <? y) eqn:Exy; destruct (y <? x) eqn:Eyx; try discriminate.
  - apply N.ltb_lt in Exy. apply N.ltb_lt in Eyx. lia.
  - apply N.ltb_ge in Exy. apply N.ltb_ge in Eyx. assert (x = y) by lia.
    f_equal; [assumption|]. apply IH; assumption.
Qed.
Lemma bytes_leb_total : forall a b, bytes_leb a b = false -> bytes_leb b a = true.
Proof.
  induction a as [|x a IH]; destruct b as [|y b]; cbn; intros E; try discriminate; try reflexivity.
  destruct (x <? y) eqn:Exy; destruct (y <? x) eqn:Eyx; try discriminate; try reflexivity.
  apply IH. assumption.
Qed.
Lemma sortcat_comm : forall a b, sortcat a b = sortcat b a.
Proof.
  intros a b. unfold sortcat.
  destruct (bytes_leb a b) eqn:E1; destruct (bytes_leb b a) eqn:E2; try reflexivity.
  - rewrite (bytes_leb_antisym a b E1 E2). reflexivity.
  - apply bytes_leb_total in E1. congruence.
Qed.
Lemma sortcat_length : forall a b, length (sortcat a b) = (length a + length b)%nat.
Proof. intros a b. unfold sortcat. destruct (bytes_leb a b); rewrite app_length; lia. Qed.
Lemma sortcat_inj : forall (n : nat) a s c d,
  length a = n -> length s = n -> length c = n -> length d = n ->
  sortcat a s = sortcat c d -> a = c \/ a = d.
Proof.
  intros n a s c d La Ls Lc Ld. unfold sortcat.
  destruct (bytes_leb a s); destruct (bytes_leb c d); intro E;
    apply app_inv_len in E; try congruence; destruct E; auto.
Qed.

(* ====================================================================== *)
Section Tree.
  Variable L : nat.
  Variable H : bytes -> bytes.
  Hypothesis H_len : forall x, length (H x) = L.

  Notation step := (step H).
  Notation layer_up := (layer_up H).
  Notation iter_up := (iter_up H).
  Notation nodes := (nodes H).
  Notation tree_inputs := (tree_inputs H).
  Notation fold_inputs := (fold_inputs H).

  Lemma step_comm : forall a b, step a b = step b a.
  Proof. intros. unfold Merkle.step. rewrite sortcat_comm. reflexivity. Qed.

  (* ---------- completeness ---------- *)
  Lemma sibling_SS : forall k, sibling (S (S k)) = S (S (sibling k)).
  Proof.
    intro k. unfold sibling. cbn [Nat.even]. destruct (Nat.even k) eqn:E; [reflexivity|].
    destruct k as [|k]; [discriminate|]. reflexivity.
  Qed.

  Lemma layer_up_nth : forall l i x, nth_error l i = Some x ->
    match nth_error l (sibling i) with
    | Some s => nth_error (layer_up l) (Nat.div2 i) = Some (step x s)
    | None => nth_error (layer_up l) (Nat.div2 i) = Some x
    end.
  Proof.
    induction l as [| a | a b r IH] using list_pair_ind; intros i x Hi.
    - destruct i; discriminate.
    - destruct i as [|i]; [|destruct i; discriminate]. cbn in Hi. inversion Hi. reflexivity.
    - destruct i as [|[|k]].
      + cbn in Hi. inversion Hi. reflexivity.
      + cbn in Hi. inversion Hi. cbn. rewrite step_comm. reflexivity.
      + rewrite sibling_SS. cbn [nth_error Nat.div2 Merkle.layer_up]. cbn in Hi.
        apply IH. exact Hi.
  Qed.

  Lemma proof_layers_ok : forall fuel l i x, nth_error l i = Some x ->
    exists j, nth_error (iter_up fuel l) j = Some (fold_left step (proof_layers H fuel l i) x).
  Proof.
    induction fuel as [|f IH]; intros l i x Hi.
    - exists i. exact Hi.
    - cbn [Merkle.iter_up proof_layers]. pose proof (layer_up_nth l i x Hi) as Hn.
      destruct (nth_error l (sibling i)) as [s|].
      + cbn [fold_left]. apply IH with (i := Nat.div2 i). exact Hn.
      + apply IH with (i := Nat.div2 i). exact Hn.
  Qed.

  Lemma layer_up_length : forall l, length (layer_up l) = Nat.div2 (S (length l)).
  Proof.
    induction l as [| a | a b r IH] using list_pair_ind; try reflexivity.
    cbn [Merkle.layer_up length]. rewrite IH. reflexivity.
  Qed.
  Lemma div2_S_le : forall n, (2 <= n -> Nat.div2 (S n) < n)%nat.
  Proof.
    intros n Hn. pose proof (Nat.div2_odd (S n)) as E. destruct (Nat.odd (S n)); cbn [Nat.b2n] in E; lia.
  Qed.
  Lemma div2_S_pos : forall n, (1 <= n -> 1 <= Nat.div2 (S n))%nat.
  Proof.
    intros n Hn. pose proof (Nat.div2_odd (S n)) as E. destruct (Nat.odd (S n)); cbn [Nat.b2n] in E; lia.
  Qed.
  Lemma iter_up_singleton : forall fuel l, (1 <= length l <= S fuel)%nat -> length (iter_up fuel l) = 1%nat.
  Proof.
    induction fuel as [|f IH]; intros l Hl.
    - cbn. lia.
    - cbn [Merkle.iter_up]. apply IH. rewrite layer_up_length.
      destruct (Nat.eq_dec (length l) 1) as [E|E].
      + rewrite E. cbn. lia.
      + pose proof (div2_S_le (length l)). pose proof (div2_S_pos (length l)). lia.
  Qed.

  Theorem complete_at : forall (ms : list str) i (m : str), nth_error ms i = Some m ->
    fold_proof H m (proof_at H ms i) = root H ms.
  Proof.
    intros ms i m Hi. unfold fold_proof, proof_at, root.
    assert (Hl : nth_error (leaves H ms) i = Some (H m)).
    { unfold leaves. rewrite nth_error_map, Hi. reflexivity. }
    destruct (proof_layers_ok (length ms) (leaves H ms) i (H m) Hl) as [j Hj].
    assert (Hs : length (iter_up (length ms) (leaves H ms)) = 1%nat).
    { apply iter_up_singleton. unfold leaves. rewrite map_length.
      assert (i < length ms)%nat by (apply nth_error_Some; congruence). lia. }
    destruct (iter_up (length ms) (leaves H ms)) as [|r [|? ?]]; try discriminate.
    destruct j as [|j]; [|destruct j; discriminate]. cbn in Hj. inversion Hj. reflexivity.
  Qed.

  Theorem complete : forall (ms : list str) (m : str), In m ms ->
    exists i, nth_error ms i = Some m /\ verify H (root H ms) m (proof_at H ms i) = true.
  Proof.
    intros ms m Hin. apply In_nth_error in Hin. destruct Hin as [i Hi].
    exists i. split; [exact Hi|]. unfold verify. apply bytes_eqb_eq. apply complete_at. exact Hi.
  Qed.

  (* ---------- soundness ---------- *)
  Definition coll_in (C : list bytes) : Prop :=
    exists x y, In x C /\ In y C /\ x <> y /\ H x = H y.

  Lemma coll_in_incl : forall C D, incl C D -> coll_in C -> coll_in D.
  Proof. intros C D Hi (x & y & Hx & Hy & Hn & He). exists x, y. auto. Qed.

  Lemma layer_up_inv : forall l y, In y (layer_up l) ->
    In y l \/ exists a b, In a l /\ In b l /\ In (sortcat a b) (layer_inputs l) /\ y = step a b.
  Proof.
    induction l as [| a | a b r IH] using list_pair_ind; intros y Hy.
    - left. exact Hy.
    - left. exact Hy.
    - cbn [Merkle.layer_up] in Hy. destruct Hy as [Hy|Hy].
      + right. exists a, b. cbn. auto 6.
      + apply IH in Hy. destruct Hy as [Hy|(a' & b' & Ha & Hb & Hi & He)].
        * left. cbn. auto.
        * right. exists a', b'. cbn. auto 7.
  Qed.

  Lemma nodes_head : forall fuel l, incl l (nodes fuel l).
  Proof. intros [|f] l x Hx; cbn; [assumption|]. apply in_or_app. auto. Qed.

  Lemma node_inv : forall fuel l y, In y (nodes fuel l) ->
    In y l \/ exists a b, In a (nodes fuel l) /\ In b (nodes fuel l) /\
                          In (sortcat a b) (tree_inputs fuel l) /\ y = step a b.
  Proof.
    induction fuel as [|f IH]; intros l y Hy.
    - left. exact Hy.
    - cbn [Merkle.nodes] in Hy. apply in_app_or in Hy. destruct Hy as [Hy|Hy]; [left; exact Hy|].
      apply IH in Hy. destruct Hy as [Hy|(a & b & Ha & Hb & Hi & He)].
      + apply layer_up_inv in Hy. destruct Hy as [Hy|(a & b & Ha & Hb & Hi & He)]; [left; exact Hy|].
        right. exists a, b. cbn [Merkle.nodes Merkle.tree_inputs].
        repeat split; try (apply in_or_app; left; assumption). exact He.
      + right. exists a, b. cbn [Merkle.nodes Merkle.tree_inputs].
        repeat split; try (apply in_or_app; right; assumption). exact He.
  Qed.

  Lemma layer_up_len : forall l, Forall (fun x => length x = L) l -> Forall (fun x => length x = L) (layer_up l).
  Proof.
    induction l as [| a | a b r IH] using list_pair_ind; intro F; try exact F.
    cbn [Merkle.layer_up]. constructor; [apply H_len|]. apply IH.
    apply Forall_inv_tail in F. apply Forall_inv_tail in F. exact F.
  Qed.
  Lemma nodes_len : forall fuel l, Forall (fun x => length x = L) l -> Forall (fun x => length x = L) (nodes fuel l).
  Proof.
    induction fuel as [|f IH]; intros l F; [exact F|].
    cbn [Merkle.nodes]. apply Forall_app. split; [exact F|]. apply IH. apply layer_up_len. exact F.
  Qed.
  Lemma leaves_len : forall ms, Forall (fun x => length x = L) (leaves H ms).
  Proof. intro ms. unfold leaves. apply Forall_forall. intros x Hx. apply in_map_iff in Hx. destruct Hx as (m & E & _). rewrite <- E. apply H_len. Qed.

  Lemma iter_up_in_nodes : forall fuel l, incl (iter_up fuel l) (nodes fuel l).
  Proof.
    induction fuel as [|f IH]; intros l x Hx; [exact Hx|].
    cbn [Merkle.iter_up] in Hx. cbn [Merkle.nodes]. apply in_or_app. right. apply IH. exact Hx.
  Qed.
  Lemma layer_up_nonempty : forall l, l <> [] -> layer_up l <> [].
  Proof. intros [|a [|b r]] Hn; cbn; congruence. Qed.
  Lemma iter_up_nonempty : forall fuel l, l <> [] -> iter_up fuel l <> [].
  Proof. induction fuel as [|f IH]; intros l Hn; [exact Hn|]. cbn. apply IH. apply layer_up_nonempty. exact Hn. Qed.
  Lemma root_is_node : forall ms, ms <> [] -> In (root H ms) (tree_nodes H ms).
  Proof.
    intros ms Hn. unfold root, tree_nodes. apply iter_up_in_nodes.
    assert (Hl : leaves H ms <> []) by (destruct ms; [congruence|discriminate]).
    pose proof (iter_up_nonempty (length ms) _ Hl) as Hne.
    destruct (iter_up (length ms) (leaves H ms)); [congruence|]. left. reflexivity.
  Qed.

  Section Against.
    Variable ms : list str.
    Variable C : list bytes.                      (* the inputs H was applied to *)
    Hypothesis C_ms : incl ms C.
    Hypothesis C_tree : incl (tree_inputs (length ms) (leaves H ms)) C.

    Let N := tree_nodes H ms.
    Let caveat_ms := exists m', In m' ms /\ length m' = (2 * L)%nat.

    Lemma N_len : forall x, In x N -> length x = L.
    Proof.
      intros x Hx. pose proof (nodes_len (length ms) _ (leaves_len ms)) as F.
      rewrite Forall_forall in F. apply F. exact Hx.
    Qed.

    Lemma N_inv : forall y, In y N ->
      (exists m', In m' ms /\ y = H m') \/
      (exists a b, In a N /\ In b N /\ In (sortcat a b) C /\ y = step a b).
    Proof.
      intros y Hy. unfold N, tree_nodes in Hy. apply node_inv in Hy.
      destruct Hy as [Hy|(a & b & Ha & Hb & Hi & He)].
      - left. unfold leaves in Hy. apply in_map_iff in Hy. destruct Hy as (m' & E & Hm). eauto.
      - right. exists a, b. repeat split; auto.
    Qed.

    Lemma step_back : forall x s, length x = L -> length s = L -> In (sortcat x s) C ->
      In (step x s) N -> In x N \/ coll_in C \/ caveat_ms.
    Proof.
      intros x s Lx Ls Hc Hy. apply N_inv in Hy.
      destruct Hy as [(m' & Hm & E)|(a & b & Ha & Hb & Hi & E)].
      - destruct (bytes_dec (sortcat x s) m') as [Em|Em].
        + right. right. exists m'. split; [exact Hm|]. rewrite <- Em, sortcat_length. lia.
        + right. left. exists (sortcat x s), m'. repeat split; auto.
      - destruct (bytes_dec (sortcat x s) (sortcat a b)) as [Em|Em].
        + apply (sortcat_inj L) in Em; auto using N_len. destruct Em as [Em|Em]; left; congruence.
        + right. left. exists (sortcat x s), (sortcat a b). repeat split; auto.
    Qed.

    Lemma fold_back : forall p acc, length acc = L -> Forall (fun s => length s = L) p ->
      incl (fold_inputs acc p) C ->
      In (fold_left step p acc) N -> In acc N \/ coll_in C \/ caveat_ms.
    Proof.
      induction p as [|s p IH]; intros acc La Fp Hc Hy.
      - left. exact Hy.
      - cbn [fold_left] in Hy. cbn [Merkle.fold_inputs] in Hc.
        pose proof (Forall_inv Fp) as Ls. pose proof (Forall_inv_tail Fp) as Fp'.
        destruct (IH (step acc s)) as [Hn|Hr]; auto.
        + apply H_len.
        + intros z Hz. apply Hc. right. exact Hz.
        + apply (step_back acc s); auto. apply Hc. left. reflexivity.
    Qed.

    Lemma sound_in : forall m p, ms <> [] -> In m C -> incl (fold_inputs (H m) p) C ->
      Forall (fun s => length s = L) p ->
      fold_proof H m p = root H ms ->
      In m ms \/ coll_in C \/ length m = (2 * L)%nat \/ caveat_ms.
    Proof.
      intros m p Hne Hm Hc Fp E.
      assert (Hy : In (fold_left step p (H m)) N).
      { unfold fold_proof in E. rewrite E. apply root_is_node. exact Hne. }
      apply fold_back in Hy; auto.
      destruct Hy as [Hy|[Hy|Hy]]; auto.
      apply N_inv in Hy. destruct Hy as [(m' & Hm' & E')|(a & b & Ha & Hb & Hi & E')].
      - destruct (bytes_dec m m') as [Em|Em]; [left; congruence|].
        right. left. exists m, m'. repeat split; auto.
      - destruct (bytes_dec m (sortcat a b)) as [Em|Em].
        + right. right. left. rewrite Em, sortcat_length, (N_len a Ha), (N_len b Hb). lia.
        + right. left. exists m, (sortcat a b). repeat split; auto.
    Qed.
  End Against.

  (* the search finds a colliding pair whenever one exists in the list *)
  Lemma find_with_sound : forall x l y, find_with H x l = Some y -> In y l /\ x <> y /\ H x = H y.
  Proof.
    induction l as [|z l IH]; cbn; intros y E; [discriminate|].
    destruct (negb (bytes_eqb x z) && bytes_eqb (H x) (H z)) eqn:T.
    - inversion E; subst z. apply andb_true_iff in T. destruct T as [T1 T2].
      apply negb_true_iff in T1. apply bytes_eqb_neq in T1. apply bytes_eqb_eq in T2. auto.
    - apply IH in E. destruct E as (E1 & E2 & E3). auto.
  Qed.
  Lemma find_with_complete : forall x l y, In y l -> x <> y -> H x = H y -> find_with H x l <> None.
  Proof.
    induction l as [|z l IH]; cbn; intros y Hy Hn He; [contradiction|].
    destruct (negb (bytes_eqb x z) && bytes_eqb (H x) (H z)) eqn:T; [discriminate|].
    destruct Hy as [Hy|Hy].
    - exfalso. rewrite Hy in T. apply bytes_eqb_neq in Hn. rewrite Hn in T.
      rewrite He in T. rewrite bytes_eqb_refl in T. discriminate.
    - apply IH with y; assumption.
  Qed.
  Lemma find_collision_sound : forall l x y, find_collision H l = Some (x, y) ->
    In x l /\ In y l /\ x <> y /\ H x = H y.
  Proof.
    induction l as [|z l IH]; cbn; intros x y E; [discriminate|].
    destruct (find_with H z l) as [w|] eqn:F.
    - inversion E; subst x; subst y. apply find_with_sound in F. destruct F as (F1 & F2 & F3). auto.
    - apply IH in E. destruct E as (E1 & E2 & E3 & E4). auto.
  Qed.
  Lemma find_collision_complete : forall l, coll_in l -> find_collision H l <> None.
  Proof.
    induction l as [|z l IH]; intros (x & y & Hx & Hy & Hn & He); [contradiction|].
    cbn. destruct (find_with H z l) as [w|] eqn:F; [discriminate|].
    destruct Hx as [Hx|Hx]; destruct Hy as [Hy|Hy].
    - congruence.
    - exfalso. apply (find_with_complete z l y); auto; congruence.
    - exfalso. apply (find_with_complete z l x); auto; congruence.
    - apply IH. exists x, y. auto.
  Qed.

  (* soundness with the collision computed from (ms, m, p) *)
  Theorem sound : forall ms m p, ms <> [] -> Forall (fun s => length s = L) p ->
    verify H (root H ms) m p = true ->
    In m ms \/
    (exists x y, find_collision H (calls H ms m p) = Some (x, y) /\ x <> y /\ H x = H y) \/
    length m = (2 * L)%nat \/
    (exists m', In m' ms /\ length m' = (2 * L)%nat).
  Proof.
    intros ms m p Hne Fp V. unfold verify in V. apply bytes_eqb_eq in V.
    set (C := calls H ms m p).
    assert (C1 : incl ms C).
    { intros z Hz. unfold C, calls. right. apply in_or_app. left. exact Hz. }
    assert (C2 : incl (tree_inputs (length ms) (leaves H ms)) C).
    { intros z Hz. unfold C, calls. right. apply in_or_app. right. apply in_or_app. left. exact Hz. }
    assert (C3 : In m C) by (left; reflexivity).
    assert (C4 : incl (fold_inputs (H m) p) C).
    { intros z Hz. unfold C, calls. right. apply in_or_app. right. apply in_or_app. right. exact Hz. }
    destruct (sound_in ms C C1 C2 m p Hne C3 C4 Fp V) as [S|[S|[S|S]]]; auto.
    right. left. apply find_collision_complete in S.
    destruct (find_collision H C) as [[x y]|] eqn:F; [|congruence].
    exists x, y. split; [reflexivity|]. apply find_collision_sound in F. tauto.
  Qed.

  Corollary sound_wellformed : forall ms m p, ms <> [] -> Forall (fun s => length s = L) p ->
    (forall x, In x (m :: ms) -> length x <> (2 * L)%nat) ->
    verify H (root H ms) m p = true ->
    In m ms \/ (exists x y, find_collision H (calls H ms m p) = Some (x, y) /\ x <> y /\ H x = H y).
  Proof.
    intros ms m p Hne Fp Wf V. destruct (sound ms m p Hne Fp V) as [S|[S|[S|S]]]; auto.
    - exfalso. apply (Wf m); [left; reflexivity|exact S].
    - exfalso. destruct S as (m' & Hm & E). apply (Wf m'); [right; exact Hm|exact E].
  Qed.
End Tree.

(* ====================================================================== *)
(* hex strings *)
Lemma hex_digit_inj : forall a b, hex_digit a = hex_digit b -> a = b.
Proof.
  intros a b. unfold hex_digit.
  destruct (a <? 10) eqn:Ea; destruct (b <? 10) eqn:Eb;
    try apply N.ltb_lt in Ea; try apply N.ltb_lt in Eb;
    try apply N.ltb_ge in Ea; try apply N.ltb_ge in Eb; lia.
Qed.

Lemma hex_encode_inj : forall a b, hex_encode a = hex_encode b -> a = b.
Proof.
  induction a as [|x a IH]; destruct b as [|y b]; cbn; intro E; try discriminate; try reflexivity.
  inversion E as [[E1 E2 E3]]. apply hex_digit_inj in E1. apply hex_digit_inj in E2.
  f_equal; [|apply IH; exact E3].
  rewrite (N.div_mod x 16), (N.div_mod y 16) by lia. rewrite E1, E2. reflexivity.
Qed.

Lemma hex_val_digit : forall d, d < 16 -> hex_val (hex_digit d) = Some d.
Proof.
  intros d Hd.
  assert (Hc : d = 0 \/ d = 1 \/ d = 2 \/ d = 3 \/ d = 4 \/ d = 5 \/ d = 6 \/ d = 7 \/ d = 8 \/ d = 9 \/
               d = 10 \/ d = 11 \/ d = 12 \/ d = 13 \/ d = 14 \/ d = 15) by lia.
  repeat (destruct Hc as [Hc|Hc]; [rewrite Hc; reflexivity|]). rewrite Hc. reflexivity.
Qed.

Lemma hex_decode_encode : forall bs, Forall (fun b => b < 256) bs -> hex_decode (hex_encode bs) = Some bs.
Proof.
  induction bs as [|x bs IH]; intro F; [reflexivity|].
  pose proof (Forall_inv F) as Hx. cbn beta in Hx. apply Forall_inv_tail in F.
  cbn [hex_encode hex_decode].
  assert (Hq : x / 16 < 16) by (apply N.div_lt_upper_bound; lia).
  assert (Hr : x mod 16 < 16) by (apply N.mod_lt; lia).
  rewrite (hex_val_digit _ Hq), (hex_val_digit _ Hr), (IH F).
  rewrite <- (N.div_mod x 16) by lia. reflexivity.
Qed.

Lemma hex_encode_length : forall b, length (hex_encode b) = (2 * length b)%nat.
Proof. induction b as [|x b IH]; cbn [hex_encode length]; [reflexivity|]. rewrite IH. lia. Qed.


Lemma valid_hash_string_ok : forall L s, valid_hash_string L s = Ok tt <-> hex_ok L s = true.
Proof.
  intros L s. unfold valid_hash_string, hex_ok. destruct (hex_decode s) as [b|]; [|split; discriminate].
  destruct (Nat.eqb (length b) L); split; intro; try reflexivity; discriminate.
Qed.
Lemma valid_hash_string_err : forall L s, valid_hash_string L s = Err <-> hex_ok L s = false.
Proof.
  intros L s. unfold valid_hash_string, hex_ok. destruct (hex_decode s) as [b|]; [|split; reflexivity].
  destruct (Nat.eqb (length b) L); split; intro; try reflexivity; discriminate.
Qed.
Lemma some_inj {A} (a b : A) : Some a = Some b -> a = b.
Proof. intro E. inversion E. reflexivity. Qed.

(* case-insensitive comparison and decoding *)
Ltac lebt a b := replace (a <=? b) with true by (symmetry; apply N.leb_le; lia).
Ltac lebf a b := replace (a <=? b) with false by (symmetry; apply N.leb_gt; lia).
Ltac ltbt a b := replace (a <? b) with true by (symmetry; apply N.ltb_lt; lia).
Ltac ltbf a b := replace (a <? b) with false by (symmetry; apply N.ltb_ge; lia).

Lemma hex_val_of_lower : forall c, hex_val (ascii_lower c) = hex_val c.
Proof.
  intro c. unfold ascii_lower.
  destruct (N.leb_spec 65 c) as [A|A]; [|reflexivity].
  destruct (N.leb_spec c 90) as [B|B]; [|reflexivity]. cbn [andb].
  unfold hex_val.
  lebt 48 (c + 32). lebf (c + 32) 57. lebt 97 (c + 32). lebt 48 c. lebf c 57. lebf 97 c. lebt 65 c.
  cbn [andb].
  destruct (N.leb_spec c 70) as [D|D].
  - lebt (c + 32) 102. cbn [andb]. f_equal. lia.
  - lebf (c + 32) 102. cbn [andb]. lebt 65 (c + 32). lebf (c + 32) 70. reflexivity.
Qed.
Lemma hex_val_lower : forall c c', ascii_lower c = ascii_lower c' -> hex_val c = hex_val c'.
Proof. intros c c' E. rewrite <- (hex_val_of_lower c), <- (hex_val_of_lower c'), E. reflexivity. Qed.
Lemma str_eqb_ci_decode : forall a b, str_eqb_ci a b = true -> hex_decode a = hex_decode b.
Proof.
  induction a as [| x | x y r IH] using list_pair_ind; intros b E.
  - destruct b; [reflexivity|discriminate].
  - destruct b as [|x' [|? ?]]; [discriminate|reflexivity|].
    cbn in E. apply andb_true_iff in E. destruct E as [_ E]. discriminate.
  - destruct b as [|x' [|y' r']]; [discriminate| |].
    + cbn in E. apply andb_true_iff in E. destruct E as [_ E]. discriminate.
    + cbn in E. apply andb_true_iff in E. destruct E as [E1 E].
      apply andb_true_iff in E. destruct E as [E2 E3].
      apply N.eqb_eq in E1. apply N.eqb_eq in E2.
      cbn [hex_decode]. rewrite (hex_val_lower _ _ E1), (hex_val_lower _ _ E2), (IH r' E3). reflexivity.
Qed.
Lemma hex_val_digit_inv : forall d h, hex_val (hex_digit d) = Some h -> h = d.
Proof.
  intros d h. unfold hex_digit. destruct (N.ltb_spec d 10) as [A|A]; unfold hex_val.
  - lebt 48 (48 + d). lebt (48 + d) 57. cbn [andb]. intro E. apply some_inj in E. lia.
  - lebt 48 (87 + d). lebf (87 + d) 57. lebt 97 (87 + d). cbn [andb].
    destruct (N.leb_spec (87 + d) 102) as [B|B]; cbn [andb].
    + intro E. apply some_inj in E. lia.
    + lebt 65 (87 + d). lebf (87 + d) 70. cbn [andb]. discriminate.
Qed.
Lemma hex_decode_encode_inv : forall f r, hex_decode (hex_encode f) = Some r -> f = r.
Proof.
  induction f as [|x f IH]; intros r E.
  - cbn in E. inversion E. reflexivity.
  - cbn [hex_encode hex_decode] in E.
    destruct (hex_val (hex_digit (x / 16))) as [h|] eqn:E1; [|discriminate].
    destruct (hex_val (hex_digit (x mod 16))) as [l|] eqn:E2; [|discriminate].
    destruct (hex_decode (hex_encode f)) as [bs|] eqn:E3; [|discriminate].
    apply some_inj in E. apply hex_val_digit_inv in E1. apply hex_val_digit_inv in E2.
    rewrite <- E, (IH bs eq_refl). f_equal. rewrite E1, E2. apply N.div_mod. lia.
Qed.
Lemma hex_val_range : forall c h, hex_val c = Some h -> h < 16 /\ ascii_lower c = ascii_lower (hex_digit h).
Proof.
  intros c h. unfold hex_val.
  destruct ((48 <=? c) && (c <=? 57)) eqn:T1.
  { apply andb_true_iff in T1. destruct T1 as [A B]. apply N.leb_le in A. apply N.leb_le in B.
    intro E. apply some_inj in E. split; [lia|]. unfold hex_digit. ltbt h 10.
    replace (48 + h) with c by lia. reflexivity. }
  destruct ((97 <=? c) && (c <=? 102)) eqn:T2.
  { apply andb_true_iff in T2. destruct T2 as [A B]. apply N.leb_le in A. apply N.leb_le in B.
    intro E. apply some_inj in E. split; [lia|]. unfold hex_digit. ltbf h 10.
    replace (87 + h) with c by lia. reflexivity. }
  destruct ((65 <=? c) && (c <=? 70)) eqn:T3; [|discriminate].
  apply andb_true_iff in T3. destruct T3 as [A B]. apply N.leb_le in A. apply N.leb_le in B.
  intro E. apply some_inj in E. split; [lia|]. unfold hex_digit. ltbf h 10.
  replace (87 + h) with (c + 32) by lia. unfold ascii_lower.
  lebt 65 c. lebt c 90. lebt 65 (c + 32). lebf (c + 32) 90. reflexivity.
Qed.
Lemma hex_decode_ci : forall s r, hex_decode s = Some r -> str_eqb_ci s (hex_encode r) = true.
Proof.
  induction s as [| x | x y t IH] using list_pair_ind; intros r E.
  - cbn in E. inversion E. reflexivity.
  - discriminate.
  - cbn [hex_decode] in E.
    destruct (hex_val x) as [h|] eqn:E1; [|discriminate].
    destruct (hex_val y) as [l|] eqn:E2; [|discriminate].
    destruct (hex_decode t) as [bs|] eqn:E3; [|discriminate].
    apply some_inj in E. rewrite <- E. apply hex_val_range in E1. apply hex_val_range in E2.
    destruct E1 as [H1 L1]. destruct E2 as [H2 L2].
    cbn [hex_encode].
    assert (Q : (16 * h + l) / 16 = h).
    { symmetry. apply (N.div_unique (16 * h + l) 16 h l); [exact H2|reflexivity]. }
    assert (R : (16 * h + l) mod 16 = l).
    { symmetry. apply (N.mod_unique (16 * h + l) 16 h l); [exact H2|reflexivity]. }
    rewrite Q, R. unfold str_eqb_ci. cbn [list_eqb].
    rewrite L1, L2, !N.eqb_refl. cbn [andb]. apply (IH bs eq_refl).
Qed.

(* the two parsers of helpers/crypto.rs accept exactly the same strings *)
Lemma string_to_byte_slice_same : forall L s,
  is_ok (string_to_byte_slice L s) = is_ok (valid_hash_string L s).
Proof.
  intros L s. unfold string_to_byte_slice, valid_hash_string. destruct (hex_decode s); [|reflexivity].
  destruct (Nat.eqb (length l) L); reflexivity.
Qed.

Section Strings.
  Variable L : nat.
  Variable H : bytes -> bytes.
  Notation step := (Merkle.step H).

  Definition decodes (p : list str) (bs : list bytes) : Prop :=
    Forall2 (fun s b => hex_decode s = Some b /\ length b = L) p bs.

  Lemma fold_proof_str_inv : forall p acc f, fold_proof_str L H acc p = Ok f ->
    exists bs, decodes p bs /\ f = fold_left step bs acc.
  Proof.
    induction p as [|s p IH]; intros acc f E.
    - cbn in E. inversion E. exists []. split; [constructor|reflexivity].
    - cbn [fold_proof_str] in E. unfold valid_hash_string, string_to_byte_slice in E.
      destruct (hex_decode s) as [b|] eqn:D; [|discriminate].
      destruct (Nat.eqb (length b) L) eqn:Lb; [|discriminate]. cbn in E.
      apply IH in E. destruct E as (bs & Hd & Ef). exists (b :: bs). split.
      + constructor; [|exact Hd]. split; [exact D|]. apply Nat.eqb_eq. exact Lb.
      + exact Ef.
  Qed.

  Lemma fold_proof_str_decoded : forall p bs acc, decodes p bs ->
    fold_proof_str L H acc p = Ok (fold_left step bs acc).
  Proof.
    induction p as [|s p IH]; intros bs acc D; inversion D as [|? b ? bs' [D1 D2] D3]; [reflexivity|].
    cbn [fold_proof_str fold_left]. unfold valid_hash_string, string_to_byte_slice.
    rewrite D1. apply Nat.eqb_eq in D2. rewrite D2. cbn. apply IH. exact D3.
  Qed.

  Lemma fold_proof_str_malformed : forall p acc h, In h p -> hex_ok L h = false ->
    fold_proof_str L H acc p = Err.
  Proof.
    induction p as [|s p IH]; intros acc h Hin Hbad; [contradiction|].
    cbn [fold_proof_str]. destruct Hin as [Hin|Hin].
    - rewrite Hin. apply valid_hash_string_err in Hbad. rewrite Hbad. reflexivity.
    - destruct (valid_hash_string L s) as [[]|]; [|reflexivity]. cbn.
      destruct (string_to_byte_slice L s); [|reflexivity]. cbn. apply IH with h; assumption.
  Qed.

  (* a malformed element anywhere in the proof: Err, whatever the rest, the member and the root *)
  Theorem malformed_is_error : forall root m p h, In h p -> hex_ok L h = false ->
    has_member L H root m p = Err.
  Proof.
    intros root m p h Hin Hbad. unfold has_member.
    rewrite (fold_proof_str_malformed p (H m) h Hin Hbad). reflexivity.
  Qed.

  (* conversely: all elements well formed => a definite answer *)
  Lemma decodes_of_ok : forall p, forallb (hex_ok L) p = true -> exists bs, decodes p bs.
  Proof.
    induction p as [|s p IH]; intro F; [exists []; constructor|].
    cbn in F. apply andb_true_iff in F. destruct F as [F1 F2]. destruct (IH F2) as [bs D].
    unfold hex_ok in F1. destruct (hex_decode s) as [b|] eqn:E; [|discriminate].
    exists (b :: bs). constructor; [|exact D]. split; [exact E|]. apply Nat.eqb_eq. exact F1.
  Qed.

  Theorem has_member_answer : forall root m p,
    has_member L H root m p = Err <-> forallb (hex_ok L) p = false.
  Proof.
    intros root m p. split.
    - intro E. destruct (forallb (hex_ok L) p) eqn:F; [|reflexivity].
      destruct (decodes_of_ok p F) as [bs D]. unfold has_member in E.
      rewrite (fold_proof_str_decoded p bs (H m) D) in E. discriminate.
    - intro F. assert (Hex : exists h, In h p /\ hex_ok L h = false).
      { clear root m. induction p as [|s p IH]; [discriminate|]. cbn in F.
        destruct (hex_ok L s) eqn:E.
        - cbn in F. destruct (IH F) as (h & Hh & Hb). exists h. split; [right; exact Hh|exact Hb].
        - exists s. split; [left; reflexivity|exact E]. }
      destruct Hex as (h & Hh & Hb). apply malformed_is_error with h; assumption.
  Qed.

  (* Ok b: the proof decodes, and b compares the stored root string with the hex of the fold *)
  Theorem has_member_inv : forall root m p b, has_member L H root m p = Ok b ->
    exists bs, decodes p bs /\ b = str_eqb_ci root (hex_encode (fold_proof H m bs)).
  Proof.
    intros root m p b E. unfold has_member in E.
    destruct (fold_proof_str L H (H m) p) as [f|] eqn:F; [|discriminate].
    cbn in E. inversion E. apply fold_proof_str_inv in F. destruct F as (bs & D & Ef).
    exists bs. split; [exact D|]. unfold fold_proof. rewrite Ef. reflexivity.
  Qed.

  Lemma decodes_len : forall p bs, decodes p bs -> Forall (fun s => length s = L) bs.
  Proof. induction 1 as [|s b p bs [_ Hl] _ IH]; constructor; assumption. Qed.

  Hypothesis H_len : forall x, length (H x) = L.

  (* string-level soundness: the contract said Ok true, and the stored root string is any
     spelling (upper, lower, mixed case) of the tree root's bytes *)
  Theorem has_member_sound : forall ms m p rs, ms <> [] ->
    hex_decode rs = Some (root H ms) ->
    has_member L H rs m p = Ok true ->
    exists bs, decodes p bs /\
     (In m ms \/
      (exists x y, find_collision H (calls H ms m bs) = Some (x, y) /\ x <> y /\ H x = H y) \/
      length m = (2 * L)%nat \/
      (exists m', In m' ms /\ length m' = (2 * L)%nat)).
  Proof.
    intros ms m p rs Hne Hr E. apply has_member_inv in E. destruct E as (bs & D & Eb).
    exists bs. split; [exact D|]. symmetry in Eb. apply str_eqb_ci_decode in Eb.
    rewrite Hr in Eb. symmetry in Eb. apply hex_decode_encode_inv in Eb.
    apply (sound L H H_len ms m bs Hne (decodes_len p bs D)).
    unfold verify. apply bytes_eqb_eq. exact Eb.
  Qed.

  Hypothesis H_byte : forall x, Forall (fun b => b < 256) (H x).

  Lemma layer_up_all (P : bytes -> Prop) : (forall x, P (H x)) ->
    forall l, Forall P l -> Forall P (layer_up H l).
  Proof.
    intros HP. induction l as [| a | a b r IH] using list_pair_ind; intro F; try exact F.
    cbn [layer_up]. constructor; [apply HP|]. apply IH.
    apply Forall_inv_tail in F. apply Forall_inv_tail in F. exact F.
  Qed.
  Lemma proof_layers_all (P : bytes -> Prop) : (forall x, P (H x)) ->
    forall fuel l i, Forall P l -> Forall P (proof_layers H fuel l i).
  Proof.
    intros HP. induction fuel as [|f IH]; intros l i F; [constructor|].
    cbn [proof_layers]. destruct (nth_error l (sibling i)) as [s|] eqn:E.
    - constructor.
      + rewrite Forall_forall in F. apply F. apply nth_error_In with (sibling i). exact E.
      + apply IH. apply layer_up_all; assumption.
    - apply IH. apply layer_up_all; assumption.
  Qed.
  Lemma leaves_all (P : bytes -> Prop) : (forall x, P (H x)) -> forall ms, Forall P (leaves H ms).
  Proof.
    intros HP ms. unfold leaves. apply Forall_forall. intros x Hx. apply in_map_iff in Hx.
    destruct Hx as (m & E & _). rewrite <- E. apply HP.
  Qed.

  (* string-level completeness: the hex of every member's rs_merkle proof is accepted,
     whatever the spelling of the stored root *)
  Theorem has_member_complete : forall (ms : list str) i (m : str) rs, nth_error ms i = Some m ->
    hex_decode rs = Some (root H ms) ->
    has_member L H rs m (map hex_encode (proof_at H ms i)) = Ok true.
  Proof.
    intros ms i m rs Hi Hr. unfold has_member.
    assert (D : decodes (map hex_encode (proof_at H ms i)) (proof_at H ms i)).
    { unfold proof_at.
      pose proof (proof_layers_all (fun x => length x = L) H_len (length ms) _ i (leaves_all _ H_len ms)) as F1.
      pose proof (proof_layers_all _ H_byte (length ms) _ i (leaves_all _ H_byte ms)) as F2.
      induction (proof_layers H (length ms) (leaves H ms) i) as [|b bs IH]; [constructor|].
      cbn [map]. constructor.
      - split; [apply hex_decode_encode; exact (Forall_inv F2)|exact (Forall_inv F1)].
      - apply IH; [exact (Forall_inv_tail F1)|exact (Forall_inv_tail F2)]. }
    rewrite (fold_proof_str_decoded _ _ (H m) D). cbn.
    pose proof (complete_at H ms i m Hi) as C. unfold fold_proof in C. rewrite C.
    f_equal. apply hex_decode_ci. exact Hr.
  Qed.
End Strings.

(* ====================================================================== *)
(* the stored root(s) under Execute *)
Ltac guards :=
  repeat match goal with
         | H : context [guard ?b] |- _ => destruct b; cbn in H; try discriminate
         end.

Theorem wl_root_immutable : forall now sender msg s s',
  wl_execute now sender msg s = Ok s' -> wl_root s' = wl_root s.
Proof.
  intros now sender [t|t|a ok|] s s' E; cbn in E;
    unfold wl_update_start_time, wl_update_end_time, wl_update_admins, wl_freeze in E;
    guards; inversion E; reflexivity.
Qed.

Theorem wl_root_immutable_history : forall h s, wl_root (wl_run h s) = wl_root s.
Proof.
  induction h as [|[[now sender] m] r IH]; intro s; [reflexivity|].
  cbn [wl_run]. destruct (wl_execute now sender m s) as [s'|] eqn:E; [|apply IH].
  rewrite IH. apply wl_root_immutable with now sender m. exact E.
Qed.

Theorem tw_roots_immutable : forall now sender msg s s',
  tw_execute now sender msg s = Ok s' -> tw_roots s' = tw_roots s.
Proof.
  intros now sender [id st en dn lm|a ok|] s s' E; cbn in E;
    unfold tw_update_stage_config, tw_update_admins, tw_freeze in E.
  - guards. destruct (if id <? N.of_nat (length (tw_stages s)) then nth_error (tw_stages s) (N.to_nat id) else None); [|discriminate].
    destruct (validate_update _); [|discriminate]. cbn in E. inversion E. reflexivity.
  - guards. inversion E. reflexivity.
  - guards. inversion E. reflexivity.
Qed.
Theorem tw_roots_immutable_history : forall h s, tw_roots (tw_run h s) = tw_roots s.
Proof.
  induction h as [|[[now sender] m] r IH]; intro s; [reflexivity|].
  cbn [tw_run]. destruct (tw_execute now sender m s) as [s'|] eqn:E; [|apply IH].
  rewrite IH. apply tw_roots_immutable with now sender m. exact E.
Qed.

(* ---------- UpdateStageConfig keeps every stage at its index ---------- *)
Lemma replace_nth_ids : forall (l : list stage) n x old,
  nth_error l n = Some old -> st_id x = st_id old -> map st_id (replace_nth n x l) = map st_id l.
Proof.
  induction l as [|y l IH]; intros n x old Hn Hx; destruct n as [|n]; cbn in *; try discriminate.
  - inversion Hn; subst y. rewrite Hx. reflexivity.
  - f_equal. apply IH with old; assumption.
Qed.
Lemma replace_nth_other : forall {A} (l : list A) n x j, j <> n -> nth_error (replace_nth n x l) j = nth_error l j.
Proof.
  induction l as [|y l IH]; intros n x j Hj; destruct n as [|n]; destruct j as [|j]; cbn; try reflexivity; try congruence.
  apply IH. congruence.
Qed.
Lemma replace_nth_length : forall {A} (l : list A) n x, length (replace_nth n x l) = length l.
Proof. induction l as [|y l IH]; intros [|n] x; cbn; try reflexivity. rewrite IH. reflexivity. Qed.

Theorem tw_update_stage_in_place : forall sender id st en dn lm s s',
  tw_update_stage_config sender id st en dn lm s = Ok s' ->
  tw_roots s' = tw_roots s /\
  map st_id (tw_stages s') = map st_id (tw_stages s) /\
  length (tw_stages s') = length (tw_stages s) /\
  (forall j, j <> N.to_nat id -> nth_error (tw_stages s') j = nth_error (tw_stages s) j).
Proof.
  intros sender id st en dn lm s s' E. unfold tw_update_stage_config in E.
  destruct (is_admin (tw_admins s) sender); cbn in E; [|discriminate].
  destruct (id <? N.of_nat (length (tw_stages s))); [|discriminate].
  destruct (nth_error (tw_stages s) (N.to_nat id)) as [old|] eqn:Hn; [|discriminate].
  destruct (validate_update _); [|discriminate]. cbn in E. inversion E. cbn [tw_roots tw_stages].
  repeat split.
  - apply replace_nth_ids with old; [exact Hn|reflexivity].
  - apply replace_nth_length.
  - intros j Hj. apply replace_nth_other. exact Hj.
Qed.

(* ---------- migrate is a frame; histories with migrates ---------- *)
Theorem wl_migrate_frame : forall a n v s s', wl_migrate a n v s = Ok s' -> s' = s.
Proof. intros a n v s s' E. unfold wl_migrate in E. destruct (merkle_migrate_ok a n v); inversion E. reflexivity. Qed.
Theorem tw_migrate_frame : forall a n v s s', tw_migrate a n v s = Ok s' -> s' = s.
Proof. intros a n v s s' E. unfold tw_migrate in E. destruct (merkle_migrate_ok a n v); inversion E. reflexivity. Qed.

Theorem merkle_migrate_ok_iff : forall a n v,
  merkle_migrate_ok a n v = true <->
  a = true /\ n = true /\ exists x, v = Some x /\ ver_ltb MERKLE_CUR_VERSION x = false.
Proof.
  intros a n v. unfold merkle_migrate_ok. split.
  - intro E. apply andb_true_iff in E. destruct E as [E E3]. apply andb_true_iff in E. destruct E as [E1 E2].
    destruct v as [x|]; [|discriminate]. apply negb_true_iff in E3. repeat split; auto. exists x. auto.
  - intros (E1 & E2 & x & E3 & E4). rewrite E1, E2, E3, E4. reflexivity.
Qed.

Theorem wl_root_immutable_step : forall st s s', wl_apply st s = Ok s' -> wl_root s' = wl_root s.
Proof.
  intros [now sender m|a n v] s s' E; cbn [wl_apply] in E.
  - apply wl_root_immutable with now sender m. exact E.
  - apply wl_migrate_frame in E. rewrite E. reflexivity.
Qed.
Theorem wl_root_immutable_steps : forall h s, wl_root (wl_run_steps h s) = wl_root s.
Proof.
  induction h as [|st r IH]; intro s; [reflexivity|].
  cbn [wl_run_steps]. destruct (wl_apply st s) as [s'|] eqn:E; [|apply IH].
  rewrite IH. apply wl_root_immutable_step with st. exact E.
Qed.
Theorem tw_roots_immutable_step : forall st s s', tw_apply st s = Ok s' -> tw_roots s' = tw_roots s.
Proof.
  intros [now sender m|a n v] s s' E; cbn [tw_apply] in E.
  - apply tw_roots_immutable with now sender m. exact E.
  - apply tw_migrate_frame in E. rewrite E. reflexivity.
Qed.
Theorem tw_roots_immutable_steps : forall h s, tw_roots (tw_run_steps h s) = tw_roots s.
Proof.
  induction h as [|st r IH]; intro s; [reflexivity|].
  cbn [tw_run_steps]. destruct (tw_apply st s) as [s'|] eqn:E; [|apply IH].
  rewrite IH. apply tw_roots_immutable_step with st. exact E.
Qed.

Theorem tw_ids_step : forall st s s', tw_apply st s = Ok s' -> map st_id (tw_stages s') = map st_id (tw_stages s).
Proof.
  intros [now sender m|a n v] s s' E; cbn [tw_apply] in E.
  - destruct m as [id st en dn lm|ad ok|]; cbn [tw_execute] in E.
    + apply tw_update_stage_in_place in E. tauto.
    + unfold tw_update_admins in E. destruct (can_modify _ _ _); cbn in E; [|discriminate].
      destruct ok; cbn in E; [|discriminate]. inversion E. reflexivity.
    + unfold tw_freeze in E. destruct (can_modify _ _ _); cbn in E; [|discriminate]. inversion E. reflexivity.
  - apply tw_migrate_frame in E. rewrite E. reflexivity.
Qed.

Theorem tw_pairing_step : forall st s s', tw_apply st s = Ok s' -> tw_pairing s' = tw_pairing s.
Proof.
  intros st s s' E. unfold tw_pairing.
  rewrite (tw_ids_step st s s' E), (tw_roots_immutable_step st s s' E). reflexivity.
Qed.
(* stage identity <-> root index is invariant over histories of Execute and Migrate calls *)
Theorem tw_pairing_steps : forall h s, tw_pairing (tw_run_steps h s) = tw_pairing s.
Proof.
  induction h as [|st r IH]; intro s; [reflexivity|].
  cbn [tw_run_steps]. destruct (tw_apply st s) as [s'|] eqn:E; [|apply IH].
  rewrite IH. apply tw_pairing_step with st. exact E.
Qed.

(* the validation of the update is the one of C13's model (Stages.v, kind KMerkle) *)
Definition to_c13 (s : stage) : Stages.stage :=
  Stages.mkStage (st_id s) (st_start s) (st_end s) (st_denom s) 0 (st_limit s) None.
Lemma forallb_map' {A B} (f : B -> bool) (g : A -> B) l : forallb f (map g l) = forallb (fun x => f (g x)) l.
Proof. induction l as [|x l IH]; cbn [map forallb]; [reflexivity|rewrite IH; reflexivity]. Qed.
Lemma stages_ordered_c13 : forall l, Stages.windows_ok (map to_c13 l) = stages_ordered l.
Proof.
  induction l as [|s r IH]; [reflexivity|].
  cbn [map Stages.windows_ok stages_ordered]. rewrite forallb_map', IH. reflexivity.
Qed.
Lemma is_ok_guard4 : forall a b c d,
  is_ok (do _ <- guard a; do _ <- guard b; do _ <- guard c; guard d) = a && b && c && d.
Proof. intros [] [] [] []; reflexivity. Qed.
Theorem validate_update_c13 : forall l,
  is_ok (validate_update l) = Stages.validate_update Stages.KMerkle (map to_c13 l).
Proof.
  intros [|s0 r]; [reflexivity|].
  unfold validate_update, Stages.validate_update, Stages.validate_common.
  rewrite map_length, stages_ordered_c13.
  change (Stages.same_denom (map to_c13 (s0 :: r)))
    with (forallb (fun o => Stages.s_denom o =? Stages.s_denom (to_c13 s0)) (map to_c13 (s0 :: r))).
  rewrite !forallb_map'.
  change (fun x => Stages.pal_ok Stages.KMerkle (to_c13 x))
    with (fun s => negb (st_limit s =? 0) && (st_limit s <=? MAXPAL)).
  change (fun x => Stages.s_denom (to_c13 x) =? Stages.s_denom (to_c13 s0))
    with (fun s => st_denom s =? st_denom s0).
  rewrite is_ok_guard4. reflexivity.
Qed.

(* hence whatever was accepted / rejected before a history is accepted / rejected after it
   (flat: HasMember depends on the root only) *)
Theorem wl_has_member_stable : forall H h s m p,
  wl_has_member H (wl_run_steps h s) m p = wl_has_member H s m p.
Proof. intros H h s m p. unfold wl_has_member. rewrite wl_root_immutable_steps. reflexivity. Qed.

(* tiered: a migrate leaves the answer at every instant unchanged (stages and roots kept) *)
Theorem tw_has_member_after_migrate : forall H a n v s s' now m p,
  tw_migrate a n v s = Ok s' -> tw_has_member H now s' m p = tw_has_member H now s m p.
Proof. intros H a n v s s' now m p E. apply tw_migrate_frame in E. rewrite E. reflexivity. Qed.

(* ---------- tiered: which root is consulted ---------- *)

Lemma active_index_spec : forall now l i, active_index now l = Some i ->
  (exists s, nth_error l i = Some s /\ stage_active now s = true) /\
  (forall j s, (j < i)%nat -> nth_error l j = Some s -> stage_active now s = false).
Proof.
  induction l as [|s0 l IH]; intros i E; [discriminate|].
  cbn [active_index] in E. fold (stage_active now s0) in E.
  destruct (stage_active now s0) eqn:A.
  - inversion E; subst i. split; [exists s0; auto|]. intros j s Hj. lia.
  - destruct (active_index now l) as [k|] eqn:K; [|discriminate]. inversion E; subst i.
    destruct (IH k eq_refl) as [I1 I2]. split; [exact I1|].
    intros [|j] s Hj Hn; [cbn in Hn; inversion Hn; subst; exact A|].
    apply (I2 j); [lia|exact Hn].
Qed.
Lemma active_index_none : forall now l, active_index now l = None ->
  forall s, In s l -> stage_active now s = false.
Proof.
  induction l as [|s0 l IH]; intros E s Hs; [contradiction|].
  cbn [active_index] in E. fold (stage_active now s0) in E.
  destruct (stage_active now s0) eqn:A; [discriminate|].
  destruct (active_index now l) eqn:K; [discriminate|].
  destruct Hs as [Hs|Hs]; [subst; exact A|apply IH; auto].
Qed.

Theorem tiered_uses_active_root : forall H now s m p,
  match active_index now (tw_stages s) with
  | None => tw_has_member H now s m p = Err
  | Some i =>
      match nth_error (tw_roots s) i with
      | Some r => tw_has_member H now s m p = has_member 16 H r m p
      | None => tw_has_member H now s m p = Err
      end
  end.
Proof.
  intros H now s m p. unfold tw_has_member.
  destruct (active_index now (tw_stages s)) as [i|]; [|reflexivity].
  destruct (nth_error (tw_roots s) i); reflexivity.
Qed.

(* ---------- decimal rendering and the leaf ---------- *)
Definition val_le (l : list N) : N := fold_right (fun c v => (c - 48) + 10 * v) 0 l.

Lemma dec_le_val : forall f n, n < 2 ^ N.of_nat f -> val_le (dec_le (S f) n) = n.
Proof.
  induction f as [|f IH]; intros n Hn.
  - cbn in Hn. assert (n = 0) by lia. subst n. reflexivity.
  - rewrite Nat2N.inj_succ, N.pow_succ_r' in Hn.
    change (dec_le (S (S f)) n) with ((48 + n mod 10) :: (if n / 10 =? 0 then [] else dec_le (S f) (n / 10))).
    cbn [val_le fold_right]. fold (val_le (if n / 10 =? 0 then [] else dec_le (S f) (n / 10))).
    pose proof (N.div_mod n 10 ltac:(lia)) as Edm.
    pose proof (N.mod_lt n 10 ltac:(lia)) as Hm.
    destruct (n / 10 =? 0) eqn:Z.
    + apply N.eqb_eq in Z. cbn [val_le fold_right]. clear - Edm Hm Z. remember (n / 10) as q; remember (n mod 10) as r; lia.
    + apply N.eqb_neq in Z. rewrite IH; [clear - Edm Hm; remember (n / 10) as q; remember (n mod 10) as r; lia|].
      clear - Edm Hm Hn. remember (n / 10) as q. remember (n mod 10) as r.
      remember (2 ^ N.of_nat f) as X. lia.
Qed.

Lemma dec_inj : forall n m, dec n = dec m -> n = m.
Proof.
  intros n m E. unfold dec in E.
  assert (E' : dec_le (S (N.to_nat (N.size n))) n = dec_le (S (N.to_nat (N.size m))) m).
  { rewrite <- (rev_involutive (dec_le _ n)), E, rev_involutive. reflexivity. }
  apply (f_equal val_le) in E'.
  rewrite !dec_le_val in E' by (rewrite N2Nat.id; apply N.size_gt). exact E'.
Qed.

Lemma dec_le_digits : forall f n, Forall (fun c => is_digit c = true) (dec_le f n).
Proof.
  induction f as [|f IH]; intro n; [constructor|].
  cbn [dec_le]. constructor.
  - pose proof (N.mod_lt n 10 ltac:(lia)) as Hm. remember (n mod 10) as r. unfold is_digit.
    apply andb_true_iff. split; apply N.leb_le; lia.
  - destruct (n / 10 =? 0); [constructor|apply IH].
Qed.
Lemma dec_digits : forall n, Forall (fun c => is_digit c = true) (dec n).
Proof. intro n. unfold dec. apply Forall_rev. apply dec_le_digits. Qed.
Lemma dec_nonempty : forall n, dec n <> [].
Proof.
  intros n E. unfold dec in E. apply (f_equal (@length N)) in E. rewrite rev_length in E.
  cbn in E. discriminate.
Qed.


Lemma digit_prefix_split : forall d d' s s',
  Forall (fun c => is_digit c = true) d -> Forall (fun c => is_digit c = true) d' ->
  head_nondigit s -> head_nondigit s' -> d ++ s = d' ++ s' -> d = d' /\ s = s'.
Proof.
  induction d as [|c d IH]; intros d' s s' Fd Fd' Hs Hs' E.
  - destruct d' as [|c' d']; [auto|]. exfalso. cbn in E. rewrite E in Hs. cbn in Hs.
    pose proof (Forall_inv Fd'). cbn in *. congruence.
  - destruct d' as [|c' d'].
    + exfalso. cbn in E. rewrite <- E in Hs'. cbn in Hs'. pose proof (Forall_inv Fd). cbn in *. congruence.
    + cbn in E. inversion E as [[Ec Er]].
      destruct (IH d' s s' (Forall_inv_tail Fd) (Forall_inv_tail Fd') Hs Hs' Er) as [E1 E2].
      split; congruence.
Qed.

Lemma opt_dec_digits : forall o, Forall (fun c => is_digit c = true) (opt_dec o).
Proof. intros [n|]; [apply dec_digits|constructor]. Qed.
Lemma opt_dec_inj : forall o o', opt_dec o = opt_dec o' -> o = o'.
Proof.
  intros [n|] [m|] E; cbn in E.
  - f_equal. apply dec_inj. exact E.
  - exfalso. apply (dec_nonempty n). exact E.
  - exfalso. apply (dec_nonempty m). symmetry. exact E.
  - reflexivity.
Qed.

(* the leaf determines stage, sender and allocation, for senders that start with a
   non-digit character and have the same length *)
Theorem leaf_inj : forall st a al st' a' al',
  head_nondigit a -> head_nondigit a' -> length a = length a' ->
  leaf st a al = leaf st' a' al' -> st = st' /\ a = a' /\ al = al'.
Proof.
  intros st a al st' a' al' Ha Ha' Hl E. unfold leaf in E.
  assert (Hh : forall (x : str) t, head_nondigit x -> head_nondigit (x ++ t)).
  { intros [|c x] t Hx; [contradiction|exact Hx]. }
  apply digit_prefix_split in E; auto using opt_dec_digits.
  destruct E as [E1 E2]. apply app_inv_len in E2; [|exact Hl]. destruct E2 as [E2 E3].
  apply opt_dec_inj in E1. apply opt_dec_inj in E3. auto.
Qed.

Corollary leaf_binds_sender : forall st a al st' a' al',
  head_nondigit a -> head_nondigit a' -> length a = length a' ->
  a <> a' -> leaf st a al <> leaf st' a' al'.
Proof. intros st a al st' a' al' Ha Ha' Hl Hn E. apply leaf_inj in E; tauto. Qed.

(* end to end: against a tree built from entries (stage, address, allocation), a sender
   whose own (stage, sender, allocation) is not an entry is only accepted through a
   collision or one of the 2L-byte caveats *)
Section Useless.
  Variable L : nat.
  Variable H : bytes -> bytes.
  Hypothesis H_len : forall x, length (H x) = L.

  Definition entry_leaf (e : option N * str * option N) : str :=
    match e with (st, a, al) => leaf st a al end.

  Theorem proof_useless_to_other : forall (entries : list (option N * str * option N)) K st b al p,
    entries <> [] ->
    (forall st' a' al', In (st', a', al') entries -> head_nondigit a' /\ length a' = K) ->
    head_nondigit b -> length b = K ->
    Forall (fun s => length s = L) p ->
    verify H (root H (map entry_leaf entries)) (leaf st b al) p = true ->
    In (st, b, al) entries \/
    (exists x y, find_collision H (calls H (map entry_leaf entries) (leaf st b al) p) = Some (x, y)
                 /\ x <> y /\ H x = H y) \/
    length (leaf st b al) = (2 * L)%nat \/
    (exists e, In e entries /\ length (entry_leaf e) = (2 * L)%nat).
  Proof.
    intros entries K st b al p Hne Hwf Hb Hk Fp V.
    assert (Hne' : map entry_leaf entries <> []) by (destruct entries; [congruence|discriminate]).
    destruct (sound L H H_len _ _ _ Hne' Fp V) as [S|[S|[S|S]]]; auto.
    - left. apply in_map_iff in S. destruct S as ([[st' a'] al'] & E & Hin).
      destruct (Hwf _ _ _ Hin) as [W1 W2]. cbn [entry_leaf] in E.
      apply leaf_inj in E; auto; [|congruence]. destruct E as (E1 & E2 & E3). congruence.
    - right. right. right. destruct S as (m' & Hin & El). apply in_map_iff in Hin.
      destruct Hin as (e & Ee & Hin). exists e. split; [exact Hin|congruence].
  Qed.
End Useless.

(* ---------- the same, phrased on the whitelist-merkletree state (L = 32) ---------- *)
Lemma wl_has_member_complete : forall (H : list N -> list N),
  (forall x, length (H x) = 32%nat) -> (forall x, Forall (fun b => b < 256) (H x)) ->
  forall (s : wl_state) (ms : list (list N)) (i : nat) (m : list N),
  hex_decode (wl_root s) = Some (root H ms) -> nth_error ms i = Some m ->
  wl_has_member H s m (map hex_encode (proof_at H ms i)) = Ok true.
Proof.
  intros H Hl Hb s ms i m Er Hi. unfold wl_has_member.
  exact (has_member_complete 32 H Hl Hb ms i m (wl_root s) Hi Er).
Qed.

Lemma wl_has_member_sound : forall (H : list N -> list N), (forall x, length (H x) = 32%nat) ->
  forall (s : wl_state) (ms : list (list N)) (m : list N) (p : list (list N)),
  ms <> [] -> hex_decode (wl_root s) = Some (root H ms) ->
  wl_has_member H s m p = Ok true ->
  exists bs, Forall2 (fun h b => hex_decode h = Some b /\ length b = 32%nat) p bs /\
   (In m ms \/
    (exists x y, find_collision H (calls H ms m bs) = Some (x, y) /\ x <> y /\ H x = H y) \/
    length m = 64%nat \/
    (exists m', In m' ms /\ length m' = 64%nat)).
Proof.
  intros H Hl s ms m p Hne Er E. unfold wl_has_member in E.
  exact (has_member_sound 32 H Hl ms m p (wl_root s) Hne Er E).
Qed.

Lemma wl_malformed_is_error : forall (H : list N -> list N) (s : wl_state) m p h,
  In h p -> hex_ok 32 h = false -> wl_has_member H s m p = Err.
Proof. intros H s m p h. exact (malformed_is_error 32 H (wl_root s) m p h). Qed.

Lemma has_member_complete_16 : forall (H : list N -> list N),
  (forall x, length (H x) = 16%nat) -> (forall x, Forall (fun b => b < 256) (H x)) ->
  forall (ms : list (list N)) (i : nat) (m : list N) (rs : list N),
  nth_error ms i = Some m -> hex_decode rs = Some (root H ms) ->
  has_member 16 H rs m (map hex_encode (proof_at H ms i)) = Ok true.
Proof. intros H Hl Hb. exact (has_member_complete 16 H Hl Hb). Qed.
Lemma sound_32 : forall (H : list N -> list N), (forall x, length (H x) = 32%nat) ->
  forall (ms : list (list N)) (m : list N) (p : list (list N)),
  ms <> [] -> Forall (fun s => length s = 32%nat) p ->
  verify H (root H ms) m p = true ->
  In m ms \/
  (exists x y, find_collision H (calls H ms m p) = Some (x, y) /\ x <> y /\ H x = H y) \/
  length m = 64%nat \/
  (exists m', In m' ms /\ length m' = 64%nat).
Proof. intros H Hl. exact (sound 32 H Hl). Qed.
Lemma sound_16 : forall (H : list N -> list N), (forall x, length (H x) = 16%nat) ->
  forall (ms : list (list N)) (m : list N) (p : list (list N)),
  ms <> [] -> Forall (fun s => length s = 16%nat) p ->
  verify H (root H ms) m p = true ->
  In m ms \/
  (exists x y, find_collision H (calls H ms m p) = Some (x, y) /\ x <> y /\ H x = H y) \/
  length m = 32%nat \/
  (exists m', In m' ms /\ length m' = 32%nat).
Proof. intros H Hl. exact (sound 16 H Hl). Qed.
Lemma has_member_sound_16 : forall (H : list N -> list N), (forall x, length (H x) = 16%nat) ->
  forall (ms : list (list N)) (m : list N) (p : list (list N)) (rs : list N),
  ms <> [] -> hex_decode rs = Some (root H ms) ->
  has_member 16 H rs m p = Ok true ->
  exists bs, Forall2 (fun h b => hex_decode h = Some b /\ length b = 16%nat) p bs /\
   (In m ms \/
    (exists x y, find_collision H (calls H ms m bs) = Some (x, y) /\ x <> y /\ H x = H y) \/
    length m = 32%nat \/
    (exists m', In m' ms /\ length m' = 32%nat)).
Proof. intros H Hl. exact (has_member_sound 16 H Hl). Qed.
Lemma malformed_is_error_16 : forall (H : list N -> list N) root m p h,
  In h p -> hex_ok 16 h = false -> has_member 16 H root m p = Err.
Proof. intros H. exact (malformed_is_error 16 H). Qed.

(* every spelling of the root that instantiate accepts denotes the same bytes, and the
   lower-case rendering is one of them *)
Lemma hex_encode_decodes : forall b, Forall (fun x => x < 256) b -> hex_decode (hex_encode b) = Some b.
Proof. exact hex_decode_encode. Qed.

(* ====================================================================== *)
(* accepted root spellings: verify_merkle_root (= valid_hash_string) is the single definition;
   it accepts exactly the strings of 2L hexadecimal digits, in any case, nothing else
   (no prefix, no whitespace, no other length) *)
Lemma hex_decode_some_iff : forall s,
  (exists b, hex_decode s = Some b /\ length s = (2 * length b)%nat) <->
  Nat.even (length s) = true /\ forallb is_hex_char s = true.
Proof.
  induction s as [| x | x y r IH] using list_pair_ind.
  - split; [intros _; split; reflexivity|intros _; exists []; split; reflexivity].
  - split; [intros (b & E & _); discriminate|intros [E _]; discriminate].
  - cbn [hex_decode length Nat.even forallb]. unfold is_hex_char at 1 2.
    destruct (hex_val x) as [h|]; [|split; [intros (b & E & _); discriminate|intros [_ E]; discriminate]].
    destruct (hex_val y) as [l|]; [|split; [intros (b & E & _); discriminate|intros [_ E]; discriminate]].
    cbn [andb]. destruct IH as [I1 I2]. split.
    + intros (b & E & Lb). destruct (hex_decode r) as [bs|] eqn:D; [|discriminate].
      apply I1. exists bs. split; [reflexivity|]. apply some_inj in E. rewrite <- E in Lb. cbn [length] in Lb. lia.
    + intros HE. destruct (I2 HE) as (bs & D & Lb). rewrite D. exists (16 * h + l :: bs).
      split; [reflexivity|]. cbn [length]. lia.
Qed.
Lemma hex_decode_length : forall s b, hex_decode s = Some b -> length s = (2 * length b)%nat.
Proof.
  induction s as [| x | x y r IH] using list_pair_ind; intros b E.
  - cbn in E. apply some_inj in E. rewrite <- E. reflexivity.
  - discriminate.
  - cbn [hex_decode] in E. destruct (hex_val x); [|discriminate]. destruct (hex_val y); [|discriminate].
    destruct (hex_decode r) as [bs|] eqn:D; [|discriminate]. apply some_inj in E. rewrite <- E.
    cbn [length]. rewrite (IH bs eq_refl). lia.
Qed.
Lemma even_double : forall n, Nat.even (2 * n) = true.
Proof. intro n. rewrite Nat.even_mul. reflexivity. Qed.

Theorem accepted_spelling_iff : forall L s,
  verify_merkle_root L s = Ok tt <-> length s = (2 * L)%nat /\ forallb is_hex_char s = true.
Proof.
  intros L s. unfold verify_merkle_root. rewrite valid_hash_string_ok. unfold hex_ok. split.
  - destruct (hex_decode s) as [b|] eqn:D; [|discriminate]. intro E. apply Nat.eqb_eq in E.
    pose proof (hex_decode_length s b D) as Ls. split; [lia|].
    apply (proj1 (hex_decode_some_iff s)). exists b. auto.
  - intros [Ls Hh]. assert (Ev : Nat.even (length s) = true) by (rewrite Ls; apply even_double).
    destruct (proj2 (hex_decode_some_iff s) (conj Ev Hh)) as (b & D & Lb). rewrite D.
    apply Nat.eqb_eq. lia.
Qed.
Theorem accepted_spelling_denotes : forall L s, verify_merkle_root L s = Ok tt ->
  exists r, hex_decode s = Some r /\ length r = L.
Proof.
  intros L s E. unfold verify_merkle_root in E. apply valid_hash_string_ok in E. unfold hex_ok in E.
  destruct (hex_decode s) as [b|]; [|discriminate]. exists b. split; [reflexivity|apply Nat.eqb_eq; exact E].
Qed.

(* instantiate stores the root string as received and accepts it only through verify_merkle_root *)
Theorem wl_instantiate_root : forall now funds rs uri_ok st en lim admins aok mut s,
  wl_instantiate now funds rs uri_ok st en lim admins aok mut = Ok s ->
  wl_root s = rs /\ verify_merkle_root 32 rs = Ok tt.
Proof.
  intros now funds rs uri_ok st en lim admins aok mut s E. unfold wl_instantiate in E.
  destruct (verify_merkle_root 32 rs) as [[]|]; [|discriminate]. cbn [bind] in E.
  destruct uri_ok; cbn in E; [|discriminate].
  destruct (must_pay funds NATIVE) as [p|]; cbn in E; [|discriminate].
  repeat match type of E with context [guard ?b] => destruct b; cbn in E; try discriminate end.
  inversion E. split; reflexivity.
Qed.
Lemma all_ok_forall : forall L roots, all_ok L roots = Ok tt -> Forall (fun r => verify_merkle_root L r = Ok tt) roots.
Proof.
  induction roots as [|r rs IH]; intro E; [constructor|]. cbn [all_ok] in E.
  destruct (verify_merkle_root L r) as [[]|] eqn:V; [|discriminate]. constructor; [exact V|apply IH; exact E].
Qed.
Theorem tw_instantiate_roots : forall now funds roots uris_ok stages admins aok mut s,
  tw_instantiate now funds roots uris_ok stages admins aok mut = Ok s ->
  tw_roots s = roots /\ tw_stages s = stages /\ Forall (fun r => verify_merkle_root 16 r = Ok tt) roots.
Proof.
  intros now funds roots uris_ok stages admins aok mut s E. unfold tw_instantiate in E.
  destruct (all_ok 16 roots) as [[]|] eqn:A; [|discriminate]. cbn [bind] in E.
  destruct uris_ok; cbn in E; [|discriminate].
  destruct (must_pay funds NATIVE) as [p|]; cbn in E; [|discriminate].
  destruct (p =? _); cbn in E; [|discriminate].
  destruct (validate_stages now stages) as [[]|]; cbn in E; [|discriminate].
  destruct aok; cbn in E; [|discriminate]. inversion E. repeat split. apply all_ok_forall. exact A.
Qed.

(* an instantiate that succeeded with a spelling of the tree's root => every listed entry is
   accepted with its proof, for ever (roots are immutable over histories) *)
Theorem wl_instantiate_complete : forall (H : list N -> list N),
  (forall x, length (H x) = 32%nat) -> (forall x, Forall (fun b => b < 256) (H x)) ->
  forall now funds rs uri_ok st en lim admins aok mut s (ms : list (list N)) i m h,
  wl_instantiate now funds rs uri_ok st en lim admins aok mut = Ok s ->
  hex_decode rs = Some (root H ms) -> nth_error ms i = Some m ->
  wl_has_member H (wl_run_steps h s) m (map hex_encode (proof_at H ms i)) = Ok true.
Proof.
  intros H Hl Hb now funds rs uri_ok st en lim admins aok mut s ms i m h E D Hi.
  rewrite wl_has_member_stable. apply wl_instantiate_root in E. destruct E as [Er _].
  apply wl_has_member_complete; auto. rewrite Er. exact D.
Qed.
