(* Lemmas for C14: completeness and soundness of the sorted-pair Merkle fold against the
   tree rs_merkle builds, hex parsing, root immutability, tiered root selection, leaf
   injectivity.  Stdlib only; H and L are Section variables (universally quantified in the
   closed statements).  NB: never use bare [subst] while [length x = L] is in context. *)
From Coq Require Import List NArith Bool Lia Arith.
From LP Require Import Prelude Pay Merkle.
Import ListNotations.
Local Open Scope N_scope.

(* ---------- generic list facts ---------- *)
Lemma list_pair_ind {A} (P : list A -> Prop) :
  P [] -> (forall a, P [a]) -> (forall a b r, P r -> P (a :: b :: r)) -> forall l, P l.
Proof.
  intros H0 H1 H2.
  fix IH 1. intros [|a [|b r]].
  - exact H0.
  - apply H1.
  - apply H2. apply IH.
Qed.

Lemma list_eqb_N_eq : forall a b : list N, list_eqb N.eqb a b = true <-> a = b.
Proof.
  induction a as [|x a IH]; destruct b as [|y b]; cbn; split; intro E; try discriminate; try reflexivity.
  - apply andb_true_iff in E. destruct E as [E1 E2]. apply N.eqb_eq in E1. apply IH in E2. congruence.
  - inversion E; subst. rewrite N.eqb_refl. cbn. apply IH. reflexivity.
Qed.
Lemma bytes_eqb_eq : forall a b, bytes_eqb a b = true <-> a = b.
Proof. exact list_eqb_N_eq. Qed.
Lemma str_eqb_eq : forall a b, str_eqb a b = true <-> a = b.
Proof. exact list_eqb_N_eq. Qed.
Lemma bytes_eqb_refl : forall a, bytes_eqb a a = true.
Proof. intro a. apply bytes_eqb_eq. reflexivity. Qed.
Lemma bytes_eqb_neq : forall a b, bytes_eqb a b = false <-> a <> b.
Proof.
  intros a b. split.
  - intros E F. apply bytes_eqb_eq in F. congruence.
  - intro F. destruct (bytes_eqb a b) eqn:E; [|reflexivity]. apply bytes_eqb_eq in E. contradiction.
Qed.
Definition bytes_dec : forall a b : bytes, {a = b} + {a <> b} := list_eq_dec N.eq_dec.

Lemma app_inv_len {A} : forall (a c b d : list A),
  length a = length c -> a ++ b = c ++ d -> a = c /\ b = d.
Proof.
  induction a as [|x a IH]; destruct c as [|y c]; cbn; intros b d Hl E; try discriminate.
  - auto.
  - inversion E. destruct (IH c b d) as [E1 E2]; [congruence|assumption|]. split; congruence.
Qed.

(* ---------- the byte order and the sorted pair ---------- *)
Lemma bytes_leb_antisym : forall a b, bytes_leb a b = true -> bytes_leb b a = true -> a = b.
Proof.
  induction a as [|x a IH]; destruct b as [|y b]; cbn; intros E1 E2; try discriminate; try reflexivity.
  destruct (x <? y) eqn:Exy; destruct (y <? x) eqn:Eyx; try discriminate.
  - apply N.ltb_lt in Exy. apply N.ltb_lt in Eyx. lia.
  - apply N.ltb_ge in Exy. apply N.ltb_ge in Eyx. assert (x = y) by lia.
    f_equal; [assumption|]. apply IH; assumption.
Qed.
Lemma bytes_leb_total : forall a b, bytes_leb a b = false -> bytes_leb b a = true.
Proof.
  induction a as [|x a IH]; destruct b as [|y b]; cbn; intros E; try discriminate; try reflexivity.
  destruct (x <? y) eqn:Exy; destruct (y <? x) eqn:Eyx; try discriminate; try reflexivity.
  apply IH. assumption.
Qed.
Lemma sortcat_comm : forall a b, sortcat a b = sortcat b a.
Proof.
  intros a b. unfold sortcat.
  destruct (bytes_leb a b) eqn:E1; destruct (bytes_leb b a) eqn:E2; try reflexivity.
  - rewrite (bytes_leb_antisym a b E1 E2). reflexivity.
  - apply bytes_leb_total in E1. congruence.
Qed.
Lemma sortcat_length : forall a b, length (sortcat a b) = (length a + length b)%nat.
Proof. intros a b. unfold sortcat. destruct (bytes_leb a b); rewrite app_length; lia. Qed.
Lemma sortcat_inj : forall (n : nat) a s c d,
  length a = n -> length s = n -> length c = n -> length d = n ->
  sortcat a s = sortcat c d -> a = c \/ a = d.
Proof.
  intros n a s c d La Ls Lc Ld. unfold sortcat.
  destruct (bytes_leb a s); destruct (bytes_leb c d); intro E;
    apply app_inv_len in E; try congruence; destruct E; auto.
Qed.

(* ====================================================================== *)
Section Tree.
  Variable L : nat.
  Variable H : bytes -> bytes.
  Hypothesis H_len : forall x, length (H x) = L.

  Notation step := (step H).
  Notation layer_up := (layer_up H).
  Notation iter_up := (iter_up H).
  Notation nodes := (nodes H).
  Notation tree_inputs := (tree_inputs H).
  Notation fold_inputs := (fold_inputs H).

  Lemma step_comm : forall a b, step a b = step b a.
  Proof. intros. unfold Merkle.step. rewrite sortcat_comm. reflexivity. Qed.

  (* ---------- completeness ---------- *)
  Lemma sibling_SS : forall k, sibling (S (S k)) = S (S (sibling k)).
  Proof.
    intro k. unfold sibling. cbn [Nat.even]. destruct (Nat.even k) eqn:E; [reflexivity|].
    destruct k as [|k]; [discriminate|]. reflexivity.
  Qed.

  Lemma layer_up_nth : forall l i x, nth_error l i = Some x ->
    match nth_error l (sibling i) with
    | Some s => nth_error (layer_up l) (Nat.div2 i) = Some (step x s)
    | None => nth_error (layer_up l) (Nat.div2 i) = Some x
    end.
  Proof.
    induction l as [| a | a b r IH] using list_pair_ind; intros i x Hi.
    - destruct i; discriminate.
    - destruct i as [|i]; [|destruct i; discriminate]. cbn in Hi. inversion Hi. reflexivity.
    - destruct i as [|[|k]].
      + cbn in Hi. inversion Hi. reflexivity.
      + cbn in Hi. inversion Hi. cbn. rewrite step_comm. reflexivity.
      + rewrite sibling_SS. cbn [nth_error Nat.div2 Merkle.layer_up]. cbn in Hi.
        apply IH. exact Hi.
  Qed.

  Lemma proof_layers_ok : forall fuel l i x, nth_error l i = Some x ->
    exists j, nth_error (iter_up fuel l) j = Some (fold_left step (proof_layers H fuel l i) x).
  Proof.
    induction fuel as [|f IH]; intros l i x Hi.
    - exists i. exact Hi.
    - cbn [Merkle.iter_up proof_layers]. pose proof (layer_up_nth l i x Hi) as Hn.
      destruct (nth_error l (sibling i)) as [s|].
      + cbn [fold_left]. apply IH with (i := Nat.div2 i). exact Hn.
      + apply IH with (i := Nat.div2 i). exact Hn.
  Qed.

  Lemma layer_up_length : forall l, length (layer_up l) = Nat.div2 (S (length l)).
  Proof.
    induction l as [| a | a b r IH] using list_pair_ind; try reflexivity.
    cbn [Merkle.layer_up length]. rewrite IH. reflexivity.
  Qed.
  Lemma div2_S_le : forall n, (2 <= n -> Nat.div2 (S n) < n)%nat.
  Proof.
    intros n Hn. pose proof (Nat.div2_odd (S n)) as E. destruct (Nat.odd (S n)); cbn [Nat.b2n] in E; lia.
  Qed.
  Lemma div2_S_pos : forall n, (1 <= n -> 1 <= Nat.div2 (S n))%nat.
  Proof.
    intros n Hn. pose proof (Nat.div2_odd (S n)) as E. destruct (Nat.odd (S n)); cbn [Nat.b2n] in E; lia.
  Qed.
  Lemma iter_up_singleton : forall fuel l, (1 <= length l <= S fuel)%nat -> length (iter_up fuel l) = 1%nat.
  Proof.
    induction fuel as [|f IH]; intros l Hl.
    - cbn. lia.
    - cbn [Merkle.iter_up]. apply IH. rewrite layer_up_length.
      destruct (Nat.eq_dec (length l) 1) as [E|E].
      + rewrite E. cbn. lia.
      + pose proof (div2_S_le (length l)). pose proof (div2_S_pos (length l)). lia.
  Qed.

  Theorem complete_at : forall (ms : list str) i (m : str), nth_error ms i = Some m ->
    fold_proof H m (proof_at H ms i) = root H ms.
  Proof.
    intros ms i m Hi. unfold fold_proof, proof_at, root.
    assert (Hl : nth_error (leaves H ms) i = Some (H m)).
    { unfold leaves. rewrite nth_error_map, Hi. reflexivity. }
    destruct (proof_layers_ok (length ms) (leaves H ms) i (H m) Hl) as [j Hj].
    assert (Hs : length (iter_up (length ms) (leaves H ms)) = 1%nat).
    { apply iter_up_singleton. unfold leaves. rewrite map_length.
      assert (i < length ms)%nat by (apply nth_error_Some; congruence). lia. }
    destruct (iter_up (length ms) (leaves H ms)) as [|r [|? ?]]; try discriminate.
    destruct j as [|j]; [|destruct j; discriminate]. cbn in Hj. inversion Hj. reflexivity.
  Qed.

  Theorem complete : forall (ms : list str) (m : str), In m ms ->
    exists i, nth_error ms i = Some m /\ verify H (root H ms) m (proof_at H ms i) = true.
  Proof.
    intros ms m Hin. apply In_nth_error in Hin. destruct Hin as [i Hi].
    exists i. split; [exact Hi|]. unfold verify. apply bytes_eqb_eq. apply complete_at. exact Hi.
  Qed.

  (* ---------- soundness ---------- *)
  Definition coll_in (C : list bytes) : Prop :=
    exists x y, In x C /\ In y C /\ x <> y /\ H x = H y.

  Lemma coll_in_incl : forall C D, incl C D -> coll_in C -> coll_in D.
  Proof. intros C D Hi (x & y & Hx & Hy & Hn & He). exists x, y. auto. Qed.

  Lemma layer_up_inv : forall l y, In y (layer_up l) ->
    In y l \/ exists a b, In a l /\ In b l /\ In (sortcat a b) (layer_inputs l) /\ y = step a b.
  Proof.
    induction l as [| a | a b r IH] using list_pair_ind; intros y Hy.
    - left. exact Hy.
    - left. exact Hy.
    - cbn [Merkle.layer_up] in Hy. destruct Hy as [Hy|Hy].
      + right. exists a, b. cbn. auto 6.
      + apply IH in Hy. destruct Hy as [Hy|(a' & b' & Ha & Hb & Hi & He)].
        * left. cbn. auto.
        * right. exists a', b'. cbn. auto 7.
  Qed.

  Lemma nodes_head : forall fuel l, incl l (nodes fuel l).
  Proof. intros [|f] l x Hx; cbn; [assumption|]. apply in_or_app. auto. Qed.

  Lemma node_inv : forall fuel l y, In y (nodes fuel l) ->
    In y l \/ exists a b, In a (nodes fuel l) /\ In b (nodes fuel l) /\
                          In (sortcat a b) (tree_inputs fuel l) /\ y = step a b.
  Proof.
    induction fuel as [|f IH]; intros l y Hy.
    - left. exact Hy.
    - cbn [Merkle.nodes] in Hy. apply in_app_or in Hy. destruct Hy as [Hy|Hy]; [left; exact Hy|].
      apply IH in Hy. destruct Hy as [Hy|(a & b & Ha & Hb & Hi & He)].
      + apply layer_up_inv in Hy. destruct Hy as [Hy|(a & b & Ha & Hb & Hi & He)]; [left; exact Hy|].
        right. exists a, b. cbn [Merkle.nodes Merkle.tree_inputs].
        repeat split; try (apply in_or_app; left; assumption). exact He.
      + right. exists a, b. cbn [Merkle.nodes Merkle.tree_inputs].
        repeat split; try (apply in_or_app; right; assumption). exact He.
  Qed.

  Lemma layer_up_len : forall l, Forall (fun x => length x = L) l -> Forall (fun x => length x = L) (layer_up l).
  Proof.
    induction l as [| a | a b r IH] using list_pair_ind; intro F; try exact F.
    cbn [Merkle.layer_up]. constructor; [apply H_len|]. apply IH.
    apply Forall_inv_tail in F. apply Forall_inv_tail in F. exact F.
  Qed.
  Lemma nodes_len : forall fuel l, Forall (fun x => length x = L) l -> Forall (fun x => length x = L) (nodes fuel l).
  Proof.
    induction fuel as [|f IH]; intros l F; [exact F|].
    cbn [Merkle.nodes]. apply Forall_app. split; [exact F|]. apply IH. apply layer_up_len. exact F.
  Qed.
  Lemma leaves_len : forall ms, Forall (fun x => length x = L) (leaves H ms).
  Proof. intro ms. unfold leaves. apply Forall_forall. intros x Hx. apply in_map_iff in Hx. destruct Hx as (m & E & _). rewrite <- E. apply H_len. Qed.

  Lemma iter_up_in_nodes : forall fuel l, incl (iter_up fuel l) (nodes fuel l).
  Proof.
    induction fuel as [|f IH]; intros l x Hx; [exact Hx|].
    cbn [Merkle.iter_up] in Hx. cbn [Merkle.nodes]. apply in_or_app. right. apply IH. exact Hx.
  Qed.
  Lemma layer_up_nonempty : forall l, l <> [] -> layer_up l <> [].
  Proof. intros [|a [|b r]] Hn; cbn; congruence. Qed.
  Lemma iter_up_nonempty : forall fuel l, l <> [] -> iter_up fuel l <> [].
  Proof. induction fuel as [|f IH]; intros l Hn; [exact Hn|]. cbn. apply IH. apply layer_up_nonempty. exact Hn. Qed.
  Lemma root_is_node : forall ms, ms <> [] -> In (root H ms) (tree_nodes H ms).
  Proof.
    intros ms Hn. unfold root, tree_nodes. apply iter_up_in_nodes.
    assert (Hl : leaves H ms <> []) by (destruct ms; [congruence|discriminate]).
    pose proof (iter_up_nonempty (length ms) _ Hl) as Hne.
    destruct (iter_up (length ms) (leaves H ms)); [congruence|]. left. reflexivity.
  Qed.

  Section Against.
    Variable ms : list str.
    Variable C : list bytes.                      (* the inputs H was applied to *)
    Hypothesis C_ms : incl ms C.
    Hypothesis C_tree : incl (tree_inputs (length ms) (leaves H ms)) C.

    Let N := tree_nodes H ms.
    Let caveat_ms := exists m', In m' ms /\ length m' = (2 * L)%nat.

    Lemma N_len : forall x, In x N -> length x = L.
    Proof.
      intros x Hx. pose proof (nodes_len (length ms) _ (leaves_len ms)) as F.
      rewrite Forall_forall in F. apply F. exact Hx.
    Qed.

    Lemma N_inv : forall y, In y N ->
      (exists m', In m' ms /\ y = H m') \/
      (exists a b, In a N /\ In b N /\ In (sortcat a b) C /\ y = step a b).
    Proof.
      intros y Hy. unfold N, tree_nodes in Hy. apply node_inv in Hy.
      destruct Hy as [Hy|(a & b & Ha & Hb & Hi & He)].
      - left. unfold leaves in Hy. apply in_map_iff in Hy. destruct Hy as (m' & E & Hm). eauto.
      - right. exists a, b. repeat split; auto.
    Qed.

    Lemma step_back : forall x s, length x = L -> length s = L -> In (sortcat x s) C ->
      In (step x s) N -> In x N \/ coll_in C \/ caveat_ms.
    Proof.
      intros x s Lx Ls Hc Hy. apply N_inv in Hy.
      destruct Hy as [(m' & Hm & E)|(a & b & Ha & Hb & Hi & E)].
      - destruct (bytes_dec (sortcat x s) m') as [Em|Em].
        + right. right. exists m'. split; [exact Hm|]. rewrite <- Em, sortcat_length. lia.
        + right. left. exists (sortcat x s), m'. repeat split; auto.
      - destruct (bytes_dec (sortcat x s) (sortcat a b)) as [Em|Em].
        + apply (sortcat_inj L) in Em; auto using N_len. destruct Em as [Em|Em]; left; congruence.
        + right. left. exists (sortcat x s), (sortcat a b). repeat split; auto.
    Qed.

    Lemma fold_back : forall p acc, length acc = L -> Forall (fun s => length s = L) p ->
      incl (fold_inputs acc p) C ->
      In (fold_left step p acc) N -> In acc N \/ coll_in C \/ caveat_ms.
    Proof.
      induction p as [|s p IH]; intros acc La Fp Hc Hy.
      - left. exact Hy.
      - cbn [fold_left] in Hy. cbn [Merkle.fold_inputs] in Hc.
        pose proof (Forall_inv Fp) as Ls. pose proof (Forall_inv_tail Fp) as Fp'.
        destruct (IH (step acc s)) as [Hn|Hr]; auto.
        + apply H_len.
        + intros z Hz. apply Hc. right. exact Hz.
        + apply (step_back acc s); auto. apply Hc. left. reflexivity.
    Qed.

    Lemma sound_in : forall m p, ms <> [] -> In m C -> incl (fold_inputs (H m) p) C ->
      Forall (fun s => length s = L) p ->
      fold_proof H m p = root H ms ->
      In m ms \/ coll_in C \/ length m = (2 * L)%nat \/ caveat_ms.
    Proof.
      intros m p Hne Hm Hc Fp E.
      assert (Hy : In (fold_left step p (H m)) N).
      { unfold fold_proof in E. rewrite E. apply root_is_node. exact Hne. }
      apply fold_back in Hy; auto.
      destruct Hy as [Hy|[Hy|Hy]]; auto.
      apply N_inv in Hy. destruct Hy as [(m' & Hm' & E')|(a & b & Ha & Hb & Hi & E')].
      - destruct (bytes_dec m m') as [Em|Em]; [left; congruence|].
        right. left. exists m, m'. repeat split; auto.
      - destruct (bytes_dec m (sortcat a b)) as [Em|Em].
        + right. right. left. rewrite Em, sortcat_length, (N_len a Ha), (N_len b Hb). lia.
        + right. left. exists m, (sortcat a b). repeat split; auto.
    Qed.
  End Against.

  (* the search finds a colliding pair whenever one exists in the list *)
  Lemma find_with_sound : forall x l y, find_with H x l = Some y -> In y l /\ x <> y /\ H x = H y.
  Proof.
    induction l as [|z l IH]; cbn; intros y E; [discriminate|].
    destruct (negb (bytes_eqb x z) && bytes_eqb (H x) (H z)) eqn:T.
    - inversion E; subst z. apply andb_true_iff in T. destruct T as [T1 T2].
      apply negb_true_iff in T1. apply bytes_eqb_neq in T1. apply bytes_eqb_eq in T2. auto.
    - apply IH in E. destruct E as (E1 & E2 & E3). auto.
  Qed.
  Lemma find_with_complete : forall x l y, In y l -> x <> y -> H x = H y -> find_with H x l <> None.
  Proof.
    induction l as [|z l IH]; cbn; intros y Hy Hn He; [contradiction|].
    destruct (negb (bytes_eqb x z) && bytes_eqb (H x) (H z)) eqn:T; [discriminate|].
    destruct Hy as [Hy|Hy].
    - exfalso. rewrite Hy in T. apply bytes_eqb_neq in Hn. rewrite Hn in T.
      rewrite He in T. rewrite bytes_eqb_refl in T. discriminate.
    - apply IH with y; assumption.
  Qed.
  Lemma find_collision_sound : forall l x y, find_collision H l = Some (x, y) ->
    In x l /\ In y l /\ x <> y /\ H x = H y.
  Proof.
    induction l as [|z l IH]; cbn; intros x y E; [discriminate|].
    destruct (find_with H z l) as [w|] eqn:F.
    - inversion E; subst x; subst y. apply find_with_sound in F. destruct F as (F1 & F2 & F3). auto.
    - apply IH in E. destruct E as (E1 & E2 & E3 & E4). auto.
  Qed.
  Lemma find_collision_complete : forall l, coll_in l -> find_collision H l <> None.
  Proof.
    induction l as [|z l IH]; intros (x & y & Hx & Hy & Hn & He); [contradiction|].
    cbn. destruct (find_with H z l) as [w|] eqn:F; [discriminate|].
    destruct Hx as [Hx|Hx]; destruct Hy as [Hy|Hy].
    - congruence.
    - exfalso. apply (find_with_complete z l y); auto; congruence.
    - exfalso. apply (find_with_complete z l x); auto; congruence.
    - apply IH. exists x, y. auto.
  Qed.

  (* soundness with the collision computed from (ms, m, p) *)
  Theorem sound : forall ms m p, ms <> [] -> Forall (fun s => length s = L) p ->
    verify H (root H ms) m p = true ->
    In m ms \/
    (exists x y, find_collision H (calls H ms m p) = Some (x, y) /\ x <> y /\ H x = H y) \/
    length m = (2 * L)%nat \/
    (exists m', In m' ms /\ length m' = (2 * L)%nat).
  Proof.
    intros ms m p Hne Fp V. unfold verify in V. apply bytes_eqb_eq in V.
    set (C := calls H ms m p).
    assert (C1 : incl ms C).
    { intros z Hz. unfold C, calls. right. apply in_or_app. left. exact Hz. }
    assert (C2 : incl (tree_inputs (length ms) (leaves H ms)) C).
    { intros z Hz. unfold C, calls. right. apply in_or_app. right. apply in_or_app. left. exact Hz. }
    assert (C3 : In m C) by (left; reflexivity).
    assert (C4 : incl (fold_inputs (H m) p) C).
    { intros z Hz. unfold C, calls. right. apply in_or_app. right. apply in_or_app. right. exact Hz. }
    destruct (sound_in ms C C1 C2 m p Hne C3 C4 Fp V) as [S|[S|[S|S]]]; auto.
    right. left. apply find_collision_complete in S.
    destruct (find_collision H C) as [[x y]|] eqn:F; [|congruence].
    exists x, y. split; [reflexivity|]. apply find_collision_sound in F. tauto.
  Qed.

  Corollary sound_wellformed : forall ms m p, ms <> [] -> Forall (fun s => length s = L) p ->
    (forall x, In x (m :: ms) -> length x <> (2 * L)%nat) ->
    verify H (root H ms) m p = true ->
    In m ms \/ (exists x y, find_collision H (calls H ms m p) = Some (x, y) /\ x <> y /\ H x = H y).
  Proof.
    intros ms m p Hne Fp Wf V. destruct (sound ms m p Hne Fp V) as [S|[S|[S|S]]]; auto.
    - exfalso. apply (Wf m); [left; reflexivity|exact S].
    - exfalso. destruct S as (m' & Hm & E). apply (Wf m'); [right; exact Hm|exact E].
  Qed.
End Tree.
