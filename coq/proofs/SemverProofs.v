(* Lemmas about model/Semver.v (C20). *)
From Coq Require Import String ZArith Lia ZifyN ZifyBool.
From LP Require Import Semver.
Local Open Scope N_scope.

Definition ver_lt (a b : version) : Prop :=
  let '(a1, a2, a3) := a in
  let '(b1, b2, b3) := b in
  a1 < b1 \/ (a1 = b1 /\ (a2 < b2 \/ (a2 = b2 /\ a3 < b3))).

Lemma ver_ltb_spec : forall a b, ver_ltb a b = true <-> ver_lt a b.
Proof. intros [[a1 a2] a3] [[b1 b2] b3]. unfold ver_ltb, ver_lt. lia. Qed.

Lemma ver_eqb_eq : forall a b, ver_eqb a b = true <-> a = b.
Proof.
  intros [[a1 a2] a3] [[b1 b2] b3]. unfold ver_eqb. split.
  - intro H. assert (a1 = b1 /\ a2 = b2 /\ a3 = b3) as [-> [-> ->]] by lia. reflexivity.
  - intro H. inversion H; subst. lia.
Qed.

Lemma ver_ltb_irrefl : forall a, ver_ltb a a = false.
Proof. intros [[a1 a2] a3]. unfold ver_ltb. lia. Qed.

Lemma ver_ltb_trans : forall a b c, ver_ltb a b = true -> ver_ltb b c = true -> ver_ltb a c = true.
Proof. intros [[a1 a2] a3] [[b1 b2] b3] [[c1 c2] c3]. unfold ver_ltb. lia. Qed.

Lemma ver_ltb_asym : forall a b, ver_ltb a b = true -> ver_ltb b a = false.
Proof. intros [[a1 a2] a3] [[b1 b2] b3]. unfold ver_ltb. lia. Qed.

Lemma ver_trichotomy : forall a b,
  (ver_ltb a b = true /\ ver_eqb a b = false /\ ver_ltb b a = false) \/
  (ver_ltb a b = false /\ ver_eqb a b = true /\ ver_ltb b a = false) \/
  (ver_ltb a b = false /\ ver_eqb a b = false /\ ver_ltb b a = true).
Proof. intros [[a1 a2] a3] [[b1 b2] b3]. unfold ver_ltb, ver_eqb. lia. Qed.

Lemma ver_leb_not_gt : forall a b, ver_leb a b = negb (ver_ltb b a).
Proof. intros [[a1 a2] a3] [[b1 b2] b3]. unfold ver_leb, ver_ltb, ver_eqb. lia. Qed.

(* version order is not the order of the version strings *)
Lemma semver_not_string_order :
  parse_version "3.9.0" = Some (3, 9, 0) /\ parse_version "3.16.0" = Some (3, 16, 0) /\
  ver_ltb (3, 9, 0) (3, 16, 0) = true /\ str_ltb "3.16.0" "3.9.0" = true /\ str_ltb "3.9.0" "3.16.0" = false.
Proof. repeat split; vm_compute; reflexivity. Qed.
