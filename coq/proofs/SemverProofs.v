(* Lemmas about model/Semver.v (C20). *)
From Coq Require Import String Ascii List Bool ZArith Lia ZifyN ZifyBool.
From LP Require Import Semver.
Local Open Scope N_scope.

Definition ver_lt (a b : version) : Prop :=
  let '(a1, a2, a3) := a in
  let '(b1, b2, b3) := b in
  a1 < b1 \/ (a1 = b1 /\ (a2 < b2 \/ (a2 = b2 /\ a3 < b3))).

Lemma ver_ltb_spec : forall a b, ver_ltb a b = true <-> ver_lt a b.
Proof. intros [[a1 a2] a3] [[b1 b2] b3]. unfold ver_ltb, ver_lt. lia. Qed.

Lemma ver_eqb_eq : forall a b, ver_eqb a b = true <-> a = b.
Proof.
  intros [[a1 a2] a3] [[b1 b2] b3]. unfold ver_eqb. split.
  - intro H. assert (a1 = b1 /\ a2 = b2 /\ a3 = b3) as [-> [-> ->]] by lia. reflexivity.
  - intro H. inversion H; subst. lia.
Qed.

Lemma ver_ltb_irrefl : forall a, ver_ltb a a = false.
Proof. intros [[a1 a2] a3]. unfold ver_ltb. lia. Qed.

Lemma ver_ltb_trans : forall a b c, ver_ltb a b = true -> ver_ltb b c = true -> ver_ltb a c = true.
Proof. intros [[a1 a2] a3] [[b1 b2] b3] [[c1 c2] c3]. unfold ver_ltb. lia. Qed.

Lemma ver_ltb_asym : forall a b, ver_ltb a b = true -> ver_ltb b a = false.
Proof. intros [[a1 a2] a3] [[b1 b2] b3]. unfold ver_ltb. lia. Qed.

Lemma ver_trichotomy : forall a b,
  (ver_ltb a b = true /\ ver_eqb a b = false /\ ver_ltb b a = false) \/
  (ver_ltb a b = false /\ ver_eqb a b = true /\ ver_ltb b a = false) \/
  (ver_ltb a b = false /\ ver_eqb a b = false /\ ver_ltb b a = true).
Proof. intros [[a1 a2] a3] [[b1 b2] b3]. unfold ver_ltb, ver_eqb. lia. Qed.

Lemma ver_leb_not_gt : forall a b, ver_leb a b = negb (ver_ltb b a).
Proof. intros [[a1 a2] a3] [[b1 b2] b3]. unfold ver_leb, ver_ltb, ver_eqb. lia. Qed.

(* version order is not the order of the version strings *)
Lemma semver_not_string_order :
  parse_version "3.9.0" = Some (3, 9, 0) /\ parse_version "3.16.0" = Some (3, 16, 0) /\
  ver_ltb (3, 9, 0) (3, 16, 0) = true /\ str_ltb "3.16.0" "3.9.0" = true /\ str_ltb "3.9.0" "3.16.0" = false.
Proof. repeat split; vm_compute; reflexivity. Qed.

(* ---- shape of what `parse_version` accepts (added round 8) ---- *)
Definition is_digit (c : ascii) : bool :=
  match digit_of c with Some _ => true | None => false end.

Fixpoint all_chars (p : ascii -> bool) (s : string) : bool :=
  match s with
  | EmptyString => true
  | String c r => p c && all_chars p r
  end.

Lemma digits_val_all_digits : forall s acc v,
  digits_val s acc = Some v -> all_chars is_digit s = true.
Proof.
  induction s as [|c r IH]; intros acc v H; cbn [all_chars]; [reflexivity|].
  cbn [digits_val] in H.
  destruct (digit_of c) as [d|] eqn:Hd; [|discriminate].
  rewrite (IH _ _ H). unfold is_digit. rewrite Hd. reflexivity.
Qed.

Lemma parse_num_all_digits : forall s v, parse_num s = Some v -> all_chars is_digit s = true.
Proof.
  intros s v H. unfold parse_num in H. destruct s as [|c r]; [discriminate|].
  destruct ((N_of_ascii c =? 48) && negb match r with EmptyString => true | _ => false end); [discriminate|].
  destruct (digits_val (String c r) 0) as [w|] eqn:Hw; [|discriminate].
  exact (digits_val_all_digits _ _ _ Hw).
Qed.

Lemma parse_num_le_u64 : forall s v, parse_num s = Some v -> v <= U64_MAX.
Proof.
  intros s v H. unfold parse_num in H. destruct s as [|c r]; [discriminate|].
  destruct ((N_of_ascii c =? 48) && negb match r with EmptyString => true | _ => false end); [discriminate|].
  destruct (digits_val (String c r) 0) as [w|]; [|discriminate].
  destruct (w <=? U64_MAX) eqn:Hle; [|discriminate].
  inversion H; subst. apply N.leb_le. exact Hle.
Qed.

Lemma parse_num_empty : parse_num EmptyString = None.
Proof. reflexivity. Qed.

Lemma parse_num_leading_zero : forall c r,
  parse_num (String "0"%char (String c r)) = None.
Proof. intros c r. reflexivity. Qed.

Lemma split_dot_all_chars : forall p s,
  forallb (all_chars p) (split_dot s) = true ->
  all_chars (fun c => is_dot c || p c) s = true.
Proof.
  intros p. induction s as [|c r IH]; intro H; cbn [all_chars]; [reflexivity|].
  cbn [split_dot] in H. destruct (is_dot c) eqn:Hdot.
  - cbn [forallb all_chars] in H. cbn [orb andb]. apply IH. exact H.
  - destruct (split_dot r) as [|h t] eqn:Hs.
    + cbn [forallb all_chars] in H. apply andb_prop in H as [H _].
      apply andb_prop in H as [Hp _]. rewrite Hp. cbn [orb andb]. apply IH. reflexivity.
    + cbn [forallb all_chars] in H. apply andb_prop in H as [H Ht].
      apply andb_prop in H as [Hp Hh]. rewrite Hp. cbn [orb andb]. apply IH.
      cbn [forallb]. rewrite Hh, Ht. reflexivity.
Qed.

(* an accepted version string has exactly three dot-separated parts, consists of
   digits and dots only (so every "-rc.1" / "+build" spelling is rejected by the
   model: the stated bound of Semver.v is a theorem, not a convention), and each
   number fits u64 *)
Lemma parse_version_shape : forall s x y z,
  parse_version s = Some (x, y, z) ->
  length (split_dot s) = 3%nat /\
  all_chars (fun c => is_dot c || is_digit c) s = true /\
  x <= U64_MAX /\ y <= U64_MAX /\ z <= U64_MAX.
Proof.
  intros s x y z H. unfold parse_version in H.
  destruct (split_dot s) as [|a [|b [|c [|d l]]]] eqn:Hs; try discriminate.
  destruct (parse_num a) as [x'|] eqn:Ha; [|discriminate].
  destruct (parse_num b) as [y'|] eqn:Hb; [|discriminate].
  destruct (parse_num c) as [z'|] eqn:Hc; [|discriminate].
  inversion H; subst. split; [reflexivity|]. split.
  - apply split_dot_all_chars. rewrite Hs. cbn [forallb].
    rewrite (parse_num_all_digits _ _ Ha), (parse_num_all_digits _ _ Hb), (parse_num_all_digits _ _ Hc).
    reflexivity.
  - repeat split; eapply parse_num_le_u64; eassumption.
Qed.

Lemma parse_version_rejects_other_chars : forall s c,
  is_dot c = false -> is_digit c = false ->
  (exists pre post, s = (pre ++ String c post)%string) -> parse_version s = None.
Proof.
  intros s c Hd Hg [pre [post ->]].
  destruct (parse_version (pre ++ String c post)) as [[[x y] z]|] eqn:H; [|reflexivity].
  apply parse_version_shape in H as [_ [H _]]. exfalso.
  induction pre as [|p pre IH]; cbn [append all_chars] in H.
  - rewrite Hd, Hg in H. discriminate.
  - apply andb_prop in H as [_ H]. exact (IH H).
Qed.

Example parse_version_prerelease_rejected :
  parse_version "3.9.0-rc.1" = None /\ parse_version "3.9.0+build" = None /\
  parse_version "03.9.0" = None /\ parse_version "3.9" = None /\ parse_version "3.9.0.1" = None /\
  parse_version "18446744073709551615.0.0" = Some (U64_MAX, 0, 0) /\
  parse_version "18446744073709551616.0.0" = None.
Proof. repeat split; vm_compute; reflexivity. Qed.

(* `<=` on versions (the comparison `version > new_version` of every migrate negated) is a
   total order *)
Lemma ver_leb_total_order : forall a b c,
  ver_leb a a = true /\
  (ver_leb a b = true -> ver_leb b c = true -> ver_leb a c = true) /\
  (ver_leb a b = true -> ver_leb b a = true -> a = b) /\
  (ver_leb a b = true \/ ver_leb b a = true).
Proof.
  intros [[a1 a2] a3] [[b1 b2] b3] [[c1 c2] c3]. unfold ver_leb, ver_ltb, ver_eqb.
  repeat split; try lia.
  intros H1 H2. assert (a1 = b1 /\ a2 = b2 /\ a3 = b3) as [-> [-> ->]] by lia. reflexivity.
Qed.
