From LP Require Import Num Pay Sg1 Consts NumLemmas.
From Coq Require Import ZArith Lia ZifyN.
Ltac Zify.zify_post_hook ::= Z.div_mod_to_equations.

(* the tie to the generated constants: these are the *documented* numbers *)
Lemma burn_percent_is_50 : sg1__FEE_BURN_PERCENT = 50. Proof. reflexivity. Qed.
Lemma ratio_plain : liquidity_ratio false = dec_from_ratio 1 5. Proof. reflexivity. Qed.
Lemma ratio_featured : liquidity_ratio true = dec_from_ratio 1 8. Proof. reflexivity. Qed.

Definition fair_burn_spec (sender : addr) (F : N) (dev : option addr) : list bmsg :=
  Burn NATIVE (F / 2) ::
  match dev with
  | Some d => [Send d NATIVE (F - F / 2)]
  | None => [FundPool sender NATIVE (F - F / 2)]
  end.

Lemma fair_burn_exact sender F dev : fair_burn sender F dev = Ok (fair_burn_spec sender F dev).
Proof.
  unfold fair_burn, fair_burn_spec. rewrite burn_percent_is_50, mul_floor_percent50.
  unfold sub128. assert (H : F / 2 <=? F = true) by (apply N.leb_le; lia).
  rewrite H. reflexivity.
Qed.

Lemma fair_burn_conserves sender F dev ms :
  fair_burn sender F dev = Ok ms ->
  sum_out ms = F /\ Forall (fun m => bmsg_amount m <= F) ms /\ length ms = 2%nat.
Proof.
  rewrite fair_burn_exact. intros H. injection H as <-.
  unfold fair_burn_spec. destruct dev; cbn [sum_out fold_right bmsg_amount length];
    (split; [ lia | split; [ repeat constructor; cbn [bmsg_amount]; lia | reflexivity ] ]).
Qed.

Definition liq_part (featured : bool) (R : N) : N := if featured then (R + 7) / 8 else (R + 4) / 5.

Definition mint_fees_spec (d : denom) (F : N) (featured : bool) (dev : option addr) : list bmsg :=
  match dev with
  | Some dv =>
      let devf := (F + 1) / 2 in
      let R := F - devf in
      [Send dv d devf; Send A_LIQUIDITY_DAO d (liq_part featured R);
       Send A_LAUNCHPAD_DAO d (R - liq_part featured R)]
  | None =>
      [Send A_LIQUIDITY_DAO d (liq_part featured F); Send A_LAUNCHPAD_DAO d (F - liq_part featured F)]
  end.

Lemma mul_ceil_liq featured R : mul_ceil R (liquidity_ratio featured) = liq_part featured R.
Proof.
  destruct featured; unfold liq_part.
  - rewrite ratio_featured. apply mul_ceil_ratio_1_8.
  - rewrite ratio_plain. apply mul_ceil_ratio_1_5.
Qed.

Lemma liq_part_le featured R : liq_part featured R <= R.
Proof. destruct featured; unfold liq_part; lia. Qed.

Lemma distribute_mint_fees_exact d F featured dev :
  distribute_mint_fees d F featured dev = Ok (mint_fees_spec d F featured dev).
Proof.
  unfold distribute_mint_fees, mint_fees_spec. destruct dev as [dv|].
  - rewrite burn_percent_is_50, mul_ceil_percent50.
    unfold sub128 at 1. assert (H : (F + 1) / 2 <=? F = true) by (apply N.leb_le; lia).
    rewrite H. cbn [bind]. rewrite mul_ceil_liq.
    unfold sub128. pose proof (liq_part_le featured (F - (F + 1) / 2)) as Hl.
    apply N.leb_le in Hl. rewrite Hl. reflexivity.
  - rewrite mul_ceil_liq. unfold sub128.
    pose proof (liq_part_le featured F) as Hl. apply N.leb_le in Hl. rewrite Hl. reflexivity.
Qed.

Lemma mint_fees_conserves d F featured dev ms :
  distribute_mint_fees d F featured dev = Ok ms ->
  sum_out ms = F /\ Forall (fun m => bmsg_amount m <= F) ms.
Proof.
  rewrite distribute_mint_fees_exact. intros H. injection H as <-.
  unfold mint_fees_spec. destruct dev as [dv|]; cbn [sum_out fold_right bmsg_amount].
  - pose proof (liq_part_le featured (F - (F + 1) / 2)).
    split; [ lia | repeat constructor; cbn [bmsg_amount]; lia ].
  - pose proof (liq_part_le featured F).
    split; [ lia | repeat constructor; cbn [bmsg_amount]; lia ].
Qed.

Lemma checked_fair_burn_cases contract funds fee dev :
  checked_fair_burn contract funds fee dev =
  match may_pay funds NATIVE with
  | Err => Err
  | Ok p => if p <? fee then Err else if p =? 0 then Ok [] else Ok (fair_burn_spec contract fee dev)
  end.
Proof.
  unfold checked_fair_burn. destruct (may_pay funds NATIVE) as [p|]; cbn [bind]; [ | reflexivity ].
  destruct (p <? fee); [ reflexivity | ]. destruct (p =? 0); [ reflexivity | ].
  apply fair_burn_exact.
Qed.

Lemma checked_rejects_underpayment contract funds fee dev p :
  may_pay funds NATIVE = Ok p -> p < fee -> checked_fair_burn contract funds fee dev = Err.
Proof.
  intros Hp Hlt. rewrite checked_fair_burn_cases, Hp.
  apply N.ltb_lt in Hlt. rewrite Hlt. reflexivity.
Qed.

Lemma checked_rejects_bad_funds contract funds fee dev :
  may_pay funds NATIVE = Err -> checked_fair_burn contract funds fee dev = Err.
Proof. intros H. rewrite checked_fair_burn_cases, H. reflexivity. Qed.

Lemma may_pay_ok_shape funds d p :
  may_pay funds d = Ok p -> (funds = [] /\ p = 0) \/ funds = [mkCoin d p].
Proof.
  unfold may_pay. destruct funds as [|c [|c' rest]]; intros H.
  - left. injection H as <-. split; reflexivity.
  - right. destruct c as [cd ca]. cbn [c_denom c_amount] in H.
    destruct (cd =? d) eqn:E; [ | discriminate ]. apply N.eqb_eq in E. subst cd.
    injection H as <-. reflexivity.
  - discriminate.
Qed.

Definition ibc_spec (d : denom) (F : N) (dev : option addr) : list bmsg :=
  match dev with
  | Some dv => [Send dv d ((F + 1) / 2); Send A_FOUNDATION d (F - (F + 1) / 2)]
  | None => [Send A_FOUNDATION d F]
  end.

Lemma ibc_denom_fair_burn_exact d F dev : ibc_denom_fair_burn d F dev = Ok (ibc_spec d F dev).
Proof.
  unfold ibc_denom_fair_burn, ibc_spec. destruct dev as [dv|]; [ | reflexivity ].
  rewrite burn_percent_is_50, mul_ceil_percent50. unfold sub128.
  assert (H : (F + 1) / 2 <=? F = true) by (apply N.leb_le; lia). rewrite H. reflexivity.
Qed.

Lemma ibc_conserves d F dev ms :
  ibc_denom_fair_burn d F dev = Ok ms -> sum_out ms = F /\ Forall (fun m => bmsg_amount m <= F) ms.
Proof.
  rewrite ibc_denom_fair_burn_exact. intros H. injection H as <-.
  unfold ibc_spec. destruct dev; cbn [sum_out fold_right bmsg_amount];
    (split; [ lia | repeat constructor; cbn [bmsg_amount]; lia ]).
Qed.

Lemma transfer_to_dao_cases funds fee d :
  transfer_funds_to_launchpad_dao funds fee d =
  match must_pay funds d with
  | Err => Err
  | Ok p => if p <? fee then Err else Ok [Send A_LAUNCHPAD_DAO d p]
  end.
Proof. unfold transfer_funds_to_launchpad_dao. destruct (must_pay funds d); reflexivity. Qed.

Lemma must_pay_ok_shape funds d p : must_pay funds d = Ok p -> funds = [mkCoin d p] /\ p <> 0.
Proof.
  unfold must_pay, one_coin. destruct funds as [|c [|c' rest]]; try discriminate.
  destruct c as [cd ca]. cbn [c_amount c_denom].
  destruct (ca =? 0) eqn:Ea; cbn [bind]; [ discriminate | ].
  cbn [c_denom c_amount]. destruct (cd =? d) eqn:Ed; [ | discriminate ].
  intros H. injection H as <-. apply N.eqb_eq in Ed. apply N.eqb_neq in Ea. subst. split; [ reflexivity | assumption ].
Qed.
