(* Lemmas about the tiered-whitelist stage model (model/Stages.v). *)
From Coq Require Import ZArith Lia ZifyN ZifyBool.
From LP Require Import Prelude Consts Stages.
Local Open Scope N_scope.

(* ---------- specification vocabulary (used by props/C13.v) ---------- *)

(* the window of a stage, both ends inclusive *)
Definition contains (now : N) (s : stage) : Prop := s_start s <= now /\ now <= s_end s.

Definition StagesInv (l : list stage) : Prop :=
  (length l <= 3)%nat /\
  (forall i s, nth_error l i = Some s -> s_start s < s_end s) /\
  (forall i j si sj, (i < j)%nat -> nth_error l i = Some si -> nth_error l j = Some sj ->
                     s_end si <= s_start sj).

(* k is the least position whose window contains now *)
Definition earliest_containing (now : N) (l : list stage) (k : nat) : Prop :=
  (exists s, nth_error l k = Some s /\ contains now s) /\
  (forall j sj, (j < k)%nat -> nth_error l j = Some sj -> ~ contains now sj).

(* every stored member entry belongs to an existing stage *)
Definition MemInv (w : wl) : Prop :=
  Forall (fun e => (me_stage e < length (w_stages w))%nat) (w_mem w).

Inductive reachable : wl -> Prop :=
| R_init : forall k now i w, instantiate k now i = Ok w -> reachable w
| R_step : forall w now o w', reachable w -> step w now o = Ok w' -> reachable w'.

(* ---------- tactics ---------- *)

Ltac dob H :=
  repeat match type of H with
  | bind (guard ?b) _ = Ok _ =>
      let G := fresh "G" in destruct b eqn:G; cbn [bind guard] in H; [|discriminate H]
  | bind ?r _ = Ok _ =>
      let B := fresh "B" in destruct r eqn:B; cbn [bind] in H; [|discriminate H]
  | (let '(_, _) := ?x in _) = Ok _ =>
      first [ is_var x; destruct x | let P := fresh "P" in destruct x eqn:P ]
  | Err = Ok _ => discriminate H
  end.

(* ---------- windows ---------- *)

Lemma in_window_spec : forall now s, in_window now s = true <-> contains now s.
Proof. intros now s. unfold in_window, contains. lia. Qed.

Lemma in_window_false : forall now s, in_window now s = false <-> ~ contains now s.
Proof. intros now s. rewrite <- in_window_spec. destruct (in_window now s); intuition congruence. Qed.

Lemma windows_ok_sound : forall l, windows_ok l = true ->
  (forall i s, nth_error l i = Some s -> s_start s < s_end s) /\
  (forall i j si sj, (i < j)%nat -> nth_error l i = Some si -> nth_error l j = Some sj ->
                     s_end si <= s_start sj).
Proof.
  induction l as [|a r IH]; intros H.
  - split; intros; destruct i; discriminate.
  - cbn [windows_ok] in H.
    apply andb_true_iff in H. destruct H as [H Hr].
    apply andb_true_iff in H. destruct H as [Ha Hall].
    destruct (IH Hr) as [IH1 IH2]. rewrite forallb_forall in Hall.
    split.
    + intros [|i] s Hn; cbn in Hn.
      * inversion Hn; subst. lia.
      * eauto.
    + intros [|i] [|j] si sj Hlt Hi Hj; cbn in Hi, Hj; try lia.
      * inversion Hi; subst. apply nth_error_In in Hj. specialize (Hall _ Hj). lia.
      * eapply IH2; [|eassumption|eassumption]. lia.
Qed.

Lemma windows_ok_complete : forall l,
  (forall i s, nth_error l i = Some s -> s_start s < s_end s) ->
  (forall i j si sj, (i < j)%nat -> nth_error l i = Some si -> nth_error l j = Some sj ->
                     s_end si <= s_start sj) ->
  windows_ok l = true.
Proof.
  induction l as [|a r IH]; intros H1 H2; [reflexivity|].
  cbn [windows_ok]. repeat (apply andb_true_iff; split).
  - specialize (H1 0%nat a eq_refl). lia.
  - apply forallb_forall. intros o Ho. apply In_nth_error in Ho. destruct Ho as [j Hj].
    specialize (H2 0%nat (S j) a o ltac:(lia) eq_refl Hj). lia.
  - apply IH.
    + intros i s Hn. exact (H1 (S i) s Hn).
    + intros i j si sj Hlt Hi Hj. apply (H2 (S i) (S j) si sj); [lia|exact Hi|exact Hj].
Qed.

Lemma validate_common_inv : forall k l, validate_common k l = true ->
  StagesInv l /\ (1 <= length l)%nat.
Proof.
  intros k l H. unfold validate_common in H.
  repeat (apply andb_true_iff in H; destruct H as [H ?]).
  match goal with Hw : windows_ok l = true |- _ => destruct (windows_ok_sound _ Hw) as [W1 W2] end.
  match goal with Hl : Nat.ltb (length l) 4 = true |- _ => apply Nat.ltb_lt in Hl end.
  apply negb_true_iff in H. apply Nat.eqb_neq in H.
  split; [split; [lia | split; assumption] | lia].
Qed.

Lemma validate_stages_inv : forall k now l, validate_stages k now l = true ->
  StagesInv l /\ exists s r, l = s :: r /\ now < s_start s.
Proof.
  intros k now l H. unfold validate_stages in H. apply andb_true_iff in H. destruct H as [Hc Hf].
  split; [exact (proj1 (validate_common_inv _ _ Hc))|].
  destruct l as [|s r]; [discriminate|]. exists s, r. split; [reflexivity|lia].
Qed.

Lemma validate_pal_plain : forall l, validate_common KPlain l = true ->
  Forall (fun s => 1 <= s_pal s <= 30) l.
Proof.
  intros l H. unfold validate_common in H.
  repeat (apply andb_true_iff in H; destruct H as [H ?]).
  match goal with Hp : forallb (pal_ok KPlain) l = true |- _ => rewrite forallb_forall in Hp; rename Hp into P end.
  apply Forall_forall. intros s Hs. specialize (P s Hs). unfold pal_ok in P.
  change tiered_whitelist__MAX_PER_ADDRESS_LIMIT with 30 in P. lia.
Qed.

Lemma validate_pal_merkle : forall l, validate_common KMerkle l = true ->
  Forall (fun s => 1 <= s_pal s <= 50) l.
Proof.
  intros l H. unfold validate_common in H.
  repeat (apply andb_true_iff in H; destruct H as [H ?]).
  match goal with Hp : forallb (pal_ok KMerkle) l = true |- _ => rewrite forallb_forall in Hp; rename Hp into P end.
  apply Forall_forall. intros s Hs. specialize (P s Hs). unfold pal_ok in P.
  change tiered_whitelist_merkletree__MAX_PER_ADDRESS_LIMIT with 50 in P. lia.
Qed.

(* ---------- the active stage ---------- *)

Lemma find_index_some : forall {A} (p : A -> bool) l k, find_index p l = Some k <->
  (exists x, nth_error l k = Some x /\ p x = true) /\
  (forall j y, (j < k)%nat -> nth_error l j = Some y -> p y = false).
Proof.
  intros A p. induction l as [|a r IH]; intros k; cbn [find_index].
  - split; [discriminate|]. intros [[x [Hx _]] _]. destruct k; discriminate.
  - destruct (p a) eqn:Pa.
    + split.
      * intros E. inversion E; subst. split; [exists a; auto|]. intros j y Hj. lia.
      * intros [[x [Hx Px]] Hmin]. destruct k as [|k]; [reflexivity|].
        specialize (Hmin 0%nat a ltac:(lia) eq_refl). congruence.
    + assert (OM : forall o k', option_map S o = Some k' <-> exists k0, k' = S k0 /\ o = Some k0).
      { intros [x|] k'; cbn; split.
        - intros E; inversion E; eauto.
        - intros [k0 [E1 E2]]; inversion E2; subst; reflexivity.
        - discriminate.
        - intros [k0 [_ E2]]; discriminate. }
      rewrite OM. split.
      * intros [k0 [Ek F]]. subst k. apply IH in F. destruct F as [[x [Hx Px]] Hmin].
        split; [exists x; auto|].
        intros [|j] y Hj Hy; cbn in Hy.
        -- inversion Hy; subst; assumption.
        -- apply (Hmin j y); [lia|assumption].
      * intros [[x [Hx Px]] Hmin]. destruct k as [|k]; cbn in Hx.
        -- inversion Hx; subst. congruence.
        -- exists k. split; [reflexivity|].
           apply IH. split; [exists x; auto|]. intros j y Hj Hy. apply (Hmin (S j) y); [lia|exact Hy].
Qed.

Lemma find_index_none : forall {A} (p : A -> bool) l, find_index p l = None <->
  (forall x, In x l -> p x = false).
Proof.
  intros A p. induction l as [|a r IH]; cbn [find_index].
  - split; [intros _ x []|reflexivity].
  - destruct (p a) eqn:Pa.
    + split; [discriminate|]. intros H. specialize (H a (or_introl eq_refl)). congruence.
    + assert (OM : forall o : option nat, option_map S o = None <-> o = None).
      { intros [x|]; cbn; split; congruence. }
      rewrite OM, IH. split.
      * intros H x [E|Hx]; [subst; assumption|auto].
      * intros H x Hx. apply H. right. exact Hx.
Qed.

Lemma find_via_index : forall {A} (p : A -> bool) l,
  find p l = match find_index p l with Some k => nth_error l k | None => None end.
Proof.
  intros A p. induction l as [|a r IH]; cbn [find find_index]; [reflexivity|].
  destruct (p a); [reflexivity|]. rewrite IH. destruct (find_index p r); reflexivity.
Qed.

Lemma active_index_spec : forall now l k,
  fetch_active_index now l = Some k <-> earliest_containing now l k.
Proof.
  intros now l k. unfold fetch_active_index, earliest_containing. rewrite find_index_some.
  split; intros [[s [Hs Hc]] Hmin]; (split; [exists s; split; [exact Hs|]|]).
  - apply in_window_spec; exact Hc.
  - intros j sj Hj Hn. apply in_window_false. eauto.
  - apply in_window_spec; exact Hc.
  - intros j sj Hj Hn. apply in_window_false. eauto.
Qed.

Lemma active_index_none : forall now l,
  fetch_active_index now l = None <-> (forall s, In s l -> ~ contains now s).
Proof.
  intros now l. unfold fetch_active_index. rewrite find_index_none.
  split; intros H s Hs; apply in_window_false; auto.
Qed.

Lemma earliest_unique : forall now l k k',
  earliest_containing now l k -> earliest_containing now l k' -> k = k'.
Proof.
  intros now l k k' [[s [Hs Hc]] Hmin] [[s' [Hs' Hc']] Hmin'].
  destruct (Nat.lt_trichotomy k k') as [L|[E|L]]; [|exact E|].
  - exfalso. exact (Hmin' k s L Hs Hc).
  - exfalso. exact (Hmin k' s' L Hs' Hc').
Qed.

(* what the three "active" queries say *)
Lemma active_queries : forall w now,
  match fetch_active_index now (w_stages w) with
  | Some k => q_active_stage w now = nth_error (w_stages w) k /\
              q_active_stage_id w now = N.of_nat k + 1 /\ q_is_active w now = true /\
              exists s, nth_error (w_stages w) k = Some s
  | None => q_active_stage w now = None /\ q_active_stage_id w now = 0 /\ q_is_active w now = false
  end.
Proof.
  intros w now. unfold q_active_stage, q_active_stage_id, q_is_active, fetch_active.
  rewrite find_via_index. fold (fetch_active_index now (w_stages w)).
  destruct (fetch_active_index now (w_stages w)) as [k|] eqn:F; [|auto].
  apply active_index_spec in F. destruct F as [[s [Hs _]] _]. rewrite Hs. eauto.
Qed.

(* two windows of a well-formed list share an instant only by touching: adjacent
   stages, at the single instant end_i = start_(i+1) *)
Lemma overlap_only_touching : forall l now i j si sj, StagesInv l -> (i < j)%nat ->
  nth_error l i = Some si -> nth_error l j = Some sj ->
  contains now si -> contains now sj ->
  j = S i /\ now = s_end si /\ now = s_start sj.
Proof.
  intros l now i j si sj [_ [W1 W2]] Hlt Hi Hj [A1 A2] [B1 B2].
  pose proof (W2 _ _ _ _ Hlt Hi Hj) as O.
  split; [|lia].
  destruct (Nat.eq_dec j (S i)) as [E|NE]; [exact E|exfalso].
  assert (Hm : exists sm, nth_error l (S i) = Some sm).
  { destruct (nth_error l (S i)) eqn:E; [eauto|]. apply nth_error_None in E.
    assert (nth_error l j <> None) by congruence. apply nth_error_Some in H. lia. }
  destruct Hm as [sm Hm].
  pose proof (W2 i (S i) si sm ltac:(lia) Hi Hm).
  pose proof (W2 (S i) j sm sj ltac:(lia) Hm Hj).
  pose proof (W1 _ _ Hm). lia.
Qed.

(* ---------- member store ---------- *)

Lemma mem_put_In : forall m st a v e, In e (mem_put m st a v) -> e = (st, a, v) \/ In e m.
Proof.
  induction m as [|x r IH]; intros st a v e H; cbn [mem_put] in H.
  - destruct H as [H|[]]; auto.
  - destruct (key_eqb x st a).
    + destruct H as [H|H]; [auto|right; right; exact H].
    + destruct (key_ltb st a x).
      * destruct H as [H|H]; auto.
      * destruct H as [H|H]; [right; left; exact H|].
        destruct (IH _ _ _ _ H); [auto|right; right; assumption].
Qed.

Lemma mem_put_Forall : forall (Q : mentry -> Prop) m st a v,
  Forall Q m -> Q (st, a, v) -> Forall Q (mem_put m st a v).
Proof.
  intros Q m st a v Hm Hq. apply Forall_forall. intros e He.
  destruct (mem_put_In _ _ _ _ _ He) as [E|I]; [subst; exact Hq|].
  rewrite Forall_forall in Hm. auto.
Qed.

Lemma key_eqb_true : forall e st a, key_eqb e st a = true <-> me_stage e = st /\ me_addr e = a.
Proof.
  intros e st a. unfold key_eqb. rewrite andb_true_iff, Nat.eqb_eq, N.eqb_eq. reflexivity.
Qed.

(* writing under (st, a) leaves every other key as it was *)
Lemma mem_get_put_other : forall m st a v st' a', (st' <> st \/ a' <> a) ->
  mem_get (mem_put m st a v) st' a' = mem_get m st' a'.
Proof.
  induction m as [|x r IH]; intros st a v st' a' Hne; cbn [mem_put mem_get].
  - assert (E : key_eqb (st, a, v) st' a' = false).
    { apply not_true_is_false. rewrite key_eqb_true. cbn. intuition congruence. }
    rewrite E. reflexivity.
  - destruct (key_eqb x st a) eqn:K.
    + cbn [mem_get]. apply key_eqb_true in K. destruct K as [K1 K2].
      assert (E1 : key_eqb (st, a, v) st' a' = false).
      { apply not_true_is_false. rewrite key_eqb_true. cbn. intuition congruence. }
      assert (E2 : key_eqb x st' a' = false).
      { apply not_true_is_false. rewrite key_eqb_true. intuition congruence. }
      rewrite E1, E2. reflexivity.
    + destruct (key_ltb st a x).
      * cbn [mem_get].
        assert (E1 : key_eqb (st, a, v) st' a' = false).
        { apply not_true_is_false. rewrite key_eqb_true. cbn. intuition congruence. }
        rewrite E1. reflexivity.
      * cbn [mem_get]. destruct (key_eqb x st' a'); [reflexivity|]. apply IH. exact Hne.
Qed.

Lemma mem_get_put_same : forall m st a v, mem_get (mem_put m st a v) st a = Some v.
Proof.
  induction m as [|x r IH]; intros st a v; cbn [mem_put mem_get].
  - assert (E : key_eqb (st, a, v) st a = true) by (apply key_eqb_true; auto). rewrite E. reflexivity.
  - destruct (key_eqb x st a) eqn:K.
    + cbn [mem_get].
      assert (E : key_eqb (st, a, v) st a = true) by (apply key_eqb_true; auto). rewrite E. reflexivity.
    + destruct (key_ltb st a x).
      * cbn [mem_get].
        assert (E : key_eqb (st, a, v) st a = true) by (apply key_eqb_true; auto). rewrite E. reflexivity.
      * cbn [mem_get]. rewrite K. apply IH.
Qed.

Lemma mem_get_del_other : forall m st a st' a', (st' <> st \/ a' <> a) ->
  mem_get (mem_del m st a) st' a' = mem_get m st' a'.
Proof.
  induction m as [|x r IH]; intros st a st' a' Hne; [reflexivity|].
  unfold mem_del. cbn [filter mem_get]. fold (mem_del r st a).
  destruct (key_eqb x st a) eqn:K; cbn [negb].
  - apply key_eqb_true in K. destruct K as [K1 K2].
    assert (E2 : key_eqb x st' a' = false).
    { apply not_true_is_false. rewrite key_eqb_true. intuition congruence. }
    rewrite E2. apply IH. exact Hne.
  - cbn [mem_get]. destruct (key_eqb x st' a'); [reflexivity|]. apply IH. exact Hne.
Qed.

Lemma mem_get_In : forall m st a v, mem_get m st a = Some v -> exists e, In e m /\ me_stage e = st /\ me_addr e = a.
Proof.
  induction m as [|x r IH]; intros st a v H; [discriminate|]. cbn [mem_get] in H.
  destruct (key_eqb x st a) eqn:K.
  - apply key_eqb_true in K. exists x. split; [left; reflexivity|exact K].
  - destruct (IH _ _ _ H) as [e [I E]]. exists e. split; [right; exact I|exact E].
Qed.

Lemma mem_drop_In : forall m lo hi e, In e (mem_drop m lo hi) <-> In e m /\ in_range lo hi e = false.
Proof.
  intros m lo hi e. unfold mem_drop. rewrite filter_In. rewrite negb_true_iff. reflexivity.
Qed.

Lemma mem_get_drop_below : forall m lo hi st a, (st < lo)%nat ->
  mem_get (mem_drop m lo hi) st a = mem_get m st a.
Proof.
  induction m as [|x r IH]; intros lo hi st a Hlt; [reflexivity|].
  unfold mem_drop. cbn [filter mem_get]. fold (mem_drop r lo hi).
  destruct (in_range lo hi x) eqn:R; cbn [negb].
  - assert (E : key_eqb x st a = false).
    { apply not_true_is_false. rewrite key_eqb_true. unfold in_range in R.
      apply andb_true_iff in R. destruct R as [R1 _]. apply Nat.leb_le in R1. lia. }
    rewrite E. apply IH. exact Hlt.
  - cbn [mem_get]. destruct (key_eqb x st a); [reflexivity|]. apply IH. exact Hlt.
Qed.

Lemma mem_stage_drop_below : forall m lo hi st, (st < lo)%nat ->
  mem_stage (mem_drop m lo hi) st = mem_stage m st.
Proof.
  induction m as [|x r IH]; intros lo hi st Hlt; [reflexivity|].
  unfold mem_drop, mem_stage. cbn [filter]. fold (mem_drop r lo hi).
  destruct (in_range lo hi x) eqn:R; cbn [negb].
  - assert (E : Nat.eqb (me_stage x) st = false).
    { apply Nat.eqb_neq. unfold in_range in R. apply andb_true_iff in R. destruct R as [R1 _].
      apply Nat.leb_le in R1. lia. }
    rewrite E. apply (IH lo hi st Hlt).
  - cbn [filter]. destruct (Nat.eqb (me_stage x) st); cbn [map]; [f_equal|]; apply (IH lo hi st Hlt).
Qed.

(* ---------- the add / remove loops are stage-scoped ---------- *)

Lemma add_loop_frame : forall st l limit whale m added num m' added' num',
  add_loop st l limit whale m added num = Ok (m', added', num') ->
  (forall e, In e m' -> In e m \/ me_stage e = st) /\
  (forall st' a, st' <> st -> mem_get m' st' a = mem_get m st' a) /\
  (forall a v, mem_get m st a = Some v -> mem_get m' st a = Some v).
Proof.
  intros st. induction l as [|[a v] r IH]; intros limit whale m added num m' added' num' H; cbn [add_loop] in H.
  - inversion H; subst. repeat split; auto.
  - dob H. destruct (mem_has m st a) eqn:Has.
    + eapply IH; eassumption.
    + destruct (IH _ _ _ _ _ _ _ _ H) as [F1 [F2 F3]]. repeat split.
      * intros e He. destruct (F1 e He) as [I|E]; [|auto].
        destruct (mem_put_In _ _ _ _ _ I) as [E|I']; [subst; right; reflexivity|auto].
      * intros st' a' Hne. rewrite F2 by exact Hne. apply mem_get_put_other. left. exact Hne.
      * intros a' v' Hg. apply F3. destruct (N.eq_dec a' a) as [E|NE].
        -- subst. unfold mem_has in Has. rewrite Hg in Has. discriminate.
        -- rewrite mem_get_put_other by (right; exact NE). exact Hg.
Qed.

Lemma remove_loop_frame : forall st l m cnt num m' cnt' num',
  remove_loop st l m cnt num = Ok (m', cnt', num') ->
  (forall e, In e m' -> In e m) /\
  (forall st' a, st' <> st -> mem_get m' st' a = mem_get m st' a).
Proof.
  intros st. induction l as [|a r IH]; intros m cnt num m' cnt' num' H; cbn [remove_loop] in H.
  - inversion H; subst. split; auto.
  - dob H. destruct (IH _ _ _ _ _ _ H) as [F1 F2]. split.
    + intros e He. specialize (F1 e He). unfold mem_del in F1. apply filter_In in F1. tauto.
    + intros st' a' Hne. rewrite F2 by exact Hne. apply mem_get_del_other. left. exact Hne.
Qed.

(* ---------- replace_nth ---------- *)

Lemma replace_nth_length : forall {A} (l : list A) n x, length (replace_nth l n x) = length l.
Proof. induction l as [|a r IH]; intros [|n] x; cbn; auto. Qed.

Lemma replace_nth_other : forall {A} (l : list A) n x j, j <> n ->
  nth_error (replace_nth l n x) j = nth_error l j.
Proof.
  induction l as [|a r IH]; intros [|n] x [|j] Hne; cbn; auto; try congruence.
Qed.

Lemma replace_nth_same : forall {A} (l : list A) n x, (n < length l)%nat ->
  nth_error (replace_nth l n x) n = Some x.
Proof.
  induction l as [|a r IH]; intros [|n] x Hlt; cbn in *; try lia; auto. apply IH. lia.
Qed.

Lemma idx_of_spec : forall id len st, idx_of id len = Some st -> st = N.to_nat id /\ (st < len)%nat.
Proof.
  intros id len st H. unfold idx_of in H. destruct (id <? N.of_nat len) eqn:E; [|discriminate].
  inversion H; subst. split; [reflexivity|lia].
Qed.

Lemma stage_at_spec : forall l id st s, stage_at l id = Some (st, s) ->
  st = N.to_nat id /\ (st < length l)%nat /\ nth_error l st = Some s.
Proof.
  intros l id st s H. unfold stage_at in H. destruct (idx_of id (length l)) as [k|] eqn:I; [|discriminate].
  destruct (nth_error l k) eqn:E; [|discriminate]. inversion H; subst.
  destruct (idx_of_spec _ _ _ I). auto.
Qed.

(* ---------- what each successful operation does ---------- *)

Lemma add_stage_ok : forall w now sender s ms w',
  exec_add_stage w now sender s ms = Ok w' ->
  is_admin w sender = true /\ w_kind w <> KMerkle /\
  w_stages w' = w_stages w ++ [s] /\ (length (w_stages w) < 3)%nat /\
  validate_stages (w_kind w) now (w_stages w ++ [s]) = true /\
  w_kind w' = w_kind w /\ w_limit w' = w_limit w /\
  (forall e, In e (w_mem w') -> In e (w_mem w) \/ me_stage e = length (w_stages w)) /\
  (forall st a, st <> length (w_stages w) -> mem_get (w_mem w') st a = mem_get (w_mem w) st a).
Proof.
  intros w now sender s ms w' H. unfold exec_add_stage in H. dob H.
  inversion H; subst; clear H. cbn.
  apply add_loop_frame in B. destruct B as [F1 [F2 _]].
  apply Nat.ltb_lt in G1.
  repeat split; auto.
  intros E. rewrite E in G. discriminate.
Qed.

Lemma remove_stage_ok : forall w now sender id w',
  exec_remove_stage w now sender id = Ok w' ->
  is_admin w sender = true /\ w_kind w <> KMerkle /\
  exists s, nth_error (w_stages w) (N.to_nat id) = Some s /\ now < s_start s /\
  w_stages w' = firstn (N.to_nat id) (w_stages w) /\
  w_mem w' = mem_drop (w_mem w) (N.to_nat id) (length (w_stages w)) /\
  w_num w' = w_num w - N.of_nat (mem_count_range (w_mem w) (N.to_nat id) (length (w_stages w))) /\
  N.of_nat (mem_count_range (w_mem w) (N.to_nat id) (length (w_stages w))) <= w_num w /\
  w_kind w' = w_kind w /\ w_limit w' = w_limit w /\ w_admins w' = w_admins w.
Proof.
  intros w now sender id w' H. unfold exec_remove_stage in H. dob H.
  destruct (stage_at (w_stages w) id) as [[st s]|] eqn:S; [|discriminate].
  dob H. inversion H; subst; clear H. cbn.
  apply stage_at_spec in S. destruct S as [E [L Hn]]. subst st.
  split; [auto|]. split; [intros E; rewrite E in G; discriminate|].
  exists s. repeat split; auto; lia.
Qed.

Lemma update_stage_ok : forall w sender id name start end_ price pal mcl w',
  exec_update_stage w sender id name start end_ price pal mcl = Ok w' ->
  is_admin w sender = true /\
  exists old, nth_error (w_stages w) (N.to_nat id) = Some old /\
  w_stages w' = replace_nth (w_stages w) (N.to_nat id)
                  (updated_stage (w_kind w) old name start end_ price pal mcl) /\
  validate_update (w_kind w) (w_stages w') = true /\
  w_mem w' = w_mem w /\ w_cnt w' = w_cnt w /\ w_num w' = w_num w /\ w_limit w' = w_limit w /\
  w_kind w' = w_kind w /\ w_roots w' = w_roots w /\ w_admins w' = w_admins w.
Proof.
  intros w sender id name start end_ price pal mcl w' H. unfold exec_update_stage in H. dob H.
  destruct (stage_at (w_stages w) id) as [[st old]|] eqn:S; [|discriminate].
  dob H. inversion H; subst; clear H. cbn.
  apply stage_at_spec in S. destruct S as [E [L Hn]]. subst st.
  split; [auto|]. exists old. repeat split; auto.
Qed.

Lemma add_members_ok : forall w sender id ms w',
  exec_add_members w sender id ms = Ok w' ->
  is_admin w sender = true /\ (N.to_nat id < length (w_stages w))%nat /\
  w_stages w' = w_stages w /\ w_kind w' = w_kind w /\ w_limit w' = w_limit w /\
  (forall e, In e (w_mem w') -> In e (w_mem w) \/ me_stage e = N.to_nat id) /\
  (forall st a, st <> N.to_nat id -> mem_get (w_mem w') st a = mem_get (w_mem w) st a) /\
  (forall a v, mem_get (w_mem w) (N.to_nat id) a = Some v -> mem_get (w_mem w') (N.to_nat id) a = Some v).
Proof.
  intros w sender id ms w' H. unfold exec_add_members in H. dob H.
  destruct (idx_of id (length (w_stages w))) as [st|] eqn:I; [|discriminate].
  dob H. inversion H; subst; clear H. cbn.
  apply idx_of_spec in I. destruct I as [E L]. subst st.
  apply add_loop_frame in B. destruct B as [F1 [F2 F3]]. repeat split; auto.
Qed.

Lemma remove_members_ok : forall w now sender id ms w',
  exec_remove_members w now sender id ms = Ok w' ->
  is_admin w sender = true /\
  (exists s, nth_error (w_stages w) (N.to_nat id) = Some s /\ now < s_start s) /\
  w_stages w' = w_stages w /\ w_kind w' = w_kind w /\ w_limit w' = w_limit w /\
  (forall e, In e (w_mem w') -> In e (w_mem w)) /\
  (forall st a, st <> N.to_nat id -> mem_get (w_mem w') st a = mem_get (w_mem w) st a).
Proof.
  intros w now sender id ms w' H. unfold exec_remove_members in H. dob H.
  destruct (stage_at (w_stages w) id) as [[st s]|] eqn:S; [|discriminate].
  dob H. inversion H; subst; clear H. cbn.
  apply stage_at_spec in S. destruct S as [E [L Hn]]. subst st.
  apply remove_loop_frame in B. destruct B as [F1 F2].
  split; [auto|]. split; [exists s; split; [exact Hn|lia]|]. repeat split; auto.
Qed.

(* ---------- instantiate ---------- *)

Lemma put_all_Forall : forall (Q : mentry -> Prop) l m st,
  Forall Q m -> (forall a, Q (st, a, 1)) -> Forall Q (put_all m st l).
Proof.
  intros Q. unfold put_all. induction l as [|a r IH]; intros m st Hm Hq; cbn [fold_left]; [exact Hm|].
  apply IH; [|exact Hq]. apply mem_put_Forall; auto.
Qed.

Lemma inst_plain_loop_Forall : forall ls k m c n,
  Forall (fun e => (me_stage e < n)%nat) m -> (k + length ls <= n)%nat ->
  Forall (fun e => (me_stage e < n)%nat) (fst (inst_plain_loop k ls m c)).
Proof.
  induction ls as [|l r IH]; intros k m c n Hm Hk; cbn [inst_plain_loop]; [exact Hm|].
  cbn [length] in Hk. apply IH; [|lia]. apply put_all_Forall; [exact Hm|]. intros a. cbn. lia.
Qed.

Lemma inst_flex_stage_Forall : forall (Q : mentry -> Prop) st l whale m sm num m' sm' num',
  inst_flex_stage st l whale m sm num = Ok (m', sm', num') ->
  Forall Q m -> (forall a v, Q (st, a, v)) -> Forall Q m'.
Proof.
  intros Q st. induction l as [|[a v] r IH]; intros whale m sm num m' sm' num' H Hm Hq; cbn [inst_flex_stage] in H.
  - inversion H; subst. exact Hm.
  - dob H. destruct (mem_has m st a); (eapply IH; [eassumption| |exact Hq]); apply mem_put_Forall; auto.
Qed.

Lemma inst_flex_loop_Forall : forall ls k whale m c num n m' c' num',
  inst_flex_loop k ls whale m c num = Ok (m', c', num') ->
  Forall (fun e => (me_stage e < n)%nat) m -> (k + length ls <= n)%nat ->
  Forall (fun e => (me_stage e < n)%nat) m'.
Proof.
  induction ls as [|l r IH]; intros k whale m c num n m' c' num' H Hm Hk; cbn [inst_flex_loop] in H.
  - inversion H; subst. exact Hm.
  - dob H. cbn [length] in Hk.
    eapply IH; [exact H| |lia].
    eapply inst_flex_stage_Forall; [exact B|exact Hm|]. intros a v. cbn. lia.
Qed.

Lemma instantiate_ok : forall k now i w, instantiate k now i = Ok w ->
  w_kind w = k /\ w_stages w = i_stages i /\ validate_stages k now (i_stages i) = true /\ MemInv w.
Proof.
  intros k now i w H. destruct k; cbn [instantiate] in H.
  - unfold instantiate_plain in H. dob H.
    inversion H; subst; clear H. unfold MemInv. cbn. repeat split; auto.
    match goal with P : inst_plain_loop _ _ _ _ = (?m, ?c) |- _ =>
      change m with (fst (m, c)); rewrite <- P end.
    apply inst_plain_loop_Forall; [constructor|]. rewrite firstn_length. lia.
  - unfold instantiate_flex in H. dob H.
    inversion H; subst; clear H. unfold MemInv. cbn. repeat split; auto.
    eapply inst_flex_loop_Forall; [exact B|constructor|]. rewrite firstn_length. lia.
  - unfold instantiate_merkle in H. dob H. inversion H; subst; clear H. unfold MemInv. cbn.
    repeat split; auto.
Qed.

(* ---------- invariants ---------- *)

Lemma nth_error_firstn_some : forall {A} n (l : list A) i x,
  nth_error (firstn n l) i = Some x -> nth_error l i = Some x.
Proof.
  induction n as [|n IH]; intros l i x H; cbn [firstn] in H.
  - destruct i; discriminate.
  - destruct l as [|a r]; [destruct i; discriminate|]. destruct i as [|i]; cbn in *; auto.
Qed.

Lemma StagesInv_firstn : forall l n, StagesInv l -> StagesInv (firstn n l).
Proof.
  intros l n [L [W1 W2]].
  split; [rewrite firstn_length; lia|]. split.
  - intros i s H. apply (W1 i). apply (nth_error_firstn_some n). exact H.
  - intros i j si sj Hlt Hi Hj. apply (W2 i j); auto; apply (nth_error_firstn_some n); assumption.
Qed.

Theorem step_preserves : forall w now o w', step w now o = Ok w' ->
  StagesInv (w_stages w) -> MemInv w -> StagesInv (w_stages w') /\ MemInv w'.
Proof.
  intros w now o w' H SI MI. destruct o; cbn [step] in H.
  - destruct (add_stage_ok _ _ _ _ _ _ H) as [_ [_ [E [L [V [_ [_ [F1 _]]]]]]]].
    rewrite E. split; [exact (proj1 (validate_stages_inv _ _ _ V))|].
    unfold MemInv. rewrite E, app_length. cbn [length]. apply Forall_forall. intros e He.
    destruct (F1 e He) as [I|Eq]; [|lia]. unfold MemInv in MI. rewrite Forall_forall in MI.
    specialize (MI e I). lia.
  - destruct (remove_stage_ok _ _ _ _ _ H) as [_ [_ [s [Hn [Hlt [E [M _]]]]]]].
    rewrite E. split; [apply StagesInv_firstn; exact SI|].
    unfold MemInv. rewrite E, M, firstn_length. apply Forall_forall. intros e He.
    apply mem_drop_In in He. destruct He as [I R]. unfold MemInv in MI. rewrite Forall_forall in MI.
    specialize (MI e I). unfold in_range in R.
    assert (N.to_nat id < length (w_stages w))%nat by (apply nth_error_Some; congruence).
    apply andb_false_iff in R. destruct R as [R|R]; [apply Nat.leb_gt in R|apply Nat.ltb_ge in R]; lia.
  - destruct (update_stage_ok _ _ _ _ _ _ _ _ _ _ H) as [_ [old [Hn [E [V [M _]]]]]].
    split; [exact (proj1 (validate_common_inv _ _ V))|].
    unfold MemInv. rewrite M, E, replace_nth_length. exact MI.
  - destruct (add_members_ok _ _ _ _ _ H) as [_ [L [E [_ [_ [F1 _]]]]]].
    rewrite E. split; [exact SI|]. unfold MemInv. rewrite E. apply Forall_forall. intros e He.
    destruct (F1 e He) as [I|Eq]; [|lia]. unfold MemInv in MI. rewrite Forall_forall in MI. auto.
  - destruct (remove_members_ok _ _ _ _ _ _ H) as [_ [_ [E [_ [_ [F1 _]]]]]].
    rewrite E. split; [exact SI|]. unfold MemInv. rewrite E. apply Forall_forall. intros e He.
    unfold MemInv in MI. rewrite Forall_forall in MI. auto.
Qed.

Theorem reachable_inv : forall w, reachable w -> StagesInv (w_stages w) /\ MemInv w.
Proof.
  induction 1 as [k now i w H | w now o w' R [SI MI] H].
  - destruct (instantiate_ok _ _ _ _ H) as [_ [E [V M]]]. rewrite E.
    split; [exact (proj1 (validate_stages_inv _ _ _ V))|exact M].
  - eapply step_preserves; eassumption.
Qed.

(* histories as lists of (clock, operation); a rejected operation changes nothing *)
Fixpoint run (w : wl) (h : list (N * op)) : wl :=
  match h with
  | [] => w
  | (now, o) :: r => run (step_total w now o) r
  end.

Lemma run_reachable : forall h w, reachable w -> reachable (run w h).
Proof.
  induction h as [|[now o] r IH]; intros w R; cbn [run]; [exact R|].
  apply IH. unfold step_total. destruct (step w now o) eqn:S; [|exact R].
  eapply R_step; eassumption.
Qed.

Theorem history_inv : forall k now0 i w h, instantiate k now0 i = Ok w ->
  StagesInv (w_stages (run w h)) /\ MemInv (run w h).
Proof.
  intros. apply reachable_inv. apply run_reachable. eapply R_init; eassumption.
Qed.

(* ---------- created or added: the first stage is in the future ---------- *)

Theorem created_first_future : forall k now i w, instantiate k now i = Ok w ->
  w_stages w = i_stages i /\ (1 <= length (w_stages w) <= 3)%nat /\
  exists s r, w_stages w = s :: r /\ now < s_start s.
Proof.
  intros k now i w H. destruct (instantiate_ok _ _ _ _ H) as [_ [E [V _]]].
  destruct (validate_stages_inv _ _ _ V) as [[L _] [s [r [El Hs]]]].
  rewrite E. split; [reflexivity|]. split; [rewrite El in *; cbn [length] in *; lia|eauto].
Qed.

Theorem added_first_future : forall w now sender s ms w',
  step w now (AddStage sender s ms) = Ok w' ->
  w_stages w' = w_stages w ++ [s] /\ (length (w_stages w') <= 3)%nat /\
  exists s0 r, w_stages w' = s0 :: r /\ now < s_start s0.
Proof.
  intros w now sender s ms w' H. cbn [step] in H.
  destruct (add_stage_ok _ _ _ _ _ _ H) as [_ [_ [E [L [V _]]]]].
  destruct (validate_stages_inv _ _ _ V) as [[L3 _] [s0 [r [El Hs]]]].
  rewrite E. split; [reflexivity|]. split; [exact L3|eauto].
Qed.

(* ---------- answers come from the active stage ---------- *)

Theorem has_member_from_active : forall w now a f, w_kind w <> KMerkle ->
  exists b, q_has_member w now a f = Ok b /\
  (b = true <-> exists k, earliest_containing now (w_stages w) k /\ mem_has (w_mem w) k a = true).
Proof.
  intros w now a f NK. unfold q_has_member.
  destruct (fetch_active_index now (w_stages w)) as [k|] eqn:F.
  - exists (mem_has (w_mem w) k a). split; [destruct (w_kind w); [reflexivity|reflexivity|congruence]|].
    apply active_index_spec in F. split.
    + intros Hm. exists k. auto.
    + intros [k' [E Hm]]. rewrite (earliest_unique _ _ _ _ F E). exact Hm.
  - exists false. split; [destruct (w_kind w); [reflexivity|reflexivity|congruence]|].
    split; [discriminate|]. intros [k [E _]]. apply active_index_spec in E. congruence.
Qed.

Theorem has_member_merkle_from_active : forall w now a h, w_kind w = KMerkle ->
  (q_has_member w now a (Some h) = Ok true <->
   exists k, earliest_containing now (w_stages w) k /\ nth_error (w_roots w) k = Some h).
Proof.
  intros w now a h K. unfold q_has_member. rewrite K.
  destruct (fetch_active_index now (w_stages w)) as [k|] eqn:F.
  - apply active_index_spec in F. split.
    + intros H. exists k. split; [exact F|]. destruct (nth_error (w_roots w) k) as [root|]; [|discriminate].
      inversion H as [E]. apply N.eqb_eq in E. subst. reflexivity.
    + intros [k' [E Hr]]. rewrite <- (earliest_unique _ _ _ _ F E) in Hr. rewrite Hr, N.eqb_refl. reflexivity.
  - split; [discriminate|]. intros [k [E _]]. apply active_index_spec in E. congruence.
Qed.

Theorem no_active_no_member : forall w now a f,
  (forall s, In s (w_stages w) -> ~ contains now s) ->
  q_has_member w now a f = (match w_kind w with KMerkle => Err | _ => Ok false end) /\
  q_member w now a = Err /\
  q_active_stage w now = None /\ q_active_stage_id w now = 0 /\ q_is_active w now = false /\
  c_active (q_config w now) = false.
Proof.
  intros w now a f H. apply active_index_none in H.
  pose proof (active_queries w now) as Q. rewrite H in Q. destruct Q as [Q1 [Q2 Q3]].
  assert (C : c_active (q_config w now) = false).
  { unfold q_config. unfold q_active_stage in Q1. rewrite Q1. destruct (w_stages w); reflexivity. }
  unfold q_has_member, q_member. rewrite H.
  split; [destruct (w_kind w); reflexivity|].
  split; [destruct (w_kind w); reflexivity|].
  auto.
Qed.

Theorem member_limit_from_active : forall w now a v, w_kind w = KFlex ->
  (q_member w now a = Ok v <->
   exists k, earliest_containing now (w_stages w) k /\ mem_get (w_mem w) k a = Some v).
Proof.
  intros w now a v K. unfold q_member. rewrite K.
  destruct (fetch_active_index now (w_stages w)) as [k|] eqn:F.
  - apply active_index_spec in F. split.
    + intros H. exists k. split; [exact F|]. destruct (mem_get (w_mem w) k a); [congruence|discriminate].
    + intros [k' [E Hg]]. rewrite <- (earliest_unique _ _ _ _ F E) in Hg. rewrite Hg. reflexivity.
  - split; [discriminate|]. intros [k [E _]]. apply active_index_spec in E. congruence.
Qed.

Theorem config_from_active : forall w now k s,
  earliest_containing now (w_stages w) k -> nth_error (w_stages w) k = Some s ->
  let c := q_config w now in
  c_active c = true /\ c_start c = s_start s /\ c_end c = s_end s /\
  c_denom c = s_denom s /\ c_price c = s_price s /\
  (w_kind w <> KFlex -> c_pal c = s_pal s) /\
  q_active_stage w now = Some s /\ q_active_stage_id w now = N.of_nat k + 1 /\ q_is_active w now = true.
Proof.
  intros w now k s E Hn. apply active_index_spec in E.
  pose proof (active_queries w now) as Q. rewrite E in Q. destruct Q as [Q1 [Q2 [Q3 _]]].
  rewrite Hn in Q1. cbv zeta. unfold q_config. unfold q_active_stage in Q1. rewrite Q1. cbn.
  repeat split; auto. intros NK. destruct (w_kind w); congruence.
Qed.

(* ---------- removal ---------- *)

Theorem remove_stage_spec : forall w now sender id w',
  step w now (RemoveStage sender id) = Ok w' -> MemInv w ->
  let k := N.to_nat id in
  (exists s, nth_error (w_stages w) k = Some s /\ now < s_start s) /\
  w_stages w' = firstn k (w_stages w) /\
  (forall e, In e (w_mem w') -> (me_stage e < k)%nat) /\
  (forall st a, (k <= st)%nat -> mem_get (w_mem w') st a = None) /\
  (forall st a, (st < k)%nat -> mem_get (w_mem w') st a = mem_get (w_mem w) st a) /\
  (forall st, (st < k)%nat -> mem_stage (w_mem w') st = mem_stage (w_mem w) st) /\
  w_limit w' = w_limit w /\ w_kind w' = w_kind w /\ w_admins w' = w_admins w.
Proof.
  intros w now sender id w' H MI. cbn [step] in H. cbv zeta.
  destruct (remove_stage_ok _ _ _ _ _ H) as [_ [_ [s [Hn [Hlt [E [M [_ [_ [K [L A]]]]]]]]]]].
  assert (Hk : (N.to_nat id < length (w_stages w))%nat) by (apply nth_error_Some; congruence).
  assert (All : forall e, In e (w_mem w') -> (me_stage e < N.to_nat id)%nat).
  { intros e He. rewrite M in He. apply mem_drop_In in He. destruct He as [I R].
    unfold MemInv in MI. rewrite Forall_forall in MI. specialize (MI e I). unfold in_range in R.
    apply andb_false_iff in R. destruct R as [R|R]; [apply Nat.leb_gt in R|apply Nat.ltb_ge in R]; lia. }
  split; [exists s; auto|]. split; [exact E|]. split; [exact All|]. split.
  - intros st a Hle. destruct (mem_get (w_mem w') st a) eqn:G; [|reflexivity].
    apply mem_get_In in G. destruct G as [e [I [Es _]]]. specialize (All e I). lia.
  - split; [intros st a Hst; rewrite M; apply mem_get_drop_below; exact Hst|].
    split; [intros st Hst; rewrite M; apply mem_stage_drop_below; exact Hst|].
    auto.
Qed.

(* ---------- frames of the other operations ---------- *)

Theorem update_stage_frame : forall w now sender id name start end_ price pal mcl w',
  step w now (UpdateStage sender id name start end_ price pal mcl) = Ok w' ->
  length (w_stages w') = length (w_stages w) /\
  (forall j, j <> N.to_nat id -> nth_error (w_stages w') j = nth_error (w_stages w) j) /\
  w_mem w' = w_mem w /\ w_roots w' = w_roots w /\ w_num w' = w_num w /\ w_limit w' = w_limit w.
Proof.
  intros w now sender id name start end_ price pal mcl w' H. cbn [step] in H.
  destruct (update_stage_ok _ _ _ _ _ _ _ _ _ _ H) as [_ [old [Hn [E [_ [M [_ [Nm [L [_ [R _]]]]]]]]]]].
  rewrite E. split; [apply replace_nth_length|]. split; [intros j Hj; apply replace_nth_other; exact Hj|auto].
Qed.

Theorem member_edits_frame : forall w now o w', step w now o = Ok w' ->
  match o with
  | AddMembers _ id _ =>
      w_stages w' = w_stages w /\
      (forall st a, st <> N.to_nat id -> mem_get (w_mem w') st a = mem_get (w_mem w) st a)
  | RemoveMembers _ id _ =>
      w_stages w' = w_stages w /\
      (exists s, nth_error (w_stages w) (N.to_nat id) = Some s /\ now < s_start s) /\
      (forall st a, st <> N.to_nat id -> mem_get (w_mem w') st a = mem_get (w_mem w) st a)
  | AddStage _ _ _ =>
      forall st a, st <> length (w_stages w) -> mem_get (w_mem w') st a = mem_get (w_mem w) st a
  | _ => True
  end.
Proof.
  intros w now o w' H. destruct o; cbn [step] in H; auto.
  - destruct (add_stage_ok _ _ _ _ _ _ H) as [_ [_ [_ [_ [_ [_ [_ [_ F]]]]]]]]. exact F.
  - destruct (add_members_ok _ _ _ _ _ H) as [_ [_ [E [_ [_ [_ [F _]]]]]]]. auto.
  - destruct (remove_members_ok _ _ _ _ _ _ H) as [_ [S [E [_ [_ [_ F]]]]]]. auto.
Qed.

Theorem only_admins_change : forall w now o w', step w now o = Ok w' ->
  is_admin w match o with
             | AddStage s _ _ | RemoveStage s _ | UpdateStage s _ _ _ _ _ _ _ | AddMembers s _ _ | RemoveMembers s _ _ => s
             end = true.
Proof.
  intros w now o w' H. destruct o; cbn [step] in H.
  - exact (proj1 (add_stage_ok _ _ _ _ _ _ H)).
  - exact (proj1 (remove_stage_ok _ _ _ _ _ H)).
  - exact (proj1 (update_stage_ok _ _ _ _ _ _ _ _ _ _ H)).
  - exact (proj1 (add_members_ok _ _ _ _ _ H)).
  - exact (proj1 (remove_members_ok _ _ _ _ _ _ H)).
Qed.

(* the Merkle kind has a fixed number of stages: only update_stage_config exists *)
Theorem merkle_stage_count_fixed : forall w now o w', w_kind w = KMerkle -> step w now o = Ok w' ->
  length (w_stages w') = length (w_stages w) /\ w_roots w' = w_roots w /\ w_kind w' = KMerkle.
Proof.
  intros w now o w' K H. destruct o; cbn [step] in H.
  - unfold exec_add_stage in H. rewrite K in H. discriminate.
  - unfold exec_remove_stage in H. rewrite K in H. discriminate.
  - destruct (update_stage_ok _ _ _ _ _ _ _ _ _ _ H) as [_ [old [Hn [E [_ [_ [_ [_ [_ [Kd [R _]]]]]]]]]]].
    rewrite E, replace_nth_length. rewrite Kd. auto.
  - unfold exec_add_members in H. rewrite K in H. discriminate.
  - unfold exec_remove_members in H. rewrite K in H. discriminate.
Qed.

(* ---------- documented per-address-limit bounds on every accepted stage list ---------- *)

Lemma reachable_kind_valid : forall w, reachable w ->
  w_stages w = [] \/ validate_common (w_kind w) (w_stages w) = true.
Proof.
  induction 1 as [k now i w H | w now o w' R IH H].
  - destruct (instantiate_ok _ _ _ _ H) as [K [E [V _]]]. right. rewrite K, E.
    unfold validate_stages in V. apply andb_true_iff in V. tauto.
  - destruct o; cbn [step] in H.
    + destruct (add_stage_ok _ _ _ _ _ _ H) as [_ [_ [E [_ [V [K _]]]]]]. right. rewrite K, E.
      unfold validate_stages in V. apply andb_true_iff in V. tauto.
    + destruct (remove_stage_ok _ _ _ _ _ H) as [_ [_ [s [Hn [_ [E [_ [_ [_ [K _]]]]]]]]]].
      rewrite E, K. destruct IH as [IH|IH]; [rewrite IH in Hn; destruct (N.to_nat id); discriminate|].
      destruct (N.to_nat id) as [|n] eqn:En; [left; reflexivity|right].
      (* a non-empty prefix of a valid list is valid *)
      unfold validate_common in *.
      repeat (apply andb_true_iff in IH; destruct IH as [IH ?]).
      assert (Hl : (length (firstn (S n) (w_stages w)) <= length (w_stages w))%nat) by (rewrite firstn_length; lia).
      assert (Hsub : forall x, In x (firstn (S n) (w_stages w)) -> In x (w_stages w)).
      { intros x Hx. rewrite <- (firstn_skipn (S n) (w_stages w)). apply in_or_app. left. exact Hx. }
      repeat (apply andb_true_iff; split).
      * destruct (w_stages w); [destruct n; discriminate|reflexivity].
      * match goal with Hq : Nat.ltb _ 4 = true |- _ => apply Nat.ltb_lt in Hq; apply Nat.ltb_lt; lia end.
      * apply forallb_forall. intros x Hx.
        match goal with Hq : forallb (pal_ok _) _ = true |- _ => rewrite forallb_forall in Hq; apply Hq; auto end.
      * destruct (w_stages w) as [|s0 r0] eqn:Es; [reflexivity|]. cbn [firstn same_denom].
        match goal with Hq : same_denom _ = true |- _ => cbn [same_denom] in Hq; rewrite forallb_forall in Hq; rename Hq into SD end.
        apply forallb_forall. intros x Hx. apply SD. apply (Hsub x). exact Hx.
      * match goal with Hq : windows_ok _ = true |- _ => apply windows_ok_sound in Hq; destruct Hq as [W1 W2] end.
        apply windows_ok_complete.
        -- intros i0 s1 Hi. apply (W1 i0). apply (nth_error_firstn_some (S n)). exact Hi.
        -- intros i0 j0 si sj Hlt Hi Hj. apply (W2 i0 j0); auto; apply (nth_error_firstn_some (S n)); assumption.
    + destruct (update_stage_ok _ _ _ _ _ _ _ _ _ _ H) as [_ [old [_ [_ [V [_ [_ [_ [_ [K _]]]]]]]]]].
      right. rewrite K. exact V.
    + destruct (add_members_ok _ _ _ _ _ H) as [_ [_ [E [K _]]]]. rewrite E, K. exact IH.
    + destruct (remove_members_ok _ _ _ _ _ _ H) as [_ [_ [E [K _]]]]. rewrite E, K. exact IH.
Qed.

Theorem reachable_pal_bounds : forall w, reachable w ->
  match w_kind w with
  | KPlain => Forall (fun s => 1 <= s_pal s <= 30) (w_stages w)
  | KMerkle => Forall (fun s => 1 <= s_pal s <= 50) (w_stages w)
  | KFlex => True
  end.
Proof.
  intros w R. destruct (reachable_kind_valid w R) as [E|V].
  - rewrite E. destruct (w_kind w); auto.
  - destruct (w_kind w); [apply validate_pal_plain; exact V|exact I|apply validate_pal_merkle; exact V].
Qed.

(* all stages of an accepted list carry one denom *)
Theorem reachable_same_denom : forall w s0 s, reachable w ->
  nth_error (w_stages w) 0 = Some s0 -> In s (w_stages w) -> s_denom s = s_denom s0.
Proof.
  intros w s0 s R H0 Hs. destruct (reachable_kind_valid w R) as [E|V].
  - rewrite E in Hs. destruct Hs.
  - unfold validate_common in V. repeat (apply andb_true_iff in V; destruct V as [V ?]).
    destruct (w_stages w) as [|x r]; [destruct Hs|]. cbn in H0. inversion H0; subst.
    match goal with Hq : same_denom _ = true |- _ => cbn [same_denom] in Hq; rewrite forallb_forall in Hq; specialize (Hq s Hs) end.
    lia.
Qed.

(* on every state a history can reach, without side conditions *)
Theorem remove_stage_reachable : forall w now sender id w',
  reachable w -> step w now (RemoveStage sender id) = Ok w' ->
  let k := N.to_nat id in
  (exists s, nth_error (w_stages w) k = Some s /\ now < s_start s) /\
  w_stages w' = firstn k (w_stages w) /\
  (forall st a, (k <= st)%nat -> mem_get (w_mem w') st a = None) /\
  (forall st a, (st < k)%nat -> mem_get (w_mem w') st a = mem_get (w_mem w) st a).
Proof.
  intros w now sender id w' R H. destruct (reachable_inv w R) as [_ MI].
  destruct (remove_stage_spec _ _ _ _ _ H MI) as [A [B [_ [C [D _]]]]]. cbv zeta. auto.
Qed.

(* ---------- stage identity: positions and member lists never shift ---------- *)

Lemma nth_error_firstn_lt : forall {A} n (l : list A) i, (i < n)%nat ->
  nth_error (firstn n l) i = nth_error l i.
Proof.
  induction n as [|n IH]; intros l i Hlt; [lia|].
  destruct l as [|a r]; [reflexivity|]. destruct i as [|i]; cbn; [reflexivity|]. apply IH. lia.
Qed.

(* add_stage only ever appends: the new window starts no earlier than every existing
   stage ends, every existing stage keeps its position, its data and its member entries *)
Theorem add_stage_appends : forall w now sender s ms w',
  step w now (AddStage sender s ms) = Ok w' ->
  w_stages w' = w_stages w ++ [s] /\
  (forall si, In si (w_stages w) -> s_end si <= s_start s) /\
  (forall i, (i < length (w_stages w))%nat ->
     nth_error (w_stages w') i = nth_error (w_stages w) i /\
     forall a, mem_get (w_mem w') i a = mem_get (w_mem w) i a).
Proof.
  intros w now sender s ms w' H. cbn [step] in H.
  destruct (add_stage_ok _ _ _ _ _ _ H) as [_ [_ [E [_ [V [_ [_ [_ F]]]]]]]].
  destruct (validate_stages_inv _ _ _ V) as [[_ [_ W2]] _].
  split; [exact E|]. split.
  - intros si Hin. apply In_nth_error in Hin. destruct Hin as [i Hi].
    assert (Hl : (i < length (w_stages w))%nat) by (apply nth_error_Some; congruence).
    apply (W2 i (length (w_stages w)) si s Hl).
    + rewrite nth_error_app1 by exact Hl. exact Hi.
    + rewrite nth_error_app2 by lia. rewrite Nat.sub_diag. reflexivity.
  - intros i Hl. split; [rewrite E; apply nth_error_app1; exact Hl|].
    intros a. apply F. lia.
Qed.

(* every accepted operation: a stage position that exists before and after holds the same
   stage (unless it is the one being updated) and the same member entries (unless it is the
   one whose members are being edited) *)
Theorem stage_identity_stable : forall w now o w', step w now o = Ok w' ->
  forall i, (i < length (w_stages w))%nat -> (i < length (w_stages w'))%nat ->
  (match o with UpdateStage _ id _ _ _ _ _ _ => i <> N.to_nat id | _ => True end ->
     nth_error (w_stages w') i = nth_error (w_stages w) i) /\
  (match o with AddMembers _ id _ | RemoveMembers _ id _ => i <> N.to_nat id | _ => True end ->
     forall a, mem_get (w_mem w') i a = mem_get (w_mem w) i a).
Proof.
  intros w now o w' H i Hl Hl'. destruct o.
  - destruct (add_stage_appends _ _ _ _ _ _ H) as [_ [_ F]]. destruct (F i Hl). split; auto.
  - cbn [step] in H. destruct (remove_stage_ok _ _ _ _ _ H) as [_ [_ [s [_ [_ [E [M _]]]]]]].
    rewrite E, firstn_length in Hl'. split; intros _.
    + rewrite E. apply nth_error_firstn_lt. lia.
    + intros a. rewrite M. apply mem_get_drop_below. lia.
  - pose proof (update_stage_frame _ _ _ _ _ _ _ _ _ _ _ H) as [_ [F [M _]]].
    split; [intros Hne; apply F; exact Hne|intros _ a; rewrite M; reflexivity].
  - pose proof (member_edits_frame _ _ _ _ H) as [E F]. cbn beta iota in *.
    split; [intros _; rewrite E; reflexivity|intros Hne a; apply F; exact Hne].
  - pose proof (member_edits_frame _ _ _ _ H) as [E [_ F]]. cbn beta iota in *.
    split; [intros _; rewrite E; reflexivity|intros Hne a; apply F; exact Hne].
Qed.

(* ---------- fixtures for the Examples of props/C13.v ---------- *)
Definition T : N := 1647032401000000000.
Definition st3 : list stage :=
  [mkStage 0 (T + 10) (T + 20) 0 100 1 None; mkStage 1 (T + 20) (T + 30) 0 107 2 (Some 51);
   mkStage 2 (T + 30) (T + 40) 0 114 3 None].
Definition msg3 : inst :=
  mkInst st3 [[(100, 1); (110, 1)]; [(101, 1); (110, 1)]; [(102, 1)]] 20 None [] true [1] 100000000.
Definition w3 : wl := match instantiate KPlain T msg3 with Ok w => w | Err => mkWl KPlain [] [] [] 0 0 None [] [] end.

