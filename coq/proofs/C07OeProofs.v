(* C07 part 2 — price rules of the three open-edition minters (MinterOpen.ostep) and the
   price / denom clause of creation through the factories (Factory.factory_create).
   There is no discount on the open-edition minters: the public buyer is charged the
   public price itself, so "charged <= public" holds without exception there. *)
From LP Require Import Num Pay Sg1 MinterVending MinterOpen Factory CreatePrice MinterVendingProofs MinterOpenProofs C07Proofs.
From Coq Require Import ZArith Lia ZifyN ZifyBool.
Local Open Scope N_scope.

Lemma o_admin_sender s e : negb (o_is_admin s e) = false -> e_sender e = o_admin s.
Proof. unfold o_is_admin. intros H. apply negb_false_iff in H. apply N.eqb_eq in H. exact H. Qed.

(* ---------- UpdateMintPrice ---------- *)
Lemma o_update_price_ok vr s e fp wv p s' ms :
  ostep vr s e fp wv (EUpdateMintPrice p) = Ok (s', ms) ->
  e_sender e = o_admin s /\ e_funds e = [] /\
  (forall en, o_end s = Some en -> e_now e < en) /\
  ofp_min_price fp <= p /\
  (o_start s <= e_now e -> p < o_price s) /\
  (o_num_tokens s = None -> p <> 0) /\
  s' = o_set_config s (o_pal s) (o_whitelist s) (o_start s) (o_end s) p /\
  ms = [].
Proof.
  cbn [ostep]. intros H. bind_in H u Hnp. apply nonpayable_ok in Hnp.
  destruct (negb (o_is_admin s e)) eqn:Ea; [ discriminate | ]. apply o_admin_sender in Ea.
  destruct (o_ended s (e_now e)) eqn:Ee; [ discriminate | ].
  destruct ((o_start s <=? e_now e) && (o_price s <=? p)) eqn:Eb; [ discriminate | ].
  destruct (p <? ofp_min_price fp) eqn:Ec; [ discriminate | ].
  destruct ((match o_num_tokens s with None => true | Some _ => false end) && (p =? 0)) eqn:Ez; [ discriminate | ].
  inv H. split; [ exact Ea | ]. split; [ exact Hnp | ]. split.
  { intros en Hen. unfold o_ended in Ee. rewrite Hen in Ee. lia. }
  split; [ lia | ]. split; [ lia | ]. split; [ | split; reflexivity ].
  intros Hn. rewrite Hn in Ez. cbn [andb] in Ez. lia.
Qed.

(* ---------- SetWhitelist ---------- *)
Lemma o_set_whitelist_ok vr s e fp wv wok w newview s' ms :
  ostep vr s e fp wv (ESetWhitelist wok w newview) = Ok (s', ms) ->
  e_sender e = o_admin s /\ e_funds e = [] /\
  e_now e < o_start s /\
  (o_whitelist s <> None -> exists v, wv = Some v /\ wv_active v = false) /\
  (exists nv, newview = Some nv /\ wv_active nv = false /\
              ofp_min_price fp <= wv_price nv /\
              wv_denom nv = ofp_min_denom fp /\
              wv_denom nv = o_denom s) /\
  s' = o_set_config s (o_pal s) (Some w) (o_start s) (o_end s) (o_price s) /\
  ms = [].
Proof.
  cbn [ostep]. intros H. bind_in H u Hnp. apply nonpayable_ok in Hnp.
  destruct (negb (o_is_admin s e)) eqn:Ea; [ discriminate | ]. apply o_admin_sender in Ea.
  destruct (negb (e_now e <? o_start s)) eqn:Eb; [ discriminate | ].
  bind_in H u2 Hold.
  destruct (negb wok); [ discriminate | ].
  destruct newview as [nv|]; [ | discriminate ].
  destruct (wv_active nv) eqn:Eact; [ discriminate | ].
  destruct (negb (wv_denom nv =? o_denom s)) eqn:Ef; [ discriminate | ].
  destruct (wv_price nv <? ofp_min_price fp) eqn:Ep; [ discriminate | ].
  destruct (negb (ofp_min_denom fp =? wv_denom nv)) eqn:Ed; [ discriminate | ].
  inv H. split; [ exact Ea | ]. split; [ exact Hnp | ]. split; [ lia | ]. split.
  - intros Hw. destruct (o_whitelist s) as [w0|]; [ | congruence ].
    destruct wv as [v|]; [ | discriminate ]. exists v. split; [ reflexivity | ].
    destruct u2. apply guard_ok in Hold. apply negb_true_iff in Hold. exact Hold.
  - split; [ | split; reflexivity ].
    exists nv. split; [ reflexivity | ]. split; [ exact Eact | ]. split; [ lia | ]. split; lia.
Qed.

(* ---------- a mint changes none of the price fields, and pays the quoted coin ---------- *)
Lemma o_bump_counts_cfg s e wv isp s1 :
  o_bump_counts s e wv isp = Ok s1 ->
  o_price s1 = o_price s /\ o_denom s1 = o_denom s /\ o_start s1 = o_start s /\ o_end s1 = o_end s /\
  o_admin s1 = o_admin s /\ o_whitelist s1 = o_whitelist s /\ o_num_tokens s1 = o_num_tokens s.
Proof.
  unfold o_bump_counts. intros H. destruct isp.
  - bind_in H c Hc. inv H. cbn. repeat split.
  - destruct (o_whitelist s) as [w|] eqn:Ew; [ | discriminate ].
    destruct wv as [v|]; [ | discriminate ].
    bind_in H c3 Hc3. destruct c3 as [[cnt tiered] stage].
    bind_in H c Hc.
    destruct tiered.
    + destruct stage as [st|]; [ | discriminate ].
      destruct st as [|st]; [ discriminate | ].
      destruct st as [st|st|]; try (destruct st; try discriminate);
        bind_in H k Hk; inv H; cbn; repeat split; auto.
    + inv H. cbn. repeat split; auto.
Qed.

Lemma o_execute_mint_cfg vr s e fp wv adm rcp isp s' ms :
  o_execute_mint vr s e fp wv adm rcp isp = Ok (s', ms) ->
  (o_price s' = o_price s /\ o_denom s' = o_denom s /\ o_start s' = o_start s /\ o_end s' = o_end s /\
   o_admin s' = o_admin s /\ o_whitelist s' = o_whitelist s /\ o_num_tokens s' = o_num_tokens s) /\
  exists amount dn, o_mint_price s fp wv adm = Ok (amount, dn) /\ may_pay (e_funds e) dn = Ok amount.
Proof.
  unfold o_execute_mint. intros H.
  destruct (match o_mintable s with Some 0 => true | _ => false end); [ discriminate | ].
  bind_in H pr Hpr. destruct pr as [amount dn].
  bind_in H payment Hpay.
  destruct (negb (payment =? amount)) eqn:E; [ discriminate | ].
  apply negb_false_iff in E. apply N.eqb_eq in E. subst payment.
  match type of H with (if ?c then _ else _) = _ => destruct c; [ discriminate | ] end.
  bind_in H fmsgs Hf. bind_in H tid Htid. bind_in H s1 Hs1. bind_in H total' Ht.
  bind_in H airdrops' Ha. bind_in H amt Hamt. inv H.
  apply o_bump_counts_cfg in Hs1. split; [ cbn; exact Hs1 | ].
  exists amount, dn. split; assumption.
Qed.

(* ---------- frame ---------- *)
Lemma ostep_frame vr s e fp wv o s' ms :
  ostep vr s e fp wv o = Ok (s', ms) ->
  o_denom s' = o_denom s /\ o_admin s' = o_admin s /\
  match o with
  | EUpdateMintPrice p => o_price s' = p /\ o_start s' = o_start s
  | EUpdateStartTime t => o_price s' = o_price s /\ o_start s' = t
  | _ => o_price s' = o_price s /\ o_start s' = o_start s
  end.
Proof.
  intros H.
  assert (Hcore : forall adm rcp isp,
             o_execute_mint vr s e fp wv adm rcp isp = Ok (s', ms) ->
             o_denom s' = o_denom s /\ o_admin s' = o_admin s /\ o_price s' = o_price s /\ o_start s' = o_start s).
  { intros adm rcp isp Hc. apply o_execute_mint_cfg in Hc. destruct Hc as ((P & D & St & _ & A & _) & _). auto. }
  destruct o; cbn [ostep] in H; repeat step_hyp H; try (eapply Hcore; eassumption);
    inv H; cbn; repeat split.
Qed.

(* ---------- histories ---------- *)
Lemma orun_cons vr s c cs : orun vr s (c :: cs) = orun vr (o_apply vr s c) cs.
Proof. reflexivity. Qed.
Lemma orun_app vr cs1 cs2 s : orun vr s (cs1 ++ cs2) = orun vr (orun vr s cs1) cs2.
Proof. unfold orun. apply fold_left_app. Qed.

Theorem orun_denom vr cs : forall s, o_denom (orun vr s cs) = o_denom s.
Proof.
  induction cs as [|c cs IH]; intros s; [ reflexivity | ].
  rewrite orun_cons, IH. unfold o_apply.
  destruct (ostep vr s (oc_env c) (oc_fp c) (oc_wv c) (oc_op c)) as [[s' ms]|] eqn:E; [ | reflexivity ].
  apply ostep_frame in E. tauto.
Qed.

Lemma ostep_after_start vr s e fp wv o s' ms :
  ostep vr s e fp wv o = Ok (s', ms) -> o_start s <= e_now e ->
  o_price s' <= o_price s /\ o_start s' = o_start s.
Proof.
  intros H Hst. pose proof (ostep_frame _ _ _ _ _ _ _ _ H) as (_ & _ & F).
  destruct o; try (destruct F as (P & S); rewrite P, S; split; [ lia | reflexivity ]).
  - apply o_update_price_ok in H. destruct H as (_ & _ & _ & _ & Hlow & _).
    destruct F as (P & S). rewrite P, S. split; [ specialize (Hlow Hst); lia | reflexivity ].
  - exfalso. cbn [ostep] in H. bind_in H u Hnp.
    destruct (negb (o_is_admin s e)); [ discriminate | ].
    destruct (o_start s <=? e_now e) eqn:E; [ discriminate | ]. lia.
Qed.

Definition o_at_or_after (t : N) (cs : list ocall) : Prop := Forall (fun c => t <= e_now (oc_env c)) cs.

Theorem o_price_nonincreasing_after_start vr cs : forall s t,
  o_start s <= t -> o_at_or_after t cs ->
  o_price (orun vr s cs) <= o_price s /\ o_start (orun vr s cs) = o_start s.
Proof.
  induction cs as [|c cs IH]; intros s t Hst Hall; [ cbn; split; [ lia | reflexivity ] | ].
  inversion Hall as [|c0 cs0 Hc Hcs]; subst. rewrite orun_cons.
  assert (Hone : o_price (o_apply vr s c) <= o_price s /\ o_start (o_apply vr s c) = o_start s).
  { unfold o_apply. destruct (ostep vr s (oc_env c) (oc_fp c) (oc_wv c) (oc_op c)) as [[s' ms]|] eqn:E.
    - eapply ostep_after_start; [ exact E | lia ].
    - split; [ lia | reflexivity ]. }
  destruct Hone as [Hp Hs].
  destruct (IH (o_apply vr s c) t) as [Hp' Hs']; [ lia | exact Hcs | ].
  split; [ lia | congruence ].
Qed.

Theorem o_public_price_nonincreasing vr s0 cs1 cs2 t :
  o_start (orun vr s0 cs1) <= t -> o_at_or_after t cs2 ->
  o_price (orun vr s0 (cs1 ++ cs2)) <= o_price (orun vr s0 cs1).
Proof.
  intros Hst Hall. rewrite orun_app. eapply o_price_nonincreasing_after_start; eassumption.
Qed.

(* ---------- the price query and what a mint is charged ---------- *)
Lemma oq_current_is_mint_price s fp wv v :
  oq_mint_price s fp wv = Ok v ->
  o_mint_price s fp wv false = Ok (opv_current v) /\ opv_public v = (o_price s, o_denom s).
Proof.
  unfold oq_mint_price. intros H. bind_in H cur Hc. bind_in H wlp Hw. inv H. cbn. split; [ exact Hc | reflexivity ].
Qed.

Definition o_wl_inactive (s : ostate) (wv : option wlview) : Prop :=
  o_whitelist s = None \/ exists v, wv = Some v /\ wv_active v = false.

Lemma o_public_quote s fp wv :
  o_wl_inactive s wv -> o_mint_price s fp wv false = Ok (o_price s, o_denom s).
Proof.
  unfold o_mint_price. intros [Hn | (v & Hv & Ha)].
  - rewrite Hn. reflexivity.
  - subst wv. rewrite Ha. destruct (o_whitelist s); reflexivity.
Qed.

Lemma o_whitelist_quote s fp w v :
  o_whitelist s = Some w -> wv_active v = true ->
  o_mint_price s fp (Some v) false = Ok (wv_price v, wv_denom v) /\
  exists pv, oq_mint_price s fp (Some v) = Ok pv /\ opv_current pv = (wv_price v, wv_denom v) /\
             opv_whitelist pv = Some (wv_price v, wv_denom v).
Proof.
  intros Hw Ha. unfold oq_mint_price, o_mint_price. rewrite Hw, Ha. cbn. split; [ reflexivity | ].
  eexists. split; [ reflexivity | ]. cbn. split; reflexivity.
Qed.

Theorem o_mint_pays_quote vr s e fp wv stage proof alloc s' ms :
  ostep vr s e fp wv (EMint stage proof alloc) = Ok (s', ms) ->
  exists p d, o_mint_price s fp wv false = Ok (p, d) /\ may_pay (e_funds e) d = Ok p.
Proof.
  cbn [ostep]. intros H. bind_in H isp Hisp.
  destruct (isp && (e_now e <? o_start s)); [ discriminate | ].
  destruct (o_ended s (e_now e)); [ discriminate | ].
  destruct (isp && (o_pal s <=? get (o_public s) (e_sender e))); [ discriminate | ].
  apply o_execute_mint_cfg in H. destruct H as (_ & H). exact H.
Qed.

Theorem o_mint_other_payment_fails vr s e fp wv stage proof alloc p d :
  o_mint_price s fp wv false = Ok (p, d) -> may_pay (e_funds e) d <> Ok p ->
  ostep vr s e fp wv (EMint stage proof alloc) = Err.
Proof.
  intros Hq Hne. destruct (ostep vr s e fp wv (EMint stage proof alloc)) as [[s' ms]|] eqn:E; [ | reflexivity ].
  apply o_mint_pays_quote in E. destruct E as (p' & d' & Hq' & Hpay).
  rewrite Hq in Hq'. inv Hq'. contradiction.
Qed.

(* no discount exists: a public buyer pays the public price itself *)
Theorem o_public_mint_pays_public_price vr s e fp wv stage proof alloc s' ms :
  o_wl_inactive s wv ->
  ostep vr s e fp wv (EMint stage proof alloc) = Ok (s', ms) ->
  may_pay (e_funds e) (o_denom s) = Ok (o_price s).
Proof.
  intros Hw H. apply o_mint_pays_quote in H. destruct H as (p & d & Hq & Hpay).
  rewrite (o_public_quote _ _ _ Hw) in Hq. inv Hq. exact Hpay.
Qed.

(* ---------- creation through the factories: the price / denom clause ---------- *)
Lemma factory_create_open_price self p now funds r ms :
  factory_create FOpen self p now funds r = Ok ms ->
  g_min_price p <= r_price r /\ r_price_denom r = g_min_denom p /\ (r_num_tokens r = None -> r_price r <> 0).
Proof.
  unfold factory_create. intros H. bind_in H paid Hp. bind_in H u Hg.
  destruct (negb (existsb (N.eqb (r_coll_code r)) (g_allowed p))); [ discriminate | ].
  destruct (g_frozen p); [ discriminate | ].
  bind_in H ms0 Hms.
  destruct (negb (r_nft_ok r)); [ discriminate | ].
  match type of H with (if ?c then _ else _) = _ => destruct c; [ discriminate | ] end.
  destruct ((r_pal r <? 1) || (g_max_pal p <? r_pal r)); [ discriminate | ].
  destruct (r_start r <=? now); [ discriminate | ].
  match type of H with (if ?c then _ else _) = _ => destruct c; [ discriminate | ] end.
  match type of H with (if ?c then _ else _) = _ => destruct c; [ discriminate | ] end.
  destruct (r_price r <? g_min_price p) eqn:E1; [ discriminate | ].
  destruct (negb (g_min_denom p =? r_price_denom r)) eqn:E2; [ discriminate | ].
  match type of H with (if ?c then _ else _) = _ => destruct c eqn:E3; [ discriminate | ] end.
  split; [ lia | ]. split; [ lia | ].
  intros Hn. rewrite Hn in E3. lia.
Qed.

Lemma factory_create_vending_price self p now funds r ms :
  factory_create FVending self p now funds r = Ok ms ->
  g_min_price p <= r_price r /\ r_price_denom r = g_min_denom p.
Proof.
  unfold factory_create. intros H. bind_in H paid Hp. bind_in H u Hg.
  destruct (negb (existsb (N.eqb (r_coll_code r)) (g_allowed p))); [ discriminate | ].
  destruct (g_frozen p); [ discriminate | ].
  bind_in H ms0 Hms.
  destruct (r_num_tokens r) as [n|]; [ | discriminate ].
  destruct ((n =? 0) || (g_max_tokens p <? n)); [ discriminate | ].
  destruct ((r_pal r =? 0) || (g_max_pal p <? r_pal r)); [ discriminate | ].
  destruct (negb (g_min_denom p =? r_price_denom r)) eqn:E2; [ discriminate | ].
  destruct (r_price r <? g_min_price p) eqn:E1; [ discriminate | ].
  split; lia.
Qed.

(* ---------- D8 on the open-edition minters ---------- *)
Theorem o_update_price_denom vr d0 s0 cs e fp wv p s' ms :
  o_denom s0 = d0 ->                      (* the factory's minimum denom at creation (factory_create_open_price) *)
  ofp_min_denom fp = d0 ->                (* ... is still the denom of the minimum in force *)
  ostep vr (orun vr s0 cs) e fp wv (EUpdateMintPrice p) = Ok (s', ms) ->
  o_price s' = p /\ o_denom s' = ofp_min_denom fp.
Proof.
  intros Hc Hd H. apply ostep_frame in H. destruct H as (D & _ & P & _). rewrite orun_denom in D.
  split; [ exact P | congruence ].
Qed.

(* ---------- creation: the price denom is the minimum's denom, whatever the amounts ---------- *)
(* in particular for a minimum of 0 (a free-mint factory) and for a price of 0 *)
Theorem creation_denom_is_minimum_denom :
  (forall fp price d, create_price_ok fp price d = true -> d = fp_min_denom fp) /\
  (forall m md price d capped, oe_create_price_ok m md price d capped = true -> d = md) /\
  (forall self p now funds r ms, factory_create FVending self p now funds r = Ok ms -> r_price_denom r = g_min_denom p) /\
  (forall self p now funds r ms, factory_create FOpen self p now funds r = Ok ms -> r_price_denom r = g_min_denom p).
Proof.
  split; [ | split; [ | split ] ].
  - intros fp price d H. apply create_price_ok_spec in H. tauto.
  - intros m md price d capped H. unfold oe_create_price_ok in H. lia.
  - intros self p now funds r ms H. apply factory_create_vending_price in H. tauto.
  - intros self p now funds r ms H. apply factory_create_open_price in H. tauto.
Qed.
