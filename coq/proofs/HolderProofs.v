(* The holder-side frame (model/Holder.v): whatever holders burn or transfer on the
   collection between minter calls, the minter's state and the ids it issues are those of
   the minter calls alone; the collection never holds a token that was not issued. *)
From LP Require Import Holder.
From Coq Require Import Lia.
Local Open Scope N_scope.

Section Frame.
  Variables St Call : Type.
  Variable apply : St -> Call -> St.
  Variable emit : St -> Call -> list (N * addr).

  Notation wapply := (wapply St Call apply emit).
  Notation wrun := (wrun St Call apply emit).
  Notation wissued := (wissued St Call apply emit).
  Notation issued := (issued St Call apply emit).
  Notation minter_calls := (minter_calls Call).

  Lemma holder_frame w h : fst (wapply w (WHolder h)) = fst w.
  Proof. reflexivity. Qed.

  (* one world step: the minter side does not look at the collection *)
  Lemma wapply_ignores_collection s c c' x : fst (wapply (s, c) x) = fst (wapply (s, c') x).
  Proof. destruct x; reflexivity. Qed.

  Theorem wrun_minter_state xs : forall s c,
    fst (wrun (s, c) xs) = fold_left apply (minter_calls xs) s.
  Proof.
    induction xs as [|x xs IH]; intros s c; cbn [Holder.wrun fold_left Holder.minter_calls]; [ reflexivity | ].
    destruct x as [k|h]; cbn [Holder.wapply fst snd Holder.minter_calls fold_left]; apply IH.
  Qed.

  Theorem wissued_minter_calls xs : forall s, wissued s xs = issued s (minter_calls xs).
  Proof.
    induction xs as [|x xs IH]; intros s; [ reflexivity | ].
    destruct x as [k|h]; cbn [Holder.wissued Holder.minter_calls Holder.issued]; rewrite IH; reflexivity.
  Qed.

  (* the collection holds only issued ids *)
  Lemma coll_remove_incl c t x : In x (map fst (coll_remove c t)) -> In x (map fst c).
  Proof.
    induction c as [|[i o] r IH]; cbn [coll_remove map fst In]; [ tauto | ].
    destruct (i =? t); cbn [map fst In]; tauto.
  Qed.
  Lemma coll_set_owner_ids c t o : map fst (coll_set_owner c t o) = map fst c.
  Proof.
    induction c as [|[i o'] r IH]; cbn [coll_set_owner map fst]; [ reflexivity | ].
    destruct (i =? t); cbn [map fst]; [ reflexivity | rewrite IH; reflexivity ].
  Qed.
  Lemma holder_step_incl c h x : In x (map fst (holder_step c h)) -> In x (map fst c).
  Proof.
    destruct h as [who t|who to t]; cbn [holder_step]; destruct (coll_owner c t) as [o|]; try tauto;
      destruct (o =? who); try tauto.
    - apply coll_remove_incl.
    - rewrite coll_set_owner_ids. tauto.
  Qed.

  Theorem live_tokens_were_issued xs : forall s c x,
    In x (map fst (snd (wrun (s, c) xs))) -> In x (map fst c) \/ In x (map fst (wissued s xs)).
  Proof.
    induction xs as [|y xs IH]; intros s c x; cbn [Holder.wrun fold_left Holder.wissued]; [ cbn; tauto | ].
    destruct y as [k|h]; cbn [Holder.wapply fst snd].
    - intros H. apply IH in H. rewrite map_app, !in_app_iff in *. tauto.
    - intros H. apply IH in H. destruct H as [H|H]; [ left; eapply holder_step_incl; exact H | right; exact H ].
  Qed.
End Frame.
