(* C07 — price rules of the six vending minters: per-operation guards and effects,
   history theorems (no increase after the start, discount cooldowns, denom never
   changes), honesty of the price query, and the two recorded defects (D4: a price cut
   below a standing discount; D8: governance of a non-native minimum). *)
From LP Require Import Num Pay Sg1 MinterVending CreatePrice MinterVendingProofs Sg1Proofs.
From Coq Require Import ZArith Lia ZifyN ZifyBool.
Local Open Scope N_scope.

(* ---------- small facts ---------- *)
Lemma nonpayable_ok funds u : nonpayable funds = Ok u -> funds = [].
Proof. destruct funds; cbn; [ reflexivity | discriminate ]. Qed.

Lemma plus_seconds_ok t s r : plus_seconds t s = Ok r -> r = t + s * 1000000000.
Proof.
  unfold plus_seconds, NANOS. intros H.
  destruct (U64_MAX <? s * 1000000000); [ discriminate | ].
  destruct (U64_MAX <? t + s * 1000000000); [ discriminate | ].
  inv H. reflexivity.
Qed.

Lemma admin_sender s e : negb (is_admin_sender s e) = false -> e_sender e = s_admin s.
Proof. unfold is_admin_sender. intros H. apply negb_false_iff in H. apply N.eqb_eq in H. exact H. Qed.

(* ---------- the four price-setting operations: guards and exact effect ---------- *)
Lemma update_price_ok vr s e fp wv p s' ms :
  step vr s e fp wv (OUpdateMintPrice p) = Ok (s', ms) ->
  e_sender e = s_admin s /\ e_funds e = [] /\
  fp_min_price fp <= p /\
  (s_start s <= e_now e -> p < s_price s) /\
  s' = set_config s (s_pal s) (s_whitelist s) (s_start s) p (s_discount s) (s_last_discount s) /\
  ms = [].
Proof.
  cbn [step]. intros H. bind_in H u Hnp. apply nonpayable_ok in Hnp.
  destruct (negb (is_admin_sender s e)) eqn:Ea; [ discriminate | ]. apply admin_sender in Ea.
  destruct ((s_start s <=? e_now e) && (s_price s <=? p)) eqn:Eb; [ discriminate | ].
  destruct (p <? fp_min_price fp) eqn:Ec; [ discriminate | ].
  inv H. repeat split; auto; lia.
Qed.

Lemma update_discount_ok vr s e fp wv d s' ms :
  step vr s e fp wv (OUpdateDiscountPrice d) = Ok (s', ms) ->
  e_sender e = s_admin s /\ e_funds e = [] /\
  s_start s <= e_now e /\
  d <= s_price s /\
  fp_min_price fp <= d /\
  s_last_discount s + 43200 * 1000000000 <= e_now e /\
  s' = set_config s (s_pal s) (s_whitelist s) (s_start s) (s_price s) (Some d) (e_now e) /\
  ms = [].
Proof.
  cbn [step]. intros H. bind_in H u Hnp. apply nonpayable_ok in Hnp.
  destruct (negb (is_admin_sender s e)) eqn:Ea; [ discriminate | ]. apply admin_sender in Ea.
  destruct (e_now e <? s_start s) eqn:Eb; [ discriminate | ].
  bind_in H t12 Ht. apply plus_seconds_ok in Ht.
  destruct (e_now e <? t12) eqn:Ec; [ discriminate | ].
  destruct (s_price s <? d) eqn:Ed; [ discriminate | ].
  destruct (d <? fp_min_price fp) eqn:Ee; [ discriminate | ].
  inv H. repeat split; auto; lia.
Qed.

Lemma remove_discount_ok vr s e fp wv s' ms :
  step vr s e fp wv ORemoveDiscountPrice = Ok (s', ms) ->
  e_sender e = s_admin s /\ e_funds e = [] /\
  s_last_discount s + 3600 * 1000000000 <= e_now e /\
  s' = set_config s (s_pal s) (s_whitelist s) (s_start s) (s_price s) None (e_now e) /\
  ms = [].
Proof.
  cbn [step]. intros H. bind_in H u Hnp. apply nonpayable_ok in Hnp.
  destruct (negb (is_admin_sender s e)) eqn:Ea; [ discriminate | ]. apply admin_sender in Ea.
  bind_in H t1 Ht. apply plus_seconds_ok in Ht.
  destruct (e_now e <? t1) eqn:Ec; [ discriminate | ].
  inv H. repeat split; auto; lia.
Qed.

Lemma set_whitelist_ok vr s e fp wv wok w newview s' ms :
  step vr s e fp wv (OSetWhitelist wok w newview) = Ok (s', ms) ->
  e_sender e = s_admin s /\ e_funds e = [] /\
  e_now e < s_start s /\
  (s_whitelist s <> None -> exists v, wv = Some v /\ wv_active v = false) /\
  (exists nv, newview = Some nv /\ wv_active nv = false /\
              fp_min_price fp <= wv_price nv /\
              wv_denom nv = fp_min_denom fp /\
              (v_flex vr = false -> wv_denom nv = s_denom s)) /\
  s' = set_config s (s_pal s) (Some w) (s_start s) (s_price s) (s_discount s) (s_last_discount s) /\
  ms = [].
Proof.
  cbn [step]. intros H. bind_in H u Hnp. apply nonpayable_ok in Hnp.
  destruct (negb (is_admin_sender s e)) eqn:Ea; [ discriminate | ]. apply admin_sender in Ea.
  destruct (negb (e_now e <? s_start s)) eqn:Eb; [ discriminate | ].
  bind_in H u2 Hold.
  destruct (negb wok); [ discriminate | ].
  destruct newview as [nv|]; [ | discriminate ].
  destruct (wv_active nv) eqn:Eact; [ discriminate | ].
  destruct (negb (v_flex vr) && negb (wv_denom nv =? s_denom s)) eqn:Ef; [ discriminate | ].
  destruct (wv_price nv <? fp_min_price fp) eqn:Ep; [ discriminate | ].
  destruct (negb (fp_min_denom fp =? wv_denom nv)) eqn:Ed; [ discriminate | ].
  inv H. split; [ exact Ea | ]. split; [ exact Hnp | ]. split; [ lia | ]. split.
  - intros Hw. destruct (s_whitelist s) as [w0|]; [ | congruence ].
    destruct wv as [v|]; [ | discriminate ]. exists v. split; [ reflexivity | ].
    destruct u2. apply guard_ok in Hold. apply negb_true_iff in Hold. exact Hold.
  - split; [ | split; reflexivity ].
    exists nv. split; [ reflexivity | ]. split; [ exact Eact | ]. split; [ lia | ]. split; [ lia | ].
    intros Hfl. rewrite Hfl in Ef. cbn [negb andb] in Ef. lia.
Qed.

(* ---------- a mint changes none of the price fields ---------- *)
Lemma mint_core_cfg vr s e fp wv adm rcp tok choice isp s' ms :
  execute_mint_core vr s e fp wv adm rcp tok choice isp = Ok (s', ms) ->
  s_price s' = s_price s /\ s_denom s' = s_denom s /\ s_discount s' = s_discount s /\
  s_start s' = s_start s /\ s_last_discount s' = s_last_discount s /\ s_admin s' = s_admin s /\
  s_whitelist s' = s_whitelist s.
Proof.
  unfold execute_mint_core. intros H.
  destruct (s_mintable s =? 0); [ discriminate | ].
  bind_in H u1 Hg.
  bind_in H pr Hpr. destruct pr as [amount dn].
  bind_in H payment Hpay.
  destruct (negb (payment =? amount)); [ discriminate | ].
  match type of H with (if ?c then _ else _) = _ => destruct c; [ discriminate | ] end.
  bind_in H fmsgs Hfm.
  bind_in H tid Htid.
  bind_in H pos Hpos.
  bind_in H s1 Hs1.
  bind_in H smsgs Hsm. inv H.
  destruct isp.
  - inv Hs1. cbn. repeat split.
  - destruct wv as [v|]; [ | discriminate ].
    bind_in Hs1 c3 Hc3. destruct c3 as [[cnt tiered] stage].
    destruct tiered.
    + destruct stage as [st|]; [ | discriminate ].
      destruct st as [|st]; [ discriminate | ].
      destruct st as [st|st|]; try (destruct st; try discriminate); inv Hs1; cbn; repeat split.
    + inv Hs1. cbn. repeat split.
Qed.

(* a successful mint attached exactly the coin mint_price asked for *)
Lemma mint_core_paid vr s e fp wv adm rcp tok choice isp s' ms :
  execute_mint_core vr s e fp wv adm rcp tok choice isp = Ok (s', ms) ->
  exists amount dn, mint_price s fp wv adm = Ok (amount, dn) /\ may_pay (e_funds e) dn = Ok amount.
Proof.
  unfold execute_mint_core. intros H.
  destruct (s_mintable s =? 0); [ discriminate | ].
  bind_in H u1 Hg.
  bind_in H pr Hpr. destruct pr as [amount dn].
  bind_in H payment Hpay.
  destruct (negb (payment =? amount)) eqn:E; [ discriminate | ].
  apply negb_false_iff in E. apply N.eqb_eq in E. subst payment.
  exists amount, dn. split; assumption.
Qed.

(* ---------- frame: what each successful operation does to the price fields ---------- *)
Definition same_cfg (s s' : vstate) : Prop :=
  s_price s' = s_price s /\ s_discount s' = s_discount s /\ s_start s' = s_start s /\
  s_last_discount s' = s_last_discount s.

Lemma step_frame vr s e fp wv o s' ms :
  step vr s e fp wv o = Ok (s', ms) ->
  s_denom s' = s_denom s /\ s_admin s' = s_admin s /\
  match o with
  | OUpdateMintPrice p =>
      s_price s' = p /\ s_discount s' = s_discount s /\ s_start s' = s_start s /\
      s_last_discount s' = s_last_discount s
  | OUpdateStartTime t =>
      s_price s' = s_price s /\ s_discount s' = s_discount s /\ s_start s' = t /\
      s_last_discount s' = s_last_discount s
  | OUpdateDiscountPrice d =>
      s_price s' = s_price s /\ s_discount s' = Some d /\ s_start s' = s_start s /\
      s_last_discount s' = e_now e
  | ORemoveDiscountPrice =>
      s_price s' = s_price s /\ s_discount s' = None /\ s_start s' = s_start s /\
      s_last_discount s' = e_now e
  | _ => same_cfg s s'
  end.
Proof.
  intros H.
  assert (Hcore : forall adm rcp tok choice isp,
             execute_mint_core vr s e fp wv adm rcp tok choice isp = Ok (s', ms) ->
             s_denom s' = s_denom s /\ s_admin s' = s_admin s /\ same_cfg s s').
  { intros adm rcp tok choice isp Hc. apply mint_core_cfg in Hc.
    destruct Hc as (P & D & Di & St & L & A & _). unfold same_cfg. repeat split; assumption. }
  destruct o; cbn [step] in H; repeat step_hyp H; try (eapply Hcore; eassumption);
    inv H; unfold same_cfg; cbn; repeat split.
Qed.

(* ---------- histories ---------- *)
Lemma run_cons vr s c cs : run vr s (c :: cs) = run vr (apply_call vr s c) cs.
Proof. reflexivity. Qed.
Lemma run_app vr cs1 cs2 s : run vr s (cs1 ++ cs2) = run vr (run vr s cs1) cs2.
Proof. unfold run. apply fold_left_app. Qed.

(* the denom of the mint price never changes *)
Lemma apply_call_denom vr s c : s_denom (apply_call vr s c) = s_denom s.
Proof.
  unfold apply_call. destruct (step vr s (c_env c) (c_fp c) (c_wv c) (c_op c)) as [[s' ms]|] eqn:E; [ | reflexivity ].
  apply step_frame in E. tauto.
Qed.
Theorem run_denom vr cs : forall s, s_denom (run vr s cs) = s_denom s.
Proof.
  induction cs as [|c cs IH]; intros s; [ reflexivity | ].
  rewrite run_cons, IH. apply apply_call_denom.
Qed.

(* once the stored start time has passed, no call at that or a later instant raises the
   public price or moves the start time *)
Lemma step_after_start vr s e fp wv o s' ms :
  step vr s e fp wv o = Ok (s', ms) -> s_start s <= e_now e ->
  s_price s' <= s_price s /\ s_start s' = s_start s.
Proof.
  intros H Hst. pose proof (step_frame _ _ _ _ _ _ _ _ H) as (_ & _ & F).
  destruct o; try (destruct F as (P & _ & S & _); rewrite P, S; split; [ lia | reflexivity ]).
  - (* UpdateMintPrice *)
    apply update_price_ok in H. destruct H as (_ & _ & _ & Hlow & _).
    destruct F as (P & _ & S & _). rewrite P, S. split; [ specialize (Hlow Hst); lia | reflexivity ].
  - (* UpdateStartTime: impossible after the start *)
    exfalso. cbn [step] in H. bind_in H u Hnp.
    destruct (negb (is_admin_sender s e)); [ discriminate | ].
    destruct (s_start s <=? e_now e) eqn:E; [ discriminate | ]. lia.
Qed.

Definition at_or_after (t : N) (cs : list call) : Prop := Forall (fun c => t <= e_now (c_env c)) cs.

Theorem price_nonincreasing_after_start vr cs : forall s t,
  s_start s <= t -> at_or_after t cs ->
  s_price (run vr s cs) <= s_price s /\ s_start (run vr s cs) = s_start s.
Proof.
  induction cs as [|c cs IH]; intros s t Hst Hall; [ cbn; split; [ lia | reflexivity ] | ].
  inversion Hall as [|c0 cs0 Hc Hcs]; subst. rewrite run_cons.
  assert (Hone : s_price (apply_call vr s c) <= s_price s /\ s_start (apply_call vr s c) = s_start s).
  { unfold apply_call. destruct (step vr s (c_env c) (c_fp c) (c_wv c) (c_op c)) as [[s' ms]|] eqn:E.
    - eapply step_after_start; [ exact E | lia ].
    - split; [ lia | reflexivity ]. }
  destruct Hone as [Hp Hs].
  destruct (IH (apply_call vr s c) t) as [Hp' Hs']; [ lia | exact Hcs | ].
  split; [ lia | congruence ].
Qed.

(* the two-state form: any state of a history in which the mint has started, and any
   later state reached through calls made at or after that instant *)
Theorem public_price_nonincreasing vr s0 cs1 cs2 t :
  s_start (run vr s0 cs1) <= t -> at_or_after t cs2 ->
  s_price (run vr s0 (cs1 ++ cs2)) <= s_price (run vr s0 cs1).
Proof.
  intros Hst Hall. rewrite run_app. eapply price_nonincreasing_after_start; eassumption.
Qed.

(* ---------- discount cooldowns over histories ---------- *)
(* the accepted discount changes of a history, in order: (block time, true = set / false = removed) *)
Definition disc_event (vr : variant) (s : vstate) (c : call) : list (N * bool) :=
  match step vr s (c_env c) (c_fp c) (c_wv c) (c_op c) with
  | Ok _ =>
      match c_op c with
      | OUpdateDiscountPrice _ => [(e_now (c_env c), true)]
      | ORemoveDiscountPrice => [(e_now (c_env c), false)]
      | _ => []
      end
  | Err => []
  end.
Fixpoint disc_events (vr : variant) (s : vstate) (cs : list call) : list (N * bool) :=
  match cs with
  | [] => []
  | c :: r => disc_event vr s c ++ disc_events vr (apply_call vr s c) r
  end.

Definition gap (is_set : bool) : N := if is_set then 43200 * 1000000000 else 3600 * 1000000000.

Fixpoint spaced (last : N) (evs : list (N * bool)) : Prop :=
  match evs with
  | [] => True
  | (t, k) :: r => last + gap k <= t /\ spaced t r
  end.

Theorem discount_changes_spaced vr cs : forall s, spaced (s_last_discount s) (disc_events vr s cs).
Proof.
  induction cs as [|c cs IH]; intros s; cbn [disc_events]; [ exact I | ].
  specialize (IH (apply_call vr s c)). unfold disc_event, apply_call in *.
  destruct (step vr s (c_env c) (c_fp c) (c_wv c) (c_op c)) as [[s' ms]|] eqn:E; [ | exact IH ].
  pose proof (step_frame _ _ _ _ _ _ _ _ E) as (_ & _ & F).
  destruct (c_op c) eqn:Eo; cbn [app];
    try (destruct F as (_ & _ & _ & L); rewrite L in IH; exact IH).
  - (* set *)
    apply update_discount_ok in E. destruct E as (_ & _ & _ & _ & _ & Hc & _).
    destruct F as (_ & _ & _ & L). rewrite L in IH. cbn [spaced gap]. split; [ exact Hc | exact IH ].
  - (* remove *)
    apply remove_discount_ok in E. destruct E as (_ & _ & Hc & _).
    destruct F as (_ & _ & _ & L). rewrite L in IH. cbn [spaced gap]. split; [ exact Hc | exact IH ].
Qed.

Lemma spaced_in last evs t k : spaced last evs -> In (t, k) evs -> last + gap k <= t.
Proof.
  revert last. induction evs as [|[t0 k0] r IH]; intros last Hs Hin; [ contradiction | ].
  cbn [spaced] in Hs. destruct Hs as [H0 Hr]. destruct Hin as [Hin|Hin].
  - inv Hin. exact H0.
  - specialize (IH t0 Hr Hin). assert (0 <= gap k0) by lia. lia.
Qed.

Lemma spaced_tail last l1 t1 k1 rest : spaced last (l1 ++ (t1, k1) :: rest) -> spaced t1 rest.
Proof.
  revert last. induction l1 as [|[t0 k0] r IH]; intros last Hs; cbn [app spaced] in Hs.
  - tauto.
  - destruct Hs as [_ Hr]. eapply IH; exact Hr.
Qed.

(* any two accepted discount changes of a history: the later one comes at least 1 h
   after the earlier one, and at least 12 h after it when the later one sets a discount *)
Theorem discount_changes_pairwise vr s cs l1 t1 k1 l2 t2 k2 l3 :
  disc_events vr s cs = l1 ++ (t1, k1) :: l2 ++ (t2, k2) :: l3 ->
  t1 + gap k2 <= t2.
Proof.
  intros Hev. pose proof (discount_changes_spaced vr cs s) as Hs. rewrite Hev in Hs.
  apply spaced_tail in Hs. eapply spaced_in; [ exact Hs | ]. apply in_or_app. right. left. reflexivity.
Qed.

(* and the first one respects the anchor stored at creation *)
Theorem discount_first_change vr s cs t k :
  In (t, k) (disc_events vr s cs) -> s_last_discount s + gap k <= t.
Proof. intros Hin. eapply spaced_in; [ apply discount_changes_spaced | exact Hin ]. Qed.

(* ---------- the price query and what a mint is charged ---------- *)
Lemma query_is_mint_price s fp wv : q_current_price s fp wv = mint_price s fp wv false.
Proof. reflexivity. Qed.

Definition wl_inactive (s : vstate) (wv : option wlview) : Prop :=
  s_whitelist s = None \/ exists v, wv = Some v /\ wv_active v = false.

Lemma public_quote s fp wv :
  wl_inactive s wv -> q_current_price s fp wv = Ok (public_or_discount s, s_denom s).
Proof.
  unfold q_current_price, mint_price. intros [Hn | (v & Hv & Ha)].
  - rewrite Hn. reflexivity.
  - subst wv. rewrite Ha. destruct (s_whitelist s); reflexivity.
Qed.

Lemma whitelist_quote s fp w v :
  s_whitelist s = Some w -> wv_active v = true ->
  q_current_price s fp (Some v) = Ok (wv_price v, wv_denom v).
Proof. unfold q_current_price, mint_price. intros Hw Ha. rewrite Hw, Ha. reflexivity. Qed.

(* a Mint that succeeds attached exactly the quoted coin (same instant, same answers) *)
Theorem mint_pays_quote vr s e fp wv stage proof alloc choice s' ms :
  step vr s e fp wv (OMint stage proof alloc choice) = Ok (s', ms) ->
  exists p d, q_current_price s fp wv = Ok (p, d) /\ may_pay (e_funds e) d = Ok p.
Proof.
  cbn [step]. intros H. bind_in H isp Hisp.
  destruct (isp && (e_now e <? s_start s)); [ discriminate | ].
  destruct (isp && (s_pal s <=? get (s_public s) (e_sender e))); [ discriminate | ].
  apply mint_core_paid in H. exact H.
Qed.

(* hence any other payment is refused, whatever else holds *)
Theorem mint_other_payment_fails vr s e fp wv stage proof alloc choice p d :
  q_current_price s fp wv = Ok (p, d) -> may_pay (e_funds e) d <> Ok p ->
  step vr s e fp wv (OMint stage proof alloc choice) = Err.
Proof.
  intros Hq Hne. destruct (step vr s e fp wv (OMint stage proof alloc choice)) as [[s' ms]|] eqn:E; [ | reflexivity ].
  apply mint_pays_quote in E. destruct E as (p' & d' & Hq' & Hpay).
  rewrite Hq in Hq'. inv Hq'. contradiction.
Qed.

(* the payment guard itself: the quoted coin passes, a single coin of any other amount
   or denom does not *)
Lemma quoted_coin_passes d p : may_pay [mkCoin d p] d = Ok p.
Proof. cbn. rewrite N.eqb_refl. reflexivity. Qed.
Lemma other_coin_fails d p d' x : (d', x) <> (d, p) -> may_pay [mkCoin d' x] d <> Ok p.
Proof.
  cbn. intros Hne. destruct (d' =? d) eqn:E; [ | discriminate ].
  apply N.eqb_eq in E. subst d'. intros H. inv H. apply Hne. reflexivity.
Qed.

(* ---------- D4: charged <= public, outside the recorded class ---------- *)
Definition disc_le_price (s : vstate) : Prop :=
  match s_discount s with Some d => d <= s_price s | None => True end.

(* the recorded shape: an UpdateMintPrice to a price below the standing discount *)
Definition cuts_below_discount (s : vstate) (o : vop) : bool :=
  match o, s_discount s with
  | OUpdateMintPrice p, Some d => p <? d
  | _, _ => false
  end.

Lemma step_disc_le vr s e fp wv o s' ms :
  disc_le_price s -> step vr s e fp wv o = Ok (s', ms) -> cuts_below_discount s o = false ->
  disc_le_price s'.
Proof.
  unfold disc_le_price, cuts_below_discount. intros I H Hc.
  pose proof (step_frame _ _ _ _ _ _ _ _ H) as (_ & _ & F).
  destruct o; try (destruct F as (P & D & _ & _); rewrite P, D; exact I).
  - (* UpdateMintPrice *)
    destruct F as (P & D & _ & _). rewrite P, D. destruct (s_discount s) as [d|]; [ lia | exact I ].
  - (* UpdateDiscountPrice *)
    apply update_discount_ok in H. destruct H as (_ & _ & _ & Hle & _).
    destruct F as (P & D & _ & _). rewrite P, D. exact Hle.
  - (* Remove *) destruct F as (_ & D & _ & _). rewrite D. exact Logic.I.
Qed.

(* a history none of whose accepted calls has the recorded shape *)
Fixpoint no_cut_below_discount (vr : variant) (s : vstate) (cs : list call) : Prop :=
  match cs with
  | [] => True
  | c :: r =>
      (is_ok (step vr s (c_env c) (c_fp c) (c_wv c) (c_op c)) = true -> cuts_below_discount s (c_op c) = false) /\
      no_cut_below_discount vr (apply_call vr s c) r
  end.

Theorem run_disc_le vr cs : forall s,
  disc_le_price s -> no_cut_below_discount vr s cs -> disc_le_price (run vr s cs).
Proof.
  induction cs as [|c cs IH]; intros s I Hn; [ exact I | ].
  cbn [no_cut_below_discount] in Hn. destruct Hn as [Hc Hr]. rewrite run_cons. apply IH; [ | exact Hr ].
  unfold apply_call in *. destruct (step vr s (c_env c) (c_fp c) (c_wv c) (c_op c)) as [[s' ms]|] eqn:E; [ | exact I ].
  eapply step_disc_le; [ exact I | exact E | apply Hc; reflexivity ].
Qed.

Lemma disc_le_charge s : disc_le_price s -> public_or_discount s <= s_price s.
Proof. unfold disc_le_price, public_or_discount. destruct (s_discount s); lia. Qed.

Theorem charged_le_public_outside_known vr s0 cs e fp wv stage proof alloc choice s' ms :
  disc_le_price s0 -> no_cut_below_discount vr s0 cs ->
  wl_inactive (run vr s0 cs) wv ->
  step vr (run vr s0 cs) e fp wv (OMint stage proof alloc choice) = Ok (s', ms) ->
  exists paid, may_pay (e_funds e) (s_denom (run vr s0 cs)) = Ok paid /\ paid <= s_price (run vr s0 cs).
Proof.
  intros I Hn Hw H. apply mint_pays_quote in H. destruct H as (p & d & Hq & Hpay).
  rewrite (public_quote _ _ _ Hw) in Hq. inv Hq.
  eexists. split; [ exact Hpay | ]. apply disc_le_charge. apply run_disc_le; assumption.
Qed.

(* ---------- D8: the denom of an updated price vs the denom of the minimum ---------- *)
Lemma create_price_ok_spec fp price d :
  create_price_ok fp price d = true -> fp_min_price fp <= price /\ d = fp_min_denom fp.
Proof. unfold create_price_ok. intros H. split; lia. Qed.

Theorem update_price_denom vr fp0 price0 s0 cs e fp wv p s' ms :
  create_price_ok fp0 price0 (s_denom s0) = true ->
  fp_min_denom fp = fp_min_denom fp0 ->
  step vr (run vr s0 cs) e fp wv (OUpdateMintPrice p) = Ok (s', ms) ->
  s_price s' = p /\ s_denom s' = fp_min_denom fp.
Proof.
  intros Hc Hd H. apply create_price_ok_spec in Hc. destruct Hc as [_ Hc].
  apply step_frame in H. destruct H as (D & _ & P & _). rewrite run_denom in D. split; [ exact P | congruence ].
Qed.

Theorem update_discount_denom vr fp0 price0 s0 cs e fp wv d s' ms :
  create_price_ok fp0 price0 (s_denom s0) = true ->
  fp_min_denom fp = fp_min_denom fp0 ->
  step vr (run vr s0 cs) e fp wv (OUpdateDiscountPrice d) = Ok (s', ms) ->
  s_discount s' = Some d /\ s_denom s' = fp_min_denom fp.
Proof.
  intros Hc Hd H. apply create_price_ok_spec in Hc. destruct Hc as [_ Hc].
  apply step_frame in H. destruct H as (D & _ & _ & Di & _). rewrite run_denom in D. split; [ exact Di | congruence ].
Qed.
