(* Lemmas about model/Migrate.v (C20). *)
From Coq Require Import String ZArith Lia ZifyN ZifyBool.
From LP Require Import Semver Migrate Consts SemverProofs.
Import ListNotations.
Local Open Scope N_scope.

Definition CODE : version := (3, 16, 0).

Lemma code_version_all : forall c, parse_version (code_version_string c) = Some CODE.
Proof. destruct c; vm_compute; reflexivity. Qed.

Lemma earliest_updatable : parse_version sg721_updatable__EARLIEST_COMPATIBLE_VERSION = Some (0, 16, 0).
Proof. vm_compute. reflexivity. Qed.

Lemma name_in_In : forall n l, name_in n l = true <-> In n l.
Proof.
  intros n l. unfold name_in. rewrite existsb_exists. split.
  - intros [x [Hx E]]. apply String.eqb_eq in E. subst. exact Hx.
  - intros H. exists n. split; [exact H|apply String.eqb_refl].
Qed.

Lemma name_in_own : forall c n, kind_of c <> KUpdatable ->
  name_in n (accepted_names c) = String.eqb n (own_name c).
Proof.
  intros c n H. unfold accepted_names. destruct (kind_of c); try congruence;
    cbn [name_in existsb]; apply orb_false_r.
Qed.

(* the state an accepted migration leaves, by kind *)
Definition with_discount (sl : slots) (t : N) : slots :=
  mkSlots (Some t) (s_frozen_meta sl) (s_enable_updatable sl) (s_royalty_at sl) (s_legacy_minter sl) (s_owner sl) (s_status sl) (s_mintable sl).

Definition updatable_slots (now : N) (st : cstate) (v : version) : slots :=
  let sl := c_slots st in
  let from_base := name_in (c_name st) base_names in
  mkSlots (s_last_discount sl)
          (if from_base then Some false else s_frozen_meta sl)
          (if from_base then Some false else s_enable_updatable sl)
          (if ver_ltb v (3, 1, 0) then Some (now - H24) else s_royalty_at sl)
          (if ver_ltb v (3, 0, 0) then None else s_legacy_minter sl)
          (if ver_ltb v (3, 0, 0) then s_legacy_minter sl else s_owner sl)
          (s_status sl) (s_mintable sl).

Definition expected (c : contract) (now : N) (msg : option fmsg) (st : cstate) (v : version)
  : result (cstate * bool) :=
  match kind_of c with
  | KSimple => Ok (if ver_eqb v CODE then st else set_version c (c_slots st), false)
  | KVending =>
      if ver_eqb v CODE then Ok (st, false)
      else if ver_ltb v (3, 9, 0)
           then if H12 <=? now then Ok (set_version c (with_discount (c_slots st) (now - H12)), false) else Err
           else Ok (set_version c (c_slots st), false)
  | KFactory =>
      match msg with
      | None => Ok (st, false)
      | Some m => if fmsg_ok c m then Ok (st, true) else Err
      end
  | KUpdatable =>
      if ver_ltb v (0, 16, 0) then Err
      else if ver_eqb v CODE && String.eqb (c_name st) (own_name c) then Err
      else if ver_ltb v (3, 0, 0) && match s_legacy_minter (c_slots st) with None => true | Some _ => false end then Err
      else if ver_ltb v (3, 1, 0) && negb (H24 <=? now) then Err
      else Ok (set_version c (updatable_slots now st v), false)
  end.

Lemma migrate_spec : forall c now msg st,
  migrate c now msg st =
  match parse_version (c_version st) with
  | None => Err
  | Some v =>
      if negb (name_in (c_name st) (accepted_names c)) then Err
      else if ver_ltb CODE v then Err
      else expected c now msg st v
  end.
Proof.
  intros c now msg st. unfold migrate, expected. rewrite code_version_all.
  destruct (kind_of c) eqn:K.
  - (* vending *)
    rewrite name_in_own by congruence.
    destruct (String.eqb (c_name st) (own_name c)); cbn [negb];
      destruct (parse_version (c_version st)) as [v|]; try reflexivity.
    all: try (destruct (ver_ltb CODE v); try reflexivity;
              destruct (ver_eqb v CODE); try reflexivity;
              destruct (ver_ltb v (3, 9, 0)); try reflexivity;
              unfold minus_nanos, bind; destruct (H12 <=? now); reflexivity).
  - (* simple *)
    rewrite name_in_own by congruence.
    destruct (String.eqb (c_name st) (own_name c)); cbn [negb];
      destruct (parse_version (c_version st)) as [v|]; try reflexivity.
    all: try (destruct (ver_ltb CODE v); try reflexivity;
              destruct (ver_eqb v CODE); reflexivity).
  - (* factory *)
    rewrite name_in_own by congruence.
    destruct (parse_version (c_version st)) as [v|]; try reflexivity.
    all: try (destruct (String.eqb (c_name st) (own_name c)); cbn [negb]; reflexivity).
  - (* updatable *)
    rewrite earliest_updatable.
    unfold accepted_names. rewrite K.
    destruct (parse_version (c_version st)) as [v|]; try reflexivity.
    destruct (name_in (c_name st) updatable_names); cbn [negb]; try reflexivity.
    destruct (ver_ltb v (0, 16, 0)) eqn:E1; destruct (ver_ltb CODE v) eqn:E2; try reflexivity.
    destruct (ver_eqb v CODE && String.eqb (c_name st) (own_name c)); try reflexivity.
    unfold updatable_slots, bind, minus_nanos.
    destruct (ver_ltb v (3, 0, 0)); destruct (s_legacy_minter (c_slots st)); cbn [andb fst snd];
      destruct (ver_ltb v (3, 1, 0)); cbn [andb]; try reflexivity;
      destruct (H24 <=? now); cbn [negb]; reflexivity.
Qed.

(* what "declared compatible" adds per kind, beyond identity and not-newer *)
Definition extra (c : contract) (now : N) (msg : option fmsg) (st : cstate) (v : version) : Prop :=
  match kind_of c with
  | KSimple => True
  | KVending => v <> CODE -> ver_ltb v (3, 9, 0) = true -> H12 <= now
  | KFactory => match msg with None => True | Some m => fmsg_ok c m = true end
  | KUpdatable =>
      ver_ltb v (0, 16, 0) = false /\
      ~ (v = CODE /\ c_name st = own_name c) /\
      (ver_ltb v (3, 0, 0) = true -> s_legacy_minter (c_slots st) <> None) /\
      (ver_ltb v (3, 1, 0) = true -> H24 <= now)
  end.

Lemma expected_ok_iff : forall c now msg st v,
  is_ok (expected c now msg st v) = true <-> extra c now msg st v.
Proof.
  intros c now msg st v. unfold expected, extra. destruct (kind_of c).
  - destruct (ver_eqb v CODE) eqn:E.
    + apply ver_eqb_eq in E. split; [intros _ H; congruence|reflexivity].
    + assert (v <> CODE) as NE by (intro H; apply ver_eqb_eq in H; congruence).
      destruct (ver_ltb v (3, 9, 0)).
      * destruct (N.leb_spec H12 now); cbn [is_ok]; split; intros; try reflexivity; try lia; try discriminate.
        all: try (exfalso; assert (H12 <= now) by auto; lia).
      * cbn [is_ok]. split; [intros _ _ H; discriminate|reflexivity].
  - cbn [is_ok]. tauto.
  - destruct msg as [m|]; [|cbn [is_ok]; tauto].
    destruct (fmsg_ok c m); cbn [is_ok]; split; intro H; try reflexivity; try discriminate; exact H.
  - destruct (ver_ltb v (0, 16, 0)) eqn:E0; [cbn [is_ok]; split; [discriminate|intros [H _]; discriminate]|].
    destruct (ver_eqb v CODE && String.eqb (c_name st) (own_name c)) eqn:E1.
    { apply andb_true_iff in E1. destruct E1 as [A B]. apply ver_eqb_eq in A. apply String.eqb_eq in B.
      cbn [is_ok]. split; [discriminate|]. intros [_ [H _]]. exfalso. apply H. split; assumption. }
    assert (~ (v = CODE /\ c_name st = own_name c)) as N1.
    { intros [A B]. apply ver_eqb_eq in A. apply String.eqb_eq in B. rewrite A, B in E1. discriminate. }
    destruct (ver_ltb v (3, 0, 0)) eqn:E2; destruct (s_legacy_minter (c_slots st)) as [lm|] eqn:E3; cbn [andb];
      try (cbn [is_ok]; split; [discriminate|intros [_ [_ [H _]]]; exfalso; apply H; reflexivity]);
      destruct (ver_ltb v (3, 1, 0)) eqn:E4; cbn [andb];
      destruct (N.leb_spec H24 now); cbn [negb is_ok]; split; intros; try reflexivity; try discriminate;
      try (repeat split; intros; try assumption; try discriminate; try congruence; try lia);
      try (match goal with H : _ /\ _ /\ _ /\ _ |- _ => destruct H as [_ [_ [_ H]]]; specialize (H eq_refl); lia end).
Qed.

Lemma migrate_ok_iff : forall c now msg st,
  is_ok (migrate c now msg st) = true <->
  In (c_name st) (accepted_names c) /\
  exists v, parse_version (c_version st) = Some v /\ ver_ltb CODE v = false /\ extra c now msg st v.
Proof.
  intros c now msg st. rewrite migrate_spec.
  destruct (parse_version (c_version st)) as [v|].
  2:{ cbn [is_ok]. split; [discriminate|]. intros [_ [v [H _]]]. discriminate. }
  destruct (name_in (c_name st) (accepted_names c)) eqn:EN; cbn [negb].
  2:{ cbn [is_ok]. split; [discriminate|]. intros [H _]. apply name_in_In in H. congruence. }
  apply name_in_In in EN.
  destruct (ver_ltb CODE v) eqn:EV.
  { cbn [is_ok]. split; [discriminate|]. intros [_ [v' [H [H2 _]]]]. inversion H; subst. congruence. }
  rewrite expected_ok_iff. split.
  - intro H. split; [exact EN|]. exists v. repeat split; assumption.
  - intros [_ [v' [H [_ H3]]]]. inversion H; subst. exact H3.
Qed.

Lemma migrate_never_newer : forall c now msg st,
  is_ok (migrate c now msg st) = true ->
  exists v, parse_version (c_version st) = Some v /\ ver_ltb CODE v = false.
Proof.
  intros c now msg st H. apply migrate_ok_iff in H. destruct H as [_ [v [A [B _]]]]. exists v. split; assumption.
Qed.

Lemma migrate_never_foreign : forall c now msg st,
  is_ok (migrate c now msg st) = true -> In (c_name st) (accepted_names c).
Proof. intros c now msg st H. apply migrate_ok_iff in H. apply H. Qed.

Lemma migrate_unparsable : forall c now msg st,
  parse_version (c_version st) = None -> migrate c now msg st = Err.
Proof. intros c now msg st H. rewrite migrate_spec, H. reflexivity. Qed.

(* the state afterwards *)
Lemma migrate_post : forall c now msg st st' p,
  migrate c now msg st = Ok (st', p) ->
  exists v, parse_version (c_version st) = Some v /\ expected c now msg st v = Ok (st', p).
Proof.
  intros c now msg st st' p H. rewrite migrate_spec in H.
  destruct (parse_version (c_version st)) as [v|]; [|discriminate].
  destruct (negb _); [discriminate|]. destruct (ver_ltb CODE v); [discriminate|].
  exists v. split; [reflexivity|exact H].
Qed.

Lemma post_version_nonfactory : forall c now msg st st' p,
  kind_of c <> KFactory ->
  migrate c now msg st = Ok (st', p) ->
  c_name st' = own_name c /\ parse_version (c_version st') = Some CODE /\ p = false.
Proof.
  intros c now msg st st' p K H.
  pose proof H as H0. rewrite migrate_spec in H0.
  destruct (parse_version (c_version st)) as [v|] eqn:EP; [|discriminate].
  destruct (name_in (c_name st) (accepted_names c)) eqn:EN; cbn [negb] in H0; [|discriminate].
  destruct (ver_ltb CODE v); [discriminate|].
  unfold expected in H0. destruct (kind_of c) eqn:EK; try congruence.
  - rewrite name_in_own in EN by congruence. apply String.eqb_eq in EN.
    destruct (ver_eqb v CODE) eqn:E.
    + apply ver_eqb_eq in E. inversion H0; subst. repeat split; assumption.
    + destruct (ver_ltb v (3, 9, 0)); [destruct (H12 <=? now); [|discriminate]|];
        inversion H0; subst; cbn; repeat split; try reflexivity; apply code_version_all.
  - rewrite name_in_own in EN by congruence. apply String.eqb_eq in EN.
    destruct (ver_eqb v CODE) eqn:E; inversion H0; subst.
    + apply ver_eqb_eq in E. subst. repeat split; assumption.
    + cbn. repeat split; try reflexivity. apply code_version_all.
  - destruct (ver_ltb v (0, 16, 0)); [discriminate|].
    destruct (_ && _); [discriminate|]. destruct (_ && _); [discriminate|]. destruct (_ && _); [discriminate|].
    inversion H0; subst. cbn. repeat split; try reflexivity. apply code_version_all.
Qed.

Lemma post_factory : forall c now msg st st' p,
  kind_of c = KFactory ->
  migrate c now msg st = Ok (st', p) ->
  st' = st /\ (p = true -> msg <> None).
Proof.
  intros c now msg st st' p K H.
  destruct (migrate_post _ _ _ _ _ _ H) as [v [_ E]]. unfold expected in E. rewrite K in E.
  destruct msg as [m|].
  - destruct (fmsg_ok c m); [|discriminate]. inversion E; subst. split; [reflexivity|discriminate].
  - inversion E; subst. split; [reflexivity|discriminate].
Qed.

(* every slot is as before, apart from exactly the documented initialisations *)
Lemma state_preserved : forall c now msg st st' p,
  migrate c now msg st = Ok (st', p) ->
  exists v, parse_version (c_version st) = Some v /\
  let sl := c_slots st in
  let sl' := c_slots st' in
  s_last_discount sl' =
    (if match kind_of c with KVending => negb (ver_eqb v CODE) && ver_ltb v (3, 9, 0) | _ => false end
     then Some (now - H12) else s_last_discount sl) /\
  s_frozen_meta sl' =
    (if match kind_of c with KUpdatable => name_in (c_name st) base_names | _ => false end
     then Some false else s_frozen_meta sl) /\
  s_enable_updatable sl' =
    (if match kind_of c with KUpdatable => name_in (c_name st) base_names | _ => false end
     then Some false else s_enable_updatable sl) /\
  s_royalty_at sl' =
    (if match kind_of c with KUpdatable => ver_ltb v (3, 1, 0) | _ => false end
     then Some (now - H24) else s_royalty_at sl) /\
  s_legacy_minter sl' =
    (if match kind_of c with KUpdatable => ver_ltb v (3, 0, 0) | _ => false end
     then None else s_legacy_minter sl) /\
  s_owner sl' =
    (if match kind_of c with KUpdatable => ver_ltb v (3, 0, 0) | _ => false end
     then s_legacy_minter sl else s_owner sl) /\
  s_status sl' = s_status sl /\
  s_mintable sl' = s_mintable sl /\
  (p = true -> kind_of c = KFactory /\ msg <> None).
Proof.
  intros c now msg st st' p H.
  destruct (migrate_post _ _ _ _ _ _ H) as [v [EP E]]. exists v. split; [exact EP|].
  unfold expected in E. destruct (kind_of c) eqn:K.
  - destruct (ver_eqb v CODE); cbn [negb andb].
    + inversion E; subst. repeat split; try reflexivity; discriminate.
    + destruct (ver_ltb v (3, 9, 0)).
      * destruct (H12 <=? now); [|discriminate]. inversion E; subst.
        unfold set_version, with_discount; cbn [c_slots s_last_discount s_frozen_meta s_enable_updatable s_royalty_at s_legacy_minter s_owner s_status s_mintable].
        repeat split; try reflexivity; discriminate.
      * inversion E; subst. unfold set_version; cbn [c_slots]. repeat split; try reflexivity; discriminate.
  - destruct (ver_eqb v CODE); inversion E; subst; unfold set_version; cbn [c_slots];
      repeat split; try reflexivity; discriminate.
  - destruct msg as [m|]; [destruct (fmsg_ok c m); [|discriminate]|]; inversion E; subst;
      repeat split; try reflexivity; try discriminate.
  - destruct (ver_ltb v (0, 16, 0)); [discriminate|].
    destruct (_ && _); [discriminate|]. destruct (_ && _); [discriminate|]. destruct (_ && _); [discriminate|].
    inversion E; subst. unfold set_version, updatable_slots;
      cbn [c_slots s_last_discount s_frozen_meta s_enable_updatable s_royalty_at s_legacy_minter s_owner s_status s_mintable].
    repeat split; try reflexivity; discriminate.
Qed.

(* ---------- per-kind forms of migrate_ok_iff ---------- *)
Lemma accepted_single : forall c, kind_of c <> KUpdatable -> accepted_names c = [own_name c].
Proof. intros c H. unfold accepted_names. destruct (kind_of c); congruence. Qed.

Lemma simple_ok_iff : forall c now msg st, kind_of c = KSimple ->
  (is_ok (migrate c now msg st) = true <->
   c_name st = own_name c /\
   exists v, parse_version (c_version st) = Some v /\ ver_ltb CODE v = false).
Proof.
  intros c now msg st K. rewrite migrate_ok_iff, accepted_single by congruence.
  unfold extra. rewrite K. cbn [In]. split.
  - intros [[E|[]] [v [A [B _]]]]. split; [symmetry; exact E|]. exists v. split; assumption.
  - intros [E [v [A B]]]. split; [left; symmetry; exact E|]. exists v. repeat split; assumption.
Qed.

Lemma vending_ok_iff : forall c now msg st, kind_of c = KVending ->
  (is_ok (migrate c now msg st) = true <->
   c_name st = own_name c /\
   exists v, parse_version (c_version st) = Some v /\ ver_ltb CODE v = false /\
             (v <> CODE -> ver_ltb v (3, 9, 0) = true -> H12 <= now)).
Proof.
  intros c now msg st K. rewrite migrate_ok_iff, accepted_single by congruence.
  unfold extra. rewrite K. cbn [In]. split.
  - intros [[E|[]] [v [A [B C]]]]. split; [symmetry; exact E|]. exists v. repeat split; assumption.
  - intros [E [v [A [B C]]]]. split; [left; symmetry; exact E|]. exists v. repeat split; assumption.
Qed.

Lemma factory_ok_iff : forall c now msg st, kind_of c = KFactory ->
  (is_ok (migrate c now msg st) = true <->
   c_name st = own_name c /\
   exists v, parse_version (c_version st) = Some v /\ ver_ltb CODE v = false /\
             match msg with None => True | Some m => fmsg_ok c m = true end).
Proof.
  intros c now msg st K. rewrite migrate_ok_iff, accepted_single by congruence.
  unfold extra. rewrite K. cbn [In]. split.
  - intros [[E|[]] [v [A [B C]]]]. split; [symmetry; exact E|]. exists v. repeat split; assumption.
  - intros [E [v [A [B C]]]]. split; [left; symmetry; exact E|]. exists v. repeat split; assumption.
Qed.

Lemma updatable_ok_iff : forall now msg st,
  (is_ok (migrate Sg721Updatable now msg st) = true <->
   In (c_name st) updatable_names /\
   exists v, parse_version (c_version st) = Some v /\ ver_ltb CODE v = false /\
             ver_ltb v (0, 16, 0) = false /\
             ~ (v = CODE /\ c_name st = own_name Sg721Updatable) /\
             (ver_ltb v (3, 0, 0) = true -> s_legacy_minter (c_slots st) <> None) /\
             (ver_ltb v (3, 1, 0) = true -> H24 <= now)).
Proof. intros now msg st. apply (migrate_ok_iff Sg721Updatable now msg st). Qed.

(* accepted for every older (or equal) version of the contract's own identity *)
Lemma accepts_older : forall c now st v,
  kind_of c <> KUpdatable ->
  c_name st = own_name c -> parse_version (c_version st) = Some v -> ver_ltb CODE v = false ->
  H12 <= now ->
  is_ok (migrate c now None st) = true.
Proof.
  intros c now st v K EN EP EV Hnow. apply migrate_ok_iff. rewrite accepted_single by exact K.
  split; [left; symmetry; exact EN|]. exists v. repeat split; try assumption.
  unfold extra. destruct (kind_of c); try exact I; try congruence.
  all: try (intros _ _; exact Hnow).
Qed.

Lemma own_names :
  own_name VendingMinter = "crates.io:sg-minter"%string /\
  own_name VendingMinterFeatured = "crates.io:sg-minter"%string /\
  own_name VendingMinterWlFlex = "crates.io:sg-vending-minter-flex"%string /\
  own_name VendingMinterWlFlexFeatured = "crates.io:sg-vending-minter-flex"%string /\
  own_name VendingMinterMerkleWl = "crates.io:sg-minter"%string /\
  own_name VendingMinterMerkleWlFeatured = "crates.io:sg-minter"%string /\
  own_name OpenEditionMinter = "crates.io:sg-open-edition-minter"%string /\
  own_name OpenEditionMinterWlFlex = "crates.io:sg-open-edition-minter-flex"%string /\
  own_name OpenEditionMinterMerkleWl = "crates.io:sg-open-edition-minter"%string /\
  own_name TokenMergeMinter = "crates.io:sg-minter"%string /\
  own_name BaseFactory = "crates.io:sg-base-factory"%string /\
  own_name VendingFactory = "crates.io:vending-factory"%string /\
  own_name OpenEditionFactory = "crates.io:open-edition-factory"%string /\
  own_name TokenMergeFactory = "crates.io:token-merge-factory"%string /\
  own_name Splits = "crates.io:sg-splits"%string /\
  own_name WhitelistMerkletree = "crates.io:whitelist-merkletree"%string /\
  own_name TieredWhitelistMerkletree = "crates.io:tiered-whitelist-merkletree"%string /\
  own_name Sg721Updatable = "crates.io:sg721-updatable"%string.
Proof. repeat split. Qed.

(* the minter status (what sudo UpdateStatus set) survives every accepted migration of
   every contract, from every stored version and identity *)
Lemma status_preserved : forall c now msg st st' p,
  migrate c now msg st = Ok (st', p) -> s_status (c_slots st') = s_status (c_slots st).
Proof.
  intros c now msg st st' p H. destruct (state_preserved _ _ _ _ _ _ H) as [v [_ F]].
  cbn zeta in F. apply F.
Qed.

(* the supply counter (what is left to mint) survives every accepted migration: a sale that
   was closed by BurnRemaining or sold out stays closed *)
Lemma mintable_preserved : forall c now msg st st' p,
  migrate c now msg st = Ok (st', p) -> s_mintable (c_slots st') = s_mintable (c_slots st).
Proof.
  intros c now msg st st' p H. destruct (state_preserved _ _ _ _ _ _ H) as [v [_ F]].
  cbn zeta in F. apply F.
Qed.
