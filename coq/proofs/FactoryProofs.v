From LP Require Import Num Pay Sg1 Bank MinterVending Factory Sg1Proofs MinterVendingProofs.
From Coq Require Import ZArith Lia ZifyN ZifyBool.
Local Open Scope N_scope.

Lemma existsb_eqb_in x l : existsb (N.eqb x) l = true <-> In x l.
Proof.
  rewrite existsb_exists. split.
  - intros [y [Hy E]]. apply N.eqb_eq in E. subst. exact Hy.
  - intros H. exists x. split; [ exact H | apply N.eqb_refl ].
Qed.

(* the part every factory shares *)
Lemma factory_create_common k self p now funds r ms :
  factory_create k self p now funds r = Ok ms ->
  exists paid,
    funds = [mkCoin (g_fee_denom p) paid] /\ paid <> 0 /\ g_fee p <= paid /\
    (k = FOpen -> paid = g_fee p) /\
    In (r_coll_code r) (g_allowed p) /\ g_frozen p = false /\
    fee_disposal self p funds = Ok ms.
Proof.
  unfold factory_create. intros H.
  bind_in H paid Hpaid. apply must_pay_ok_shape in Hpaid. destruct Hpaid as [Hf Hnz].
  bind_in H u Hu.
  destruct (existsb (N.eqb (r_coll_code r)) (g_allowed p)) eqn:Ea; cbn [negb] in H; [ | discriminate ].
  destruct (g_frozen p) eqn:Efz; [ discriminate | ].
  bind_in H ms0 Hms.
  assert (Hms' : ms0 = ms).
  { destruct k; repeat step_hyp H; inv H; reflexivity. }
  subst ms0.
  exists paid. split; [ exact Hf | ]. split; [ exact Hnz | ].
  assert (Hge : g_fee p <= paid).
  { unfold fee_disposal in Hms. subst funds.
    destruct (g_fee_denom p =? NATIVE) eqn:En.
    - apply N.eqb_eq in En. rewrite checked_fair_burn_cases in Hms.
      unfold may_pay in Hms. cbn [c_denom c_amount] in Hms. rewrite En, N.eqb_refl in Hms.
      destruct (paid <? g_fee p) eqn:El; [ discriminate | ]. apply N.ltb_ge in El. exact El.
    - rewrite transfer_to_dao_cases in Hms. unfold must_pay, one_coin in Hms. cbn [c_amount c_denom bind] in Hms.
      apply N.eqb_neq in Hnz. rewrite Hnz in Hms. cbn [bind c_denom c_amount] in Hms. rewrite N.eqb_refl in Hms.
      destruct (paid <? g_fee p) eqn:El; [ discriminate | ]. apply N.ltb_ge in El. exact El. }
  split; [ exact Hge | ]. split.
  - intros ->. destruct u. apply guard_ok in Hu. apply N.eqb_eq in Hu. exact Hu.
  - split; [ apply existsb_eqb_in; exact Ea | ]. split; [ reflexivity | exact Hms ].
Qed.

(* what happens to the fee: native -> burn fee/2 + pool fee - fee/2 ; non-native -> the
   whole payment to the launchpad DAO.  Either way  fee <= total out <= paid. *)
Lemma fee_disposal_amounts self p paid ms :
  paid <> 0 -> g_fee p <= paid ->
  fee_disposal self p [mkCoin (g_fee_denom p) paid] = Ok ms ->
  (g_fee_denom p = NATIVE /\
   ms = [Burn NATIVE (g_fee p / 2); FundPool self NATIVE (g_fee p - g_fee p / 2)] /\ sum_out ms = g_fee p)
  \/ (g_fee_denom p <> NATIVE /\ ms = [Send A_LAUNCHPAD_DAO (g_fee_denom p) paid] /\ sum_out ms = paid).
Proof.
  intros Hnz Hge. unfold fee_disposal.
  destruct (g_fee_denom p =? NATIVE) eqn:En.
  - apply N.eqb_eq in En. left. split; [ exact En | ].
    rewrite checked_fair_burn_cases in H. unfold may_pay in H. cbn [c_denom c_amount] in H.
    rewrite En, N.eqb_refl in H.
    assert (El : paid <? g_fee p = false) by (apply N.ltb_ge; exact Hge). rewrite El in H.
    apply N.eqb_neq in Hnz. rewrite Hnz in H. inv H. unfold fair_burn_spec. split; [ reflexivity | ].
    cbn [sum_out fold_right bmsg_amount]. lia.
  - apply N.eqb_neq in En. right. split; [ exact En | ].
    rewrite transfer_to_dao_cases in H. unfold must_pay, one_coin in H. cbn [c_amount c_denom bind] in H.
    apply N.eqb_neq in Hnz. rewrite Hnz in H. cbn [bind c_denom c_amount] in H. rewrite N.eqb_refl in H.
    assert (El : paid <? g_fee p = false) by (apply N.ltb_ge; exact Hge). rewrite El in H. inv H.
    split; [ reflexivity | ]. cbn [sum_out fold_right bmsg_amount]. lia.
Qed.

Lemma fee_out_bounds k self p now funds r ms :
  factory_create k self p now funds r = Ok ms ->
  exists paid, funds = [mkCoin (g_fee_denom p) paid] /\ g_fee p <= sum_out ms <= paid.
Proof.
  intros H. apply factory_create_common in H. destruct H as (paid & Hf & Hnz & Hge & _ & _ & _ & Hd).
  exists paid. split; [ exact Hf | ]. subst funds.
  destruct (fee_disposal_amounts _ _ _ _ Hnz Hge Hd) as [(_ & _ & S)|(_ & _ & S)]; lia.
Qed.

(* bounds per factory kind *)
Lemma vending_bounds self p now funds r ms :
  factory_create FVending self p now funds r = Ok ms ->
  exists n, r_num_tokens r = Some n /\ 1 <= n <= g_max_tokens p /\ 1 <= r_pal r <= g_max_pal p /\
            r_price_denom r = g_min_denom p /\ g_min_price p <= r_price r.
Proof.
  unfold factory_create. intros H.
  bind_in H paid Hp. bind_in H u Hu.
  destruct (negb (existsb (N.eqb (r_coll_code r)) (g_allowed p))); [ discriminate | ].
  destruct (g_frozen p); [ discriminate | ].
  bind_in H ms0 Hms.
  destruct (r_num_tokens r) as [n|]; [ | discriminate ].
  destruct ((n =? 0) || (g_max_tokens p <? n)) eqn:E1; [ discriminate | ].
  destruct ((r_pal r =? 0) || (g_max_pal p <? r_pal r)) eqn:E2; [ discriminate | ].
  destruct (negb (g_min_denom p =? r_price_denom r)) eqn:E3; [ discriminate | ].
  destruct (r_price r <? g_min_price p) eqn:E4; [ discriminate | ].
  exists n. apply orb_false_iff in E1, E2. destruct E1, E2.
  apply negb_false_iff in E3. apply N.eqb_eq in E3.
  split; [ reflexivity | ]. split; [ lia | ]. split; [ lia | ]. split; [ congruence | lia ].
Qed.

Lemma token_merge_bounds self p now funds r ms :
  factory_create FTokenMerge self p now funds r = Ok ms ->
  exists n, r_num_tokens r = Some n /\ 1 <= n <= g_max_tokens p /\ 1 <= r_pal r <= g_max_pal p.
Proof.
  unfold factory_create. intros H.
  bind_in H paid Hp. bind_in H u Hu.
  destruct (negb (existsb (N.eqb (r_coll_code r)) (g_allowed p))); [ discriminate | ].
  destruct (g_frozen p); [ discriminate | ].
  bind_in H ms0 Hms.
  destruct (r_num_tokens r) as [n|]; [ | discriminate ].
  destruct ((n =? 0) || (g_max_tokens p <? n)) eqn:E1; [ discriminate | ].
  destruct ((r_pal r =? 0) || (g_max_pal p <? r_pal r)) eqn:E2; [ discriminate | ].
  exists n. apply orb_false_iff in E1, E2. destruct E1, E2.
  split; [ reflexivity | ]. split; lia.
Qed.

Lemma open_bounds self p now funds r ms :
  factory_create FOpen self p now funds r = Ok ms ->
  r_nft_ok r = true /\
  (forall n, r_num_tokens r = Some n -> 1 <= n <= g_max_tokens p) /\
  1 <= r_pal r <= g_max_pal p /\
  now < r_start r /\
  (forall e, r_end r = Some e -> r_start r < e) /\
  (r_end r <> None \/ r_num_tokens r <> None) /\
  g_min_price p <= r_price r /\ r_price_denom r = g_min_denom p /\
  (r_price r = 0 -> r_num_tokens r <> None) /\
  (g_airdrop_price p = 0 -> r_num_tokens r <> None).
Proof.
  unfold factory_create. intros H.
  bind_in H paid Hp. bind_in H u Hu.
  destruct (negb (existsb (N.eqb (r_coll_code r)) (g_allowed p))); [ discriminate | ].
  destruct (g_frozen p); [ discriminate | ].
  bind_in H ms0 Hms.
  destruct (negb (r_nft_ok r)) eqn:E1; [ discriminate | ].
  destruct (match r_num_tokens r with Some n => (n =? 0) || (g_max_tokens p <? n) | None => false end) eqn:E2; [ discriminate | ].
  destruct ((r_pal r <? 1) || (g_max_pal p <? r_pal r)) eqn:E3; [ discriminate | ].
  destruct (r_start r <=? now) eqn:E4; [ discriminate | ].
  destruct (match r_end r with Some e => e <=? r_start r | None => false end) eqn:E5; [ discriminate | ].
  destruct (match r_end r, r_num_tokens r with None, None => true | _, _ => false end) eqn:E6; [ discriminate | ].
  destruct (r_price r <? g_min_price p) eqn:E7; [ discriminate | ].
  destruct (negb (g_min_denom p =? r_price_denom r)) eqn:E8; [ discriminate | ].
  destruct (match r_num_tokens r with None => r_price r =? 0 | Some _ => false end) eqn:E9; [ discriminate | ].
  destruct ((g_airdrop_price p =? 0) && match r_num_tokens r with None => true | Some _ => false end) eqn:E10; [ discriminate | ].
  apply negb_false_iff in E1, E8. apply N.eqb_eq in E8. apply orb_false_iff in E3. destruct E3 as [E3a E3b].
  split; [ exact E1 | ]. split.
  { intros n Hn. rewrite Hn in E2. apply orb_false_iff in E2. destruct E2. lia. }
  split; [ lia | ]. split; [ lia | ]. split.
  { intros e He. rewrite He in E5. lia. }
  split.
  { destruct (r_end r); [ left; discriminate | ]. destruct (r_num_tokens r); [ right; discriminate | discriminate ]. }
  split; [ lia | ]. split; [ congruence | ]. split.
  { intros Hz. destruct (r_num_tokens r); [ discriminate | ]. rewrite Hz in E9. discriminate. }
  { intros Hz. destruct (r_num_tokens r); [ discriminate | ]. rewrite Hz in E10. discriminate. }
Qed.

(* the 3%-of-supply rule enforced by the (non-flex) vending and the token-merge minters *)
Lemma check_dynamic_pal_spec pal n maxpal :
  check_dynamic_pal pal n maxpal = true <->
  pal <= maxpal /\ (n < 100 -> pal <= 3) /\ (100 <= n -> pal <= (n * 3 + 99) / 100).
Proof.
  unfold check_dynamic_pal, three_percent.
  destruct (maxpal <? pal) eqn:E1.
  - split; [ discriminate | lia ].
  - destruct (n <? 100) eqn:E2.
    + split; [ intros H; lia | intros H; lia ].
    + assert (Hc : (if (n * 3) mod 100 =? 0 then n * 3 / 100 else n * 3 / 100 + 1) = (n * 3 + 99) / 100).
      { destruct ((n * 3) mod 100 =? 0) eqn:E; lia. }
      rewrite Hc. split; [ intros H; lia | intros H; lia ].
Qed.

Lemma minter_init_vending p now r tr :
  minter_init FVending p now r = Ok tr ->
  (r_flex r = false -> check_dynamic_pal (r_pal r) (opt_default (r_num_tokens r) 0) (g_max_pal p) = true) /\
  r_uri_ok r = true /\ GENESIS <= r_start r /\ now <= r_start r /\ r_wl r <> Some true /\
  trading_at_creation (r_start r) (g_offset p) (r_trading r) = Ok tr.
Proof.
  unfold minter_init. intros H. repeat step_hyp H.
  all: apply negb_false_iff in E0.
  all: repeat split; try lia; try exact H; try exact E0; try (intro K; rewrite K in *; discriminate).
  all: try (intros Hf; rewrite Hf in E; cbn in E; apply negb_false_iff in E; exact E).
Qed.

Lemma trading_at_creation_spec start offset req tr :
  trading_at_creation start offset req = Ok tr ->
  start + offset * 1000000000 <= 18446744073709551615 /\
  match req with
  | Some t => tr = t /\ t <= start + offset * 1000000000
  | None => tr = start + offset * 1000000000
  end.
Proof.
  unfold trading_at_creation, plus_seconds, NANOS, U64_MAX. intros H.
  bind_in H bound Hb. repeat step_hyp Hb. inv Hb.
  split; [ lia | ]. destruct req as [t|]; repeat step_hyp H; inv H; [ split; [ reflexivity | lia ] | reflexivity ].
Qed.

(* wiring: by construction of create_minter, stated so that the tie has something to
   compare against *)
Lemma create_minter_wiring k self p now sender funds r nm c :
  create_minter k self p now sender funds r nm = Ok c ->
  cr_minter_factory c = self /\ cr_minter_admin c = r_creator r /\ cr_minter_contract_admin c = sender /\
  cr_coll_minter c = nm /\ cr_coll_creator c = r_creator r /\ cr_coll_contract_admin c = r_creator r /\
  factory_create k self p now funds r = Ok (cr_msgs c) /\ minter_init k p now r = Ok (cr_trading c) /\
  r_coll_ok r = true.
Proof.
  unfold create_minter. intros H. bind_in H ms Hms. bind_in H tr Htr.
  destruct (r_coll_ok r); cbn [negb] in H; [ | discriminate ]. inv H. cbn. repeat split; auto.
Qed.

Lemma create_world_conserves k self p now sender funds r nm b c b' :
  create_world k self p now sender funds r nm b = Ok (c, b') ->
  exists paid, funds = [mkCoin (g_fee_denom p) paid] /\ g_fee p <= sum_out (cr_msgs c) <= paid.
Proof.
  unfold create_world. intros H. bind_in H b1 Hb1. bind_in H c0 Hc. bind_in H b2 Hb2. inv H.
  apply create_minter_wiring in Hc. destruct Hc as (_ & _ & _ & _ & _ & _ & Hf & _).
  eapply fee_out_bounds; eauto.
Qed.

Lemma update_pal_bounds vr s e fp wv l s' ms :
  step vr s e fp wv (OUpdatePerAddressLimit l) = Ok (s', ms) ->
  e_sender e = s_admin s /\ e_funds e = [] /\ 1 <= l <= fp_max_per_address fp /\
  (v_flex vr = false -> check_dynamic_pal l (s_num_tokens s) (fp_max_per_address fp) = true) /\
  s_pal s' = l /\ ms = [].
Proof.
  cbn [step]. intros H. bind_in H u Hu.
  unfold nonpayable in Hu. destruct (e_funds e) eqn:Ef; [ | discriminate ].
  destruct (negb (is_admin_sender s e)) eqn:Ea; [ discriminate | ].
  destruct ((l =? 0) || (fp_max_per_address fp <? l)) eqn:El; [ discriminate | ].
  destruct (negb (v_flex vr) && negb (check_dynamic_pal l (s_num_tokens s) (fp_max_per_address fp))) eqn:Ed; [ discriminate | ].
  inv H. apply negb_false_iff in Ea. unfold is_admin_sender in Ea. apply N.eqb_eq in Ea.
  apply orb_false_iff in El. destruct El as [El1 El2].
  split; [ exact Ea | ]. split; [ reflexivity | ]. split; [ lia | ]. split; [ | cbn; auto ].
  intros Hf. rewrite Hf in Ed. cbn [negb andb] in Ed. apply negb_false_iff in Ed. exact Ed.
Qed.
