(* The holder-side frame (model/Holder.v) for the token-merge minter: its state and supply
   ghost after a history with holder burns / transfers in between are those of the minter
   calls alone. *)
From LP Require Import Num Pay Sg1 TokenMerge TokenMergeSupplyProofs Holder HolderProofs.
Local Open Scope N_scope.

Definition tm_emit (minter : N) (s : tm_state * sghost) (e : N * tm_op) : list (N * addr) :=
  match step minter (fst e) (snd e) (fst s) with
  | Ok (_, ms) => mint_ids ms
  | Err => []
  end.

Theorem tm_world_minter_state minter xs s c :
  fst (wrun (tm_state * sghost) (N * tm_op) (sstep minter) (tm_emit minter) (s, c) xs)
  = srun minter (minter_calls (N * tm_op) xs) s.
Proof. apply wrun_minter_state. Qed.

Theorem tm_world_invariant n minter xs s c :
  InvT n s -> InvT n (fst (wrun (tm_state * sghost) (N * tm_op) (sstep minter) (tm_emit minter) (s, c) xs)).
Proof. intros I. rewrite tm_world_minter_state. apply srun_inv_tm. exact I. Qed.
