(* Lemmas about model/SplitsMigrate.v (C15: migrations interleaved with the splits ops). *)
From Coq Require Import String.
From LP Require Import SplitsMigrate Migrate Semver Consts SplitsProofs MigrateProofs.
Import ListNotations.
Local Open Scope N_scope.

Lemma splits_migrate_frame : forall wa who name ver w w',
  splits_migrate wa who name ver w = Ok w' -> w' = w.
Proof.
  intros wa who name ver w w' H. unfold splits_migrate in H.
  destruct (negb (who =? wa)); [discriminate|].
  destruct (migrate Splits 0 None _); [|discriminate]. inversion H; reflexivity.
Qed.

Lemma splits_migrate_ok_iff : forall wa who name ver w,
  is_ok (splits_migrate wa who name ver w) = true <->
  who = wa /\ name = "crates.io:sg-splits"%string /\
  exists v, parse_version ver = Some v /\ ver_ltb (3, 16, 0) v = false.
Proof.
  intros wa who name ver w. unfold splits_migrate.
  pose proof (simple_ok_iff Splits 0 None (mkState name ver no_slots) eq_refl) as S.
  cbn [c_name c_version] in S.
  destruct (N.eqb_spec who wa) as [E|E]; cbn [negb].
  - destruct (migrate Splits 0 None (mkState name ver no_slots)) as [r|]; cbn [is_ok] in *.
    + split; [intros _|reflexivity]. destruct S as [S _]. specialize (S eq_refl).
      destruct S as [A B]. repeat split; assumption.
    + split; [discriminate|]. intros [_ [A B]]. apply S. split; assumption.
  - cbn [is_ok]. split; [discriminate|]. intros [A _]. congruence.
Qed.

Lemma xstep_wf : forall wa w x w', wf_world w -> xstep wa w x = Ok w' -> wf_world w'.
Proof.
  intros wa w x w' Hw H. destruct x as [o|who name ver]; cbn [xstep] in H.
  - eapply step_wf; eassumption.
  - apply splits_migrate_frame in H. subst. exact Hw.
Qed.

Lemma xrun_wf : forall wa xs w, wf_world w -> wf_world (xrun wa w xs).
Proof.
  intros wa xs. induction xs as [|x r IH]; intros w Hw; cbn [xrun fold_left]; [exact Hw|].
  apply IH. unfold xstep'. destruct (xstep wa w x) as [w'|] eqn:E; [|exact Hw].
  eapply xstep_wf; eassumption.
Qed.

(* a history of migrations only changes nothing at all *)
Lemma migrations_only_identity : forall wa ms w,
  xrun wa w (map (fun m => XMigrate (fst (fst m)) (snd (fst m)) (snd m)) ms) = w.
Proof.
  intros wa ms. induction ms as [|[[who name] ver] r IH]; intros w; cbn [map xrun fold_left fst snd]; [reflexivity|].
  assert (xstep' wa w (XMigrate who name ver) = w) as ->.
  { unfold xstep'. cbn [xstep]. destruct (splits_migrate wa who name ver w) as [w'|] eqn:E; [|reflexivity].
    apply splits_migrate_frame in E. exact E. }
  apply IH.
Qed.

Lemma repeat_exact_x : forall wa self admin gadmin ms g xs s dl w',
  group_instantiate ms = Ok g ->
  let w := xrun wa (init_world self admin gadmin g) xs in
  step w (Distribute s dl) = Ok w' ->
  (forall d, count d (requested w dl) <= 1) ->
  let W := total_weight (w_members w) in
  W <> 0 /\ (1 <= length (w_members w) <= 25)%nat /\ can_distribute w s = true /\
  forall d,
    let k := if existsb (N.eqb d) (requested w dl) then held w d / W else 0 in
    (forall m, In m (w_members w) -> m_addr m <> w_self w ->
       bal (w_bank w') (m_addr m) d = bal (w_bank w) (m_addr m) d + m_weight m * k) /\
    (forall a, is_member a (w_members w) = false -> a <> w_self w ->
       bal (w_bank w') a d = bal (w_bank w) a d) /\
    bal (w_bank w') (w_self w) d + W * k = held w d + weight_of (w_members w) (w_self w) * k /\
    W * k <= held w d /\
    (k <> 0 -> held w d - W * k = held w d mod W /\ held w d mod W < W).
Proof.
  intros wa self admin gadmin ms g xs s dl w' HG w H Hc.
  apply (world_exact w s dl w'); try assumption.
  unfold w. apply xrun_wf. eapply init_wf; exact HG.
Qed.

Lemma splits_migrate_frame_fields : forall wa who name ver w w',
  splits_migrate wa who name ver w = Ok w' ->
  w' = w /\ w_bank w' = w_bank w /\ w_members w' = w_members w /\ w_admin w' = w_admin w /\
  w_gadmin w' = w_gadmin w /\ w_self w' = w_self w /\ w_denoms w' = w_denoms w.
Proof. intros wa who name ver w w' H. apply splits_migrate_frame in H. subst. repeat split. Qed.
