(* Lemmas about model/SplitsMigrate.v (C15: migrations interleaved with the splits ops). *)
From Coq Require Import String.
From LP Require Import SplitsMigrate Migrate Semver Consts SplitsProofs MigrateProofs.
Import ListNotations.
Local Open Scope N_scope.

Lemma splits_migrate_frame : forall wa who name ver w w',
  splits_migrate wa who name ver w = Ok w' -> w' = w.
Proof.
  intros wa who name ver w w' H. unfold splits_migrate in H.
  destruct (negb (who =? wa)); [discriminate|].
  destruct (migrate Splits 0 None _); [|discriminate]. inversion H; reflexivity.
Qed.

Lemma splits_migrate_ok_iff : forall wa who name ver w,
  is_ok (splits_migrate wa who name ver w) = true <->
  who = wa /\ name = "crates.io:sg-splits"%string /\
  exists v, parse_version ver = Some v /\ ver_ltb (3, 16, 0) v = false.
Proof.
  intros wa who name ver w. unfold splits_migrate.
  pose proof (simple_ok_iff Splits 0 None (mkState name ver no_slots) eq_refl) as S.
  cbn [c_name c_version] in S.
  destruct (N.eqb_spec who wa) as [E|E]; cbn [negb].
  - destruct (migrate Splits 0 None (mkState name ver no_slots)) as [r|]; cbn [is_ok] in *.
    + split; [intros _|reflexivity]. destruct S as [S _]. specialize (S eq_refl).
      destruct S as [A B]. repeat split; assumption.
    + split; [discriminate|]. intros [_ [A B]]. apply S. split; assumption.
  - cbn [is_ok]. split; [discriminate|]. intros [A _]. congruence.
Qed.

Lemma xstep_wf : forall wa w x w', wf_world w -> xstep wa w x = Ok w' -> wf_world w'.
Proof.
  intros wa w x w' Hw H. destruct x as [o|who name ver]; cbn [xstep] in H.
  - eapply step_wf; eassumption.
  - apply splits_migrate_frame in H. subst. exact Hw.
Qed.

Lemma xrun_wf : forall wa xs w, wf_world w -> wf_world (xrun wa w xs).
Proof.
  intros wa xs. induction xs as [|x r IH]; intros w Hw; cbn [xrun fold_left]; [exact Hw|].
  apply IH. unfold xstep'. destruct (xstep wa w x) as [w'|] eqn:E; [|exact Hw].
  eapply xstep_wf; eassumption.
Qed.

(* a history of migrations only changes nothing at all *)
Lemma migrations_only_identity : forall wa ms w,
  xrun wa w (map (fun m => XMigrate (fst (fst m)) (snd (fst m)) (snd m)) ms) = w.
Proof.
  intros wa ms. induction ms as [|[[who name] ver] r IH]; intros w; cbn [map xrun fold_left fst snd]; [reflexivity|].
  assert (xstep' wa w (XMigrate who name ver) = w) as ->.
  { unfold xstep'. cbn [xstep]. destruct (splits_migrate wa who name ver w) as [w'|] eqn:E; [|reflexivity].
    apply splits_migrate_frame in E. exact E. }
  apply IH.
Qed.

Lemma repeat_exact_x : forall wa self admin gadmin ms g xs s dl w',
  group_instantiate ms = Ok g ->
  let w := xrun wa (init_world self admin gadmin g) xs in
  step w (Distribute s dl) = Ok w' ->
  (forall d, count d (requested w dl) <= 1) ->
  let W := total_weight (w_members w) in
  W <> 0 /\ (1 <= length (w_members w) <= 25)%nat /\ can_distribute w s = true /\
  forall d,
    let k := if existsb (N.eqb d) (requested w dl) then held w d / W else 0 in
    (forall m, In m (w_members w) -> m_addr m <> w_self w ->
       bal (w_bank w') (m_addr m) d = bal (w_bank w) (m_addr m) d + m_weight m * k) /\
    (forall a, is_member a (w_members w) = false -> a <> w_self w ->
       bal (w_bank w') a d = bal (w_bank w) a d) /\
    bal (w_bank w') (w_self w) d + W * k = held w d + weight_of (w_members w) (w_self w) * k /\
    W * k <= held w d /\
    (k <> 0 -> held w d - W * k = held w d mod W /\ held w d mod W < W).
Proof.
  intros wa self admin gadmin ms g xs s dl w' HG w H Hc.
  apply (world_exact w s dl w'); try assumption.
  unfold w. apply xrun_wf. eapply init_wf; exact HG.
Qed.

Lemma splits_migrate_frame_fields : forall wa who name ver w w',
  splits_migrate wa who name ver w = Ok w' ->
  w' = w /\ w_bank w' = w_bank w /\ w_members w' = w_members w /\ w_admin w' = w_admin w /\
  w_gadmin w' = w_gadmin w /\ w_self w' = w_self w /\ w_denoms w' = w_denoms w.
Proof. intros wa who name ver w w' H. apply splits_migrate_frame in H. subst. repeat split. Qed.

(* ---------- conservation from the instantiation on ---------- *)
Lemma supply_set : forall b a d v d',
  supply (bank_set b a d v) d' + (if d' =? d then bal b a d else 0) =
  supply b d' + (if d' =? d then v else 0).
Proof.
  induction b as [|[[a0 d0] v0] b IH]; intros a d v d'; cbn [bank_set supply bal].
  - rewrite (N.eqb_sym d d'). destruct (d' =? d); lia.
  - destruct ((a0 =? a) && (d0 =? d)) eqn:E; cbn [supply].
    + apply andb_true_iff in E. destruct E as [_ E2]. apply N.eqb_eq in E2. subst d0.
      rewrite (N.eqb_sym d d'). destruct (d' =? d); lia.
    + specialize (IH a d v d'). destruct (d0 =? d'); destruct (d' =? d); lia.
Qed.

Lemma supply_send : forall b from to d amt b' d',
  bank_send b from to d amt = Some b' -> supply b' d' = supply b d'.
Proof.
  intros b from to d amt b' d' H. unfold bank_send in H.
  destruct (amt <=? bal b from d) eqn:E; [|discriminate]. apply N.leb_le in E.
  inversion H; subst b'; clear H.
  set (b1 := bank_set b from d (bal b from d - amt)).
  pose proof (supply_set b from d (bal b from d - amt) d') as S1. fold b1 in S1.
  pose proof (supply_set b1 to d (bal b1 to d + amt) d') as S2.
  destruct (d' =? d); lia.
Qed.

Lemma supply_exec : forall msgs self b b' d, exec_sends b self msgs = Some b' -> supply b' d = supply b d.
Proof.
  induction msgs as [|m r IH]; intros self b b' d H; cbn [exec_sends] in H.
  - inversion H; reflexivity.
  - destruct m as [t d0 x| | |]; try discriminate.
    destruct (bank_send b self t d0 x) as [b1|] eqn:E; [|discriminate].
    rewrite (IH _ _ _ _ H). eapply supply_send; exact E.
Qed.

Lemma supply_step : forall w o w' d, step w o = Ok w' ->
  supply (w_bank w') d = supply (w_bank w) d + deposited [o] d.
Proof.
  intros w o w' d H. destruct o as [d0 amt|s adds rems|s na|s dl]; cbn [deposited].
  - cbn [step] in H. inversion H; subst; clear H. cbn [w_bank set_bank].
    pose proof (supply_set (w_bank w) (w_self w) d0 (bal (w_bank w) (w_self w) d0 + amt) d) as S.
    rewrite (N.eqb_sym d0 d). destruct (d =? d0); lia.
  - pose proof (step_other_bank _ _ _ H) as E. cbn in E. rewrite E. lia.
  - pose proof (step_other_bank _ _ _ H) as E. cbn in E. rewrite E. lia.
  - destruct (step_distribute_inv _ _ _ _ H) as [msgs [_ [_ [_ [_ [_ [_ X]]]]]]].
    rewrite (supply_exec _ _ _ _ d X). lia.
Qed.

Lemma xdeposited_app1 : forall x d, xdeposited [x] d = match x with XOp o => deposited [o] d | _ => 0 end.
Proof. intros [[d0 amt| | |]|] d; cbn; try reflexivity. Qed.

Lemma supply_xrun : forall wa xs w d,
  supply (w_bank (xrun wa w xs)) d = supply (w_bank w) d + xdeposited xs d.
Proof.
  intros wa xs. induction xs as [|x r IH]; intros w d; cbn [xrun fold_left]; [cbn; lia|].
  fold (xrun wa (xstep' wa w x) r). rewrite IH.
  assert (supply (w_bank (xstep' wa w x)) d = supply (w_bank w) d + xdeposited [x] d) as ->.
  { unfold xstep'. destruct (xstep wa w x) as [w'|] eqn:E.
    - destruct x as [o|who name ver]; cbn [xstep] in E.
      + rewrite (supply_step _ _ _ d E), xdeposited_app1. reflexivity.
      + apply splits_migrate_frame in E. subst. cbn. lia.
    - destruct x as [[d0 amt| | |]|]; cbn [xstep step] in E; try discriminate; cbn; lia. }
  destruct x as [[d0 amt| | |]|]; cbn [xdeposited]; try lia. destruct (d0 =? d); lia.
Qed.

Lemma credit_fold_bank : forall cs w d,
  supply (w_bank (fold_left credit_self cs w)) d = supply (w_bank w) d + coins_of cs d /\
  bal (w_bank (fold_left credit_self cs w)) (w_self w) d = bal (w_bank w) (w_self w) d + coins_of cs d /\
  w_self (fold_left credit_self cs w) = w_self w /\
  w_members (fold_left credit_self cs w) = w_members w /\
  w_admin (fold_left credit_self cs w) = w_admin w.
Proof.
  induction cs as [|c r IH]; intros w d; cbn [fold_left coins_of]; [repeat split; lia|].
  destruct (IH (credit_self w c) d) as (A & B & C & D & E).
  unfold credit_self in *. cbn [w_bank w_self w_members w_admin set_bank] in *.
  pose proof (supply_set (w_bank w) (w_self w) (c_denom c) (bal (w_bank w) (w_self w) (c_denom c) + c_amount c) d) as S.
  rewrite bal_set in B. rewrite N.eqb_refl in B. cbn [andb] in B.
  rewrite (N.eqb_sym (c_denom c) d).
  destruct (d =? c_denom c) eqn:Ed.
  - apply N.eqb_eq in Ed. subst d. repeat split; try assumption; lia.
  - repeat split; try assumption; lia.
Qed.

(* what the contract holds right after a funded instantiation is what was attached;
   nothing else holds anything *)
Lemma funded_init : forall self admin gadmin g cs d,
  let w := init_world_funded self admin gadmin g cs in
  bal (w_bank w) self d = coins_of cs d /\ supply (w_bank w) d = coins_of cs d /\
  w_members w = g /\ w_admin w = admin.
Proof.
  intros self admin gadmin g cs d w. unfold w, init_world_funded.
  destruct (credit_fold_bank cs (init_world self admin gadmin g) d) as (A & B & _ & D & E).
  cbn in *. repeat split; try assumption; lia.
Qed.

(* never creates or loses coins, from the instantiation on: the total over all accounts is
   what was attached to the instantiation plus what was deposited since *)
Lemma conservation_from_instantiate : forall wa self admin gadmin g cs xs d,
  supply (w_bank (xrun wa (init_world_funded self admin gadmin g cs) xs)) d = coins_of cs d + xdeposited xs d.
Proof.
  intros. rewrite supply_xrun. destruct (funded_init self admin gadmin g cs d) as (_ & S & _). cbn zeta in S. rewrite S. reflexivity.
Qed.

Lemma funded_wf : forall self admin gadmin ms g cs,
  group_instantiate ms = Ok g -> wf_world (init_world_funded self admin gadmin g cs).
Proof.
  intros self admin gadmin ms g cs H. unfold init_world_funded.
  assert (forall cs w, wf_world w -> wf_world (fold_left credit_self cs w)) as F.
  { induction cs0 as [|c r IH]; intros w Hw; cbn [fold_left]; [exact Hw|].
    apply IH. destruct Hw as [Hm Hd]. split; cbn; [exact Hm|apply insert_denom_ascending; exact Hd]. }
  apply F. eapply init_wf; exact H.
Qed.

Lemma repeat_exact_funded : forall wa self admin gadmin ms g cs xs s dl w',
  group_instantiate ms = Ok g ->
  let w := xrun wa (init_world_funded self admin gadmin g cs) xs in
  step w (Distribute s dl) = Ok w' ->
  (forall d, count d (requested w dl) <= 1) ->
  let W := total_weight (w_members w) in
  W <> 0 /\ (1 <= length (w_members w) <= 25)%nat /\ can_distribute w s = true /\
  forall d,
    let k := if existsb (N.eqb d) (requested w dl) then held w d / W else 0 in
    (forall m, In m (w_members w) -> m_addr m <> w_self w ->
       bal (w_bank w') (m_addr m) d = bal (w_bank w) (m_addr m) d + m_weight m * k) /\
    (forall a, is_member a (w_members w) = false -> a <> w_self w ->
       bal (w_bank w') a d = bal (w_bank w) a d) /\
    bal (w_bank w') (w_self w) d + W * k = held w d + weight_of (w_members w) (w_self w) * k /\
    W * k <= held w d /\
    (k <> 0 -> held w d - W * k = held w d mod W /\ held w d mod W < W).
Proof.
  intros wa self admin gadmin ms g cs xs s dl w' HG w H Hc.
  apply (world_exact w s dl w'); try assumption.
  unfold w. apply xrun_wf. eapply funded_wf; exact HG.
Qed.
