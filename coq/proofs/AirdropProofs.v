(* Lemmas about the airdrop model (coq/model/Airdrop.v).  Stdlib only, no axioms. *)
From Coq Require Import List NArith Bool Lia ZArith ZifyN ZifyBool.
From LP Require Import Prelude Pay Sg1 Consts Airdrop Sg1Proofs.
Import ListNotations.
Local Open Scope N_scope.

(* ------------------------------------------------------------------------------ *)
(* byte strings                                                                    *)
(* ------------------------------------------------------------------------------ *)

Lemma bytes_eqb_eq : forall a b : bytes, bytes_eqb a b = true <-> a = b.
Proof.
  unfold bytes_eqb. induction a as [|x a IH]; intros [|y b]; cbn; split; intro H; try congruence; try reflexivity.
  - apply andb_true_iff in H as [H1 H2]. apply N.eqb_eq in H1. apply IH in H2. congruence.
  - inversion H; subst. apply andb_true_iff. split. apply N.eqb_refl. apply IH. reflexivity.
Qed.

Lemma bytes_eqb_refl : forall a, bytes_eqb a a = true.
Proof. intro a. apply bytes_eqb_eq. reflexivity. Qed.

Lemma bytes_eqb_neq : forall a b : bytes, bytes_eqb a b = false <-> a <> b.
Proof.
  intros a b. split.
  - intros H E. apply bytes_eqb_eq in E. congruence.
  - intros H. destruct (bytes_eqb a b) eqn:E; [apply bytes_eqb_eq in E; contradiction | reflexivity].
Qed.

Lemma mem_In : forall x l, mem x l = true <-> In x l.
Proof.
  induction l as [|y l IH]; cbn.
  - split; [discriminate | tauto].
  - rewrite orb_true_iff, IH, bytes_eqb_eq. split; intros [H|H]; auto.
Qed.

Lemma prefixb_spec : forall p s, prefixb p s = true <-> exists r, s = p ++ r.
Proof.
  induction p as [|a p IH]; intros s; cbn.
  - split; [intros _; exists s; reflexivity | reflexivity].
  - destruct s as [|b s].
    + split; [discriminate | intros [r Hr]; discriminate].
    + rewrite andb_true_iff, N.eqb_eq, IH. split.
      * intros [-> [r ->]]. exists r. reflexivity.
      * intros [r Hr]. inversion Hr; subst. split; [reflexivity | exists r; reflexivity].
Qed.

Lemma containsb_spec : forall p s, containsb p s = true <-> exists l r, s = l ++ p ++ r.
Proof.
  intros p. induction s as [|c s IH]; cbn.
  - rewrite prefixb_spec. split.
    + intros [r Hr]. exists [], r. exact Hr.
    + intros [l [r Hr]]. destruct l; cbn in Hr.
      * exists r. exact Hr.
      * discriminate.
  - rewrite orb_true_iff, IH, prefixb_spec. split.
    + intros [[r Hr] | [l [r Hr]]].
      * exists [], r. exact Hr.
      * exists (c :: l), r. cbn. congruence.
    + intros [l [r Hr]]. destruct l as [|c' l]; cbn in Hr.
      * left. exists r. exact Hr.
      * right. inversion Hr; subst. exists l, r. reflexivity.
Qed.

(* ---- str::replace: the three equations that characterise the scan *)

Lemma replace_go_skip : forall pat to l rest,
  replace_go pat to (length l) (l ++ rest) = replace_go pat to O rest.
Proof. induction l as [|x l IH]; intros rest; cbn; [reflexivity | apply IH]. Qed.

Lemma replace_nil : forall pat to, replace pat to [] = [].
Proof. reflexivity. Qed.

Lemma replace_match : forall pat to rest, pat <> [] ->
  replace pat to (pat ++ rest) = to ++ replace pat to rest.
Proof.
  intros pat to rest Hne. unfold replace. destruct pat as [|a p]; [congruence|].
  cbn [app replace_go].
  assert (Hp : prefixb (a :: p) (a :: p ++ rest) = true) by (apply prefixb_spec; exists rest; reflexivity).
  rewrite Hp. cbn [length pred]. rewrite replace_go_skip. reflexivity.
Qed.

Lemma replace_nomatch : forall pat to c s, prefixb pat (c :: s) = false ->
  replace pat to (c :: s) = c :: replace pat to s.
Proof. intros pat to c s H. unfold replace. cbn [replace_go]. rewrite H. reflexivity. Qed.

(* the scan positions depend on the template only: the length of the result is affine in
   the length of the replacement, with slope the number of matches *)
Lemma replace_length_affine : forall pat, pat <> [] -> forall n s, (length s <= n)%nat ->
  exists U C : nat, (forall to, length (replace pat to s) = (U + C * length to)%nat)
                    /\ (containsb pat s = true -> (1 <= C)%nat).
Proof.
  intros pat Hne. induction n as [|n IH]; intros s Hlen.
  - destruct s; [|cbn in Hlen; lia]. exists O, O. split; [reflexivity|].
    cbn. destruct pat; [congruence | cbn; discriminate].
  - destruct s as [|c s].
    + exists O, O. split; [reflexivity|]. cbn. destruct pat; [congruence | cbn; discriminate].
    + destruct (prefixb pat (c :: s)) eqn:Hp.
      * apply prefixb_spec in Hp as [rest Hr].
        assert (Hl : (length rest <= n)%nat).
        { apply (f_equal (@length N)) in Hr. rewrite app_length in Hr. cbn in Hr, Hlen.
          destruct pat; [congruence|]. cbn in Hr. lia. }
        destruct (IH rest Hl) as [U [C [HL _]]].
        exists U, (S C). split; [|lia].
        intros to. rewrite Hr, replace_match by assumption. rewrite app_length, HL. lia.
      * assert (Hl : (length s <= n)%nat) by (cbn in Hlen; lia).
        destruct (IH s Hl) as [U [C [HL HC]]].
        exists (S U), C. split.
        -- intros to. rewrite replace_nomatch by assumption. cbn. rewrite HL. reflexivity.
        -- intros Hc. apply HC. cbn in Hc. rewrite Hp in Hc. exact Hc.
Qed.

(* the first occurrence sits at a fixed offset: what precedes it is copied verbatim *)
Lemma replace_first_occurrence : forall pat, pat <> [] -> forall s, containsb pat s = true ->
  exists l r, forall to, replace pat to s = l ++ to ++ replace pat to r.
Proof.
  intros pat Hne. induction s as [|c s IH]; intros Hc.
  - cbn in Hc. destruct pat; [congruence | cbn in Hc; discriminate].
  - destruct (prefixb pat (c :: s)) eqn:Hp.
    + apply prefixb_spec in Hp as [rest Hr]. exists [], rest. intros to.
      rewrite Hr, replace_match by assumption. reflexivity.
    + cbn in Hc. rewrite Hp in Hc. cbn in Hc. destruct (IH Hc) as [l [r H]].
      exists (c :: l), r. intros to. rewrite replace_nomatch by assumption. rewrite H. reflexivity.
Qed.

Lemma app_eq_same_length : forall (A : Type) (a b x y : list A),
  a ++ x = b ++ y -> length a = length b -> a = b.
Proof.
  intros A. induction a as [|h a IH]; intros [|h' b] x y H L; cbn in *; try discriminate; try reflexivity.
  inversion H; subst. f_equal. eapply IH; eauto.
Qed.

Theorem replace_injective : forall pat s a b, pat <> [] -> containsb pat s = true ->
  replace pat a s = replace pat b s -> a = b.
Proof.
  intros pat s a b Hne Hc Heq.
  destruct (replace_length_affine pat Hne (length s) s (le_n _)) as [U [C [HL HC]]].
  specialize (HC Hc).
  assert (Hlen : length a = length b).
  { pose proof (HL a) as Ha. pose proof (HL b) as Hb. rewrite Heq in Ha. rewrite Ha in Hb. nia. }
  destruct (replace_first_occurrence pat Hne s Hc) as [l [r H]].
  rewrite (H a), (H b) in Heq. apply app_inv_head in Heq.
  eapply app_eq_same_length; eauto.
Qed.

Lemma WALLET_nonempty : WALLET <> [].
Proof. discriminate. Qed.

Theorem plaintext_injective : forall t a b,
  containsb WALLET t = true -> plaintext t a = plaintext t b -> a = b.
Proof. intros t a b Hc H. eapply replace_injective; eauto using WALLET_nonempty. Qed.

(* ------------------------------------------------------------------------------ *)
(* finite maps                                                                     *)
(* ------------------------------------------------------------------------------ *)

Lemma bmap_find_set_same : forall k v m, bmap_find k (bmap_set k v m) = Some v.
Proof.
  induction m as [|[k' v'] m IH]; cbn.
  - rewrite bytes_eqb_refl. reflexivity.
  - destruct (bytes_eqb k k') eqn:E; cbn; rewrite ?bytes_eqb_refl, ?E; auto.
Qed.

Lemma bmap_find_set_other : forall k k' v m, k' <> k -> bmap_find k' (bmap_set k v m) = bmap_find k' m.
Proof.
  intros k k' v m Hne. induction m as [|[k2 v2] m IH]; cbn.
  - apply bytes_eqb_neq in Hne. rewrite Hne. reflexivity.
  - destruct (bytes_eqb k k2) eqn:E; cbn.
    + apply bytes_eqb_eq in E; subst k2. apply bytes_eqb_neq in Hne. rewrite Hne. reflexivity.
    + destruct (bytes_eqb k' k2); auto.
Qed.

Lemma bmap_get_set_same : forall k v m, bmap_get k (bmap_set k v m) = v.
Proof. intros. unfold bmap_get. rewrite bmap_find_set_same. reflexivity. Qed.

Lemma bmap_get_set_other : forall k k' v m, k' <> k -> bmap_get k' (bmap_set k v m) = bmap_get k' m.
Proof. intros. unfold bmap_get. rewrite bmap_find_set_other by assumption. reflexivity. Qed.

(* ------------------------------------------------------------------------------ *)
(* signature decomposition                                                         *)
(* ------------------------------------------------------------------------------ *)

Lemma split_last_spec : forall s v rs, split_last s = Some (v, rs) <-> s = rs ++ [v].
Proof.
  intros s v rs. unfold split_last. split.
  - destruct (rev s) as [|x r] eqn:E; [discriminate|]. intros H. inversion H; subst.
    rewrite <- (rev_involutive s), E. reflexivity.
  - intros ->. rewrite rev_app_distr. cbn. rewrite rev_involutive. reflexivity.
Qed.

Lemma split_last_none : forall s, split_last s = None <-> s = [].
Proof.
  intros s. unfold split_last. split.
  - destruct (rev s) eqn:E; [|discriminate]. intros _.
    rewrite <- (rev_involutive s), E. reflexivity.
  - intros ->. reflexivity.
Qed.

(* the accepted values of the last signature byte and how they are normalised *)
Lemma recovery_param_spec : forall v rid,
  recovery_param v = Ok rid <->
  (v = 0 /\ rid = 0) \/ (v = 1 /\ rid = 1) \/ (v = 27 /\ rid = 0) \/ (v = 28 /\ rid = 1).
Proof.
  intros v rid. unfold recovery_param.
  destruct (v =? 0) eqn:E0; [apply N.eqb_eq in E0; subst; cbn; split; [intros H; inversion H; auto | intros [[_ <-]|[[H _]|[[H _]|[H _]]]]; try discriminate; reflexivity]|].
  destruct (v =? 1) eqn:E1; [apply N.eqb_eq in E1; subst; cbn; split; [intros H; inversion H; auto | intros [[H _]|[[_ <-]|[[H _]|[H _]]]]; try discriminate; reflexivity]|].
  cbn. destruct (v =? 27) eqn:E27; [apply N.eqb_eq in E27; subst; split; [intros H; inversion H; auto | intros [[H _]|[[H _]|[[_ <-]|[H _]]]]; try discriminate; reflexivity]|].
  destruct (v =? 28) eqn:E28; [apply N.eqb_eq in E28; subst; split; [intros H; inversion H; auto 6 | intros [[H _]|[[H _]|[[H _]|[_ <-]]]]; try discriminate; reflexivity]|].
  apply N.eqb_neq in E0, E1, E27, E28. split; [discriminate|]. intros [[H _]|[[H _]|[[H _]|[H _]]]]; congruence.
Qed.

Section ClaimProofs.
  Variable hexdec : bytes -> option bytes.
  Variable keccak : bytes -> bytes.
  Variable recover : bytes -> bytes -> N -> option bytes.
  Variable address_of : bytes -> option bytes.
  Variable verify : bytes -> bytes -> bytes -> option bool.

  Notation decode_address' := (decode_address hexdec).
  Notation eth_hash' := (eth_hash keccak).
  Notation vet := (verify_ethereum_text hexdec keccak recover address_of verify).
  Notation claim' := (claim hexdec keccak recover address_of verify).
  Notation claim_tx' := (claim_tx hexdec keccak recover address_of verify).
  Notation step' := (step hexdec keccak recover address_of verify).
  Notation run' := (run hexdec keccak recover address_of verify).

  (* 42 characters, "0x", 40 digits that decode to 20 bytes *)
  Lemma decode_address_spec : forall a d,
    decode_address' a = Ok d <->
    exists digits, a = 48 :: 120 :: digits /\ len a = 42 /\ hexdec digits = Some d /\ len d = 20.
  Proof.
    intros a d. unfold decode_address. split.
    - destruct (len a =? 42) eqn:E; cbn [negb]; [|discriminate]. apply N.eqb_eq in E.
      destruct a as [|c0 [|c1 digits]]; try discriminate.
      destruct ((c0 =? 48) && (c1 =? 120)) eqn:E2; cbn [negb]; [|discriminate].
      apply andb_true_iff in E2 as [E3 E4]. apply N.eqb_eq in E3, E4. subst.
      destruct (hexdec digits) as [d'|] eqn:Eh; [|discriminate].
      destruct (len d' =? 20) eqn:E5; [|discriminate]. apply N.eqb_eq in E5.
      intros H. inversion H; subst. exists digits. auto.
    - intros [digits [-> [E [Eh E5]]]]. rewrite E. cbn [negb N.eqb Pos.eqb andb]. rewrite Eh, E5. reflexivity.
  Qed.

  (* what the contract accepts as a personal-sign signature `sig` by `signer` over `text` *)
  Definition accepted_signature (text sig signer : bytes) : Prop :=
    exists a v rs rid pk,
      decode_address' signer = Ok a /\ sig = rs ++ [v] /\ len rs = 64 /\
      recovery_param v = Ok rid /\
      recover (eth_hash' text) rs rid = Some pk /\ address_of pk = Some a /\
      verify (eth_hash' text) rs pk = Some true.

  Lemma verify_ethereum_text_true : forall text sig signer,
    vet text sig signer = Ok true <-> accepted_signature text sig signer.
  Proof.
    intros text sig signer. unfold verify_ethereum_text, accepted_signature. split.
    - destruct (decode_address' signer) as [a|] eqn:Ea; cbn [bind]; [|discriminate].
      destruct (split_last sig) as [[v rs]|] eqn:Es; [|discriminate].
      apply split_last_spec in Es.
      destruct (recovery_param v) as [rid|] eqn:Er; cbn [bind]; [|discriminate].
      destruct (len rs =? 64) eqn:El; cbn [negb]; [|discriminate]. apply N.eqb_eq in El.
      destruct (recover (eth_hash' text) rs rid) as [pk|] eqn:Erec; [|discriminate].
      destruct (address_of pk) as [a'|] eqn:Eaddr; [|discriminate].
      destruct (bytes_eqb a a') eqn:Eeq; cbn [negb]; [|discriminate].
      apply bytes_eqb_eq in Eeq. subst a'.
      destruct (verify (eth_hash' text) rs pk) as [b|] eqn:Ev; [|discriminate].
      intros H. inversion H; subst. exists a, v, rs, rid, pk. auto 10.
    - intros [a [v [rs [rid [pk [Ea [Es [El [Er [Erec [Eaddr Ev]]]]]]]]]]].
      rewrite Ea. cbn [bind]. apply split_last_spec in Es. rewrite Es, Er. cbn [bind].
      rewrite El. cbn [negb N.eqb Pos.eqb]. rewrite Erec, Eaddr, bytes_eqb_refl. cbn [negb].
      rewrite Ev. reflexivity.
  Qed.

  (* ---- the handler: success exactly when ... and then exactly this *)
  Theorem claim_ok_iff : forall mwl st sender eth_addr eth_sig st' msgs,
    claim' mwl st sender eth_addr eth_sig = Ok (st', msgs) <->
    eligible st eth_addr = true /\
    (exists sig, hexdec eth_sig = Some sig /\
                 accepted_signature (plaintext (a_template st) sender) sig eth_addr) /\
    bmap_get eth_addr (a_counts st) < a_limit st /\
    exists wl, mwl = Some wl /\
      st' = set_counts st (bmap_set eth_addr (bmap_get eth_addr (a_counts st) + 1) (a_counts st)) /\
      msgs = [ASend sender NATIVE (a_amount st); AAddMembers wl [sender]].
  Proof.
    intros mwl st sender eth_addr eth_sig st' msgs. unfold claim. split.
    - destruct (eligible st eth_addr) eqn:Ee; cbn [negb]; [|discriminate].
      destruct (hexdec eth_sig) as [sig|] eqn:Eh; [|discriminate].
      destruct (vet (plaintext (a_template st) sender) sig eth_addr) as [good|] eqn:Ev; cbn [bind]; [|discriminate].
      destruct good; cbn [negb]; [|discriminate].
      apply verify_ethereum_text_true in Ev.
      destruct (bmap_get eth_addr (a_counts st) <? a_limit st) eqn:El; cbn [negb]; [|discriminate].
      apply N.ltb_lt in El.
      destruct mwl as [wl|]; [|discriminate].
      intros H. inversion H; subst. repeat split; eauto.
    - intros [Ee [[sig [Eh Ev]] [El [wl [-> [-> ->]]]]]].
      rewrite Ee. cbn [negb]. rewrite Eh. apply verify_ethereum_text_true in Ev. rewrite Ev. cbn [bind negb].
      apply N.ltb_lt in El. rewrite El. reflexivity.
  Qed.

  (* a failed call is an `Err`: it carries no state and no messages by construction; at
     world level the failed transaction leaves everything as it was *)
  Lemma step_err_unchanged : forall w sender eth_addr eth_sig,
    claim_tx' w sender eth_addr eth_sig = Err -> step' w (sender, eth_addr, eth_sig) = w.
  Proof. intros w s e g H. unfold step. rewrite H. reflexivity. Qed.

  Lemma step_ok : forall w sender eth_addr eth_sig w',
    claim_tx' w sender eth_addr eth_sig = Ok w' -> step' w (sender, eth_addr, eth_sig) = w'.
  Proof. intros w s e g w' H. unfold step. rewrite H. reflexivity. Qed.

  (* ---- the whole transaction *)
  Definition cwl_after (c : cwl) (sender : bytes) : cwl :=
    if mem sender (cw_members c) then c
    else mkCwl (cw_airdrop_admin c) (sender :: cw_members c) (cw_num c + 1) (cw_limit c).

  Theorem claim_tx_ok_iff : forall w sender eth_addr eth_sig w',
    claim_tx' w sender eth_addr eth_sig = Ok w' <->
    exists st',
      claim' (w_minter_wl w) (w_air w) sender eth_addr eth_sig
        = Ok (st', [ASend sender NATIVE (a_amount (w_air w)); AAddMembers (w_cwl_id w) [sender]]) /\
      0 < a_amount (w_air w) /\ a_amount (w_air w) <= w_bal w /\
      cw_airdrop_admin (w_cwl w) = true /\ cw_num (w_cwl w) < cw_limit (w_cwl w) /\
      w' = mkWorld st' (w_bal w - a_amount (w_air w)) (w_minter_wl w) (w_cwl_id w)
                   (cwl_after (w_cwl w) sender)
                   (bmap_set sender (bmap_get sender (w_recv w) + a_amount (w_air w)) (w_recv w)).
  Proof.
    intros w sender eth_addr eth_sig w'. unfold claim_tx. split.
    - destruct (claim' (w_minter_wl w) (w_air w) sender eth_addr eth_sig) as [[st' msgs]|] eqn:Ec; cbn [bind]; [|discriminate].
      pose proof Ec as Ec'. apply claim_ok_iff in Ec' as [_ [_ [_ [wl [Hwl [Hst Hmsgs]]]]]].
      subst msgs. cbn [fst snd dispatch exec_msg set_air w_bal w_air w_minter_wl w_cwl_id w_cwl w_recv].
      rewrite N.eqb_refl. cbn [andb].
      destruct (0 <? a_amount (w_air w)) eqn:E0; cbn [andb]; [|discriminate].
      destruct (a_amount (w_air w) <=? w_bal w) eqn:E1; cbn [bind]; [|discriminate].
      cbn [exec_msg w_cwl_id w_cwl w_bal w_air w_minter_wl w_recv].
      destruct (wl =? w_cwl_id w) eqn:E2; [|discriminate]. apply N.eqb_eq in E2. subst wl.
      unfold cwl_add_members.
      destruct (cw_airdrop_admin (w_cwl w)) eqn:E3; [|discriminate].
      cbn [cwl_add].
      destruct (cw_limit (w_cwl w) <=? cw_num (w_cwl w)) eqn:E4; [discriminate|].
      apply N.ltb_lt in E0. apply N.leb_le in E1. apply N.leb_gt in E4.
      intros H. exists st'. repeat split; auto.
      unfold cwl_after. destruct (mem sender (cw_members (w_cwl w))); cbn [bind dispatch] in H; inversion H; reflexivity.
    - intros [st' [Ec [E0 [E1 [E3 [E4 ->]]]]]]. rewrite Ec. cbn [bind fst snd dispatch exec_msg set_air w_bal w_air w_minter_wl w_cwl_id w_cwl w_recv].
      rewrite N.eqb_refl. apply N.ltb_lt in E0. apply N.leb_le in E1. rewrite E0, E1. cbn [andb bind].
      cbn [exec_msg w_cwl_id w_cwl w_bal w_air w_minter_wl w_recv]. rewrite N.eqb_refl.
      unfold cwl_add_members. rewrite E3. cbn [cwl_add]. apply N.leb_gt in E4. rewrite E4.
      unfold cwl_after. destruct (mem sender (cw_members (w_cwl w))); reflexivity.
  Qed.

  (* ---- effects of a successful claim, item by item *)
  Theorem claim_tx_effects : forall w sender eth_addr eth_sig w',
    claim_tx' w sender eth_addr eth_sig = Ok w' ->
    let st := w_air w in let st' := w_air w' in
    (* who may claim *)
    eligible st eth_addr = true /\
    (exists sig, hexdec eth_sig = Some sig /\ accepted_signature (plaintext (a_template st) sender) sig eth_addr) /\
    bmap_get eth_addr (a_counts st) < a_limit st /\
    (* payout: exactly the airdrop amount leaves the contract and reaches the sender *)
    w_bal w' + a_amount st = w_bal w /\
    bmap_get sender (w_recv w') = bmap_get sender (w_recv w) + a_amount st /\
    (forall other, other <> sender -> bmap_get other (w_recv w') = bmap_get other (w_recv w)) /\
    (* whitelist: the sender is a member afterwards, nobody is dropped, nobody else is added *)
    w_minter_wl w = Some (w_cwl_id w) /\
    mem sender (cw_members (w_cwl w')) = true /\
    (forall m, mem m (cw_members (w_cwl w')) = true <-> (m = sender \/ mem m (cw_members (w_cwl w)) = true)) /\
    (* count: this address + 1, every other address untouched *)
    bmap_get eth_addr (a_counts st') = bmap_get eth_addr (a_counts st) + 1 /\
    (forall other, other <> eth_addr -> bmap_find other (a_counts st') = bmap_find other (a_counts st)) /\
    (* configuration untouched *)
    a_template st' = a_template st /\ a_amount st' = a_amount st /\ a_list st' = a_list st /\
    a_limit st' = a_limit st /\ w_minter_wl w' = w_minter_wl w /\ w_cwl_id w' = w_cwl_id w /\
    cw_airdrop_admin (w_cwl w') = cw_airdrop_admin (w_cwl w) /\ cw_limit (w_cwl w') = cw_limit (w_cwl w).
  Proof.
    intros w sender eth_addr eth_sig w' H. apply claim_tx_ok_iff in H as [st' [Ec [E0 [E1 [E3 [E4 ->]]]]]].
    apply claim_ok_iff in Ec as [Ee [Hsig [El [wl [Hwl [Hst Hmsgs]]]]]].
    inversion Hmsgs; subst wl. subst st'.
    cbn [w_air w_bal w_recv w_cwl w_minter_wl w_cwl_id set_counts a_counts a_template a_amount a_list a_limit].
    repeat split; auto.
    - lia.
    - apply bmap_get_set_same.
    - intros other Hne. apply bmap_get_set_other. exact Hne.
    - unfold cwl_after. destruct (mem sender (cw_members (w_cwl w))) eqn:Em; cbn; [exact Em | rewrite bytes_eqb_refl; reflexivity].
    - unfold cwl_after. destruct (mem sender (cw_members (w_cwl w))) eqn:Em; cbn; auto.
      rewrite orb_true_iff, bytes_eqb_eq. tauto.
    - unfold cwl_after. destruct (mem sender (cw_members (w_cwl w))) eqn:Em; cbn.
      + intros [->|Hm]; auto.
      + rewrite orb_true_iff, bytes_eqb_eq. tauto.
    - apply bmap_get_set_same.
    - intros other Hne. apply bmap_find_set_other. exact Hne.
    - unfold cwl_after. destruct (mem sender (cw_members (w_cwl w))); reflexivity.
    - unfold cwl_after. destruct (mem sender (cw_members (w_cwl w))); reflexivity.
  Qed.

  (* ---- histories *)
  Definition call := (bytes * bytes * bytes)%type.     (* sender, eth address, signature *)
  Definition call_addr (c : call) : bytes := snd (fst c).

  Definition succeeds (w : world) (c : call) : bool :=
    let '(s, e, g) := c in is_ok (claim_tx' w s e g).

  (* successful claims for the address string `a` in a history *)
  Fixpoint successes (a : bytes) (w : world) (cs : list call) : N :=
    match cs with
    | [] => 0
    | c :: cs' => (if succeeds w c && bytes_eqb (call_addr c) a then 1 else 0) + successes a (step' w c) cs'
    end.
  Fixpoint total_successes (w : world) (cs : list call) : N :=
    match cs with
    | [] => 0
    | c :: cs' => (if succeeds w c then 1 else 0) + total_successes (step' w c) cs'
    end.

  Lemma run_cons : forall w c cs, run' w (c :: cs) = run' (step' w c) cs.
  Proof. reflexivity. Qed.

  Lemma step_cases : forall w c,
    (succeeds w c = true /\ claim_tx' w (fst (fst c)) (snd (fst c)) (snd c) = Ok (step' w c)) \/
    (succeeds w c = false /\ step' w c = w).
  Proof.
    intros w [[s e] g]. unfold succeeds, step. cbn [fst snd].
    destruct (claim_tx' w s e g); cbn; auto.
  Qed.

  Lemma step_config : forall w c,
    a_limit (w_air (step' w c)) = a_limit (w_air w) /\ a_amount (w_air (step' w c)) = a_amount (w_air w) /\
    a_list (w_air (step' w c)) = a_list (w_air w) /\ a_template (w_air (step' w c)) = a_template (w_air w).
  Proof.
    intros w c. destruct (step_cases w c) as [[_ H]|[_ H]].
    - apply claim_tx_effects in H. cbv zeta in H. tauto.
    - rewrite H. auto.
  Qed.

  Lemma run_config : forall cs w,
    a_limit (w_air (run' w cs)) = a_limit (w_air w) /\ a_amount (w_air (run' w cs)) = a_amount (w_air w) /\
    a_list (w_air (run' w cs)) = a_list (w_air w) /\ a_template (w_air (run' w cs)) = a_template (w_air w).
  Proof.
    induction cs as [|c cs IH]; intros w; [cbn; auto|].
    rewrite run_cons. destruct (IH (step' w c)) as [H1 [H2 [H3 H4]]]. destruct (step_config w c) as [G1 [G2 [G3 G4]]].
    repeat split; congruence.
  Qed.

  Lemma step_count : forall w c a,
    bmap_get a (a_counts (w_air (step' w c))) =
    bmap_get a (a_counts (w_air w)) + (if succeeds w c && bytes_eqb (call_addr c) a then 1 else 0).
  Proof.
    intros w c a. destruct (step_cases w c) as [[Hs H]|[Hs H]]; rewrite Hs; cbn [andb].
    - apply claim_tx_effects in H. cbv zeta in H.
      destruct H as [_ [_ [_ [_ [_ [_ [_ [_ [_ [Hc [Ho _]]]]]]]]]]].
      destruct c as [[s e] g]. unfold call_addr. cbn [fst snd] in *.
      destruct (bytes_eqb e a) eqn:E.
      + apply bytes_eqb_eq in E. subst a. exact Hc.
      + apply bytes_eqb_neq in E. unfold bmap_get. rewrite Ho by congruence. lia.
    - rewrite H. lia.
  Qed.

  (* the raw counter is exactly the number of successful claims *)
  Theorem run_counts : forall cs w a,
    bmap_get a (a_counts (w_air (run' w cs))) = bmap_get a (a_counts (w_air w)) + successes a w cs.
  Proof.
    induction cs as [|c cs IH]; intros w a; [cbn; lia|].
    rewrite run_cons, IH, step_count. cbn [successes]. lia.
  Qed.

  Lemma step_limit_inv : forall w c,
    (forall a, bmap_get a (a_counts (w_air w)) <= a_limit (w_air w)) ->
    (forall a, bmap_get a (a_counts (w_air (step' w c))) <= a_limit (w_air (step' w c))).
  Proof.
    intros w c Hinv a. destruct (step_config w c) as [-> _].
    destruct (step_cases w c) as [[Hs H]|[Hs H]].
    - apply claim_tx_effects in H. cbv zeta in H.
      destruct H as [_ [_ [Hlt [_ [_ [_ [_ [_ [_ [Hc [Ho _]]]]]]]]]]].
      destruct c as [[s e] g]. cbn [fst snd] in *.
      destruct (bytes_eqb a e) eqn:E.
      + apply bytes_eqb_eq in E. subst a. rewrite Hc. lia.
      + apply bytes_eqb_neq in E. unfold bmap_get. rewrite Ho by exact E. apply Hinv.
    - rewrite H. apply Hinv.
  Qed.

  Theorem limit_respected : forall cs w,
    (forall a, bmap_get a (a_counts (w_air w)) <= a_limit (w_air w)) ->
    forall a, bmap_get a (a_counts (w_air w)) + successes a w cs <= a_limit (w_air w).
  Proof.
    intros cs w Hinv a. rewrite <- run_counts.
    destruct (run_config cs w) as [<- _].
    revert w Hinv. induction cs as [|c cs IH]; intros w Hinv; [apply Hinv|].
    rewrite run_cons. apply IH. apply step_limit_inv. exact Hinv.
  Qed.

  Corollary limit_respected_fresh : forall cs w a,
    a_counts (w_air w) = [] -> successes a w cs <= a_limit (w_air w).
  Proof.
    intros cs w a H. pose proof (limit_respected cs w) as L.
    assert (Hinv : forall a, bmap_get a (a_counts (w_air w)) <= a_limit (w_air w)) by (intro; rewrite H; cbn; lia).
    specialize (L Hinv a). rewrite H in L. cbn in L. lia.
  Qed.

  (* total-paid accounting over a history *)
  Lemma step_balance : forall w c,
    w_bal (step' w c) + a_amount (w_air w) * (if succeeds w c then 1 else 0) = w_bal w.
  Proof.
    intros w c. destruct (step_cases w c) as [[Hs H]|[Hs H]]; rewrite Hs.
    - apply claim_tx_effects in H. cbv zeta in H. destruct H as [_ [_ [_ [Hb _]]]]. lia.
    - rewrite H. lia.
  Qed.

  Theorem run_total_paid : forall cs w,
    w_bal (run' w cs) + a_amount (w_air w) * total_successes w cs = w_bal w.
  Proof.
    induction cs as [|c cs IH]; intros w; [cbn; lia|].
    rewrite run_cons. cbn [total_successes].
    pose proof (IH (step' w c)) as H1. pose proof (step_balance w c) as H2.
    destruct (step_config w c) as [_ [Ha _]]. rewrite Ha in H1.
    destruct (succeeds w c); nia.
  Qed.

  (* ---- a signature is bound to one wallet *)

  (* The text checked for claimant b differs from the text signed for claimant a. *)
  Theorem claim_binds_wallet : forall mwl st a b eth_addr eth_sig r,
    containsb WALLET (a_template st) = true -> a <> b ->
    claim' mwl st b eth_addr eth_sig = Ok r ->
    exists sig, hexdec eth_sig = Some sig /\
      accepted_signature (plaintext (a_template st) b) sig eth_addr /\
      plaintext (a_template st) b <> plaintext (a_template st) a.
  Proof.
    intros mwl st a b eth_addr eth_sig [st' msgs] Hc Hne H.
    apply claim_ok_iff in H as [_ [[sig [Hh Hs]] _]].
    exists sig. repeat split; auto.
    intros E. apply plaintext_injective in E; auto.
  Qed.

  (* Named assumption, as a hypothesis: `Signed` is the set of texts the holder of the
     address's key has personally signed; the hypothesis `Hunforgeable` says every
     signature the verification accepts for that address is over a text in that set
     (existential unforgeability of ECDSA together with collision resistance of Keccak-256
     on the personal-sign encoding).  Then a holder who signed only the text naming
     wallet a cannot be claimed for by any other wallet b, whatever signature b presents. *)
  Theorem replay_rejected : forall (Signed : bytes -> Prop) mwl st a b eth_addr eth_sig,
    (forall text sig, accepted_signature text sig eth_addr -> Signed text) ->
    (forall text, Signed text -> text = plaintext (a_template st) a) ->
    containsb WALLET (a_template st) = true -> a <> b ->
    claim' mwl st b eth_addr eth_sig = Err.
  Proof.
    intros Signed mwl st a b eth_addr eth_sig Hunforgeable Honly Hc Hne.
    destruct (claim' mwl st b eth_addr eth_sig) as [r|] eqn:E; [|reflexivity].
    destruct (claim_binds_wallet mwl st a b eth_addr eth_sig r Hc Hne E) as [sig [_ [Hs Hd]]].
    exfalso. apply Hd. apply Honly. eapply Hunforgeable. exact Hs.
  Qed.

  (* the same for the address: a signature by another key is useless unless it is a
     forgery for the listed address *)
  Theorem claim_needs_the_listed_key : forall mwl st sender eth_addr eth_sig r,
    claim' mwl st sender eth_addr eth_sig = Ok r ->
    In eth_addr (a_list st) /\
    exists sig a v rs rid pk, hexdec eth_sig = Some sig /\ sig = rs ++ [v] /\
      decode_address' eth_addr = Ok a /\ recovery_param v = Ok rid /\
      recover (eth_hash' (plaintext (a_template st) sender)) rs rid = Some pk /\
      address_of pk = Some a.
  Proof.
    intros mwl st sender eth_addr eth_sig [st' msgs] H.
    apply claim_ok_iff in H as (He & (sig & Hh & (a & v & rs & rid & pk & Ea & Es & _ & Er & Erec & Eaddr & _)) & _).
    split; [apply mem_In; exact He|]. exists sig, a, v, rs, rid, pk. auto 10.
  Qed.
  (* claim_ok_iff with every definition unfolded down to the oracles *)
  Theorem claim_ok_spelled : forall mwl st sender eth_addr eth_sig st' msgs,
    claim' mwl st sender eth_addr eth_sig = Ok (st', msgs) ->
    In eth_addr (a_list st) /\
    (exists sig rs v rid digits a pk,
       hexdec eth_sig = Some sig /\ sig = rs ++ [v] /\ len rs = 64 /\
       ((v = 0 /\ rid = 0) \/ (v = 1 /\ rid = 1) \/ (v = 27 /\ rid = 0) \/ (v = 28 /\ rid = 1)) /\
       eth_addr = 48 :: 120 :: digits /\ len eth_addr = 42 /\ hexdec digits = Some a /\ len a = 20 /\
       recover (keccak (eth_preimage (plaintext (a_template st) sender))) rs rid = Some pk /\
       address_of pk = Some a /\
       verify (keccak (eth_preimage (plaintext (a_template st) sender))) rs pk = Some true) /\
    bmap_get eth_addr (a_counts st) < a_limit st /\
    exists wl, mwl = Some wl /\
      msgs = [ASend sender NATIVE (a_amount st); AAddMembers wl [sender]] /\
      st' = mkAState (a_template st) (a_amount st) (a_list st) (a_limit st)
                     (bmap_set eth_addr (bmap_get eth_addr (a_counts st) + 1) (a_counts st)).
  Proof.
    intros mwl st sender eth_addr eth_sig st' msgs H.
    apply claim_ok_iff in H as (He & (sig & Hh & (a & v & rs & rid & pk & Ea & Es & El & Er & Erec & Eaddr & Ev)) & Hlt & wl & Hwl & Hst & Hm).
    apply decode_address_spec in Ea as (digits & E1 & E2 & E3 & E4).
    apply recovery_param_spec in Er.
    split; [apply mem_In; exact He|]. split.
    - exists sig, rs, v, rid, digits, a, pk. repeat split; auto.
    - split; [exact Hlt|]. exists wl. auto.
  Qed.

  Lemma len_app_one : forall (rs : bytes) v, len (rs ++ [v]) = len rs + 1.
  Proof. intros. unfold len. rewrite app_length. cbn. lia. Qed.

  (* malformed addresses and signatures are rejected, never accepted *)
  Theorem claim_rejects_malformed : forall mwl st sender eth_addr eth_sig,
    ( len eth_addr <> 42
      \/ (forall digits, eth_addr <> 48 :: 120 :: digits)
      \/ (forall digits, eth_addr = 48 :: 120 :: digits -> hexdec digits = None)
      \/ hexdec eth_sig = None
      \/ (exists sig, hexdec eth_sig = Some sig /\ len sig <> 65)
      \/ (exists sig rs v, hexdec eth_sig = Some sig /\ sig = rs ++ [v] /\ v <> 0 /\ v <> 1 /\ v <> 27 /\ v <> 28) ) ->
    claim' mwl st sender eth_addr eth_sig = Err.
  Proof.
    intros mwl st sender eth_addr eth_sig Hbad.
    destruct (claim' mwl st sender eth_addr eth_sig) as [[st' msgs]|] eqn:E; [|reflexivity]. exfalso.
    apply claim_ok_spelled in E as (_ & (sig & rs & v & rid & digits & a & pk & Hh & Hs & Hl & Hv & Ha & Hla & Hd & _) & _).
    destruct Hbad as [H|[H|[H|[H|[H|H]]]]].
    - contradiction.
    - apply (H digits). exact Ha.
    - rewrite (H digits Ha) in Hd. discriminate.
    - congruence.
    - destruct H as (sig' & Hh' & Hne). rewrite Hh in Hh'.
      assert (Hsig : sig = sig') by congruence.
      apply Hne. rewrite <- Hsig, Hs, len_app_one, Hl. reflexivity.
    - destruct H as (sig' & rs' & v' & Hh' & Hs' & H0 & H1 & H27 & H28). rewrite Hh in Hh'.
      assert (Hsig : sig = sig') by congruence. rewrite <- Hsig, Hs in Hs'. apply app_inj_tail in Hs' as [_ Hvv]. subst v'.
      destruct Hv as [[? _]|[[? _]|[[? _]|[? _]]]]; congruence.
  Qed.

End ClaimProofs.

(* ------------------------------------------------------------------------------ *)
(* instantiate                                                                     *)
(* ------------------------------------------------------------------------------ *)

Theorem instantiate_ok_iff : forall contract funds template amount addresses limit st msgs,
  instantiate contract funds template amount addresses limit = Ok (st, msgs) <->
  sg_eth_airdrop__MIN_AIRDROP <= amount /\ amount <= sg_eth_airdrop__MAX_AIRDROP /\
  containsb WALLET template = true /\ len template <= 1000 /\
  (exists paid, funds = [mkCoin NATIVE paid] /\ sg_eth_airdrop__INSTANTIATION_FEE <= paid) /\
  addresses <> [] /\
  st = mkAState template amount addresses limit [] /\
  msgs = [Burn NATIVE (sg_eth_airdrop__INSTANTIATION_FEE / 2);
          FundPool contract NATIVE (sg_eth_airdrop__INSTANTIATION_FEE - sg_eth_airdrop__INSTANTIATION_FEE / 2)].
Proof.
  intros contract funds template amount addresses limit st msgs. unfold instantiate.
  rewrite fair_burn_exact. cbn [bind].
  split.
  - destruct (amount <? sg_eth_airdrop__MIN_AIRDROP) eqn:E1; [discriminate|]. apply N.ltb_ge in E1.
    destruct (sg_eth_airdrop__MAX_AIRDROP <? amount) eqn:E2; [discriminate|]. apply N.ltb_ge in E2.
    destruct (containsb WALLET template) eqn:E3; cbn [negb]; [|discriminate].
    destruct (1000 <? len template) eqn:E4; [discriminate|]. apply N.ltb_ge in E4.
    destruct (must_pay funds NATIVE) as [paid|] eqn:E5; cbn [bind]; [|discriminate].
    apply must_pay_ok_shape in E5 as [E5 _].
    destruct (paid <? sg_eth_airdrop__INSTANTIATION_FEE) eqn:E6; [discriminate|]. apply N.ltb_ge in E6.
    destruct addresses as [|x xs]; [discriminate|].
    intros H. inversion H; subst. repeat split; auto. exists paid. auto. discriminate.
  - intros [E1 [E2 [E3 [E4 [[paid [-> E6]] [Hne [-> ->]]]]]]].
    apply N.ltb_ge in E1, E2, E4. rewrite E1, E2, E3, E4. cbn [negb].
    assert (Hp : must_pay [mkCoin NATIVE paid] NATIVE = Ok paid).
    { unfold must_pay, one_coin. cbn [c_amount c_denom bind].
      destruct (paid =? 0) eqn:Ez.
      - apply N.eqb_eq in Ez. subst. exfalso. unfold sg_eth_airdrop__INSTANTIATION_FEE in E6. lia.
      - cbn [bind]. rewrite N.eqb_refl. reflexivity. }
    rewrite Hp. cbn [bind]. apply N.ltb_ge in E6. rewrite E6.
    destruct addresses; [congruence | reflexivity].
Qed.

(* ------------------------------------------------------------------------------ *)
(* the limit per Ethereum address (20 bytes) rather than per address string        *)
(* ------------------------------------------------------------------------------ *)
Section PerEthereumAddress.
  Variable hexdec : bytes -> option bytes.
  Variable keccak : bytes -> bytes.
  Variable recover : bytes -> bytes -> N -> option bytes.
  Variable address_of : bytes -> option bytes.
  Variable verify : bytes -> bytes -> bytes -> option bool.

  Notation claim_tx' := (claim_tx hexdec keccak recover address_of verify).
  Notation step' := (step hexdec keccak recover address_of verify).
  Notation succeeds' := (succeeds hexdec keccak recover address_of verify).
  Notation successes' := (successes hexdec keccak recover address_of verify).

  (* the string e denotes the 20-byte Ethereum address d *)
  Definition denotes (e d : bytes) : bool :=
    match decode_address hexdec e with Ok d' => bytes_eqb d' d | Err => false end.

  (* successful claims, in a history, for any spelling of the Ethereum address d *)
  Fixpoint addr_successes (d : bytes) (w : world) (cs : list call) : N :=
    match cs with
    | [] => 0
    | c :: cs' => (if succeeds' w c && denotes (call_addr c) d then 1 else 0) + addr_successes d (step' w c) cs'
    end.

  (* no two entries of the list denote the same Ethereum address *)
  Definition unambiguous (l : list bytes) : Prop :=
    forall x y d, In x l -> In y l -> denotes x d = true -> denotes y d = true -> x = y.

  Lemma succeeds_listed : forall w c, succeeds' w c = true -> In (call_addr c) (a_list (w_air w)).
  Proof.
    intros w [[s e] g] H. unfold succeeds in H. cbn [call_addr fst snd].
    destruct (claim_tx' w s e g) as [w'|] eqn:E; [|discriminate].
    apply claim_tx_effects in E. cbv zeta in E. destruct E as [He _]. apply mem_In. exact He.
  Qed.

  Lemma addr_successes_le : forall d s cs w,
    unambiguous (a_list (w_air w)) -> In s (a_list (w_air w)) -> denotes s d = true ->
    addr_successes d w cs <= successes' s w cs.
  Proof.
    intros d s. induction cs as [|c cs IH]; intros w Hu Hin Hd; [cbn; lia|].
    cbn [addr_successes successes].
    destruct (step_config hexdec keccak recover address_of verify w c) as [_ [_ [Hl _]]].
    assert (IH' : addr_successes d (step' w c) cs <= successes' s (step' w c) cs).
    { apply IH; rewrite ?Hl; auto. }
    destruct (succeeds' w c) eqn:Hs; cbn [andb]; [|lia].
    destruct (denotes (call_addr c) d) eqn:Hc; [|destruct (bytes_eqb (call_addr c) s); lia].
    assert (Heq : call_addr c = s).
    { eapply Hu; eauto. apply succeeds_listed. exact Hs. }
    rewrite Heq, bytes_eqb_refl. lia.
  Qed.

  Lemma addr_successes_none : forall d cs w,
    (forall s, In s (a_list (w_air w)) -> denotes s d = false) -> addr_successes d w cs = 0.
  Proof.
    intros d. induction cs as [|c cs IH]; intros w Hnone; [reflexivity|].
    cbn [addr_successes].
    destruct (step_config hexdec keccak recover address_of verify w c) as [_ [_ [Hl _]]].
    rewrite IH by (rewrite Hl; exact Hnone).
    destruct (succeeds' w c) eqn:Hs; cbn [andb]; [|reflexivity].
    rewrite (Hnone _ (succeeds_listed w c Hs)). reflexivity.
  Qed.

  (* with a list on which every Ethereum address has one spelling, no Ethereum address
     claims more than the limit, over all histories *)
  Theorem limit_per_ethereum_address : forall cs w d,
    unambiguous (a_list (w_air w)) ->
    (forall a, bmap_get a (a_counts (w_air w)) <= a_limit (w_air w)) ->
    addr_successes d w cs <= a_limit (w_air w).
  Proof.
    intros cs w d Hu Hinv.
    destruct (find (fun s => denotes s d) (a_list (w_air w))) as [s|] eqn:Ef.
    - apply find_some in Ef as [Hin Hd].
      pose proof (addr_successes_le d s cs w Hu Hin Hd) as H1.
      pose proof (limit_respected hexdec keccak recover address_of verify cs w Hinv s) as H2. lia.
    - rewrite addr_successes_none; [lia|].
      intros s Hin. apply (find_none _ _ Ef s Hin).
  Qed.
End PerEthereumAddress.

(* Refutation of the unrestricted statement: a list that holds one Ethereum address under
   two spellings lets that address claim once per spelling.  Witness oracles: hex decoding
   that ignores letter case (both spellings decode to the same 20 bytes), every signature
   recovers the key of that address. *)
Definition wit_hexdec (s : bytes) : option bytes :=
  if len s =? 40 then Some (repeat 7%N 20) else Some (repeat 1%N 64 ++ [27]).
Definition wit_lower : bytes := 48 :: 120 :: repeat 97 40.     (* "0xaaaa…" *)
Definition wit_upper : bytes := 48 :: 120 :: repeat 65 40.     (* "0xAAAA…" *)
Definition wit_world : world :=
  mkWorld (mkAState (WALLET ++ [33]) 66000000 [wit_lower; wit_upper] 1 [])
          200000000 (Some 20) 20 (mkCwl true [] 0 1000) [].
Definition wit_calls : list call := [([65], wit_lower, [9]); ([65], wit_upper, [9])].

Theorem limit_per_ethereum_address_refuted :
  exists hexdec keccak recover address_of verify w cs d,
    a_counts (w_air w) = [] /\ a_limit (w_air w) = 1 /\
    addr_successes hexdec keccak recover address_of verify d w cs = 2.
Proof.
  exists wit_hexdec, (fun m => m), (fun _ _ _ => Some [4]), (fun _ => Some (repeat 7 20)), (fun _ _ _ => Some true),
         wit_world, wit_calls, (repeat 7 20).
  vm_compute. repeat split; reflexivity.
Qed.
