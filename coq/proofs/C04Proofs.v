(* C04 — sale window and entitlement, vending family: lemmas over MinterVending.step.
   Whitelist answers are the per-call oracle `wlview`; nothing is assumed about them. *)
From LP Require Import Num Pay Sg1 MinterVending MinterVendingProofs.
From LP Require Import Consts.
From Coq Require Import ZArith Lia ZifyN ZifyBool.
Local Open Scope N_scope.

(* ---------- vocabulary ---------- *)
(* the state with only the attached whitelist / only the start time replaced *)
Definition with_wl (s : vstate) (w : option addr) : vstate :=
  set_config s (s_pal s) w (s_start s) (s_price s) (s_discount s) (s_last_discount s).
Definition with_start (s : vstate) (t : N) : vstate :=
  set_config s (s_pal s) (s_whitelist s) t (s_price s) (s_discount s) (s_last_discount s).

(* no whitelist attached, or the attached one answers "not active" *)
Definition wl_absent_or_inactive (s : vstate) (wv : option wlview) : Prop :=
  s_whitelist s = None \/ exists v, wv = Some v /\ wv_active v = false.

(* the membership question a variant asks: the proof form exactly when the minter is a
   Merkle variant, the whitelist looks like a Merkle whitelist and a proof was sent *)
Definition membership_answer (vr : variant) (v : wlview) (proof : bool) : option bool :=
  if v_merkle vr && is_merkle_tree_wl v && proof then wv_has_proof v else wv_has_plain v.

(* whitelist mints recorded for an address (plain counter + the three stage counters) *)
Definition wl_total (s : vstate) (a : addr) : N :=
  get (s_wl s) a + (get (s_fs s) a + get (s_ss s) a + get (s_ts s) a).

Definition rmap {A B} (f : A -> B) (r : result A) : result B :=
  match r with Ok a => Ok (f a) | Err => Err end.

Lemma get_set_same m a v : get (set m a v) a = v.
Proof.
  induction m as [|[k w] r IH]; cbn [set get].
  - rewrite N.eqb_refl. reflexivity.
  - destruct (k =? a) eqn:E; cbn [get]; rewrite E; auto.
Qed.

(* ---------- is_public_mint ---------- *)
Lemma is_public_true_iff vr s wv a proof alloc :
  is_public_mint vr s wv a proof alloc = Ok true <-> wl_absent_or_inactive s wv.
Proof.
  unfold is_public_mint, wl_absent_or_inactive. split.
  - intros H. destruct (s_whitelist s) as [w|]; [ | left; reflexivity ].
    destruct wv as [v|]; [ | discriminate ].
    destruct (wv_active v) eqn:Ea; [ exfalso | right; eauto ].
    cbn [negb] in H. cbv zeta in H.
    repeat step_hyp H; discriminate H.
  - intros [Hn | [v [Hv Ha]]].
    + rewrite Hn. reflexivity.
    + destruct (s_whitelist s); [ | reflexivity ]. subst wv. rewrite Ha. reflexivity.
Qed.

Lemma is_public_active vr s w v a proof alloc isp :
  s_whitelist s = Some w -> wv_active v = true ->
  is_public_mint vr s (Some v) a proof alloc = Ok isp ->
  isp = false /\ membership_answer vr v proof = Some true.
Proof.
  unfold is_public_mint, membership_answer. intros Hw Ha H. rewrite Hw, Ha in H.
  cbn [negb] in H. cbv zeta in H.
  destruct (if v_merkle vr && is_merkle_tree_wl v && proof then wv_has_proof v else wv_has_plain v)
    as [[|]|]; try discriminate H.
  split; [ | reflexivity ].
  repeat step_hyp H; inv H; reflexivity.
Qed.

(* ---------- clause 1: the start gate ---------- *)
Theorem public_before_start_fails vr s e fp wv stage proof alloc choice :
  is_public_mint vr s wv (e_sender e) proof alloc = Ok true ->
  e_now e < s_start s ->
  step vr s e fp wv (OMint stage proof alloc choice) = Err.
Proof.
  intros Hp Hlt. cbn [step]. rewrite Hp. cbn [bind].
  apply N.ltb_lt in Hlt. rewrite Hlt. reflexivity.
Qed.

Corollary no_or_inactive_wl_before_start_fails vr s e fp wv stage proof alloc choice :
  wl_absent_or_inactive s wv -> e_now e < s_start s ->
  step vr s e fp wv (OMint stage proof alloc choice) = Err.
Proof. intros H. apply public_before_start_fails. apply is_public_true_iff. exact H. Qed.

(* ---------- clause 2: active whitelist, not a member ---------- *)
Theorem active_wl_nonmember_fails vr s e fp w v stage proof alloc choice :
  s_whitelist s = Some w -> wv_active v = true ->
  membership_answer vr v proof <> Some true ->
  step vr s e fp (Some v) (OMint stage proof alloc choice) = Err.
Proof.
  intros Hw Ha Hm. cbn [step].
  destruct (is_public_mint vr s (Some v) (e_sender e) proof alloc) as [isp|] eqn:E; [ | reflexivity ].
  exfalso. apply (is_public_active _ _ _ _ _ _ _ _ Hw Ha) in E. tauto.
Qed.

(* the whitelist does not answer at all: the mint fails *)
Theorem attached_wl_unanswered_fails vr s e fp w stage proof alloc choice :
  s_whitelist s = Some w ->
  step vr s e fp None (OMint stage proof alloc choice) = Err.
Proof. intros Hw. cbn [step]. unfold is_public_mint. rewrite Hw. reflexivity. Qed.

(* ---------- clause 3: active whitelist, member: whitelist price, whitelist counter ---------- *)
Lemma mint_core_config vr s e fp wv adm rcp tok choice isp s' ms :
  execute_mint_core vr s e fp wv adm rcp tok choice isp = Ok (s', ms) ->
  s_start s' = s_start s /\ s_whitelist s' = s_whitelist s /\ s_admin s' = s_admin s /\
  s_pal s' = s_pal s /\ s_price s' = s_price s /\ s_denom s' = s_denom s /\ s_discount s' = s_discount s /\
  (exists amount dn, mint_price s fp wv adm = Ok (amount, dn) /\ may_pay (e_funds e) dn = Ok amount) /\
  (isp = true -> s_wl s' = s_wl s /\ s_fs s' = s_fs s /\ s_ss s' = s_ss s /\ s_ts s' = s_ts s /\
                 s_public s' = set (s_public s) (e_sender e) (get (s_public s) (e_sender e) + 1)) /\
  (isp = false -> s_public s' = s_public s /\ wl_total s' (e_sender e) = wl_total s (e_sender e) + 1).
Proof.
  unfold execute_mint_core. intros H.
  destruct (s_mintable s =? 0) eqn:Em; [ discriminate | ].
  bind_in H u1 Hg.
  bind_in H pr Hpr. destruct pr as [amount dn].
  bind_in H payment Hpay.
  destruct (payment =? amount) eqn:Epa; cbn [negb] in H; [ | discriminate ]. apply N.eqb_eq in Epa. subst payment.
  match type of H with (if ?c then _ else _) = _ => destruct c; [ discriminate | ] end.
  bind_in H fmsgs Hfm.
  bind_in H tid Htid.
  bind_in H pos Hpos.
  bind_in H s1 Hs1.
  bind_in H smsgs Hsm. inv H.
  assert (Hpx : exists amount dn, mint_price s fp wv adm = Ok (amount, dn) /\ may_pay (e_funds e) dn = Ok amount)
    by (exists amount, dn; auto).
  destruct isp.
  - inv Hs1. cbn.
    (split; [ reflexivity | ]); (split; [ reflexivity | ]); (split; [ reflexivity | ]);
    (split; [ reflexivity | ]); (split; [ reflexivity | ]); (split; [ reflexivity | ]);
    (split; [ reflexivity | ]); (split; [ exact Hpx | ]). split; [ intros _; repeat split | discriminate ].
  - destruct wv as [v|]; [ | discriminate ].
    bind_in Hs1 c3 Hc3. destruct c3 as [[cnt tiered] stage].
    unfold wl_count in Hc3.
    destruct (wv_tiered v).
    + destruct (wv_stage_id v) as [st|]; [ | discriminate ].
      destruct st as [|st]; [ discriminate | ].
      destruct st as [st|st|]; try (destruct st; try discriminate); inv Hc3; inv Hs1;
        unfold wl_total; cbn; rewrite get_set_same;
        (split; [ reflexivity | ]); (split; [ reflexivity | ]); (split; [ reflexivity | ]);
        (split; [ reflexivity | ]); (split; [ reflexivity | ]); (split; [ reflexivity | ]);
        (split; [ reflexivity | ]); (split; [ exact Hpx | ]); (split; [ discriminate | ]);
        intros _; (split; [ reflexivity | lia ]).
    + inv Hc3. inv Hs1. unfold wl_total. cbn. rewrite get_set_same.
      (split; [ reflexivity | ]); (split; [ reflexivity | ]); (split; [ reflexivity | ]);
      (split; [ reflexivity | ]); (split; [ reflexivity | ]); (split; [ reflexivity | ]);
      (split; [ reflexivity | ]); (split; [ exact Hpx | ]); (split; [ discriminate | ]).
      intros _; split; [ reflexivity | lia ].
Qed.

Theorem active_wl_member_pays_wl_price vr s e fp w v stage proof alloc choice s' ms :
  s_whitelist s = Some w -> wv_active v = true ->
  step vr s e fp (Some v) (OMint stage proof alloc choice) = Ok (s', ms) ->
  membership_answer vr v proof = Some true /\
  mint_price s fp (Some v) false = Ok (wv_price v, wv_denom v) /\
  may_pay (e_funds e) (wv_denom v) = Ok (wv_price v) /\
  s_public s' = s_public s /\
  wl_total s' (e_sender e) = wl_total s (e_sender e) + 1 /\
  s_start s' = s_start s /\ s_whitelist s' = s_whitelist s.
Proof.
  intros Hw Ha H. cbn [step] in H. bind_in H isp Hisp.
  destruct (is_public_active _ _ _ _ _ _ _ _ Hw Ha Hisp) as [-> Hm].
  cbn [andb] in H.
  apply mint_core_config in H.
  destruct H as (Hs & Hwl & _ & _ & _ & _ & _ & (amount & dn & Hmp & Hpay) & _ & Hfalse).
  destruct (Hfalse eq_refl) as [Hpub Htot].
  assert (Hprice : mint_price s fp (Some v) false = Ok (wv_price v, wv_denom v)).
  { unfold mint_price. rewrite Hw, Ha. reflexivity. }
  rewrite Hprice in Hmp. inv Hmp.
  repeat split; auto.
Qed.


(* The minter learns about membership only through the answer the whitelist gave to this
   call (the view).  Against ANY notion of who the intended members are: if the answer is
   faithful to it, only intended members mint while the whitelist is active; and whenever a
   non-intended buyer does mint in the whitelist phase, the whitelist has answered "member"
   for that buyer in this very call — a stale or wrong answer of the whitelist, not a
   decision of the minter. *)
Theorem faithful_whitelist_only_members_mint (intended : addr -> Prop) vr s e fp w v stage proof alloc choice s' ms :
  s_whitelist s = Some w -> wv_active v = true ->
  (membership_answer vr v proof = Some true -> intended (e_sender e)) ->
  step vr s e fp (Some v) (OMint stage proof alloc choice) = Ok (s', ms) ->
  intended (e_sender e).
Proof.
  intros Hw Ha Hf H. apply Hf.
  destruct (active_wl_member_pays_wl_price _ _ _ _ _ _ _ _ _ _ _ _ Hw Ha H) as [Hm _]. exact Hm.
Qed.

Theorem nonmember_mint_blames_whitelist_answer (intended : addr -> Prop) vr s e fp w v stage proof alloc choice s' ms :
  s_whitelist s = Some w -> wv_active v = true ->
  step vr s e fp (Some v) (OMint stage proof alloc choice) = Ok (s', ms) ->
  ~ intended (e_sender e) ->
  membership_answer vr v proof = Some true /\ ~ intended (e_sender e).
Proof.
  intros Hw Ha H Hn.
  destruct (active_wl_member_pays_wl_price _ _ _ _ _ _ _ _ _ _ _ _ Hw Ha H) as [Hm _]. split; assumption.
Qed.

(* ---------- clause 4: inactive whitelist = public rules ---------- *)
Lemma core_public_wl_irrelevant vr s e fp wv wv2 w2 adm rcp tok choice :
  mint_price (with_wl s w2) fp wv2 adm = mint_price s fp wv adm ->
  execute_mint_core vr (with_wl s w2) e fp wv2 adm rcp tok choice true =
  rmap (fun r => (with_wl (fst r) w2, snd r)) (execute_mint_core vr s e fp wv adm rcp tok choice true).
Proof.
  intros Hp. unfold execute_mint_core. rewrite Hp.
  cbn [with_wl set_config s_mintable s_num_tokens s_positions s_payment s_admin].
  destruct (s_mintable s =? 0); [ reflexivity | ].
  destruct (match tok with Some t => guard (negb ((t =? 0) || (s_num_tokens s <? t))) | None => Ok tt end);
    cbn [bind]; [ | reflexivity ].
  destruct (mint_price s fp wv adm) as [[amount dn]|]; cbn [bind]; [ | reflexivity ].
  destruct (may_pay (e_funds e) dn) as [payment|]; cbn [bind]; [ | reflexivity ].
  destruct (negb (payment =? amount)); [ reflexivity | ].
  match goal with |- (if ?c then _ else _) = _ => destruct c; [ reflexivity | ] end.
  destruct (fee_msgs vr dn _) as [fm|]; cbn [bind]; [ | reflexivity ].
  match goal with |- bind ?r _ = _ => destruct r as [tid|]; cbn [bind]; [ | reflexivity ] end.
  match goal with |- bind ?r _ = _ => destruct r as [pos|]; cbn [bind]; [ | reflexivity ] end.
  match goal with |- bind ?r _ = rmap _ (bind ?r _) => destruct r as [sm|]; cbn [bind rmap]; reflexivity end.
Qed.

Theorem inactive_wl_public_rules vr s e fp wv wv0 stage proof alloc choice :
  wl_absent_or_inactive s wv ->
  step vr s e fp wv (OMint stage proof alloc choice) =
  rmap (fun r => (with_wl (fst r) (s_whitelist s), snd r))
       (step vr (with_wl s None) e fp wv0 (OMint stage proof alloc choice)).
Proof.
  intros Hin. cbn [step].
  assert (H1 : is_public_mint vr s wv (e_sender e) proof alloc = Ok true) by (apply is_public_true_iff; exact Hin).
  assert (H2 : is_public_mint vr (with_wl s None) wv0 (e_sender e) proof alloc = Ok true) by reflexivity.
  rewrite H1, H2. cbn [bind andb].
  cbn [with_wl set_config s_start s_pal s_public].
  destruct (e_now e <? s_start s); [ reflexivity | ].
  destruct (s_pal s <=? get (s_public s) (e_sender e)); [ reflexivity | ].
  assert (Hs : s = with_wl (with_wl s None) (s_whitelist s)) by (destruct s; reflexivity).
  rewrite Hs at 1.
  rewrite (core_public_wl_irrelevant vr (with_wl s None) e fp wv0 wv (s_whitelist s)); [ reflexivity | ].
  rewrite <- Hs. unfold mint_price. cbn [with_wl set_config s_whitelist s_discount s_price s_denom public_or_discount].
  destruct Hin as [Hn | [v [Hv Ha]]].
  - rewrite Hn. reflexivity.
  - subst wv. rewrite Ha. destruct (s_whitelist s); reflexivity.
Qed.

Corollary inactive_wl_public_rules_match vr s e fp wv wv0 stage proof alloc choice :
  wl_absent_or_inactive s wv ->
  step vr s e fp wv (OMint stage proof alloc choice) =
  match step vr (with_wl s None) e fp wv0 (OMint stage proof alloc choice) with
  | Ok (s', ms) => Ok (with_wl s' (s_whitelist s), ms)
  | Err => Err
  end.
Proof.
  intros H. rewrite (inactive_wl_public_rules vr s e fp wv wv0 stage proof alloc choice H).
  destruct (step vr (with_wl s None) e fp wv0 (OMint stage proof alloc choice)) as [[s' ms]|]; reflexivity.
Qed.

(* ---------- airdrops ---------- *)
Theorem airdrop_admin_only vr s e fp wv o s' ms :
  (match o with OMintTo _ _ _ | OMintFor _ _ _ => True | _ => False end) ->
  step vr s e fp wv o = Ok (s', ms) ->
  e_sender e = s_admin s /\ s_start s' = s_start s /\ s_whitelist s' = s_whitelist s.
Proof.
  intros Ho H. destruct o; try contradiction; cbn [step] in H; repeat step_hyp H;
    unfold is_admin_sender in *;
    (match goal with E : negb (_ =? _) = false |- _ => apply negb_false_iff in E; apply N.eqb_eq in E end);
    apply mint_core_config in H; tauto.
Qed.

(* the clock and the whitelist play no role in an airdrop: no start gate, no membership *)
Theorem airdrop_ignores_clock_and_whitelist vr s fp o now now' sender funds c wv wv' :
  (match o with OMintTo _ _ _ | OMintFor _ _ _ => True | _ => False end) ->
  step vr s (mkEnv now sender funds c) fp wv o = step vr s (mkEnv now' sender funds c) fp wv' o.
Proof. intros Ho. destruct o; try contradiction; reflexivity. Qed.

(* ---------- UpdateStartTime ---------- *)
Theorem update_start_time_ok vr s e fp wv t s' ms :
  step vr s e fp wv (OUpdateStartTime t) = Ok (s', ms) ->
  e_sender e = s_admin s /\ e_funds e = [] /\
  e_now e < s_start s /\ e_now e <= t /\ GENESIS <= t /\
  s' = with_start s t /\ ms = [].
Proof.
  cbn [step]. intros H. bind_in H u Hu.
  unfold nonpayable in Hu. destruct (e_funds e); [ | discriminate ].
  repeat step_hyp H. inv H.
  unfold is_admin_sender in *. apply negb_false_iff in E. apply N.eqb_eq in E.
  apply N.leb_gt in E0. apply N.ltb_ge in E1. apply N.ltb_ge in E2.
  repeat split; auto.
Qed.

Theorem update_start_time_complete vr s e fp wv t :
  e_sender e = s_admin s -> e_funds e = [] -> e_now e < s_start s -> e_now e <= t -> GENESIS <= t ->
  step vr s e fp wv (OUpdateStartTime t) = Ok (with_start s t, []).
Proof.
  intros Ha Hf H1 H2 H3. cbn [step]. rewrite Hf. cbn [nonpayable bind].
  unfold is_admin_sender. rewrite Ha, N.eqb_refl. cbn [negb].
  apply N.leb_gt in H1. apply N.ltb_ge in H2. apply N.ltb_ge in H3. rewrite H1, H2, H3. reflexivity.
Qed.

(* ---------- SetWhitelist ---------- *)
Theorem set_whitelist_ok vr s e fp wv wok w newview s' ms :
  step vr s e fp wv (OSetWhitelist wok w newview) = Ok (s', ms) ->
  e_sender e = s_admin s /\ e_funds e = [] /\
  e_now e < s_start s /\
  wl_absent_or_inactive s wv /\
  wok = true /\
  (exists nv, newview = Some nv /\ wv_active nv = false /\
              (v_flex vr = false -> wv_denom nv = s_denom s) /\
              fp_min_price fp <= wv_price nv /\ fp_min_denom fp = wv_denom nv) /\
  s' = with_wl s (Some w) /\ ms = [].
Proof.
  cbn [step]. intros H. bind_in H u Hu.
  unfold nonpayable in Hu. destruct (e_funds e); [ | discriminate ].
  destruct (negb (is_admin_sender s e)) eqn:Ead; [ discriminate | ].
  destruct (negb (e_now e <? s_start s)) eqn:Est; [ discriminate | ].
  bind_in H u2 Hold.
  destruct (negb wok) eqn:Ewok; [ discriminate | ].
  destruct newview as [nv|]; [ | discriminate ].
  destruct (wv_active nv) eqn:Enew; [ discriminate | ].
  destruct (negb (v_flex vr) && negb (wv_denom nv =? s_denom s)) eqn:Ed; [ discriminate | ].
  destruct (wv_price nv <? fp_min_price fp) eqn:Ep; [ discriminate | ].
  destruct (negb (fp_min_denom fp =? wv_denom nv)) eqn:Efd; [ discriminate | ].
  inv H.
  unfold is_admin_sender in Ead. apply negb_false_iff in Ead. apply N.eqb_eq in Ead.
  apply negb_false_iff in Est. apply N.ltb_lt in Est.
  apply negb_false_iff in Ewok. apply N.ltb_ge in Ep.
  apply negb_false_iff in Efd. apply N.eqb_eq in Efd.
  repeat split; auto.
  - unfold wl_absent_or_inactive. destruct (s_whitelist s) as [ow|]; [ right | left; reflexivity ].
    destruct wv as [v|]; [ | discriminate ]. destruct u2. apply guard_ok in Hold. apply negb_true_iff in Hold. eauto.
  - exists nv. repeat split; auto.
    intros Hfx. rewrite Hfx in Ed. cbn [negb andb] in Ed. apply negb_false_iff in Ed. apply N.eqb_eq in Ed. exact Ed.
Qed.

(* ---------- histories ---------- *)
Lemma step_keeps_schedule vr s e fp wv o s' ms :
  step vr s e fp wv o = Ok (s', ms) ->
  ((forall t, o <> OUpdateStartTime t) -> s_start s' = s_start s) /\
  ((forall a b c, o <> OSetWhitelist a b c) -> s_whitelist s' = s_whitelist s).
Proof.
  intros H.
  assert (Hcore : forall adm rcp tok choice isp,
             execute_mint_core vr s e fp wv adm rcp tok choice isp = Ok (s', ms) ->
             s_start s' = s_start s /\ s_whitelist s' = s_whitelist s).
  { intros adm rcp tok choice isp Hc. apply mint_core_config in Hc. tauto. }
  destruct o; cbn [step] in H; repeat step_hyp H;
    try (match goal with Hc : execute_mint_core _ _ _ _ _ _ _ _ _ _ = Ok _ |- _ =>
           destruct (Hcore _ _ _ _ _ Hc) as [? ?]; split; intros _; assumption end);
    inv H; cbn; split; intros Hne; try reflexivity;
    try (exfalso; eapply Hne; reflexivity).
Qed.

(* once the clock has reached the start time neither the start time nor the attached
   whitelist can change any more *)
Lemma started_frozen vr s e fp wv o s' ms :
  step vr s e fp wv o = Ok (s', ms) -> s_start s <= e_now e ->
  s_start s' = s_start s /\ s_whitelist s' = s_whitelist s.
Proof.
  intros H Hst. pose proof (step_keeps_schedule _ _ _ _ _ _ _ _ H) as [K1 K2].
  split.
  - destruct o; try (apply K1; intros; discriminate).
    apply update_start_time_ok in H. lia.
  - destruct o; try (apply K2; intros; discriminate).
    apply set_whitelist_ok in H. lia.
Qed.

(* the states a history passes through, paired with the call made in each *)
Fixpoint trace (vr : variant) (s : vstate) (cs : list call) : list (vstate * call) :=
  match cs with
  | [] => []
  | c :: r => (s, c) :: trace vr (apply_call vr s c) r
  end.

(* clocks never run backwards *)
Fixpoint clock_mono (t : N) (cs : list call) : Prop :=
  match cs with
  | [] => True
  | c :: r => t <= e_now (c_env c) /\ clock_mono (e_now (c_env c)) r
  end.

Lemma run_frozen vr cs : forall s t0,
  clock_mono t0 cs -> s_start s <= t0 ->
  s_start (run vr s cs) = s_start s /\ s_whitelist (run vr s cs) = s_whitelist s.
Proof.
  induction cs as [|c cs IH]; intros s t0 Hm Hst; cbn [run fold_left]; [ auto | ].
  destruct Hm as [Hle Hm].
  change (fold_left (apply_call vr) cs (apply_call vr s c)) with (run vr (apply_call vr s c) cs).
  assert (Hk : s_start (apply_call vr s c) = s_start s /\ s_whitelist (apply_call vr s c) = s_whitelist s).
  { unfold apply_call. destruct (step vr s (c_env c) (c_fp c) (c_wv c) (c_op c)) as [[s' ms]|] eqn:E; [ | auto ].
    eapply started_frozen; eauto. lia. }
  destruct Hk as [K1 K2].
  destruct (IH (apply_call vr s c) (e_now (c_env c)) Hm) as [I1 I2]; [ lia | ].
  split; congruence.
Qed.

(* a successful mint under the public rules (no whitelist, or an inactive one) *)
Definition public_mint_succeeds (vr : variant) (s : vstate) (c : call) : Prop :=
  exists stage proof alloc choice r,
    c_op c = OMint stage proof alloc choice /\
    step vr s (c_env c) (c_fp c) (c_wv c) (c_op c) = Ok r /\
    is_public_mint vr s (c_wv c) (e_sender (c_env c)) proof alloc = Ok true.

Theorem history_public_mints_after_start vr cs : forall s t0 si c,
  clock_mono t0 cs -> In (si, c) (trace vr s cs) -> public_mint_succeeds vr si c ->
  s_start si <= e_now (c_env c) /\
  s_start (run vr s cs) = s_start si /\ s_whitelist (run vr s cs) = s_whitelist si.
Proof.
  induction cs as [|c0 cs IH]; intros s t0 si c Hm Hin Hp; cbn [trace] in Hin; [ contradiction | ].
  destruct Hm as [Hle Hm].
  cbn [run fold_left].
  change (fold_left (apply_call vr) cs (apply_call vr s c0)) with (run vr (apply_call vr s c0) cs).
  destruct Hin as [Heq | Hin].
  - inv Heq. destruct Hp as (stage & proof & alloc & choice & r & Hop & Hstep & Hpub).
    assert (Hge : s_start si <= e_now (c_env c)).
    { destruct (N.lt_ge_cases (e_now (c_env c)) (s_start si)) as [Hlt|Hge]; [ exfalso | exact Hge ].
      rewrite Hop in Hstep. rewrite (public_before_start_fails _ _ _ _ _ _ _ _ _ Hpub Hlt) in Hstep. discriminate. }
    split; [ exact Hge | ].
    assert (Hk : s_start (apply_call vr si c) = s_start si /\ s_whitelist (apply_call vr si c) = s_whitelist si).
    { unfold apply_call. rewrite Hstep. destruct r as [s' ms]. eapply started_frozen; eauto. }
    destruct Hk as [K1 K2].
    destruct (run_frozen vr cs (apply_call vr si c) (e_now (c_env c)) Hm) as [I1 I2]; [ lia | ].
    split; congruence.
  - eapply IH; eauto.
Qed.
