(* Lemmas about the collection model (Collection.v) behind C09 and C10. *)
From LP Require Import Num Pay Sg1 Consts Semver Collection NumLemmas.
From Coq Require Import ZArith Lia ZifyN ZifyBool.
Import ListNotations.
Local Open Scope N_scope.

(* ================================================================== generic helpers *)
Lemma bind_ok {A B} (r : result A) (f : A -> result B) b :
  bind r f = Ok b -> exists a, r = Ok a /\ f a = Ok b.
Proof. destruct r; simpl; intros H; [eauto | discriminate]. Qed.

Lemma quiet_ok r s ms : quiet r = Ok (s, ms) -> r = Ok s /\ ms = [].
Proof. unfold quiet. destruct r; simpl; intros H; inversion H; auto. Qed.

Lemma step_exec ct self e o s x : step ct self e o s = Ok x -> supports ct o = true /\ exec self e o s = Ok x.
Proof. unfold step. destruct (supports ct o); intros H; [auto | discriminate]. Qed.

(* ================================================================== C10: royalties *)
Definition share_ok (s : state) : Prop :=
  match ci_royalty (info s) with Some r => r_share r <= dec_one | None => True end.

Definition share_of (s : state) : option N :=
  match ci_royalty (info s) with Some r => Some (r_share r) | None => None end.

Definition info_wf (c : cinfo) : Prop :=
  t_len (ci_description c) <= MAX_DESC /\ t_url (ci_image c) = true /\ link_ok (ci_external_link c) = true.

Lemma update_royalty_ok nw old upd new r t :
  update_royalty nw old upd new = Ok (r, t) ->
  r = Some new /\ t = nw /\ upd + DAY_NS <= nw /\ upd + DAY_NS <= U64_MAX /\ r_share new <= dec_one /\
  (forall o, old = Some o -> r_share o < r_share new ->
             r_share new - r_share o <= MAX_DELTA /\ r_share new <= MAX_SHARE).
Proof.
  unfold update_royalty, share_validate.
  destruct (U64_MAX <? upd + DAY_NS) eqn:E1; [discriminate|].
  destruct (nw <? upd + DAY_NS) eqn:E2; [discriminate|].
  destruct (r_share new <=? dec_one) eqn:E3; simpl; [|discriminate].
  apply N.ltb_ge in E1. apply N.ltb_ge in E2. apply N.leb_le in E3.
  assert (Hbase : forall r t, Ok (Some new, nw) = Ok (r, t) ->
            r = Some new /\ t = nw /\ upd + DAY_NS <= nw /\ upd + DAY_NS <= U64_MAX /\ r_share new <= dec_one).
  { intros r0 t0 H0. inversion H0; subst. auto. }
  destruct old as [o|].
  - destruct (r_share o <? r_share new) eqn:E4.
    + destruct (r_share new - r_share o <=? MAX_DELTA) eqn:E5; simpl; [|discriminate].
      destruct (r_share new <=? MAX_SHARE) eqn:E6; simpl; [|discriminate].
      intros H. destruct (Hbase _ _ H) as (A1 & A2 & A3 & A4 & A5).
      split; [exact A1|]. split; [exact A2|]. split; [exact A3|]. split; [exact A4|]. split; [exact A5|].
      intros o' Ho _. inversion Ho; subst. apply N.leb_le in E5. apply N.leb_le in E6. auto.
    + intros H. destruct (Hbase _ _ H) as (A1 & A2 & A3 & A4 & A5).
      split; [exact A1|]. split; [exact A2|]. split; [exact A3|]. split; [exact A4|]. split; [exact A5|].
      intros o' Ho Hlt. inversion Ho; subst. apply N.ltb_ge in E4. lia.
  - intros H. destruct (Hbase _ _ H) as (A1 & A2 & A3 & A4 & A5).
    split; [exact A1|]. split; [exact A2|]. split; [exact A3|]. split; [exact A4|]. split; [exact A5|].
    intros o' Ho; discriminate.
Qed.

(* what a successful update_collection_info did *)
Lemma uci_ok e m s s' :
  update_collection_info e m s = Ok s' ->
  frozen s = false /\ ci_creator (info s) = sender e /\
  tokens s' = tokens s /\ token_count s' = token_count s /\ operators s' = operators s /\
  own s' = own s /\ frozen s' = frozen s /\ md_frozen s' = md_frozen s /\ md_enabled s' = md_enabled s /\
  ci_start_trading (info s') = ci_start_trading (info s) /\
  info_wf (info s') /\
  match u_royalty m with
  | None => ci_royalty (info s') = ci_royalty (info s) /\ royalty_updated_at s' = royalty_updated_at s
  | Some new =>
      update_royalty (now e) (ci_royalty (info s)) (royalty_updated_at s) new = Ok (Some new, now e) /\
      ci_royalty (info s') = Some new /\ royalty_updated_at s' = now e
  end.
Proof.
  unfold update_collection_info.
  destruct (frozen s) eqn:Ef; [discriminate|].
  destruct (ci_creator (info s) =? sender e) eqn:Ec; simpl; [|discriminate].
  apply N.eqb_eq in Ec.
  match goal with |- context [MAX_DESC <? ?x] => destruct (MAX_DESC <? x) eqn:Ed end; [discriminate|].
  match goal with |- context [negb (t_url ?x)] => destruct (t_url x) eqn:Ei end; simpl; [|discriminate].
  match goal with |- context [negb (link_ok ?x)] => destruct (link_ok x) eqn:El end; simpl; [|discriminate].
  apply N.ltb_ge in Ed.
  destruct (u_royalty m) as [new|] eqn:Er.
  - intros H. apply bind_ok in H. destruct H as [[r t] [Hu H]]. inversion H; subst; clear H.
    destruct (update_royalty_ok _ _ _ _ _ _ Hu) as [-> [-> _]].
    simpl. unfold info_wf. simpl. repeat split; auto.
  - intros H. inversion H; subst; clear H. simpl. unfold info_wf. simpl. repeat split; auto.
Qed.

(* every call either leaves the royalty and its anchor alone, or is an accepted royalty
   update through update_collection_info *)
Definition is_royalty_change (o : op) : bool :=
  match o with
  | OUpdateInfo m => match u_royalty m with Some _ => true | None => false end
  | _ => false
  end.

Ltac crush_handler :=
  repeat match goal with
         | H : bind _ _ = Ok _ |- _ => apply bind_ok in H; destruct H as [? [? H]]
         | H : Err = Ok _ |- _ => discriminate H
         | H : Ok _ = Ok _ |- _ => inversion H; subst; clear H
         | H : context [match ?x with _ => _ end] |- _ =>
             let E := fresh "E" in destruct x eqn:E; simpl in H; try discriminate H
         end.

Lemma exec_royalty self e o s s' ms :
  exec self e o s = Ok (s', ms) ->
  (is_royalty_change o = false /\ ci_royalty (info s') = ci_royalty (info s)
   /\ royalty_updated_at s' = royalty_updated_at s)
  \/ (exists m new, o = OUpdateInfo m /\ u_royalty m = Some new /\
        update_royalty (now e) (ci_royalty (info s)) (royalty_updated_at s) new = Ok (Some new, now e) /\
        ci_royalty (info s') = Some new /\ royalty_updated_at s' = now e).
Proof.
  intros H. destruct o as [id owner uri|to id|to id accepts|sp id ex|sp id|opr ex|opr|id|m|t| |new ex| | |id uri| | ]; simpl in H;
    try (apply quiet_ok in H; destruct H as [H ->]).
  all: try solve [ left; split; [reflexivity|];
                   unfold mint, transfer, approve, approve_all, revoke_all, burn,
                     update_start_trading_time, freeze_collection_info, own_transfer, own_accept,
                     own_renounce, update_token_metadata, freeze_token_metadata, enable_updatable in H;
                   crush_handler; simpl; auto ].
  - (* OUpdateInfo *)
    pose proof (uci_ok _ _ _ _ H) as U.
    destruct U as (_ & _ & _ & _ & _ & _ & _ & _ & _ & _ & _ & U).
    simpl. destruct (u_royalty m) as [new|] eqn:Er.
    + right. exists m, new. destruct U as (U1 & U2 & U3). auto.
    + left. destruct U; auto.
Qed.

Lemma share_ok_instantiate ct nw b fs m c s :
  instantiate ct nw b fs m c = Ok s -> share_ok s /\ royalty_updated_at s = nw /\ info_wf (info s) /\ info s = c.
Proof.
  unfold instantiate. intros H. apply bind_ok in H. destruct H as [[] [_ H]].
  destruct b; simpl in H; [|discriminate].
  destruct (MAX_DESC <? t_len (ci_description c)) eqn:Ed; [discriminate|].
  destruct (t_url (ci_image c)) eqn:Ei; simpl in H; [|discriminate].
  destruct (link_ok (ci_external_link c)) eqn:El; simpl in H; [|discriminate].
  apply N.ltb_ge in Ed.
  destruct (ci_royalty c) as [r|] eqn:Er; simpl in H.
  - unfold share_validate in H. destruct (r_share r <=? dec_one) eqn:Es; simpl in H; [|discriminate].
    inversion H; subst; clear H. unfold share_ok, info_wf. simpl. rewrite Er.
    apply N.leb_le in Es. repeat split; auto.
  - inversion H; subst; clear H. unfold share_ok, info_wf. simpl. rewrite Er. repeat split; auto.
Qed.

Lemma share_ok_step ct self e o s s' ms :
  share_ok s -> step ct self e o s = Ok (s', ms) -> share_ok s'.
Proof.
  intros Hs H. apply step_exec in H. destruct H as [_ H].
  destruct (exec_royalty _ _ _ _ _ _ H) as [(_ & Hr & _) | (m & new & _ & _ & Hu & Hr & _)].
  - unfold share_ok in *. rewrite Hr. exact Hs.
  - unfold share_ok. rewrite Hr. apply update_royalty_ok in Hu. tauto.
Qed.

Lemma apply_cases ct self s eo :
  apply ct self s eo = s \/ exists ms, step ct self (fst eo) (snd eo) s = Ok (apply ct self s eo, ms).
Proof.
  unfold apply. destruct (step ct self (fst eo) (snd eo) s) as [[s' ms]|]; [right; eauto | left; reflexivity].
Qed.

(* invariants of single steps extend to runs *)
Lemma run_invariant (P : state -> Prop) ct self :
  (forall e o s s' ms, P s -> step ct self e o s = Ok (s', ms) -> P s') ->
  forall l s, P s -> P (run ct self s l).
Proof.
  intros Hstep l. induction l as [|eo l IH]; intros s Hs; simpl; [exact Hs|].
  apply IH. destruct (apply_cases ct self s eo) as [-> | [ms H]]; [exact Hs|].
  eapply Hstep; eauto.
Qed.

Lemma share_ok_run ct self l s : share_ok s -> share_ok (run ct self s l).
Proof. apply (run_invariant share_ok). intros; eapply share_ok_step; eauto. Qed.

(* a raise on a collection that already has royalties *)
Lemma raise_bounded ct self e o s s' ms ro rn :
  step ct self e o s = Ok (s', ms) ->
  ci_royalty (info s) = Some ro -> ci_royalty (info s') = Some rn ->
  r_share ro < r_share rn ->
  r_share rn - r_share ro <= MAX_DELTA /\ r_share rn <= MAX_SHARE.
Proof.
  intros H Ho Hn Hlt. apply step_exec in H. destruct H as [_ H].
  destruct (exec_royalty _ _ _ _ _ _ H) as [(_ & Hr & _) | (m & new & _ & _ & Hu & Hr & _)].
  - rewrite Hr, Ho in Hn. inversion Hn; subst. lia.
  - rewrite Hr in Hn. inversion Hn; subst. apply update_royalty_ok in Hu.
    destruct Hu as (_ & _ & _ & _ & _ & Hb). eapply Hb; eauto.
Qed.

(* royalties, once present, never disappear *)
Lemma has_royalty_step ct self e o s s' ms :
  step ct self e o s = Ok (s', ms) -> ci_royalty (info s) <> None -> ci_royalty (info s') <> None.
Proof.
  intros H Hs. apply step_exec in H. destruct H as [_ H].
  destruct (exec_royalty _ _ _ _ _ _ H) as [(_ & Hr & _) | (m & new & _ & _ & _ & Hr & _)];
    rewrite Hr; [exact Hs | discriminate].
Qed.

(* repeated raises never pass max(initial share, cap) *)
Lemma climb_step ct self e o s s' ms a :
  step ct self e o s = Ok (s', ms) -> share_of s = Some a ->
  exists b, share_of s' = Some b /\ b <= N.max a MAX_SHARE.
Proof.
  intros H Ha. unfold share_of in Ha. destruct (ci_royalty (info s)) as [ro|] eqn:Ho; [|discriminate].
  inversion Ha; subst; clear Ha.
  destruct (ci_royalty (info s')) as [rn|] eqn:Hn.
  - exists (r_share rn). unfold share_of. rewrite Hn. split; [reflexivity|].
    destruct (N.lt_ge_cases (r_share ro) (r_share rn)) as [Hlt|Hge].
    + destruct (raise_bounded _ _ _ _ _ _ _ _ _ H Ho Hn Hlt) as [_ Hc]. lia.
    + lia.
  - exfalso. eapply (has_royalty_step _ _ _ _ _ _ _ H); [rewrite Ho; discriminate | exact Hn].
Qed.

Lemma climb_bounded ct self l : forall s a,
  share_of s = Some a ->
  exists b, share_of (run ct self s l) = Some b /\ b <= N.max a MAX_SHARE.
Proof.
  induction l as [|eo l IH]; intros s a Ha; simpl.
  - exists a. split; [exact Ha | lia].
  - destruct (apply_cases ct self s eo) as [-> | [ms H]].
    + apply IH; exact Ha.
    + destruct (climb_step _ _ _ _ _ _ _ _ H Ha) as [b [Hb Hle]].
      destruct (IH _ _ Hb) as [c [Hc Hle']]. exists c. split; [exact Hc | lia].
Qed.

(* cadence over histories: the times of accepted royalty changes *)
Fixpoint accepted_changes (ct : ctype) (self : addr) (s : state) (l : list (env * op)) : list N :=
  match l with
  | [] => []
  | eo :: r =>
      match step ct self (fst eo) (snd eo) s with
      | Ok (s', _) =>
          if is_royalty_change (snd eo) then now (fst eo) :: accepted_changes ct self s' r
          else accepted_changes ct self s' r
      | Err => accepted_changes ct self s r
      end
  end.

Fixpoint gaps_ok (gap prev : N) (ts : list N) : Prop :=
  match ts with
  | [] => True
  | t :: r => prev + gap <= t /\ gaps_ok gap t r
  end.

Lemma cadence ct self l : forall s,
  gaps_ok DAY_NS (royalty_updated_at s) (accepted_changes ct self s l).
Proof.
  induction l as [|[e o] l IH]; intros s; simpl; [exact I|].
  destruct (step ct self e o s) as [[s' ms]|] eqn:H; [|apply IH].
  apply step_exec in H. destruct H as [_ H].
  destruct (exec_royalty _ _ _ _ _ _ H) as [(Hc & _ & Ht) | (m & new & -> & Hm & Hu & _ & Ht)].
  - rewrite Hc. rewrite <- Ht. apply IH.
  - simpl. rewrite Hm. simpl. split.
    + apply update_royalty_ok in Hu. tauto.
    + rewrite <- Ht. apply IH.
Qed.

Lemma gaps_ok_lower gap p ts : gaps_ok gap p ts -> Forall (fun t => p + gap <= t) ts.
Proof.
  revert p. induction ts as [|t r IH]; intros p H; constructor.
  - exact (proj1 H).
  - destruct H as [H1 H2]. specialize (IH _ H2).
    eapply Forall_impl; [|exact IH]. simpl. intros x Hx. lia.
Qed.

Lemma gaps_ok_pairs gap p ts : gaps_ok gap p ts -> ForallOrdPairs (fun t1 t2 => t1 + gap <= t2) ts.
Proof.
  revert p. induction ts as [|t r IH]; intros p H; constructor.
  - apply gaps_ok_lower. exact (proj2 H).
  - eapply IH. exact (proj2 H).
Qed.

(* lowering (or re-submitting) is accepted by a well-formed, unfrozen collection from its
   creator once 24 h have passed since the anchor *)
Lemma lowering_accepted ct self e s ro a n x :
  info_wf (info s) -> frozen s = false -> ci_creator (info s) = sender e ->
  ci_royalty (info s) = Some ro -> n <= r_share ro -> r_share ro <= dec_one ->
  royalty_updated_at s + DAY_NS <= now e -> now e <= U64_MAX ->
  exists s',
    step ct self e (OUpdateInfo (mkUpd None None None x (Some (mkRoy a n)) None)) s = Ok (s', []) /\
    ci_royalty (info s') = Some (mkRoy a n) /\ royalty_updated_at s' = now e /\
    tokens s' = tokens s /\ own s' = own s /\ frozen s' = false.
Proof.
  intros (Hd & Hi & Hl) Hf Hc Hr Hn Hs Ht Hu.
  unfold step. replace (supports ct _) with true by (destruct ct; reflexivity).
  simpl. unfold update_collection_info. rewrite Hf. rewrite Hc, N.eqb_refl. simpl.
  apply N.ltb_ge in Hd. rewrite Hd. rewrite Hi. simpl. rewrite Hl. simpl.
  unfold update_royalty. simpl r_share.
  assert (E1 : U64_MAX <? royalty_updated_at s + DAY_NS = false) by (apply N.ltb_ge; lia).
  assert (E2 : now e <? royalty_updated_at s + DAY_NS = false) by (apply N.ltb_ge; lia).
  rewrite E1, E2. unfold share_validate.
  assert (E3 : n <=? dec_one = true) by (apply N.leb_le; lia).
  rewrite E3. simpl. rewrite Hr.
  assert (E4 : r_share ro <? n = false) by (apply N.ltb_ge; lia).
  rewrite E4. simpl. eexists. split; [reflexivity|]. simpl. rewrite Hf. auto.
Qed.

Lemma info_wf_step ct self e o s s' ms :
  info_wf (info s) -> step ct self e o s = Ok (s', ms) -> info_wf (info s').
Proof.
  intros Hw H. apply step_exec in H. destruct H as [_ H].
  destruct o as [id owner uri|to id|to id accepts|sp id ex|sp id|opr ex|opr|id|m|t| |new ex| | |id uri| | ]; simpl in H; try (apply quiet_ok in H; destruct H as [H ->]).
  all: try solve [ unfold mint, transfer, approve, approve_all, revoke_all, burn,
                     freeze_collection_info, own_transfer, own_accept,
                     own_renounce, update_token_metadata, freeze_token_metadata, enable_updatable in H;
                   crush_handler; simpl; auto ].
  - apply uci_ok in H. tauto.
  - unfold update_start_trading_time in H. crush_handler. unfold info_wf in *. simpl. exact Hw.
Qed.

(* statement-shaped corollaries used by props/C10.v *)
Lemma share_ok_at_creation ct t b f m c s :
  instantiate ct t b f m c = Ok s -> share_ok s.
Proof. intros H. exact (proj1 (share_ok_instantiate _ _ _ _ _ _ _ H)). Qed.

Lemma share_ok_always ct self t b f m c s l :
  instantiate ct t b f m c = Ok s -> share_ok (run ct self s l).
Proof. intros H. apply share_ok_run. eapply share_ok_at_creation; eauto. Qed.

Lemma cadence_any_two ct self l s :
  ForallOrdPairs (fun t1 t2 => t1 + DAY_NS <= t2) (accepted_changes ct self s l).
Proof. exact (gaps_ok_pairs _ _ _ (cadence ct self l s)). Qed.

Lemma cadence_from_creation ct self t b f m c s l :
  instantiate ct t b f m c = Ok s ->
  Forall (fun x => t + DAY_NS <= x) (accepted_changes ct self s l).
Proof.
  intros H. destruct (share_ok_instantiate _ _ _ _ _ _ _ H) as (_ & Ht & _).
  rewrite <- Ht. exact (gaps_ok_lower _ _ _ (cadence ct self l s)).
Qed.

Lemma info_wf_at_creation ct t b f m c s :
  instantiate ct t b f m c = Ok s -> info_wf (info s).
Proof. intros H. exact (proj1 (proj2 (proj2 (share_ok_instantiate _ _ _ _ _ _ _ H)))). Qed.

(* ------------------------------------------------------------------ payout helper *)
Lemma payout_none p f ff : royalty_payout None p f ff = Ok (0, []).
Proof. reflexivity. Qed.

Lemma payout_zero a p f ff : royalty_payout (Some (mkRoy a 0)) p f ff = Ok (0, []).
Proof. reflexivity. Qed.

Definition finders_amt (ff : option N) : N := match ff with Some x => x | None => 0 end.

Lemma payout_ok_inv r p f ff amt ms :
  royalty_payout (Some r) p f ff = Ok (amt, ms) -> r_share r <> 0 ->
  amt = p * r_share r / DEC /\ ms = [Send (r_addr r) NATIVE amt] /\ f + finders_amt ff + amt <= p.
Proof.
  unfold royalty_payout, finders_amt. intros H Hz.
  apply N.eqb_neq in Hz. rewrite Hz in H.
  fold (finders_amt ff) in H.
  set (amt' := mul_floor p (r_share r)) in *.
  destruct (U128_MAX <? amt'); [discriminate|].
  destruct (U128_MAX <? f + finders_amt ff + amt'); [discriminate|].
  destruct (p <? f + finders_amt ff + amt') eqn:E; [discriminate|].
  inversion H; subst. apply N.ltb_ge in E. unfold finders_amt in E. repeat split; auto.
Qed.

Lemma payout_refuses r p f ff :
  r_share r <> 0 -> p < f + finders_amt ff + p * r_share r / DEC -> royalty_payout (Some r) p f ff = Err.
Proof.
  unfold royalty_payout. intros Hz Hlt. apply N.eqb_neq in Hz. rewrite Hz.
  fold (finders_amt ff). change (mul_floor p (r_share r)) with (p * r_share r / DEC).
  set (amt' := p * r_share r / DEC) in *.
  destruct (U128_MAX <? amt'); [reflexivity|].
  destruct (U128_MAX <? f + finders_amt ff + amt'); [reflexivity|].
  apply N.ltb_lt in Hlt. rewrite Hlt. reflexivity.
Qed.

Lemma payout_accepts r p f ff :
  r_share r <> 0 -> p <= U128_MAX -> f + finders_amt ff + p * r_share r / DEC <= p ->
  royalty_payout (Some r) p f ff = Ok (p * r_share r / DEC, [Send (r_addr r) NATIVE (p * r_share r / DEC)]).
Proof.
  unfold royalty_payout. intros Hz Hp Hle. apply N.eqb_neq in Hz. rewrite Hz.
  fold (finders_amt ff). change (mul_floor p (r_share r)) with (p * r_share r / DEC).
  set (amt' := p * r_share r / DEC) in *.
  assert (E1 : U128_MAX <? amt' = false) by (apply N.ltb_ge; lia).
  assert (E2 : U128_MAX <? f + finders_amt ff + amt' = false) by (apply N.ltb_ge; lia).
  assert (E3 : p <? f + finders_amt ff + amt' = false) by (apply N.ltb_ge; lia).
  rewrite E1, E2, E3. reflexivity.
Qed.

(* a whole-percent share pays floor(payment * k / 100) *)
Lemma payout_percent a k p f ff amt ms :
  k <> 0 -> royalty_payout (Some (mkRoy a (dec_percent k))) p f ff = Ok (amt, ms) -> amt = p * k / 100.
Proof.
  intros Hk H. apply payout_ok_inv in H.
  - destruct H as [-> _]. simpl r_share. fold (mul_floor p (dec_percent k)). apply mul_floor_percent.
  - simpl. unfold dec_percent. lia.
Qed.

(* ================================================================== C09: tokens and freezes *)

(* ------------------------------------------------------------------ token table lemmas *)
Lemma tfind_in id l t : tfind id l = Some t -> In id (map fst l).
Proof.
  induction l as [|[k x] r IH]; simpl; [discriminate|].
  destruct (k =? id) eqn:E; [apply N.eqb_eq in E; auto | auto].
Qed.

Lemma tfind_none_notin id l : tfind id l = None <-> ~ In id (map fst l).
Proof.
  induction l as [|[k x] r IH]; simpl.
  - split; auto.
  - destruct (k =? id) eqn:E.
    + apply N.eqb_eq in E. split; [discriminate | intros H; exfalso; apply H; auto].
    + apply N.eqb_neq in E. rewrite IH. split; [intros H [H1|H1]; auto | intros H H1; apply H; auto].
Qed.

Lemma tfind_tinsert_same id t l : tfind id l = None -> tfind id (tinsert id t l) = Some t.
Proof.
  induction l as [|[k x] r IH]; simpl; intros H.
  - rewrite N.eqb_refl. reflexivity.
  - destruct (k =? id) eqn:E; [discriminate|].
    destruct (id <? k); simpl.
    + rewrite N.eqb_refl. reflexivity.
    + rewrite E. auto.
Qed.

Lemma tfind_tinsert_other id id' t l : id' <> id -> tfind id' (tinsert id t l) = tfind id' l.
Proof.
  intros Hn. induction l as [|[k x] r IH]; simpl.
  - apply N.eqb_neq in Hn. rewrite N.eqb_sym in Hn. rewrite Hn. reflexivity.
  - destruct (id <? k); simpl.
    + assert (E : id =? id' = false) by (apply N.eqb_neq; auto). rewrite E. reflexivity.
    + destruct (k =? id'); auto.
Qed.

Lemma tfind_tupdate_same id t l x : tfind id l = Some x -> tfind id (tupdate id t l) = Some t.
Proof.
  induction l as [|[k y] r IH]; simpl; [discriminate|].
  destruct (k =? id) eqn:E; simpl; rewrite E; auto.
Qed.

Lemma tfind_tupdate_other id id' t l : id' <> id -> tfind id' (tupdate id t l) = tfind id' l.
Proof.
  intros Hn. induction l as [|[k y] r IH]; simpl; [reflexivity|].
  destruct (k =? id) eqn:E; simpl.
  - apply N.eqb_eq in E. subst k. assert (E' : id =? id' = false) by (apply N.eqb_neq; auto).
    rewrite E'. reflexivity.
  - destruct (k =? id'); auto.
Qed.

Lemma tfind_tremove_other id id' l : id' <> id -> tfind id' (tremove id l) = tfind id' l.
Proof.
  intros Hn. induction l as [|[k y] r IH]; simpl; [reflexivity|].
  destruct (k =? id) eqn:E; simpl.
  - apply N.eqb_eq in E. subst k. assert (E' : id =? id' = false) by (apply N.eqb_neq; auto).
    rewrite E'. reflexivity.
  - destruct (k =? id'); auto.
Qed.

Lemma keys_tupdate id t l : map fst (tupdate id t l) = map fst l.
Proof.
  induction l as [|[k y] r IH]; simpl; [reflexivity|].
  destruct (k =? id); simpl; [reflexivity | rewrite IH; reflexivity].
Qed.

Lemma keys_tinsert id t l k : In k (map fst (tinsert id t l)) <-> k = id \/ In k (map fst l).
Proof.
  induction l as [|[k' y] r IH]; simpl.
  - intuition.
  - destruct (id <? k'); simpl.
    + split; intros H; intuition.
    + rewrite IH. split; intros H; intuition.
Qed.

Lemma nodup_tinsert id t l : tfind id l = None -> NoDup (map fst l) -> NoDup (map fst (tinsert id t l)).
Proof.
  induction l as [|[k y] r IH]; simpl; intros Hf Hn.
  - constructor; [intros []| constructor].
  - destruct (k =? id) eqn:E; [discriminate|]. apply N.eqb_neq in E.
    inversion Hn as [|? ? Hk Hr]; subst.
    destruct (id <? k); simpl.
    + constructor; [|exact Hn]. simpl. intros [H|H]; [auto|].
      apply tfind_none_notin in Hf. auto.
    + constructor; [|auto]. rewrite keys_tinsert. intros [H|H]; auto.
Qed.

Lemma keys_tremove_incl id l k : In k (map fst (tremove id l)) -> In k (map fst l).
Proof.
  induction l as [|[k' y] r IH]; simpl; [auto|].
  destruct (k' =? id); simpl; intuition.
Qed.

Lemma nodup_tremove id l : NoDup (map fst l) -> NoDup (map fst (tremove id l)).
Proof.
  induction l as [|[k y] r IH]; simpl; intros Hn; [constructor|].
  inversion Hn as [|? ? Hk Hr]; subst.
  destruct (k =? id); simpl; [exact Hr|].
  constructor; [|auto]. intros H. apply Hk. eapply keys_tremove_incl; eauto.
Qed.

Lemma tfind_tremove_same id l : NoDup (map fst l) -> tfind id (tremove id l) = None.
Proof.
  induction l as [|[k y] r IH]; simpl; intros Hn; [reflexivity|].
  inversion Hn as [|? ? Hk Hr]; subst.
  destruct (k =? id) eqn:E; simpl.
  - apply N.eqb_eq in E. subst k. apply tfind_none_notin. exact Hk.
  - rewrite E. auto.
Qed.

Lemma length_tinsert id t l : length (tinsert id t l) = S (length l).
Proof.
  induction l as [|[k y] r IH]; simpl; [reflexivity|].
  destruct (id <? k); simpl; [reflexivity | rewrite IH; reflexivity].
Qed.

Lemma length_tupdate id t l : length (tupdate id t l) = length l.
Proof.
  induction l as [|[k y] r IH]; simpl; [reflexivity|].
  destruct (k =? id); simpl; [reflexivity | rewrite IH; reflexivity].
Qed.

Lemma length_tremove id l x : tfind id l = Some x -> length l = S (length (tremove id l)).
Proof.
  induction l as [|[k y] r IH]; simpl; [discriminate|].
  destruct (k =? id); simpl; intros H; [reflexivity | rewrite (IH H); reflexivity].
Qed.

(* ------------------------------------------------------------------ what each call does to the token table *)
Definition owner_is (who : addr) (s : state) : Prop := o_owner (own s) = Some who.

Lemma is_minter_true who s : is_minter who s = true -> owner_is who s.
Proof.
  unfold is_minter, owner_is. destruct (o_owner (own s)) as [o|]; [|discriminate].
  intros H. apply N.eqb_eq in H. subst. reflexivity.
Qed.

Lemma exec_tokens self e o s s' ms :
  exec self e o s = Ok (s', ms) ->
  match o with
  | OMint id owner uri =>
      owner_is (sender e) s /\ tfind id (tokens s) = None /\
      tokens s' = tinsert id (mkTok owner [] uri) (tokens s) /\ token_count s' = token_count s + 1
  | OTransfer to id | OSend to id _ =>
      exists t, tfind id (tokens s) = Some t /\ check_can_send (now e) (sender e) s t = true /\
                tokens s' = tupdate id (mkTok to [] (k_uri t)) (tokens s) /\ token_count s' = token_count s
  | OApprove _ id _ | ORevoke _ id =>
      exists t aps, tfind id (tokens s) = Some t /\ check_can_approve (now e) (sender e) s t = true /\
                    tokens s' = tupdate id (mkTok (k_owner t) aps (k_uri t)) (tokens s) /\
                    token_count s' = token_count s
  | OBurn id =>
      exists t, tfind id (tokens s) = Some t /\ check_can_send (now e) (sender e) s t = true /\
                tokens s' = tremove id (tokens s) /\ token_count s' + 1 = token_count s
  | OUpdateTokenMd id uri =>
      exists t, tfind id (tokens s) = Some t /\ ci_creator (info s) = sender e /\
                md_frozen s = false /\ md_enabled s = true /\ funds e = [] /\
                tokens s' = tupdate id (mkTok (k_owner t) (k_approvals t) uri) (tokens s) /\
                token_count s' = token_count s
  | _ => tokens s' = tokens s /\ token_count s' = token_count s
  end.
Proof.
  intros H.
  destruct o as [id owner uri|to id|to id accepts|sp id ex|sp id|opr ex|opr|id|m|t| |new ex| | |id uri| | ];
    simpl in H; try (apply quiet_ok in H; destruct H as [H ->]).
  - (* mint *) unfold mint in H.
    destruct (is_minter (sender e) s) eqn:Em; simpl in H; [|discriminate].
    destruct (tfind id (tokens s)) eqn:Ef; [discriminate|].
    destruct (U64_MAX <? token_count s + 1); [discriminate|].
    inversion H; subst; clear H. simpl. auto using is_minter_true.
  - (* transfer *) unfold transfer in H.
    destruct (tfind id (tokens s)) as [t|] eqn:Ef; [|discriminate].
    destruct (check_can_send (now e) (sender e) s t) eqn:Ec; [|discriminate].
    inversion H; subst; clear H. exists t. simpl. auto.
  - (* send *) destruct accepts; [|discriminate]. apply quiet_ok in H. destruct H as [H ->].
    unfold transfer in H.
    destruct (tfind id (tokens s)) as [t|] eqn:Ef; [|discriminate].
    destruct (check_can_send (now e) (sender e) s t) eqn:Ec; [|discriminate].
    inversion H; subst; clear H. exists t. simpl. auto.
  - (* approve *) unfold approve in H.
    destruct (tfind id (tokens s)) as [t|] eqn:Ef; [|discriminate].
    destruct (check_can_approve (now e) (sender e) s t) eqn:Ec; simpl in H; [|discriminate].
    destruct (is_expired (now e) (exp_default ex)); [discriminate|].
    inversion H; subst; clear H. exists t. eexists. simpl. auto.
  - (* revoke *) unfold approve in H.
    destruct (tfind id (tokens s)) as [t|] eqn:Ef; [|discriminate].
    destruct (check_can_approve (now e) (sender e) s t) eqn:Ec; simpl in H; [|discriminate].
    inversion H; subst; clear H. exists t. eexists. simpl. auto.
  - unfold approve_all in H. crush_handler; simpl; auto.
  - unfold revoke_all in H. crush_handler; simpl; auto.
  - (* burn *) unfold burn in H.
    destruct (tfind id (tokens s)) as [t|] eqn:Ef; [|discriminate].
    destruct (check_can_send (now e) (sender e) s t) eqn:Ec; simpl in H; [|discriminate].
    destruct (token_count s =? 0) eqn:Ez; [discriminate|].
    inversion H; subst; clear H. exists t. simpl. apply N.eqb_neq in Ez. repeat split; auto. lia.
  - apply uci_ok in H. tauto.
  - unfold update_start_trading_time in H. crush_handler; simpl; auto.
  - unfold freeze_collection_info in H. crush_handler; simpl; auto.
  - unfold own_transfer in H. crush_handler; simpl; auto.
  - unfold own_accept in H. crush_handler; simpl; auto.
  - unfold own_renounce in H. crush_handler; simpl; auto.
  - (* update token metadata *) unfold update_token_metadata in H.
    apply bind_ok in H. destruct H as [[] [Hp H]].
    unfold nonpayable in Hp. destruct (funds e) eqn:Efu; [|discriminate].
    destruct (ci_creator (info s) =? sender e) eqn:Ec; simpl in H; [|discriminate].
    destruct (md_frozen s) eqn:Emf; [discriminate|].
    destruct (md_enabled s) eqn:Eme; simpl in H; [|discriminate].
    destruct (tfind id (tokens s)) as [t|] eqn:Ef; [|discriminate].
    inversion H; subst; clear H. exists t. simpl. apply N.eqb_eq in Ec. repeat split; auto.
  - unfold freeze_token_metadata in H. crush_handler; simpl; auto.
  - unfold enable_updatable in H. crush_handler; simpl; auto.
Qed.

(* ------------------------------------------------------------------ mint *)
Lemma mint_ok ct self e id owner uri s s' ms :
  step ct self e (OMint id owner uri) s = Ok (s', ms) ->
  o_owner (own s) = Some (sender e) /\ tfind id (tokens s) = None /\
  tfind id (tokens s') = Some (mkTok owner [] uri) /\
  (forall id', id' <> id -> tfind id' (tokens s') = tfind id' (tokens s)) /\
  token_count s' = token_count s + 1.
Proof.
  intros H. apply step_exec in H. destruct H as [_ H]. apply exec_tokens in H.
  destruct H as (Ho & Hf & Ht & Hc). rewrite Ht.
  split; [exact Ho|]. split; [exact Hf|]. split; [apply tfind_tinsert_same; exact Hf|].
  split; [intros id' Hn; apply tfind_tinsert_other; exact Hn | exact Hc].
Qed.

(* a token that did not exist before a call and exists after it was minted by that call,
   sent by the current minter *)
Lemma created_only_by_mint ct self e o s s' ms id :
  step ct self e o s = Ok (s', ms) -> tfind id (tokens s) = None -> tfind id (tokens s') <> None ->
  exists owner uri, o = OMint id owner uri /\ o_owner (own s) = Some (sender e).
Proof.
  intros H Hb Ha. apply step_exec in H. destruct H as [_ H]. apply exec_tokens in H.
  destruct o as [i owner uri|to i|to i accepts|sp i ex|sp i|opr ex|opr|i|m|t| |new ex| | |i uri| | ].
  - destruct H as (Ho & Hf & Ht & _). destruct (N.eq_dec id i) as [->|Hn].
    + eauto.
    + exfalso. apply Ha. rewrite Ht. rewrite tfind_tinsert_other by exact Hn. exact Hb.
  - destruct H as (t & Hf & _ & Ht & _). exfalso. apply Ha. rewrite Ht.
    destruct (N.eq_dec id i) as [->|Hn]; [congruence|]. rewrite tfind_tupdate_other by exact Hn. exact Hb.
  - destruct H as (t & Hf & _ & Ht & _). exfalso. apply Ha. rewrite Ht.
    destruct (N.eq_dec id i) as [->|Hn]; [congruence|]. rewrite tfind_tupdate_other by exact Hn. exact Hb.
  - destruct H as (t & aps & Hf & _ & Ht & _). exfalso. apply Ha. rewrite Ht.
    destruct (N.eq_dec id i) as [->|Hn]; [congruence|]. rewrite tfind_tupdate_other by exact Hn. exact Hb.
  - destruct H as (t & aps & Hf & _ & Ht & _). exfalso. apply Ha. rewrite Ht.
    destruct (N.eq_dec id i) as [->|Hn]; [congruence|]. rewrite tfind_tupdate_other by exact Hn. exact Hb.
  - destruct H as [Ht _]. exfalso. apply Ha. rewrite Ht. exact Hb.
  - destruct H as [Ht _]. exfalso. apply Ha. rewrite Ht. exact Hb.
  - destruct H as (t & Hf & _ & Ht & _). exfalso. apply Ha. rewrite Ht.
    destruct (N.eq_dec id i) as [->|Hn]; [congruence|]. rewrite tfind_tremove_other by exact Hn. exact Hb.
  - destruct H as [Ht _]. exfalso. apply Ha. rewrite Ht. exact Hb.
  - destruct H as [Ht _]. exfalso. apply Ha. rewrite Ht. exact Hb.
  - destruct H as [Ht _]. exfalso. apply Ha. rewrite Ht. exact Hb.
  - destruct H as [Ht _]. exfalso. apply Ha. rewrite Ht. exact Hb.
  - destruct H as [Ht _]. exfalso. apply Ha. rewrite Ht. exact Hb.
  - destruct H as [Ht _]. exfalso. apply Ha. rewrite Ht. exact Hb.
  - destruct H as (t & Hf & _ & _ & _ & _ & Ht & _). exfalso. apply Ha. rewrite Ht.
    destruct (N.eq_dec id i) as [->|Hn]; [congruence|]. rewrite tfind_tupdate_other by exact Hn. exact Hb.
  - destruct H as [Ht _]. exfalso. apply Ha. rewrite Ht. exact Hb.
  - destruct H as [Ht _]. exfalso. apply Ha. rewrite Ht. exact Hb.
Qed.

(* ------------------------------------------------------------------ count and uniqueness invariants *)
Definition count_inv (s : state) : Prop := token_count s = N.of_nat (length (tokens s)).
Definition keys_unique (s : state) : Prop := NoDup (map fst (tokens s)).

Lemma instantiate_tokens ct nw b fs m c s :
  instantiate ct nw b fs m c = Ok s ->
  tokens s = [] /\ token_count s = 0 /\ own s = mkOwn (Some m) None None /\ frozen s = false /\
  md_frozen s = false /\ operators s = [].
Proof.
  unfold instantiate. intros H. crush_handler; simpl; auto 10.
Qed.

Lemma count_inv_instantiate ct nw b fs m c s : instantiate ct nw b fs m c = Ok s -> count_inv s /\ keys_unique s.
Proof.
  intros H. apply instantiate_tokens in H. destruct H as (Ht & Hc & _).
  unfold count_inv, keys_unique. rewrite Ht, Hc. simpl. split; [reflexivity | constructor].
Qed.

Lemma count_inv_step ct self e o s s' ms :
  count_inv s -> step ct self e o s = Ok (s', ms) -> count_inv s'.
Proof.
  unfold count_inv. intros Hi H. apply step_exec in H. destruct H as [_ H]. apply exec_tokens in H.
  destruct o as [i owner uri|to i|to i accepts|sp i ex|sp i|opr ex|opr|i|m|t| |new ex| | |i uri| | ];
    try (destruct H as [-> ->]; exact Hi).
  - destruct H as (_ & _ & -> & ->). rewrite length_tinsert, Nat2N.inj_succ, Hi. lia.
  - destruct H as (t & _ & _ & -> & ->). rewrite length_tupdate. exact Hi.
  - destruct H as (t & _ & _ & -> & ->). rewrite length_tupdate. exact Hi.
  - destruct H as (t & aps & _ & _ & -> & ->). rewrite length_tupdate. exact Hi.
  - destruct H as (t & aps & _ & _ & -> & ->). rewrite length_tupdate. exact Hi.
  - destruct H as (t & Hf & _ & -> & Hc). rewrite (length_tremove _ _ _ Hf), Nat2N.inj_succ in Hi. lia.
  - destruct H as (t & _ & _ & _ & _ & _ & -> & ->). rewrite length_tupdate. exact Hi.
Qed.

Lemma keys_unique_step ct self e o s s' ms :
  keys_unique s -> step ct self e o s = Ok (s', ms) -> keys_unique s'.
Proof.
  unfold keys_unique. intros Hi H. apply step_exec in H. destruct H as [_ H]. apply exec_tokens in H.
  destruct o as [i owner uri|to i|to i accepts|sp i ex|sp i|opr ex|opr|i|m|t| |new ex| | |i uri| | ];
    try (destruct H as [-> _]; exact Hi).
  - destruct H as (_ & Hf & -> & _). apply nodup_tinsert; assumption.
  - destruct H as (t & _ & _ & -> & _). rewrite keys_tupdate. exact Hi.
  - destruct H as (t & _ & _ & -> & _). rewrite keys_tupdate. exact Hi.
  - destruct H as (t & aps & _ & _ & -> & _). rewrite keys_tupdate. exact Hi.
  - destruct H as (t & aps & _ & _ & -> & _). rewrite keys_tupdate. exact Hi.
  - destruct H as (t & _ & _ & -> & _). apply nodup_tremove. exact Hi.
  - destruct H as (t & _ & _ & _ & _ & _ & -> & _). rewrite keys_tupdate. exact Hi.
Qed.

Lemma count_inv_run ct self l s : count_inv s -> count_inv (run ct self s l).
Proof. apply (run_invariant count_inv). intros; eapply count_inv_step; eauto. Qed.

Lemma keys_unique_run ct self l s : keys_unique s -> keys_unique (run ct self s l).
Proof. apply (run_invariant keys_unique). intros; eapply keys_unique_step; eauto. Qed.

Lemma count_inv_always ct self t b f m c s l :
  instantiate ct t b f m c = Ok s ->
  token_count (run ct self s l) = N.of_nat (length (tokens (run ct self s l))) /\
  NoDup (map fst (tokens (run ct self s l))).
Proof.
  intros H. apply count_inv_instantiate in H. destruct H as [H1 H2].
  split; [apply count_inv_run; exact H1 | apply keys_unique_run; exact H2].
Qed.

(* ------------------------------------------------------------------ freezes *)
(* the creator-editable fields; start_trading_time is edited by the minter and is NOT one *)
Definition creator_fields (s : state) :=
  (ci_creator (info s), ci_description (info s), ci_image (info s), ci_external_link (info s),
   ci_explicit (info s), ci_royalty (info s)).

(* what each call does to collection info, the two freeze flags, the enable flag and ownership *)
Lemma exec_frame self e o s s' ms :
  exec self e o s = Ok (s', ms) ->
  (match o with
   | OUpdateInfo m => frozen s = false /\ ci_creator (info s) = sender e
   | OStartTrading t => owner_is (sender e) s /\ creator_fields s' = creator_fields s /\
                        ci_start_trading (info s') = t
   | _ => info s' = info s
   end) /\
  (match o with
   | OFreezeInfo => ci_creator (info s) = sender e /\ frozen s' = true
   | _ => frozen s' = frozen s
   end) /\
  (match o with
   | OFreezeTokenMd => ci_creator (info s) = sender e /\ funds e = [] /\ md_frozen s' = true /\ md_enabled s' = md_enabled s
   | OEnableUpdatable => ci_creator (info s) = sender e /\ md_enabled s = false /\ md_enabled s' = true /\ md_frozen s' = md_frozen s
   | _ => md_frozen s' = md_frozen s /\ md_enabled s' = md_enabled s
   end) /\
  (match o with
   | OOwnTransfer new ex => owner_is (sender e) s /\ own s' = mkOwn (o_owner (own s)) (Some new) ex
   | OOwnAccept => o_pending (own s) = Some (sender e) /\ own s' = mkOwn (Some (sender e)) None None
   | OOwnRenounce => owner_is (sender e) s /\ own s' = mkOwn None None None
   | _ => own s' = own s
   end).
Proof.
  intros H.
  destruct o as [id owner uri|to id|to id accepts|sp id ex|sp id|opr ex|opr|id|m|t| |new ex| | |id uri| | ];
    simpl in H; try (apply quiet_ok in H; destruct H as [H ->]).
  - unfold mint in H. crush_handler; simpl; repeat split; auto.
  - unfold transfer in H. crush_handler; simpl; repeat split; auto.
  - destruct accepts; [|discriminate]. apply quiet_ok in H. destruct H as [H ->].
    unfold transfer in H. crush_handler; simpl; repeat split; auto.
  - unfold approve in H. crush_handler; simpl; repeat split; auto.
  - unfold approve in H. crush_handler; simpl; repeat split; auto.
  - unfold approve_all in H. crush_handler; simpl; repeat split; auto.
  - unfold revoke_all in H. crush_handler; simpl; repeat split; auto.
  - unfold burn in H. crush_handler; simpl; repeat split; auto.
  - apply uci_ok in H. tauto.
  - unfold update_start_trading_time in H.
    destruct (is_minter (sender e) s) eqn:Em; [|discriminate]. inversion H; subst; clear H.
    simpl. unfold creator_fields. simpl. repeat split; auto using is_minter_true.
  - unfold freeze_collection_info in H.
    destruct (ci_creator (info s) =? sender e) eqn:Ec; [|discriminate]. inversion H; subst; clear H.
    apply N.eqb_eq in Ec. simpl. repeat split; auto.
  - unfold own_transfer in H.
    destruct (is_minter (sender e) s) eqn:Em; [|discriminate]. inversion H; subst; clear H.
    simpl. repeat split; auto using is_minter_true.
  - unfold own_accept in H.
    destruct (o_pending (own s)) as [p|] eqn:Ep; [|discriminate].
    destruct (p =? sender e) eqn:Es; simpl in H; [|discriminate]. apply N.eqb_eq in Es. subst p.
    destruct (match o_expiry (own s) with Some x => is_expired (now e) x | None => false end); [discriminate|].
    inversion H; subst; clear H. simpl. repeat split; auto.
  - unfold own_renounce in H.
    destruct (is_minter (sender e) s) eqn:Em; [|discriminate]. inversion H; subst; clear H.
    simpl. repeat split; auto using is_minter_true.
  - unfold update_token_metadata in H. crush_handler; simpl; repeat split; auto.
  - unfold freeze_token_metadata in H. apply bind_ok in H. destruct H as [[] [Hp H]].
    unfold nonpayable in Hp. destruct (funds e) eqn:Efu; [|discriminate].
    destruct (ci_creator (info s) =? sender e) eqn:Ec; [|discriminate]. inversion H; subst; clear H.
    apply N.eqb_eq in Ec. simpl. repeat split; auto.
  - unfold enable_updatable in H.
    destruct (md_enabled s) eqn:Eme; [discriminate|].
    destruct (ci_creator (info s) =? sender e) eqn:Ec; simpl in H; [|discriminate].
    apply bind_ok in H. destruct H as [ms' [_ H]]. inversion H; subst; clear H.
    apply N.eqb_eq in Ec. simpl. repeat split; auto.
Qed.

Lemma frozen_step ct self e o s s' ms :
  frozen s = true -> step ct self e o s = Ok (s', ms) ->
  creator_fields s' = creator_fields s /\ frozen s' = true.
Proof.
  intros Hf H. apply step_exec in H. destruct H as [_ H]. apply exec_frame in H.
  destruct H as (Hi & Hz & _ & _).
  destruct o as [id owner uri|to id|to id accepts|sp id ex|sp id|opr ex|opr|id|m|t| |new ex| | |id uri| | ];
    try (split; [unfold creator_fields; rewrite Hi; reflexivity | rewrite Hz; exact Hf]).
  - destruct Hi as [Hi _]. congruence.
  - destruct Hi as (_ & Hi & _). split; [exact Hi | rewrite Hz; exact Hf].
  - destruct Hz as [_ Hz]. split; [unfold creator_fields; rewrite Hi; reflexivity | exact Hz].
Qed.

Lemma frozen_is_final ct self l : forall s,
  frozen s = true ->
  creator_fields (run ct self s l) = creator_fields s /\ frozen (run ct self s l) = true.
Proof.
  induction l as [|eo l IH]; intros s Hf; simpl; [auto|].
  destruct (apply_cases ct self s eo) as [-> | [ms H]]; [apply IH; exact Hf|].
  destruct (frozen_step _ _ _ _ _ _ _ Hf H) as [Hc Hf'].
  destruct (IH _ Hf') as [Hc' Hf'']. split; [congruence | exact Hf''].
Qed.

Lemma freeze_ok ct self e s s' ms :
  step ct self e OFreezeInfo s = Ok (s', ms) ->
  ci_creator (info s) = sender e /\ frozen s' = true /\ info s' = info s /\ tokens s' = tokens s /\ own s' = own s.
Proof.
  intros H. apply step_exec in H. destruct H as [_ H].
  pose proof (exec_frame _ _ _ _ _ _ H) as (Hi & (Hc & Hz) & _ & Ho).
  pose proof (exec_tokens _ _ _ _ _ _ H) as [Ht _]. auto.
Qed.

(* any change to a creator-editable field comes from the creator's own update on an
   unfrozen collection *)
Lemma creator_fields_change ct self e o s s' ms :
  step ct self e o s = Ok (s', ms) -> creator_fields s' <> creator_fields s ->
  (exists m, o = OUpdateInfo m) /\ ci_creator (info s) = sender e /\ frozen s = false.
Proof.
  intros H Hne. apply step_exec in H. destruct H as [_ H]. apply exec_frame in H.
  destruct H as (Hi & _).
  destruct o as [id owner uri|to id|to id accepts|sp id ex|sp id|opr ex|opr|id|m|t| |new ex| | |id uri| | ];
    try (exfalso; apply Hne; unfold creator_fields; rewrite Hi; reflexivity).
  - destruct Hi as [Hf Hc]. eauto.
  - destruct Hi as (_ & Hi & _). contradiction.
Qed.

(* ------------------------------------------------------------------ token metadata *)
Lemma update_metadata_ok ct self e id uri s s' ms :
  step ct self e (OUpdateTokenMd id uri) s = Ok (s', ms) ->
  ct = Updatable /\ ci_creator (info s) = sender e /\ md_enabled s = true /\ md_frozen s = false /\
  funds e = [] /\
  exists t, tfind id (tokens s) = Some t /\
            tfind id (tokens s') = Some (mkTok (k_owner t) (k_approvals t) uri) /\
            (forall id', id' <> id -> tfind id' (tokens s') = tfind id' (tokens s)) /\
            token_count s' = token_count s /\ info s' = info s /\ own s' = own s.
Proof.
  intros H. apply step_exec in H. destruct H as [Hs H].
  pose proof (exec_frame _ _ _ _ _ _ H) as (Hi & _ & _ & Ho).
  apply exec_tokens in H. destruct H as (t & Hf & Hc & Hmf & Hme & Hfu & Ht & Hn).
  split; [destruct ct; simpl in Hs; try discriminate; reflexivity|].
  repeat (split; [assumption|]). exists t. rewrite Ht.
  split; [exact Hf|]. split; [eapply tfind_tupdate_same; eauto|].
  split; [intros id' Hne; apply tfind_tupdate_other; exact Hne | auto].
Qed.

Lemma md_frozen_step ct self e o s s' ms :
  md_frozen s = true -> step ct self e o s = Ok (s', ms) -> md_frozen s' = true.
Proof.
  intros Hf H. apply step_exec in H. destruct H as [_ H]. apply exec_frame in H.
  destruct H as (_ & _ & Hm & _).
  destruct o; try (destruct Hm as [Hm _]; rewrite Hm; exact Hf).
  - tauto.
  - destruct Hm as (_ & _ & _ & Hm). rewrite Hm. exact Hf.
Qed.

(* what one call does to an existing token: unless it is burned by this very call, it is
   still there; its URI moves only through an authorised metadata update, its owner only
   through transfer/send (which sg721-nt does not have) *)
Lemma step_token ct self e o s s' ms id t :
  keys_unique s -> step ct self e o s = Ok (s', ms) -> tfind id (tokens s) = Some t ->
  (o = OBurn id /\ tfind id (tokens s') = None) \/
  exists t', tfind id (tokens s') = Some t' /\
    (k_uri t' = k_uri t \/
     (exists u, o = OUpdateTokenMd id u) /\ ct = Updatable /\ md_frozen s = false /\ md_enabled s = true /\
     ci_creator (info s) = sender e) /\
    (k_owner t' = k_owner t \/
     ((exists to, o = OTransfer to id) \/ (exists to acc, o = OSend to id acc)) /\ ct <> NT).
Proof.
  intros Hu H Hf. apply step_exec in H. destruct H as [Hs H]. apply exec_tokens in H.
  destruct o as [i owner uri|to i|to i accepts|sp i ex|sp i|opr ex|opr|i|m|tm| |new ex| | |i uri| | ];
    try (destruct H as [Ht _]; right; exists t; rewrite Ht; auto).
  - (* mint *) destruct H as (_ & Hn & Ht & _). right. exists t. rewrite Ht.
    rewrite tfind_tinsert_other by congruence. auto.
  - (* transfer *) destruct H as (x & Hx & _ & Ht & _). right. rewrite Ht.
    destruct (N.eq_dec id i) as [->|Hne].
    + eexists. split; [eapply tfind_tupdate_same; eauto|]. simpl.
      rewrite Hx in Hf. inversion Hf; subst. split; [auto|].
      right. split; [left; eauto | destruct ct; simpl in Hs; congruence].
    + exists t. rewrite tfind_tupdate_other by exact Hne. auto.
  - (* send *) destruct H as (x & Hx & _ & Ht & _). right. rewrite Ht.
    destruct (N.eq_dec id i) as [->|Hne].
    + eexists. split; [eapply tfind_tupdate_same; eauto|]. simpl.
      rewrite Hx in Hf. inversion Hf; subst. split; [auto|].
      right. split; [right; eauto | destruct ct; simpl in Hs; congruence].
    + exists t. rewrite tfind_tupdate_other by exact Hne. auto.
  - (* approve *) destruct H as (x & aps & Hx & _ & Ht & _). right. rewrite Ht.
    destruct (N.eq_dec id i) as [->|Hne].
    + eexists. split; [eapply tfind_tupdate_same; eauto|]. simpl.
      rewrite Hx in Hf. inversion Hf; subst. auto.
    + exists t. rewrite tfind_tupdate_other by exact Hne. auto.
  - (* revoke *) destruct H as (x & aps & Hx & _ & Ht & _). right. rewrite Ht.
    destruct (N.eq_dec id i) as [->|Hne].
    + eexists. split; [eapply tfind_tupdate_same; eauto|]. simpl.
      rewrite Hx in Hf. inversion Hf; subst. auto.
    + exists t. rewrite tfind_tupdate_other by exact Hne. auto.
  - (* burn *) destruct H as (x & Hx & _ & Ht & _). rewrite Ht.
    destruct (N.eq_dec id i) as [->|Hne].
    + left. split; [reflexivity | apply tfind_tremove_same; exact Hu].
    + right. exists t. rewrite tfind_tremove_other by exact Hne. auto.
  - (* update token metadata *)
    destruct H as (x & Hx & Hc & Hmf & Hme & _ & Ht & _). right. rewrite Ht.
    destruct (N.eq_dec id i) as [->|Hne].
    + eexists. split; [eapply tfind_tupdate_same; eauto|]. simpl.
      rewrite Hx in Hf. inversion Hf; subst. split; [|auto].
      right. split; [eauto|]. split; [destruct ct; simpl in Hs; congruence | auto].
    + exists t. rewrite tfind_tupdate_other by exact Hne. auto.
Qed.

(* the token exists in every state the history passes through *)
Fixpoint alive_through (ct : ctype) (self : addr) (id : N) (s : state) (l : list (env * op)) : Prop :=
  match l with
  | [] => True
  | eo :: r => tfind id (tokens (apply ct self s eo)) <> None /\ alive_through ct self id (apply ct self s eo) r
  end.

(* generic: a per-token quantity that single calls preserve on live tokens is constant
   for as long as the token lives *)
Lemma token_constant ct self id (P : state -> Prop) (f : token -> N + unit) :
  (forall e o s s' ms, P s -> step ct self e o s = Ok (s', ms) -> P s') ->
  (forall e o s s' ms t t', P s -> keys_unique s -> step ct self e o s = Ok (s', ms) ->
      tfind id (tokens s) = Some t -> tfind id (tokens s') = Some t' -> f t' = f t) ->
  forall l s t, P s -> keys_unique s -> tfind id (tokens s) = Some t -> alive_through ct self id s l ->
  exists t', tfind id (tokens (run ct self s l)) = Some t' /\ f t' = f t.
Proof.
  intros HP Hstep l. induction l as [|eo l IH]; intros s t Hp Hu Hf Ha; simpl.
  - exists t. auto.
  - destruct Ha as [Hlive Ha].
    destruct (apply_cases ct self s eo) as [Heq | [ms H]].
    + rewrite Heq in *. eapply IH; eauto.
    + destruct (tfind id (tokens (apply ct self s eo))) as [t1|] eqn:E1; [|congruence].
      assert (Hft : f t1 = f t) by (eapply Hstep; eauto).
      destruct (IH (apply ct self s eo) t1) as [t2 [H2 Hf2]]; eauto using keys_unique_step.
      exists t2. split; [exact H2 | congruence].
Qed.

Definition owner_tag (t : token) : N + unit := inl (k_owner t).
Definition uri_tag (t : token) : N + unit := match k_uri t with Some u => inl u | None => inr tt end.

Lemma uri_tag_inj t t' : uri_tag t' = uri_tag t -> k_uri t' = k_uri t.
Proof.
  unfold uri_tag. destruct (k_uri t'), (k_uri t); intros H; inversion H; reflexivity.
Qed.

(* sg721-nt: a token's owner never changes between mint and burn *)
Lemma nt_owner_constant self id l s t :
  keys_unique s -> tfind id (tokens s) = Some t -> alive_through NT self id s l ->
  exists t', tfind id (tokens (run NT self s l)) = Some t' /\ k_owner t' = k_owner t.
Proof.
  intros Hu Hf Ha.
  destruct (token_constant NT self id (fun _ => True) owner_tag) with (l := l) (s := s) (t := t)
    as [t' [H1 H2]]; auto.
  - intros e o s0 s' ms t0 t1 _ Hu0 H Hf0 Hf1.
    destruct (step_token _ _ _ _ _ _ _ _ _ Hu0 H Hf0) as [[_ Hn] | (t2 & H2 & _ & [Ho | [_ Hc]])].
    + congruence.
    + unfold owner_tag. congruence.
    + congruence.
  - exists t'. split; [exact H1|]. unfold owner_tag in H2. congruence.
Qed.

(* once token metadata is frozen (or on a collection type without metadata updates) the
   URI of a token never changes while it lives; the freeze flag itself is final *)
Lemma metadata_frozen_final ct self id l s t :
  (ct <> Updatable \/ md_frozen s = true) ->
  keys_unique s -> tfind id (tokens s) = Some t -> alive_through ct self id s l ->
  (exists t', tfind id (tokens (run ct self s l)) = Some t' /\ k_uri t' = k_uri t) /\
  (md_frozen s = true -> md_frozen (run ct self s l) = true).
Proof.
  intros Hfz Hu Hf Ha. split.
  - destruct (token_constant ct self id (fun s => ct <> Updatable \/ md_frozen s = true) uri_tag)
      with (l := l) (s := s) (t := t) as [t' [H1 H2]]; auto.
    + intros e o s0 s' ms [Hc|Hm] H; [left; exact Hc | right; eapply md_frozen_step; eauto].
    + intros e o s0 s' ms t0 t1 Hp Hu0 H Hf0 Hf1.
      destruct (step_token _ _ _ _ _ _ _ _ _ Hu0 H Hf0) as [[_ Hn] | (t2 & H2 & [Huri | (_ & Hc & Hm & _)] & _)].
      * congruence.
      * unfold uri_tag. rewrite H2 in Hf1. inversion Hf1; subst. rewrite Huri. reflexivity.
      * destruct Hp as [Hp|Hp]; congruence.
    + exists t'. split; [exact H1 | apply uri_tag_inj; exact H2].
  - intros Hm. apply (run_invariant (fun s => md_frozen s = true)); [|exact Hm].
    intros; eapply md_frozen_step; eauto.
Qed.

Lemma freeze_metadata_ok ct self e s s' ms :
  step ct self e OFreezeTokenMd s = Ok (s', ms) ->
  ct = Updatable /\ ci_creator (info s) = sender e /\ md_frozen s' = true /\ tokens s' = tokens s.
Proof.
  intros H. apply step_exec in H. destruct H as [Hs H].
  pose proof (exec_frame _ _ _ _ _ _ H) as (_ & _ & (Hc & _ & Hm & _) & _).
  pose proof (exec_tokens _ _ _ _ _ _ H) as [Ht _].
  split; [destruct ct; simpl in Hs; try discriminate; reflexivity | auto].
Qed.

(* the minter (cw-ownable owner) changes only through the two-step hand-over or a renounce *)
Lemma minter_change ct self e o s s' ms :
  step ct self e o s = Ok (s', ms) -> o_owner (own s') <> o_owner (own s) ->
  (o = OOwnAccept /\ o_pending (own s) = Some (sender e) /\ o_owner (own s') = Some (sender e)) \/
  (o = OOwnRenounce /\ o_owner (own s) = Some (sender e) /\ o_owner (own s') = None).
Proof.
  intros H Hne. apply step_exec in H. destruct H as [_ H]. apply exec_frame in H.
  destruct H as (_ & _ & _ & Ho).
  destruct o as [id owner uri|to id|to id accepts|sp id ex|sp id|opr ex|opr|id|m|t| |new ex| | |id uri| | ];
    try (exfalso; apply Hne; rewrite Ho; reflexivity).
  - destruct Ho as [_ Ho]. exfalso. apply Hne. rewrite Ho. reflexivity.
  - destruct Ho as [Hp Ho]. left. rewrite Ho. auto.
  - destruct Ho as [Hp Ho]. right. rewrite Ho. auto.
Qed.

(* ---- a stored entry is an entry, whatever its share: raises are judged against it *)
Lemma royalty_update_stores ct self e m new s s' ms :
  step ct self e (OUpdateInfo m) s = Ok (s', ms) -> u_royalty m = Some new ->
  ci_royalty (info s') = Some new.
Proof.
  intros H Hm. apply step_exec in H. destruct H as [_ H].
  destruct (exec_royalty _ _ _ _ _ _ H) as [(Hc & _) | (m' & new' & Heq & Hm' & _ & Hr & _)].
  - simpl in Hc. rewrite Hm in Hc. discriminate.
  - inversion Heq; subst. rewrite Hm in Hm'. inversion Hm'; subst. exact Hr.
Qed.

Lemma raise_refused ct self e m new old s :
  ci_royalty (info s) = Some old -> u_royalty m = Some new ->
  r_share old + MAX_DELTA < r_share new \/ (r_share old < r_share new /\ MAX_SHARE < r_share new) ->
  step ct self e (OUpdateInfo m) s = Err.
Proof.
  intros Ho Hm Hbig.
  destruct (step ct self e (OUpdateInfo m) s) as [[s' ms]|] eqn:H; [|reflexivity].
  exfalso. pose proof (royalty_update_stores _ _ _ _ _ _ _ _ H Hm) as Hn.
  assert (Hlt : r_share old < r_share new) by (destruct Hbig as [Hb|[Hb _]]; lia).
  destruct (raise_bounded _ _ _ _ _ _ _ _ _ H Ho Hn Hlt) as [H1 H2].
  destruct Hbig as [Hb|[_ Hb]]; lia.
Qed.

(* instantiate stores the royalty entry it is given: Some with share 0 stays an entry, and
   the first update of such a collection is a raise from 0 % - above 2 % it is refused,
   at any time, from any sender *)
Lemma zero_share_entry_is_an_entry ct self t b f mi c s payee e m new :
  instantiate ct t b f mi c = Ok s -> ci_royalty c = Some (mkRoy payee 0) ->
  u_royalty m = Some new -> MAX_DELTA < r_share new ->
  ci_royalty (info s) = Some (mkRoy payee 0) /\ step ct self e (OUpdateInfo m) s = Err.
Proof.
  intros H Hc Hm Hbig. destruct (share_ok_instantiate _ _ _ _ _ _ _ H) as (_ & _ & _ & Hi).
  rewrite Hi. split; [exact Hc|].
  eapply raise_refused; [rewrite Hi; exact Hc | exact Hm | left; simpl; lia].
Qed.

(* ================================================================== histories with migrations *)
(* The deployed contract: calls and admin migrations to the sg721-updatable code. *)
Lemma migrate_ok nw d d' :
  migrate_to_updatable nw d = Ok d' ->
  d_ct d' = Updatable /\ d_name d' = NUpd /\ d_ver d' = CUR_VERSION /\ d_admin d' = d_admin d /\
  compatible_name (d_name d) = true /\
  tokens (d_st d') = tokens (d_st d) /\ token_count (d_st d') = token_count (d_st d) /\
  operators (d_st d') = operators (d_st d) /\ own (d_st d') = own (d_st d) /\
  info (d_st d') = info (d_st d) /\ frozen (d_st d') = frozen (d_st d) /\
  (if is_base_name (d_name d)
   then md_frozen (d_st d') = false /\ md_enabled (d_st d') = false
   else md_frozen (d_st d') = md_frozen (d_st d) /\ md_enabled (d_st d') = md_enabled (d_st d)) /\
  (if ver_ltb (d_ver d) (3, 1, 0)
   then DAY_NS <= nw /\ royalty_updated_at (d_st d') = nw - DAY_NS
   else royalty_updated_at (d_st d') = royalty_updated_at (d_st d)).
Proof.
  unfold migrate_to_updatable. intros H.
  destruct EARLIEST_VERSION as [v0|]; [|discriminate H].
  destruct (compatible_name (d_name d)) eqn:En; cbn [negb] in H; [|discriminate H].
  destruct (ver_ltb (d_ver d) v0); [discriminate H|].
  destruct (ver_ltb CUR_VERSION (d_ver d)); [discriminate H|].
  destruct (ver_eqb (d_ver d) CUR_VERSION && cwname_eqb (d_name d) NUpd); [discriminate H|].
  destruct (ver_ltb (d_ver d) (3, 0, 0)); [discriminate H|].
  destruct (ver_ltb (d_ver d) (3, 1, 0)) eqn:E31.
  - destruct (nw <? DAY_NS) eqn:Ed; cbn [bind] in H; [discriminate H|]. apply N.ltb_ge in Ed.
    inversion H; subst; clear H. cbn [d_ct d_name d_ver d_admin d_st].
    destruct (is_base_name (d_name d)); cbn; repeat split; auto.
  - cbn [bind] in H. inversion H; subst; clear H. cbn [d_ct d_name d_ver d_admin d_st].
    destruct (is_base_name (d_name d)); cbn; repeat split; auto.
Qed.

(* ---- the variants' own migrate entry points *)
Definition same_tokens_info (d d' : deployed) : Prop :=
  d_admin d' = d_admin d /\
  tokens (d_st d') = tokens (d_st d) /\ token_count (d_st d') = token_count (d_st d) /\
  operators (d_st d') = operators (d_st d) /\ own (d_st d') = own (d_st d) /\
  info (d_st d') = info (d_st d) /\ frozen (d_st d') = frozen (d_st d).

Lemma base_lib_ok nw d d' :
  base_lib_migrate nw d = Ok d' ->
  d_ct d' = d_ct d /\ d_name d = NBase /\ d_name d' = NBase /\
  parse_version sg721_base__CONTRACT_VERSION = Some (d_ver d') /\
  same_tokens_info d d' /\
  md_frozen (d_st d') = md_frozen (d_st d) /\ md_enabled (d_st d') = md_enabled (d_st d) /\
  (if str_ltb (ver_str (d_ver d)) (ver_str (3, 1, 0))
   then DAY_NS <= nw /\ royalty_updated_at (d_st d') = nw - DAY_NS
   else royalty_updated_at (d_st d') = royalty_updated_at (d_st d)).
Proof.
  unfold base_lib_migrate, same_tokens_info. intros H.
  destruct (cwname_eqb (d_name d) NBase) eqn:En; cbn [negb] in H; [|discriminate H].
  assert (Hn : d_name d = NBase) by (destruct (d_name d); simpl in En; try discriminate; reflexivity).
  destruct (str_ltb (ver_str (d_ver d)) sg721_base__CONTRACT_VERSION); cbn [negb] in H; [|discriminate H].
  destruct (str_ltb (ver_str (d_ver d)) (ver_str (3, 0, 0))); [discriminate H|].
  destruct (parse_version sg721_base__CONTRACT_VERSION) as [cur|]; [|discriminate H].
  destruct (str_ltb (ver_str (d_ver d)) (ver_str (3, 1, 0))).
  - destruct (nw <? DAY_NS) eqn:Ed; cbn [bind] in H; [discriminate H|]. apply N.ltb_ge in Ed.
    inversion H; subst; clear H. cbn. repeat split; auto.
  - cbn [bind] in H. inversion H; subst; clear H. cbn. repeat split; auto.
Qed.

Lemma onchain_ok d d' :
  onchain_migrate d = Ok d' ->
  d' = d \/ (d_ct d' = d_ct d /\ d_admin d' = d_admin d /\ d_name d' = NOther 1 /\ d_st d' = d_st d).
Proof.
  unfold onchain_migrate. intros H.
  destruct (parse_version sg721_metadata_onchain__EARLIEST_VERSION) as [v0|]; [|discriminate H].
  destruct (parse_version sg721_metadata_onchain__CONTRACT_VERSION) as [cur|]; [|discriminate H].
  destruct (parse_version sg721_metadata_onchain__TO_VERSION) as [tov|]; [|discriminate H].
  destruct (ver_ltb (d_ver d) v0); [discriminate H|].
  destruct (ver_ltb cur (d_ver d)); [discriminate H|].
  destruct (ver_eqb cur (d_ver d)).
  - inversion H; subst. left. reflexivity.
  - destruct (ver_ltb (d_ver d) (3, 0, 0)); [discriminate H|].
    inversion H; subst; clear H. right. cbn. auto.
Qed.

Lemma nt_ok d d' : nt_migrate d = Ok d' -> d' = d.
Proof.
  unfold nt_migrate. intros H.
  destruct (str_ltb sg721_nt__CONTRACT_VERSION sg721_nt__EARLIEST_VERSION); [discriminate H|].
  destruct (str_ltb sg721_nt__TO_VERSION sg721_nt__CONTRACT_VERSION); [discriminate H|].
  destruct (String.eqb sg721_nt__CONTRACT_VERSION sg721_nt__TO_VERSION); [|discriminate H].
  inversion H. reflexivity.
Qed.

(* the four ways a successful MsgMigrateContract of these histories goes *)
Inductive migration (nw : N) (d d' : deployed) : Prop :=
| MigUpd : migrate_to_updatable nw d = Ok d' -> migration nw d d'
| MigBase : d_ct d = Base -> base_lib_migrate nw d = Ok d' -> migration nw d d'
| MigOnchain : d_ct d = Onchain -> onchain_migrate d = Ok d' -> migration nw d d'
| MigNt : d_ct d = NT -> d' = d -> migration nw d d'.

Lemma migrate_self_cases nw d d' : migrate_self nw d = Ok d' -> migration nw d d'.
Proof.
  unfold migrate_self. destruct (d_ct d) eqn:Ec; intros H.
  - apply MigBase; assumption.
  - apply MigUpd; assumption.
  - apply MigOnchain; assumption.
  - apply MigNt; [assumption | apply nt_ok; assumption].
Qed.

Lemma same_tokens_info_refl d : same_tokens_info d d.
Proof. unfold same_tokens_info. repeat split; reflexivity. Qed.

(* no migration touches tokens, count, operators, the minter, collection info (royalties
   included) or the collection-info freeze *)
Lemma migration_keeps nw d d' : migration nw d d' -> same_tokens_info d d'.
Proof.
  intros [H | _ H | _ H | _ H].
  - apply migrate_ok in H. unfold same_tokens_info. tauto.
  - apply base_lib_ok in H. tauto.
  - apply onchain_ok in H. destruct H as [-> | (_ & Ha & _ & Hs)]; [apply same_tokens_info_refl|].
    unfold same_tokens_info. rewrite Hs. repeat split; auto.
  - subst. apply same_tokens_info_refl.
Qed.

(* which migrations move the royalty anchor: the sg721-updatable migrate for a recorded
   version (semver-)below 3.1.0 and Sg721Contract::migrate (sg721-base) for a recorded version
   string-below "3.1.0"; the metadata-onchain and sg721-nt migrates never do *)
Lemma migration_anchor nw d d' :
  migration nw d d' ->
  royalty_updated_at (d_st d') = royalty_updated_at (d_st d) \/
  (DAY_NS <= nw /\ royalty_updated_at (d_st d') = nw - DAY_NS /\
   ((d_ct d' = Updatable /\ ver_ltb (d_ver d) (3, 1, 0) = true) \/
    (d_ct d = Base /\ d_ct d' = Base /\ str_ltb (ver_str (d_ver d)) (ver_str (3, 1, 0)) = true))).
Proof.
  intros [H | Hc H | _ H | _ H].
  - apply migrate_ok in H. destruct H as (Hct & _ & _ & _ & _ & _ & _ & _ & _ & _ & _ & _ & Ha).
    destruct (ver_ltb (d_ver d) (3, 1, 0)); [right | left]; tauto.
  - apply base_lib_ok in H. destruct H as (Hct & _ & _ & _ & _ & _ & _ & Ha).
    destruct (str_ltb (ver_str (d_ver d)) (ver_str (3, 1, 0))); [right | left; exact Ha].
    destruct Ha as [Ha1 Ha2]. split; [exact Ha1|]. split; [exact Ha2|]. right. rewrite Hct. auto.
  - apply onchain_ok in H. destruct H as [-> | (_ & _ & _ & Hs)]; left; [reflexivity | rewrite Hs; reflexivity].
  - subst. left. reflexivity.
Qed.

Lemma onchain_nt_migrate_keeps_state nw d d' :
  (d_ct d = Onchain \/ d_ct d = NT) -> migrate_self nw d = Ok d' -> d_st d' = d_st d /\ d_ct d' = d_ct d.
Proof.
  unfold migrate_self. intros [Hc|Hc] H; rewrite Hc in H.
  - apply onchain_ok in H. destruct H as [-> | (Hct & _ & _ & Hs)]; auto.
  - apply nt_ok in H. subst. auto.
Qed.

Lemma dstep_ok self e a d d' ms :
  dstep self e a d = Ok (d', ms) ->
  (exists o s', a = ACall o /\ step (d_ct d) self e o (d_st d) = Ok (s', ms) /\ d' = with_state d s') \/
  (a = AMigrate /\ ms = [] /\ d_admin d = sender e /\ migrate_to_updatable (now e) d = Ok d') \/
  (a = AMigrateSelf /\ ms = [] /\ d_admin d = sender e /\ migrate_self (now e) d = Ok d').
Proof.
  destruct a as [o| |]; simpl; intros H.
  - apply bind_ok in H. destruct H as [[s' ms'] [Hs H]]. inversion H; subst; clear H.
    left. exists o, s'. auto.
  - destruct (d_admin d =? sender e) eqn:Ea; [|discriminate]. apply N.eqb_eq in Ea.
    apply bind_ok in H. destruct H as [d1 [Hm H]]. inversion H; subst; clear H. right. left. auto.
  - destruct (d_admin d =? sender e) eqn:Ea; [|discriminate]. apply N.eqb_eq in Ea.
    apply bind_ok in H. destruct H as [d1 [Hm H]]. inversion H; subst; clear H. right. right. auto.
Qed.

(* a transaction is a call or a migration by the admin *)
Lemma dstep_cases self e a d d' ms :
  dstep self e a d = Ok (d', ms) ->
  (exists o s', a = ACall o /\ step (d_ct d) self e o (d_st d) = Ok (s', ms) /\ d' = with_state d s') \/
  ((a = AMigrate \/ a = AMigrateSelf) /\ ms = [] /\ d_admin d = sender e /\ migration (now e) d d').
Proof.
  intros H. apply dstep_ok in H. destruct H as [H | [(Ha & Hm & Had & H) | (Ha & Hm & Had & H)]].
  - left. exact H.
  - right. repeat split; auto. apply MigUpd. exact H.
  - right. repeat split; auto. apply migrate_self_cases. exact H.
Qed.

Lemma dapply_cases self d ea :
  dapply self d ea = d \/ exists ms, dstep self (fst ea) (snd ea) d = Ok (dapply self d ea, ms).
Proof.
  unfold dapply. destruct (dstep self (fst ea) (snd ea) d) as [[d' ms]|]; [right; eauto | left; reflexivity].
Qed.

Lemma drun_invariant (P : deployed -> Prop) self :
  (forall e a d d' ms, P d -> dstep self e a d = Ok (d', ms) -> P d') ->
  forall l d, P d -> P (drun self d l).
Proof.
  intros Hstep l. induction l as [|ea l IH]; intros d Hd; simpl; [exact Hd|].
  apply IH. destruct (dapply_cases self d ea) as [-> | [ms H]]; [exact Hd|].
  eapply Hstep; eauto.
Qed.

(* ---- C09 over histories with migrations *)
Definition d_tokens_ok (d : deployed) : Prop := count_inv (d_st d) /\ keys_unique (d_st d).

Lemma d_tokens_ok_step self e a d d' ms :
  d_tokens_ok d -> dstep self e a d = Ok (d', ms) -> d_tokens_ok d'.
Proof.
  intros [Hc Hk] H. apply dstep_cases in H.
  destruct H as [(o & s' & _ & Hs & ->) | (_ & _ & _ & Hm)].
  - split; simpl; [eapply count_inv_step; eauto | eapply keys_unique_step; eauto].
  - apply migration_keeps in Hm. destruct Hm as (_ & Ht & Hn & _).
    unfold d_tokens_ok, count_inv, keys_unique in *. rewrite Ht, Hn. auto.
Qed.

Lemma d_tokens_ok_run self l d :
  count_inv (d_st d) -> keys_unique (d_st d) ->
  count_inv (d_st (drun self d l)) /\ keys_unique (d_st (drun self d l)).
Proof.
  intros Hc Hk. apply (drun_invariant d_tokens_ok self); [|split; assumption].
  intros; eapply d_tokens_ok_step; eauto.
Qed.

(* a migration (to the updatable code or with the contract's own code) touches neither
   tokens, count, operators, ownership, collection info nor the collection-info freeze *)
Lemma migrate_keeps self e a d d' ms :
  a = AMigrate \/ a = AMigrateSelf ->
  dstep self e a d = Ok (d', ms) ->
  d_admin d = sender e /\
  tokens (d_st d') = tokens (d_st d) /\ token_count (d_st d') = token_count (d_st d) /\
  operators (d_st d') = operators (d_st d) /\ own (d_st d') = own (d_st d) /\
  info (d_st d') = info (d_st d) /\ frozen (d_st d') = frozen (d_st d).
Proof.
  intros Ha H. apply dstep_cases in H.
  destruct H as [(o & s' & Hc & _) | (_ & _ & Had & Hm)]; [destruct Ha; congruence|].
  apply migration_keeps in Hm. unfold same_tokens_info in Hm. tauto.
Qed.

Lemma d_frozen_step self e a d d' ms :
  frozen (d_st d) = true -> dstep self e a d = Ok (d', ms) ->
  creator_fields (d_st d') = creator_fields (d_st d) /\ frozen (d_st d') = true.
Proof.
  intros Hf H. apply dstep_cases in H.
  destruct H as [(o & s' & _ & Hs & ->) | (_ & _ & _ & Hm)].
  - simpl. eapply frozen_step; eauto.
  - apply migration_keeps in Hm. destruct Hm as (_ & _ & _ & _ & _ & Hi & Hz).
    unfold creator_fields. rewrite Hi, Hz. auto.
Qed.

Lemma d_frozen_is_final self l : forall d,
  frozen (d_st d) = true ->
  creator_fields (d_st (drun self d l)) = creator_fields (d_st d) /\ frozen (d_st (drun self d l)) = true.
Proof.
  induction l as [|ea l IH]; intros d Hf; simpl; [auto|].
  destruct (dapply_cases self d ea) as [-> | [ms H]]; [apply IH; exact Hf|].
  destruct (d_frozen_step _ _ _ _ _ _ Hf H) as [Hc Hf'].
  destruct (IH _ Hf') as [Hc' Hf'']. split; [congruence | exact Hf''].
Qed.

Lemma d_keys_step self e a d d' ms :
  keys_unique (d_st d) -> dstep self e a d = Ok (d', ms) -> keys_unique (d_st d').
Proof.
  intros Hk H. apply dstep_cases in H.
  destruct H as [(o & s' & _ & Hs & ->) | (_ & _ & _ & Hm)].
  - simpl. eapply keys_unique_step; eauto.
  - apply migration_keeps in Hm. destruct Hm as (_ & Ht & _).
    unfold keys_unique in *. rewrite Ht. exact Hk.
Qed.

(* the token exists after every transaction of the history *)
Fixpoint d_alive_through (self : addr) (id : N) (d : deployed) (l : list (env * action)) : Prop :=
  match l with
  | [] => True
  | ea :: r => tfind id (tokens (d_st (dapply self d ea))) <> None /\ d_alive_through self id (dapply self d ea) r
  end.

Lemma d_token_constant self id (P : deployed -> Prop) (f : token -> N + unit) :
  (forall e a d d' ms, P d -> dstep self e a d = Ok (d', ms) -> P d') ->
  (forall e a d d' ms t t', P d -> keys_unique (d_st d) -> dstep self e a d = Ok (d', ms) ->
      tfind id (tokens (d_st d)) = Some t -> tfind id (tokens (d_st d')) = Some t' -> f t' = f t) ->
  forall l d t, P d -> keys_unique (d_st d) -> tfind id (tokens (d_st d)) = Some t ->
    d_alive_through self id d l ->
    exists t', tfind id (tokens (d_st (drun self d l))) = Some t' /\ f t' = f t.
Proof.
  intros HP Hstep l. induction l as [|ea l IH]; intros d t Hp Hu Hf Ha; simpl.
  - exists t. auto.
  - destruct Ha as [Hlive Ha].
    destruct (dapply_cases self d ea) as [Heq | [ms H]].
    + rewrite Heq in *. eapply IH; eauto.
    + destruct (tfind id (tokens (d_st (dapply self d ea)))) as [t1|] eqn:E1; [|congruence].
      assert (Hft : f t1 = f t) by (eapply Hstep; eauto).
      assert (Hu1 : keys_unique (d_st (dapply self d ea))) by (eapply d_keys_step; eauto).
      destruct (IH (dapply self d ea) t1) as [t2 [H2 Hf2]]; eauto.
      exists t2. split; [exact H2 | congruence].
Qed.

(* once token metadata is frozen on an updatable collection (whose cw2 record is not an
   sg721-base one: it never is, the migration from sg721-base rewrites the record) no
   call and no migration changes the URI of a token while it lives; the collection stays
   updatable and frozen *)
Definition md_sealed (d : deployed) : Prop :=
  d_ct d = Updatable /\ is_base_name (d_name d) = false /\ md_frozen (d_st d) = true.

Lemma md_sealed_step self e a d d' ms :
  md_sealed d -> dstep self e a d = Ok (d', ms) -> md_sealed d'.
Proof.
  intros (Hc & Hn & Hf) H. apply dstep_cases in H.
  destruct H as [(o & s' & _ & Hs & ->) | (_ & _ & _ & [Hm | Hb _ | Hb _ | Hb _])]; try congruence.
  - unfold md_sealed. simpl. repeat split; auto. eapply md_frozen_step; eauto.
  - apply migrate_ok in Hm. destruct Hm as (Hc' & Hn' & _ & _ & _ & _ & _ & _ & _ & _ & _ & Hmd & _).
    rewrite Hn in Hmd. destruct Hmd as [Hmd _].
    unfold md_sealed. rewrite Hc', Hn', Hmd. auto.
Qed.

Lemma d_metadata_frozen_final self id l d t :
  md_sealed d -> keys_unique (d_st d) -> tfind id (tokens (d_st d)) = Some t ->
  d_alive_through self id d l ->
  (exists t', tfind id (tokens (d_st (drun self d l))) = Some t' /\ k_uri t' = k_uri t) /\
  md_sealed (drun self d l).
Proof.
  intros Hs Hu Hf Ha. split.
  - destruct (d_token_constant self id md_sealed uri_tag) with (l := l) (d := d) (t := t)
      as [t' [H1 H2]]; auto.
    + intros; eapply md_sealed_step; eauto.
    + intros e a d0 d1 ms t0 t1 (Hc & Hn & Hm) Hu0 H Hf0 Hf1. apply dstep_cases in H.
      destruct H as [(o & s' & _ & Hst & ->) | (_ & _ & _ & Hmg)].
      * simpl in Hf1. rewrite Hc in Hst.
        destruct (step_token _ _ _ _ _ _ _ _ _ Hu0 Hst Hf0) as [[_ Hn0] | (t2 & H2 & [Huri | (_ & _ & Hm0 & _)] & _)].
        -- congruence.
        -- unfold uri_tag. rewrite H2 in Hf1. inversion Hf1; subst. rewrite Huri. reflexivity.
        -- congruence.
      * apply migration_keeps in Hmg. destruct Hmg as (_ & Ht & _).
        rewrite Ht in Hf1. congruence.
    + exists t'. split; [exact H1 | apply uri_tag_inj; exact H2].
  - apply (drun_invariant md_sealed self); [|exact Hs]. intros; eapply md_sealed_step; eauto.
Qed.

(* sg721-nt cannot be migrated to the updatable code (its cw2 name is not accepted) and its
   own migrate changes nothing, so the owner of a token stays constant between mint and
   burn over histories with migrate attempts as well *)
Definition is_nt (d : deployed) : Prop := d_ct d = NT /\ compatible_name (d_name d) = false.

Lemma is_nt_step self e a d d' ms : is_nt d -> dstep self e a d = Ok (d', ms) -> is_nt d'.
Proof.
  intros (Hc & Hn) H. apply dstep_cases in H.
  destruct H as [(o & s' & _ & Hs & ->) | (_ & _ & _ & [Hm | Hb _ | Hb _ | _ ->])]; try congruence.
  - split; assumption.
  - apply migrate_ok in Hm. destruct Hm as (_ & _ & _ & _ & Hcn & _). congruence.
  - split; assumption.
Qed.

Lemma d_nt_owner_constant self id l d t :
  is_nt d -> keys_unique (d_st d) -> tfind id (tokens (d_st d)) = Some t ->
  d_alive_through self id d l ->
  exists t', tfind id (tokens (d_st (drun self d l))) = Some t' /\ k_owner t' = k_owner t.
Proof.
  intros Hn Hu Hf Ha.
  destruct (d_token_constant self id is_nt owner_tag) with (l := l) (d := d) (t := t)
    as [t' [H1 H2]]; auto.
  - intros; eapply is_nt_step; eauto.
  - intros e a d0 d1 ms t0 t1 (Hc & Hcn) Hu0 H Hf0 Hf1. apply dstep_cases in H.
    destruct H as [(o & s' & _ & Hst & ->) | (_ & _ & _ & Hmg)].
    + simpl in Hf1. rewrite Hc in Hst.
      destruct (step_token _ _ _ _ _ _ _ _ _ Hu0 Hst Hf0) as [[_ Hn0] | (t2 & H2 & _ & [Ho | [_ Hx]])].
      * congruence.
      * unfold owner_tag. congruence.
      * congruence.
    + apply migration_keeps in Hmg. destruct Hmg as (_ & Ht & _). rewrite Ht in Hf1. congruence.
  - exists t'. split; [exact H1|]. unfold owner_tag in H2. congruence.
Qed.

(* ---- C10 over histories with migrations *)
Lemma d_royalty_step self e a d d' ms :
  dstep self e a d = Ok (d', ms) ->
  (exists o, a = ACall o /\ step (d_ct d) self e o (d_st d) = Ok (d_st d', ms)) \/
  ((a = AMigrate \/ a = AMigrateSelf) /\ ci_royalty (info (d_st d')) = ci_royalty (info (d_st d))).
Proof.
  intros H. apply dstep_cases in H.
  destruct H as [(o & s' & -> & Hs & ->) | (Ha & _ & _ & Hm)].
  - left. exists o. auto.
  - right. apply migration_keeps in Hm. destruct Hm as (_ & _ & _ & _ & _ & Hi & _).
    rewrite Hi. auto.
Qed.

Lemma d_share_ok_run self l d : share_ok (d_st d) -> share_ok (d_st (drun self d l)).
Proof.
  apply (drun_invariant (fun d => share_ok (d_st d)) self).
  intros e a d0 d1 ms Hs H. destruct (d_royalty_step _ _ _ _ _ _ H) as [(o & _ & Hst) | (_ & Hr)].
  - eapply share_ok_step; eauto.
  - unfold share_ok in *. rewrite Hr. exact Hs.
Qed.

Lemma d_raise_bounded self e a d d' ms ro rn :
  dstep self e a d = Ok (d', ms) ->
  ci_royalty (info (d_st d)) = Some ro -> ci_royalty (info (d_st d')) = Some rn ->
  r_share ro < r_share rn ->
  r_share rn - r_share ro <= MAX_DELTA /\ r_share rn <= MAX_SHARE.
Proof.
  intros H Ho Hn Hlt. destruct (d_royalty_step _ _ _ _ _ _ H) as [(o & _ & Hst) | (_ & Hr)].
  - eapply raise_bounded; eauto.
  - rewrite Hr, Ho in Hn. inversion Hn; subst. lia.
Qed.

Lemma d_climb_bounded self l : forall d a,
  share_of (d_st d) = Some a ->
  exists b, share_of (d_st (drun self d l)) = Some b /\ b <= N.max a MAX_SHARE.
Proof.
  induction l as [|ea l IH]; intros d a Ha; simpl.
  - exists a. split; [exact Ha | lia].
  - destruct (dapply_cases self d ea) as [-> | [ms H]]; [apply IH; exact Ha|].
    assert (Hb : exists b, share_of (d_st (dapply self d ea)) = Some b /\ b <= N.max a MAX_SHARE).
    { destruct (d_royalty_step _ _ _ _ _ _ H) as [(o & _ & Hst) | (_ & Hr)].
      - eapply climb_step; eauto.
      - exists a. unfold share_of in *. rewrite Hr. split; [exact Ha | lia]. }
    destruct Hb as [b [Hb Hle]]. destruct (IH _ _ Hb) as [c [Hc Hle']].
    exists c. split; [exact Hc | lia].
Qed.

Lemma d_raise_refused self e m new old d :
  ci_royalty (info (d_st d)) = Some old -> u_royalty m = Some new ->
  r_share old + MAX_DELTA < r_share new \/ (r_share old < r_share new /\ MAX_SHARE < r_share new) ->
  dstep self e (ACall (OUpdateInfo m)) d = Err.
Proof.
  intros Ho Hm Hbig. simpl. rewrite (raise_refused (d_ct d) self e m new old (d_st d) Ho Hm Hbig). reflexivity.
Qed.

Lemma migrate_keeps_royalty self e a d d' ms :
  a = AMigrate \/ a = AMigrateSelf ->
  dstep self e a d = Ok (d', ms) -> ci_royalty (info (d_st d')) = ci_royalty (info (d_st d)).
Proof.
  intros Ha H. apply (migrate_keeps _ _ _ _ _ _ Ha) in H.
  destruct H as (_ & _ & _ & _ & _ & Hi & _). rewrite Hi. reflexivity.
Qed.

(* what one migration does to the cadence anchor, per variant *)
Lemma d_migration_anchor self e a d d' ms :
  a = AMigrate \/ a = AMigrateSelf ->
  dstep self e a d = Ok (d', ms) ->
  royalty_updated_at (d_st d') = royalty_updated_at (d_st d) \/
  (DAY_NS <= now e /\ royalty_updated_at (d_st d') = now e - DAY_NS /\
   ((d_ct d' = Updatable /\ ver_ltb (d_ver d) (3, 1, 0) = true) \/
    (d_ct d = Base /\ d_ct d' = Base /\ str_ltb (ver_str (d_ver d)) (ver_str (3, 1, 0)) = true))).
Proof.
  intros Ha H. apply dstep_cases in H.
  destruct H as [(o & s' & Hc & _) | (_ & _ & _ & Hm)]; [destruct Ha; congruence|].
  apply migration_anchor. exact Hm.
Qed.

Lemma d_onchain_nt_self_migrate_keeps_state self e d d' ms :
  d_ct d = Onchain \/ d_ct d = NT ->
  dstep self e AMigrateSelf d = Ok (d', ms) -> d_st d' = d_st d /\ d_ct d' = d_ct d.
Proof.
  intros Hc H. apply dstep_ok in H.
  destruct H as [(o & s' & Ha & _) | [(Ha & _) | (_ & _ & _ & Hm)]]; try discriminate.
  eapply onchain_nt_migrate_keeps_state; eauto.
Qed.

(* cadence.  A deployment is `anchored` when no migration it can undergo re-creates the
   anchor: its recorded version is not below 3.1.0 (neither as a semver nor as a string), or
   it runs the metadata-onchain / nt code under a name the updatable migrate refuses (those
   two never reach a migrate with the 3.1.0 step; metadata-onchain records 3.0.0 after its
   own migrate, which is why the version alone would not do).  Every fresh deployment is
   anchored and stays so; over its whole future accepted royalty changes are >= 24 h apart. *)
Definition is_royalty_action (a : action) : bool :=
  match a with ACall o => is_royalty_change o | _ => false end.

Fixpoint d_accepted_changes (self : addr) (d : deployed) (l : list (env * action)) : list N :=
  match l with
  | [] => []
  | ea :: r =>
      match dstep self (fst ea) (snd ea) d with
      | Ok (d', _) =>
          if is_royalty_action (snd ea) then now (fst ea) :: d_accepted_changes self d' r
          else d_accepted_changes self d' r
      | Err => d_accepted_changes self d r
      end
  end.

Definition ver_anchored (v : version) : Prop :=
  ver_ltb v (3, 1, 0) = false /\ str_ltb (ver_str v) (ver_str (3, 1, 0)) = false.

Definition anchored (d : deployed) : Prop :=
  ver_anchored (d_ver d) \/
  ((d_ct d = Onchain \/ d_ct d = NT) /\ compatible_name (d_name d) = false).

Lemma cur_version_anchored : ver_anchored CUR_VERSION.
Proof. vm_compute. auto. Qed.

Lemma base_cur_anchored cur :
  parse_version sg721_base__CONTRACT_VERSION = Some cur -> ver_anchored cur.
Proof. intros H. vm_compute in H. inversion H; subst. vm_compute. auto. Qed.

Lemma anchored_migration nw d d' :
  anchored d -> migration nw d d' ->
  anchored d' /\ royalty_updated_at (d_st d') = royalty_updated_at (d_st d).
Proof.
  intros Ha [H | Hc H | Hc H | Hc H].
  - apply migrate_ok in H.
    destruct H as (_ & _ & Hver & _ & Hcn & _ & _ & _ & _ & _ & _ & _ & Hanchor).
    destruct Ha as [[Hv _] | [_ Hn]]; [|congruence].
    rewrite Hv in Hanchor. split; [|exact Hanchor].
    left. rewrite Hver. exact cur_version_anchored.
  - apply base_lib_ok in H. destruct H as (_ & _ & _ & Hp & _ & _ & _ & Hanchor).
    destruct Ha as [[_ Hs] | [[Hx|Hx] _]]; try congruence.
    rewrite Hs in Hanchor. split; [|exact Hanchor].
    left. eapply base_cur_anchored; eauto.
  - apply onchain_ok in H. destruct H as [-> | (Hct & _ & Hn & Hs)]; [auto|].
    split; [|rewrite Hs; reflexivity].
    right. rewrite Hct, Hn. auto.
  - subst. auto.
Qed.

Lemma anchored_step self e a d d' ms : anchored d -> dstep self e a d = Ok (d', ms) -> anchored d'.
Proof.
  intros Ha H. apply dstep_cases in H.
  destruct H as [(o & s' & _ & _ & ->) | (_ & _ & _ & Hm)].
  - exact Ha.
  - eapply anchored_migration; eauto.
Qed.

Lemma d_cadence self l : forall d,
  anchored d ->
  gaps_ok DAY_NS (royalty_updated_at (d_st d)) (d_accepted_changes self d l).
Proof.
  induction l as [|[e a] l IH]; intros d Hv; simpl; [exact I|].
  destruct (dstep self e a d) as [[d' ms]|] eqn:H; [|apply IH; exact Hv].
  pose proof (anchored_step _ _ _ _ _ _ Hv H) as Hv'.
  apply dstep_cases in H.
  destruct H as [(o & s' & -> & Hs & ->) | ([-> | ->] & _ & _ & Hm)].
  - simpl. apply step_exec in Hs. destruct Hs as [_ Hs].
    destruct (exec_royalty _ _ _ _ _ _ Hs) as [(Hc & _ & Ht) | (m & new & -> & Hmm & Hu & _ & Ht)].
    + rewrite Hc. rewrite <- Ht. apply (IH (with_state d s')). exact Hv'.
    + simpl. rewrite Hmm. simpl. split.
      * apply update_royalty_ok in Hu. tauto.
      * rewrite <- Ht. apply (IH (with_state d s')). exact Hv'.
  - simpl. destruct (anchored_migration _ _ _ Hv Hm) as [_ Ht]. rewrite <- Ht. apply IH. exact Hv'.
  - simpl. destruct (anchored_migration _ _ _ Hv Hm) as [_ Ht]. rewrite <- Ht. apply IH. exact Hv'.
Qed.

Lemma d_cadence_any_two self l d :
  anchored d -> ForallOrdPairs (fun t1 t2 => t1 + DAY_NS <= t2) (d_accepted_changes self d l).
Proof. intros Hv. exact (gaps_ok_pairs _ _ _ (d_cadence self l d Hv)). Qed.

(* what `boot` of a recorded history yields: a fresh deployment records the workspace
   version under the code's own name *)
Definition fresh (ct : ctype) (admin : addr) (s : state) : deployed :=
  mkDep ct admin (name_of ct) CUR_VERSION s.

Lemma fresh_anchored ct admin s : anchored (fresh ct admin s).
Proof. left. exact cur_version_anchored. Qed.

Lemma d_cadence_from_creation self ct admin t b f m c s l :
  instantiate ct t b f m c = Ok s ->
  Forall (fun x => t + DAY_NS <= x) (d_accepted_changes self (fresh ct admin s) l).
Proof.
  intros H. destruct (share_ok_instantiate _ _ _ _ _ _ _ H) as (_ & Ht & _).
  rewrite <- Ht. exact (gaps_ok_lower _ _ _ (d_cadence self l (fresh ct admin s) (fresh_anchored _ _ _))).
Qed.

Lemma d_count_inv_from_creation self ct admin t b f m c s l :
  instantiate ct t b f m c = Ok s ->
  token_count (d_st (drun self (fresh ct admin s) l)) = N.of_nat (length (tokens (d_st (drun self (fresh ct admin s) l)))) /\
  NoDup (map fst (tokens (d_st (drun self (fresh ct admin s) l)))).
Proof.
  intros H. apply count_inv_instantiate in H. destruct H as [H1 H2].
  exact (d_tokens_ok_run self l (fresh ct admin s) H1 H2).
Qed.

(* ================================================================== example data used by props/C09.v and props/C10.v *)
Definition c10_ex_info : cinfo :=
  mkInfo 12 (mkTxt 1 12 false) (mkTxt 2 29 true) None None None (Some (mkRoy 18 50000000000000000)).
Definition c10_ex_t0 : N := 1647032401000000000.
Definition c10_ex_s0 : state :=
  mkSt [] 0 [] (mkOwn (Some 10) None None) c10_ex_info false c10_ex_t0 false false.
Definition c10_ex_upd (share : N) : op := OUpdateInfo (mkUpd None None None None (Some (mkRoy 18 share)) None).

Definition c09_ex_info : cinfo :=
  mkInfo 12 (mkTxt 1 12 false) (mkTxt 2 29 true) None (Some false) None (Some (mkRoy 18 50000000000000000)).
Definition c09_ex_boot (ct : ctype) : state :=
  match instantiate ct 1000 true [] 10 c09_ex_info with Ok s => s | Err => mkSt [] 0 [] (mkOwn None None None) c09_ex_info false 0 false false end.
Definition c09_at (t who : N) : env := mkEnv t who [].

