(* Lemmas about the collection model (Collection.v) behind C09 and C10. *)
From LP Require Import Num Pay Sg1 Consts Collection NumLemmas.
From Coq Require Import ZArith Lia ZifyN ZifyBool.
Import ListNotations.
Local Open Scope N_scope.

(* ================================================================== generic helpers *)
Lemma bind_ok {A B} (r : result A) (f : A -> result B) b :
  bind r f = Ok b -> exists a, r = Ok a /\ f a = Ok b.
Proof. destruct r; simpl; intros H; [eauto | discriminate]. Qed.

Lemma quiet_ok r s ms : quiet r = Ok (s, ms) -> r = Ok s /\ ms = [].
Proof. unfold quiet. destruct r; simpl; intros H; inversion H; auto. Qed.

Lemma step_exec ct self e o s x : step ct self e o s = Ok x -> supports ct o = true /\ exec self e o s = Ok x.
Proof. unfold step. destruct (supports ct o); intros H; [auto | discriminate]. Qed.

(* ================================================================== C10: royalties *)
Definition share_ok (s : state) : Prop :=
  match ci_royalty (info s) with Some r => r_share r <= dec_one | None => True end.

Definition share_of (s : state) : option N :=
  match ci_royalty (info s) with Some r => Some (r_share r) | None => None end.

Definition info_wf (c : cinfo) : Prop :=
  t_len (ci_description c) <= MAX_DESC /\ t_url (ci_image c) = true /\ link_ok (ci_external_link c) = true.

Lemma update_royalty_ok nw old upd new r t :
  update_royalty nw old upd new = Ok (r, t) ->
  r = Some new /\ t = nw /\ upd + DAY_NS <= nw /\ upd + DAY_NS <= U64_MAX /\ r_share new <= dec_one /\
  (forall o, old = Some o -> r_share o < r_share new ->
             r_share new - r_share o <= MAX_DELTA /\ r_share new <= MAX_SHARE).
Proof.
  unfold update_royalty, share_validate.
  destruct (U64_MAX <? upd + DAY_NS) eqn:E1; [discriminate|].
  destruct (nw <? upd + DAY_NS) eqn:E2; [discriminate|].
  destruct (r_share new <=? dec_one) eqn:E3; simpl; [|discriminate].
  apply N.ltb_ge in E1. apply N.ltb_ge in E2. apply N.leb_le in E3.
  assert (Hbase : forall r t, Ok (Some new, nw) = Ok (r, t) ->
            r = Some new /\ t = nw /\ upd + DAY_NS <= nw /\ upd + DAY_NS <= U64_MAX /\ r_share new <= dec_one).
  { intros r0 t0 H0. inversion H0; subst. auto. }
  destruct old as [o|].
  - destruct (r_share o <? r_share new) eqn:E4.
    + destruct (r_share new - r_share o <=? MAX_DELTA) eqn:E5; simpl; [|discriminate].
      destruct (r_share new <=? MAX_SHARE) eqn:E6; simpl; [|discriminate].
      intros H. destruct (Hbase _ _ H) as (A1 & A2 & A3 & A4 & A5).
      split; [exact A1|]. split; [exact A2|]. split; [exact A3|]. split; [exact A4|]. split; [exact A5|].
      intros o' Ho _. inversion Ho; subst. apply N.leb_le in E5. apply N.leb_le in E6. auto.
    + intros H. destruct (Hbase _ _ H) as (A1 & A2 & A3 & A4 & A5).
      split; [exact A1|]. split; [exact A2|]. split; [exact A3|]. split; [exact A4|]. split; [exact A5|].
      intros o' Ho Hlt. inversion Ho; subst. apply N.ltb_ge in E4. lia.
  - intros H. destruct (Hbase _ _ H) as (A1 & A2 & A3 & A4 & A5).
    split; [exact A1|]. split; [exact A2|]. split; [exact A3|]. split; [exact A4|]. split; [exact A5|].
    intros o' Ho; discriminate.
Qed.

(* what a successful update_collection_info did *)
Lemma uci_ok e m s s' :
  update_collection_info e m s = Ok s' ->
  frozen s = false /\ ci_creator (info s) = sender e /\
  tokens s' = tokens s /\ token_count s' = token_count s /\ operators s' = operators s /\
  own s' = own s /\ frozen s' = frozen s /\ md_frozen s' = md_frozen s /\ md_enabled s' = md_enabled s /\
  ci_start_trading (info s') = ci_start_trading (info s) /\
  info_wf (info s') /\
  match u_royalty m with
  | None => ci_royalty (info s') = ci_royalty (info s) /\ royalty_updated_at s' = royalty_updated_at s
  | Some new =>
      update_royalty (now e) (ci_royalty (info s)) (royalty_updated_at s) new = Ok (Some new, now e) /\
      ci_royalty (info s') = Some new /\ royalty_updated_at s' = now e
  end.
Proof.
  unfold update_collection_info.
  destruct (frozen s) eqn:Ef; [discriminate|].
  destruct (ci_creator (info s) =? sender e) eqn:Ec; simpl; [|discriminate].
  apply N.eqb_eq in Ec.
  match goal with |- context [MAX_DESC <? ?x] => destruct (MAX_DESC <? x) eqn:Ed end; [discriminate|].
  match goal with |- context [negb (t_url ?x)] => destruct (t_url x) eqn:Ei end; simpl; [|discriminate].
  match goal with |- context [negb (link_ok ?x)] => destruct (link_ok x) eqn:El end; simpl; [|discriminate].
  apply N.ltb_ge in Ed.
  destruct (u_royalty m) as [new|] eqn:Er.
  - intros H. apply bind_ok in H. destruct H as [[r t] [Hu H]]. inversion H; subst; clear H.
    destruct (update_royalty_ok _ _ _ _ _ _ Hu) as [-> [-> _]].
    simpl. unfold info_wf. simpl. repeat split; auto.
  - intros H. inversion H; subst; clear H. simpl. unfold info_wf. simpl. repeat split; auto.
Qed.

(* every call either leaves the royalty and its anchor alone, or is an accepted royalty
   update through update_collection_info *)
Definition is_royalty_change (o : op) : bool :=
  match o with
  | OUpdateInfo m => match u_royalty m with Some _ => true | None => false end
  | _ => false
  end.

Ltac crush_handler :=
  repeat match goal with
         | H : bind _ _ = Ok _ |- _ => apply bind_ok in H; destruct H as [? [? H]]
         | H : Err = Ok _ |- _ => discriminate H
         | H : Ok _ = Ok _ |- _ => inversion H; subst; clear H
         | H : context [match ?x with _ => _ end] |- _ =>
             let E := fresh "E" in destruct x eqn:E; simpl in H; try discriminate H
         end.

Lemma exec_royalty self e o s s' ms :
  exec self e o s = Ok (s', ms) ->
  (is_royalty_change o = false /\ ci_royalty (info s') = ci_royalty (info s)
   /\ royalty_updated_at s' = royalty_updated_at s)
  \/ (exists m new, o = OUpdateInfo m /\ u_royalty m = Some new /\
        update_royalty (now e) (ci_royalty (info s)) (royalty_updated_at s) new = Ok (Some new, now e) /\
        ci_royalty (info s') = Some new /\ royalty_updated_at s' = now e).
Proof.
  intros H. destruct o as [id owner uri|to id|to id accepts|sp id ex|sp id|opr ex|opr|id|m|t| |new ex| | |id uri| | ]; simpl in H;
    try (apply quiet_ok in H; destruct H as [H ->]).
  all: try solve [ left; split; [reflexivity|];
                   unfold mint, transfer, approve, approve_all, revoke_all, burn,
                     update_start_trading_time, freeze_collection_info, own_transfer, own_accept,
                     own_renounce, update_token_metadata, freeze_token_metadata, enable_updatable in H;
                   crush_handler; simpl; auto ].
  - (* OUpdateInfo *)
    pose proof (uci_ok _ _ _ _ H) as U.
    destruct U as (_ & _ & _ & _ & _ & _ & _ & _ & _ & _ & _ & U).
    simpl. destruct (u_royalty m) as [new|] eqn:Er.
    + right. exists m, new. destruct U as (U1 & U2 & U3). auto.
    + left. destruct U; auto.
Qed.

Lemma share_ok_instantiate ct nw b fs m c s :
  instantiate ct nw b fs m c = Ok s -> share_ok s /\ royalty_updated_at s = nw /\ info_wf (info s) /\ info s = c.
Proof.
  unfold instantiate. intros H. apply bind_ok in H. destruct H as [[] [_ H]].
  destruct b; simpl in H; [|discriminate].
  destruct (MAX_DESC <? t_len (ci_description c)) eqn:Ed; [discriminate|].
  destruct (t_url (ci_image c)) eqn:Ei; simpl in H; [|discriminate].
  destruct (link_ok (ci_external_link c)) eqn:El; simpl in H; [|discriminate].
  apply N.ltb_ge in Ed.
  destruct (ci_royalty c) as [r|] eqn:Er; simpl in H.
  - unfold share_validate in H. destruct (r_share r <=? dec_one) eqn:Es; simpl in H; [|discriminate].
    inversion H; subst; clear H. unfold share_ok, info_wf. simpl. rewrite Er.
    apply N.leb_le in Es. repeat split; auto.
  - inversion H; subst; clear H. unfold share_ok, info_wf. simpl. rewrite Er. repeat split; auto.
Qed.

Lemma share_ok_step ct self e o s s' ms :
  share_ok s -> step ct self e o s = Ok (s', ms) -> share_ok s'.
Proof.
  intros Hs H. apply step_exec in H. destruct H as [_ H].
  destruct (exec_royalty _ _ _ _ _ _ H) as [(_ & Hr & _) | (m & new & _ & _ & Hu & Hr & _)].
  - unfold share_ok in *. rewrite Hr. exact Hs.
  - unfold share_ok. rewrite Hr. apply update_royalty_ok in Hu. tauto.
Qed.

Lemma apply_cases ct self s eo :
  apply ct self s eo = s \/ exists ms, step ct self (fst eo) (snd eo) s = Ok (apply ct self s eo, ms).
Proof.
  unfold apply. destruct (step ct self (fst eo) (snd eo) s) as [[s' ms]|]; [right; eauto | left; reflexivity].
Qed.

(* invariants of single steps extend to runs *)
Lemma run_invariant (P : state -> Prop) ct self :
  (forall e o s s' ms, P s -> step ct self e o s = Ok (s', ms) -> P s') ->
  forall l s, P s -> P (run ct self s l).
Proof.
  intros Hstep l. induction l as [|eo l IH]; intros s Hs; simpl; [exact Hs|].
  apply IH. destruct (apply_cases ct self s eo) as [-> | [ms H]]; [exact Hs|].
  eapply Hstep; eauto.
Qed.

Lemma share_ok_run ct self l s : share_ok s -> share_ok (run ct self s l).
Proof. apply (run_invariant share_ok). intros; eapply share_ok_step; eauto. Qed.

(* a raise on a collection that already has royalties *)
Lemma raise_bounded ct self e o s s' ms ro rn :
  step ct self e o s = Ok (s', ms) ->
  ci_royalty (info s) = Some ro -> ci_royalty (info s') = Some rn ->
  r_share ro < r_share rn ->
  r_share rn - r_share ro <= MAX_DELTA /\ r_share rn <= MAX_SHARE.
Proof.
  intros H Ho Hn Hlt. apply step_exec in H. destruct H as [_ H].
  destruct (exec_royalty _ _ _ _ _ _ H) as [(_ & Hr & _) | (m & new & _ & _ & Hu & Hr & _)].
  - rewrite Hr, Ho in Hn. inversion Hn; subst. lia.
  - rewrite Hr in Hn. inversion Hn; subst. apply update_royalty_ok in Hu.
    destruct Hu as (_ & _ & _ & _ & _ & Hb). eapply Hb; eauto.
Qed.

(* royalties, once present, never disappear *)
Lemma has_royalty_step ct self e o s s' ms :
  step ct self e o s = Ok (s', ms) -> ci_royalty (info s) <> None -> ci_royalty (info s') <> None.
Proof.
  intros H Hs. apply step_exec in H. destruct H as [_ H].
  destruct (exec_royalty _ _ _ _ _ _ H) as [(_ & Hr & _) | (m & new & _ & _ & _ & Hr & _)];
    rewrite Hr; [exact Hs | discriminate].
Qed.

(* repeated raises never pass max(initial share, cap) *)
Lemma climb_step ct self e o s s' ms a :
  step ct self e o s = Ok (s', ms) -> share_of s = Some a ->
  exists b, share_of s' = Some b /\ b <= N.max a MAX_SHARE.
Proof.
  intros H Ha. unfold share_of in Ha. destruct (ci_royalty (info s)) as [ro|] eqn:Ho; [|discriminate].
  inversion Ha; subst; clear Ha.
  destruct (ci_royalty (info s')) as [rn|] eqn:Hn.
  - exists (r_share rn). unfold share_of. rewrite Hn. split; [reflexivity|].
    destruct (N.lt_ge_cases (r_share ro) (r_share rn)) as [Hlt|Hge].
    + destruct (raise_bounded _ _ _ _ _ _ _ _ _ H Ho Hn Hlt) as [_ Hc]. lia.
    + lia.
  - exfalso. eapply (has_royalty_step _ _ _ _ _ _ _ H); [rewrite Ho; discriminate | exact Hn].
Qed.

Lemma climb_bounded ct self l : forall s a,
  share_of s = Some a ->
  exists b, share_of (run ct self s l) = Some b /\ b <= N.max a MAX_SHARE.
Proof.
  induction l as [|eo l IH]; intros s a Ha; simpl.
  - exists a. split; [exact Ha | lia].
  - destruct (apply_cases ct self s eo) as [-> | [ms H]].
    + apply IH; exact Ha.
    + destruct (climb_step _ _ _ _ _ _ _ _ H Ha) as [b [Hb Hle]].
      destruct (IH _ _ Hb) as [c [Hc Hle']]. exists c. split; [exact Hc | lia].
Qed.

(* cadence over histories: the times of accepted royalty changes *)
Fixpoint accepted_changes (ct : ctype) (self : addr) (s : state) (l : list (env * op)) : list N :=
  match l with
  | [] => []
  | eo :: r =>
      match step ct self (fst eo) (snd eo) s with
      | Ok (s', _) =>
          if is_royalty_change (snd eo) then now (fst eo) :: accepted_changes ct self s' r
          else accepted_changes ct self s' r
      | Err => accepted_changes ct self s r
      end
  end.

Fixpoint gaps_ok (gap prev : N) (ts : list N) : Prop :=
  match ts with
  | [] => True
  | t :: r => prev + gap <= t /\ gaps_ok gap t r
  end.

Lemma cadence ct self l : forall s,
  gaps_ok DAY_NS (royalty_updated_at s) (accepted_changes ct self s l).
Proof.
  induction l as [|[e o] l IH]; intros s; simpl; [exact I|].
  destruct (step ct self e o s) as [[s' ms]|] eqn:H; [|apply IH].
  apply step_exec in H. destruct H as [_ H].
  destruct (exec_royalty _ _ _ _ _ _ H) as [(Hc & _ & Ht) | (m & new & -> & Hm & Hu & _ & Ht)].
  - rewrite Hc. rewrite <- Ht. apply IH.
  - simpl. rewrite Hm. simpl. split.
    + apply update_royalty_ok in Hu. tauto.
    + rewrite <- Ht. apply IH.
Qed.

Lemma gaps_ok_lower gap p ts : gaps_ok gap p ts -> Forall (fun t => p + gap <= t) ts.
Proof.
  revert p. induction ts as [|t r IH]; intros p H; constructor.
  - exact (proj1 H).
  - destruct H as [H1 H2]. specialize (IH _ H2).
    eapply Forall_impl; [|exact IH]. simpl. intros x Hx. lia.
Qed.

Lemma gaps_ok_pairs gap p ts : gaps_ok gap p ts -> ForallOrdPairs (fun t1 t2 => t1 + gap <= t2) ts.
Proof.
  revert p. induction ts as [|t r IH]; intros p H; constructor.
  - apply gaps_ok_lower. exact (proj2 H).
  - eapply IH. exact (proj2 H).
Qed.

(* lowering (or re-submitting) is accepted by a well-formed, unfrozen collection from its
   creator once 24 h have passed since the anchor *)
Lemma lowering_accepted ct self e s ro a n x :
  info_wf (info s) -> frozen s = false -> ci_creator (info s) = sender e ->
  ci_royalty (info s) = Some ro -> n <= r_share ro -> r_share ro <= dec_one ->
  royalty_updated_at s + DAY_NS <= now e -> now e <= U64_MAX ->
  exists s',
    step ct self e (OUpdateInfo (mkUpd None None None x (Some (mkRoy a n)) None)) s = Ok (s', []) /\
    ci_royalty (info s') = Some (mkRoy a n) /\ royalty_updated_at s' = now e /\
    tokens s' = tokens s /\ own s' = own s /\ frozen s' = false.
Proof.
  intros (Hd & Hi & Hl) Hf Hc Hr Hn Hs Ht Hu.
  unfold step. replace (supports ct _) with true by (destruct ct; reflexivity).
  simpl. unfold update_collection_info. rewrite Hf. rewrite Hc, N.eqb_refl. simpl.
  apply N.ltb_ge in Hd. rewrite Hd. rewrite Hi. simpl. rewrite Hl. simpl.
  unfold update_royalty. simpl r_share.
  assert (E1 : U64_MAX <? royalty_updated_at s + DAY_NS = false) by (apply N.ltb_ge; lia).
  assert (E2 : now e <? royalty_updated_at s + DAY_NS = false) by (apply N.ltb_ge; lia).
  rewrite E1, E2. unfold share_validate.
  assert (E3 : n <=? dec_one = true) by (apply N.leb_le; lia).
  rewrite E3. simpl. rewrite Hr.
  assert (E4 : r_share ro <? n = false) by (apply N.ltb_ge; lia).
  rewrite E4. simpl. eexists. split; [reflexivity|]. simpl. rewrite Hf. auto.
Qed.

Lemma info_wf_step ct self e o s s' ms :
  info_wf (info s) -> step ct self e o s = Ok (s', ms) -> info_wf (info s').
Proof.
  intros Hw H. apply step_exec in H. destruct H as [_ H].
  destruct o as [id owner uri|to id|to id accepts|sp id ex|sp id|opr ex|opr|id|m|t| |new ex| | |id uri| | ]; simpl in H; try (apply quiet_ok in H; destruct H as [H ->]).
  all: try solve [ unfold mint, transfer, approve, approve_all, revoke_all, burn,
                     freeze_collection_info, own_transfer, own_accept,
                     own_renounce, update_token_metadata, freeze_token_metadata, enable_updatable in H;
                   crush_handler; simpl; auto ].
  - apply uci_ok in H. tauto.
  - unfold update_start_trading_time in H. crush_handler. unfold info_wf in *. simpl. exact Hw.
Qed.

(* statement-shaped corollaries used by props/C10.v *)
Lemma share_ok_at_creation ct t b f m c s :
  instantiate ct t b f m c = Ok s -> share_ok s.
Proof. intros H. exact (proj1 (share_ok_instantiate _ _ _ _ _ _ _ H)). Qed.

Lemma share_ok_always ct self t b f m c s l :
  instantiate ct t b f m c = Ok s -> share_ok (run ct self s l).
Proof. intros H. apply share_ok_run. eapply share_ok_at_creation; eauto. Qed.

Lemma cadence_any_two ct self l s :
  ForallOrdPairs (fun t1 t2 => t1 + DAY_NS <= t2) (accepted_changes ct self s l).
Proof. exact (gaps_ok_pairs _ _ _ (cadence ct self l s)). Qed.

Lemma cadence_from_creation ct self t b f m c s l :
  instantiate ct t b f m c = Ok s ->
  Forall (fun x => t + DAY_NS <= x) (accepted_changes ct self s l).
Proof.
  intros H. destruct (share_ok_instantiate _ _ _ _ _ _ _ H) as (_ & Ht & _).
  rewrite <- Ht. exact (gaps_ok_lower _ _ _ (cadence ct self l s)).
Qed.

Lemma info_wf_at_creation ct t b f m c s :
  instantiate ct t b f m c = Ok s -> info_wf (info s).
Proof. intros H. exact (proj1 (proj2 (proj2 (share_ok_instantiate _ _ _ _ _ _ _ H)))). Qed.

(* ------------------------------------------------------------------ payout helper *)
Lemma payout_none p f ff : royalty_payout None p f ff = Ok (0, []).
Proof. reflexivity. Qed.

Lemma payout_zero a p f ff : royalty_payout (Some (mkRoy a 0)) p f ff = Ok (0, []).
Proof. reflexivity. Qed.

Definition finders_amt (ff : option N) : N := match ff with Some x => x | None => 0 end.

Lemma payout_ok_inv r p f ff amt ms :
  royalty_payout (Some r) p f ff = Ok (amt, ms) -> r_share r <> 0 ->
  amt = p * r_share r / DEC /\ ms = [Send (r_addr r) NATIVE amt] /\ f + finders_amt ff + amt <= p.
Proof.
  unfold royalty_payout, finders_amt. intros H Hz.
  apply N.eqb_neq in Hz. rewrite Hz in H.
  fold (finders_amt ff) in H.
  set (amt' := mul_floor p (r_share r)) in *.
  destruct (U128_MAX <? amt'); [discriminate|].
  destruct (U128_MAX <? f + finders_amt ff + amt'); [discriminate|].
  destruct (p <? f + finders_amt ff + amt') eqn:E; [discriminate|].
  inversion H; subst. apply N.ltb_ge in E. unfold finders_amt in E. repeat split; auto.
Qed.

Lemma payout_refuses r p f ff :
  r_share r <> 0 -> p < f + finders_amt ff + p * r_share r / DEC -> royalty_payout (Some r) p f ff = Err.
Proof.
  unfold royalty_payout. intros Hz Hlt. apply N.eqb_neq in Hz. rewrite Hz.
  fold (finders_amt ff). change (mul_floor p (r_share r)) with (p * r_share r / DEC).
  set (amt' := p * r_share r / DEC) in *.
  destruct (U128_MAX <? amt'); [reflexivity|].
  destruct (U128_MAX <? f + finders_amt ff + amt'); [reflexivity|].
  apply N.ltb_lt in Hlt. rewrite Hlt. reflexivity.
Qed.

Lemma payout_accepts r p f ff :
  r_share r <> 0 -> p <= U128_MAX -> f + finders_amt ff + p * r_share r / DEC <= p ->
  royalty_payout (Some r) p f ff = Ok (p * r_share r / DEC, [Send (r_addr r) NATIVE (p * r_share r / DEC)]).
Proof.
  unfold royalty_payout. intros Hz Hp Hle. apply N.eqb_neq in Hz. rewrite Hz.
  fold (finders_amt ff). change (mul_floor p (r_share r)) with (p * r_share r / DEC).
  set (amt' := p * r_share r / DEC) in *.
  assert (E1 : U128_MAX <? amt' = false) by (apply N.ltb_ge; lia).
  assert (E2 : U128_MAX <? f + finders_amt ff + amt' = false) by (apply N.ltb_ge; lia).
  assert (E3 : p <? f + finders_amt ff + amt' = false) by (apply N.ltb_ge; lia).
  rewrite E1, E2, E3. reflexivity.
Qed.

(* a whole-percent share pays floor(payment * k / 100) *)
Lemma payout_percent a k p f ff amt ms :
  k <> 0 -> royalty_payout (Some (mkRoy a (dec_percent k))) p f ff = Ok (amt, ms) -> amt = p * k / 100.
Proof.
  intros Hk H. apply payout_ok_inv in H.
  - destruct H as [-> _]. simpl r_share. fold (mul_floor p (dec_percent k)). apply mul_floor_percent.
  - simpl. unfold dec_percent. lia.
Qed.
