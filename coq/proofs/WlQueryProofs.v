(* Admin-list and per-stage membership queries of the whitelist models (C11, C12). *)
From LP Require Import Wl WlTiered Consts WlSchedProofs WlMemProofs WlTierInvProofs.
From Coq Require Import ZArith Lia ZifyN ZifyBool.
Local Open Scope N_scope.

Lemma existsb_eqb_In a l : existsb (N.eqb a) l = true <-> In a l.
Proof.
  rewrite existsb_exists. split.
  - intros [x [Hx E]]. apply N.eqb_eq in E. subst. exact Hx.
  - intros H. exists a. split; [ exact H | apply N.eqb_refl ].
Qed.

Lemma t_get_In k a m c : t_get k a m = Some c -> In (k, a, c) m.
Proof.
  induction m as [|p t IH]; cbn [t_get]; [ discriminate | ].
  destruct (is_key k a p) eqn:E.
  - intros H. injection H as <-. apply is_key_true in E. left. destruct p as [q v]. cbn [fst snd] in *. subst q. reflexivity.
  - intros H. right. apply IH. exact H.
Qed.

Lemma t_get_has k a m : t_has k a m = true <-> exists c, t_get k a m = Some c.
Proof.
  unfold t_has. induction m as [|p t IH]; cbn [existsb t_get].
  - split; [ discriminate | intros [c H]; discriminate ].
  - destruct (is_key k a p); cbn [orb]; [ split; [ eauto | reflexivity ] | exact IH ].
Qed.

Lemma all_info_length flex a m l : forall k0, length (all_info flex a m k0 l) = length l.
Proof. induction l as [|s t IH]; intros k0; cbn [all_info length]; [ reflexivity | rewrite IH; reflexivity ]. Qed.

Lemma all_info_spec flex a m l : forall k0 k b p,
  In (k, b, p) (all_info flex a m k0 l) ->
  k0 <= k /\ k < k0 + nlen l /\ b = t_has k a m /\
  (flex = true -> p = match t_get k a m with Some c => c | None => 0 end).
Proof.
  induction l as [|s t IH]; intros k0 k b p H; cbn [all_info] in H; [ destruct H | ].
  unfold nlen. cbn [length]. destruct H as [H|H].
  - injection H as <- <- <-. repeat apply conj; try lia; try reflexivity.
    all: try (intros ->; reflexivity).
  - apply IH in H as (A & B & C & D). unfold nlen in B. repeat apply conj; try lia; assumption.
Qed.

Section Q.
Variable valid : addr -> bool.

Lemma q_can_execute_iff a w b : q_can_execute valid a w = Ok b -> (b = true <-> In a (w_admins w)).
Proof.
  unfold q_can_execute, is_admin. destruct (valid a); [ | discriminate ].
  intros H. injection H as <-. apply existsb_eqb_In.
Qed.

Lemma tq_can_execute_iff a w b : tq_can_execute valid a w = Ok b -> (b = true <-> In a (t_admins w)).
Proof.
  unfold tq_can_execute, t_is_admin. destruct (valid a); [ | discriminate ].
  intros H. injection H as <-. apply existsb_eqb_In.
Qed.

(* what the admin calls do to the admin list, and that nothing else touches it *)
Lemma exec_admins_effect self e o w w' ms :
  exec valid self e o w = Ok (w', ms) ->
  match o with
  | OUpdAdmins l => w_mutable w = true /\ In (e_sender e) (w_admins w) /\ w_admins w' = l /\ w_mutable w' = true
  | OFreeze => w_mutable w = true /\ In (e_sender e) (w_admins w) /\ w_admins w' = w_admins w /\ w_mutable w' = false
  | _ => w_admins w' = w_admins w /\ w_mutable w' = w_mutable w
  end.
Proof.
  intros H. unfold exec in H; cbv zeta in H. destruct o as [t|t|l|l|n|n|l|];
    try (destruct (w_kind w) eqn:K; try discriminate H); binds H; injection H as <- _;
    cbn [set_start set_end set_members set_pal set_limit set_admins w_admins w_mutable];
    try (split; reflexivity).
  all: unfold can_modify in G; apply andb_true_iff in G as [Gm Ga];
    unfold is_admin in Ga; apply existsb_eqb_In in Ga; rewrite Gm; repeat split; assumption.
Qed.

Lemma t_exec_admins_effect self e o w w' ms :
  t_exec valid self e o w = Ok (w', ms) ->
  match o with
  | TUpdAdmins l => t_mutable w = true /\ In (e_sender e) (t_admins w) /\ t_admins w' = l /\ t_mutable w' = true
  | TFreeze => t_mutable w = true /\ In (e_sender e) (t_admins w) /\ t_admins w' = t_admins w /\ t_mutable w' = false
  | _ => t_admins w' = t_admins w /\ t_mutable w' = t_mutable w
  end.
Proof.
  intros H. unfold t_exec in H; cbv zeta in H. destruct o as [k l|k l|s l|k|k st en pl|n|l|]; binds H;
    try (destruct (nth_error (t_stages w) (N.to_nat k)); [ | discriminate H ]; binds H);
    injection H as <- _;
    cbn [tw_members tw_stages tw_limit tw_admins t_admins t_mutable];
    try (split; reflexivity).
  all: unfold t_can_modify in G; apply andb_true_iff in G as [Gm Ga];
    unfold t_is_admin in Ga; apply existsb_eqb_In in Ga; rewrite Gm; repeat split; assumption.
Qed.

(* AllStageMemberInfo: one entry per configured stage, in order; is_member is true exactly
   when the (stage, address) pair is stored; for the flex kind the reported number is the
   stored mint count (0 when not a member) *)
Lemma tq_all_member_spec a w l :
  tq_all_member valid a w = Ok l ->
  length l = length (t_stages w) /\
  forall k b p, In (k, b, p) l ->
    k < nlen (t_stages w) /\ (b = true <-> In (k, a) (tkeys (t_mem w))) /\
    (t_flex w = true -> (b = true -> In (k, a, p) (t_mem w)) /\ (b = false -> p = 0)).
Proof.
  unfold tq_all_member. destruct (valid a); [ | discriminate ]. intros H. injection H as <-.
  split; [ apply all_info_length | ].
  intros k b p Hin. apply all_info_spec in Hin as (_ & Hk & Hb & Hp).
  split; [ lia | ]. split.
  - subst b. apply t_has_In.
  - intros Hf. specialize (Hp Hf). split.
    + intros ->. symmetry in Hb. apply t_get_has in Hb as [c Hc]. rewrite Hc in Hp. subst p. apply t_get_In. exact Hc.
    + intros ->. destruct (t_get k a (t_mem w)) as [c|] eqn:E; [ | exact Hp ].
      assert (t_has k a (t_mem w) = true) by (apply t_get_has; eauto). congruence.
Qed.

Lemma m_get_In a m c : m_get a m = Some c -> In (a, c) m.
Proof.
  induction m as [|[k v] t IH]; cbn [m_get]; [ discriminate | ].
  destruct (k =? a) eqn:E.
  - intros H. injection H as <-. apply N.eqb_eq in E. subst. left. reflexivity.
  - intros H. right. apply IH. exact H.
Qed.

Lemma m_get_none a m : m_get a m = None -> ~ In a (keys m).
Proof.
  unfold keys. induction m as [|[k v] t IH]; cbn [m_get map fst In]; [ tauto | ].
  destruct (k =? a) eqn:E; [ discriminate | ]. apply N.eqb_neq in E. intros H [Hk|Hin]; [ contradiction | ].
  exact (IH H Hin).
Qed.

(* Member { member } of the flex whitelist: the stored pair, an error exactly when the
   (well-formed) address is not stored *)
Lemma q_member_stored a w c : q_member valid a w = Ok c -> w_kind w = KFlex /\ In (a, c) (w_mem w).
Proof.
  unfold q_member. destruct (w_kind w); try discriminate. destruct (valid a); [ | discriminate ].
  destruct (m_get a (w_mem w)) as [c'|] eqn:E; [ | discriminate ].
  intros H. injection H as <-. split; [ reflexivity | apply m_get_In; exact E ].
Qed.

Lemma q_member_missing a w :
  w_kind w = KFlex -> valid a = true -> q_member valid a w = Err -> ~ In a (keys (w_mem w)).
Proof.
  unfold q_member. intros -> ->. destruct (m_get a (w_mem w)) eqn:E; [ discriminate | ].
  intros _. apply m_get_none. exact E.
Qed.

Lemma tq_member_stored now a w c :
  tq_member valid now a w = Ok c ->
  t_flex w = true /\ exists k, active_index now 0 (t_stages w) = Some k /\ In (k, a, c) (t_mem w).
Proof.
  unfold tq_member. destruct (t_flex w); [ | discriminate ]. destruct (valid a); [ | discriminate ].
  destruct (active_index now 0 (t_stages w)) as [k|]; [ | discriminate ].
  destruct (t_get k a (t_mem w)) as [c'|] eqn:E; [ | discriminate ].
  intros H. injection H as <-. split; [ reflexivity | ]. exists k. split; [ reflexivity | apply t_get_In; exact E ].
Qed.

End Q.

(* ---------------- membership is "a row is stored", whatever its mint count ---------------- *)
Lemma m_has_of_row a c m : In (a, c) m -> m_has a m = true.
Proof. intros H. apply m_has_In. unfold keys. apply in_map_iff. exists (a, c). split; [ reflexivity | exact H ]. Qed.

Lemma m_get_of_row a c m : NoDup (keys m) -> In (a, c) m -> m_get a m = Some c.
Proof.
  unfold keys. induction m as [|[k v] t IH]; intros Hnd Hin; [ destruct Hin | ].
  cbn [map fst] in Hnd. inversion Hnd as [|? ? Hk Hnd']; subst. cbn [m_get].
  destruct Hin as [Heq|Hin].
  - injection Heq as -> ->. rewrite N.eqb_refl. reflexivity.
  - destruct (k =? a) eqn:E; [ | apply IH; assumption ].
    apply N.eqb_eq in E. subst k. exfalso. apply Hk. apply in_map_iff. exists (a, c). split; [ reflexivity | exact Hin ].
Qed.

Lemma t_has_of_row k a c m : In (k, a, c) m -> t_has k a m = true.
Proof. intros H. apply t_has_In. unfold tkeys. apply in_map_iff. exists (k, a, c). split; [ reflexivity | exact H ]. Qed.

Lemma t_get_of_row k a c m : NoDup (tkeys m) -> In (k, a, c) m -> t_get k a m = Some c.
Proof.
  unfold tkeys. induction m as [|p t IH]; intros Hnd Hin; [ destruct Hin | ].
  cbn [map] in Hnd. inversion Hnd as [|? ? Hk Hnd']; subst. cbn [t_get].
  destruct Hin as [Heq|Hin].
  - subst p. assert (E : is_key k a (k, a, c) = true) by (apply is_key_true; reflexivity). rewrite E. reflexivity.
  - destruct (is_key k a p) eqn:E; [ | apply IH; assumption ].
    apply is_key_true in E. exfalso. apply Hk. rewrite E. apply in_map_iff. exists (k, a, c). split; [ reflexivity | exact Hin ].
Qed.

Lemma all_info_complete (flex : bool) a m l : forall k0 j s,
  nth_error l j = Some s ->
  In (k0 + N.of_nat j, t_has (k0 + N.of_nat j) a m,
      if flex then match t_get (k0 + N.of_nat j) a m with Some c => c | None => 0 end else s_pal s)
     (all_info flex a m k0 l).
Proof.
  induction l as [|s0 t IH]; intros k0 j s H; [ destruct j; discriminate | ].
  destruct j as [|j]; cbn [nth_error] in H; cbn [all_info].
  - injection H as <-. left. replace (k0 + N.of_nat 0) with k0 by lia. reflexivity.
  - right. replace (k0 + N.of_nat (S j)) with ((k0 + 1) + N.of_nat j) by lia. apply IH. exact H.
Qed.

Section Rows.
Variable valid : addr -> bool.

(* plain / flex: a stored row (a, c) -- c may be 0 -- makes a a member for HasMember, and
   the flex Member query returns exactly c *)
Lemma row_is_member a c w :
  valid a = true -> In (a, c) (w_mem w) -> q_has valid a w = Ok true.
Proof. intros Hv Hin. unfold q_has. rewrite Hv, (m_has_of_row a c _ Hin). reflexivity. Qed.

Lemma row_member_query a c w :
  w_kind w = KFlex -> valid a = true -> NoDup (keys (w_mem w)) -> In (a, c) (w_mem w) ->
  q_member valid a w = Ok c.
Proof. intros Hk Hv Hnd Hin. unfold q_member. rewrite Hk, Hv, (m_get_of_row a c _ Hnd Hin). reflexivity. Qed.

(* tiered kinds: a stored row ((k, a), c) -- c may be 0 -- is reported by StageMemberInfo,
   by AllStageMemberInfo (with exactly c on the flex kind), and, while stage k is the
   running one, by HasMember and Member *)
Lemma t_row_is_member k a c w :
  valid a = true -> NoDup (tkeys (t_mem w)) -> In (k, a, c) (t_mem w) -> k < nlen (t_stages w) ->
  tq_stage_member valid k a w = Ok true /\
  (exists l, tq_all_member valid a w = Ok l /\ exists p, In (k, true, p) l /\ (t_flex w = true -> p = c)) /\
  (forall now, active_index now 0 (t_stages w) = Some k ->
     tq_has valid now a w = Ok true /\ (t_flex w = true -> tq_member valid now a w = Ok c)).
Proof.
  intros Hv Hnd Hin Hk.
  pose proof (t_has_of_row _ _ _ _ Hin) as Hh. pose proof (t_get_of_row _ _ _ _ Hnd Hin) as Hg.
  repeat apply conj.
  - unfold tq_stage_member. rewrite Hv, Hh.
    assert (E : k <? nlen (t_stages w) = true) by lia. rewrite E, orb_true_r. reflexivity.
  - unfold tq_all_member. rewrite Hv. eexists. split; [ reflexivity | ].
    destruct (nth_error (t_stages w) (N.to_nat k)) as [s|] eqn:En.
    + pose proof (all_info_complete (t_flex w) a (t_mem w) (t_stages w) 0 (N.to_nat k) s En) as Hc.
      replace (0 + N.of_nat (N.to_nat k)) with k in Hc by lia. rewrite Hh, Hg in Hc.
      eexists. split; [ exact Hc | ]. intros ->. reflexivity.
    + apply nth_error_None in En. unfold nlen in Hk. lia.
  - intros now Ha. unfold tq_has, tq_member. rewrite Hv, Ha, Hh, Hg. split; [ reflexivity | ].
    intros ->. reflexivity.
Qed.

End Rows.

(* whitelist-immutable *)
Lemma imm_config_spec sender pal bps : imm_config sender pal bps = (sender, pal, bps).
Proof. reflexivity. Qed.
Lemma imm_exec_rejected : imm_exec = Err.
Proof. reflexivity. Qed.
