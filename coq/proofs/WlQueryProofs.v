(* Admin-list and per-stage membership queries of the whitelist models (C11, C12). *)
From LP Require Import Wl WlTiered Consts WlSchedProofs WlMemProofs WlTierInvProofs.
From Coq Require Import ZArith Lia ZifyN ZifyBool.
Local Open Scope N_scope.

Lemma existsb_eqb_In a l : existsb (N.eqb a) l = true <-> In a l.
Proof.
  rewrite existsb_exists. split.
  - intros [x [Hx E]]. apply N.eqb_eq in E. subst. exact Hx.
  - intros H. exists a. split; [ exact H | apply N.eqb_refl ].
Qed.

Lemma t_get_In k a m c : t_get k a m = Some c -> In (k, a, c) m.
Proof.
  induction m as [|p t IH]; cbn [t_get]; [ discriminate | ].
  destruct (is_key k a p) eqn:E.
  - intros H. injection H as <-. apply is_key_true in E. left. destruct p as [q v]. cbn [fst snd] in *. subst q. reflexivity.
  - intros H. right. apply IH. exact H.
Qed.

Lemma t_get_has k a m : t_has k a m = true <-> exists c, t_get k a m = Some c.
Proof.
  unfold t_has. induction m as [|p t IH]; cbn [existsb t_get].
  - split; [ discriminate | intros [c H]; discriminate ].
  - destruct (is_key k a p); cbn [orb]; [ split; [ eauto | reflexivity ] | exact IH ].
Qed.

Lemma all_info_length flex a m l : forall k0, length (all_info flex a m k0 l) = length l.
Proof. induction l as [|s t IH]; intros k0; cbn [all_info length]; [ reflexivity | rewrite IH; reflexivity ]. Qed.

Lemma all_info_spec flex a m l : forall k0 k b p,
  In (k, b, p) (all_info flex a m k0 l) ->
  k0 <= k /\ k < k0 + nlen l /\ b = t_has k a m /\
  (flex = true -> p = match t_get k a m with Some c => c | None => 0 end).
Proof.
  induction l as [|s t IH]; intros k0 k b p H; cbn [all_info] in H; [ destruct H | ].
  unfold nlen. cbn [length]. destruct H as [H|H].
  - injection H as <- <- <-. repeat apply conj; try lia; try reflexivity.
    all: try (intros ->; reflexivity).
  - apply IH in H as (A & B & C & D). unfold nlen in B. repeat apply conj; try lia; assumption.
Qed.

Section Q.
Variable valid : addr -> bool.

Lemma q_can_execute_iff a w b : q_can_execute valid a w = Ok b -> (b = true <-> In a (w_admins w)).
Proof.
  unfold q_can_execute, is_admin. destruct (valid a); [ | discriminate ].
  intros H. injection H as <-. apply existsb_eqb_In.
Qed.

Lemma tq_can_execute_iff a w b : tq_can_execute valid a w = Ok b -> (b = true <-> In a (t_admins w)).
Proof.
  unfold tq_can_execute, t_is_admin. destruct (valid a); [ | discriminate ].
  intros H. injection H as <-. apply existsb_eqb_In.
Qed.

(* what the admin calls do to the admin list, and that nothing else touches it *)
Lemma exec_admins_effect self e o w w' ms :
  exec valid self e o w = Ok (w', ms) ->
  match o with
  | OUpdAdmins l => w_mutable w = true /\ In (e_sender e) (w_admins w) /\ w_admins w' = l /\ w_mutable w' = true
  | OFreeze => w_mutable w = true /\ In (e_sender e) (w_admins w) /\ w_admins w' = w_admins w /\ w_mutable w' = false
  | _ => w_admins w' = w_admins w /\ w_mutable w' = w_mutable w
  end.
Proof.
  intros H. unfold exec in H; cbv zeta in H. destruct o as [t|t|l|l|n|n|l|];
    try (destruct (w_kind w) eqn:K; try discriminate H); binds H; injection H as <- _;
    cbn [set_start set_end set_members set_pal set_limit set_admins w_admins w_mutable];
    try (split; reflexivity).
  all: unfold can_modify in G; apply andb_true_iff in G as [Gm Ga];
    unfold is_admin in Ga; apply existsb_eqb_In in Ga; rewrite Gm; repeat split; assumption.
Qed.

Lemma t_exec_admins_effect self e o w w' ms :
  t_exec valid self e o w = Ok (w', ms) ->
  match o with
  | TUpdAdmins l => t_mutable w = true /\ In (e_sender e) (t_admins w) /\ t_admins w' = l /\ t_mutable w' = true
  | TFreeze => t_mutable w = true /\ In (e_sender e) (t_admins w) /\ t_admins w' = t_admins w /\ t_mutable w' = false
  | _ => t_admins w' = t_admins w /\ t_mutable w' = t_mutable w
  end.
Proof.
  intros H. unfold t_exec in H; cbv zeta in H. destruct o as [k l|k l|s l|k|k st en pl|n|l|]; binds H;
    try (destruct (nth_error (t_stages w) (N.to_nat k)); [ | discriminate H ]; binds H);
    injection H as <- _;
    cbn [tw_members tw_stages tw_limit tw_admins t_admins t_mutable];
    try (split; reflexivity).
  all: unfold t_can_modify in G; apply andb_true_iff in G as [Gm Ga];
    unfold t_is_admin in Ga; apply existsb_eqb_In in Ga; rewrite Gm; repeat split; assumption.
Qed.

(* AllStageMemberInfo: one entry per configured stage, in order; is_member is true exactly
   when the (stage, address) pair is stored; for the flex kind the reported number is the
   stored mint count (0 when not a member) *)
Lemma tq_all_member_spec a w l :
  tq_all_member valid a w = Ok l ->
  length l = length (t_stages w) /\
  forall k b p, In (k, b, p) l ->
    k < nlen (t_stages w) /\ (b = true <-> In (k, a) (tkeys (t_mem w))) /\
    (t_flex w = true -> (b = true -> In (k, a, p) (t_mem w)) /\ (b = false -> p = 0)).
Proof.
  unfold tq_all_member. destruct (valid a); [ | discriminate ]. intros H. injection H as <-.
  split; [ apply all_info_length | ].
  intros k b p Hin. apply all_info_spec in Hin as (_ & Hk & Hb & Hp).
  split; [ lia | ]. split.
  - subst b. apply t_has_In.
  - intros Hf. specialize (Hp Hf). split.
    + intros ->. symmetry in Hb. apply t_get_has in Hb as [c Hc]. rewrite Hc in Hp. subst p. apply t_get_In. exact Hc.
    + intros ->. destruct (t_get k a (t_mem w)) as [c|] eqn:E; [ | exact Hp ].
      assert (t_has k a (t_mem w) = true) by (apply t_get_has; eauto). congruence.
Qed.

Lemma m_get_In a m c : m_get a m = Some c -> In (a, c) m.
Proof.
  induction m as [|[k v] t IH]; cbn [m_get]; [ discriminate | ].
  destruct (k =? a) eqn:E.
  - intros H. injection H as <-. apply N.eqb_eq in E. subst. left. reflexivity.
  - intros H. right. apply IH. exact H.
Qed.

Lemma m_get_none a m : m_get a m = None -> ~ In a (keys m).
Proof.
  unfold keys. induction m as [|[k v] t IH]; cbn [m_get map fst In]; [ tauto | ].
  destruct (k =? a) eqn:E; [ discriminate | ]. apply N.eqb_neq in E. intros H [Hk|Hin]; [ contradiction | ].
  exact (IH H Hin).
Qed.

(* Member { member } of the flex whitelist: the stored pair, an error exactly when the
   (well-formed) address is not stored *)
Lemma q_member_stored a w c : q_member valid a w = Ok c -> w_kind w = KFlex /\ In (a, c) (w_mem w).
Proof.
  unfold q_member. destruct (w_kind w); try discriminate. destruct (valid a); [ | discriminate ].
  destruct (m_get a (w_mem w)) as [c'|] eqn:E; [ | discriminate ].
  intros H. injection H as <-. split; [ reflexivity | apply m_get_In; exact E ].
Qed.

Lemma q_member_missing a w :
  w_kind w = KFlex -> valid a = true -> q_member valid a w = Err -> ~ In a (keys (w_mem w)).
Proof.
  unfold q_member. intros -> ->. destruct (m_get a (w_mem w)) eqn:E; [ discriminate | ].
  intros _. apply m_get_none. exact E.
Qed.

Lemma tq_member_stored now a w c :
  tq_member valid now a w = Ok c ->
  t_flex w = true /\ exists k, active_index now 0 (t_stages w) = Some k /\ In (k, a, c) (t_mem w).
Proof.
  unfold tq_member. destruct (t_flex w); [ | discriminate ]. destruct (valid a); [ | discriminate ].
  destruct (active_index now 0 (t_stages w)) as [k|]; [ | discriminate ].
  destruct (t_get k a (t_mem w)) as [c'|] eqn:E; [ | discriminate ].
  intros H. injection H as <-. split; [ reflexivity | ]. exists k. split; [ reflexivity | apply t_get_In; exact E ].
Qed.

End Q.

(* whitelist-immutable *)
Lemma imm_config_spec sender pal bps : imm_config sender pal bps = (sender, pal, bps).
Proof. reflexivity. Qed.
Lemma imm_exec_rejected : imm_exec = Err.
Proof. reflexivity. Qed.
