(* The NFT metadata mode of an open edition (MinterOpen.ostep_nft) is a layer on top of
   `ostep`: it decides what the collection is asked to store with each minted token and
   nothing else.  These lemmas transfer every fact about `ostep` (supply C01, payment C02,
   limits C03, gates C04, price rules C07) to every metadata configuration. *)
From LP Require Import Num Pay Sg1 MinterVending MinterOpen MinterVendingProofs MinterOpenProofs Factory.
From Coq Require Import ZArith Lia.
Local Open Scope N_scope.

Lemma o_nfts_nft_msgs ms : o_nfts ms = nft_msgs ms.
Proof.
  unfold o_nfts. induction ms as [|m r IH]; [ reflexivity | ].
  destruct m; cbn [flat_map nft_msgs app]; rewrite IH; reflexivity.
Qed.

Lemma ostep_nft_ok c vr s e fp wv o s' ms mm :
  ostep_nft c vr s e fp wv o = Ok (s', ms, mm) ->
  ostep vr s e fp wv o = Ok (s', ms) /\ mm = o_mints_of c ms.
Proof.
  unfold ostep_nft. destruct (ostep vr s e fp wv o) as [[s1 ms1]|]; cbn [bind]; [ | discriminate ].
  intros H. inv H. auto.
Qed.

Lemma ostep_nft_of_ok c vr s e fp wv o s' ms :
  ostep vr s e fp wv o = Ok (s', ms) -> ostep_nft c vr s e fp wv o = Ok (s', ms, o_mints_of c ms).
Proof. unfold ostep_nft. intros H. rewrite H. reflexivity. Qed.

Lemma ostep_nft_err c vr s e fp wv o :
  ostep_nft c vr s e fp wv o = Err <-> ostep vr s e fp wv o = Err.
Proof.
  unfold ostep_nft. destruct (ostep vr s e fp wv o) as [[s1 ms1]|]; cbn [bind]; split; intros; try discriminate; reflexivity.
Qed.

(* the whole outcome except the stored metadata is the same under any two configurations *)
Theorem ostep_nft_mode_independent c c' vr s e fp wv o :
  match ostep_nft c vr s e fp wv o, ostep_nft c' vr s e fp wv o with
  | Ok (s1, ms1, mm1), Ok (s2, ms2, mm2) =>
      s1 = s2 /\ ms1 = ms2 /\ ostep vr s e fp wv o = Ok (s1, ms1) /\
      map om_id mm1 = map om_id mm2 /\ map om_owner mm1 = map om_owner mm2
  | Err, Err => ostep vr s e fp wv o = Err
  | _, _ => False
  end.
Proof.
  unfold ostep_nft. destruct (ostep vr s e fp wv o) as [[s1 ms1]|]; cbn [bind]; [ | reflexivity ].
  repeat split; unfold o_mints_of; rewrite !map_map; reflexivity.
Qed.

(* a successful Mint / MintTo asks the collection to store exactly one token: the next
   id, the recipient, and the configured token_uri (off-chain mode) or extension (on-chain
   mode); every other successful call stores nothing *)
Theorem ostep_nft_mint c vr s e fp wv o s' ms mm :
  is_mint_op o = true -> ostep_nft c vr s e fp wv o = Ok (s', ms, mm) ->
  exists owner,
    nft_msgs ms = [(o_token_index s + 1, owner)] /\
    mm = [mkOMint (o_token_index s + 1) owner
                  (if nft_onchain c then None else nft_uri c)
                  (if nft_onchain c then nft_ext c else None)].
Proof.
  intros Hm H. apply ostep_nft_ok in H. destruct H as [H Hmm].
  destruct (ostep_mint _ _ _ _ _ _ _ _ Hm H) as (_ & [ow B] & _).
  exists ow. split; [ exact B | ].
  subst mm. unfold o_mints_of. rewrite o_nfts_nft_msgs, B. cbn [map fst snd].
  unfold o_nft_payload. destruct (nft_onchain c); reflexivity.
Qed.

Theorem ostep_nft_other c vr s e fp wv o s' ms mm :
  is_mint_op o = false -> ostep_nft c vr s e fp wv o = Ok (s', ms, mm) -> mm = [].
Proof.
  intros Hm H. apply ostep_nft_ok in H. destruct H as [H Hmm].
  destruct (ostep_other _ _ _ _ _ _ _ _ Hm H) as (B & _).
  subst mm. unfold o_mints_of. rewrite o_nfts_nft_msgs, B. reflexivity.
Qed.

(* creation: an open-edition request whose URL (token_uri off-chain, extension image
   on-chain) does not parse, or whose nft data do not fit the mode, creates nothing *)
Theorem create_open_bad_url self p now sender funds r nm :
  r_uri_ok r = false -> create_minter FOpen self p now sender funds r nm = Err.
Proof.
  intros Hu. unfold create_minter.
  destruct (factory_create FOpen self p now funds r) as [ms|]; cbn [bind]; [ | reflexivity ].
  cbn [minter_init]. rewrite Hu. reflexivity.
Qed.

Theorem create_open_bad_nft_data self p now sender funds r nm :
  r_nft_ok r = false -> create_minter FOpen self p now sender funds r nm = Err.
Proof.
  intros Hu. unfold create_minter.
  assert (F : factory_create FOpen self p now funds r = Err).
  { unfold factory_create.
    destruct (must_pay funds (g_fee_denom p)) as [paid|]; cbn [bind]; [ | reflexivity ].
    destruct (guard (paid =? g_fee p)); cbn [bind]; [ | reflexivity ].
    destruct (negb (existsb (N.eqb (r_coll_code r)) (g_allowed p))); [ reflexivity | ].
    destruct (g_frozen p); [ reflexivity | ].
    destruct (fee_disposal self p funds); cbn [bind]; [ | reflexivity ].
    rewrite Hu. reflexivity. }
  rewrite F. reflexivity.
Qed.
