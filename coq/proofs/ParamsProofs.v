(* Lemmas about the factory parameter model (model/Params.v). *)
From Coq Require Import List NArith Bool Lia.
From LP Require Import Params.
Import ListNotations.
Local Open Scope N_scope.

(* ---------- code id lists ---------- *)

Lemma dedup_unfold2 : forall a b l,
  dedup (a :: b :: l) = if a =? b then dedup (b :: l) else a :: dedup (b :: l).
Proof. reflexivity. Qed.

Lemma dedup_In : forall l x, In x (dedup l) <-> In x l.
Proof.
  induction l as [|a l IH]; intro x; [simpl; tauto|].
  destruct l as [|b l'].
  - simpl. tauto.
  - rewrite dedup_unfold2. destruct (N.eqb_spec a b) as [Hab|Hab].
    + subst b. rewrite IH. simpl. tauto.
    + change (In x (a :: dedup (b :: l'))) with (a = x \/ In x (dedup (b :: l'))).
      rewrite IH. simpl. tauto.
Qed.

(* what dedup does NOT do: a non-adjacent repetition survives *)
Lemma dedup_keeps_nonadjacent : dedup [3; 5; 3] = [3; 5; 3].
Proof. reflexivity. Qed.

Lemma retain_ne_In : forall c l x, In x (retain_ne c l) <-> In x l /\ x <> c.
Proof.
  intros c l x. unfold retain_ne. rewrite filter_In, negb_true_iff, N.eqb_neq. tauto.
Qed.

Lemma remove_all_cons : forall c rm l, remove_all (c :: rm) l = remove_all rm (retain_ne c l).
Proof. reflexivity. Qed.

Lemma remove_all_In : forall rm l x, In x (remove_all rm l) <-> In x l /\ ~ In x rm.
Proof.
  induction rm as [|c rm IH]; intros l x.
  - simpl. tauto.
  - rewrite remove_all_cons, IH, retain_ne_In. simpl. split.
    + intros [[Hl Hne] Hrm]. split; [assumption|]. intros [Hc|Hin]; [congruence|tauto].
    + intros [Hl Hn]. repeat split; try assumption.
      * intro; subst; tauto.
      * tauto.
Qed.

Lemma update_code_ids_eq : forall ids add rm,
  update_code_ids ids add rm =
  remove_all (unwrap_or rm []) (dedup (ids ++ unwrap_or add [])).
Proof.
  intros ids [a|] [r|]; unfold update_code_ids; simpl; rewrite ?app_nil_r; reflexivity.
Qed.

(* list level: exactly dedup-then-retain *)
Lemma update_code_ids_In : forall ids add rm x,
  In x (update_code_ids ids add rm) <->
  In x (dedup (ids ++ unwrap_or add [])) /\ ~ In x (unwrap_or rm []).
Proof. intros. rewrite update_code_ids_eq. apply remove_all_In. Qed.

(* set level: union, then difference *)
Lemma update_code_ids_set : forall ids add rm x,
  In x (update_code_ids ids add rm) <->
  (In x ids \/ In x (unwrap_or add [])) /\ ~ In x (unwrap_or rm []).
Proof. intros. rewrite update_code_ids_In, dedup_In, in_app_iff. tauto. Qed.

Lemma q_allowed_id_In : forall ids x, q_allowed_id ids x = true <-> In x ids.
Proof.
  intros ids x. unfold q_allowed_id. rewrite existsb_exists. split.
  - intros [y [Hy He]]. apply N.eqb_eq in He. subst. assumption.
  - intro H. exists x. split; [assumption|apply N.eqb_refl].
Qed.

(* ---------- native_or_err ---------- *)

Lemma native_or_err_ok : forall o old c,
  native_or_err o old = Ok c ->
  c = unwrap_or o old /\ (forall c', o = Some c' -> c_denom c' = NATIVE).
Proof.
  intros [c0|] old c H; simpl in *.
  - destruct (N.eqb_spec (c_denom c0) NATIVE) as [E|E]; [|discriminate].
    inversion H; subst. split; [reflexivity|]. intros c' Hc. inversion Hc; subst. assumption.
  - inversion H. split; [reflexivity|]. intros c' Hc. discriminate.
Qed.

Lemma native_or_err_err : forall o old,
  native_or_err o old = Err <-> exists c, o = Some c /\ c_denom c <> NATIVE.
Proof.
  intros [c0|] old; simpl.
  - destruct (N.eqb_spec (c_denom c0) NATIVE) as [E|E]; split.
    + discriminate.
    + intros [c [Hc Hn]]. inversion Hc; subst. contradiction.
    + intros _. exists c0. split; [reflexivity|assumption].
    + reflexivity.
  - split; [discriminate|]. intros [c [Hc _]]. discriminate.
Qed.

Lemma native_or_err_cases : forall o old,
  (exists c, native_or_err o old = Ok c) \/ native_or_err o old = Err.
Proof. intros. destruct (native_or_err o old); [left; eexists; reflexivity|right; reflexivity]. Qed.

(* ---------- update_params (base, and the common part of vending / open-edition) ---------- *)

Definition common_frame (p : cparams) (m : cmsg) (p' : cparams) : Prop :=
  cp_code_id p' = unwrap_or (cm_code_id m) (cp_code_id p) /\
  cp_frozen p' = unwrap_or (cm_frozen m) (cp_frozen p) /\
  cp_creation_fee p' = unwrap_or (cm_creation_fee m) (cp_creation_fee p) /\
  cp_min_mint_price p' = unwrap_or (cm_min_mint_price m) (cp_min_mint_price p) /\
  cp_mint_fee_bps p' = unwrap_or (cm_mint_fee_bps m) (cp_mint_fee_bps p) /\
  cp_offset p' = unwrap_or (cm_offset m) (cp_offset p) /\
  cp_allowed p' = update_code_ids (cp_allowed p) (cm_add m) (cm_rm m) /\
  (forall c, cm_min_mint_price m = Some c -> c_denom c = NATIVE).

Lemma update_params_frame : forall p m p', update_params p m = Ok p' -> common_frame p m p'.
Proof.
  intros p m p' H. unfold update_params, bind in H.
  destruct (native_or_err (cm_min_mint_price m) (cp_min_mint_price p)) as [c|] eqn:E; [|discriminate].
  apply native_or_err_ok in E. destruct E as [Ec En].
  inversion H; subst; clear H. unfold common_frame; simpl. repeat split; try reflexivity. exact En.
Qed.

Lemma update_params_err : forall p m,
  update_params p m = Err <-> exists c, cm_min_mint_price m = Some c /\ c_denom c <> NATIVE.
Proof.
  intros p m. rewrite <- (native_or_err_err (cm_min_mint_price m) (cp_min_mint_price p)).
  unfold update_params, bind.
  destruct (native_or_err (cm_min_mint_price m) (cp_min_mint_price p)); split; intro H;
    try discriminate; reflexivity.
Qed.

(* the field-by-field form used by the statements *)
Lemma base_update_frame : forall p m p', base_sudo p m = Ok p' ->
  cp_code_id p' = unwrap_or (cm_code_id m) (cp_code_id p) /\
  cp_frozen p' = unwrap_or (cm_frozen m) (cp_frozen p) /\
  cp_creation_fee p' = unwrap_or (cm_creation_fee m) (cp_creation_fee p) /\
  cp_min_mint_price p' = unwrap_or (cm_min_mint_price m) (cp_min_mint_price p) /\
  cp_mint_fee_bps p' = unwrap_or (cm_mint_fee_bps m) (cp_mint_fee_bps p) /\
  cp_offset p' = unwrap_or (cm_offset m) (cp_offset p) /\
  (forall x, In x (cp_allowed p') <->
             In x (dedup (cp_allowed p ++ unwrap_or (cm_add m) [])) /\ ~ In x (unwrap_or (cm_rm m) [])) /\
  (forall x, In x (cp_allowed p') <->
             (In x (cp_allowed p) \/ In x (unwrap_or (cm_add m) [])) /\ ~ In x (unwrap_or (cm_rm m) [])) /\
  (forall c, cm_min_mint_price m = Some c -> c_denom c = NATIVE).
Proof.
  intros p m p' H. apply update_params_frame in H.
  destruct H as (H1 & H2 & H3 & H4 & H5 & H6 & H7 & H8).
  refine (conj H1 (conj H2 (conj H3 (conj H4 (conj H5 (conj H6 (conj _ (conj _ H8)))))))).
  - intro x. rewrite H7. apply update_code_ids_In.
  - intro x. rewrite H7. apply update_code_ids_set.
Qed.

Lemma base_refusal : forall p m,
  base_sudo p m = Err <-> exists c, cm_min_mint_price m = Some c /\ c_denom c <> NATIVE.
Proof. exact update_params_err. Qed.

(* ---------- vending ---------- *)

Lemma vext_update_frame : forall x m x', vext_update x m = Ok x' ->
  vx_max_token_limit x' = unwrap_or (vxm_max_token_limit m) (vx_max_token_limit x) /\
  vx_max_per_address_limit x' = unwrap_or (vxm_max_per_address_limit m) (vx_max_per_address_limit x) /\
  vx_airdrop_mint_price x' = unwrap_or (vxm_airdrop_mint_price m) (vx_airdrop_mint_price x) /\
  vx_airdrop_mint_fee_bps x' = unwrap_or (vxm_airdrop_mint_fee_bps m) (vx_airdrop_mint_fee_bps x) /\
  vx_shuffle_fee x' = unwrap_or (vxm_shuffle_fee m) (vx_shuffle_fee x) /\
  (forall c, vxm_airdrop_mint_price m = Some c -> c_denom c = NATIVE) /\
  (forall c, vxm_shuffle_fee m = Some c -> c_denom c = NATIVE).
Proof.
  intros x m x' H. unfold vext_update, bind in H.
  destruct (native_or_err (vxm_airdrop_mint_price m) (vx_airdrop_mint_price x)) as [a|] eqn:Ea; [|discriminate].
  destruct (native_or_err (vxm_shuffle_fee m) (vx_shuffle_fee x)) as [s|] eqn:Es; [|discriminate].
  apply native_or_err_ok in Ea. apply native_or_err_ok in Es.
  destruct Ea as [Ea Na]. destruct Es as [Es Ns].
  inversion H; subst; clear H. simpl. repeat split; try reflexivity; assumption.
Qed.

Lemma vext_update_err : forall x m,
  vext_update x m = Err <->
  (exists c, vxm_airdrop_mint_price m = Some c /\ c_denom c <> NATIVE) \/
  (exists c, vxm_shuffle_fee m = Some c /\ c_denom c <> NATIVE).
Proof.
  intros x m.
  rewrite <- (native_or_err_err (vxm_airdrop_mint_price m) (vx_airdrop_mint_price x)).
  rewrite <- (native_or_err_err (vxm_shuffle_fee m) (vx_shuffle_fee x)).
  unfold vext_update, bind.
  destruct (native_or_err (vxm_airdrop_mint_price m) (vx_airdrop_mint_price x));
  destruct (native_or_err (vxm_shuffle_fee m) (vx_shuffle_fee x)); split; intro H;
    try discriminate; try tauto; destruct H; discriminate.
Qed.

Lemma vending_update_frame : forall p m p', vending_sudo p m = Ok p' ->
  common_frame (vp_common p) (vm_common m) (vp_common p') /\
  vext_update (vp_ext p) (vm_ext m) = Ok (vp_ext p').
Proof.
  intros p m p' H. unfold vending_sudo, bind in H.
  destruct (update_params (vp_common p) (vm_common m)) as [c|] eqn:Ec; [|discriminate].
  destruct (vext_update (vp_ext p) (vm_ext m)) as [x|] eqn:Ex; [|discriminate].
  inversion H; subst; clear H. simpl. split; [apply update_params_frame; assumption|reflexivity].
Qed.

Lemma vending_refusal : forall p m,
  vending_sudo p m = Err <->
  (exists c, cm_min_mint_price (vm_common m) = Some c /\ c_denom c <> NATIVE) \/
  (exists c, vxm_airdrop_mint_price (vm_ext m) = Some c /\ c_denom c <> NATIVE) \/
  (exists c, vxm_shuffle_fee (vm_ext m) = Some c /\ c_denom c <> NATIVE).
Proof.
  intros p m.
  rewrite <- (update_params_err (vp_common p) (vm_common m)).
  rewrite <- (vext_update_err (vp_ext p) (vm_ext m)).
  unfold vending_sudo, bind.
  destruct (update_params (vp_common p) (vm_common m));
  destruct (vext_update (vp_ext p) (vm_ext m)); split; intro H;
    try discriminate; try tauto; destruct H; discriminate.
Qed.

(* ---------- open edition ---------- *)

Lemma oe_update_frame : forall p m p', oe_sudo p m = Ok p' ->
  common_frame (op_common p) (om_common m) (op_common p') /\
  op_ext p' = oext_update (op_ext p) (om_ext m).
Proof.
  intros p m p' H. unfold oe_sudo, bind in H.
  destruct (update_params (op_common p) (om_common m)) as [c|] eqn:Ec; [|discriminate].
  inversion H; subst; clear H. simpl. split; [apply update_params_frame; assumption|reflexivity].
Qed.

Lemma oe_refusal : forall p m,
  oe_sudo p m = Err <-> exists c, cm_min_mint_price (om_common m) = Some c /\ c_denom c <> NATIVE.
Proof.
  intros p m. rewrite <- (update_params_err (op_common p) (om_common m)).
  unfold oe_sudo, bind. destruct (update_params (op_common p) (om_common m)); split; intro H;
    try discriminate; reflexivity.
Qed.

(* the extension's min_mint_price is dead: the outcome does not depend on it *)
Lemma oe_ext_min_mint_price_dead : forall p c a b d e f g z,
  oe_sudo p (mkOM c (mkOXM a b d e f g)) = oe_sudo p (mkOM c (mkOXM a b z e f g)).
Proof. reflexivity. Qed.

(* ---------- token merge ---------- *)

Lemma tm_update_frame : forall p m p', tm_sudo p m = Ok p' ->
  tp_code_id p' = unwrap_or (tm_code_id m) (tp_code_id p) /\
  tp_frozen p' = unwrap_or (tm_frozen m) (tp_frozen p) /\
  tp_creation_fee p' = unwrap_or (tm_creation_fee m) (tp_creation_fee p) /\
  tp_offset p' = unwrap_or (tm_offset m) (tp_offset p) /\
  tp_max_token_limit p' = unwrap_or (vxm_max_token_limit (tm_ext m)) (tp_max_token_limit p) /\
  tp_max_per_address_limit p' = unwrap_or (vxm_max_per_address_limit (tm_ext m)) (tp_max_per_address_limit p) /\
  tp_airdrop_mint_price p' = unwrap_or (vxm_airdrop_mint_price (tm_ext m)) (tp_airdrop_mint_price p) /\
  tp_airdrop_mint_fee_bps p' = unwrap_or (vxm_airdrop_mint_fee_bps (tm_ext m)) (tp_airdrop_mint_fee_bps p) /\
  tp_shuffle_fee p' = unwrap_or (vxm_shuffle_fee (tm_ext m)) (tp_shuffle_fee p) /\
  tp_allowed p' = update_code_ids (tp_allowed p) (tm_add m) (tm_rm m) /\
  (forall c, vxm_airdrop_mint_price (tm_ext m) = Some c -> c_denom c = NATIVE) /\
  (forall c, vxm_shuffle_fee (tm_ext m) = Some c -> c_denom c = NATIVE).
Proof.
  intros p m p' H. unfold tm_sudo, bind in H.
  destruct (native_or_err (vxm_airdrop_mint_price (tm_ext m)) (tp_airdrop_mint_price p)) as [a|] eqn:Ea; [|discriminate].
  destruct (native_or_err (vxm_shuffle_fee (tm_ext m)) (tp_shuffle_fee p)) as [s|] eqn:Es; [|discriminate].
  apply native_or_err_ok in Ea. apply native_or_err_ok in Es.
  destruct Ea as [Ea Na]. destruct Es as [Es Ns].
  inversion H; subst; clear H. simpl. repeat split; try reflexivity; assumption.
Qed.

Lemma tm_refusal : forall p m,
  tm_sudo p m = Err <->
  (exists c, vxm_airdrop_mint_price (tm_ext m) = Some c /\ c_denom c <> NATIVE) \/
  (exists c, vxm_shuffle_fee (tm_ext m) = Some c /\ c_denom c <> NATIVE).
Proof.
  intros p m.
  rewrite <- (native_or_err_err (vxm_airdrop_mint_price (tm_ext m)) (tp_airdrop_mint_price p)).
  rewrite <- (native_or_err_err (vxm_shuffle_fee (tm_ext m)) (tp_shuffle_fee p)).
  unfold tm_sudo, bind.
  destruct (native_or_err (vxm_airdrop_mint_price (tm_ext m)) (tp_airdrop_mint_price p));
  destruct (native_or_err (vxm_shuffle_fee (tm_ext m)) (tp_shuffle_fee p)); split; intro H;
    try discriminate; try tauto; destruct H; discriminate.
Qed.

(* ---------- the contract as a whole: nothing but the parameters moves ---------- *)

Lemma fstate_sudo_frame : forall (P M R : Type) (upd : P -> M -> result P) (s s' : fstate P R) (m : M),
  fstate_sudo upd s m = Ok s' ->
  fs_rest s' = fs_rest s /\ upd (fs_params s) m = Ok (fs_params s').
Proof.
  intros P M R upd s s' m H. unfold fstate_sudo, bind in H.
  destruct (upd (fs_params s) m) as [p'|]; [|discriminate].
  inversion H; subst; clear H. simpl. split; reflexivity.
Qed.

Lemma fstate_sudo_err : forall (P M R : Type) (upd : P -> M -> result P) (s : fstate P R) (m : M),
  fstate_sudo upd s m = Err <-> upd (fs_params s) m = Err.
Proof.
  intros. unfold fstate_sudo, bind. destruct (upd (fs_params s) m); split; intro H;
    try discriminate; reflexivity.
Qed.

(* ---------- sequences: last accepted writer wins, refused messages are skipped ---------- *)

Lemma apply_seq_last_writer : forall (P M A : Type) (upd : P -> M -> result P)
    (acc : M -> bool) (g : P -> A) (mg : M -> option A),
  (forall p m p', upd p m = Ok p' -> acc m = true /\ g p' = unwrap_or (mg m) (g p)) ->
  (forall p m, upd p m = Err -> acc m = false) ->
  forall ms p,
    g (apply_seq upd p ms) = fold_left (fun a m => unwrap_or (mg m) a) (filter acc ms) (g p).
Proof.
  intros P M A upd acc g mg Hok Herr. induction ms as [|m ms IH]; intro p; [reflexivity|].
  unfold apply_seq in *. simpl. destruct (upd p m) as [p'|] eqn:E.
  - destruct (Hok _ _ _ E) as [Ha Hg]. rewrite Ha. simpl. rewrite IH, Hg. reflexivity.
  - rewrite (Herr _ _ E). apply IH.
Qed.

Definition coin_native (o : option coin) : bool :=
  match o with Some c => c_denom c =? NATIVE | None => true end.

Lemma coin_native_true : forall o, coin_native o = true <-> (forall c, o = Some c -> c_denom c = NATIVE).
Proof.
  intros [c|]; simpl.
  - rewrite N.eqb_eq. split; [intros H c' Hc; inversion Hc; subst; assumption|intro H; apply H; reflexivity].
  - split; [intros _ c Hc; discriminate|reflexivity].
Qed.

Lemma coin_native_false : forall o, coin_native o = false <-> exists c, o = Some c /\ c_denom c <> NATIVE.
Proof.
  intros [c|]; simpl.
  - rewrite N.eqb_neq. split; [intro H; exists c; split; [reflexivity|assumption]|].
    intros [c' [Hc Hn]]. inversion Hc; subst; assumption.
  - split; [discriminate|]. intros [c [Hc _]]. discriminate.
Qed.

Definition base_accepts (m : cmsg) : bool := coin_native (cm_min_mint_price m).

Lemma base_sudo_accepts : forall p m p', base_sudo p m = Ok p' -> base_accepts m = true.
Proof.
  intros p m p' H. apply update_params_frame in H. unfold base_accepts.
  apply coin_native_true. apply H.
Qed.
Lemma base_sudo_rejects : forall p m, base_sudo p m = Err -> base_accepts m = false.
Proof. intros p m H. apply base_refusal in H. apply coin_native_false. exact H. Qed.

Lemma base_sequence_scalars : forall ms p,
  let acc := filter base_accepts ms in
  let q := apply_seq base_sudo p ms in
  cp_code_id q = fold_left (fun a m => unwrap_or (cm_code_id m) a) acc (cp_code_id p) /\
  cp_frozen q = fold_left (fun a m => unwrap_or (cm_frozen m) a) acc (cp_frozen p) /\
  cp_creation_fee q = fold_left (fun a m => unwrap_or (cm_creation_fee m) a) acc (cp_creation_fee p) /\
  cp_min_mint_price q = fold_left (fun a m => unwrap_or (cm_min_mint_price m) a) acc (cp_min_mint_price p) /\
  cp_mint_fee_bps q = fold_left (fun a m => unwrap_or (cm_mint_fee_bps m) a) acc (cp_mint_fee_bps p) /\
  cp_offset q = fold_left (fun a m => unwrap_or (cm_offset m) a) acc (cp_offset p).
Proof.
  intros ms p. cbv zeta.
  repeat split;
    (apply (apply_seq_last_writer _ _ _ base_sudo base_accepts);
     [intros p0 m p' H; split; [eapply base_sudo_accepts; eassumption|apply update_params_frame in H; apply H]
     |exact base_sudo_rejects]).
Qed.

(* ---------- CreateMinter ---------- *)

Lemma guard_ok : forall b, guard b = Ok tt <-> b = true.
Proof. intros [|]; simpl; split; intro H; try reflexivity; discriminate. Qed.

Lemma bind_guard : forall b (k : result unit),
  (do _ <- guard b; k) = Ok tt <-> b = true /\ k = Ok tt.
Proof.
  intros [|] k; simpl; split.
  - intro H; split; [reflexivity|assumption].
  - intros [_ H]; assumption.
  - discriminate.
  - intros [H _]; discriminate.
Qed.

Lemma must_pay_ok : forall funds d p,
  must_pay funds d = Ok p <-> funds = [mkCoin d p] /\ p <> 0.
Proof.
  intros funds d p. unfold must_pay, one_coin, bind. split.
  - destruct funds as [|c [|c2 rest]]; try discriminate.
    destruct (N.eqb_spec (c_amount c) 0) as [Ez|Ez]; [discriminate|].
    destruct (N.eqb_spec (c_denom c) d) as [Ed|Ed]; [|discriminate].
    intro H; inversion H; subst. destruct c; simpl in *. split; [reflexivity|assumption].
  - intros [Hf Hp]. subst funds. simpl.
    destruct (N.eqb_spec p 0) as [Ez|Ez]; [contradiction|].
    rewrite N.eqb_refl. reflexivity.
Qed.

Definition fee_paid (exact : bool) (fee : coin) (funds : list coin) : Prop :=
  exists pay, funds = [mkCoin (c_denom fee) pay] /\ pay <> 0 /\
              (if exact then pay = c_amount fee else c_amount fee <= pay).

Lemma fee_paid_meaning : forall exact fee funds,
  fee_paid exact fee funds <->
  exists pay, funds = [mkCoin (c_denom fee) pay] /\ pay <> 0 /\
              (if exact then pay = c_amount fee else c_amount fee <= pay).
Proof. intros; reflexivity. Qed.

Lemma fee_ok_iff : forall exact fee funds, fee_ok exact fee funds = Ok tt <-> fee_paid exact fee funds.
Proof.
  intros exact fee funds. unfold fee_ok, fee_paid, bind. split.
  - destruct (must_pay funds (c_denom fee)) as [pay|] eqn:E; [|discriminate].
    apply must_pay_ok in E. destruct E as [Ef Ep]. intro H. apply guard_ok in H.
    exists pay. repeat split; try assumption.
    destruct exact; [apply N.eqb_eq|apply N.leb_le]; assumption.
  - intros [pay [Hf [Hp Hc]]].
    assert (E : must_pay funds (c_denom fee) = Ok pay) by (apply must_pay_ok; split; assumption).
    rewrite E. apply guard_ok. destruct exact; [apply N.eqb_eq|apply N.leb_le]; assumption.
Qed.

Lemma bind_unit : forall (r : result unit) (k : result unit),
  (do _ <- r; k) = Ok tt <-> r = Ok tt /\ k = Ok tt.
Proof.
  intros [[]|] k; simpl; split.
  - intro H; split; [reflexivity|assumption].
  - intros [_ H]; assumption.
  - discriminate.
  - intros [H _]; discriminate.
Qed.

Lemma limit_ok_iff : forall x max, limit_ok x max = true <-> 1 <= x /\ x <= max.
Proof.
  intros x max. unfold limit_ok. rewrite andb_true_iff, negb_true_iff, N.eqb_neq, N.leb_le. lia.
Qed.

Lemma base_create_iff : forall p r,
  base_create p r = Ok tt <->
  fee_paid false (cp_creation_fee p) (br_funds r) /\
  In (br_code_id r) (cp_allowed p) /\ cp_frozen p = false.
Proof.
  intros p r. unfold base_create.
  rewrite bind_unit, fee_ok_iff, bind_guard,
    guard_ok, q_allowed_id_In, negb_true_iff. tauto.
Qed.

Lemma vending_create_iff : forall p r,
  vending_create p r = Ok tt <->
  fee_paid false (cp_creation_fee (vp_common p)) (vr_funds r) /\
  In (vr_code_id r) (cp_allowed (vp_common p)) /\ cp_frozen (vp_common p) = false /\
  (1 <= vr_num_tokens r /\ vr_num_tokens r <= vx_max_token_limit (vp_ext p)) /\
  (1 <= vr_per_address_limit r /\ vr_per_address_limit r <= vx_max_per_address_limit (vp_ext p)) /\
  c_denom (cp_min_mint_price (vp_common p)) = c_denom (vr_mint_price r) /\
  c_amount (cp_min_mint_price (vp_common p)) <= c_amount (vr_mint_price r).
Proof.
  intros p r. unfold vending_create. cbv zeta.
  rewrite bind_unit, fee_ok_iff.
  rewrite !bind_guard.
  rewrite guard_ok, q_allowed_id_In, negb_true_iff, !limit_ok_iff, N.eqb_eq, N.leb_le. tauto.
Qed.

Lemma tm_create_iff : forall p r,
  tm_create p r = Ok tt <->
  fee_paid false (tp_creation_fee p) (tr_funds r) /\
  In (tr_code_id r) (tp_allowed p) /\ tp_frozen p = false /\
  (1 <= tr_num_tokens r /\ tr_num_tokens r <= tp_max_token_limit p) /\
  (1 <= tr_per_address_limit r /\ tr_per_address_limit r <= tp_max_per_address_limit p).
Proof.
  intros p r. unfold tm_create.
  rewrite bind_unit, fee_ok_iff.
  rewrite !bind_guard.
  rewrite guard_ok, q_allowed_id_In, negb_true_iff, !limit_ok_iff. tauto.
Qed.

Lemma oe_create_iff : forall p r,
  oe_create p r = Ok tt <->
  fee_paid true (cp_creation_fee (op_common p)) (or_funds r) /\
  In (or_code_id r) (cp_allowed (op_common p)) /\ cp_frozen (op_common p) = false /\
  (forall n, or_num_tokens r = Some n -> 1 <= n /\ n <= ox_max_token_limit (op_ext p)) /\
  (1 <= or_per_address_limit r /\ or_per_address_limit r <= ox_max_per_address_limit (op_ext p)) /\
  (or_has_end_time r = true \/ or_num_tokens r <> None) /\
  c_amount (cp_min_mint_price (op_common p)) <= c_amount (or_mint_price r) /\
  c_denom (cp_min_mint_price (op_common p)) = c_denom (or_mint_price r) /\
  (or_num_tokens r = None ->
     c_amount (or_mint_price r) <> 0 /\ c_amount (ox_airdrop_mint_price (op_ext p)) <> 0).
Proof.
  intros p r. unfold oe_create. cbv zeta.
  rewrite bind_unit, fee_ok_iff.
  rewrite !bind_guard.
  rewrite guard_ok, q_allowed_id_In, negb_true_iff, limit_ok_iff, N.eqb_eq, N.leb_le, orb_true_iff.
  destruct (or_num_tokens r) as [n|].
  - rewrite limit_ok_iff.
    assert (Hn : (forall n0, Some n = Some n0 -> 1 <= n0 /\ n0 <= ox_max_token_limit (op_ext p)) <->
                 (1 <= n /\ n <= ox_max_token_limit (op_ext p))).
    { split; [intro H; apply H; reflexivity|intros H n0 E; inversion E; subst; exact H]. }
    assert (H6 : (or_has_end_time r = true \/ Some n <> None) <-> True).
    { split; [trivial|intros _; right; discriminate]. }
    assert (H9 : (Some n = None ->
                  c_amount (or_mint_price r) <> 0 /\ c_amount (ox_airdrop_mint_price (op_ext p)) <> 0) <-> True).
    { split; [trivial|intros _ E; discriminate]. }
    rewrite Hn, H6, H9. intuition.
  - rewrite !negb_true_iff, !N.eqb_neq.
    assert (Hn : (forall n0, @None N = Some n0 -> 1 <= n0 /\ n0 <= ox_max_token_limit (op_ext p)) <-> True).
    { split; [trivial|intros _ n0 E; discriminate]. }
    assert (H6 : (or_has_end_time r = true \/ @None N <> None) <-> or_has_end_time r = true).
    { split; [intros [H|H]; [assumption|contradiction]|intro H; left; assumption]. }
    assert (H9 : (@None N = None ->
                  c_amount (or_mint_price r) <> 0 /\ c_amount (ox_airdrop_mint_price (op_ext p)) <> 0) <->
                 (c_amount (or_mint_price r) <> 0 /\ c_amount (ox_airdrop_mint_price (op_ext p)) <> 0)).
    { split; [intro H; apply H; reflexivity|intros H _; exact H]. }
    rewrite Hn, H6, H9. intuition (try discriminate).
Qed.

(* ---------- what mints read ---------- *)
Lemma mint_network_fee_bps : forall price bps, mint_network_fee price bps = price * bps / 10000.
Proof.
  intros price bps. unfold mint_network_fee, mul_floor, dec_bps, DEC.
  replace (price * (bps * 100000000000000)) with ((price * bps) * 100000000000000) by (rewrite N.mul_assoc; reflexivity).
  change 1000000000000000000 with (10000 * 100000000000000).
  rewrite N.div_mul_cancel_r; [reflexivity|discriminate|discriminate].
Qed.

(* ---------- creations observe the new parameters: a creation issued after an accepted
   update succeeds exactly when its request meets the SUPPLIED values (where a field was
   supplied) and the previous values (where it was omitted) ---------- *)

Definition ids_after (ids : list N) (add rm : option (list N)) (x : N) : Prop :=
  (In x ids \/ In x (unwrap_or add [])) /\ ~ In x (unwrap_or rm []).

Lemma base_creations_observe : forall p m p' r, base_sudo p m = Ok p' ->
  (base_create p' r = Ok tt <->
   fee_paid false (unwrap_or (cm_creation_fee m) (cp_creation_fee p)) (br_funds r) /\
   ids_after (cp_allowed p) (cm_add m) (cm_rm m) (br_code_id r) /\
   unwrap_or (cm_frozen m) (cp_frozen p) = false).
Proof.
  intros p m p' r H. rewrite base_create_iff. apply update_params_frame in H.
  destruct H as (H1 & H2 & H3 & H4 & H5 & H6 & H7 & H8).
  rewrite H2, H3, H7, update_code_ids_set. unfold ids_after. tauto.
Qed.

Lemma vending_creations_observe : forall p m p' r, vending_sudo p m = Ok p' ->
  let c := vp_common p in let cm := vm_common m in let x := vp_ext p in let xm := vm_ext m in
  let mmp := unwrap_or (cm_min_mint_price cm) (cp_min_mint_price c) in
  (vending_create p' r = Ok tt <->
   fee_paid false (unwrap_or (cm_creation_fee cm) (cp_creation_fee c)) (vr_funds r) /\
   ids_after (cp_allowed c) (cm_add cm) (cm_rm cm) (vr_code_id r) /\
   unwrap_or (cm_frozen cm) (cp_frozen c) = false /\
   (1 <= vr_num_tokens r /\ vr_num_tokens r <= unwrap_or (vxm_max_token_limit xm) (vx_max_token_limit x)) /\
   (1 <= vr_per_address_limit r /\
    vr_per_address_limit r <= unwrap_or (vxm_max_per_address_limit xm) (vx_max_per_address_limit x)) /\
   c_denom mmp = c_denom (vr_mint_price r) /\ c_amount mmp <= c_amount (vr_mint_price r)).
Proof.
  intros p m p' r H. cbv zeta. rewrite vending_create_iff. apply vending_update_frame in H.
  destruct H as [(H1 & H2 & H3 & H4 & H5 & H6 & H7 & H8) Hx]. apply vext_update_frame in Hx.
  destruct Hx as (X1 & X2 & X3 & X4 & X5 & X6 & X7).
  rewrite H2, H3, H4, H7, X1, X2, update_code_ids_set. unfold ids_after. tauto.
Qed.

Lemma oe_creations_observe : forall p m p' r, oe_sudo p m = Ok p' ->
  let c := op_common p in let cm := om_common m in let x := op_ext p in let xm := om_ext m in
  let mmp := unwrap_or (cm_min_mint_price cm) (cp_min_mint_price c) in
  (oe_create p' r = Ok tt <->
   fee_paid true (unwrap_or (cm_creation_fee cm) (cp_creation_fee c)) (or_funds r) /\
   ids_after (cp_allowed c) (cm_add cm) (cm_rm cm) (or_code_id r) /\
   unwrap_or (cm_frozen cm) (cp_frozen c) = false /\
   (forall n, or_num_tokens r = Some n ->
      1 <= n /\ n <= unwrap_or (oxm_max_token_limit xm) (ox_max_token_limit x)) /\
   (1 <= or_per_address_limit r /\
    or_per_address_limit r <= unwrap_or (oxm_max_per_address_limit xm) (ox_max_per_address_limit x)) /\
   (or_has_end_time r = true \/ or_num_tokens r <> None) /\
   c_amount mmp <= c_amount (or_mint_price r) /\ c_denom mmp = c_denom (or_mint_price r) /\
   (or_num_tokens r = None ->
      c_amount (or_mint_price r) <> 0 /\
      c_amount (unwrap_or (oxm_airdrop_mint_price xm) (ox_airdrop_mint_price x)) <> 0)).
Proof.
  intros p m p' r H. cbv zeta. rewrite oe_create_iff. apply oe_update_frame in H.
  destruct H as [(H1 & H2 & H3 & H4 & H5 & H6 & H7 & H8) Hx].
  rewrite H2, H3, H4, H7, Hx, update_code_ids_set. unfold ids_after. simpl. tauto.
Qed.

Lemma tm_creations_observe : forall p m p' r, tm_sudo p m = Ok p' ->
  (tm_create p' r = Ok tt <->
   fee_paid false (unwrap_or (tm_creation_fee m) (tp_creation_fee p)) (tr_funds r) /\
   ids_after (tp_allowed p) (tm_add m) (tm_rm m) (tr_code_id r) /\
   unwrap_or (tm_frozen m) (tp_frozen p) = false /\
   (1 <= tr_num_tokens r /\
    tr_num_tokens r <= unwrap_or (vxm_max_token_limit (tm_ext m)) (tp_max_token_limit p)) /\
   (1 <= tr_per_address_limit r /\
    tr_per_address_limit r <= unwrap_or (vxm_max_per_address_limit (tm_ext m)) (tp_max_per_address_limit p))).
Proof.
  intros p m p' r H. rewrite tm_create_iff. apply tm_update_frame in H.
  destruct H as (H1 & H2 & H3 & H4 & H5 & H6 & H7 & H8 & H9 & H10 & H11 & H12).
  rewrite H2, H3, H5, H6, H10, update_code_ids_set. unfold ids_after. tauto.
Qed.

(* directed corollaries, the shapes the harness replays *)
Lemma freeze_blocks_creation : forall p m p' r,
  base_sudo p m = Ok p' -> cm_frozen m = Some true -> base_create p' r = Err.
Proof.
  intros p m p' r H Hf. destruct (base_create p' r) as [[]|] eqn:E; [|reflexivity].
  apply (base_creations_observe _ _ _ r H) in E. destruct E as (_ & _ & E).
  rewrite Hf in E. discriminate.
Qed.

Lemma removed_code_id_blocks_creation : forall p m p' r rm,
  base_sudo p m = Ok p' -> cm_rm m = Some rm -> In (br_code_id r) rm -> base_create p' r = Err.
Proof.
  intros p m p' r rm H Hr Hin. destruct (base_create p' r) as [[]|] eqn:E; [|reflexivity].
  apply (base_creations_observe _ _ _ r H) in E. destruct E as (_ & [_ E] & _).
  rewrite Hr in E. simpl in E. contradiction.
Qed.

Lemma raised_fee_blocks_old_payment : forall p m p' r f pay,
  base_sudo p m = Ok p' -> cm_creation_fee m = Some f ->
  br_funds r = [mkCoin (c_denom f) pay] -> pay < c_amount f -> base_create p' r = Err.
Proof.
  intros p m p' r f pay H Hf Hfunds Hlt. destruct (base_create p' r) as [[]|] eqn:E; [|reflexivity].
  apply (base_creations_observe _ _ _ r H) in E. destruct E as (E & _ & _).
  rewrite Hf in E. simpl in E. destruct E as [pay' [E1 [_ E3]]]. rewrite Hfunds in E1.
  inversion E1; subst. lia.
Qed.

Lemma lowered_token_limit_blocks_old_max : forall p m p' r n,
  vending_sudo p m = Ok p' -> vxm_max_token_limit (vm_ext m) = Some n ->
  n < vr_num_tokens r -> vending_create p' r = Err.
Proof.
  intros p m p' r n H Hn Hlt. destruct (vending_create p' r) as [[]|] eqn:E; [|reflexivity].
  apply (vending_creations_observe _ _ _ r H) in E. destruct E as (_ & _ & _ & [_ E] & _).
  rewrite Hn in E. simpl in E. lia.
Qed.
