(* Reduction of Decimal products to small divisors, so that no later proof (and no
   `lia` call) ever sees 10^18. *)
From LP Require Import Num.
From Coq Require Import ZArith Lia ZifyN.
Ltac Zify.zify_post_hook ::= Z.div_mod_to_equations.

Lemma mul_floor_scale a n d k :
  k <> 0 -> d <> 0 -> DEC = d * k -> mul_floor a (n * k) = a * n / d.
Proof.
  intros Hk Hd HD. unfold mul_floor. rewrite HD.
  rewrite N.mul_assoc. apply N.div_mul_cancel_r; assumption.
Qed.

Lemma mul_ceil_scale a n d k :
  k <> 0 -> d <> 0 -> DEC = d * k ->
  mul_ceil a (n * k) = if (a * n) mod d =? 0 then a * n / d else a * n / d + 1.
Proof.
  intros Hk Hd HD. unfold mul_ceil. rewrite HD.
  rewrite N.mul_assoc.
  rewrite N.mul_mod_distr_r by assumption.
  rewrite N.div_mul_cancel_r by assumption.
  destruct ((a * n) mod d =? 0) eqn:E.
  - apply N.eqb_eq in E. rewrite E. simpl. reflexivity.
  - apply N.eqb_neq in E.
    assert (H : (a * n) mod d * k <> 0) by (apply N.neq_mul_0; split; assumption).
    apply N.eqb_neq in H. rewrite H. reflexivity.
Qed.

(* the ceiling in closed form *)
Lemma ceil_div_closed x d :
  d <> 0 -> (if x mod d =? 0 then x / d else x / d + 1) = (x + (d - 1)) / d.
Proof.
  intros Hd.
  pose proof (N.div_mod x d Hd) as Hx.
  pose proof (N.mod_lt x d Hd) as Hlt.
  set (q := x / d) in *. set (r := x mod d) in *.
  destruct (r =? 0) eqn:E.
  - apply N.eqb_eq in E.
    apply (N.div_unique (x + (d - 1)) d q (d - 1)); [ lia | lia ].
  - apply N.eqb_neq in E.
    apply (N.div_unique (x + (d - 1)) d (q + 1) (r - 1)); [ lia | ].
    rewrite N.mul_add_distr_l. lia.
Qed.

Lemma mul_floor_percent50 a : mul_floor a (dec_percent 50) = a / 2.
Proof.
  unfold dec_percent.
  replace (50 * 10000000000000000) with (1 * 500000000000000000) by reflexivity.
  rewrite (mul_floor_scale a 1 2 500000000000000000); [ now rewrite N.mul_1_r | discriminate | discriminate | reflexivity ].
Qed.

Lemma mul_ceil_percent50 a : mul_ceil a (dec_percent 50) = (a + 1) / 2.
Proof.
  unfold dec_percent.
  replace (50 * 10000000000000000) with (1 * 500000000000000000) by reflexivity.
  rewrite (mul_ceil_scale a 1 2 500000000000000000); [ | discriminate | discriminate | reflexivity ].
  rewrite N.mul_1_r. rewrite ceil_div_closed by discriminate. reflexivity.
Qed.

Lemma mul_ceil_ratio_1_5 a : mul_ceil a (dec_from_ratio 1 5) = (a + 4) / 5.
Proof.
  replace (dec_from_ratio 1 5) with (1 * 200000000000000000) by reflexivity.
  rewrite (mul_ceil_scale a 1 5 200000000000000000); [ | discriminate | discriminate | reflexivity ].
  rewrite N.mul_1_r. rewrite ceil_div_closed by discriminate. reflexivity.
Qed.

Lemma mul_ceil_ratio_1_8 a : mul_ceil a (dec_from_ratio 1 8) = (a + 7) / 8.
Proof.
  replace (dec_from_ratio 1 8) with (1 * 125000000000000000) by reflexivity.
  rewrite (mul_ceil_scale a 1 8 125000000000000000); [ | discriminate | discriminate | reflexivity ].
  rewrite N.mul_1_r. rewrite ceil_div_closed by discriminate. reflexivity.
Qed.

(* Decimal::bps(b) : floor(a * b / 10000) *)
Lemma mul_floor_bps a b : mul_floor a (dec_bps b) = a * b / 10000.
Proof.
  unfold dec_bps.
  rewrite (mul_floor_scale a b 10000 100000000000000); [ reflexivity | discriminate | discriminate | reflexivity ].
Qed.

(* Decimal::percent(p) : floor(a * p / 100) *)
Lemma mul_floor_percent a p : mul_floor a (dec_percent p) = a * p / 100.
Proof.
  unfold dec_percent.
  rewrite (mul_floor_scale a p 100 10000000000000000); [ reflexivity | discriminate | discriminate | reflexivity ].
Qed.
