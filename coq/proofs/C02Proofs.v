(* C02 — a mint charges exactly the price in force and disburses all of it (the six
   vending minters).  Handler level: what a successful Mint / MintTo / MintFor was paid
   and which bank messages it emits.  World level (SaleCorr.world_step): what happens to
   every balance.  The faithful model keeps `price - fee` in the minter on airdrops
   (DESIGN §8 D6); that class is carved out and refuted in props/C02.v. *)
From LP Require Import Num Pay Sg1 Bank MinterVending SaleCorr Consts NumLemmas Sg1Proofs MinterVendingProofs.
From Coq Require Import ZArith Lia ZifyN ZifyBool.
Ltac Zify.zify_post_hook ::= Z.div_mod_to_equations.
Local Open Scope N_scope.

Ltac case_ifs := repeat match goal with
  | |- context [if ?c then _ else _] => let E := fresh "Eif" in destruct c eqn:E
  | H : context [if ?c then _ else _] |- _ => let E := fresh "Eif" in destruct c eqn:E
  end.

Ltac eqs := repeat match goal with
  | H : (_ && _) = true |- _ => apply andb_prop in H; destruct H
  | H : (?x =? ?y) = true |- _ => apply N.eqb_eq in H; try (first [ subst x | subst y ])
  end.

(* ---------- vocabulary ---------- *)
Definition is_mint_op (o : vop) : bool :=
  match o with OMint _ _ _ _ | OMintTo _ _ _ | OMintFor _ _ _ => true | _ => false end.
(* MintTo / MintFor are the admin ("airdrop") mints *)
Definition is_airdrop (o : vop) : bool :=
  match o with OMintTo _ _ _ | OMintFor _ _ _ => true | _ => false end.

Definition seller_of (s : vstate) : addr := match s_payment s with Some p => p | None => s_admin s end.
Definition fee_bps (fp : fparams) (airdrop : bool) : N :=
  if airdrop then fp_airdrop_fee_bps fp else fp_mint_fee_bps fp.

(* the fee messages: liquidity DAO ceil(fee/5) (ceil(fee/8) featured), launchpad DAO the rest *)
Definition fee_part (featured : bool) (dn : denom) (fee : N) : list bmsg :=
  if fee =? 0 then []
  else [Send A_LIQUIDITY_DAO dn (liq_part featured fee); Send A_LAUNCHPAD_DAO dn (fee - liq_part featured fee)].
Definition seller_part (s : vstate) (airdrop : bool) (dn : denom) (price fee : N) : list bmsg :=
  if airdrop then []
  else if price - fee =? 0 then [] else [Send (seller_of s) dn (price - fee)].

Lemma bank_of_app a b : bank_of (a ++ b) = bank_of a ++ bank_of b.
Proof. unfold bank_of. apply flat_map_app. Qed.
Lemma bank_of_bank l : bank_of (map OBank l) = l.
Proof. induction l as [|m r IH]; cbn; [ reflexivity | f_equal; exact IH ]. Qed.

Lemma bank_of_nft t o l : bank_of (OMintNft t o :: l) = bank_of l.
Proof. reflexivity. Qed.

Lemma fee_msgs_exact vr dn fee ms :
  fee_msgs vr dn fee = Ok ms -> ms = fee_part (v_featured vr) dn fee.
Proof.
  unfold fee_msgs, fee_part. destruct (fee =? 0); intros H.
  - inv H. reflexivity.
  - rewrite distribute_mint_fees_exact in H. inv H. reflexivity.
Qed.

(* ---------- the handler: payment and messages of execute_mint_core ---------- *)
Lemma mint_core_payment vr s e fp wv adm rcp tok choice isp s' ms :
  execute_mint_core vr s e fp wv adm rcp tok choice isp = Ok (s', ms) ->
  exists price dn,
    mint_price s fp wv adm = Ok (price, dn) /\
    may_pay (e_funds e) dn = Ok price /\
    bank_of ms = fee_part (v_featured vr) dn (price * fee_bps fp adm / 10000)
                 ++ seller_part s adm dn price (price * fee_bps fp adm / 10000) /\
    (adm = false -> price * fee_bps fp adm / 10000 <= price).
Proof.
  unfold execute_mint_core. intros H.
  destruct (s_mintable s =? 0); [ discriminate | ].
  bind_in H u1 Hg.
  bind_in H pr Hpr. destruct pr as [amount dn].
  bind_in H payment Hpay.
  destruct (payment =? amount) eqn:Epa; cbn [negb] in H; [ | discriminate ].
  apply N.eqb_eq in Epa. subst payment.
  cbv zeta in H. rewrite mul_floor_bps in H.
  change (if adm then fp_airdrop_fee_bps fp else fp_mint_fee_bps fp) with (fee_bps fp adm) in H.
  set (fee := amount * fee_bps fp adm / 10000) in *.
  destruct (U128_MAX <? fee); [ discriminate | ].
  bind_in H fmsgs Hfm. apply fee_msgs_exact in Hfm. subst fmsgs.
  bind_in H tid Htid.
  bind_in H pos Hpos.
  bind_in H s1 Hs1.
  bind_in H smsgs Hsm. inv H.
  exists amount, dn. split; [ exact Hpr | ]. split; [ exact Hpay | ].
  assert (Hs : smsgs = seller_part s adm dn amount fee /\ (adm = false -> fee <= amount)).
  { unfold seller_part, seller_of. destruct adm.
    - inv Hsm. split; [ reflexivity | discriminate ].
    - unfold sub128 in Hsm. destruct (fee <=? amount) eqn:Ele; cbn [bind] in Hsm; [ | discriminate ].
      apply N.leb_le in Ele.
      destruct (amount - fee =? 0); inv Hsm; (split; [ reflexivity | intros _; exact Ele ]). }
  destruct Hs as [-> Hle]. split; [ | exact Hle ].
  rewrite !bank_of_app, ?bank_of_nft, !bank_of_bank. cbn [app]. rewrite ?bank_of_nft, ?bank_of_bank. reflexivity.
Qed.

(* every mint entry point of `step` goes through execute_mint_core with is_admin =
   (the op is MintTo / MintFor) *)
Lemma step_mint_core vr s e fp wv o s' ms :
  is_mint_op o = true -> step vr s e fp wv o = Ok (s', ms) ->
  (is_airdrop o = true -> e_sender e = s_admin s) /\
  exists rcp tok choice isp,
    execute_mint_core vr s e fp wv (is_airdrop o) rcp tok choice isp = Ok (s', ms).
Proof.
  intros Hm H. destruct o; try discriminate Hm; cbn [step] in H; cbn [is_airdrop].
  - repeat step_hyp H; (split; [ discriminate | eauto ]).
  - repeat step_hyp H. unfold is_admin_sender in *. apply negb_false_iff in E0. apply N.eqb_eq in E0.
    split; [ intros _; exact E0 | eauto ].
  - repeat step_hyp H. unfold is_admin_sender in *. apply negb_false_iff in E0. apply N.eqb_eq in E0.
    split; [ intros _; exact E0 | eauto ].
Qed.

Theorem step_mint_payment vr s e fp wv o s' ms :
  is_mint_op o = true -> step vr s e fp wv o = Ok (s', ms) ->
  exists price dn,
    mint_price s fp wv (is_airdrop o) = Ok (price, dn) /\
    may_pay (e_funds e) dn = Ok price /\
    bank_of ms = fee_part (v_featured vr) dn (price * fee_bps fp (is_airdrop o) / 10000)
                 ++ seller_part s (is_airdrop o) dn price (price * fee_bps fp (is_airdrop o) / 10000) /\
    (is_airdrop o = false -> price * fee_bps fp (is_airdrop o) / 10000 <= price) /\
    (is_airdrop o = true -> e_sender e = s_admin s).
Proof.
  intros Hm H. destruct (step_mint_core _ _ _ _ _ _ _ _ Hm H) as [Ha (rcp & tok & choice & isp & Hc)].
  apply mint_core_payment in Hc. destruct Hc as (price & dn & H1 & H2 & H3 & H4).
  exists price, dn. auto.
Qed.

(* the price in force, spelled out *)
Lemma mint_price_cases s fp wv adm price dn :
  mint_price s fp wv adm = Ok (price, dn) ->
  (adm = true /\ price = fp_airdrop_price fp /\ dn = fp_airdrop_denom fp) \/
  (adm = false /\
   ((exists v, s_whitelist s <> None /\ wv = Some v /\ wv_active v = true /\ price = wv_price v /\ dn = wv_denom v) \/
    ((s_whitelist s = None \/ exists v, wv = Some v /\ wv_active v = false) /\
     price = match s_discount s with Some d => d | None => s_price s end /\ dn = s_denom s))).
Proof.
  unfold mint_price, public_or_discount. destruct adm.
  - intros H. inv H. left. auto.
  - intros H. right. split; [ reflexivity | ].
    destruct (s_whitelist s) as [w|] eqn:Ew.
    + destruct wv as [v|]; [ | discriminate ]. destruct (wv_active v) eqn:Ea; inv H.
      * left. exists v. repeat split; auto. discriminate.
      * right. split; [ right; eauto | auto ].
    + inv H. right. auto.
Qed.

(* ---- exact funds ---- *)
Theorem mint_ok_exact_funds vr s e fp wv o s' ms :
  is_mint_op o = true -> step vr s e fp wv o = Ok (s', ms) ->
  exists price dn,
    mint_price s fp wv (is_airdrop o) = Ok (price, dn) /\
    ((e_funds e = [] /\ price = 0) \/ e_funds e = [mkCoin dn price]).
Proof.
  intros Hm H. destruct (step_mint_payment _ _ _ _ _ _ _ _ Hm H) as (price & dn & H1 & H2 & _).
  exists price, dn. split; [ exact H1 | ]. apply may_pay_ok_shape in H2. exact H2.
Qed.

(* contrapositive: anything else is rejected *)
Theorem mint_rejects_inexact vr s e fp wv o price dn :
  is_mint_op o = true -> mint_price s fp wv (is_airdrop o) = Ok (price, dn) ->
  ~ ((e_funds e = [] /\ price = 0) \/ e_funds e = [mkCoin dn price]) ->
  step vr s e fp wv o = Err.
Proof.
  intros Hm Hp Hn. destruct (step vr s e fp wv o) as [[s' ms]|] eqn:H; [ exfalso | reflexivity ].
  destruct (mint_ok_exact_funds _ _ _ _ _ _ _ _ Hm H) as (p & d & H1 & H2).
  rewrite Hp in H1. inv H1. exact (Hn H2).
Qed.

(* ---- sums ---- *)
Lemma sum_out_app a b : sum_out (a ++ b) = sum_out a + sum_out b.
Proof. unfold sum_out. induction a as [|m r IH]; cbn [fold_right app]; [ reflexivity | ]. rewrite IH. lia. Qed.

Lemma sum_fee_part featured dn fee : sum_out (fee_part featured dn fee) = fee.
Proof.
  unfold fee_part. destruct (fee =? 0) eqn:E.
  - apply N.eqb_eq in E. subst. reflexivity.
  - cbn [sum_out fold_right bmsg_amount]. pose proof (liq_part_le featured fee). lia.
Qed.

Lemma sum_seller_part s adm dn price fee :
  fee <= price -> sum_out (seller_part s adm dn price fee) = if adm then 0 else price - fee.
Proof.
  intros Hle. unfold seller_part. destruct adm; [ reflexivity | ].
  destruct (price - fee =? 0) eqn:E; cbn [sum_out fold_right bmsg_amount].
  - apply N.eqb_eq in E. lia.
  - lia.
Qed.

Theorem mint_conservation vr s e fp wv o s' ms :
  is_mint_op o = true -> step vr s e fp wv o = Ok (s', ms) ->
  exists price dn,
    mint_price s fp wv (is_airdrop o) = Ok (price, dn) /\
    sum_out (bank_of ms) = if is_airdrop o then price * fp_airdrop_fee_bps fp / 10000 else price.
Proof.
  intros Hm H. destruct (step_mint_payment _ _ _ _ _ _ _ _ Hm H) as (price & dn & H1 & H2 & H3 & H4 & _).
  exists price, dn. split; [ exact H1 | ]. rewrite H3, sum_out_app, sum_fee_part.
  destruct (is_airdrop o) eqn:Ea.
  - cbn [fee_bps seller_part sum_out fold_right]. lia.
  - specialize (H4 eq_refl). rewrite sum_seller_part by exact H4. lia.
Qed.

(* ---------- the bank ---------- *)
Lemma bal_get_set b a d v a' d' :
  bal_get (bal_set b a d v) a' d' = if (a' =? a) && (d' =? d) then v else bal_get b a' d'.
Proof.
  induction b as [|[[k dd] w] r IH]; cbn [bal_set bal_get].
  - rewrite (N.eqb_sym a a'), (N.eqb_sym d d'). destruct ((a' =? a) && (d' =? d)); reflexivity.
  - destruct ((k =? a) && (dd =? d)) eqn:E1; cbn [bal_get].
    + apply andb_prop in E1. destruct E1 as [E1a E1d]. apply N.eqb_eq in E1a, E1d. subst k dd.
      rewrite (N.eqb_sym a a'), (N.eqb_sym d d'). destruct ((a' =? a) && (d' =? d)); reflexivity.
    + rewrite IH. destruct ((k =? a') && (dd =? d')) eqn:E2; [ | reflexivity ].
      destruct ((a' =? a) && (d' =? d)) eqn:E3; [ | reflexivity ]. exfalso. lia.
Qed.

(* sum of everything held in one denom, all accounts (A_BURNED included) *)
Fixpoint total (b : bal) (d : denom) : N :=
  match b with
  | [] => 0
  | (_, dd, v) :: r => (if dd =? d then v else 0) + total r d
  end.

Lemma total_set b a d v d' :
  total (bal_set b a d v) d' + (if d =? d' then bal_get b a d else 0)
  = total b d' + (if d =? d' then v else 0).
Proof.
  induction b as [|[[k dd] w] r IH]; cbn [bal_set bal_get total].
  - case_ifs; lia.
  - destruct ((k =? a) && (dd =? d)) eqn:E1; cbn [total].
    + apply andb_prop in E1. destruct E1 as [E1a E1d]. apply N.eqb_eq in E1a, E1d. subst k dd. case_ifs; lia.
    + case_ifs; lia.
Qed.

Lemma transfer_get b from to d x b' :
  transfer b from to d x = Ok b' ->
  forall a dd,
    bal_get b' a dd + (if (a =? from) && (dd =? d) then x else 0)
    = bal_get b a dd + (if (a =? to) && (dd =? d) then x else 0).
Proof.
  unfold transfer, bal_sub, bal_add. intros H a dd.
  destruct (x =? 0); [ discriminate | ].
  destruct (bal_get b from d <? x) eqn:El; cbn [bind] in H; [ discriminate | ]. inv H.
  apply N.ltb_ge in El.
  rewrite !bal_get_set.
  case_ifs; eqs; lia.
Qed.

Lemma transfer_total b from to d x b' :
  transfer b from to d x = Ok b' -> forall dd, total b' dd = total b dd.
Proof.
  unfold transfer, bal_sub, bal_add. intros H dd.
  destruct (x =? 0); [ discriminate | ].
  destruct (bal_get b from d <? x) eqn:El; cbn [bind] in H; [ discriminate | ]. inv H.
  apply N.ltb_ge in El.
  pose proof (total_set b from d (bal_get b from d - x) dd) as T1.
  pose proof (total_set (bal_set b from d (bal_get b from d - x)) to d
                        (bal_get (bal_set b from d (bal_get b from d - x)) to d + x) dd) as T2.
  destruct (d =? dd); lia.
Qed.

Lemma transfer_nonzero b from to d x b' : transfer b from to d x = Ok b' -> x <> 0.
Proof. unfold transfer. destruct (x =? 0) eqn:E; [ discriminate | ]. intros _. apply N.eqb_neq. exact E. Qed.

(* what a list of messages credits to (a, d), and what it takes from the emitting contract in d *)
Definition credit (m : bmsg) (a : addr) (d : denom) : N :=
  match m with
  | Send to dd x => if (a =? to) && (d =? dd) then x else 0
  | Burn dd x => if (a =? A_BURNED) && (d =? dd) then x else 0
  | FundPool _ dd x => if (a =? A_FAIRBURN_POOL) && (d =? dd) then x else 0
  | OtherMsg _ => 0
  end.
Definition debit (m : bmsg) (d : denom) : N :=
  match m with
  | Send _ dd x | Burn dd x | FundPool _ dd x => if d =? dd then x else 0
  | OtherMsg _ => 0
  end.
Fixpoint credits (ms : list bmsg) (a : addr) (d : denom) : N :=
  match ms with [] => 0 | m :: r => credit m a d + credits r a d end.
Fixpoint debits (ms : list bmsg) (d : denom) : N :=
  match ms with [] => 0 | m :: r => debit m d + debits r d end.
Fixpoint paid (fs : list coin) (d : denom) : N :=
  match fs with [] => 0 | c :: r => (if d =? c_denom c then c_amount c else 0) + paid r d end.

Lemma apply_bmsg_get self b m b' :
  apply_bmsg self b m = Ok b' ->
  forall a d, bal_get b' a d + (if a =? self then debit m d else 0) = bal_get b a d + credit m a d.
Proof.
  intros H a d. destruct m as [to dd x|dd x|sn dd x|tag]; cbn [apply_bmsg] in H; cbn [debit credit].
  - pose proof (transfer_get _ _ _ _ _ _ H a d) as T.
    destruct (a =? self) eqn:E1; destruct (d =? dd) eqn:E2; destruct (a =? to) eqn:E3;
      cbn [andb] in *; rewrite ?E2 in T; cbn [andb] in T; lia.
  - pose proof (transfer_get _ _ _ _ _ _ H a d) as T.
    destruct (a =? self) eqn:E1; destruct (d =? dd) eqn:E2; destruct (a =? A_BURNED) eqn:E3;
      cbn [andb] in *; rewrite ?E2 in T; cbn [andb] in T; lia.
  - destruct (sn =? self); [ | discriminate ].
    pose proof (transfer_get _ _ _ _ _ _ H a d) as T.
    destruct (a =? self) eqn:E1; destruct (d =? dd) eqn:E2; destruct (a =? A_FAIRBURN_POOL) eqn:E3;
      cbn [andb] in *; rewrite ?E2 in T; cbn [andb] in T; lia.
  - discriminate.
Qed.

Lemma apply_bmsg_total self b m b' : apply_bmsg self b m = Ok b' -> forall d, total b' d = total b d.
Proof.
  intros H d. destruct m as [to dd x|dd x|sn dd x|tag]; cbn [apply_bmsg] in H.
  - eapply transfer_total; eauto.
  - eapply transfer_total; eauto.
  - destruct (sn =? self); [ eapply transfer_total; eauto | discriminate ].
  - discriminate.
Qed.

Lemma apply_bmsgs_get self ms : forall b b',
  apply_bmsgs self b ms = Ok b' ->
  forall a d, bal_get b' a d + (if a =? self then debits ms d else 0) = bal_get b a d + credits ms a d.
Proof.
  induction ms as [|m r IH]; intros b b' H a d; cbn [apply_bmsgs debits credits] in *.
  - inv H. destruct (a =? self); lia.
  - bind_in H b1 H1. pose proof (apply_bmsg_get _ _ _ _ H1 a d) as T1. pose proof (IH _ _ H a d) as T2.
    destruct (a =? self); lia.
Qed.

Lemma apply_bmsgs_total self ms : forall b b',
  apply_bmsgs self b ms = Ok b' -> forall d, total b' d = total b d.
Proof.
  induction ms as [|m r IH]; intros b b' H d; cbn [apply_bmsgs] in H.
  - inv H. reflexivity.
  - bind_in H b1 H1. rewrite (IH _ _ H d). eapply apply_bmsg_total; eauto.
Qed.

Lemma attach_get from to fs : forall b b',
  attach b from to fs = Ok b' ->
  forall a d, bal_get b' a d + (if a =? from then paid fs d else 0) = bal_get b a d + (if a =? to then paid fs d else 0).
Proof.
  induction fs as [|c r IH]; intros b b' H a d; cbn [attach paid] in *.
  - inv H. destruct (a =? from), (a =? to); lia.
  - bind_in H b1 H1. pose proof (transfer_get _ _ _ _ _ _ H1 a d) as T1. pose proof (IH _ _ H a d) as T2.
    destruct (a =? from) eqn:E1; destruct (a =? to) eqn:E2; destruct (d =? c_denom c) eqn:E3;
      cbn [andb] in *; lia.
Qed.

Lemma attach_total from to fs : forall b b',
  attach b from to fs = Ok b' -> forall d, total b' d = total b d.
Proof.
  induction fs as [|c r IH]; intros b b' H d; cbn [attach] in H.
  - inv H. reflexivity.
  - bind_in H b1 H1. rewrite (IH _ _ H d). eapply transfer_total; eauto.
Qed.

(* zero-amount coins cannot be attached; zero-amount sends abort the transaction *)
Lemma attach_nonzero from to fs : forall b b',
  attach b from to fs = Ok b' -> forall c, In c fs -> c_amount c <> 0.
Proof.
  induction fs as [|c0 r IH]; intros b b' H c Hin; cbn [attach] in H; [ contradiction | ].
  bind_in H b1 H1. destruct Hin as [<-|Hin]; [ eapply transfer_nonzero; eauto | eapply IH; eauto ].
Qed.

Lemma apply_bmsgs_zero_send self ms to d : forall b,
  In (Send to d 0) ms -> apply_bmsgs self b ms = Err.
Proof.
  induction ms as [|m r IH]; intros b Hin; [ contradiction | ]. cbn [apply_bmsgs].
  destruct Hin as [->|Hin].
  - cbn [apply_bmsg]. unfold transfer. rewrite N.eqb_refl. reflexivity.
  - destruct (apply_bmsg self b m); cbn [bind]; [ apply IH; exact Hin | reflexivity ].
Qed.

(* ---------- the world step: every balance, for every op ---------- *)
Theorem world_step_balances vr s b st s' b' ms :
  world_step vr s b st = Ok (s', b', ms) ->
  step vr s (st_env st) (st_fp st) (st_wv st) (st_op st) = Ok (s', ms) /\
  (forall c, In c (e_funds (st_env st)) -> c_amount c <> 0) /\
  (forall a d,
      bal_get b' a d
      + (if a =? e_sender (st_env st) then paid (e_funds (st_env st)) d else 0)
      + (if a =? e_contract (st_env st) then debits (bank_of ms) d else 0)
      = bal_get b a d
        + (if a =? e_contract (st_env st) then paid (e_funds (st_env st)) d else 0)
        + credits (bank_of ms) a d) /\
  (forall d, total b' d = total b d).
Proof.
  unfold world_step. intros H.
  bind_in H b1 Hat. bind_in H r Hst. destruct r as [s1 ms1]. bind_in H b2 Hap. inv H.
  split; [ exact Hst | ]. split; [ eapply attach_nonzero; eauto | ]. split.
  - intros a d. pose proof (attach_get _ _ _ _ _ Hat a d) as T1.
    pose proof (apply_bmsgs_get _ _ _ _ Hap a d) as T2.
    destruct (a =? e_sender (st_env st)); destruct (a =? e_contract (st_env st)); lia.
  - intros d. rewrite (apply_bmsgs_total _ _ _ _ Hap d). eapply attach_total; eauto.
Qed.

(* a failed call leaves state and balances as they were: structural in world_step (it
   returns no state on Err; SaleCorr.run_steps continues with the old (s, b)) *)
Definition world_apply (vr : variant) (s : vstate) (b : bal) (st : sstep) : vstate * bal :=
  match world_step vr s b st with Ok (s', b', _) => (s', b') | Err => (s, b) end.

Lemma world_err_unchanged vr s b st : world_step vr s b st = Err -> world_apply vr s b st = (s, b).
Proof. unfold world_apply. intros ->. reflexivity. Qed.

Lemma run_steps_err_keeps vr accts s b st rest i :
  world_step vr s b st = Err ->
  run_steps vr accts s b (IStep st :: rest) i = (s, b, Some i) \/
  run_steps vr accts s b (IStep st :: rest) i = run_steps vr accts s b rest (i + 1).
Proof.
  intros H. cbn [run_steps]. rewrite H. destruct (st_ok st); [ left; reflexivity | ].
  match goal with |- context [if ?c then _ else _] => destruct c end; [ right | left ]; reflexivity.
Qed.

(* ---------- world level for mints ---------- *)
Lemma paid_single dn price d : paid [mkCoin dn price] d = if d =? dn then price else 0.
Proof. cbn [paid c_denom c_amount]. lia. Qed.

Lemma credits_app a b x d : credits (a ++ b) x d = credits a x d + credits b x d.
Proof. induction a as [|m r IH]; cbn [credits app]; lia. Qed.
Lemma debits_app a b d : debits (a ++ b) d = debits a d + debits b d.
Proof. induction a as [|m r IH]; cbn [debits app]; lia. Qed.

(* the world-level facts every successful mint satisfies, with the message list explicit *)
Theorem world_mint vr s b st s' b' ms :
  is_mint_op (st_op st) = true ->
  world_step vr s b st = Ok (s', b', ms) ->
  let e := st_env st in let air := is_airdrop (st_op st) in
  exists price dn,
    mint_price s (st_fp st) (st_wv st) air = Ok (price, dn) /\
    let fee := price * fee_bps (st_fp st) air / 10000 in
    (* exact funds; a zero price means nothing attached *)
    e_funds e = (if price =? 0 then [] else [mkCoin dn price]) /\
    (air = false -> fee <= price) /\
    (air = true -> e_sender e = s_admin s) /\
    bank_of ms = fee_part (v_featured vr) dn fee ++ seller_part s air dn price fee /\
    (forall a d,
        bal_get b' a d
        + (if (a =? e_sender e) && (d =? dn) then price else 0)
        + (if (a =? e_contract e) && (d =? dn) then (if air then fee else price) else 0)
        = bal_get b a d
          + (if (a =? e_contract e) && (d =? dn) then price else 0)
          + credits (bank_of ms) a d) /\
    (forall d, total b' d = total b d).
Proof.
  intros Hm H e air.
  destruct (world_step_balances _ _ _ _ _ _ _ H) as (Hst & Hnz & Hbal & Htot).
  destruct (step_mint_payment _ _ _ _ _ _ _ _ Hm Hst) as (price & dn & H1 & H2 & H3 & H4 & H5).
  fold e in Hnz, Hbal, H2, H5. fold air in H1, H3, H4, H5.
  exists price, dn. split; [ exact H1 | ]. cbv zeta.
  set (fee := price * fee_bps (st_fp st) air / 10000) in *.
  assert (Hf : e_funds e = (if price =? 0 then [] else [mkCoin dn price])).
  { apply may_pay_ok_shape in H2. destruct H2 as [[Hf Hp]|Hf].
    - subst price. rewrite Hf. reflexivity.
    - destruct (price =? 0) eqn:E; [ | exact Hf ].
      apply N.eqb_eq in E. exfalso. apply (Hnz (mkCoin dn price)); [ rewrite Hf; left; reflexivity | exact E ]. }
  split; [ exact Hf | ]. split; [ exact H4 | ]. split; [ exact H5 | ]. split; [ exact H3 | ].
  split; [ | exact Htot ].
  intros a d. specialize (Hbal a d).
  assert (Hpaid : paid (e_funds e) d = if d =? dn then price else 0).
  { rewrite Hf. destruct (price =? 0) eqn:E.
    - apply N.eqb_eq in E. subst price. cbn [paid]. destruct (d =? dn); reflexivity.
    - apply paid_single. }
  assert (Hdeb : debits (bank_of ms) d = if d =? dn then (if air then fee else price) else 0).
  { rewrite H3, debits_app. unfold fee_part, seller_part.
    pose proof (liq_part_le (v_featured vr) fee) as Hl.
    destruct (fee =? 0) eqn:Ef; destruct air eqn:Ea; cbn [debits debit app].
    - destruct (d =? dn); lia.
    - specialize (H4 eq_refl). destruct (price - fee =? 0) eqn:Es; cbn [debits debit]; destruct (d =? dn); lia.
    - destruct (d =? dn); lia.
    - specialize (H4 eq_refl). destruct (price - fee =? 0) eqn:Es; cbn [debits debit]; destruct (d =? dn); lia. }
  rewrite Hpaid, Hdeb in Hbal.
  destruct (a =? e_sender e); destruct (a =? e_contract e); destruct (d =? dn); cbn [andb]; lia.
Qed.

(* credits of the two explicit parts *)
Lemma credits_fee_part featured dn fee a d :
  credits (fee_part featured dn fee) a d =
  (if (a =? A_LIQUIDITY_DAO) && (d =? dn) then liq_part featured fee else 0)
  + (if (a =? A_LAUNCHPAD_DAO) && (d =? dn) then fee - liq_part featured fee else 0).
Proof.
  unfold fee_part. destruct (fee =? 0) eqn:E.
  - apply N.eqb_eq in E. subst fee. assert (liq_part featured 0 = 0) by (destruct featured; reflexivity).
    cbn [credits]. destruct ((a =? A_LIQUIDITY_DAO) && (d =? dn)); destruct ((a =? A_LAUNCHPAD_DAO) && (d =? dn)); lia.
  - cbn [credits credit]. lia.
Qed.

Lemma credits_seller_part s air dn price fee a d :
  credits (seller_part s air dn price fee) a d =
  if air then 0 else if (a =? seller_of s) && (d =? dn) then price - fee else 0.
Proof.
  unfold seller_part. destruct air; [ reflexivity | ].
  destruct (price - fee =? 0) eqn:E; cbn [credits credit].
  - apply N.eqb_eq in E. rewrite E. destruct ((a =? seller_of s) && (d =? dn)); reflexivity.
  - lia.
Qed.

(* the closed balance equation of a successful mint: every account, every denom *)
Theorem world_mint_equation vr s b st s' b' ms :
  is_mint_op (st_op st) = true ->
  world_step vr s b st = Ok (s', b', ms) ->
  let e := st_env st in let air := is_airdrop (st_op st) in
  exists price dn,
    mint_price s (st_fp st) (st_wv st) air = Ok (price, dn) /\
    let fee := price * fee_bps (st_fp st) air / 10000 in
    let liq := liq_part (v_featured vr) fee in
    (air = false -> fee <= price) /\ liq <= fee /\
    forall a d,
      bal_get b' a d
      + (if (a =? e_sender e) && (d =? dn) then price else 0)
      + (if (a =? e_contract e) && (d =? dn) then (if air then fee else price) else 0)
      = bal_get b a d
        + (if (a =? e_contract e) && (d =? dn) then price else 0)
        + (if (a =? A_LIQUIDITY_DAO) && (d =? dn) then liq else 0)
        + (if (a =? A_LAUNCHPAD_DAO) && (d =? dn) then fee - liq else 0)
        + (if air then 0 else if (a =? seller_of s) && (d =? dn) then price - fee else 0).
Proof.
  intros Hm H e air.
  destruct (world_mint _ _ _ _ _ _ _ Hm H) as (price & dn & H1 & H2).
  cbv zeta in H2. fold e in H2. fold air in H1, H2.
  destruct H2 as (_ & H4 & _ & H3 & Hbal & _).
  exists price, dn. split; [ exact H1 | ]. cbv zeta.
  split; [ exact H4 | ]. split; [ apply liq_part_le | ].
  intros a d. specialize (Hbal a d).
  rewrite H3, credits_app, credits_fee_part, credits_seller_part in Hbal. lia.
Qed.

(* the zero-amount-send consequence: when the fee in force is exactly 1 the launchpad
   DAO part is 0, the bank rejects the send, and the whole mint fails (a failure, which
   the property allows: "succeeds only if") *)
Theorem mint_with_fee_one_fails vr s b st price dn :
  is_mint_op (st_op st) = true ->
  mint_price s (st_fp st) (st_wv st) (is_airdrop (st_op st)) = Ok (price, dn) ->
  price * fee_bps (st_fp st) (is_airdrop (st_op st)) / 10000 = 1 ->
  world_step vr s b st = Err.
Proof.
  intros Hm Hp Hfee.
  destruct (world_step vr s b st) as [[[s' b'] ms]|] eqn:H; [ exfalso | reflexivity ].
  pose proof H as H0. unfold world_step in H0.
  bind_in H0 b1 Hat. bind_in H0 r Hst. destruct r as [s1 ms1]. bind_in H0 b2 Hap. inv H0.
  destruct (step_mint_payment _ _ _ _ _ _ _ _ Hm Hst) as (p & d & H1 & _ & H3 & _).
  rewrite Hp in H1. inv H1. rewrite Hfee in H3.
  assert (Hz : In (Send A_LAUNCHPAD_DAO d 0) (bank_of ms)).
  { rewrite H3. apply in_or_app. left. unfold fee_part. cbn [N.eqb].
    replace (liq_part (v_featured vr) 1) with 1 by (destruct (v_featured vr); reflexivity).
    right. left. reflexivity. }
  rewrite (apply_bmsgs_zero_send _ _ _ _ _ Hz) in Hap. discriminate.
Qed.

(* ---------- readable corollaries: the five parties are different accounts ---------- *)
Ltac nodup H := repeat (apply NoDup_cons_iff in H; let Hn := fresh "Hn" in destruct H as [Hn H]); cbn [In] in *.
Ltac split_nots := repeat match goal with
  | H : ~ (_ \/ _) |- _ => apply Decidable.not_or in H; let H1 := fresh "Hne" in destruct H as [H1 H]
  | H : ~ False |- _ => clear H
  end.
Ltac neq_facts := repeat match goal with
  | H : ?x <> ?y |- _ =>
      let E1 := fresh "Ef" in let E2 := fresh "Ef" in
      assert (E1 : (x =? y) = false) by (apply N.eqb_neq; exact H);
      assert (E2 : (y =? x) = false) by (apply N.eqb_neq; intro; apply H; symmetry; assumption);
      clear H
  end.
Ltac simp_eqb H :=
  repeat (match goal with E : (_ =? _) = false |- _ => progress (rewrite E in H) end);
  rewrite ?N.eqb_refl in H; cbn [andb] in H.
Ltac clear_eqb := repeat match goal with E : (_ =? _) = false |- _ => clear E end.
Ltac at_slot Heq a d := specialize (Heq a d); simp_eqb Heq; clear_eqb; lia.
Ltac elsewhere Heq a d dn Hnot :=
  specialize (Heq a d); destruct (d =? dn) eqn:Ed; rewrite ?Ed in Heq;
  [ apply N.eqb_eq in Ed; destruct Hnot as [Hnot|Hnot]; [ contradiction | ];
    cbn [In] in Hnot; split_nots; neq_facts; simp_eqb Heq; clear_eqb; lia
  | rewrite ?andb_false_r in Heq; clear_eqb; lia ].

(* public / whitelist mint *)
Theorem world_nonadmin_mint_distinct vr s b st s' b' ms :
  is_mint_op (st_op st) = true -> is_airdrop (st_op st) = false ->
  world_step vr s b st = Ok (s', b', ms) ->
  NoDup [e_sender (st_env st); e_contract (st_env st); seller_of s; A_LIQUIDITY_DAO; A_LAUNCHPAD_DAO] ->
  exists price dn,
    mint_price s (st_fp st) (st_wv st) false = Ok (price, dn) /\
    price * fp_mint_fee_bps (st_fp st) / 10000 <= price /\
    liq_part (v_featured vr) (price * fp_mint_fee_bps (st_fp st) / 10000) <= price * fp_mint_fee_bps (st_fp st) / 10000 /\
    bal_get b' (e_sender (st_env st)) dn + price = bal_get b (e_sender (st_env st)) dn /\
    bal_get b' (e_contract (st_env st)) dn = bal_get b (e_contract (st_env st)) dn /\
    bal_get b' (seller_of s) dn = bal_get b (seller_of s) dn + (price - price * fp_mint_fee_bps (st_fp st) / 10000) /\
    bal_get b' A_LIQUIDITY_DAO dn
      = bal_get b A_LIQUIDITY_DAO dn + liq_part (v_featured vr) (price * fp_mint_fee_bps (st_fp st) / 10000) /\
    bal_get b' A_LAUNCHPAD_DAO dn
      = bal_get b A_LAUNCHPAD_DAO dn
        + (price * fp_mint_fee_bps (st_fp st) / 10000 - liq_part (v_featured vr) (price * fp_mint_fee_bps (st_fp st) / 10000)) /\
    (forall a d,
        d <> dn \/ ~ In a [e_sender (st_env st); e_contract (st_env st); seller_of s; A_LIQUIDITY_DAO; A_LAUNCHPAD_DAO] ->
        bal_get b' a d = bal_get b a d).
Proof.
  intros Hm Ha H Hnd.
  destruct (world_mint_equation _ _ _ _ _ _ _ Hm H) as (price & dn & H1 & H2).
  cbv zeta in H2. rewrite Ha in H1, H2. cbn [fee_bps] in H2.
  exists price, dn. split; [ exact H1 | ].
  set (fee := price * fp_mint_fee_bps (st_fp st) / 10000) in *. clearbody fee.
  set (liq := liq_part (v_featured vr) fee) in *. clearbody liq.
  destruct H2 as (Hle & Hll & Heq). specialize (Hle eq_refl).
  set (payer := e_sender (st_env st)) in *. clearbody payer.
  set (minter := e_contract (st_env st)) in *. clearbody minter.
  set (seller := seller_of s) in *. clearbody seller.
  nodup Hnd. split_nots. neq_facts.
  split; [ exact Hle | ]. split; [ exact Hll | ].
  split; [ at_slot Heq payer dn | ].
  split; [ at_slot Heq minter dn | ].
  split; [ at_slot Heq seller dn | ].
  split; [ at_slot Heq A_LIQUIDITY_DAO dn | ].
  split; [ at_slot Heq A_LAUNCHPAD_DAO dn | ].
  intros a d Hnot. elsewhere Heq a d dn Hnot.
Qed.

(* airdrop (MintTo / MintFor): the payer is the admin; nothing is sent to a seller *)
Theorem world_airdrop_distinct vr s b st s' b' ms :
  is_airdrop (st_op st) = true ->
  world_step vr s b st = Ok (s', b', ms) ->
  NoDup [e_sender (st_env st); e_contract (st_env st); A_LIQUIDITY_DAO; A_LAUNCHPAD_DAO] ->
  e_sender (st_env st) = s_admin s /\
  mint_price s (st_fp st) (st_wv st) true = Ok (fp_airdrop_price (st_fp st), fp_airdrop_denom (st_fp st)) /\
  liq_part (v_featured vr) (fp_airdrop_price (st_fp st) * fp_airdrop_fee_bps (st_fp st) / 10000)
    <= fp_airdrop_price (st_fp st) * fp_airdrop_fee_bps (st_fp st) / 10000 /\
  bal_get b' (e_sender (st_env st)) (fp_airdrop_denom (st_fp st)) + fp_airdrop_price (st_fp st)
    = bal_get b (e_sender (st_env st)) (fp_airdrop_denom (st_fp st)) /\
  bal_get b' (e_contract (st_env st)) (fp_airdrop_denom (st_fp st))
    + fp_airdrop_price (st_fp st) * fp_airdrop_fee_bps (st_fp st) / 10000
    = bal_get b (e_contract (st_env st)) (fp_airdrop_denom (st_fp st)) + fp_airdrop_price (st_fp st) /\
  bal_get b' A_LIQUIDITY_DAO (fp_airdrop_denom (st_fp st))
    = bal_get b A_LIQUIDITY_DAO (fp_airdrop_denom (st_fp st))
      + liq_part (v_featured vr) (fp_airdrop_price (st_fp st) * fp_airdrop_fee_bps (st_fp st) / 10000) /\
  bal_get b' A_LAUNCHPAD_DAO (fp_airdrop_denom (st_fp st))
    = bal_get b A_LAUNCHPAD_DAO (fp_airdrop_denom (st_fp st))
      + (fp_airdrop_price (st_fp st) * fp_airdrop_fee_bps (st_fp st) / 10000
         - liq_part (v_featured vr) (fp_airdrop_price (st_fp st) * fp_airdrop_fee_bps (st_fp st) / 10000)) /\
  (forall a d,
      d <> fp_airdrop_denom (st_fp st) \/
      ~ In a [e_sender (st_env st); e_contract (st_env st); A_LIQUIDITY_DAO; A_LAUNCHPAD_DAO] ->
      bal_get b' a d = bal_get b a d).
Proof.
  intros Ha H Hnd.
  assert (Hm : is_mint_op (st_op st) = true) by (destruct (st_op st); try discriminate Ha; reflexivity).
  destruct (world_mint _ _ _ _ _ _ _ Hm H) as (price0 & dn0 & _ & _ & _ & Hadm & _).
  rewrite Ha in Hadm. specialize (Hadm eq_refl).
  destruct (world_mint_equation _ _ _ _ _ _ _ Hm H) as (price & dn & H1 & H2).
  cbv zeta in H2. rewrite Ha in H1, H2. cbn [fee_bps] in H2.
  cbn [mint_price] in H1. inv H1.
  split; [ exact Hadm | ]. split; [ reflexivity | ].
  set (price := fp_airdrop_price (st_fp st)) in *.
  set (dn := fp_airdrop_denom (st_fp st)) in *. clearbody dn.
  set (fee := price * fp_airdrop_fee_bps (st_fp st) / 10000) in *. clearbody fee. clearbody price.
  set (liq := liq_part (v_featured vr) fee) in *. clearbody liq.
  destruct H2 as (_ & Hll & Heq).
  set (payer := e_sender (st_env st)) in *. clearbody payer.
  set (minter := e_contract (st_env st)) in *. clearbody minter.
  nodup Hnd. split_nots. neq_facts.
  split; [ exact Hll | ].
  split; [ at_slot Heq payer dn | ].
  split; [ at_slot Heq minter dn | ].
  split; [ at_slot Heq A_LIQUIDITY_DAO dn | ].
  split; [ at_slot Heq A_LAUNCHPAD_DAO dn | ].
  intros a d Hnot. elsewhere Heq a d dn Hnot.
Qed.

(* outside the known class (nothing left after the fee: price = 0 or fee = price) the
   minter keeps nothing on an airdrop either *)
Corollary world_airdrop_outside_known vr s b st s' b' ms :
  is_airdrop (st_op st) = true ->
  world_step vr s b st = Ok (s', b', ms) ->
  NoDup [e_sender (st_env st); e_contract (st_env st); A_LIQUIDITY_DAO; A_LAUNCHPAD_DAO] ->
  fp_airdrop_price (st_fp st) * fp_airdrop_fee_bps (st_fp st) / 10000 = fp_airdrop_price (st_fp st) ->
  bal_get b' (e_contract (st_env st)) (fp_airdrop_denom (st_fp st))
  = bal_get b (e_contract (st_env st)) (fp_airdrop_denom (st_fp st)).
Proof.
  intros Ha H Hnd Hfee.
  destruct (world_airdrop_distinct _ _ _ _ _ _ _ Ha H Hnd) as (_ & _ & _ & _ & Hmin & _).
  rewrite Hfee in Hmin. lia.
Qed.

(* inside it, the remainder stays in the minter: the recorded defect, for every input *)
Corollary world_airdrop_remainder_stranded vr s b st s' b' ms :
  is_airdrop (st_op st) = true ->
  world_step vr s b st = Ok (s', b', ms) ->
  NoDup [e_sender (st_env st); e_contract (st_env st); A_LIQUIDITY_DAO; A_LAUNCHPAD_DAO] ->
  fp_airdrop_price (st_fp st) * fp_airdrop_fee_bps (st_fp st) / 10000 < fp_airdrop_price (st_fp st) ->
  bal_get b' (e_contract (st_env st)) (fp_airdrop_denom (st_fp st))
  = bal_get b (e_contract (st_env st)) (fp_airdrop_denom (st_fp st))
    + (fp_airdrop_price (st_fp st) - fp_airdrop_price (st_fp st) * fp_airdrop_fee_bps (st_fp st) / 10000) /\
  bal_get b (e_contract (st_env st)) (fp_airdrop_denom (st_fp st))
  < bal_get b' (e_contract (st_env st)) (fp_airdrop_denom (st_fp st)).
Proof.
  intros Ha H Hnd Hfee.
  destruct (world_airdrop_distinct _ _ _ _ _ _ _ Ha H Hnd) as (_ & _ & _ & _ & Hmin & _).
  set (fee := fp_airdrop_price (st_fp st) * fp_airdrop_fee_bps (st_fp st) / 10000) in *. clearbody fee.
  lia.
Qed.

Lemma world_mint_exact_funds vr s b st s' b' ms :
  is_mint_op (st_op st) = true ->
  world_step vr s b st = Ok (s', b', ms) ->
  exists price dn,
    mint_price s (st_fp st) (st_wv st) (is_airdrop (st_op st)) = Ok (price, dn) /\
    e_funds (st_env st) = (if price =? 0 then [] else [mkCoin dn price]).
Proof.
  intros Hm H.
  destruct (world_mint vr s b st s' b' ms Hm H) as (price & dn & H1 & H2 & _).
  exists price, dn. split; [ exact H1 | exact H2 ].
Qed.

Lemma liq_part_spelled featured fee :
  liq_part featured fee = (if featured then (fee + 7) / 8 else (fee + 4) / 5) /\ liq_part featured fee <= fee.
Proof. split; [ reflexivity | apply liq_part_le ]. Qed.
(* ---------- histories: nothing is created or lost, whatever is called ---------- *)
Definition world_run (vr : variant) (s : vstate) (b : bal) (steps : list sstep) : vstate * bal :=
  fold_left (fun sb st => world_apply vr (fst sb) (snd sb) st) steps (s, b).

Lemma world_apply_total vr s b st d : total (snd (world_apply vr s b st)) d = total b d.
Proof.
  unfold world_apply. destruct (world_step vr s b st) as [[[s' b'] ms]|] eqn:H; [ | reflexivity ].
  cbn [snd]. destruct (world_step_balances _ _ _ _ _ _ _ H) as (_ & _ & _ & Ht). apply Ht.
Qed.

Theorem world_run_total steps : forall vr s b d, total (snd (world_run vr s b steps)) d = total b d.
Proof.
  unfold world_run. induction steps as [|st r IH]; intros vr s b d; cbn [fold_left fst snd]; [ reflexivity | ].
  destruct (world_apply vr s b st) as [s1 b1] eqn:E.
  rewrite IH. pose proof (world_apply_total vr s b st d) as T. rewrite E in T. exact T.
Qed.

(* the bank part of any world step (vending, open-edition, base): attach, then apply *)
Lemma attach_apply_balances sender contract funds ms b b1 b2 :
  attach b sender contract funds = Ok b1 -> apply_bmsgs contract b1 ms = Ok b2 ->
  (forall c, In c funds -> c_amount c <> 0) /\
  (forall a d,
      bal_get b2 a d + (if a =? sender then paid funds d else 0) + (if a =? contract then debits ms d else 0)
      = bal_get b a d + (if a =? contract then paid funds d else 0) + credits ms a d) /\
  (forall d, total b2 d = total b d).
Proof.
  intros Hat Hap. split; [ eapply attach_nonzero; eauto | ]. split.
  - intros a d. pose proof (attach_get _ _ _ _ _ Hat a d) as T1.
    pose proof (apply_bmsgs_get _ _ _ _ Hap a d) as T2.
    destruct (a =? sender); destruct (a =? contract); lia.
  - intros d. rewrite (apply_bmsgs_total _ _ _ _ Hap d). eapply attach_total; eauto.
Qed.
