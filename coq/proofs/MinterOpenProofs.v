(* Supply facts of the open-edition and base minter models (C01 part 2) and generic step
   facts other sale-world properties can reuse:
   - ostep_mint / ostep_other: what one successful call does to the supply fields;
   - InvO: token_index = total_mint_count, minted ids = k, ..., 2, 1, and
     mintable + minted + burned = cap when a cap is stored;
   - histories: orun / otrace / osuccesses. *)
From LP Require Import Num Pay Sg1 MinterVending MinterOpen MinterVendingProofs.
From Coq Require Import ZArith Lia ZifyN ZifyBool.
Local Open Scope N_scope.

Definition is_mint_op (o : eop) : bool :=
  match o with EMint _ _ _ | EMintTo _ _ => true | _ => false end.

Definition dec_mintable (m : option N) : option N :=
  match m with Some k => Some (k - 1) | None => None end.

(* ---------- one successful _execute_mint ---------- *)
Lemma o_execute_mint_spec vr s e fp wv adm rcp isp s' ms :
  o_execute_mint vr s e fp wv adm rcp isp = Ok (s', ms) ->
  o_mintable s <> Some 0 /\
  nft_msgs ms = [(o_token_index s + 1, match rcp with Some r => r | None => e_sender e end)] /\
  o_token_index s' = o_token_index s + 1 /\
  o_total s' = o_total s + 1 /\
  o_minted s' = (o_token_index s + 1) :: o_minted s /\
  o_burned s' = o_burned s /\
  o_mintable s' = dec_mintable (o_mintable s).
Proof.
  unfold o_execute_mint. intros H.
  destruct (match o_mintable s with Some 0 => true | _ => false end) eqn:Em; [ discriminate | ].
  bind_in H pr Hpr. destruct pr as [amount dn].
  bind_in H payment Hpay.
  destruct (negb (payment =? amount)); [ discriminate | ].
  match type of H with (if ?c then _ else _) = _ => destruct c; [ discriminate | ] end.
  bind_in H fmsgs Hf. bind_in H tid Htid. bind_in H s1 Hs1. bind_in H total' Ht.
  bind_in H airdrops' Ha. bind_in H amt Hamt. inv H.
  unfold inc64 in Htid. destruct (U64_MAX <=? o_token_index s); inv Htid.
  unfold inc32 in Ht. destruct (U32_MAX <=? o_total s); inv Ht.
  split.
  { intro Z. rewrite Z in Em. discriminate. }
  split.
  { rewrite !nft_msgs_app, !nft_msgs_bank. cbn [nft_msgs app]. rewrite nft_msgs_bank. reflexivity. }
  cbn. repeat split; reflexivity.
Qed.

Theorem ostep_mint vr s e fp wv o s' ms :
  is_mint_op o = true -> ostep vr s e fp wv o = Ok (s', ms) ->
  o_mintable s <> Some 0 /\
  (exists owner, nft_msgs ms = [(o_token_index s + 1, owner)]) /\
  o_token_index s' = o_token_index s + 1 /\
  o_total s' = o_total s + 1 /\
  o_minted s' = (o_token_index s + 1) :: o_minted s /\
  o_burned s' = o_burned s /\
  o_mintable s' = dec_mintable (o_mintable s).
Proof.
  intros Hm H. destruct o; try discriminate Hm; cbn [ostep] in H; repeat step_hyp H;
    apply o_execute_mint_spec in H; destruct H as (A & B & C & D & E' & F & G);
    (split; [ exact A | split; [ eexists; exact B | auto ] ]).
Qed.

Theorem ostep_other vr s e fp wv o s' ms :
  is_mint_op o = false -> ostep vr s e fp wv o = Ok (s', ms) ->
  nft_msgs ms = [] /\
  o_token_index s' = o_token_index s /\ o_total s' = o_total s /\ o_minted s' = o_minted s /\
  ((o_mintable s' = o_mintable s /\ o_burned s' = o_burned s) \/
   (o = EBurnRemaining /\ exists m, o_mintable s = Some m /\ m <> 0 /\
                                    o_mintable s' = Some 0 /\ o_burned s' = o_burned s + m)).
Proof.
  intros Hm H. destruct o; try discriminate Hm; cbn [ostep] in H; repeat step_hyp H; inv H; cbn;
    try (repeat split; auto; left; split; reflexivity).
  (* burn-remaining *)
  repeat split; auto. right. split; [ reflexivity | ].
  match goal with Hq : (?m =? 0) = false |- _ => apply N.eqb_neq in Hq; exists m; repeat split; auto end.
Qed.

(* the user-facing form: which id a call hands out *)
Theorem o_mint_emits_next_id vr s e fp wv o s' ms t owner :
  ostep vr s e fp wv o = Ok (s', ms) -> In (t, owner) (nft_msgs ms) ->
  is_mint_op o = true /\ t = o_token_index s + 1 /\ nft_msgs ms = [(t, owner)] /\
  o_token_index s' = t /\ o_total s' = o_total s + 1.
Proof.
  intros H Hin. destruct (is_mint_op o) eqn:Hm.
  - destruct (ostep_mint _ _ _ _ _ _ _ _ Hm H) as (_ & [ow B] & C & D & _).
    rewrite B in Hin. destruct Hin as [Hin|[]]. inv Hin. auto.
  - destruct (ostep_other _ _ _ _ _ _ _ _ Hm H) as (B & _). rewrite B in Hin. contradiction.
Qed.

(* ---------- the supply invariant ---------- *)
Record InvO (cap : option N) (s : ostate) : Prop := mkInvO {
  io_total : o_total s = o_token_index s;
  io_minted : o_minted s = rev (seqN (o_token_index s));
  io_cap : match cap with
           | Some c => exists m, o_mintable s = Some m /\ m + o_token_index s + o_burned s = c
           | None => o_mintable s = None
           end
}.

Lemma InvO_spelled cap s :
  InvO cap s <->
  (o_total s = o_token_index s /\
   o_minted s = rev (map N.of_nat (seq 1 (N.to_nat (o_token_index s)))) /\
   match cap with
   | Some c => exists m, o_mintable s = Some m /\ m + o_token_index s + o_burned s = c
   | None => o_mintable s = None
   end).
Proof.
  split.
  - intros [A B C]. exact (conj A (conj B C)).
  - intros (A & B & C). exact (mkInvO cap s A B C).
Qed.

Lemma is_mint_op_spec o :
  is_mint_op o = true <-> match o with EMint _ _ _ | EMintTo _ _ => True | _ => False end.
Proof. destruct o; cbn; split; intros; try discriminate; try contradiction; auto. Qed.

Lemma seqN_succ n : seqN (n + 1) = seqN n ++ [n + 1].
Proof.
  unfold seqN. replace (N.to_nat (n + 1)) with (S (N.to_nat n)) by lia.
  rewrite seq_S, map_app. cbn [map]. do 2 f_equal. lia.
Qed.

Lemma rev_seqN_succ n : rev (seqN (n + 1)) = (n + 1) :: rev (seqN n).
Proof. rewrite seqN_succ, rev_app_distr. reflexivity. Qed.

Theorem ostep_inv cap vr s e fp wv o s' ms :
  InvO cap s -> ostep vr s e fp wv o = Ok (s', ms) -> InvO cap s'.
Proof.
  intros [It Im Ic] H. destruct (is_mint_op o) eqn:Hm.
  - destruct (ostep_mint _ _ _ _ _ _ _ _ Hm H) as (A & _ & C & D & E' & F & G).
    constructor.
    + lia.
    + rewrite E', C, Im. symmetry. apply rev_seqN_succ.
    + destruct cap as [c|].
      * destruct Ic as [m [M1 M2]]. rewrite M1 in G, A. cbn [dec_mintable] in G.
        assert (m <> 0) by (intro Z; apply A; rewrite Z; reflexivity).
        exists (m - 1). split; [ exact G | lia ].
      * rewrite Ic in G. exact G.
  - destruct (ostep_other _ _ _ _ _ _ _ _ Hm H) as (_ & C & D & E' & [[G F]|[_ [m (M1 & M0 & G & F)]]]).
    + constructor; [ lia | rewrite E', C; exact Im | ].
      destruct cap as [c|]; [ | congruence ].
      destruct Ic as [m [M1 M2]]. exists m. split; [ congruence | lia ].
    + constructor; [ lia | rewrite E', C; exact Im | ].
      destruct cap as [c|]; [ | congruence ].
      destruct Ic as [m0 [M1' M2]]. exists 0. split; [ exact G | ].
      assert (m0 = m) by congruence. lia.
Qed.

(* the state open-edition `instantiate` stores *)
Definition o_cap_at_creation (vr : ovariant) (num_tokens : option N) (factory_max : N) : option N :=
  match num_tokens with
  | Some n => Some n
  | None => if ov_flex vr then None else Some factory_max
  end.

Theorem o_init_inv vr admin payment num_tokens pal wl start end_ price dn factory_max trading :
  InvO (o_cap_at_creation vr num_tokens factory_max)
       (o_init vr admin payment num_tokens pal wl start end_ price dn factory_max trading).
Proof.
  constructor; cbn; [ reflexivity | reflexivity | ].
  unfold o_cap_at_creation. destruct num_tokens as [n|]; [ exists n; split; [ reflexivity | lia ] | ].
  destruct (ov_flex vr); [ reflexivity | exists factory_max; split; [ reflexivity | lia ] ].
Qed.

(* ---------- histories ---------- *)
Record ocall := mkOCall { oc_env : env; oc_fp : ofparams; oc_wv : option wlview; oc_op : eop }.

Definition o_apply (vr : ovariant) (s : ostate) (c : ocall) : ostate :=
  match ostep vr s (oc_env c) (oc_fp c) (oc_wv c) (oc_op c) with
  | Ok (s', _) => s'
  | Err => s                         (* a failed call leaves the state as it was *)
  end.
Definition orun (vr : ovariant) (s : ostate) (cs : list ocall) : ostate := fold_left (o_apply vr) cs s.

(* the (token id, owner) pairs handed to the collection by a history, oldest first *)
Fixpoint otrace (vr : ovariant) (s : ostate) (cs : list ocall) : list (N * addr) :=
  match cs with
  | [] => []
  | c :: r =>
      match ostep vr s (oc_env c) (oc_fp c) (oc_wv c) (oc_op c) with
      | Ok (s', ms) => nft_msgs ms ++ otrace vr s' r
      | Err => otrace vr s r
      end
  end.

(* the number of Mint / MintTo calls of a history that succeeded *)
Fixpoint osuccesses (vr : ovariant) (s : ostate) (cs : list ocall) : nat :=
  match cs with
  | [] => 0%nat
  | c :: r =>
      match ostep vr s (oc_env c) (oc_fp c) (oc_wv c) (oc_op c) with
      | Ok (s', _) => ((if is_mint_op (oc_op c) then 1 else 0) + osuccesses vr s' r)%nat
      | Err => osuccesses vr s r
      end
  end.

(* a+1, a+2, ..., a+n *)
Definition range1 (a : N) (n : nat) : list N := map (fun k => a + N.of_nat k) (seq 1 n).

Lemma range1_cons a n : range1 a (S n) = (a + 1) :: range1 (a + 1) n.
Proof.
  unfold range1. cbn [seq map]. f_equal.
  rewrite <- seq_shift, map_map. apply map_ext. intros k. lia.
Qed.

Lemma range1_from_zero n : range1 0 n = map N.of_nat (seq 1 n).
Proof. unfold range1. apply map_ext. intros k. lia. Qed.

Theorem orun_inv cap vr cs : forall s, InvO cap s -> InvO cap (orun vr s cs).
Proof.
  induction cs as [|c cs IH]; intros s I; cbn [orun fold_left]; [ exact I | ].
  apply IH. unfold o_apply.
  destruct (ostep vr s (oc_env c) (oc_fp c) (oc_wv c) (oc_op c)) as [[s' ms]|] eqn:E; [ | exact I ].
  eapply ostep_inv; eauto.
Qed.

Theorem otrace_length vr cs : forall s, length (otrace vr s cs) = osuccesses vr s cs.
Proof.
  induction cs as [|c cs IH]; intros s; cbn [otrace osuccesses]; [ reflexivity | ].
  destruct (ostep vr s (oc_env c) (oc_fp c) (oc_wv c) (oc_op c)) as [[s' ms]|] eqn:E; [ | apply IH ].
  rewrite app_length, IH. f_equal.
  destruct (is_mint_op (oc_op c)) eqn:Hm.
  - destruct (ostep_mint _ _ _ _ _ _ _ _ Hm E) as (_ & [ow B] & _). rewrite B. reflexivity.
  - destruct (ostep_other _ _ _ _ _ _ _ _ Hm E) as (B & _). rewrite B. reflexivity.
Qed.

Theorem otrace_ids vr cs : forall s,
  map fst (otrace vr s cs) = range1 (o_token_index s) (length (otrace vr s cs)).
Proof.
  induction cs as [|c cs IH]; intros s; cbn [otrace]; [ reflexivity | ].
  destruct (ostep vr s (oc_env c) (oc_fp c) (oc_wv c) (oc_op c)) as [[s' ms]|] eqn:E; [ | apply IH ].
  destruct (is_mint_op (oc_op c)) eqn:Hm.
  - destruct (ostep_mint _ _ _ _ _ _ _ _ Hm E) as (_ & [ow B] & C & _). rewrite B.
    cbn [app map fst length]. rewrite range1_cons, IH, C. reflexivity.
  - destruct (ostep_other _ _ _ _ _ _ _ _ Hm E) as (B & C & _). rewrite B. cbn [app]. rewrite IH, C. reflexivity.
Qed.

Theorem orun_index vr cs : forall s,
  o_token_index (orun vr s cs) = o_token_index s + N.of_nat (length (otrace vr s cs)).
Proof.
  induction cs as [|c cs IH]; intros s; cbn [orun fold_left otrace]; [ cbn; lia | ].
  change (fold_left (o_apply vr) cs (o_apply vr s c)) with (orun vr (o_apply vr s c) cs).
  rewrite IH. unfold o_apply.
  destruct (ostep vr s (oc_env c) (oc_fp c) (oc_wv c) (oc_op c)) as [[s' ms]|] eqn:E; [ | reflexivity ].
  rewrite app_length.
  destruct (is_mint_op (oc_op c)) eqn:Hm.
  - destruct (ostep_mint _ _ _ _ _ _ _ _ Hm E) as (_ & [ow B] & C & _). rewrite B, C. cbn [length]. lia.
  - destruct (ostep_other _ _ _ _ _ _ _ _ Hm E) as (B & C & _). rewrite B, C. cbn [length]. lia.
Qed.

(* ---------- corollaries in the words of the property ---------- *)
Theorem o_ids_are_1_2_3 vr cs s :
  o_token_index s = 0 ->
  map fst (otrace vr s cs) = map N.of_nat (seq 1 (osuccesses vr s cs)).
Proof. intros Z. rewrite otrace_ids, Z, range1_from_zero, otrace_length. reflexivity. Qed.

Theorem o_total_is_successes cap vr cs s :
  InvO cap s -> o_token_index s = 0 ->
  o_total (orun vr s cs) = N.of_nat (osuccesses vr s cs).
Proof.
  intros I Z. destruct (orun_inv cap vr cs s I) as [T _ _].
  rewrite T, orun_index, Z, otrace_length. lia.
Qed.

Theorem o_supply_within_cap c vr cs s :
  InvO (Some c) s -> o_token_index s = 0 ->
  N.of_nat (osuccesses vr s cs) <= c /\
  exists m, o_mintable (orun vr s cs) = Some m /\
            m + N.of_nat (osuccesses vr s cs) + o_burned (orun vr s cs) = c.
Proof.
  intros I Z. destruct (orun_inv (Some c) vr cs s I) as [_ _ [m [M1 M2]]].
  rewrite orun_index, Z, otrace_length in M2. split; [ lia | ]. exists m. split; [ exact M1 | lia ].
Qed.

(* a stored count of zero is final: nothing is minted, and the count stays zero *)
Lemma o_zero_step vr s e fp wv o s' ms :
  o_mintable s = Some 0 -> ostep vr s e fp wv o = Ok (s', ms) ->
  o_mintable s' = Some 0 /\ nft_msgs ms = [] /\ is_mint_op o = false.
Proof.
  intros Z H. destruct (is_mint_op o) eqn:Hm.
  - destruct (ostep_mint _ _ _ _ _ _ _ _ Hm H) as (A & _). contradiction.
  - destruct (ostep_other _ _ _ _ _ _ _ _ Hm H) as (B & _ & _ & _ & [[G _]|[_ [m (M1 & M0 & _)]]]).
    + rewrite G. auto.
    + rewrite Z in M1. inv M1. contradiction.
Qed.

Theorem o_mint_at_zero_fails vr s e fp wv o :
  o_mintable s = Some 0 -> is_mint_op o = true -> ostep vr s e fp wv o = Err.
Proof.
  intros Z Hm. destruct (ostep vr s e fp wv o) as [[s' ms]|] eqn:H; [ | reflexivity ].
  destruct (o_zero_step _ _ _ _ _ _ _ _ Z H) as (_ & _ & F). congruence.
Qed.

Theorem o_zero_is_forever vr cs : forall s,
  o_mintable s = Some 0 ->
  o_mintable (orun vr s cs) = Some 0 /\ otrace vr s cs = [] /\ osuccesses vr s cs = 0%nat.
Proof.
  induction cs as [|c cs IH]; intros s Z; cbn [orun fold_left otrace osuccesses]; [ auto | ].
  change (fold_left (o_apply vr) cs (o_apply vr s c)) with (orun vr (o_apply vr s c) cs).
  unfold o_apply.
  destruct (ostep vr s (oc_env c) (oc_fp c) (oc_wv c) (oc_op c)) as [[s' ms]|] eqn:E; [ | apply IH; exact Z ].
  destruct (o_zero_step _ _ _ _ _ _ _ _ Z E) as (Z' & B & F).
  destruct (IH s' Z') as (A1 & A2 & A3). rewrite B, F, A2, A3. auto.
Qed.

Theorem o_burn_remaining_spec vr s e fp wv s' ms :
  ostep vr s e fp wv EBurnRemaining = Ok (s', ms) ->
  (exists m, o_mintable s = Some m /\ m <> 0 /\ o_burned s' = o_burned s + m) /\
  o_mintable s' = Some 0 /\ nft_msgs ms = [] /\
  o_token_index s' = o_token_index s /\ o_total s' = o_total s /\ o_minted s' = o_minted s.
Proof.
  intros H. cbn [ostep] in H. repeat step_hyp H. inv H. cbn.
  match goal with Hq : (?m =? 0) = false |- _ => apply N.eqb_neq in Hq end.
  split; [ eexists; repeat split; eauto | repeat split; reflexivity ].
Qed.

Theorem o_nothing_after_burn vr s e fp wv s' ms cs :
  ostep vr s e fp wv EBurnRemaining = Ok (s', ms) ->
  otrace vr s' cs = [] /\ osuccesses vr s' cs = 0%nat /\ o_mintable (orun vr s' cs) = Some 0.
Proof.
  intros H. apply o_burn_remaining_spec in H. destruct H as (_ & Z & _).
  destruct (o_zero_is_forever vr cs s' Z) as (A & B & C). auto.
Qed.

(* where no count is stored (wl-flex without num_tokens) burn-remaining cannot succeed *)
Theorem o_burn_without_count_fails vr s e fp wv :
  o_mintable s = None -> ostep vr s e fp wv EBurnRemaining = Err.
Proof.
  intros Z. destruct (ostep vr s e fp wv EBurnRemaining) as [[s' ms]|] eqn:H; [ | reflexivity ].
  apply o_burn_remaining_spec in H. destruct H as ([m [M _]] & _). congruence.
Qed.

(* ================= base minter ================= *)
Definition is_bmint (o : bop) : bool := match o with BMint _ => true | _ => false end.

Theorem bstep_spec s e creator bps o s' ms :
  bstep s e creator bps o = Ok (s', ms) ->
  if is_bmint o
  then nft_msgs ms = [(b_token_index s + 1, e_sender e)] /\ b_token_index s' = b_token_index s + 1 /\
       b_minted s' = (b_token_index s + 1) :: b_minted s
  else nft_msgs ms = [] /\ b_token_index s' = b_token_index s /\ b_minted s' = b_minted s.
Proof.
  intros H. destruct o; cbn [bstep is_bmint] in *.
  - repeat step_hyp H. inv H.
    match goal with Hq : inc64 _ = Ok _ |- _ => unfold inc64 in Hq; destruct (U64_MAX <=? b_token_index s); inv Hq end.
    cbn. rewrite nft_msgs_app, nft_msgs_bank. cbn. auto.
  - repeat step_hyp H; inv H; cbn; auto.
Qed.

Definition InvB (s : bstate) : Prop := b_minted s = rev (seqN (b_token_index s)).

Theorem bstep_inv s e creator bps o s' ms : InvB s -> bstep s e creator bps o = Ok (s', ms) -> InvB s'.
Proof.
  unfold InvB. intros I H. apply bstep_spec in H. destruct (is_bmint o).
  - destruct H as (_ & C & E'). rewrite E', C, I. symmetry. apply rev_seqN_succ.
  - destruct H as (_ & C & E'). rewrite E', C. exact I.
Qed.

Record bcall := mkBCall { bc_env : env; bc_creator : option addr; bc_bps : N; bc_op : bop }.
Definition b_apply (s : bstate) (c : bcall) : bstate :=
  match bstep s (bc_env c) (bc_creator c) (bc_bps c) (bc_op c) with Ok (s', _) => s' | Err => s end.
Definition brun (s : bstate) (cs : list bcall) : bstate := fold_left b_apply cs s.
Fixpoint btrace (s : bstate) (cs : list bcall) : list (N * addr) :=
  match cs with
  | [] => []
  | c :: r =>
      match bstep s (bc_env c) (bc_creator c) (bc_bps c) (bc_op c) with
      | Ok (s', ms) => nft_msgs ms ++ btrace s' r
      | Err => btrace s r
      end
  end.
Fixpoint bsuccesses (s : bstate) (cs : list bcall) : nat :=
  match cs with
  | [] => 0%nat
  | c :: r =>
      match bstep s (bc_env c) (bc_creator c) (bc_bps c) (bc_op c) with
      | Ok (s', _) => ((if is_bmint (bc_op c) then 1 else 0) + bsuccesses s' r)%nat
      | Err => bsuccesses s r
      end
  end.

Theorem brun_inv cs : forall s, InvB s -> InvB (brun s cs).
Proof.
  induction cs as [|c cs IH]; intros s I; cbn [brun fold_left]; [ exact I | ].
  apply IH. unfold b_apply.
  destruct (bstep s (bc_env c) (bc_creator c) (bc_bps c) (bc_op c)) as [[s' ms]|] eqn:E; [ | exact I ].
  eapply bstep_inv; eauto.
Qed.

Theorem btrace_length cs : forall s, length (btrace s cs) = bsuccesses s cs.
Proof.
  induction cs as [|c cs IH]; intros s; cbn [btrace bsuccesses]; [ reflexivity | ].
  destruct (bstep s (bc_env c) (bc_creator c) (bc_bps c) (bc_op c)) as [[s' ms]|] eqn:E; [ | apply IH ].
  rewrite app_length, IH. f_equal. apply bstep_spec in E.
  destruct (is_bmint (bc_op c)); destruct E as (B & _); rewrite B; reflexivity.
Qed.

Theorem btrace_ids cs : forall s,
  map fst (btrace s cs) = range1 (b_token_index s) (length (btrace s cs)).
Proof.
  induction cs as [|c cs IH]; intros s; cbn [btrace]; [ reflexivity | ].
  destruct (bstep s (bc_env c) (bc_creator c) (bc_bps c) (bc_op c)) as [[s' ms]|] eqn:E; [ | apply IH ].
  apply bstep_spec in E. destruct (is_bmint (bc_op c)); destruct E as (B & C & _); rewrite B.
  - cbn [app map fst length]. rewrite range1_cons, IH, C. reflexivity.
  - cbn [app]. rewrite IH, C. reflexivity.
Qed.

Theorem brun_index cs : forall s,
  b_token_index (brun s cs) = b_token_index s + N.of_nat (length (btrace s cs)).
Proof.
  induction cs as [|c cs IH]; intros s; cbn [brun fold_left btrace]; [ cbn; lia | ].
  change (fold_left b_apply cs (b_apply s c)) with (brun (b_apply s c) cs).
  rewrite IH. unfold b_apply.
  destruct (bstep s (bc_env c) (bc_creator c) (bc_bps c) (bc_op c)) as [[s' ms]|] eqn:E; [ | reflexivity ].
  rewrite app_length. apply bstep_spec in E.
  destruct (is_bmint (bc_op c)); destruct E as (B & C & _); rewrite B, C; cbn [length]; lia.
Qed.

Theorem b_ids_are_1_2_3 cs s :
  b_token_index s = 0 -> map fst (btrace s cs) = map N.of_nat (seq 1 (bsuccesses s cs)).
Proof. intros Z. rewrite btrace_ids, Z, range1_from_zero, btrace_length. reflexivity. Qed.

Theorem b_mint_emits_next_id s e creator bps o s' ms t owner :
  bstep s e creator bps o = Ok (s', ms) -> In (t, owner) (nft_msgs ms) ->
  is_bmint o = true /\ t = b_token_index s + 1 /\ owner = e_sender e /\ nft_msgs ms = [(t, owner)] /\
  b_token_index s' = t.
Proof.
  intros H Hin. apply bstep_spec in H. destruct (is_bmint o).
  - destruct H as (B & C & _). rewrite B in Hin. destruct Hin as [Hin|[]]. inv Hin. auto.
  - destruct H as (B & _). rewrite B in Hin. contradiction.
Qed.
