(* Supply side of the token-merge minter (model/TokenMerge.v), for property C01 part 3.
   The model keeps the mintable ids as a plain list `tm_avail` (ids only: the position
   keys of MINTABLE_TOKEN_POSITIONS are not modelled, so Shuffle, which only permutes ids
   over the same positions, leaves the model state untouched; the tie checks on raw
   storage that positions and id set survive a shuffle).  Minted ids and burned counts
   are ghosts computed from what a history emits: the ids of the TMint messages, and the
   number of ids that leave the table in a successful BurnRemaining. *)
From LP Require Import Num Pay Sg1 Consts TokenMerge TokenMergeProofs.
From LP Require MinterVendingProofs.
From Coq Require Import ZArith Lia ZifyN ZifyBool Permutation.
Local Open Scope N_scope.

Notation seqN := MinterVendingProofs.seqN.
Definition in_range (n : N) (l : list N) : Prop := forall x, In x l -> 1 <= x <= n.

(* ---------- ghosts ---------- *)
Fixpoint mint_ids (ms : list tmsg) : list (N * N) :=      (* (token id, owner) of every Mint message *)
  match ms with
  | [] => []
  | TMint r t :: rest => (t, r) :: mint_ids rest
  | TBurn _ _ :: rest => mint_ids rest
  end.

Record sghost := mkSG { sg_minted : list N; sg_burned : N }.
Definition sghost0 : sghost := mkSG [] 0.

Definition is_burn_remaining (op : tm_op) : bool :=
  match op with OBurnRemaining _ _ => true | _ => false end.

Definition sstep (minter : N) (s : tm_state * sghost) (e : N * tm_op) : tm_state * sghost :=
  match step minter (fst e) (snd e) (fst s) with
  | Err => s
  | Ok (st', ms) =>
      (st', mkSG (rev (map fst (mint_ids ms)) ++ sg_minted (snd s))
                 (sg_burned (snd s) +
                  if is_burn_remaining (snd e) then N.of_nat (length (tm_avail (fst s))) else 0))
  end.
Definition srun (minter : N) (h : list (N * tm_op)) (s : tm_state * sghost) : tm_state * sghost :=
  fold_left (sstep minter) h s.

(* ---------- the invariant (mirrors InvV of the vending family) ---------- *)
Record InvT (n : N) (s : tm_state * sghost) : Prop := mkInvT {
  invt_n : tm_num_tokens (fst s) = n;
  invt_ids : NoDup (tm_avail (fst s));
  invt_range : in_range n (tm_avail (fst s));
  invt_minted_nodup : NoDup (sg_minted (snd s));
  invt_minted_range : in_range n (sg_minted (snd s));
  invt_disjoint : forall x, In x (sg_minted (snd s)) -> ~ In x (tm_avail (fst s));
  invt_len : N.of_nat (length (tm_avail (fst s))) = tm_mintable (fst s);
  invt_count : tm_mintable (fst s) + N.of_nat (length (sg_minted (snd s))) + sg_burned (snd s) = n
}.

Definition fresh_tm (st : tm_state) (n : N) : Prop :=
  tm_num_tokens st = n /\ tm_mintable st = n /\ Permutation (tm_avail st) (seqN n).

Lemma init_inv_tm n st : fresh_tm st n -> InvT n (st, sghost0).
Proof.
  intros (Hn & Hm & Hp). constructor; cbn [fst snd sghost0 sg_minted sg_burned].
  - exact Hn.
  - eapply Permutation_NoDup; [apply Permutation_sym; exact Hp|apply MinterVendingProofs.seqN_nodup].
  - intros x Hx. apply MinterVendingProofs.seqN_spec. eapply Permutation_in; eauto.
  - constructor.
  - intros x [].
  - intros x [].
  - rewrite (Permutation_length Hp), MinterVendingProofs.seqN_length. symmetry. exact Hm.
  - cbn [length]. rewrite Hm. lia.
Qed.

(* ---------- remove_tok on duplicate-free lists ---------- *)
Lemma in_remove_tok t x l : In x (remove_tok t l) <-> In x l /\ x <> t.
Proof.
  induction l as [|y ys IH]; cbn [remove_tok In]; [tauto|].
  destruct (t =? y) eqn:E.
  - apply N.eqb_eq in E. subst y. rewrite IH. split; [tauto|]. intros [[->|H] Hn]; [contradiction|tauto].
  - apply N.eqb_neq in E. cbn [In]. rewrite IH. split.
    + intros [->|[H Hn]]; [split; [tauto|congruence]|tauto].
    + intros [[->|H] Hn]; tauto.
Qed.
Lemma nodup_remove_tok t l : NoDup l -> NoDup (remove_tok t l).
Proof.
  induction 1 as [|y ys Hn Hnd IH]; cbn [remove_tok]; [constructor|].
  destruct (t =? y); [exact IH|]. constructor; [|exact IH].
  intros Hin. apply in_remove_tok in Hin. tauto.
Qed.
Lemma remove_tok_notin t l : ~ In t l -> remove_tok t l = l.
Proof.
  induction l as [|y ys IH]; cbn [remove_tok In]; [reflexivity|]. intros Hn.
  destruct (t =? y) eqn:E; [apply N.eqb_eq in E; subst; tauto|]. f_equal. apply IH. tauto.
Qed.
Lemma length_remove_tok t l : NoDup l -> In t l -> S (length (remove_tok t l)) = length l.
Proof.
  induction 1 as [|y ys Hn Hnd IH]; cbn [remove_tok In length]; [tauto|]. intros [->|Hin].
  - rewrite N.eqb_refl. rewrite remove_tok_notin by exact Hn. reflexivity.
  - destruct (t =? y) eqn:E; [apply N.eqb_eq in E; subst; contradiction|].
    cbn [length]. f_equal. apply IH. exact Hin.
Qed.

(* ---------- what one successful call does to the supply fields ---------- *)
Definition supply_same (st st' : tm_state) : Prop :=
  tm_avail st' = tm_avail st /\ tm_mintable st' = tm_mintable st /\ tm_num_tokens st' = tm_num_tokens st.

Lemma take_token_supply r t st st' :
  take_token r t st = Ok st' ->
  0 < tm_mintable st /\ In t (tm_avail st) /\ tm_avail st' = remove_tok t (tm_avail st) /\
  tm_mintable st' = tm_mintable st - 1 /\ tm_num_tokens st' = tm_num_tokens st.
Proof. intros H. apply take_token_inv in H. destruct H as (H1 & H2 & ->). cbn. auto. Qed.

Inductive supply_effect (op : tm_op) (st st' : tm_state) (ms : list tmsg) : Prop :=
| SE_mint (t r : N) :
    mint_ids ms = [(t, r)] -> 0 < tm_mintable st -> In t (tm_avail st) ->
    tm_avail st' = remove_tok t (tm_avail st) -> tm_mintable st' = tm_mintable st - 1 ->
    tm_num_tokens st' = tm_num_tokens st -> is_burn_remaining op = false -> supply_effect op st st' ms
| SE_none : mint_ids ms = [] -> supply_same st st' -> is_burn_remaining op = false -> supply_effect op st st' ms
| SE_burn : is_burn_remaining op = true -> ms = [] -> tm_avail st' = [] ->
    tm_mintable st <> 0 -> N.of_nat (length (tm_avail st)) <= tm_mintable st ->
    tm_mintable st' = tm_mintable st - N.of_nat (length (tm_avail st)) ->
    tm_num_tokens st' = tm_num_tokens st -> supply_effect op st st' ms.

Lemma admin_mint_supply caller r funds fixed pick st st' ms op :
  is_burn_remaining op = false ->
  admin_mint caller r funds fixed pick st = Ok (st', ms) ->
  supply_effect op st st' ms /\ ms = [TMint r (match fixed with Some t => t | None => pick end)].
Proof.
  intros Hop. unfold admin_mint, bind, guard.
  destruct (addr_ok r); [|discriminate].
  destruct (caller =? tm_admin st); [|discriminate].
  destruct (match fixed with Some t => _ | None => true end); [|discriminate].
  destruct (may_pay funds NATIVE) as [p|]; [|discriminate].
  destruct (p =? tm_airdrop_price st); [|discriminate].
  destruct (take_token r _ st) as [st2|] eqn:Et; [|discriminate].
  intros [= <- <-]. apply take_token_supply in Et. destruct Et as (H1 & H2 & H3 & H4 & H5).
  split; [|reflexivity]. eapply SE_mint; eauto. reflexivity.
Qed.

Lemma step_supply minter now op st st' ms :
  step minter now op st = Ok (st', ms) -> supply_effect op st st' ms.
Proof.
  destruct op; cbn [step].
  - (* deposit *)
    intros H. apply receive_inv in H. cbv zeta in H.
    destruct H as (_ & _ & _ & amt & _ & _ & [(_ & -> & ->) | (_ & st2 & Ht & -> & ->)]).
    + apply SE_none; [reflexivity|repeat split|reflexivity].
    + apply take_token_supply in Ht. cbn [tm_mintable tm_avail tm_num_tokens set_ledger] in Ht.
      destruct Ht as (H1 & H2 & H3 & H4 & H5).
      eapply SE_mint; cbn [tm_mintable tm_avail tm_num_tokens set_ledger mint_ids]; eauto.
  - intros H. eapply admin_mint_supply in H; [apply H|reflexivity].
  - intros H. eapply admin_mint_supply in H; [apply H|reflexivity].
  - unfold bind, guard. destruct (checked_fair_burn _ _ _ _); [|discriminate].
    destruct (negb _); [|discriminate]. intros [= <- <-]. apply SE_none; [reflexivity|repeat split|reflexivity].
  - unfold bind, guard. destruct (nonpayable _); [|discriminate].
    destruct (tm_mintable st =? 0); [|discriminate]. intros [= <- <-].
    apply SE_none; [reflexivity|repeat split|reflexivity].
  - unfold bind, guard. destruct (nonpayable _); [|discriminate].
    destruct (caller =? tm_admin st); [|discriminate].
    destruct (negb (tm_mintable st =? 0)) eqn:E1; [|discriminate].
    destruct (_ <=? _) eqn:E2; [|discriminate]. intros [= <- <-].
    apply negb_true_iff, N.eqb_neq in E1. apply N.leb_le in E2.
    apply SE_burn; cbn [tm_avail tm_mintable tm_num_tokens set_supply]; auto.
  - unfold bind, guard. destruct (nonpayable _); [|discriminate].
    destruct (caller =? tm_admin st); [|discriminate].
    destruct (now <? tm_start st); [|discriminate]. destruct (now <=? t); [|discriminate].
    destruct (_ <=? t); [|discriminate]. intros [= <- <-].
    apply SE_none; [reflexivity|repeat split|reflexivity].
  - unfold bind, guard. destruct (nonpayable _); [|discriminate].
    destruct (caller =? tm_admin st); [|discriminate].
    destruct (negb _ && _); [|discriminate]. destruct (dynamic_limit_ok _ _ _); [|discriminate].
    intros [= <- <-]. apply SE_none; [reflexivity|repeat split|reflexivity].
Qed.

(* ---------- preservation ---------- *)
Lemma sstep_ok minter st g now op st' ms :
  step minter now op st = Ok (st', ms) ->
  sstep minter (st, g) (now, op) =
  (st', mkSG (rev (map fst (mint_ids ms)) ++ sg_minted g)
             (sg_burned g + if is_burn_remaining op then N.of_nat (length (tm_avail st)) else 0)).
Proof. intros H. unfold sstep. cbn [fst snd]. rewrite H. reflexivity. Qed.

Lemma step_inv_tm n minter st g now op st' ms :
  InvT n (st, g) -> step minter now op st = Ok (st', ms) -> InvT n (sstep minter (st, g) (now, op)).
Proof.
  intros [I1 I2 I3 I4 I5 I6 I7 I8] H. cbn [fst snd] in *.
  rewrite (sstep_ok _ _ _ _ _ _ _ H). apply step_supply in H.
  destruct H as [t r Hm Hpos Hin Hav Hmt Hn Hb | Hm (Hav & Hmt & Hn) Hb | Hb -> Hav Hnz Hle Hmt Hn].
  - rewrite Hm, Hb. cbn [map fst rev app]. constructor; cbn [fst snd sg_minted sg_burned].
    + congruence.
    + rewrite Hav. apply nodup_remove_tok. exact I2.
    + rewrite Hav. intros x Hx. apply in_remove_tok in Hx. apply I3. tauto.
    + constructor; [|exact I4]. intros Hx. exact (I6 t Hx Hin).
    + intros x [<-|Hx]; [apply I3; exact Hin|apply I5; exact Hx].
    + rewrite Hav. intros x [<-|Hx] Hc; apply in_remove_tok in Hc; [tauto|]. exact (I6 x Hx (proj1 Hc)).
    + rewrite Hav, Hmt. pose proof (length_remove_tok t _ I2 Hin). lia.
    + rewrite Hmt. cbn [length]. lia.
  - rewrite Hm, Hb. cbn [map rev app]. constructor; cbn [fst snd sg_minted sg_burned];
      rewrite ?Hav, ?Hmt, ?Hn; auto. lia.
  - rewrite Hb. cbn [mint_ids map rev app]. constructor; cbn [fst snd sg_minted sg_burned]; rewrite ?Hav, ?Hn; auto.
    + constructor.
    + intros x [].
    + cbn [length]. lia.
    + lia.
Qed.

Lemma sstep_inv_tm n minter s e : InvT n s -> InvT n (sstep minter s e).
Proof.
  destruct s as [st g], e as [now op]. intros HI.
  destruct (step minter now op st) as [[st' ms]|] eqn:E.
  - eapply step_inv_tm; eauto.
  - unfold sstep. cbn [fst snd]. rewrite E. exact HI.
Qed.

Lemma srun_inv_tm n minter h s : InvT n s -> InvT n (srun minter h s).
Proof.
  unfold srun. revert s. induction h as [|e t IH]; intros s HI; cbn [fold_left]; auto.
  apply IH. apply sstep_inv_tm. exact HI.
Qed.

Lemma InvT_spelled n s :
  InvT n s <->
  (tm_num_tokens (fst s) = n /\
   NoDup (tm_avail (fst s)) /\ (forall x, In x (tm_avail (fst s)) -> 1 <= x <= n) /\
   NoDup (sg_minted (snd s)) /\ (forall x, In x (sg_minted (snd s)) -> 1 <= x <= n) /\
   (forall x, In x (sg_minted (snd s)) -> ~ In x (tm_avail (fst s))) /\
   N.of_nat (length (tm_avail (fst s))) = tm_mintable (fst s) /\
   tm_mintable (fst s) + N.of_nat (length (sg_minted (snd s))) + sg_burned (snd s) = n).
Proof.
  split.
  - intros [H1 H2 H3 H4 H5 H6 H7 H8]. tauto.
  - intros (H1 & H2 & H3 & H4 & H5 & H6 & H7 & H8). constructor; assumption.
Qed.

(* ---------- corollaries ---------- *)
Lemma minted_id_fresh_tm n minter st g now op st' ms t owner :
  InvT n (st, g) -> step minter now op st = Ok (st', ms) -> In (t, owner) (mint_ids ms) ->
  1 <= t <= n /\ In t (tm_avail st) /\ ~ In t (sg_minted g) /\ ~ In t (tm_avail st') /\
  mint_ids ms = [(t, owner)] /\
  sg_minted (snd (sstep minter (st, g) (now, op))) = t :: sg_minted g.
Proof.
  intros [I1 I2 I3 I4 I5 I6 I7 I8] H Hin. cbn [fst snd] in *.
  rewrite (sstep_ok _ _ _ _ _ _ _ H). cbn [snd sg_minted]. apply step_supply in H.
  destruct H as [t' r Hm Hpos Hin' Hav Hmt Hn Hb | Hm _ _ | _ -> _ _ _ _ _].
  - rewrite Hm in *. destruct Hin as [E|[]]. injection E as <- <-.
    repeat split; auto; try (apply I3; exact Hin').
    + intros Hx. exact (I6 t' Hx Hin').
    + rewrite Hav. intros Hx. apply in_remove_tok in Hx. tauto.
  - rewrite Hm in Hin. destruct Hin.
  - destruct Hin.
Qed.

Lemma mint_for_exact_tm minter now caller tid r funds st st' ms :
  step minter now (OMintFor caller tid r funds) st = Ok (st', ms) ->
  ms = [TMint r tid] /\ 1 <= tid <= tm_num_tokens st /\ In tid (tm_avail st) /\ ~ In tid (tm_avail st').
Proof.
  intros H. cbn [step] in H. pose proof H as H0.
  eapply (admin_mint_supply _ _ _ _ _ _ _ _ (OMintFor caller tid r funds)) in H0; [|reflexivity].
  destruct H0 as [_ ->]. split; [reflexivity|].
  unfold admin_mint, bind, guard in H.
  destruct (addr_ok r); [|discriminate].
  destruct (caller =? tm_admin st); [|discriminate].
  destruct (negb (tid =? 0) && (tid <=? tm_num_tokens st)) eqn:G; [|discriminate].
  destruct (may_pay funds NATIVE) as [p|]; [|discriminate].
  destruct (p =? tm_airdrop_price st); [|discriminate].
  destruct (take_token r tid st) as [st2|] eqn:Et; [|discriminate].
  injection H as <-. apply take_token_supply in Et. destruct Et as (_ & Hin & Hav & _).
  apply andb_true_iff in G. destruct G as [G1 G2]. apply negb_true_iff, N.eqb_neq in G1. apply N.leb_le in G2.
  split; [lia|]. split; [exact Hin|]. rewrite Hav. intros Hx. apply in_remove_tok in Hx. tauto.
Qed.

Lemma shuffle_preserves_tm minter now caller funds st st' ms :
  step minter now (OShuffle caller funds) st = Ok (st', ms) ->
  st' = st /\ ms = [] /\ tm_mintable st <> 0.
Proof.
  cbn [step]. unfold bind, guard. destruct (checked_fair_burn _ _ _ _); [|discriminate].
  destruct (negb (tm_mintable st =? 0)) eqn:E; [|discriminate]. intros [= <- <-].
  apply negb_true_iff, N.eqb_neq in E. auto.
Qed.

Lemma mint_at_zero_tm minter now op st st' ms :
  tm_mintable st = 0 -> step minter now op st = Ok (st', ms) -> mint_ids ms = [].
Proof.
  intros Hz H. apply step_supply in H.
  destruct H as [t r _ Hpos _ _ _ _ _ | Hm _ _ | _ -> _ _ _ _ _]; [lia|exact Hm|reflexivity].
Qed.

Lemma admin_mint_at_zero_tm minter now op st :
  tm_mintable st = 0 ->
  (match op with OMintTo _ _ _ _ | OMintFor _ _ _ _ => True | _ => False end) ->
  step minter now op st = Err.
Proof.
  intros Hz Hop. destruct (step minter now op st) as [[st' ms]|] eqn:E; [|reflexivity]. exfalso.
  pose proof (mint_at_zero_tm _ _ _ _ _ _ Hz E) as Hm.
  destruct op; try contradiction; cbn [step] in E;
    (eapply (admin_mint_supply _ _ _ _ _ _ _ _ (OPurge 0 [])) in E; [|reflexivity]);
    destruct E as [_ ->]; discriminate.
Qed.

Lemma burn_remaining_zero_tm n minter now caller funds st g st' ms :
  InvT n (st, g) -> step minter now (OBurnRemaining caller funds) st = Ok (st', ms) ->
  tm_mintable st' = 0 /\ tm_avail st' = [] /\ ms = [] /\
  sg_minted (snd (sstep minter (st, g) (now, OBurnRemaining caller funds))) = sg_minted g /\
  sg_burned (snd (sstep minter (st, g) (now, OBurnRemaining caller funds))) = sg_burned g + tm_mintable st.
Proof.
  intros [I1 I2 I3 I4 I5 I6 I7 I8] H. cbn [fst snd] in *.
  rewrite (sstep_ok _ _ _ _ _ _ _ H). cbn [snd sg_minted sg_burned is_burn_remaining]. apply step_supply in H.
  destruct H as [t r _ _ _ _ _ _ Hb | _ _ Hb | _ -> Hav _ _ Hmt _]; try discriminate.
  rewrite I7 in *. repeat split; auto. lia.
Qed.

Lemma mintable_never_increases_tm minter now op st st' ms :
  step minter now op st = Ok (st', ms) -> tm_mintable st' <= tm_mintable st.
Proof.
  intros H. apply step_supply in H.
  destruct H as [t r _ _ _ _ Hmt _ _ | _ (_ & Hmt & _) _ | _ _ _ _ _ Hmt _]; lia.
Qed.

Lemma zero_is_forever_tm minter h st g :
  tm_mintable st = 0 ->
  tm_mintable (fst (srun minter h (st, g))) = 0 /\ sg_minted (snd (srun minter h (st, g))) = sg_minted g.
Proof.
  unfold srun. revert st g. induction h as [|[now op] t IH]; intros st g Hz; cbn [fold_left]; [auto|].
  destruct (step minter now op st) as [[st' ms]|] eqn:E.
  - rewrite (sstep_ok _ _ _ _ _ _ _ E).
    pose proof (mint_at_zero_tm _ _ _ _ _ _ Hz E) as Hm.
    pose proof (mintable_never_increases_tm _ _ _ _ _ _ E) as Hle.
    rewrite Hm. cbn [map rev app].
    destruct (IH st' (mkSG (sg_minted g) (sg_burned g + (if is_burn_remaining op then N.of_nat (length (tm_avail st)) else 0)))) as [A B]; [lia|].
    cbn [sg_minted] in B. auto.
  - assert (Hs : sstep minter (st, g) (now, op) = (st, g)) by (unfold sstep; cbn [fst snd]; rewrite E; reflexivity).
    rewrite Hs. apply IH. exact Hz.
Qed.
