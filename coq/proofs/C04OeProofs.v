(* C04 — sale window and entitlement, open-edition family (open-edition-minter, -wl-flex,
   -merkle-wl): lemmas over MinterOpen.ostep.  The end-time clauses live here. *)
From LP Require Import Num Pay Sg1 MinterVending MinterVendingProofs MinterOpen C04Proofs.
From Coq Require Import ZArith Lia ZifyN ZifyBool.
Local Open Scope N_scope.

(* ---------- vocabulary ---------- *)
Definition o_with_wl (s : ostate) (w : option addr) : ostate :=
  o_set_config s (o_pal s) w (o_start s) (o_end s) (o_price s).
Definition o_with_start (s : ostate) (t : N) : ostate :=
  o_set_config s (o_pal s) (o_whitelist s) t (o_end s) (o_price s).
Definition o_with_end (s : ostate) (t : N) : ostate :=
  o_set_config s (o_pal s) (o_whitelist s) (o_start s) (Some t) (o_price s).

Definition o_wl_absent_or_inactive (s : ostate) (wv : option wlview) : Prop :=
  o_whitelist s = None \/ exists v, wv = Some v /\ wv_active v = false.

(* the membership question: the Merkle variant only accepts a verified proof (no proof =
   no answer); the other two ask the plain HasMember question *)
Definition o_membership_answer (vr : ovariant) (v : wlview) (proof : bool) : option bool :=
  if ov_merkle vr then (if proof then wv_has_proof v else None) else wv_has_plain v.

Definition o_wl_total (s : ostate) (a : addr) : N :=
  get (o_wl s) a + (get (o_fs s) a + get (o_ss s) a + get (o_ts s) a).

(* "now >= end" *)
Definition o_past_end (s : ostate) (now : N) : Prop := exists en, o_end s = Some en /\ en <= now.

Lemma o_ended_true s now : o_ended s now = true <-> o_past_end s now.
Proof.
  unfold o_ended, o_past_end. destruct (o_end s) as [en|].
  - rewrite N.leb_le. split; [ eauto | intros [x [H K]]; inv H; exact K ].
  - split; [ discriminate | intros [x [H _]]; discriminate ].
Qed.

(* ---------- is_public_mint ---------- *)
Lemma o_is_public_true_iff vr s wv a proof alloc :
  o_is_public_mint vr s wv a proof alloc = Ok true <-> o_wl_absent_or_inactive s wv.
Proof.
  unfold o_is_public_mint, o_wl_absent_or_inactive. split.
  - intros H. destruct (o_whitelist s) as [w|]; [ | left; reflexivity ].
    destruct wv as [v|]; [ | discriminate ].
    destruct (wv_active v) eqn:Ea; [ exfalso | right; eauto ].
    cbn [negb] in H.
    repeat step_hyp H; discriminate H.
  - intros [Hn | [v [Hv Ha]]].
    + rewrite Hn. reflexivity.
    + destruct (o_whitelist s); [ | reflexivity ]. subst wv. rewrite Ha. reflexivity.
Qed.

Lemma o_is_public_active vr s w v a proof alloc isp :
  o_whitelist s = Some w -> wv_active v = true ->
  o_is_public_mint vr s (Some v) a proof alloc = Ok isp ->
  isp = false /\ o_membership_answer vr v proof = Some true.
Proof.
  unfold o_is_public_mint, o_membership_answer. intros Hw Ha H. rewrite Hw, Ha in H.
  cbn [negb] in H.
  bind_in H u Hm.
  assert (Hmem : (if ov_merkle vr then if proof then wv_has_proof v else None else wv_has_plain v) = Some true).
  { destruct (ov_merkle vr).
    - destruct proof; cbn [negb] in Hm; [ | discriminate ].
      destruct (wv_has_proof v) as [[|]|]; try discriminate; reflexivity.
    - destruct (wv_has_plain v) as [[|]|]; try discriminate; reflexivity. }
  split; [ | exact Hmem ].
  repeat step_hyp H; inv H; reflexivity.
Qed.

(* ---------- the start gate ---------- *)
Theorem oe_public_before_start_fails vr s e fp wv stage proof alloc :
  o_is_public_mint vr s wv (e_sender e) proof alloc = Ok true ->
  e_now e < o_start s ->
  ostep vr s e fp wv (EMint stage proof alloc) = Err.
Proof.
  intros Hp Hlt. cbn [ostep]. rewrite Hp. cbn [bind].
  apply N.ltb_lt in Hlt. rewrite Hlt. reflexivity.
Qed.

Corollary oe_no_or_inactive_wl_before_start_fails vr s e fp wv stage proof alloc :
  o_wl_absent_or_inactive s wv -> e_now e < o_start s ->
  ostep vr s e fp wv (EMint stage proof alloc) = Err.
Proof. intros H. apply oe_public_before_start_fails. apply o_is_public_true_iff. exact H. Qed.

(* ---------- the end gate: no mint of any kind at or after the end time ---------- *)
Theorem oe_any_mint_at_or_after_end_fails vr s e fp wv o en :
  (match o with EMint _ _ _ | EMintTo _ _ => True | _ => False end) ->
  o_end s = Some en -> en <= e_now e ->
  ostep vr s e fp wv o = Err.
Proof.
  intros Ho He Hle.
  assert (Hend : o_ended s (e_now e) = true) by (apply o_ended_true; exists en; auto).
  destruct o; try contradiction; cbn [ostep].
  - destruct (o_is_public_mint vr s wv (e_sender e) proof alloc) as [isp|]; cbn [bind]; [ | reflexivity ].
    destruct (isp && (e_now e <? o_start s)); [ reflexivity | ]. rewrite Hend. reflexivity.
  - destruct (negb recipient_ok); [ reflexivity | ].
    destruct (negb (o_is_admin s e)); [ reflexivity | ]. rewrite Hend. reflexivity.
Qed.

(* ---------- active whitelist ---------- *)
Theorem oe_active_wl_nonmember_fails vr s e fp w v stage proof alloc :
  o_whitelist s = Some w -> wv_active v = true ->
  o_membership_answer vr v proof <> Some true ->
  ostep vr s e fp (Some v) (EMint stage proof alloc) = Err.
Proof.
  intros Hw Ha Hm. cbn [ostep].
  destruct (o_is_public_mint vr s (Some v) (e_sender e) proof alloc) as [isp|] eqn:E; [ | reflexivity ].
  exfalso. apply (o_is_public_active _ _ _ _ _ _ _ _ Hw Ha) in E. tauto.
Qed.

Theorem oe_attached_wl_unanswered_fails vr s e fp w stage proof alloc :
  o_whitelist s = Some w ->
  ostep vr s e fp None (EMint stage proof alloc) = Err.
Proof. intros Hw. cbn [ostep]. unfold o_is_public_mint. rewrite Hw. reflexivity. Qed.

Lemma o_bump_config s e wv isp s1 :
  o_bump_counts s e wv isp = Ok s1 ->
  o_start s1 = o_start s /\ o_end s1 = o_end s /\ o_whitelist s1 = o_whitelist s /\ o_admin s1 = o_admin s /\
  (isp = true -> o_wl s1 = o_wl s /\ o_fs s1 = o_fs s /\ o_ss s1 = o_ss s /\ o_ts s1 = o_ts s /\
                 o_public s1 = set (o_public s) (e_sender e) (get (o_public s) (e_sender e) + 1)) /\
  (isp = false -> o_public s1 = o_public s /\ o_wl_total s1 (e_sender e) = o_wl_total s (e_sender e) + 1).
Proof.
  unfold o_bump_counts. intros H. destruct isp.
  - bind_in H c Hc. unfold inc32 in Hc. destruct (U32_MAX <=? get (o_public s) (e_sender e)); inv Hc. inv H.
    cbn. repeat split; auto; discriminate.
  - destruct (o_whitelist s) as [w|] eqn:Ew; [ | discriminate ].
    destruct wv as [v|]; [ | discriminate ].
    bind_in H c3 Hc3. destruct c3 as [[cnt tiered] stage].
    bind_in H c Hc. unfold inc32 in Hc. destruct (U32_MAX <=? cnt); inv Hc.
    unfold o_wl_count in Hc3.
    destruct (wv_tiered v).
    + destruct (wv_stage_id v) as [st|]; [ | discriminate ].
      destruct st as [|st]; [ discriminate | ].
      destruct st as [st|st|]; try (destruct st; try discriminate); inv Hc3;
        bind_in H k Hk; inv H; unfold o_wl_total; cbn; rewrite get_set_same, ?Ew;
        (split; [ reflexivity | ]); (split; [ reflexivity | ]); (split; [ reflexivity | ]); (split; [ reflexivity | ]);
        (split; [ discriminate | ]); intros _; (split; [ reflexivity | lia ]).
    + inv Hc3. inv H. unfold o_wl_total. cbn. rewrite get_set_same, ?Ew.
      (split; [ reflexivity | ]); (split; [ reflexivity | ]); (split; [ reflexivity | ]); (split; [ reflexivity | ]);
      (split; [ discriminate | ]). intros _; split; [ reflexivity | lia ].
Qed.

Lemma o_mint_config vr s e fp wv adm rcp isp s' ms :
  o_execute_mint vr s e fp wv adm rcp isp = Ok (s', ms) ->
  o_start s' = o_start s /\ o_end s' = o_end s /\ o_whitelist s' = o_whitelist s /\ o_admin s' = o_admin s /\
  (exists amount dn, o_mint_price s fp wv adm = Ok (amount, dn) /\ may_pay (e_funds e) dn = Ok amount) /\
  (isp = true -> o_wl s' = o_wl s /\ o_fs s' = o_fs s /\ o_ss s' = o_ss s /\ o_ts s' = o_ts s /\
                 o_public s' = set (o_public s) (e_sender e) (get (o_public s) (e_sender e) + 1)) /\
  (isp = false -> o_public s' = o_public s /\ o_wl_total s' (e_sender e) = o_wl_total s (e_sender e) + 1).
Proof.
  unfold o_execute_mint. intros H.
  match type of H with (if ?c then _ else _) = _ => destruct c; [ discriminate | ] end.
  bind_in H pr Hpr. destruct pr as [amount dn].
  bind_in H payment Hpay.
  destruct (payment =? amount) eqn:Epa; cbn [negb] in H; [ | discriminate ]. apply N.eqb_eq in Epa. subst payment.
  match type of H with (if ?c then _ else _) = _ => destruct c; [ discriminate | ] end.
  bind_in H fmsgs Hfm.
  bind_in H tid Htid.
  bind_in H s1 Hs1.
  bind_in H total' Ht.
  bind_in H airdrops' Ha.
  bind_in H amt Hamt. inv H.
  apply o_bump_config in Hs1. destruct Hs1 as (B1 & B2 & B3 & B4 & B5 & B6).
  unfold o_wl_total in *. cbn.
  split; [ exact B1 | ]. split; [ exact B2 | ]. split; [ exact B3 | ]. split; [ exact B4 | ].
  split; [ exists amount, dn; auto | ]. split; [ exact B5 | exact B6 ].
Qed.

Theorem oe_active_wl_member_pays_wl_price vr s e fp w v stage proof alloc s' ms :
  o_whitelist s = Some w -> wv_active v = true ->
  ostep vr s e fp (Some v) (EMint stage proof alloc) = Ok (s', ms) ->
  o_membership_answer vr v proof = Some true /\
  o_mint_price s fp (Some v) false = Ok (wv_price v, wv_denom v) /\
  may_pay (e_funds e) (wv_denom v) = Ok (wv_price v) /\
  o_public s' = o_public s /\
  o_wl_total s' (e_sender e) = o_wl_total s (e_sender e) + 1 /\
  o_start s' = o_start s /\ o_end s' = o_end s /\ o_whitelist s' = o_whitelist s /\
  ~ o_past_end s (e_now e).
Proof.
  intros Hw Ha H. cbn [ostep] in H. bind_in H isp Hisp.
  destruct (o_is_public_active _ _ _ _ _ _ _ _ Hw Ha Hisp) as [-> Hm].
  cbn [andb] in H.
  destruct (o_ended s (e_now e)) eqn:Een; [ discriminate | ].
  apply o_mint_config in H.
  destruct H as (Hs & He & Hwl & _ & (amount & dn & Hmp & Hpay) & _ & Hfalse).
  destruct (Hfalse eq_refl) as [Hpub Htot].
  assert (Hprice : o_mint_price s fp (Some v) false = Ok (wv_price v, wv_denom v)).
  { unfold o_mint_price. rewrite Hw, Ha. reflexivity. }
  rewrite Hprice in Hmp. inv Hmp.
  repeat split; auto.
  intro Hpe. apply o_ended_true in Hpe. congruence.
Qed.


Theorem oe_faithful_whitelist_only_members_mint (intended : addr -> Prop) vr s e fp w v stage proof alloc s' ms :
  o_whitelist s = Some w -> wv_active v = true ->
  (o_membership_answer vr v proof = Some true -> intended (e_sender e)) ->
  ostep vr s e fp (Some v) (EMint stage proof alloc) = Ok (s', ms) ->
  intended (e_sender e).
Proof.
  intros Hw Ha Hf H. apply Hf.
  destruct (oe_active_wl_member_pays_wl_price _ _ _ _ _ _ _ _ _ _ _ Hw Ha H) as [Hm _]. exact Hm.
Qed.

Theorem oe_nonmember_mint_blames_whitelist_answer (intended : addr -> Prop) vr s e fp w v stage proof alloc s' ms :
  o_whitelist s = Some w -> wv_active v = true ->
  ostep vr s e fp (Some v) (EMint stage proof alloc) = Ok (s', ms) ->
  ~ intended (e_sender e) ->
  o_membership_answer vr v proof = Some true /\ ~ intended (e_sender e).
Proof.
  intros Hw Ha H Hn.
  destruct (oe_active_wl_member_pays_wl_price _ _ _ _ _ _ _ _ _ _ _ Hw Ha H) as [Hm _]. split; assumption.
Qed.

(* ---------- inactive whitelist = public rules ---------- *)
Lemma o_core_public_wl_irrelevant vr s e fp wv wv2 w2 adm rcp :
  o_mint_price (o_with_wl s w2) fp wv2 adm = o_mint_price s fp wv adm ->
  o_execute_mint vr (o_with_wl s w2) e fp wv2 adm rcp true =
  rmap (fun r => (o_with_wl (fst r) w2, snd r)) (o_execute_mint vr s e fp wv adm rcp true).
Proof.
  intros Hp. unfold o_execute_mint. rewrite Hp.
  cbn [o_with_wl o_set_config o_mintable o_token_index o_total o_airdrops o_minted o_burned o_payment o_admin].
  match goal with |- (if ?c then _ else _) = _ => destruct c; [ reflexivity | ] end.
  destruct (o_mint_price s fp wv adm) as [[amount dn]|]; cbn [bind]; [ | reflexivity ].
  destruct (may_pay (e_funds e) dn) as [payment|]; cbn [bind]; [ | reflexivity ].
  destruct (negb (payment =? amount)); [ reflexivity | ].
  match goal with |- (if ?c then _ else _) = _ => destruct c; [ reflexivity | ] end.
  match goal with |- bind ?r _ = _ => destruct r as [fm|]; cbn [bind]; [ | reflexivity ] end.
  destruct (inc64 (o_token_index s)) as [tid|]; cbn [bind]; [ | reflexivity ].
  unfold o_bump_counts.
  cbn [o_with_wl o_public o_wl o_fs o_ss o_ts o_fs_count o_ss_count o_ts_count o_set_config].
  destruct (inc32 (get (o_public s) (e_sender e))) as [c|]; cbn [bind]; [ | reflexivity ].
  destruct (inc32 (o_total s)) as [tt'|]; cbn [bind]; [ | reflexivity ].
  match goal with |- bind ?r _ = _ => destruct r as [ad|]; cbn [bind]; [ | reflexivity ] end.
  destruct (sub128 amount _) as [amt|]; cbn [bind rmap]; reflexivity.
Qed.

Theorem oe_inactive_wl_public_rules vr s e fp wv wv0 stage proof alloc :
  o_wl_absent_or_inactive s wv ->
  ostep vr s e fp wv (EMint stage proof alloc) =
  match ostep vr (o_with_wl s None) e fp wv0 (EMint stage proof alloc) with
  | Ok (s', ms) => Ok (o_with_wl s' (o_whitelist s), ms)
  | Err => Err
  end.
Proof.
  intros Hin. cbn [ostep].
  assert (H1 : o_is_public_mint vr s wv (e_sender e) proof alloc = Ok true) by (apply o_is_public_true_iff; exact Hin).
  assert (H2 : o_is_public_mint vr (o_with_wl s None) wv0 (e_sender e) proof alloc = Ok true) by reflexivity.
  rewrite H1, H2. cbn [bind andb].
  change (o_ended (o_with_wl s None) (e_now e)) with (o_ended s (e_now e)).
  cbn [o_with_wl o_set_config o_start o_pal o_public].
  destruct (e_now e <? o_start s); [ reflexivity | ].
  destruct (o_ended s (e_now e)); [ reflexivity | ].
  destruct (o_pal s <=? get (o_public s) (e_sender e)); [ reflexivity | ].
  assert (Hs : s = o_with_wl (o_with_wl s None) (o_whitelist s)) by (destruct s; reflexivity).
  rewrite Hs at 1.
  change (o_set_config s (o_pal s) None (o_start s) (o_end s) (o_price s)) with (o_with_wl s None).
  rewrite (o_core_public_wl_irrelevant vr (o_with_wl s None) e fp wv0 wv (o_whitelist s)).
  - destruct (o_execute_mint vr (o_with_wl s None) e fp wv0 false None true) as [[s' ms]|]; reflexivity.
  - rewrite <- Hs. unfold o_mint_price. cbn [o_with_wl o_set_config o_whitelist o_price o_denom].
    destruct Hin as [Hn | [v [Hv Ha]]].
    + rewrite Hn. reflexivity.
    + subst wv. rewrite Ha. destruct (o_whitelist s); reflexivity.
Qed.

(* ---------- airdrops (MintTo) ---------- *)
Theorem oe_airdrop_admin_only_before_end vr s e fp wv rok r s' ms :
  ostep vr s e fp wv (EMintTo rok r) = Ok (s', ms) ->
  e_sender e = o_admin s /\ ~ o_past_end s (e_now e) /\
  o_start s' = o_start s /\ o_end s' = o_end s /\ o_whitelist s' = o_whitelist s.
Proof.
  cbn [ostep]. intros H.
  destruct (negb rok); [ discriminate | ].
  destruct (negb (o_is_admin s e)) eqn:Ead; [ discriminate | ].
  destruct (o_ended s (e_now e)) eqn:Een; [ discriminate | ].
  unfold o_is_admin in Ead. apply negb_false_iff in Ead. apply N.eqb_eq in Ead.
  apply o_mint_config in H. destruct H as (H1 & H2 & H3 & _).
  repeat split; auto. intro Hpe. apply o_ended_true in Hpe. congruence.
Qed.

(* an airdrop is not subject to the start gate nor to the whitelist: its outcome depends
   on the clock only through "has the end time passed" *)
Theorem oe_airdrop_ignores_start_and_whitelist vr s fp rok r now now' sender funds c wv wv' :
  o_ended s now = o_ended s now' ->
  ostep vr s (mkEnv now sender funds c) fp wv (EMintTo rok r) =
  ostep vr s (mkEnv now' sender funds c) fp wv' (EMintTo rok r).
Proof. intros H. cbn [ostep e_now]. rewrite H. reflexivity. Qed.

(* ---------- UpdateStartTime / UpdateEndTime ---------- *)
Theorem oe_update_start_time_ok vr s e fp wv t s' ms :
  ostep vr s e fp wv (EUpdateStartTime t) = Ok (s', ms) ->
  e_sender e = o_admin s /\ e_funds e = [] /\
  e_now e < o_start s /\ e_now e <= t /\ (forall en, o_end s = Some en -> t <= en) /\
  s' = o_with_start s t /\ ms = [].
Proof.
  cbn [ostep]. intros H. bind_in H u Hu.
  unfold nonpayable in Hu. destruct (e_funds e); [ | discriminate ].
  destruct (negb (o_is_admin s e)) eqn:Ead; [ discriminate | ].
  destruct (o_start s <=? e_now e) eqn:Est; [ discriminate | ].
  destruct (t <? e_now e) eqn:Et; [ discriminate | ].
  unfold o_is_admin in Ead. apply negb_false_iff in Ead. apply N.eqb_eq in Ead.
  apply N.leb_gt in Est. apply N.ltb_ge in Et.
  destruct (o_end s) as [en|] eqn:Een.
  - destruct (en <? t) eqn:El; [ discriminate | ]. inv H. apply N.ltb_ge in El.
    split; [ exact Ead | ]. split; [ reflexivity | ]. split; [ exact Est | ]. split; [ exact Et | ].
    split; [ intros en' Hen; inv Hen; exact El | ]. unfold o_with_start. rewrite Een. split; reflexivity.
  - inv H.
    split; [ exact Ead | ]. split; [ reflexivity | ]. split; [ exact Est | ]. split; [ exact Et | ].
    split; [ intros en' Hen; discriminate | ]. unfold o_with_start. rewrite Een. split; reflexivity.
Qed.

Theorem oe_update_start_time_complete vr s e fp wv t :
  e_sender e = o_admin s -> e_funds e = [] -> e_now e < o_start s -> e_now e <= t ->
  (forall en, o_end s = Some en -> t <= en) ->
  ostep vr s e fp wv (EUpdateStartTime t) = Ok (o_with_start s t, []).
Proof.
  intros Ha Hf H1 H2 H3. cbn [ostep]. rewrite Hf. cbn [nonpayable bind].
  unfold o_is_admin. rewrite Ha, N.eqb_refl. cbn [negb].
  apply N.leb_gt in H1. apply N.ltb_ge in H2. rewrite H1, H2.
  unfold o_with_start. destruct (o_end s) as [en|]; [ | reflexivity ].
  specialize (H3 en eq_refl). apply N.ltb_ge in H3. rewrite H3. reflexivity.
Qed.

Theorem oe_update_end_time_ok vr s e fp wv t s' ms :
  ostep vr s e fp wv (EUpdateEndTime t) = Ok (s', ms) ->
  e_sender e = o_admin s /\ e_funds e = [] /\
  (exists en, o_end s = Some en /\ e_now e < en) /\ e_now e <= t /\ o_start s <= t /\
  s' = o_with_end s t /\ ms = [].
Proof.
  cbn [ostep]. intros H. bind_in H u Hu.
  unfold nonpayable in Hu. destruct (e_funds e); [ | discriminate ].
  destruct (negb (o_is_admin s e)) eqn:Ead; [ discriminate | ].
  destruct (o_end s) as [en|] eqn:Een; [ | discriminate ].
  destruct (en <=? e_now e) eqn:E1; [ discriminate | ].
  destruct (t <? e_now e) eqn:E2; [ discriminate | ].
  destruct (t <? o_start s) eqn:E3; [ discriminate | ].
  inv H.
  unfold o_is_admin in Ead. apply negb_false_iff in Ead. apply N.eqb_eq in Ead.
  apply N.leb_gt in E1. apply N.ltb_ge in E2. apply N.ltb_ge in E3.
  repeat split; eauto.
Qed.

Theorem oe_update_end_time_complete vr s e fp wv t en :
  e_sender e = o_admin s -> e_funds e = [] -> o_end s = Some en ->
  e_now e < en -> e_now e <= t -> o_start s <= t ->
  ostep vr s e fp wv (EUpdateEndTime t) = Ok (o_with_end s t, []).
Proof.
  intros Ha Hf He H1 H2 H3. cbn [ostep]. rewrite Hf. cbn [nonpayable bind].
  unfold o_is_admin. rewrite Ha, N.eqb_refl. cbn [negb]. rewrite He.
  apply N.leb_gt in H1. apply N.ltb_ge in H2. apply N.ltb_ge in H3. rewrite H1, H2, H3. reflexivity.
Qed.

(* ---------- SetWhitelist ---------- *)
Theorem oe_set_whitelist_ok vr s e fp wv wok w newview s' ms :
  ostep vr s e fp wv (ESetWhitelist wok w newview) = Ok (s', ms) ->
  e_sender e = o_admin s /\ e_funds e = [] /\
  e_now e < o_start s /\
  o_wl_absent_or_inactive s wv /\
  wok = true /\
  (exists nv, newview = Some nv /\ wv_active nv = false /\
              wv_denom nv = o_denom s /\
              ofp_min_price fp <= wv_price nv /\ ofp_min_denom fp = wv_denom nv) /\
  s' = o_with_wl s (Some w) /\ ms = [].
Proof.
  cbn [ostep]. intros H. bind_in H u Hu.
  unfold nonpayable in Hu. destruct (e_funds e); [ | discriminate ].
  destruct (negb (o_is_admin s e)) eqn:Ead; [ discriminate | ].
  destruct (negb (e_now e <? o_start s)) eqn:Est; [ discriminate | ].
  bind_in H u2 Hold.
  destruct (negb wok) eqn:Ewok; [ discriminate | ].
  destruct newview as [nv|]; [ | discriminate ].
  destruct (wv_active nv) eqn:Enew; [ discriminate | ].
  destruct (negb (wv_denom nv =? o_denom s)) eqn:Ed; [ discriminate | ].
  destruct (wv_price nv <? ofp_min_price fp) eqn:Ep; [ discriminate | ].
  destruct (negb (ofp_min_denom fp =? wv_denom nv)) eqn:Efd; [ discriminate | ].
  inv H.
  unfold o_is_admin in Ead. apply negb_false_iff in Ead. apply N.eqb_eq in Ead.
  apply negb_false_iff in Est. apply N.ltb_lt in Est.
  apply negb_false_iff in Ewok. apply N.ltb_ge in Ep.
  apply negb_false_iff in Efd. apply N.eqb_eq in Efd.
  apply negb_false_iff in Ed. apply N.eqb_eq in Ed.
  repeat split; auto.
  - unfold o_wl_absent_or_inactive. destruct (o_whitelist s) as [ow|]; [ right | left; reflexivity ].
    destruct wv as [v|]; [ | discriminate ]. destruct u2. apply guard_ok in Hold. apply negb_true_iff in Hold. eauto.
  - exists nv. repeat split; auto.
Qed.

(* ---------- histories ---------- *)
Lemma ostep_keeps_schedule vr s e fp wv o s' ms :
  ostep vr s e fp wv o = Ok (s', ms) ->
  ((forall t, o <> EUpdateStartTime t) -> o_start s' = o_start s) /\
  ((forall t, o <> EUpdateEndTime t) -> o_end s' = o_end s) /\
  ((forall a b c, o <> ESetWhitelist a b c) -> o_whitelist s' = o_whitelist s).
Proof.
  intros H.
  assert (Hcore : forall adm rcp isp,
             o_execute_mint vr s e fp wv adm rcp isp = Ok (s', ms) ->
             o_start s' = o_start s /\ o_end s' = o_end s /\ o_whitelist s' = o_whitelist s).
  { intros adm rcp isp Hc. apply o_mint_config in Hc. tauto. }
  destruct o; cbn [ostep] in H; repeat step_hyp H;
    try (match goal with Hc : o_execute_mint _ _ _ _ _ _ _ _ = Ok _ |- _ =>
           destruct (Hcore _ _ _ Hc) as (? & ? & ?); repeat split; intros _; assumption end);
    inv H; cbn; repeat split; intros Hne; try reflexivity;
    try (exfalso; eapply Hne; reflexivity).
Qed.

(* once the clock has reached the start time neither the start time nor the attached
   whitelist changes; once it has reached the end time the end time does not change and
   nothing is minted *)
Lemma o_started_frozen vr s e fp wv o s' ms :
  ostep vr s e fp wv o = Ok (s', ms) -> o_start s <= e_now e ->
  o_start s' = o_start s /\ o_whitelist s' = o_whitelist s.
Proof.
  intros H Hst. pose proof (ostep_keeps_schedule _ _ _ _ _ _ _ _ H) as (K1 & _ & K3).
  split.
  - destruct o; try (apply K1; intros; discriminate).
    apply oe_update_start_time_ok in H. lia.
  - destruct o; try (apply K3; intros; discriminate).
    apply oe_set_whitelist_ok in H. lia.
Qed.

Lemma o_ended_frozen vr s e fp wv o s' ms :
  ostep vr s e fp wv o = Ok (s', ms) -> o_past_end s (e_now e) ->
  o_end s' = o_end s /\ nft_msgs ms = [] /\ o_minted s' = o_minted s.
Proof.
  intros H [en [Hen Hle]].
  pose proof (ostep_keeps_schedule _ _ _ _ _ _ _ _ H) as (_ & K2 & _).
  assert (Hnomint : forall o', o = o' -> (match o' with EMint _ _ _ | EMintTo _ _ => True | _ => False end) -> False).
  { intros o' <- Ho. rewrite (oe_any_mint_at_or_after_end_fails vr s e fp wv o en Ho Hen Hle) in H. discriminate. }
  destruct o; try (exfalso; eapply Hnomint; [ reflexivity | exact I ]).
  all: try (split; [ apply K2; intros; discriminate | ]).
  all: cbn [ostep] in H; repeat step_hyp H; try (inv H; cbn; split; reflexivity).
  - (* UpdateEndTime after the end: impossible *)
    exfalso. inv Hen. apply N.leb_gt in E1. lia.
Qed.

Record ocall := mkOCall { oc_env : env; oc_fp : ofparams; oc_wv : option wlview; oc_op : eop }.
Definition o_apply_call (vr : ovariant) (s : ostate) (c : ocall) : ostate :=
  match ostep vr s (oc_env c) (oc_fp c) (oc_wv c) (oc_op c) with
  | Ok (s', _) => s'
  | Err => s
  end.
Definition o_run (vr : ovariant) (s : ostate) (cs : list ocall) : ostate := fold_left (o_apply_call vr) cs s.
Fixpoint o_trace (vr : ovariant) (s : ostate) (cs : list ocall) : list (ostate * ocall) :=
  match cs with
  | [] => []
  | c :: r => (s, c) :: o_trace vr (o_apply_call vr s c) r
  end.
Fixpoint o_clock_mono (t : N) (cs : list ocall) : Prop :=
  match cs with
  | [] => True
  | c :: r => t <= e_now (oc_env c) /\ o_clock_mono (e_now (oc_env c)) r
  end.

Lemma o_run_frozen vr cs : forall s t0,
  o_clock_mono t0 cs -> o_start s <= t0 ->
  o_start (o_run vr s cs) = o_start s /\ o_whitelist (o_run vr s cs) = o_whitelist s.
Proof.
  induction cs as [|c cs IH]; intros s t0 Hm Hst; cbn [o_run fold_left]; [ auto | ].
  destruct Hm as [Hle Hm].
  change (fold_left (o_apply_call vr) cs (o_apply_call vr s c)) with (o_run vr (o_apply_call vr s c) cs).
  assert (Hk : o_start (o_apply_call vr s c) = o_start s /\ o_whitelist (o_apply_call vr s c) = o_whitelist s).
  { unfold o_apply_call. destruct (ostep vr s (oc_env c) (oc_fp c) (oc_wv c) (oc_op c)) as [[s' ms]|] eqn:E; [ | auto ].
    eapply o_started_frozen; eauto. lia. }
  destruct Hk as [K1 K2].
  destruct (IH (o_apply_call vr s c) (e_now (oc_env c)) Hm) as [I1 I2]; [ lia | ].
  split; congruence.
Qed.

(* after the end time has passed: in every continuation whose clock does not run
   backwards the end time stays and nothing is ever minted again *)
Theorem oe_after_end_nothing_mints vr cs : forall s t0 en,
  o_clock_mono t0 cs -> o_end s = Some en -> en <= t0 ->
  o_end (o_run vr s cs) = Some en /\ o_minted (o_run vr s cs) = o_minted s.
Proof.
  induction cs as [|c cs IH]; intros s t0 en Hm Hen Hle; cbn [o_run fold_left]; [ auto | ].
  destruct Hm as [Hle2 Hm].
  change (fold_left (o_apply_call vr) cs (o_apply_call vr s c)) with (o_run vr (o_apply_call vr s c) cs).
  assert (Hk : o_end (o_apply_call vr s c) = Some en /\ o_minted (o_apply_call vr s c) = o_minted s).
  { unfold o_apply_call. destruct (ostep vr s (oc_env c) (oc_fp c) (oc_wv c) (oc_op c)) as [[s' ms]|] eqn:E; [ | auto ].
    destruct (o_ended_frozen _ _ _ _ _ _ _ _ E) as (F1 & _ & F3); [ exists en; split; [ exact Hen | lia ] | ].
    split; congruence. }
  destruct Hk as [K1 K2].
  destruct (IH (o_apply_call vr s c) (e_now (oc_env c)) en Hm K1) as [I1 I2]; [ lia | ].
  split; congruence.
Qed.

Definition o_public_mint_succeeds (vr : ovariant) (s : ostate) (c : ocall) : Prop :=
  exists stage proof alloc r,
    oc_op c = EMint stage proof alloc /\
    ostep vr s (oc_env c) (oc_fp c) (oc_wv c) (oc_op c) = Ok r /\
    o_is_public_mint vr s (oc_wv c) (e_sender (oc_env c)) proof alloc = Ok true.

(* any successful mint (public, whitelist or airdrop) in a history *)
Definition o_some_mint_succeeds (vr : ovariant) (s : ostate) (c : ocall) : Prop :=
  (match oc_op c with EMint _ _ _ | EMintTo _ _ => True | _ => False end) /\
  exists r, ostep vr s (oc_env c) (oc_fp c) (oc_wv c) (oc_op c) = Ok r.

Theorem oe_history_mints_inside_window vr cs : forall s t0 si c,
  o_clock_mono t0 cs -> In (si, c) (o_trace vr s cs) ->
  (o_some_mint_succeeds vr si c -> ~ o_past_end si (e_now (oc_env c))) /\
  (o_public_mint_succeeds vr si c ->
     o_start si <= e_now (oc_env c) /\
     o_start (o_run vr s cs) = o_start si /\ o_whitelist (o_run vr s cs) = o_whitelist si).
Proof.
  induction cs as [|c0 cs IH]; intros s t0 si c Hm Hin; cbn [o_trace] in Hin; [ contradiction | ].
  destruct Hm as [Hle Hm].
  cbn [o_run fold_left].
  change (fold_left (o_apply_call vr) cs (o_apply_call vr s c0)) with (o_run vr (o_apply_call vr s c0) cs).
  destruct Hin as [Heq | Hin].
  - inv Heq. split.
    + intros [Ho [r Hstep]] [en [Hen Hle2]].
      rewrite (oe_any_mint_at_or_after_end_fails vr si (oc_env c) (oc_fp c) (oc_wv c) (oc_op c) en Ho Hen Hle2) in Hstep.
      discriminate.
    + intros (stage & proof & alloc & r & Hop & Hstep & Hpub).
      assert (Hge : o_start si <= e_now (oc_env c)).
      { destruct (N.lt_ge_cases (e_now (oc_env c)) (o_start si)) as [Hlt|Hge]; [ exfalso | exact Hge ].
        rewrite Hop in Hstep. rewrite (oe_public_before_start_fails _ _ _ _ _ _ _ _ Hpub Hlt) in Hstep. discriminate. }
      split; [ exact Hge | ].
      assert (Hk : o_start (o_apply_call vr si c) = o_start si /\ o_whitelist (o_apply_call vr si c) = o_whitelist si).
      { unfold o_apply_call. rewrite Hstep. destruct r as [s' ms]. eapply o_started_frozen; eauto. }
      destruct Hk as [K1 K2].
      destruct (o_run_frozen vr cs (o_apply_call vr si c) (e_now (oc_env c)) Hm) as [I1 I2]; [ lia | ].
      split; congruence.
  - eapply IH; eauto.
Qed.
