(* migrate and factory governance leave the token-merge ledger, the accounting identity
   and the supply invariant alone; the history theorems of TokenMergeProofs /
   TokenMergeSupplyProofs extended to histories that interleave entry points, migrations
   (accepted or refused, by anyone, from any stored cw2 info) and sudo UpdateParams. *)
From LP Require Import Num Pay Sg1 Consts TokenMerge TokenMergeProofs TokenMergeSupplyProofs TokenMergeMigrate.
From LP Require Migrate.
From Coq Require Import ZArith Lia.
Local Open Scope N_scope.

(* ---------- migrate ---------- *)
Lemma tm_migrate_frame a c st st' c' : tm_migrate a c st = Ok (st', c') -> st' = st.
Proof.
  unfold tm_migrate. destruct a; [|discriminate].
  destruct (Migrate.migrate _ _ _ _) as [[cs b]|]; [|discriminate]. intros [= <- _]. reflexivity.
Qed.

Lemma tm_migrate_not_admin c st : tm_migrate false c st = Err.
Proof. reflexivity. Qed.

(* an accepted migrate leaves either the stored info (same version) or the code's own name and version *)
Lemma tm_migrate_cw2 a c st st' c' :
  tm_migrate a c st = Ok (st', c') ->
  a = true /\ fst c = Migrate.own_name Migrate.TokenMergeMinter /\
  (c' = c \/ c' = (Migrate.own_name Migrate.TokenMergeMinter, Migrate.code_version_string Migrate.TokenMergeMinter)).
Proof.
  unfold tm_migrate. destruct a; [|discriminate]. destruct c as [n v]. cbn [fst snd].
  unfold Migrate.migrate. cbn [Migrate.kind_of Migrate.c_name Migrate.c_version Migrate.c_slots].
  destruct (Semver.parse_version (Migrate.code_version_string Migrate.TokenMergeMinter)) as [code|]; [|discriminate].
  destruct (String.eqb n (Migrate.own_name Migrate.TokenMergeMinter)) eqn:En; cbn [negb]; [|discriminate].
  apply String.eqb_eq in En.
  destruct (Semver.parse_version v) as [pv|]; [|discriminate].
  destruct (Semver.ver_ltb code pv); [discriminate|].
  destruct (Semver.ver_eqb pv code); intros [= <- <-]; cbn; auto.
Qed.

Lemma after_migrate_same a c st : after_migrate a c st = st.
Proof.
  unfold after_migrate. destruct (tm_migrate a c st) as [[st' c']|] eqn:E; [|reflexivity].
  eapply tm_migrate_frame. exact E.
Qed.

(* ---------- sudo UpdateParams: only the three factory-side fields move ---------- *)
Lemma tm_sudo_frame mx ap sf st :
  let st' := tm_sudo_params mx ap sf st in
  tm_ledger st' = tm_ledger st /\ tm_counts st' = tm_counts st /\ tm_req st' = tm_req st /\
  tm_limit st' = tm_limit st /\ tm_start st' = tm_start st /\ tm_admin st' = tm_admin st /\
  tm_num_tokens st' = tm_num_tokens st /\ tm_mintable st' = tm_mintable st /\ tm_avail st' = tm_avail st /\
  tm_max_limit st' = opt_or mx (tm_max_limit st) /\ tm_airdrop_price st' = opt_or ap (tm_airdrop_price st) /\
  tm_shuffle_fee st' = opt_or sf (tm_shuffle_fee st).
Proof. cbv zeta. cbn. repeat split. Qed.

(* ---------- the accounting invariant over interleaved histories ---------- *)
Lemma inv_gxstep minter req0 sg e : Inv req0 sg -> Inv req0 (gxstep minter sg e).
Proof.
  destruct e as [now op | a c | mx ap sf]; cbn [gxstep].
  - apply inv_gstep.
  - rewrite after_migrate_same. destruct sg. auto.
  - destruct sg as [st g]. unfold Inv, ledger. cbn [fst snd tm_sudo_params tm_req tm_ledger]. auto.
Qed.

Lemma inv_gxrun minter req0 h sg : Inv req0 sg -> Inv req0 (gxrun minter h sg).
Proof.
  unfold gxrun. revert sg. induction h as [|e t IH]; intros sg HI; cbn [fold_left]; auto.
  apply IH. apply inv_gxstep. exact HI.
Qed.

Theorem accounting_invariant_x minter st0 h :
  tm_ledger st0 = [] ->
  let st := fst (gxrun minter h (st0, ghost0)) in
  let g := snd (gxrun minter h (st0, ghost0)) in
  tm_req st = tm_req st0 /\
  (forall r c a, req_amount c (tm_req st0) = Some a ->
     ledger st r c <= a /\ dmints g r * a + ledger st r c = cred g r c) /\
  (forall r c, req_amount c (tm_req st0) = None -> ledger st r c = 0 /\ cred g r c = 0).
Proof.
  intros Hl. cbv zeta. pose proof (inv_gxrun minter _ h _ (inv_init st0 Hl)) as (H1 & H2 & H3). auto.
Qed.

(* ---------- the supply invariant over interleaved histories ---------- *)
Definition sxstep (minter : N) (s : tm_state * sghost) (e : hstep) : tm_state * sghost :=
  match e with
  | HOp now op => sstep minter s (now, op)
  | HMigrate a c => (after_migrate a c (fst s), snd s)
  | HSudo mx ap sf => (tm_sudo_params mx ap sf (fst s), snd s)
  end.
Definition sxrun (minter : N) (h : list hstep) (s : tm_state * sghost) : tm_state * sghost :=
  fold_left (sxstep minter) h s.

Lemma migrate_inv_tm n a c s : InvT n s -> InvT n (after_migrate a c (fst s), snd s).
Proof. rewrite after_migrate_same. destruct s. auto. Qed.

Lemma sudo_inv_tm n mx ap sf s : InvT n s -> InvT n (tm_sudo_params mx ap sf (fst s), snd s).
Proof.
  intros [I1 I2 I3 I4 I5 I6 I7 I8]. constructor; cbn [fst snd tm_sudo_params tm_num_tokens tm_avail tm_mintable]; assumption.
Qed.

Lemma sxstep_inv_tm n minter s e : InvT n s -> InvT n (sxstep minter s e).
Proof.
  destruct e; cbn [sxstep]; [apply sstep_inv_tm|apply migrate_inv_tm|apply sudo_inv_tm].
Qed.

Lemma sxrun_inv_tm n minter h s : InvT n s -> InvT n (sxrun minter h s).
Proof.
  unfold sxrun. revert s. induction h as [|e t IH]; intros s HI; cbn [fold_left]; auto.
  apply IH. apply sxstep_inv_tm. exact HI.
Qed.

(* ---------- world ---------- *)
Lemma wxstep_migrate now a c w w' ok c' :
  wxstep now (XMigrate a c) w = (w', ok, c') ->
  w' = w /\ (ok = true -> a = true) /\
  (ok = false -> c' = Some c).
Proof.
  cbn [wxstep]. destruct (tm_migrate a c (w_m w)) as [[m' c2]|] eqn:E.
  - intros [= <- <- <-]. apply tm_migrate_cw2 in E as E2. apply tm_migrate_frame in E. subst m'.
    split; [destruct w; reflexivity|]. split; [tauto|discriminate].
  - intros [= <- <- <-]. split; [reflexivity|]. split; [discriminate|reflexivity].
Qed.

Lemma wxstep_sudo now mx ap sf w w' ok c' :
  wxstep now (XSudo mx ap sf) w = (w', ok, c') ->
  ok = true /\ w_src w' = w_src w /\ w_tgt w' = w_tgt w /\ w_minter w' = w_minter w /\
  w_m w' = tm_sudo_params mx ap sf (w_m w).
Proof. cbn [wxstep]. intros [= <- <- <-]. auto. Qed.
