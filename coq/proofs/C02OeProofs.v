(* C02, part 2: the three open-edition minters and the base minter.
   Open edition: same payment rule as the vending family; the fee goes through
   distribute_mint_fees WITH the factory's developer address (developer ceil(fee/2),
   liquidity DAO ceil(rest/5), launchpad DAO what is left), and the seller receives
   price - fee on EVERY kind of mint, airdrops included: full conservation holds.
   Base minter: the creator pays exactly floor(min_mint_price * mint_fee_bps / 10000),
   all of which is fair-burned (half burned, half to the fair-burn pool). *)
From LP Require Import Num Pay Sg1 Bank MinterVending MinterOpen SaleOeCorr Consts NumLemmas Sg1Proofs MinterVendingProofs C02Proofs.
From Coq Require Import ZArith Lia ZifyN ZifyBool.
Ltac Zify.zify_post_hook ::= Z.div_mod_to_equations.
Local Open Scope N_scope.

Definition is_omint (o : eop) : bool := match o with EMint _ _ _ | EMintTo _ _ => true | _ => false end.
Definition is_oairdrop (o : eop) : bool := match o with EMintTo _ _ => true | _ => false end.
Definition o_seller (s : ostate) : addr := match o_payment s with Some p => p | None => o_admin s end.
Definition o_fee_bps (fp : ofparams) (airdrop : bool) : N :=
  if airdrop then ofp_airdrop_fee_bps fp else ofp_mint_fee_bps fp.

Definition dev0 (dev : option addr) : addr := match dev with Some dv => dv | None => 0 end.
Definition dev_or0 (fp : ofparams) : addr := dev0 (ofp_dev fp).

Definition o_fee_part (dev : option addr) (dn : denom) (fee : N) : list bmsg :=
  if fee =? 0 then []
  else match dev with
       | Some dv =>
           [Send dv dn ((fee + 1) / 2);
            Send A_LIQUIDITY_DAO dn ((fee - (fee + 1) / 2 + 4) / 5);
            Send A_LAUNCHPAD_DAO dn (fee - (fee + 1) / 2 - (fee - (fee + 1) / 2 + 4) / 5)]
       | None => []
       end.
Definition o_seller_part (s : ostate) (dn : denom) (price fee : N) : list bmsg :=
  if price - fee =? 0 then [] else [Send (o_seller s) dn (price - fee)].

Lemma obank_of_app a b : bank_of (a ++ b) = bank_of a ++ bank_of b.
Proof. unfold bank_of. apply flat_map_app. Qed.
Lemma obank_of_bank l : bank_of (map OBank l) = l.
Proof. induction l as [|m r IH]; cbn; [ reflexivity | f_equal; exact IH ]. Qed.
Lemma obank_of_nft t o l : bank_of (OMintNft t o :: l) = bank_of l.
Proof. reflexivity. Qed.

Lemma o_mint_payment vr s e fp wv adm rcp isp s' ms :
  o_execute_mint vr s e fp wv adm rcp isp = Ok (s', ms) ->
  exists price dn,
    o_mint_price s fp wv adm = Ok (price, dn) /\
    may_pay (e_funds e) dn = Ok price /\
    price * o_fee_bps fp adm / 10000 <= price /\
    (price * o_fee_bps fp adm / 10000 <> 0 -> ofp_dev fp <> None) /\
    bank_of ms = o_fee_part (ofp_dev fp) dn (price * o_fee_bps fp adm / 10000)
                 ++ o_seller_part s dn price (price * o_fee_bps fp adm / 10000).
Proof.
  unfold o_execute_mint. intros H.
  match type of H with (if ?c then _ else _) = _ => destruct c; [ discriminate | ] end.
  bind_in H pr Hpr. destruct pr as [amount dn].
  bind_in H payment Hpay.
  destruct (payment =? amount) eqn:Epa; cbn [negb] in H; [ | discriminate ].
  apply N.eqb_eq in Epa. subst payment.
  cbv zeta in H. rewrite mul_floor_bps in H.
  change (if adm then ofp_airdrop_fee_bps fp else ofp_mint_fee_bps fp) with (o_fee_bps fp adm) in H.
  set (fee := amount * o_fee_bps fp adm / 10000) in *.
  destruct (U128_MAX <? fee); [ discriminate | ].
  bind_in H fmsgs Hfm.
  bind_in H tid Htid.
  bind_in H s1 Hs1.
  bind_in H total' Htot.
  bind_in H airdrops' Hair.
  bind_in H amt Hamt. inv H.
  unfold sub128 in Hamt. destruct (fee <=? amount) eqn:Ele; [ | discriminate ]. inv Hamt.
  apply N.leb_le in Ele.
  exists amount, dn. split; [ exact Hpr | ]. split; [ exact Hpay | ]. split; [ exact Ele | ].
  assert (Hf : fmsgs = o_fee_part (ofp_dev fp) dn fee /\ (fee <> 0 -> ofp_dev fp <> None)).
  { unfold o_fee_part. destruct (fee =? 0) eqn:Ef.
    - inv Hfm. apply N.eqb_eq in Ef. split; [ reflexivity | intros Hc; contradiction ].
    - destruct (ofp_dev fp) as [dv|]; [ | discriminate ].
      rewrite distribute_mint_fees_exact in Hfm. inv Hfm. split; [ reflexivity | intros _; discriminate ]. }
  destruct Hf as [-> Hdev]. split; [ exact Hdev | ].
  rewrite !obank_of_app, ?obank_of_nft, !obank_of_bank. cbn [app]. rewrite ?obank_of_nft, ?obank_of_bank.
  reflexivity.
Qed.

Lemma ostep_mint_core vr s e fp wv o s' ms :
  is_omint o = true -> ostep vr s e fp wv o = Ok (s', ms) ->
  (is_oairdrop o = true -> e_sender e = o_admin s) /\
  exists rcp isp, o_execute_mint vr s e fp wv (is_oairdrop o) rcp isp = Ok (s', ms).
Proof.
  intros Hm H. destruct o; try discriminate Hm; cbn [ostep] in H; cbn [is_oairdrop].
  - repeat step_hyp H; (split; [ discriminate | eauto ]).
  - repeat step_hyp H. unfold o_is_admin in *. apply negb_false_iff in E0. apply N.eqb_eq in E0.
    split; [ intros _; exact E0 | eauto ].
Qed.

Theorem ostep_mint_payment vr s e fp wv o s' ms :
  is_omint o = true -> ostep vr s e fp wv o = Ok (s', ms) ->
  exists price dn,
    o_mint_price s fp wv (is_oairdrop o) = Ok (price, dn) /\
    may_pay (e_funds e) dn = Ok price /\
    price * o_fee_bps fp (is_oairdrop o) / 10000 <= price /\
    (price * o_fee_bps fp (is_oairdrop o) / 10000 <> 0 -> ofp_dev fp <> None) /\
    bank_of ms = o_fee_part (ofp_dev fp) dn (price * o_fee_bps fp (is_oairdrop o) / 10000)
                 ++ o_seller_part s dn price (price * o_fee_bps fp (is_oairdrop o) / 10000) /\
    (is_oairdrop o = true -> e_sender e = o_admin s).
Proof.
  intros Hm H. destruct (ostep_mint_core _ _ _ _ _ _ _ _ Hm H) as [Ha (rcp & isp & Hc)].
  apply o_mint_payment in Hc. destruct Hc as (price & dn & H1 & H2 & H3 & H4 & H5).
  exists price, dn. auto 10.
Qed.

Theorem omint_ok_exact_funds vr s e fp wv o s' ms :
  is_omint o = true -> ostep vr s e fp wv o = Ok (s', ms) ->
  exists price dn,
    o_mint_price s fp wv (is_oairdrop o) = Ok (price, dn) /\
    ((e_funds e = [] /\ price = 0) \/ e_funds e = [mkCoin dn price]).
Proof.
  intros Hm H. destruct (ostep_mint_payment _ _ _ _ _ _ _ _ Hm H) as (price & dn & H1 & H2 & _).
  exists price, dn. split; [ exact H1 | ]. apply may_pay_ok_shape in H2. exact H2.
Qed.

Theorem omint_rejects_inexact vr s e fp wv o price dn :
  is_omint o = true -> o_mint_price s fp wv (is_oairdrop o) = Ok (price, dn) ->
  ~ ((e_funds e = [] /\ price = 0) \/ e_funds e = [mkCoin dn price]) ->
  ostep vr s e fp wv o = Err.
Proof.
  intros Hm Hp Hn. destruct (ostep vr s e fp wv o) as [[s' ms]|] eqn:H; [ exfalso | reflexivity ].
  destruct (omint_ok_exact_funds _ _ _ _ _ _ _ _ Hm H) as (p & d & H1 & H2).
  rewrite Hp in H1. inv H1. exact (Hn H2).
Qed.

Lemma sum_o_fee_part dev dn fee : (fee <> 0 -> dev <> None) -> sum_out (o_fee_part dev dn fee) = fee.
Proof.
  intros Hd. unfold o_fee_part. destruct (fee =? 0) eqn:E.
  - apply N.eqb_eq in E. subst. reflexivity.
  - apply N.eqb_neq in E. destruct dev as [dv|]; [ | exfalso; apply (Hd E); reflexivity ].
    cbn [sum_out fold_right bmsg_amount]. lia.
Qed.

Theorem omint_conservation vr s e fp wv o s' ms :
  is_omint o = true -> ostep vr s e fp wv o = Ok (s', ms) ->
  exists price dn,
    o_mint_price s fp wv (is_oairdrop o) = Ok (price, dn) /\ sum_out (bank_of ms) = price.
Proof.
  intros Hm H. destruct (ostep_mint_payment _ _ _ _ _ _ _ _ Hm H) as (price & dn & H1 & H2 & H3 & H4 & H5 & _).
  exists price, dn. split; [ exact H1 | ]. rewrite H5, sum_out_app, sum_o_fee_part by exact H4.
  unfold o_seller_part. destruct (price - price * o_fee_bps fp (is_oairdrop o) / 10000 =? 0) eqn:E;
    cbn [sum_out fold_right bmsg_amount]; [ apply N.eqb_eq in E | ]; lia.
Qed.

(* ---------- world level, open edition ---------- *)
Theorem oe_world_step_balances vr s b st s' b' ms :
  oe_world_step vr s b st = Ok (s', b', ms) ->
  ostep vr s (os_env st) (os_fp st) (os_wv st) (os_op st) = Ok (s', ms) /\
  (forall c, In c (e_funds (os_env st)) -> c_amount c <> 0) /\
  (forall a d,
      bal_get b' a d
      + (if a =? e_sender (os_env st) then paid (e_funds (os_env st)) d else 0)
      + (if a =? e_contract (os_env st) then debits (bank_of ms) d else 0)
      = bal_get b a d
        + (if a =? e_contract (os_env st) then paid (e_funds (os_env st)) d else 0)
        + credits (bank_of ms) a d) /\
  (forall d, total b' d = total b d).
Proof.
  unfold oe_world_step. intros H.
  bind_in H b1 Hat. bind_in H r Hst. destruct r as [s1 ms1]. bind_in H b2 Hap. inv H.
  split; [ exact Hst | ]. eapply attach_apply_balances; eauto.
Qed.

Lemma credits_o_fee_part dev dn fee a d :
  (fee <> 0 -> dev <> None) ->
  credits (o_fee_part dev dn fee) a d =
  (if (a =? dev0 dev) && (d =? dn) then (fee + 1) / 2 else 0)
  + (if (a =? A_LIQUIDITY_DAO) && (d =? dn) then (fee - (fee + 1) / 2 + 4) / 5 else 0)
  + (if (a =? A_LAUNCHPAD_DAO) && (d =? dn) then fee - (fee + 1) / 2 - (fee - (fee + 1) / 2 + 4) / 5 else 0).
Proof.
  intros Hd. unfold o_fee_part. destruct (fee =? 0) eqn:E.
  - apply N.eqb_eq in E. subst fee. cbn [credits].
    change ((0 + 1) / 2) with 0. change ((0 - 0 + 4) / 5) with 0. change (0 - 0 - 0) with 0.
    case_ifs; reflexivity.
  - apply N.eqb_neq in E. destruct dev as [dv|]; [ | exfalso; apply (Hd E); reflexivity ].
    cbn [credits credit dev0]. lia.
Qed.

Lemma credits_o_seller_part s dn price fee a d :
  credits (o_seller_part s dn price fee) a d = if (a =? o_seller s) && (d =? dn) then price - fee else 0.
Proof.
  unfold o_seller_part. destruct (price - fee =? 0) eqn:E; cbn [credits credit].
  - apply N.eqb_eq in E. rewrite E. destruct ((a =? o_seller s) && (d =? dn)); reflexivity.
  - lia.
Qed.

(* the closed balance equation of a successful open-edition mint of ANY kind *)
Theorem oe_world_mint_equation vr s b st s' b' ms :
  is_omint (os_op st) = true ->
  oe_world_step vr s b st = Ok (s', b', ms) ->
  exists price dn,
    o_mint_price s (os_fp st) (os_wv st) (is_oairdrop (os_op st)) = Ok (price, dn) /\
    e_funds (os_env st) = (if price =? 0 then [] else [mkCoin dn price]) /\
    (is_oairdrop (os_op st) = true -> e_sender (os_env st) = o_admin s) /\
    price * o_fee_bps (os_fp st) (is_oairdrop (os_op st)) / 10000 <= price /\
    (price * o_fee_bps (os_fp st) (is_oairdrop (os_op st)) / 10000 <> 0 -> ofp_dev (os_fp st) <> None) /\
    forall a d,
      bal_get b' a d + (if (a =? e_sender (os_env st)) && (d =? dn) then price else 0)
      = bal_get b a d
        + (if (a =? dev_or0 (os_fp st)) && (d =? dn)
           then (price * o_fee_bps (os_fp st) (is_oairdrop (os_op st)) / 10000 + 1) / 2 else 0)
        + (if (a =? A_LIQUIDITY_DAO) && (d =? dn)
           then (price * o_fee_bps (os_fp st) (is_oairdrop (os_op st)) / 10000
                 - (price * o_fee_bps (os_fp st) (is_oairdrop (os_op st)) / 10000 + 1) / 2 + 4) / 5 else 0)
        + (if (a =? A_LAUNCHPAD_DAO) && (d =? dn)
           then price * o_fee_bps (os_fp st) (is_oairdrop (os_op st)) / 10000
                - (price * o_fee_bps (os_fp st) (is_oairdrop (os_op st)) / 10000 + 1) / 2
                - (price * o_fee_bps (os_fp st) (is_oairdrop (os_op st)) / 10000
                   - (price * o_fee_bps (os_fp st) (is_oairdrop (os_op st)) / 10000 + 1) / 2 + 4) / 5 else 0)
        + (if (a =? o_seller s) && (d =? dn)
           then price - price * o_fee_bps (os_fp st) (is_oairdrop (os_op st)) / 10000 else 0).
Proof.
  intros Hm H.
  destruct (oe_world_step_balances _ _ _ _ _ _ _ H) as (Hst & Hnz & Hbal & _).
  destruct (ostep_mint_payment _ _ _ _ _ _ _ _ Hm Hst) as (price & dn & H1 & H2 & H3 & H4 & H5 & H6).
  exists price, dn. split; [ exact H1 | ].
  set (fee := price * o_fee_bps (os_fp st) (is_oairdrop (os_op st)) / 10000) in *.
  assert (Hf : e_funds (os_env st) = (if price =? 0 then [] else [mkCoin dn price])).
  { apply may_pay_ok_shape in H2. destruct H2 as [[Hf Hp]|Hf].
    - subst price. rewrite Hf. reflexivity.
    - destruct (price =? 0) eqn:E; [ | exact Hf ].
      apply N.eqb_eq in E. exfalso. apply (Hnz (mkCoin dn price)); [ rewrite Hf; left; reflexivity | exact E ]. }
  split; [ exact Hf | ]. split; [ exact H6 | ]. split; [ exact H3 | ]. split; [ exact H4 | ].
  intros a d. specialize (Hbal a d).
  assert (Hpaid : paid (e_funds (os_env st)) d = if d =? dn then price else 0).
  { rewrite Hf. destruct (price =? 0) eqn:E.
    - apply N.eqb_eq in E. subst price. cbn [paid]. destruct (d =? dn); reflexivity.
    - apply paid_single. }
  assert (Hdeb : debits (bank_of ms) d = if d =? dn then price else 0).
  { rewrite H5, debits_app. unfold o_fee_part, o_seller_part.
    destruct (fee =? 0) eqn:Ef.
    - apply N.eqb_eq in Ef. destruct (price - fee =? 0) eqn:Es; cbn [debits debit app]; destruct (d =? dn); lia.
    - apply N.eqb_neq in Ef. destruct (ofp_dev (os_fp st)) as [dv|]; [ | exfalso; apply (H4 Ef); reflexivity ].
      destruct (price - fee =? 0) eqn:Es; cbn [debits debit app]; destruct (d =? dn); lia. }
  rewrite Hpaid, Hdeb in Hbal.
  rewrite H5, credits_app, credits_o_fee_part, credits_o_seller_part in Hbal by exact H4.
  unfold dev_or0. clearbody fee.
  destruct (a =? e_sender (os_env st)); destruct (a =? e_contract (os_env st)); destruct (d =? dn); cbn [andb] in *; lia.
Qed.

(* the minter keeps nothing, on every kind of open-edition mint (it only has to be a
   different account from the payer and the four recipients) *)
Theorem oe_minter_unchanged vr s b st s' b' ms :
  is_omint (os_op st) = true ->
  oe_world_step vr s b st = Ok (s', b', ms) ->
  ~ In (e_contract (os_env st))
       [e_sender (os_env st); o_seller s; dev_or0 (os_fp st);
        A_LIQUIDITY_DAO; A_LAUNCHPAD_DAO] ->
  forall d, bal_get b' (e_contract (os_env st)) d = bal_get b (e_contract (os_env st)) d.
Proof.
  intros Hm H Hnot d.
  destruct (oe_world_mint_equation _ _ _ _ _ _ _ Hm H) as (price & dn & _ & _ & _ & _ & _ & Heq).
  specialize (Heq (e_contract (os_env st)) d). cbn [In] in Hnot.
  set (dvx := dev_or0 (os_fp st)) in *. clearbody dvx.
  split_nots. neq_facts. simp_eqb Heq. clear_eqb. lia.
Qed.

(* all six parties different: each one's balance *)
Theorem oe_world_mint_distinct vr s b st s' b' ms dv :
  is_omint (os_op st) = true ->
  oe_world_step vr s b st = Ok (s', b', ms) ->
  ofp_dev (os_fp st) = Some dv ->
  NoDup [e_sender (os_env st); e_contract (os_env st); o_seller s; dv; A_LIQUIDITY_DAO; A_LAUNCHPAD_DAO] ->
  exists price dn,
    o_mint_price s (os_fp st) (os_wv st) (is_oairdrop (os_op st)) = Ok (price, dn) /\
    price * o_fee_bps (os_fp st) (is_oairdrop (os_op st)) / 10000 <= price /\
    bal_get b' (e_sender (os_env st)) dn + price = bal_get b (e_sender (os_env st)) dn /\
    bal_get b' (e_contract (os_env st)) dn = bal_get b (e_contract (os_env st)) dn /\
    bal_get b' (o_seller s) dn
      = bal_get b (o_seller s) dn + (price - price * o_fee_bps (os_fp st) (is_oairdrop (os_op st)) / 10000) /\
    bal_get b' dv dn
      = bal_get b dv dn + (price * o_fee_bps (os_fp st) (is_oairdrop (os_op st)) / 10000 + 1) / 2 /\
    bal_get b' A_LIQUIDITY_DAO dn
      = bal_get b A_LIQUIDITY_DAO dn
        + (price * o_fee_bps (os_fp st) (is_oairdrop (os_op st)) / 10000
           - (price * o_fee_bps (os_fp st) (is_oairdrop (os_op st)) / 10000 + 1) / 2 + 4) / 5 /\
    bal_get b' A_LAUNCHPAD_DAO dn
      = bal_get b A_LAUNCHPAD_DAO dn
        + (price * o_fee_bps (os_fp st) (is_oairdrop (os_op st)) / 10000
           - (price * o_fee_bps (os_fp st) (is_oairdrop (os_op st)) / 10000 + 1) / 2
           - (price * o_fee_bps (os_fp st) (is_oairdrop (os_op st)) / 10000
              - (price * o_fee_bps (os_fp st) (is_oairdrop (os_op st)) / 10000 + 1) / 2 + 4) / 5) /\
    (forall a d,
        d <> dn \/ ~ In a [e_sender (os_env st); e_contract (os_env st); o_seller s; dv; A_LIQUIDITY_DAO; A_LAUNCHPAD_DAO] ->
        bal_get b' a d = bal_get b a d).
Proof.
  intros Hm H Hdev Hnd.
  destruct (oe_world_mint_equation _ _ _ _ _ _ _ Hm H) as (price & dn & H1 & _ & _ & Hle & _ & Heq).
  unfold dev_or0 in Heq. rewrite Hdev in Heq. cbn [dev0] in Heq.
  exists price, dn. split; [ exact H1 | ]. split; [ exact Hle | ].
  set (fee := price * o_fee_bps (os_fp st) (is_oairdrop (os_op st)) / 10000) in *. clearbody fee.
  set (payer := e_sender (os_env st)) in *. clearbody payer.
  set (minter := e_contract (os_env st)) in *. clearbody minter.
  set (seller := o_seller s) in *. clearbody seller.
  nodup Hnd. split_nots. neq_facts.
  split; [ at_slot Heq payer dn | ].
  split; [ at_slot Heq minter dn | ].
  split; [ at_slot Heq seller dn | ].
  split; [ at_slot Heq dv dn | ].
  split; [ at_slot Heq A_LIQUIDITY_DAO dn | ].
  split; [ at_slot Heq A_LAUNCHPAD_DAO dn | ].
  intros a d Hnot. elsewhere Heq a d dn Hnot.
Qed.

(* a fee of 1, 2 or 3 makes the launchpad-DAO (or liquidity-DAO) share 0: the bank rejects
   the zero send and the whole mint fails *)
Theorem omint_with_tiny_fee_fails vr s b st price dn :
  is_omint (os_op st) = true ->
  o_mint_price s (os_fp st) (os_wv st) (is_oairdrop (os_op st)) = Ok (price, dn) ->
  1 <= price * o_fee_bps (os_fp st) (is_oairdrop (os_op st)) / 10000 <= 3 ->
  oe_world_step vr s b st = Err.
Proof.
  intros Hm Hp Hfee.
  destruct (oe_world_step vr s b st) as [[[s' b'] ms]|] eqn:H; [ exfalso | reflexivity ].
  pose proof H as H0. unfold oe_world_step in H0.
  bind_in H0 b1 Hat. bind_in H0 r Hst. destruct r as [s1 ms1]. bind_in H0 b2 Hap. inv H0.
  destruct (ostep_mint_payment _ _ _ _ _ _ _ _ Hm Hst) as (p & d & H1 & _ & _ & H4 & H5 & _).
  rewrite Hp in H1. inv H1.
  set (fee := p * o_fee_bps (os_fp st) (is_oairdrop (os_op st)) / 10000) in *.
  assert (Hne : fee <> 0) by lia.
  destruct (ofp_dev (os_fp st)) as [dv|] eqn:Ed; [ | exfalso; apply (H4 Hne); reflexivity ].
  assert (Hz : In (Send A_LAUNCHPAD_DAO d 0) (bank_of ms)).
  { rewrite H5. apply in_or_app. left. unfold o_fee_part.
    assert (Hc : fee = 1 \/ fee = 2 \/ fee = 3) by lia.
    clearbody fee. destruct Hc as [Hc|[Hc|Hc]]; subst fee; cbn; right; right; left; reflexivity. }
  rewrite (apply_bmsgs_zero_send _ _ _ _ _ Hz) in Hap. discriminate.
Qed.

(* ---------- base minter ---------- *)
Theorem bmint_payment s e creator fee_bps uri_ok s' ms :
  bstep s e creator fee_bps (BMint uri_ok) = Ok (s', ms) ->
  creator = Some (e_sender e) /\
  b_price s * fee_bps / 10000 <> 0 /\
  e_funds e = [mkCoin NATIVE (b_price s * fee_bps / 10000)] /\
  bank_of ms = [Burn NATIVE (b_price s * fee_bps / 10000 / 2);
                FundPool (e_contract e) NATIVE (b_price s * fee_bps / 10000 - b_price s * fee_bps / 10000 / 2)].
Proof.
  cbn [bstep]. intros H. destruct creator as [c|]; [ | discriminate ].
  destruct (c =? e_sender e) eqn:Ec; cbn [negb] in H; [ | discriminate ]. apply N.eqb_eq in Ec. subst c.
  destruct uri_ok; cbn [negb] in H; [ | discriminate ].
  bind_in H sent Hsent. cbv zeta in H. rewrite mul_floor_bps in H.
  set (fee := b_price s * fee_bps / 10000) in *.
  destruct (U128_MAX <? fee); [ discriminate | ].
  destruct (fee =? sent) eqn:Efs; cbn [negb] in H; [ | discriminate ]. apply N.eqb_eq in Efs. subst sent.
  bind_in H fmsgs Hfm. bind_in H tid Htid. inv H.
  apply must_pay_ok_shape in Hsent. destruct Hsent as [Hfunds Hnz].
  rewrite checked_fair_burn_cases in Hfm. rewrite Hfunds in Hfm. cbn [may_pay c_denom c_amount] in Hfm.
  rewrite N.eqb_refl, N.ltb_irrefl in Hfm.
  destruct (fee =? 0) eqn:Ez; [ apply N.eqb_eq in Ez; contradiction | ]. inv Hfm.
  split; [ reflexivity | ]. split; [ exact Hnz | ]. split; [ exact Hfunds | ].
  rewrite obank_of_app, obank_of_bank. cbn [bank_of flat_map app]. rewrite app_nil_r. reflexivity.
Qed.

Theorem base_world_mint s b st uri_ok s' b' ms :
  bs_op st = BMint uri_ok ->
  base_world_step s b st = Ok (s', b', ms) ->
  NoDup [e_sender (bs_env st); e_contract (bs_env st); A_BURNED; A_FAIRBURN_POOL] ->
  bs_creator st = Some (e_sender (bs_env st)) /\
  b_price s * bs_fee_bps st / 10000 <> 0 /\
  e_funds (bs_env st) = [mkCoin NATIVE (b_price s * bs_fee_bps st / 10000)] /\
  bal_get b' (e_sender (bs_env st)) NATIVE + b_price s * bs_fee_bps st / 10000 = bal_get b (e_sender (bs_env st)) NATIVE /\
  bal_get b' (e_contract (bs_env st)) NATIVE = bal_get b (e_contract (bs_env st)) NATIVE /\
  bal_get b' A_BURNED NATIVE = bal_get b A_BURNED NATIVE + b_price s * bs_fee_bps st / 10000 / 2 /\
  bal_get b' A_FAIRBURN_POOL NATIVE
    = bal_get b A_FAIRBURN_POOL NATIVE + (b_price s * bs_fee_bps st / 10000 - b_price s * bs_fee_bps st / 10000 / 2) /\
  (forall a d, d <> NATIVE \/ ~ In a [e_sender (bs_env st); e_contract (bs_env st); A_BURNED; A_FAIRBURN_POOL] ->
               bal_get b' a d = bal_get b a d) /\
  (forall d, total b' d = total b d).
Proof.
  intros Hop H Hnd. unfold base_world_step in H.
  bind_in H b1 Hat. bind_in H r Hst. destruct r as [s1 ms1]. bind_in H b2 Hap. inv H.
  rewrite Hop in Hst. apply bmint_payment in Hst. destruct Hst as (Hc & Hnz & Hfunds & Hms).
  destruct (attach_apply_balances _ _ _ _ _ _ _ Hat Hap) as (_ & Heq & Htot).
  split; [ exact Hc | ]. split; [ exact Hnz | ]. split; [ exact Hfunds | ].
  rewrite Hfunds, Hms in Heq. clear Hfunds Hms Hat Hap Hc.
  set (fee := b_price s * bs_fee_bps st / 10000) in *. clearbody fee.
  set (payer := e_sender (bs_env st)) in *. clearbody payer.
  set (minter := e_contract (bs_env st)) in *. clearbody minter.
  assert (Heq' : forall a d,
             bal_get b' a d + (if (a =? payer) && (d =? NATIVE) then fee else 0)
             = bal_get b a d + (if (a =? A_BURNED) && (d =? NATIVE) then fee / 2 else 0)
               + (if (a =? A_FAIRBURN_POOL) && (d =? NATIVE) then fee - fee / 2 else 0)).
  { intros a d. specialize (Heq a d). cbn [paid debits debit credits credit c_denom c_amount] in Heq.
    destruct (a =? payer); destruct (a =? minter); destruct (d =? NATIVE); destruct (a =? A_BURNED);
      destruct (a =? A_FAIRBURN_POOL); cbn [andb] in *; lia. }
  clear Heq.
  nodup Hnd. split_nots. neq_facts.
  split; [ at_slot Heq' payer NATIVE | ].
  split; [ at_slot Heq' minter NATIVE | ].
  split; [ at_slot Heq' A_BURNED NATIVE | ].
  split; [ at_slot Heq' A_FAIRBURN_POOL NATIVE | ].
  split; [ | exact Htot ].
  intros a d Hnot. elsewhere Heq' a d NATIVE Hnot.
Qed.
