(* C18 x C08: the creation-fee payment rule of Factory.factory_create, stated for the fee
   governance SUPPLIED.  `agrees g fee` says the factory's stored parameters (Factory.v's
   view) carry the creation fee `fee` (Params.v's view of the same slot). *)
From Coq Require Import List NArith Bool Lia.
From LP Require Import Params ParamsProofs Sg1 Factory Sg1Proofs FactoryProofs.
Import ListNotations.
Local Open Scope N_scope.

Definition agrees (g : gparams) (fee : coin) : Prop :=
  g_fee g = c_amount fee /\ g_fee_denom g = c_denom fee.

Definition payment_rule (k : fkind) (fee : coin) (funds : list coin) : Prop :=
  exists paid, funds = [mkCoin (c_denom fee) paid] /\ paid <> 0 /\ c_amount fee <= paid /\
               (k = FOpen -> paid = c_amount fee).

(* accepted  =>  the payment rule holds for the fee the parameters carry *)
Lemma create_pays_fee : forall k self g now funds r ms fee,
  agrees g fee -> factory_create k self g now funds r = Ok ms -> payment_rule k fee funds.
Proof.
  intros k self g now funds r ms fee [Ha Hd] H.
  apply factory_create_common in H.
  destruct H as (paid & Hf & Hnz & Hge & Hopen & _).
  exists paid. rewrite <- Ha, <- Hd. repeat split; assumption.
Qed.

(* the fee stage never refuses a payment that satisfies the rule *)
Lemma fee_disposal_accepts : forall self g paid,
  paid <> 0 -> g_fee g <= paid ->
  exists ms, fee_disposal self g [mkCoin (g_fee_denom g) paid] = Ok ms.
Proof.
  intros self g paid Hnz Hge. unfold fee_disposal.
  assert (El : paid <? g_fee g = false) by (apply N.ltb_ge; exact Hge).
  assert (Ez : paid =? 0 = false) by (apply N.eqb_neq; exact Hnz).
  destruct (g_fee_denom g =? NATIVE) eqn:En.
  - apply N.eqb_eq in En. rewrite checked_fair_burn_cases. unfold may_pay. cbn [c_denom c_amount].
    rewrite En, N.eqb_refl, El, Ez. eexists; reflexivity.
  - rewrite transfer_to_dao_cases. unfold must_pay, one_coin. cbn [c_amount c_denom bind].
    rewrite Ez. cbn [bind c_denom c_amount]. rewrite N.eqb_refl, El. eexists; reflexivity.
Qed.

(* base factory: accepted  <=>  payment rule, allowed collection code, not frozen *)
Lemma base_create_iff_rule : forall self g now funds r fee,
  agrees g fee ->
  ((exists ms, factory_create FBase self g now funds r = Ok ms) <->
   payment_rule FBase fee funds /\ In (r_coll_code r) (g_allowed g) /\ g_frozen g = false).
Proof.
  intros self g now funds r fee Hag. split.
  - intros [ms H]. split; [eapply create_pays_fee; eassumption|].
    apply factory_create_common in H. destruct H as (_ & _ & _ & _ & _ & Hin & Hfz & _). tauto.
  - intros [(paid & Hf & Hnz & Hge & _) [Hin Hfz]]. destruct Hag as [Ha Hd].
    rewrite <- Ha in Hge. rewrite <- Hd in Hf. subst funds.
    destruct (fee_disposal_accepts self g paid Hnz Hge) as [ms Hms].
    exists ms. unfold factory_create, must_pay, one_coin. cbn [c_amount c_denom bind].
    apply N.eqb_neq in Hnz. rewrite Hnz. cbn [bind c_denom c_amount]. rewrite N.eqb_refl. cbn [bind].
    apply existsb_eqb_in in Hin. rewrite Hin, Hfz. cbn [negb]. rewrite Hms. reflexivity.
Qed.

(* underpaying the supplied fee, or paying in any other denom, is refused by every factory *)
Lemma underpay_refused : forall k self g now r fee paid,
  agrees g fee -> paid < c_amount fee ->
  factory_create k self g now [mkCoin (c_denom fee) paid] r = Err.
Proof.
  intros k self g now r fee paid Hag Hlt.
  destruct (factory_create k self g now [mkCoin (c_denom fee) paid] r) as [ms|] eqn:E; [|reflexivity].
  apply (create_pays_fee _ _ _ _ _ _ _ fee Hag) in E. destruct E as (p & Hf & _ & Hge & _).
  inversion Hf; subst. lia.
Qed.

Lemma other_denom_refused : forall k self g now r fee d paid,
  agrees g fee -> d <> c_denom fee ->
  factory_create k self g now [mkCoin d paid] r = Err.
Proof.
  intros k self g now r fee d paid Hag Hd.
  destruct (factory_create k self g now [mkCoin d paid] r) as [ms|] eqn:E; [|reflexivity].
  apply (create_pays_fee _ _ _ _ _ _ _ fee Hag) in E. destruct E as (p & Hf & _).
  inversion Hf; subst. contradiction.
Qed.

(* after an accepted update that supplied the fee f, the four parameter structures carry f *)
Lemma base_supplied_fee : forall p m p' f,
  base_sudo p m = Ok p' -> cm_creation_fee m = Some f -> cp_creation_fee p' = f.
Proof. intros p m p' f H Hf. apply update_params_frame in H. destruct H as (_ & _ & H3 & _). rewrite H3, Hf. reflexivity. Qed.
Lemma vending_supplied_fee : forall p m p' f,
  vending_sudo p m = Ok p' -> cm_creation_fee (vm_common m) = Some f -> cp_creation_fee (vp_common p') = f.
Proof. intros p m p' f H Hf. apply vending_update_frame in H. destruct H as [(_ & _ & H3 & _) _]. rewrite H3, Hf. reflexivity. Qed.
Lemma oe_supplied_fee : forall p m p' f,
  oe_sudo p m = Ok p' -> cm_creation_fee (om_common m) = Some f -> cp_creation_fee (op_common p') = f.
Proof. intros p m p' f H Hf. apply oe_update_frame in H. destruct H as [(_ & _ & H3 & _) _]. rewrite H3, Hf. reflexivity. Qed.
Lemma tm_supplied_fee : forall p m p' f,
  tm_sudo p m = Ok p' -> tm_creation_fee m = Some f -> tp_creation_fee p' = f.
Proof. intros p m p' f H Hf. apply tm_update_frame in H. destruct H as (_ & _ & H3 & _). rewrite H3, Hf. reflexivity. Qed.
