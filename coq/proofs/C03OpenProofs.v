(* C03 for the three open-edition minters (MinterOpen.ostep): the same step lemmas and
   history theorems as C03Proofs.v, over the open-edition handler model.  Vocabulary
   shared with the vending part: slot, active_slot, is_stage, ev, apply_ev. *)
From LP Require Import Num Pay Sg1 MinterVending MinterOpen MinterVendingProofs C03Proofs.
From Coq Require Import ZArith Lia ZifyN ZifyBool.
Local Open Scope N_scope.

Definition o_slot_map (s : ostate) (sl : slot) : list (addr * N) :=
  match sl with SPlain => o_wl s | SFs => o_fs s | SSs => o_ss s | STs => o_ts s end.
Definition o_stage_total (s : ostate) (sl : slot) : N :=
  match sl with SPlain => 0 | SFs => o_fs_count s | SSs => o_ss_count s | STs => o_ts_count s end.

Definition o_wl_phase (s : ostate) (wv : option wlview) : bool :=
  match o_whitelist s, wv with Some _, Some v => wv_active v | _, _ => false end.

(* the entitlement in force for one call: the whitelist's per-address limit, the flex
   member's own count, or (Merkle variant: a proof is mandatory) the allocation *)
Definition o_entitlement (vr : ovariant) (v : wlview) (alloc : option N) : option N :=
  if ov_flex vr then wv_flex_count v
  else if ov_merkle vr then Some (match alloc with Some al => al | None => wv_limit v end)
  else Some (wv_limit v).

Definition o_stage_room (s : ostate) (v : wlview) (sl : slot) : Prop :=
  is_stage sl = true ->
  exists ol, wv_stage_limit v = Some ol /\ forall lim, ol = Some lim -> o_stage_total s sl < lim.

Definition o_ctr (s : ostate) :=
  (o_public s, o_wl s, (o_fs s, o_ss s, o_ts s), (o_fs_count s, o_ss_count s, o_ts_count s)).
Definition o_cfg (s : ostate) :=
  (o_admin s, o_payment s, o_num_tokens s, o_pal s, o_whitelist s, o_start s, o_end s,
   (o_price s, o_denom s, o_trading s)).

Definition o_bump_pub (s : ostate) (a : addr) :=
  (bump (o_public s) a, o_wl s, (o_fs s, o_ss s, o_ts s), (o_fs_count s, o_ss_count s, o_ts_count s)).
Definition o_bump_wl (s : ostate) (sl : slot) (a : addr) :=
  match sl with
  | SPlain => (o_public s, bump (o_wl s) a, (o_fs s, o_ss s, o_ts s), (o_fs_count s, o_ss_count s, o_ts_count s))
  | SFs => (o_public s, o_wl s, (bump (o_fs s) a, o_ss s, o_ts s), (o_fs_count s + 1, o_ss_count s, o_ts_count s))
  | SSs => (o_public s, o_wl s, (o_fs s, bump (o_ss s) a, o_ts s), (o_fs_count s, o_ss_count s + 1, o_ts_count s))
  | STs => (o_public s, o_wl s, (o_fs s, o_ss s, bump (o_ts s) a), (o_fs_count s, o_ss_count s, o_ts_count s + 1))
  end.

Lemma o_ctr_fields s s' : o_ctr s' = o_ctr s ->
  o_public s' = o_public s /\ (forall sl, o_slot_map s' sl = o_slot_map s sl) /\
  (forall sl, o_stage_total s' sl = o_stage_total s sl).
Proof.
  unfold o_ctr. intros H. inversion H. split; [ congruence | ].
  split; intros sl; destruct sl; cbn [o_slot_map o_stage_total]; congruence.
Qed.

Lemma o_bump_pub_fields s s' a : o_ctr s' = o_bump_pub s a ->
  o_public s' = bump (o_public s) a /\ (forall sl, o_slot_map s' sl = o_slot_map s sl) /\
  (forall sl, o_stage_total s' sl = o_stage_total s sl).
Proof.
  unfold o_ctr, o_bump_pub. intros H. inversion H. split; [ congruence | ].
  split; intros sl; destruct sl; cbn [o_slot_map o_stage_total]; congruence.
Qed.

Lemma o_bump_wl_fields s s' sl a : o_ctr s' = o_bump_wl s sl a ->
  o_public s' = o_public s /\
  o_slot_map s' sl = bump (o_slot_map s sl) a /\
  (forall sl', sl' <> sl -> o_slot_map s' sl' = o_slot_map s sl') /\
  (is_stage sl = true -> o_stage_total s' sl = o_stage_total s sl + 1) /\
  (forall sl', sl' <> sl -> o_stage_total s' sl' = o_stage_total s sl').
Proof.
  unfold o_ctr, o_bump_wl. intros H.
  destruct sl; inversion H; cbn [o_slot_map o_stage_total is_stage];
    (split; [ congruence | ]); (split; [ congruence | ]);
    (split; [ intros sl' Hn; destruct sl'; cbn [o_slot_map]; congruence | ]);
    (split; [ intros Hs; try discriminate; congruence | ]);
    intros sl' Hn; destruct sl'; cbn [o_stage_total]; congruence.
Qed.

Lemma o_wl_count_slot s v a c :
  o_wl_count s v a = Ok c ->
  exists sl, active_slot v = Some sl /\ c = (get (o_slot_map s sl) a, is_stage sl, stage_num sl).
Proof.
  unfold o_wl_count, active_slot. destruct (wv_tiered v).
  - destruct (wv_stage_id v) as [k|]; [ | discriminate ].
    destruct k as [|p]; [ discriminate | ].
    destruct p as [p|p|].
    + destruct p as [p|p|]; try discriminate. intros H. inv H. exists STs. split; reflexivity.
    + destruct p as [p|p|]; try discriminate. intros H. inv H. exists SSs. split; reflexivity.
    + intros H. inv H. exists SFs. split; reflexivity.
  - intros H. inv H. exists SPlain. split; reflexivity.
Qed.

Lemma inc32_ok x c : inc32 x = Ok c -> c = x + 1.
Proof. unfold inc32. destruct (U32_MAX <=? x); intros H; inv H. reflexivity. Qed.

Lemma guard_ltb a b u : guard (a <? b) = Ok u -> a < b.
Proof. destruct u. intros H. apply guard_ok in H. apply N.ltb_lt. exact H. Qed.

Lemma o_is_public_phase vr s wv a proof alloc b :
  o_is_public_mint vr s wv a proof alloc = Ok b -> b = negb (o_wl_phase s wv).
Proof.
  unfold o_is_public_mint, o_wl_phase. destruct (o_whitelist s) as [w|]; [ | intros H; inv H; reflexivity ].
  destruct wv as [v|]; [ | discriminate ].
  destruct (wv_active v); cbn [negb]; [ | intros H; inv H; reflexivity ].
  intros H. repeat step_hyp H; inv H; reflexivity.
Qed.

Lemma o_is_public_false vr s wv a proof alloc :
  o_is_public_mint vr s wv a proof alloc = Ok false ->
  exists w v sl ent,
    o_whitelist s = Some w /\ wv = Some v /\ wv_active v = true /\
    (if ov_merkle vr then proof = true /\ wv_has_proof v = Some true else wv_has_plain v = Some true) /\
    active_slot v = Some sl /\
    o_entitlement vr v alloc = Some ent /\
    get (o_slot_map s sl) a < ent /\
    (ov_flex vr = true -> o_num_tokens s = None -> get (o_slot_map s sl) a < o_pal s) /\
    o_stage_room s v sl.
Proof.
  unfold o_is_public_mint. destruct (o_whitelist s) as [w|]; [ | discriminate ].
  destruct wv as [v|]; [ | discriminate ].
  destruct (wv_active v) eqn:Eact; cbn [negb]; [ | discriminate ].
  intros H. bind_in H u Hmem.
  assert (Hm : if ov_merkle vr then proof = true /\ wv_has_proof v = Some true else wv_has_plain v = Some true).
  { destruct (ov_merkle vr).
    - destruct proof; cbn [negb] in Hmem; [ | discriminate ].
      destruct (wv_has_proof v) as [[|]|]; try discriminate. auto.
    - destruct (wv_has_plain v) as [[|]|]; try discriminate. reflexivity. }
  bind_in H c Hc. apply o_wl_count_slot in Hc. destruct Hc as (sl & Hsl & ->).
  bind_in H u2 Hlim.
  assert (He : exists ent, o_entitlement vr v alloc = Some ent /\ get (o_slot_map s sl) a < ent /\
               (ov_flex vr = true -> o_num_tokens s = None -> get (o_slot_map s sl) a < o_pal s)).
  { unfold o_entitlement. destruct (ov_flex vr).
    - bind_in Hlim u3 Hpal.
      destruct (wv_flex_count v) as [m|]; [ | discriminate ].
      apply guard_ltb in Hlim. exists m. split; [ reflexivity | ]. split; [ exact Hlim | ].
      intros _ Hn. rewrite Hn in Hpal. apply guard_ltb in Hpal. exact Hpal.
    - destruct (ov_merkle vr); apply guard_ltb in Hlim; eexists; (split; [ reflexivity | ]); (split; [ exact Hlim | ]);
        intros Hf; discriminate. }
  destruct He as (ent & Hent & Hlt & Hpal).
  exists w, v, sl, ent. repeat (split; [ first [ reflexivity | assumption ] | ]).
  intros Hst. destruct sl; try discriminate; cbn [is_stage stage_num] in H;
    (destruct (wv_stage_limit v) as [[lim|]|]; [ | | discriminate ];
     [ | eexists; split; [ reflexivity | intros l Hl; discriminate ] ];
     match type of H with (if ?c then _ else _) = _ => destruct c eqn:El; [ discriminate | ] end;
     apply N.leb_gt in El; eexists; split; [ reflexivity | ]; intros l Hl; inv Hl; exact El).
Qed.

Lemma o_bump_counts_ctr s e wv isp s1 :
  o_bump_counts s e wv isp = Ok s1 ->
  o_cfg s1 = o_cfg s /\ o_mintable s1 = o_mintable s /\
  (if isp then o_ctr s1 = o_bump_pub s (e_sender e)
   else exists v sl, wv = Some v /\ active_slot v = Some sl /\ o_ctr s1 = o_bump_wl s sl (e_sender e)).
Proof.
  unfold o_bump_counts. destruct isp.
  - intros H. bind_in H c Hc. apply inc32_ok in Hc. subst c. inv H. cbn. auto.
  - destruct (o_whitelist s) as [w|]; [ | discriminate ]. destruct wv as [v|]; [ | discriminate ].
    intros H. bind_in H c3 Hc3. apply o_wl_count_slot in Hc3. destruct Hc3 as (sl & Hsl & ->).
    bind_in H c Hc. apply inc32_ok in Hc. subst c.
    destruct sl; cbn [is_stage stage_num] in H.
    + inv H. cbn. split; [ reflexivity | ]. split; [ reflexivity | ]. exists v, SPlain. auto.
    + bind_in H k Hk. apply inc32_ok in Hk. subst k. inv H. cbn.
      split; [ reflexivity | ]. split; [ reflexivity | ]. exists v, SFs. auto.
    + bind_in H k Hk. apply inc32_ok in Hk. subst k. inv H. cbn.
      split; [ reflexivity | ]. split; [ reflexivity | ]. exists v, SSs. auto.
    + bind_in H k Hk. apply inc32_ok in Hk. subst k. inv H. cbn.
      split; [ reflexivity | ]. split; [ reflexivity | ]. exists v, STs. auto.
Qed.

Lemma o_mint_ctr vr s e fp wv adm rcp isp s' ms :
  o_execute_mint vr s e fp wv adm rcp isp = Ok (s', ms) ->
  o_cfg s' = o_cfg s /\
  o_mintable s <> Some 0 /\
  (if isp then o_ctr s' = o_bump_pub s (e_sender e)
   else exists v sl, wv = Some v /\ active_slot v = Some sl /\ o_ctr s' = o_bump_wl s sl (e_sender e)).
Proof.
  unfold o_execute_mint. intros H.
  destruct (match o_mintable s with Some 0 => true | _ => false end) eqn:Em; [ discriminate | ].
  assert (Hm : o_mintable s <> Some 0).
  { intro Hz. rewrite Hz in Em. discriminate. }
  bind_in H pr Hpr. destruct pr as [amount dn].
  bind_in H payment Hpay.
  destruct (negb (payment =? amount)); [ discriminate | ].
  match type of H with (if ?c then _ else _) = _ => destruct c; [ discriminate | ] end.
  bind_in H fmsgs Hfm.
  bind_in H tid Htid.
  bind_in H s1 Hs1.
  bind_in H total' Ht.
  bind_in H airdrops' Ha.
  bind_in H amt Hamt. inv H.
  apply o_bump_counts_ctr in Hs1. destruct Hs1 as (Hc & _ & Hk).
  split; [ cbn; exact Hc | ]. split; [ exact Hm | ].
  destruct isp; cbn; exact Hk.
Qed.

(* ---------- the Mint step ---------- *)
Theorem o_public_mint_step vr s e fp wv stage proof alloc s' ms :
  ostep vr s e fp wv (EMint stage proof alloc) = Ok (s', ms) ->
  o_wl_phase s wv = false ->
  o_start s <= e_now e /\ o_ended s (e_now e) = false /\
  get (o_public s) (e_sender e) < o_pal s /\
  get (o_public s') (e_sender e) = get (o_public s) (e_sender e) + 1 /\
  (forall b, b <> e_sender e -> get (o_public s') b = get (o_public s) b) /\
  (forall sl, o_slot_map s' sl = o_slot_map s sl) /\
  (forall sl, o_stage_total s' sl = o_stage_total s sl) /\
  o_cfg s' = o_cfg s /\ o_mintable s <> Some 0.
Proof.
  cbn [ostep]. intros H Hph.
  bind_in H isp Hisp. pose proof (o_is_public_phase _ _ _ _ _ _ _ Hisp) as Hb.
  rewrite Hph in Hb. cbn [negb] in Hb. subst isp. cbn [andb] in H.
  destruct (e_now e <? o_start s) eqn:Et; [ discriminate | ]. apply N.ltb_ge in Et.
  destruct (o_ended s (e_now e)) eqn:Een; [ discriminate | ].
  destruct (o_pal s <=? get (o_public s) (e_sender e)) eqn:El; [ discriminate | ]. apply N.leb_gt in El.
  apply o_mint_ctr in H. destruct H as (Hc & Hm & Hctr).
  apply o_bump_pub_fields in Hctr. destruct Hctr as (Hp & Hs & Ht).
  split; [ exact Et | ]. split; [ reflexivity | ]. split; [ exact El | ].
  rewrite Hp. unfold bump. split; [ apply get_set_same | ].
  split; [ intros b Hb; apply get_set_other; congruence | ].
  auto.
Qed.

Theorem o_whitelist_mint_step vr s e fp wv stage proof alloc s' ms :
  ostep vr s e fp wv (EMint stage proof alloc) = Ok (s', ms) ->
  o_wl_phase s wv = true ->
  exists v sl ent,
    wv = Some v /\ wv_active v = true /\ o_ended s (e_now e) = false /\
    (if ov_merkle vr then proof = true /\ wv_has_proof v = Some true else wv_has_plain v = Some true) /\
    active_slot v = Some sl /\
    o_entitlement vr v alloc = Some ent /\
    get (o_slot_map s sl) (e_sender e) < ent /\
    (ov_flex vr = true -> o_num_tokens s = None -> get (o_slot_map s sl) (e_sender e) < o_pal s) /\
    o_stage_room s v sl /\
    get (o_slot_map s' sl) (e_sender e) = get (o_slot_map s sl) (e_sender e) + 1 /\
    (forall b, b <> e_sender e -> get (o_slot_map s' sl) b = get (o_slot_map s sl) b) /\
    (forall sl', sl' <> sl -> o_slot_map s' sl' = o_slot_map s sl') /\
    (is_stage sl = true -> o_stage_total s' sl = o_stage_total s sl + 1) /\
    (forall sl', sl' <> sl -> o_stage_total s' sl' = o_stage_total s sl') /\
    o_public s' = o_public s /\
    o_cfg s' = o_cfg s /\ o_mintable s <> Some 0.
Proof.
  cbn [ostep]. intros H Hph.
  bind_in H isp Hisp. pose proof (o_is_public_phase _ _ _ _ _ _ _ Hisp) as Hb.
  rewrite Hph in Hb. cbn [negb] in Hb. subst isp. cbn [andb] in H.
  destruct (o_ended s (e_now e)) eqn:Een; [ discriminate | ].
  apply o_is_public_false in Hisp.
  destruct Hisp as (w & v & sl & ent & Hw & Hwv & Hact & Hhas & Hsl & Hent & Hlt & Hpal & Hroom).
  apply o_mint_ctr in H. destruct H as (Hc & Hm & v' & sl' & Hwv' & Hsl' & Hctr).
  rewrite Hwv in Hwv'. inv Hwv'. rewrite Hsl in Hsl'. inv Hsl'.
  apply o_bump_wl_fields in Hctr. destruct Hctr as (Hp & Hmap & Hoth & Htot & Htoth).
  exists v', sl', ent. repeat (split; [ first [ reflexivity | assumption ] | ]).
  rewrite Hmap. unfold bump. split; [ apply get_set_same | ].
  split; [ intros b Hb; apply get_set_other; congruence | ].
  auto 10.
Qed.

(* ---------- unauthenticated fields ---------- *)
(* the plain and flex open-edition minters have no stage / proof / allocation fields;
   in the model their outcome does not depend on them *)
Theorem o_args_ignored_without_merkle vr s e fp wv st pr al st' pr' al' :
  ov_merkle vr = false ->
  ostep vr s e fp wv (EMint st pr al) = ostep vr s e fp wv (EMint st' pr' al').
Proof.
  intros Hm. cbn [ostep].
  assert (Hip : o_is_public_mint vr s wv (e_sender e) pr al = o_is_public_mint vr s wv (e_sender e) pr' al').
  { unfold o_is_public_mint. rewrite Hm. reflexivity. }
  rewrite Hip. reflexivity.
Qed.

(* the Merkle variant: `stage` reaches the decision only through the whitelist's answer
   about the leaf; the allocation counts only together with a proof the whitelist accepted
   (o_whitelist_mint_step: proof = true and wv_has_proof = Some true on every success) *)
Theorem o_stage_only_through_proof vr s e fp wv pr al st st' :
  ostep vr s e fp wv (EMint st pr al) = ostep vr s e fp wv (EMint st' pr al).
Proof. reflexivity. Qed.

(* ---------- admin mints ---------- *)
Theorem o_admin_mint_step vr s e fp wv rok r s' ms :
  ostep vr s e fp wv (EMintTo rok r) = Ok (s', ms) ->
  e_sender e = o_admin s /\
  get (o_public s') (o_admin s) = get (o_public s) (o_admin s) + 1 /\
  (forall b, b <> o_admin s -> get (o_public s') b = get (o_public s) b) /\
  (forall sl, o_slot_map s' sl = o_slot_map s sl) /\
  (forall sl, o_stage_total s' sl = o_stage_total s sl) /\
  o_cfg s' = o_cfg s /\ o_mintable s <> Some 0 /\ o_ended s (e_now e) = false.
Proof.
  cbn [ostep]. intros H.
  destruct (negb rok); [ discriminate | ].
  destruct (negb (o_is_admin s e)) eqn:Ea; [ discriminate | ].
  apply negb_false_iff in Ea. unfold o_is_admin in Ea. apply N.eqb_eq in Ea.
  destruct (o_ended s (e_now e)) eqn:Een; [ discriminate | ].
  apply o_mint_ctr in H. destruct H as (Hc & Hm & Hctr).
  apply o_bump_pub_fields in Hctr. destruct Hctr as (Hp & Hs & Ht).
  split; [ exact Ea | ]. rewrite Hp, Ea. unfold bump. split; [ apply get_set_same | ].
  split; [ intros b Hb; apply get_set_other; congruence | ]. auto 10.
Qed.

(* ---------- purge ---------- *)
(* the sale is over: past the end time when there is one, else sold out (when a count
   is kept at all) *)
Definition o_over (s : ostate) (now : N) : Prop :=
  match o_end s with
  | Some en => en < now
  | None => match o_mintable s with Some m => m = 0 | None => True end
  end.

Ltac purge_fin :=
  cbn; repeat split; auto; try lia; try (intros; discriminate);
  try (let sl := fresh "sl" in intros sl; destruct sl; cbn; auto; intros; discriminate).

Theorem o_purge_step vr s e fp wv s' ms :
  ostep vr s e fp wv EPurge = Ok (s', ms) ->
  o_over s (e_now e) /\
  (ov_flex vr = true -> o_mintable s = Some 0 \/ o_mintable s = None) /\
  o_public s' = [] /\
  o_slot_map s' SPlain = (if ov_flex vr then [] else o_slot_map s SPlain) /\
  (forall sl, is_stage sl = true -> o_slot_map s' sl = o_slot_map s sl) /\
  (forall sl, o_stage_total s' sl = o_stage_total s sl) /\
  o_cfg s' = o_cfg s /\ o_mintable s' = o_mintable s.
Proof.
  cbn [ostep]. intros H. bind_in H u Hu.
  unfold o_over, o_not_after_end in *.
  destruct (ov_flex vr).
  - destruct (o_mintable s) as [m|] eqn:Em.
    + destruct (m =? 0) eqn:Ez; cbn [negb] in H; [ | discriminate ]. apply N.eqb_eq in Ez. subst m.
      destruct (o_end s) as [en|] eqn:Ee.
      * destruct (e_now e <=? en) eqn:El; [ discriminate | ]. apply N.leb_gt in El. inv H. purge_fin.
      * inv H. purge_fin.
    + destruct (o_end s) as [en|] eqn:Ee.
      * destruct (e_now e <=? en) eqn:El; [ discriminate | ]. apply N.leb_gt in El. inv H. purge_fin.
      * inv H. purge_fin.
  - destruct (o_end s) as [en|] eqn:Ee.
    + destruct (e_now e <=? en) eqn:El; [ discriminate | ]. apply N.leb_gt in El.
      rewrite andb_false_r in H. inv H. purge_fin.
    + rewrite andb_true_r in H.
      destruct (o_mintable s) as [m|] eqn:Em.
      * destruct (m =? 0) eqn:Ez; cbn [negb] in H; [ | discriminate ]. apply N.eqb_eq in Ez. subst m.
        inv H. purge_fin.
      * inv H. purge_fin.
Qed.

(* ---------- every other operation leaves the counters alone ---------- *)
Definition o_counting_op (o : eop) : bool :=
  match o with EMint _ _ _ | EMintTo _ _ | EPurge => true | _ => false end.

Theorem o_other_ops_keep_counters vr s e fp wv o s' ms :
  o_counting_op o = false -> ostep vr s e fp wv o = Ok (s', ms) -> o_ctr s' = o_ctr s.
Proof.
  intros Ho H. destruct o; try discriminate Ho; cbn [ostep] in H; repeat step_hyp H; inv H; reflexivity.
Qed.

Theorem o_pal_changes_only_by_update vr s e fp wv o s' ms :
  (match o with EUpdatePerAddressLimit _ => False | _ => True end) ->
  ostep vr s e fp wv o = Ok (s', ms) -> o_pal s' = o_pal s.
Proof.
  intros Ho H.
  assert (Hcore : forall adm rcp isp,
             o_execute_mint vr s e fp wv adm rcp isp = Ok (s', ms) -> o_pal s' = o_pal s).
  { intros adm rcp isp Hc. apply o_mint_ctr in Hc. destruct Hc as (Hc & _). unfold o_cfg in Hc. congruence. }
  destruct o; try contradiction; cbn [ostep] in H; repeat step_hyp H; try (eapply Hcore; eassumption); inv H; reflexivity.
Qed.

(* ---------- histories ---------- *)
Record ocall := mkOCall { oc_env : env; oc_fp : ofparams; oc_wv : option wlview; oc_op : eop }.
Definition ocstep (vr : ovariant) (s : ostate) (c : ocall) := ostep vr s (oc_env c) (oc_fp c) (oc_wv c) (oc_op c).
Definition o_apply_call (vr : ovariant) (s : ostate) (c : ocall) : ostate :=
  match ocstep vr s c with Ok (s', _) => s' | Err => s end.
Definition orun (vr : ovariant) (s : ostate) (cs : list ocall) : ostate := fold_left (o_apply_call vr) cs s.
Definition osender (c : ocall) : addr := e_sender (oc_env c).

Lemma orun_cons vr s c cs : orun vr s (c :: cs) = orun vr (o_apply_call vr s c) cs.
Proof. reflexivity. Qed.

Fixpoint otally (vr : ovariant) (evf : ostate -> ocall -> ev) (s : ostate) (cs : list ocall) (acc : N) : N :=
  match cs with
  | [] => acc
  | c :: r =>
      match ocstep vr s c with
      | Ok (s', _) => otally vr evf s' r (apply_ev (evf s c) acc)
      | Err => otally vr evf s r acc
      end
  end.

Lemma otally_app vr evf cs1 cs2 : forall s acc,
  otally vr evf s (cs1 ++ cs2) acc = otally vr evf (orun vr s cs1) cs2 (otally vr evf s cs1 acc).
Proof.
  induction cs1 as [|c r IH]; intros s acc; [ reflexivity | ].
  cbn [app otally]. rewrite orun_cons. unfold o_apply_call.
  destruct (ocstep vr s c) as [[s' ms]|]; apply IH.
Qed.

Lemma otally_inv vr evf (R : ostate -> N -> Prop) :
  (forall s c s' ms acc, ocstep vr s c = Ok (s', ms) -> R s acc -> R s' (apply_ev (evf s c) acc)) ->
  forall cs s acc, R s acc -> R (orun vr s cs) (otally vr evf s cs acc).
Proof.
  intros Hstep. induction cs as [|c r IH]; intros s acc HR; [ exact HR | ].
  cbn [otally]. rewrite orun_cons. unfold o_apply_call.
  destruct (ocstep vr s c) as [[s' ms]|] eqn:E; apply IH; [ eapply Hstep; eauto | exact HR ].
Qed.

Definition o_is_pub_mint_of (a : addr) (s : ostate) (c : ocall) : bool :=
  match oc_op c with
  | EMint _ _ _ => (osender c =? a) && negb (o_wl_phase s (oc_wv c))
  | _ => false
  end.
Definition o_is_admin_mint_of (a : addr) (c : ocall) : bool :=
  match oc_op c with EMintTo _ _ => osender c =? a | _ => false end.
Definition o_call_slot (c : ocall) : option slot :=
  match oc_wv c with Some v => active_slot v | None => None end.
Definition o_is_wl_mint_in (sl : slot) (s : ostate) (c : ocall) : bool :=
  match oc_op c with
  | EMint _ _ _ =>
      o_wl_phase s (oc_wv c) && match o_call_slot c with Some sl' => slot_eqb sl' sl | None => false end
  | _ => false
  end.
Definition o_is_wl_mint_of (a : addr) (sl : slot) (s : ostate) (c : ocall) : bool :=
  (osender c =? a) && o_is_wl_mint_in sl s c.
Definition o_is_purge (c : ocall) : bool := match oc_op c with EPurge => true | _ => false end.

Definition o_pub_ev (a : addr) (s : ostate) (c : ocall) : ev :=
  if o_is_purge c then EvReset
  else if o_is_pub_mint_of a s c || o_is_admin_mint_of a c then EvInc else EvNone.
Definition o_purge_clears (vr : ovariant) (sl : slot) : bool :=
  ov_flex vr && match sl with SPlain => true | _ => false end.
Definition o_wl_ev (vr : ovariant) (a : addr) (sl : slot) (s : ostate) (c : ocall) : ev :=
  if o_is_purge c && o_purge_clears vr sl then EvReset
  else if o_is_wl_mint_of a sl s c then EvInc else EvNone.
Definition o_stage_ev (sl : slot) (s : ostate) (c : ocall) : ev :=
  if o_is_wl_mint_in sl s c then EvInc else EvNone.

Lemma o_step_public_count vr a s c s' ms :
  ocstep vr s c = Ok (s', ms) ->
  get (o_public s') a = apply_ev (o_pub_ev a s c) (get (o_public s) a).
Proof.
  unfold ocstep, o_pub_ev, o_is_purge, o_is_pub_mint_of, o_is_admin_mint_of, osender.
  intros H. destruct (oc_op c) eqn:Eo.
  - cbn [orb]. rewrite orb_false_r.
    destruct (o_wl_phase s (oc_wv c)) eqn:Eph; cbn [negb].
    + rewrite andb_false_r. cbn [apply_ev].
      apply o_whitelist_mint_step in H; [ | exact Eph ].
      destruct H as (v & sl & ent & _ & _ & _ & _ & _ & _ & _ & _ & _ & _ & _ & _ & _ & _ & Hp & _). rewrite Hp. reflexivity.
    + rewrite andb_true_r. apply o_public_mint_step in H; [ | exact Eph ].
      destruct H as (_ & _ & _ & Hinc & Hoth & _).
      destruct (e_sender (oc_env c) =? a) eqn:Ea; cbn [apply_ev].
      * apply N.eqb_eq in Ea. subst a. exact Hinc.
      * apply N.eqb_neq in Ea. apply Hoth. congruence.
  - cbn [orb]. apply o_admin_mint_step in H. destruct H as (Hs & Hinc & Hoth & _).
    destruct (e_sender (oc_env c) =? a) eqn:Ea; cbn [apply_ev].
    + apply N.eqb_eq in Ea. subst a. rewrite Hs. exact Hinc.
    + apply N.eqb_neq in Ea. apply Hoth. congruence.
  - apply o_purge_step in H. destruct H as (_ & _ & Hp & _). rewrite Hp. reflexivity.
  - apply o_other_ops_keep_counters in H; [ | reflexivity ]. apply o_ctr_fields in H. destruct H as (Hp & _). rewrite Hp. reflexivity.
  - apply o_other_ops_keep_counters in H; [ | reflexivity ]. apply o_ctr_fields in H. destruct H as (Hp & _). rewrite Hp. reflexivity.
  - apply o_other_ops_keep_counters in H; [ | reflexivity ]. apply o_ctr_fields in H. destruct H as (Hp & _). rewrite Hp. reflexivity.
  - apply o_other_ops_keep_counters in H; [ | reflexivity ]. apply o_ctr_fields in H. destruct H as (Hp & _). rewrite Hp. reflexivity.
  - apply o_other_ops_keep_counters in H; [ | reflexivity ]. apply o_ctr_fields in H. destruct H as (Hp & _). rewrite Hp. reflexivity.
  - apply o_other_ops_keep_counters in H; [ | reflexivity ]. apply o_ctr_fields in H. destruct H as (Hp & _). rewrite Hp. reflexivity.
  - apply o_other_ops_keep_counters in H; [ | reflexivity ]. apply o_ctr_fields in H. destruct H as (Hp & _). rewrite Hp. reflexivity.
Qed.

Lemma o_step_wl_count vr a sl s c s' ms :
  ocstep vr s c = Ok (s', ms) ->
  get (o_slot_map s' sl) a = apply_ev (o_wl_ev vr a sl s c) (get (o_slot_map s sl) a) /\
  o_stage_total s' sl = (if is_stage sl then apply_ev (o_stage_ev sl s c) (o_stage_total s sl) else 0).
Proof.
  unfold ocstep, o_wl_ev, o_stage_ev, o_is_purge, o_is_wl_mint_of, o_is_wl_mint_in, o_call_slot, osender.
  intros H. destruct (oc_op c) eqn:Eo.
  - cbn [andb]. destruct (o_wl_phase s (oc_wv c)) eqn:Eph; cbn [andb].
    + apply o_whitelist_mint_step in H; [ | exact Eph ].
      destruct H as (v & sl0 & ent & Hwv & _ & _ & _ & Hsl & _ & _ & _ & _ & Hinc & Hoth & Hslots & Htot & Htoth & _).
      rewrite Hwv, Hsl. destruct (slot_eqb sl0 sl) eqn:Es.
      * apply slot_eqb_eq in Es. subst sl0.
        assert (Ht : o_stage_total s' sl = (if is_stage sl then o_stage_total s sl + 1 else 0)).
        { destruct (is_stage sl) eqn:Ei; [ apply Htot; reflexivity | destruct sl; try discriminate; reflexivity ]. }
        destruct (e_sender (oc_env c) =? a) eqn:Ea; cbn [andb apply_ev].
        -- apply N.eqb_eq in Ea. subst a. auto.
        -- apply N.eqb_neq in Ea. rewrite Hoth by congruence. auto.
      * assert (Hne : sl <> sl0). { intro; subst. destruct sl0; discriminate. }
        rewrite andb_false_r. cbn [apply_ev]. rewrite (Hslots _ Hne), (Htoth _ Hne).
        split; [ reflexivity | ]. destruct sl; reflexivity.
    + rewrite andb_false_r. cbn [apply_ev]. apply o_public_mint_step in H; [ | exact Eph ].
      destruct H as (_ & _ & _ & _ & _ & Hs & Ht & _). rewrite Hs, Ht.
      split; [ reflexivity | ]. destruct sl; reflexivity.
  - cbn [andb apply_ev]. rewrite andb_false_r. cbn [apply_ev].
    apply o_admin_mint_step in H. destruct H as (_ & _ & _ & Hs & Ht & _). rewrite Hs, Ht.
    split; [ reflexivity | ]. destruct sl; reflexivity.
  - apply o_purge_step in H. destruct H as (_ & _ & _ & Hpl & Hst & Ht & _). rewrite Ht.
    unfold o_purge_clears. cbn [andb]. split; [ | destruct sl; reflexivity ].
    destruct sl; cbn [andb]; rewrite ?andb_false_r; cbn [apply_ev]; try (rewrite Hst by reflexivity; reflexivity).
    rewrite Hpl. rewrite andb_true_r. destruct (ov_flex vr); reflexivity.
  - apply o_other_ops_keep_counters in H; [ | reflexivity ]. apply o_ctr_fields in H. destruct H as (_ & Hs & Ht). rewrite Hs, Ht. cbn. rewrite andb_false_r. cbn. split; destruct sl; reflexivity.
  - apply o_other_ops_keep_counters in H; [ | reflexivity ]. apply o_ctr_fields in H. destruct H as (_ & Hs & Ht). rewrite Hs, Ht. cbn. rewrite andb_false_r. cbn. split; destruct sl; reflexivity.
  - apply o_other_ops_keep_counters in H; [ | reflexivity ]. apply o_ctr_fields in H. destruct H as (_ & Hs & Ht). rewrite Hs, Ht. cbn. rewrite andb_false_r. cbn. split; destruct sl; reflexivity.
  - apply o_other_ops_keep_counters in H; [ | reflexivity ]. apply o_ctr_fields in H. destruct H as (_ & Hs & Ht). rewrite Hs, Ht. cbn. rewrite andb_false_r. cbn. split; destruct sl; reflexivity.
  - apply o_other_ops_keep_counters in H; [ | reflexivity ]. apply o_ctr_fields in H. destruct H as (_ & Hs & Ht). rewrite Hs, Ht. cbn. rewrite andb_false_r. cbn. split; destruct sl; reflexivity.
  - apply o_other_ops_keep_counters in H; [ | reflexivity ]. apply o_ctr_fields in H. destruct H as (_ & Hs & Ht). rewrite Hs, Ht. cbn. rewrite andb_false_r. cbn. split; destruct sl; reflexivity.
  - apply o_other_ops_keep_counters in H; [ | reflexivity ]. apply o_ctr_fields in H. destruct H as (_ & Hs & Ht). rewrite Hs, Ht. cbn. rewrite andb_false_r. cbn. split; destruct sl; reflexivity.
Qed.

Theorem o_public_count_reported vr a cs s :
  get (o_public (orun vr s cs)) a = otally vr (o_pub_ev a) s cs (get (o_public s) a).
Proof.
  apply (otally_inv vr (o_pub_ev a) (fun s acc => get (o_public s) a = acc)); [ | reflexivity ].
  intros s0 c s' ms acc H <-. apply (o_step_public_count vr a) in H. exact H.
Qed.

Theorem o_whitelist_count_reported vr a sl cs s :
  get (o_slot_map (orun vr s cs) sl) a = otally vr (o_wl_ev vr a sl) s cs (get (o_slot_map s sl) a).
Proof.
  apply (otally_inv vr (o_wl_ev vr a sl) (fun s acc => get (o_slot_map s sl) a = acc)); [ | reflexivity ].
  intros s0 c s' ms acc H <-. apply (o_step_wl_count vr a sl) in H. tauto.
Qed.

Theorem o_stage_total_reported vr sl cs s :
  is_stage sl = true ->
  o_stage_total (orun vr s cs) sl = otally vr (o_stage_ev sl) s cs (o_stage_total s sl).
Proof.
  intros Hst.
  apply (otally_inv vr (o_stage_ev sl) (fun s acc => o_stage_total s sl = acc)); [ | reflexivity ].
  intros s0 c s' ms acc H <-. apply (o_step_wl_count vr 0 sl) in H. rewrite Hst in H. tauto.
Qed.

Theorem o_mint_count_query_reported vr a cs s :
  let pub := otally vr (o_pub_ev a) s cs (get (o_public s) a) in
  let wl := wl_sum (fun sl => otally vr (o_wl_ev vr a sl) s cs (get (o_slot_map s sl) a)) in
  oq_mint_count vr (orun vr s cs) a = if ov_flex vr then (pub, wl) else (pub + wl, 0).
Proof.
  cbn zeta. unfold oq_mint_count, wl_sum.
  rewrite <- (o_public_count_reported vr a cs s).
  rewrite <- !(o_whitelist_count_reported vr a _ cs s). reflexivity.
Qed.

(* never exceeds, with the limit in force at each mint; counts since the last purge
   (a purge needs the sale to be over: o_purge_step) *)
Theorem o_never_exceeds_public vr a s0 cs1 c s2 ms :
  let s1 := orun vr s0 cs1 in
  ocstep vr s1 c = Ok (s2, ms) ->
  o_is_pub_mint_of a s1 c = true ->
  otally vr (o_pub_ev a) s0 (cs1 ++ [c]) (get (o_public s0) a) <= o_pal s1.
Proof.
  cbn zeta. intros H Hp.
  rewrite otally_app. cbn [otally]. rewrite H.
  unfold o_pub_ev at 1. rewrite Hp. cbn [orb].
  unfold o_is_pub_mint_of in Hp. destruct (oc_op c) eqn:Eo; try discriminate.
  unfold o_is_purge. rewrite Eo. cbn [apply_ev].
  apply andb_prop in Hp. destruct Hp as [Ha Hph]. apply N.eqb_eq in Ha. apply negb_true_iff in Hph.
  unfold ocstep in H. rewrite Eo in H. apply o_public_mint_step in H; [ | exact Hph ].
  destruct H as (_ & _ & Hlt & _).
  rewrite <- (o_public_count_reported vr a cs1 s0).
  unfold osender in Ha. rewrite Ha in Hlt. lia.
Qed.

Theorem o_never_exceeds_whitelist vr a sl s0 cs1 c s2 ms :
  let s1 := orun vr s0 cs1 in
  ocstep vr s1 c = Ok (s2, ms) ->
  o_is_wl_mint_of a sl s1 c = true ->
  exists stage proof alloc v ent,
    oc_op c = EMint stage proof alloc /\ oc_wv c = Some v /\
    o_entitlement vr v alloc = Some ent /\
    (ov_merkle vr = true -> proof = true /\ wv_has_proof v = Some true) /\
    otally vr (o_wl_ev vr a sl) s0 (cs1 ++ [c]) (get (o_slot_map s0 sl) a) <= ent.
Proof.
  cbn zeta. intros H Hp.
  rewrite otally_app. cbn [otally]. rewrite H.
  unfold o_wl_ev at 1. rewrite Hp.
  unfold o_is_wl_mint_of, o_is_wl_mint_in, o_call_slot in Hp. destruct (oc_op c) eqn:Eo; try (rewrite andb_false_r in Hp; discriminate).
  unfold o_is_purge. rewrite Eo. cbn [andb apply_ev].
  apply andb_prop in Hp. destruct Hp as [Ha Hp]. apply andb_prop in Hp. destruct Hp as [Hph Hsl].
  apply N.eqb_eq in Ha.
  unfold ocstep in H. rewrite Eo in H. apply o_whitelist_mint_step in H; [ | exact Hph ].
  destruct H as (v & sl0 & ent & Hwv & _ & _ & Hmem & Hsl0 & Hent & Hlt & _).
  rewrite Hwv, Hsl0 in Hsl. apply slot_eqb_eq in Hsl. subst sl0.
  exists stage, proof, alloc, v, ent. repeat (split; [ first [ reflexivity | assumption ] | ]).
  split; [ intros Hm; rewrite Hm in Hmem; exact Hmem | ].
  rewrite <- (o_whitelist_count_reported vr a sl cs1 s0).
  unfold osender in Ha. rewrite Ha in Hlt. lia.
Qed.

Theorem o_never_exceeds_stage vr sl s0 cs1 c s2 ms :
  let s1 := orun vr s0 cs1 in
  is_stage sl = true ->
  ocstep vr s1 c = Ok (s2, ms) ->
  o_is_wl_mint_in sl s1 c = true ->
  exists v ol, oc_wv c = Some v /\ wv_stage_limit v = Some ol /\
    forall lim, ol = Some lim ->
      otally vr (o_stage_ev sl) s0 (cs1 ++ [c]) (o_stage_total s0 sl) <= lim.
Proof.
  cbn zeta. intros Hst H Hp.
  rewrite otally_app. cbn [otally]. rewrite H.
  unfold o_stage_ev at 1. rewrite Hp. cbn [apply_ev].
  unfold o_is_wl_mint_in, o_call_slot in Hp. destruct (oc_op c) eqn:Eo; try discriminate.
  apply andb_prop in Hp. destruct Hp as [Hph Hsl].
  unfold ocstep in H. rewrite Eo in H. apply o_whitelist_mint_step in H; [ | exact Hph ].
  destruct H as (v & sl0 & ent & Hwv & _ & _ & _ & Hsl0 & _ & _ & _ & Hroom & _).
  rewrite Hwv, Hsl0 in Hsl. apply slot_eqb_eq in Hsl. subst sl0.
  destruct (Hroom Hst) as (ol & Hol & Hlim).
  exists v, ol. split; [ exact Hwv | ]. split; [ exact Hol | ].
  intros lim Hl. specialize (Hlim lim Hl).
  rewrite <- (o_stage_total_reported vr sl cs1 s0 Hst). lia.
Qed.

(* ---------- a purge ends the sale for good ---------- *)
(* with a clock that never runs backwards, nothing is minted after a successful purge:
   the per-address counts a purge clears can never be used to mint past a limit *)
Fixpoint times_from (t : N) (cs : list ocall) : Prop :=
  match cs with [] => True | c :: r => t <= e_now (oc_env c) /\ times_from (e_now (oc_env c)) r end.

(* creation guarantees an end time or a token count (the factory rejects a minter with
   neither) and no operation removes one *)
Definition o_bounded (s : ostate) : Prop := o_mintable s = None -> o_end s <> None.

Definition o_is_mint (c : ocall) : bool :=
  match oc_op c with EMint _ _ _ | EMintTo _ _ => true | _ => false end.
Definition o_mint_ev (s : ostate) (c : ocall) : ev := if o_is_mint c then EvInc else EvNone.

Lemma o_mint_mintable vr s e fp wv adm rcp isp s' ms :
  o_execute_mint vr s e fp wv adm rcp isp = Ok (s', ms) ->
  o_mintable s' = match o_mintable s with Some m => Some (m - 1) | None => None end.
Proof.
  unfold o_execute_mint. intros H.
  destruct (match o_mintable s with Some 0 => true | _ => false end); [ discriminate | ].
  bind_in H pr Hpr. destruct pr as [amount dn].
  bind_in H payment Hpay.
  destruct (negb (payment =? amount)); [ discriminate | ].
  match type of H with (if ?c then _ else _) = _ => destruct c; [ discriminate | ] end.
  bind_in H fmsgs Hfm. bind_in H tid Htid. bind_in H s1 Hs1. bind_in H total' Ht.
  bind_in H airdrops' Ha. bind_in H amt Hamt. inv H. reflexivity.
Qed.

Lemma o_bounded_step vr s c s' ms : ocstep vr s c = Ok (s', ms) -> o_bounded s -> o_bounded s'.
Proof.
  unfold ocstep, o_bounded. intros H Hb.
  assert (Hcore : forall adm rcp isp,
             o_execute_mint vr s (oc_env c) (oc_fp c) (oc_wv c) adm rcp isp = Ok (s', ms) ->
             o_mintable s' = None -> o_end s' <> None).
  { intros adm rcp isp Hc Hn. pose proof (o_mint_mintable _ _ _ _ _ _ _ _ _ _ Hc) as Hmm.
    apply o_mint_ctr in Hc. destruct Hc as (Hcf & _).
    assert (He : o_end s' = o_end s) by (unfold o_cfg in Hcf; congruence). rewrite He. apply Hb.
    rewrite Hmm in Hn. destruct (o_mintable s); [ discriminate | reflexivity ]. }
  destruct (oc_op c); cbn [ostep] in H; repeat step_hyp H; try (eapply Hcore; eassumption); inv H; cbn;
    first [ exact Hb | intros; discriminate ].
Qed.

Lemma o_over_step vr s c s' ms t :
  o_bounded s -> o_over s t -> t <= e_now (oc_env c) -> ocstep vr s c = Ok (s', ms) ->
  o_is_mint c = false /\ o_over s' (e_now (oc_env c)).
Proof.
  unfold ocstep, o_is_mint. intros Hb Ho Ht H.
  assert (Hov : o_end s' = o_end s -> o_mintable s' = o_mintable s -> o_over s' (e_now (oc_env c))).
  { intros He Hm. unfold o_over in *. rewrite He, Hm. destruct (o_end s); [ lia | exact Ho ]. }
  assert (Hnomint : forall adm rcp isp,
             o_ended s (e_now (oc_env c)) = false ->
             o_execute_mint vr s (oc_env c) (oc_fp c) (oc_wv c) adm rcp isp = Ok (s', ms) -> False).
  { intros adm rcp isp Hen Hc. apply o_mint_ctr in Hc. destruct Hc as (_ & Hm & _).
    unfold o_over, o_ended in *. destruct (o_end s) as [en|] eqn:Ee.
    - apply N.leb_gt in Hen. lia.
    - destruct (o_mintable s) as [m|] eqn:Em; [ subst m; apply Hm; reflexivity | exact (Hb Em Ee) ]. }
  destruct (oc_op c) eqn:Eo.
  - exfalso. cbn [ostep] in H. repeat step_hyp H; eapply Hnomint; first [ reflexivity | eassumption ].
  - exfalso. cbn [ostep] in H. repeat step_hyp H; eapply Hnomint; first [ reflexivity | eassumption ].
  - split; [ reflexivity | ]. apply o_purge_step in H. destruct H as (_ & _ & _ & _ & _ & _ & Hc & Hm).
    apply Hov; [ unfold o_cfg in Hc; congruence | exact Hm ].
  - split; [ reflexivity | ]. cbn [ostep] in H. repeat step_hyp H. inv H.
    unfold o_over in *. cbn. destruct (o_end s); [ lia | reflexivity ].
  - split; [ reflexivity | ]. cbn [ostep] in H. repeat step_hyp H. inv H. apply Hov; reflexivity.
  - split; [ reflexivity | ]. cbn [ostep] in H. repeat step_hyp H. inv H. apply Hov; reflexivity.
  - exfalso. cbn [ostep] in H. repeat step_hyp H.
    unfold o_over in Ho.
    match goal with E' : o_end s = Some _ |- _ => rewrite E' in Ho end.
    match goal with E' : (_ <=? e_now (oc_env c)) = false |- _ => apply N.leb_gt in E'; lia end.
  - split; [ reflexivity | ]. cbn [ostep] in H. repeat step_hyp H; inv H; apply Hov; reflexivity.
  - split; [ reflexivity | ]. cbn [ostep] in H. repeat step_hyp H. inv H. apply Hov; reflexivity.
  - split; [ reflexivity | ]. cbn [ostep] in H. repeat step_hyp H; inv H; apply Hov; reflexivity.
Qed.

Lemma o_over_run vr : forall cs s t,
  o_bounded s -> o_over s t -> times_from t cs -> otally vr o_mint_ev s cs 0 = 0.
Proof.
  induction cs as [|c r IH]; intros s t Hb Ho Ht; [ reflexivity | ].
  cbn [times_from] in Ht. destruct Ht as [Ht Hr]. cbn [otally].
  destruct (ocstep vr s c) as [[s' ms]|] eqn:E.
  - destruct (o_over_step vr s c s' ms t Hb Ho Ht E) as [Hm Ho'].
    change (o_mint_ev s c) with (if o_is_mint c then EvInc else EvNone). rewrite Hm. cbn [apply_ev].
    eapply IH; [ eapply o_bounded_step; eauto | exact Ho' | exact Hr ].
  - eapply IH; [ exact Hb | | exact Hr ].
    unfold o_over in *. destruct (o_end s); [ lia | exact Ho ].
Qed.

Theorem o_purge_is_final vr s c s1 ms cs :
  o_bounded s -> oc_op c = EPurge -> ocstep vr s c = Ok (s1, ms) ->
  times_from (e_now (oc_env c)) cs ->
  otally vr o_mint_ev s1 cs 0 = 0.
Proof.
  intros Hb Hop H Ht. pose proof (o_bounded_step _ _ _ _ _ H Hb) as Hb1.
  unfold ocstep in H. rewrite Hop in H. apply o_purge_step in H.
  destruct H as (Ho & _ & _ & _ & _ & _ & Hc & Hm).
  apply (o_over_run vr cs s1 (e_now (oc_env c)) Hb1); [ | exact Ht ].
  unfold o_over in *. rewrite Hm. replace (o_end s1) with (o_end s) by (unfold o_cfg in Hc; congruence). exact Ho.
Qed.

(* ---------- the whitelist's answers against what its admin intended (open edition) ---------- *)
Theorem o_faithful_whitelist_within_intended vr (ient icap : N) s e fp wv stage proof alloc s' ms :
  ostep vr s e fp wv (EMint stage proof alloc) = Ok (s', ms) ->
  o_wl_phase s wv = true ->
  (forall v ent, wv = Some v -> o_entitlement vr v alloc = Some ent -> ent <= ient) ->
  (forall v sl, wv = Some v -> active_slot v = Some sl -> is_stage sl = true ->
     exists lim, wv_stage_limit v = Some (Some lim) /\ lim <= icap) ->
  exists v sl, wv = Some v /\ active_slot v = Some sl /\
    get (o_slot_map s' sl) (e_sender e) <= ient /\
    (is_stage sl = true -> o_stage_total s' sl <= icap).
Proof.
  intros H Hph Hent Hcap. apply o_whitelist_mint_step in H; [ | exact Hph ].
  destruct H as (v & sl & ent & Hwv & _ & _ & _ & Hsl & He & Hlt & _ & Hroom & Hinc & _ & _ & Htot & _).
  exists v, sl. split; [ exact Hwv | ]. split; [ exact Hsl | ].
  specialize (Hent v ent Hwv He). split; [ rewrite Hinc; lia | ].
  intros Hst. destruct (Hcap v sl Hwv Hsl Hst) as (lim & Hl & Hle).
  destruct (Hroom Hst) as (ol & Hol & Hr). rewrite Hl in Hol. inv Hol.
  specialize (Hr lim eq_refl). rewrite (Htot Hst). lia.
Qed.
