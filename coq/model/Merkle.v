(* Merkle whitelists: contracts/whitelists/whitelist-merkletree (SHA-256, 32-byte digests)
   and contracts/whitelists/tiered-whitelist-merkletree (BLAKE3 truncated to 16 bytes),
   the tree layout rs_merkle 1.4.2 builds for them (test helper SortingSha256Hasher:
   sorted pair, an odd last node is promoted unchanged), and the leaf string the Merkle
   minters compose (vending-minter-merkle-wl / open-edition-minter-merkle-wl
   is_public_mint).  Executable, no proofs.

   bytes  = list N, every element a byte value (the model never needs the bound);
   str    = the UTF-8 bytes of a Rust String (member strings, hex strings);
   L      = digest length in bytes (32 / 16), H the hash with its output already
            truncated to L bytes -- both parameters (Section variables), never axioms. *)
From LP Require Import Prelude Pay Consts Semver.
Local Open Scope N_scope.

Notation bytes := (list N) (only parsing).
Notation str := (list N) (only parsing).

Definition bytes_eqb (a b : bytes) : bool := list_eqb N.eqb a b.

(* Ord on [u8; L] (and on slices): lexicographic, a proper prefix is smaller *)
Fixpoint bytes_leb (a b : bytes) : bool :=
  match a, b with
  | [], _ => true
  | _ :: _, [] => false
  | x :: a', y :: b' => if x <? y then true else if y <? x then false else bytes_leb a' b'
  end.

(* `let mut s = [acc, h]; s.sort_unstable(); s.concat()` *)
Definition sortcat (a b : bytes) : bytes := if bytes_leb a b then a ++ b else b ++ a.

(* ---------- hex strings (crate `hex`, used by HexBinary::from_hex, hex::decode_to_slice,
   hex::encode) ---------- *)
Definition hex_val (c : N) : option N :=
  if (48 <=? c) && (c <=? 57) then Some (c - 48)            (* '0'..'9' *)
  else if (97 <=? c) && (c <=? 102) then Some (c - 87)      (* 'a'..'f' *)
  else if (65 <=? c) && (c <=? 70) then Some (c - 55)       (* 'A'..'F' *)
  else None.

Fixpoint hex_decode (s : str) : option bytes :=
  match s with
  | [] => Some []
  | [_] => None                                             (* odd length *)
  | hi :: lo :: r =>
      match hex_val hi, hex_val lo, hex_decode r with
      | Some h, Some l, Some bs => Some (16 * h + l :: bs)
      | _, _, _ => None
      end
  end.

(* lower-case, two characters per byte *)
Definition hex_digit (d : N) : N := if d <? 10 then 48 + d else 87 + d.
Fixpoint hex_encode (b : bytes) : str :=
  match b with
  | [] => []
  | x :: r => hex_digit (x / 16) :: hex_digit (x mod 16) :: hex_encode r
  end.

Definition str_eqb (a b : str) : bool := list_eqb N.eqb a b.

(* str::eq_ignore_ascii_case: same length, bytes equal after u8::to_ascii_lowercase *)
Definition ascii_lower (c : N) : N := if (65 <=? c) && (c <=? 90) then c + 32 else c.
Definition str_eqb_ci (a b : str) : bool := list_eqb (fun x y => ascii_lower x =? ascii_lower y) a b.

(* helpers/crypto.rs: valid_hash_string = HexBinary::from_hex then to_array::<L>;
   string_to_byte_slice = hex::decode_to_slice into [0; L].  Both reject odd length,
   a non-hex character, and any decoded length other than L; both accept upper case. *)
Definition valid_hash_string (L : nat) (s : str) : result unit :=
  match hex_decode s with
  | Some b => if Nat.eqb (length b) L then Ok tt else Err
  | None => Err
  end.
Definition verify_merkle_root := valid_hash_string.
Definition string_to_byte_slice (L : nat) (s : str) : result bytes :=
  match hex_decode s with
  | Some b => if Nat.eqb (length b) L then Ok b else Err
  | None => Err
  end.

(* ---------- decimal rendering (`format!("{}", u32)`) and the minters' leaf ---------- *)
Fixpoint dec_le (fuel : nat) (n : N) : list N :=      (* least significant digit first *)
  match fuel with
  | O => []
  | S f => (48 + n mod 10) :: (if n / 10 =? 0 then [] else dec_le f (n / 10))
  end.
Definition dec (n : N) : str := rev (dec_le (S (N.to_nat (N.size n))) n).

Definition is_digit (c : N) : bool := (48 <=? c) && (c <=? 57).

(* is_public_mint: member = match (stage, allocation) {
     (None, Some al) => sender ++ al, (Some st, None) => st ++ sender,
     (Some st, Some al) => st ++ sender ++ al, (None, None) => sender } *)
Definition opt_dec (o : option N) : str := match o with Some n => dec n | None => [] end.
Definition leaf (stage : option N) (sender : str) (allocation : option N) : str :=
  opt_dec stage ++ sender ++ opt_dec allocation.

Section Hash.
  Variable L : nat.
  Variable H : bytes -> bytes.

  Definition step (acc s : bytes) : bytes := H (sortcat acc s).

  (* byte-level fold and acceptance *)
  Definition fold_proof (m : bytes) (p : list bytes) : bytes := fold_left step p (H m).
  Definition verify (root m : bytes) (p : list bytes) : bool := bytes_eqb (fold_proof m p) root.

  (* query_has_member's try_fold over the hex strings: first failure aborts *)
  Fixpoint fold_proof_str (acc : bytes) (p : list str) : result bytes :=
    match p with
    | [] => Ok acc
    | s :: p' =>
        do _ <- valid_hash_string L s;
        do b <- string_to_byte_slice L s;
        fold_proof_str (step acc b) p'
    end.

  (* Ok has_member | Err ("Invalid Merkle Proof") ; the stored root is a string and is
     compared, ignoring ASCII case, with the lower-case hex rendering of the final digest
     (merkle_root.eq_ignore_ascii_case(&hex::encode(final_hash)), /repo c2c314c) *)
  Definition has_member (root : str) (member : str) (p : list str) : result bool :=
    do f <- fold_proof_str (H member) p;
    Ok (str_eqb_ci root (hex_encode f)).

  (* ---------- rs_merkle layout ---------- *)
  (* PartialTree::build_tree, one layer up: concat_and_hash(left, Some right) for pairs,
     concat_and_hash(left, None) = left for an odd last node *)
  Fixpoint layer_up (l : list bytes) : list bytes :=
    match l with
    | a :: b :: r => step a b :: layer_up r
    | _ => l
    end.
  Fixpoint iter_up (k : nat) (l : list bytes) : list bytes :=
    match k with O => l | S k' => iter_up k' (layer_up l) end.
  Definition leaves (ms : list str) : list bytes := map H ms.
  (* rs_merkle iterates bit-length(n) times; any count from ceil(log2 n) on gives the
     same singleton layer, so the model simply iterates n times *)
  Definition root (ms : list str) : bytes := hd [] (iter_up (length ms) (leaves ms)).

  (* every node of the tree, level by level *)
  Fixpoint nodes (fuel : nat) (l : list bytes) : list bytes :=
    match fuel with O => l | S f => l ++ nodes f (layer_up l) end.
  Definition tree_nodes (ms : list str) : list bytes := nodes (length ms) (leaves ms).

  (* MerkleTree::proof(&[i]).proof_hashes(): bottom-up, the sibling where it exists *)
  Definition sibling (i : nat) : nat := if Nat.even i then S i else pred i.
  Fixpoint proof_layers (fuel : nat) (l : list bytes) (i : nat) : list bytes :=
    match fuel with
    | O => []
    | S f =>
        match nth_error l (sibling i) with
        | Some s => s :: proof_layers f (layer_up l) (Nat.div2 i)
        | None => proof_layers f (layer_up l) (Nat.div2 i)
        end
    end.
  Definition proof_at (ms : list str) (i : nat) : list bytes :=
    proof_layers (length ms) (leaves ms) i.

  (* ---------- every input H is applied to while building and verifying ---------- *)
  Fixpoint layer_inputs (l : list bytes) : list bytes :=
    match l with
    | a :: b :: r => sortcat a b :: layer_inputs r
    | _ => []
    end.
  Fixpoint tree_inputs (fuel : nat) (l : list bytes) : list bytes :=
    match fuel with O => [] | S f => layer_inputs l ++ tree_inputs f (layer_up l) end.
  Fixpoint fold_inputs (acc : bytes) (p : list bytes) : list bytes :=
    match p with [] => [] | s :: p' => sortcat acc s :: fold_inputs (step acc s) p' end.
  Definition calls (ms : list str) (m : str) (p : list bytes) : list bytes :=
    m :: ms ++ tree_inputs (length ms) (leaves ms) ++ fold_inputs (H m) p.

  (* search a list of inputs for two different ones with the same digest *)
  Fixpoint find_with (x : bytes) (l : list bytes) : option bytes :=
    match l with
    | [] => None
    | y :: r => if negb (bytes_eqb x y) && bytes_eqb (H x) (H y) then Some y else find_with x r
    end.
  Fixpoint find_collision (l : list bytes) : option (bytes * bytes) :=
    match l with
    | [] => None
    | x :: r => match find_with x r with Some y => Some (x, y) | None => find_collision r end
    end.
End Hash.

(* ====================== whitelist-merkletree: state and entry points ====================== *)
Record wl_state := mkWl {
  wl_admins : list addr;
  wl_mutable : bool;
  wl_start : N;            (* nanoseconds *)
  wl_end : N;
  wl_limit : N;            (* per_address_limit, never validated *)
  wl_root : str;           (* MERKLE_ROOT *)
}.

Definition is_admin (admins : list addr) (a : addr) : bool := existsb (N.eqb a) admins.

Definition GENESIS : N := sg_utils__GENESIS_MINT_START_TIME.

(* uri_ok: Url::parse answer for the optional tree uri (true when absent);
   admins_ok: every admin string passes addr_validate *)
Definition wl_instantiate (now : N) (funds : list coin) (root : str) (uri_ok : bool)
    (start_t end_t limit : N) (admins : list addr) (admins_ok mutable : bool) : result wl_state :=
  do _ <- verify_merkle_root 32 root;
  do _ <- guard uri_ok;
  do payment <- must_pay funds NATIVE;
  do _ <- guard (payment =? whitelist_merkletree__CREATION_FEE);
  do _ <- guard (negb (end_t <? start_t));
  do _ <- guard (now <? start_t);
  do _ <- guard (negb (start_t <? GENESIS));
  do _ <- guard admins_ok;
  Ok (mkWl admins mutable start_t end_t limit root).

Inductive wl_msg :=
| WUpdateStartTime (t : N)
| WUpdateEndTime (t : N)
| WUpdateAdmins (admins : list addr) (admins_ok : bool)
| WFreeze.

Definition wl_update_start_time (now : N) (sender : addr) (t : N) (s : wl_state) : result wl_state :=
  do _ <- guard (is_admin (wl_admins s) sender);
  do _ <- guard (now <? wl_start s);
  do _ <- guard (negb (wl_end s <? t));
  let t' := if t <? GENESIS then GENESIS else t in
  Ok (mkWl (wl_admins s) (wl_mutable s) t' (wl_end s) (wl_limit s) (wl_root s)).

Definition wl_update_end_time (now : N) (sender : addr) (t : N) (s : wl_state) : result wl_state :=
  do _ <- guard (is_admin (wl_admins s) sender);
  do _ <- guard (negb ((wl_start s <=? now) && (wl_end s <? t)));
  do _ <- guard (negb (t <? wl_start s));
  Ok (mkWl (wl_admins s) (wl_mutable s) (wl_start s) t (wl_limit s) (wl_root s)).

Definition can_modify (admins : list addr) (mutable : bool) (sender : addr) : bool :=
  mutable && is_admin admins sender.

Definition wl_update_admins (sender : addr) (admins : list addr) (admins_ok : bool) (s : wl_state)
  : result wl_state :=
  do _ <- guard (can_modify (wl_admins s) (wl_mutable s) sender);
  do _ <- guard admins_ok;
  Ok (mkWl admins (wl_mutable s) (wl_start s) (wl_end s) (wl_limit s) (wl_root s)).

Definition wl_freeze (sender : addr) (s : wl_state) : result wl_state :=
  do _ <- guard (can_modify (wl_admins s) (wl_mutable s) sender);
  Ok (mkWl (wl_admins s) false (wl_start s) (wl_end s) (wl_limit s) (wl_root s)).

(* execute_update_merkle_tree exists in contract.rs, but neither ExecuteMsg nor `execute`
   has a variant that reaches it.  Modelled as the code reads; NOT dispatched below. *)
Definition wl_update_merkle_tree (now : N) (sender : addr) (root : str) (uri_ok : bool) (s : wl_state)
  : result wl_state :=
  do _ <- guard (is_admin (wl_admins s) sender);
  do _ <- verify_merkle_root 32 root;
  do _ <- guard uri_ok;
  do _ <- guard (negb (now <? wl_end s));
  Ok (mkWl (wl_admins s) (wl_mutable s) (wl_start s) (wl_end s) (wl_limit s) root).

Definition wl_execute (now : N) (sender : addr) (m : wl_msg) (s : wl_state) : result wl_state :=
  match m with
  | WUpdateStartTime t => wl_update_start_time now sender t s
  | WUpdateEndTime t => wl_update_end_time now sender t s
  | WUpdateAdmins a ok => wl_update_admins sender a ok s
  | WFreeze => wl_freeze sender s
  end.

(* QueryMsg::HasMember and QueryMsg::MerkleRoot *)
Definition wl_has_member (H : bytes -> bytes) (s : wl_state) (member : str) (p : list str) : result bool :=
  has_member 32 H (wl_root s) member p.
Definition wl_query_root (s : wl_state) : str := wl_root s.

(* ====================== tiered-whitelist-merkletree ====================== *)
(* st_id: the identity the stage was instantiated with (its position then / its name).  It
   is what a list of entries and a root were issued for; MERKLE_ROOTS pairs roots with
   stages by list index only, so the property needs the index of an identity never to move. *)
Record stage := mkStage {
  st_id : N;
  st_start : N;
  st_end : N;
  st_denom : N;           (* mint_price.denom *)
  st_limit : N;           (* per_address_limit *)
}.

Record tw_state := mkTw {
  tw_admins : list addr;
  tw_mutable : bool;
  tw_stages : list stage;
  tw_roots : list str;    (* MERKLE_ROOTS; its length is never compared with the stages' *)
}.

Definition MAXPAL : N := tiered_whitelist_merkletree__MAX_PER_ADDRESS_LIMIT.

(* the nested loop of validate_stages / validate_update *)
Fixpoint stages_ordered (l : list stage) : bool :=
  match l with
  | [] => true
  | s :: r => (st_start s <? st_end s) && forallb (fun o => st_end s <=? st_start o) r && stages_ordered r
  end.

Definition validate_update (l : list stage) : result unit :=
  match l with
  | [] => Err
  | s0 :: _ =>
      do _ <- guard (Nat.ltb (length l) 4);
      do _ <- guard (forallb (fun s => negb (st_limit s =? 0) && (st_limit s <=? MAXPAL)) l);
      do _ <- guard (forallb (fun s => st_denom s =? st_denom s0) l);
      guard (stages_ordered l)
  end.

Definition validate_stages (now : N) (l : list stage) : result unit :=
  match l with
  | [] => Err
  | s0 :: _ =>
      do _ <- guard (Nat.ltb (length l) 4);
      do _ <- guard (forallb (fun s => negb (st_limit s =? 0) && (st_limit s <=? MAXPAL)) l);
      do _ <- guard (forallb (fun s => st_denom s =? st_denom s0) l);
      do _ <- guard (now <? st_start s0);
      guard (stages_ordered l)
  end.

Fixpoint all_ok (L : nat) (roots : list str) : result unit :=
  match roots with
  | [] => Ok tt
  | r :: rs => do _ <- verify_merkle_root L r; all_ok L rs
  end.

Definition tw_instantiate (now : N) (funds : list coin) (roots : list str) (uris_ok : bool)
    (stages : list stage) (admins : list addr) (admins_ok mutable : bool) : result tw_state :=
  do _ <- all_ok 16 roots;
  do _ <- guard uris_ok;
  do payment <- must_pay funds NATIVE;
  do _ <- guard (payment =? tiered_whitelist_merkletree__CREATION_FEE);
  do _ <- validate_stages now stages;
  do _ <- guard admins_ok;
  Ok (mkTw admins mutable stages roots).

(* UpdateStageConfigMsg: absent fields keep the stored value.  name, mint_price.amount and
   mint_count_limit are not validated and do not influence anything modelled here. *)
Inductive tw_msg :=
| TUpdateStageConfig (stage_id : N) (start_t end_t denom limit : option N)
| TUpdateAdmins (admins : list addr) (admins_ok : bool)
| TFreeze.

Fixpoint replace_nth {A} (n : nat) (x : A) (l : list A) : list A :=
  match l, n with
  | [], _ => []
  | _ :: r, O => x :: r
  | y :: r, S k => y :: replace_nth k x r
  end.

Definition dflt (o : option N) (d : N) : N := match o with Some v => v | None => d end.

Definition tw_update_stage_config (sender : addr) (id : N) (st en dn lm : option N) (s : tw_state)
  : result tw_state :=
  do _ <- guard (is_admin (tw_admins s) sender);
  (* index out of bounds: panic.  The range test comes first so that no huge unary
     number is ever built from a u32 stage_id *)
  match (if id <? N.of_nat (length (tw_stages s)) then nth_error (tw_stages s) (N.to_nat id) else None) with
  | None => Err
  | Some old =>
      (* config.stages[stage_id] = updated_stage: same index, nothing is sorted or moved
         (the name is kept unless a new one is sent; the harness re-sends the same name) *)
      let upd := mkStage (st_id old) (dflt st (st_start old)) (dflt en (st_end old)) (dflt dn (st_denom old))
                         (dflt lm (st_limit old)) in
      let stages' := replace_nth (N.to_nat id) upd (tw_stages s) in
      do _ <- validate_update stages';
      Ok (mkTw (tw_admins s) (tw_mutable s) stages' (tw_roots s))
  end.

Definition tw_update_admins (sender : addr) (admins : list addr) (admins_ok : bool) (s : tw_state)
  : result tw_state :=
  do _ <- guard (can_modify (tw_admins s) (tw_mutable s) sender);
  do _ <- guard admins_ok;
  Ok (mkTw admins (tw_mutable s) (tw_stages s) (tw_roots s)).

Definition tw_freeze (sender : addr) (s : tw_state) : result tw_state :=
  do _ <- guard (can_modify (tw_admins s) (tw_mutable s) sender);
  Ok (mkTw (tw_admins s) false (tw_stages s) (tw_roots s)).

(* present in contract.rs, unreachable from `execute`; NOT dispatched below *)
Definition tw_update_merkle_tree (now : N) (sender : addr) (roots : list str) (uris_ok : bool)
    (s : tw_state) : result tw_state :=
  do _ <- guard (is_admin (tw_admins s) sender);
  do _ <- all_ok 16 roots;
  do _ <- guard uris_ok;
  do _ <- guard (forallb (fun st => st_end st <=? now) (tw_stages s));
  Ok (mkTw (tw_admins s) (tw_mutable s) (tw_stages s) roots).

Definition tw_execute (now : N) (sender : addr) (m : tw_msg) (s : tw_state) : result tw_state :=
  match m with
  | TUpdateStageConfig id st en dn lm => tw_update_stage_config sender id st en dn lm s
  | TUpdateAdmins a ok => tw_update_admins sender a ok s
  | TFreeze => tw_freeze sender s
  end.

(* fetch_active_stage_index: the first stage with start <= now <= end (both inclusive) *)
Fixpoint active_index (now : N) (l : list stage) : option nat :=
  match l with
  | [] => None
  | s :: r =>
      if (st_start s <=? now) && (now <=? st_end s) then Some O
      else match active_index now r with Some i => Some (S i) | None => None end
  end.

(* no active stage: Err; fewer roots than the active index: index panic, Err *)
Definition tw_has_member (H : bytes -> bytes) (now : N) (s : tw_state) (member : str) (p : list str)
  : result bool :=
  match active_index now (tw_stages s) with
  | None => Err
  | Some i =>
      match nth_error (tw_roots s) i with
      | None => Err
      | Some r => has_member 16 H r member p
      end
  end.
Definition tw_query_roots (s : tw_state) : list str := tw_roots s.

(* ---------- specification vocabulary used by the C14 statements ---------- *)
(* well-formed proof element: decodes to exactly L bytes *)
Definition hex_ok (L : nat) (s : str) : bool :=
  match hex_decode s with Some b => Nat.eqb (length b) L | None => false end.

(* a hexadecimal digit in either case: the characters of an accepted root / proof element *)
Definition is_hex_char (c : N) : bool := match hex_val c with Some _ => true | None => false end.

(* a history of calls; a rejected call changes nothing *)
Fixpoint wl_run (h : list (N * addr * wl_msg)) (s : wl_state) : wl_state :=
  match h with
  | [] => s
  | (now, sender, m) :: r =>
      match wl_execute now sender m s with Ok s' => wl_run r s' | Err => wl_run r s end
  end.

Fixpoint tw_run (h : list (N * addr * tw_msg)) (s : tw_state) : tw_state :=
  match h with
  | [] => s
  | (now, sender, m) :: r =>
      match tw_execute now sender m s with Ok s' => tw_run r s' | Err => tw_run r s end
  end.

(* ---------- migrate (both Merkle whitelists, same code) ----------
   The chain refuses a migrate from anyone but the wasm admin (by_admin).  The entry point
   then requires the stored cw2 name to be its own (name_ok), the stored version to parse
   (ver = None otherwise) and not to be newer than the code's; it rewrites the cw2 record
   only when the stored version is older.  Nothing else is touched: the modelled state is
   returned as it is (a frame on roots, stages, admins, window). *)
Definition MERKLE_CUR_VERSION : version := workspace_version_triple.
Definition merkle_migrate_ok (by_admin name_ok : bool) (ver : option version) : bool :=
  by_admin && name_ok &&
  match ver with Some v => negb (ver_ltb MERKLE_CUR_VERSION v) | None => false end.
Definition wl_migrate (by_admin name_ok : bool) (ver : option version) (s : wl_state) : result wl_state :=
  if merkle_migrate_ok by_admin name_ok ver then Ok s else Err.
Definition tw_migrate (by_admin name_ok : bool) (ver : option version) (s : tw_state) : result tw_state :=
  if merkle_migrate_ok by_admin name_ok ver then Ok s else Err.

(* histories of Execute and Migrate calls *)
Inductive wl_step :=
| WsExec (now : N) (sender : addr) (m : wl_msg)
| WsMigrate (by_admin name_ok : bool) (ver : option version).
Definition wl_apply (st : wl_step) (s : wl_state) : result wl_state :=
  match st with
  | WsExec now sender m => wl_execute now sender m s
  | WsMigrate a n v => wl_migrate a n v s
  end.
Fixpoint wl_run_steps (h : list wl_step) (s : wl_state) : wl_state :=
  match h with
  | [] => s
  | st :: r => match wl_apply st s with Ok s' => wl_run_steps r s' | Err => wl_run_steps r s end
  end.

Inductive tw_step :=
| TsExec (now : N) (sender : addr) (m : tw_msg)
| TsMigrate (by_admin name_ok : bool) (ver : option version).
Definition tw_apply (st : tw_step) (s : tw_state) : result tw_state :=
  match st with
  | TsExec now sender m => tw_execute now sender m s
  | TsMigrate a n v => tw_migrate a n v s
  end.
Fixpoint tw_run_steps (h : list tw_step) (s : tw_state) : tw_state :=
  match h with
  | [] => s
  | st :: r => match tw_apply st s with Ok s' => tw_run_steps r s' | Err => tw_run_steps r s end
  end.

(* which identity is served by which root: position by position *)
Definition tw_pairing (s : tw_state) : list (N * str) := combine (map st_id (tw_stages s)) (tw_roots s).

Definition stage_active (now : N) (s : stage) : bool := (st_start s <=? now) && (now <=? st_end s).

(* the sender string starts with a character that is not a decimal digit *)
Definition head_nondigit (s : str) : Prop :=
  match s with c :: _ => is_digit c = false | [] => False end.

(* a deliberately weak 2-byte "hash" for the non-vacuity examples of props/C14.v
   (sum and length: permutations of a string collide) *)
Definition toyH (x : bytes) : bytes := [fold_left N.add x 7 mod 256; N.of_nat (length x) mod 256].

(* ---------- the Merkle minters' whitelist branch (is_public_mint, whitelist active,
   proof_hashes present): the minter asks the whitelist HasMember for the composed leaf;
   anything but a positive answer rejects the mint, and the proven allocation (when given)
   is the sender's whitelist limit, so an allocation of 0 can never mint ---------- *)
Definition minter_wl_check (answer : result bool) (wl_mint_count : N) (allocation : option N)
    (per_address_limit : N) : bool :=
  match answer with
  | Ok true => wl_mint_count <? (match allocation with Some a => a | None => per_address_limit end)
  | _ => false
  end.
