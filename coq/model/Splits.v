(* contracts/splits/src/contract.rs + cw4-group 1.1 (member list, total weight) + the
   bank module with atomic revert, as one small world.

   Identifiers: addresses and denoms are N; the harness chooses strings whose order is
   the id order (cw4-group lists members in ascending address order, the bank lists
   balances in ascending denom order).

   Modelled, not verified: cw4-group (TOTAL = sum of the member weights, u64 checked
   arithmetic, the 30-entry page of ListMembers), cw-controllers Admin, the bank. *)
From LP Require Export Prelude.
From LP Require Import Consts.

Record member := mkMember { m_addr : addr; m_weight : N }.

Definition member_eqb (a b : member) : bool :=
  (m_addr a =? m_addr b) && (m_weight a =? m_weight b).

(* ---- cw4-group ---- *)
Definition total_weight (ms : list member) : N :=
  fold_right (fun m acc => m_weight m + acc) 0 ms.

(* MEMBERS is a map keyed by address: ascending association list, one entry per address *)
Fixpoint upsert (m : member) (ms : list member) : list member :=
  match ms with
  | [] => [m]
  | x :: xs =>
      if m_addr m <? m_addr x then m :: x :: xs
      else if m_addr m =? m_addr x then m :: xs
      else x :: upsert m xs
  end.

Definition remove_member (a : addr) (ms : list member) : list member :=
  filter (fun x => negb (m_addr x =? a)) ms.

Definition is_member (a : addr) (ms : list member) : bool :=
  existsb (fun x => m_addr x =? a) ms.

Fixpoint has_dup (l : list addr) : bool :=
  match l with
  | [] => false
  | x :: xs => existsb (N.eqb x) xs || has_dup xs
  end.

(* cw4_group::create : unique addresses, Uint64 checked_add of the weights *)
Fixpoint group_create (adds : list member) (acc : list member) : result (list member) :=
  match adds with
  | [] => Ok acc
  | m :: rest =>
      let acc' := upsert m acc in
      if total_weight acc' <=? U64_MAX then group_create rest acc' else Err
  end.

Definition group_instantiate (ms : list member) : result (list member) :=
  if has_dup (map m_addr ms) then Err else group_create ms [].

(* validate_unique_members sorts the list by address before it is processed *)
Definition sort_members (ms : list member) : list member := fold_right upsert [] ms.

(* cw4_group::update_members: duplicates in `add` rejected, sender must be the group
   admin; every add (in address order) replaces the weight (total - old + new, checked
   on u64 after each one), then the removals *)
Definition group_update (gadmin : option addr) (sender : addr) (adds : list member)
           (rems : list addr) (ms : list member) : result (list member) :=
  if has_dup (map m_addr adds) then Err else
  match gadmin with
  | None => Err
  | Some ga =>
      if negb (ga =? sender) then Err else
      do ms1 <- group_create (sort_members adds) ms;
      Ok (fold_left (fun acc a => remove_member a acc) rems ms1)
  end.

(* ListMembers { start_after: None, limit: Some(PAGINATION_LIMIT) } *)
Definition page (ms : list member) : list member :=
  firstn (N.to_nat splits__PAGINATION_LIMIT) ms.

(* ---- bank ---- *)
(* balances: association list keyed by (address, denom); absent = 0.  (An association
   list rather than a function so that long histories stay cheap under vm_compute.) *)
Definition bank := list (addr * denom * N).

Fixpoint bal (b : bank) (a : addr) (d : denom) : N :=
  match b with
  | [] => 0
  | (a', d', v) :: rest => if (a' =? a) && (d' =? d) then v else bal rest a d
  end.

Fixpoint bank_set (b : bank) (a : addr) (d : denom) (v : N) : bank :=
  match b with
  | [] => [(a, d, v)]
  | (a', d', v') :: rest =>
      if (a' =? a) && (d' =? d) then (a', d', v) :: rest else (a', d', v') :: bank_set rest a d v
  end.

Definition bank_send (b : bank) (from to : addr) (d : denom) (amt : N) : option bank :=
  if amt <=? bal b from d then
    let b1 := bank_set b from d (bal b from d - amt) in
    Some (bank_set b1 to d (bal b1 to d + amt))
  else None.

(* the messages of one response are executed in order; any failure reverts everything *)
Fixpoint exec_sends (b : bank) (self : addr) (ms : list bmsg) : option bank :=
  match ms with
  | [] => Some b
  | Send to d amt :: rest =>
      match bank_send b self to d amt with
      | Some b' => exec_sends b' self rest
      | None => None
      end
  | _ :: _ => None
  end.

(* ---- the world ---- *)
Record world := mkWorld {
  w_self : addr;                 (* the splits contract *)
  w_admin : option addr;         (* splits ADMIN *)
  w_gadmin : option addr;        (* cw4-group admin *)
  w_members : list member;       (* cw4-group MEMBERS, ascending by address *)
  w_denoms : list denom;         (* denoms ever deposited, ascending *)
  w_bank : bank
}.

Definition set_members (w : world) (ms : list member) : world :=
  mkWorld (w_self w) (w_admin w) (w_gadmin w) ms (w_denoms w) (w_bank w).
Definition set_admin (w : world) (a : option addr) : world :=
  mkWorld (w_self w) a (w_gadmin w) (w_members w) (w_denoms w) (w_bank w).
Definition set_bank (w : world) (ds : list denom) (b : bank) : world :=
  mkWorld (w_self w) (w_admin w) (w_gadmin w) (w_members w) ds b.

Fixpoint insert_denom (d : denom) (ds : list denom) : list denom :=
  match ds with
  | [] => [d]
  | x :: xs => if d <? x then d :: x :: xs else if d =? x then x :: xs else x :: insert_denom d xs
  end.

(* checked_total_weight / checked_total_members *)
Definition weight_ok (ms : list member) : bool := negb (total_weight ms =? 0).
Definition count_ok (ms : list member) : bool :=
  let n := N.of_nat (length (page ms)) in
  negb (n =? 0) && (n <=? splits__MAX_GROUP_SIZE).

(* instantiate with Group::Cw4Address checks the group; the reply path
   (Group::Cw4Instantiate) stores whatever group was created *)
Definition instantiate_existing_ok (ms : list member) : bool := weight_ok ms && count_ok ms.

Definition can_distribute (w : world) (sender : addr) : bool :=
  match w_admin w with
  | Some a => a =? sender
  | None => is_member sender (w_members w)
  end.

Definition nonzero_coin (c : coin) : bool := negb (c_amount c =? 0).

Definition funds_of (w : world) (dl : option (list denom)) : list coin :=
  let balc := fun d => mkCoin d (bal (w_bank w) (w_self w) d) in
  match dl with
  | Some l => filter nonzero_coin (map balc l)       (* query_balance per listed denom *)
  | None => filter nonzero_coin (map balc (w_denoms w))  (* query_all_balances *)
  end.

Definition pay_one (W : N) (m : member) (c : coin) : list bmsg :=
  let mult := c_amount c / W in
  if mult =? 0 then [] else [Send (m_addr m) (c_denom c) (m_weight m * mult)].

Definition pay_msgs (W : N) (ms : list member) (funds : list coin) : list bmsg :=
  flat_map (fun m => flat_map (pay_one W m) funds)
           (filter (fun m => 0 <? m_weight m) ms).

Definition is_nil {A} (l : list A) : bool := match l with [] => true | _ => false end.

(* execute_distribute *)
Definition distribute (w : world) (sender : addr) (dl : option (list denom))
  : result (list bmsg) :=
  if negb (can_distribute w sender) then Err else
  if negb (weight_ok (w_members w)) then Err else
  if negb (count_ok (w_members w)) then Err else
  let funds := funds_of w dl in
  if is_nil funds then Err else
  let msgs := pay_msgs (total_weight (w_members w)) (page (w_members w)) funds in
  (* Uint128 * Uint128 panics above u128 *)
  if existsb (fun m => U128_MAX <? bmsg_amount m) msgs then Err else
  if is_nil msgs then Err else Ok msgs.

Inductive op :=
| Deposit (d : denom) (amt : N)                 (* anyone sends coins to the contract *)
| UpdateMembers (sender : addr) (adds : list member) (rems : list addr)
| UpdateAdmin (sender : addr) (new_admin : option addr)
| Distribute (sender : addr) (dl : option (list denom)).

Definition step (w : world) (o : op) : result world :=
  match o with
  | Deposit d amt =>
      Ok (set_bank w (insert_denom d (w_denoms w))
                   (bank_set (w_bank w) (w_self w) d (bal (w_bank w) (w_self w) d + amt)))
  | UpdateMembers s adds rems =>
      do ms <- group_update (w_gadmin w) s adds rems (w_members w);
      Ok (set_members w ms)
  | UpdateAdmin s na =>
      match w_admin w with
      | Some a => if a =? s then Ok (set_admin w na) else Err
      | None => Err
      end
  | Distribute s dl =>
      do msgs <- distribute w s dl;
      match exec_sends (w_bank w) (w_self w) msgs with
      | Some b' => Ok (set_bank w (w_denoms w) b')
      | None => Err
      end
  end.

(* a rejected step leaves the world as it was *)
Definition step' (w : world) (o : op) : world :=
  match step w o with Ok w' => w' | Err => w end.

Definition run (w : world) (ops : list op) : world := fold_left step' ops w.

Definition empty_bank : bank := [].
Definition init_world (self : addr) (admin gadmin : option addr) (ms : list member) : world :=
  mkWorld self admin gadmin ms [] empty_bank.

(* ---- vocabulary for statements ---- *)
(* total amount of denom d sent to address a / sent at all by a message list *)
Fixpoint paid_to (msgs : list bmsg) (a : addr) (d : denom) : N :=
  match msgs with
  | [] => 0
  | Send t d' x :: r => if (t =? a) && (d' =? d) then x + paid_to r a d else paid_to r a d
  | _ :: r => paid_to r a d
  end.
Fixpoint paid (msgs : list bmsg) (d : denom) : N :=
  match msgs with
  | [] => 0
  | Send _ d' x :: r => if d' =? d then x + paid r d else paid r d
  | _ :: r => paid r d
  end.
(* weight recorded for an address (0 when it is not a member) *)
Fixpoint weight_of (ms : list member) (a : addr) : N :=
  match ms with
  | [] => 0
  | m :: r => if m_addr m =? a then m_weight m + weight_of r a else weight_of r a
  end.
(* how often a denom is named by the request: the explicit list as given, or every denom
   the contract holds once *)
Fixpoint count (d : denom) (l : list denom) : N :=
  match l with
  | [] => 0
  | x :: r => if x =? d then 1 + count d r else count d r
  end.
Definition requested (w : world) (dl : option (list denom)) : list denom :=
  match dl with Some l => l | None => w_denoms w end.
Definition held (w : world) (d : denom) : N := bal (w_bank w) (w_self w) d.

(* strictly ascending keys: the shape of a cw-storage-plus map / the bank's denom list *)
Fixpoint ascending (l : list N) : bool :=
  match l with
  | [] => true
  | x :: r => match r with [] => true | y :: _ => (x <? y) && ascending r end
  end.
Definition wf_world (w : world) : Prop :=
  ascending (map m_addr (w_members w)) = true /\ ascending (w_denoms w) = true.

(* ---- instantiation with attached funds ----
   Coins attached to the splits contract's own instantiate message are credited to it by
   the chain before `instantiate` runs; the handler forwards nothing (the submessage that
   creates the group on the Cw4Instantiate path carries `funds: vec![]`). *)
Definition credit_self (w : world) (c : coin) : world :=
  set_bank w (insert_denom (c_denom c) (w_denoms w))
           (bank_set (w_bank w) (w_self w) (c_denom c) (bal (w_bank w) (w_self w) (c_denom c) + c_amount c)).
Definition init_world_funded (self : addr) (admin gadmin : option addr) (ms : list member)
           (attached : list coin) : world :=
  fold_left credit_self attached (init_world self admin gadmin ms).

(* total of a denom over all accounts / over a coin list / deposited by an op list *)
Fixpoint supply (b : bank) (d : denom) : N :=
  match b with
  | [] => 0
  | (_, d', v) :: rest => if d' =? d then v + supply rest d else supply rest d
  end.
Fixpoint coins_of (cs : list coin) (d : denom) : N :=
  match cs with
  | [] => 0
  | c :: rest => if c_denom c =? d then c_amount c + coins_of rest d else coins_of rest d
  end.
Fixpoint deposited (ops : list op) (d : denom) : N :=
  match ops with
  | [] => 0
  | Deposit d' amt :: rest => if d' =? d then amt + deposited rest d else deposited rest d
  | _ :: rest => deposited rest d
  end.
