(* The `migrate` entry point of the six vending and three open-edition minters, as a
   function on the SALE-WORLD states (MinterVending.vstate / MinterOpen.ostate), so that
   histories can interleave handler calls and migrations.  It is deliberately NOT a
   constructor of `vop` / `eop`: `step` / `ostep` and everything proved about them stay
   as they are.

   The real functions (contracts/minters/*/src/contract.rs, `pub fn migrate`), identical
   within each family:
     - the chain refuses a migration that is not sent by the contract's wasm admin (the
       factory makes the creator the admin): `is_wasm_admin`;
     - the stored cw2 name must be the contract's own CONTRACT_NAME: `stored_name_ok`
       (computed by the harness against the name cw2 held right after creation; the names
       themselves are C20's subject);
     - the stored cw2 version must parse (`stored : option version`, None = unparsable) and
       must not be newer than the code's CONTRACT_VERSION (gen/Consts.v, parsed here);
     - same version: Ok, nothing written;
     - older: cw2 is rewritten (not part of the sale state) and, in the VENDING family
       only, when the stored version is below 3.9.0: LAST_DISCOUNT_TIME := now - 12 h
       (`Timestamp::minus_seconds` panics below zero).  The open-edition minters have no
       such step (they have no discount).
   Nothing else is written: no counter, no price, no schedule, no whitelist, no supply
   slot, no funds move, no message is emitted. *)
From LP Require Export MinterVending MinterOpen Semver.
From LP Require Import Consts.
From LP Require Migrate.
Local Open Scope N_scope.

Definition vending_contract (vr : variant) : Migrate.contract :=
  match v_flex vr, v_merkle vr, v_featured vr with
  | false, false, false => Migrate.VendingMinter
  | false, false, true => Migrate.VendingMinterFeatured
  | true, _, false => Migrate.VendingMinterWlFlex
  | true, _, true => Migrate.VendingMinterWlFlexFeatured
  | false, true, false => Migrate.VendingMinterMerkleWl
  | false, true, true => Migrate.VendingMinterMerkleWlFeatured
  end.

Definition oe_contract (vr : ovariant) : Migrate.contract :=
  match ov_flex vr, ov_merkle vr with
  | false, false => Migrate.OpenEditionMinter
  | true, _ => Migrate.OpenEditionMinterWlFlex
  | false, true => Migrate.OpenEditionMinterMerkleWl
  end.

Definition code_version (c : Migrate.contract) : option version :=
  parse_version (Migrate.code_version_string c).

Definition DISCOUNT_INIT_BELOW : version := (3, 9, 0).
Definition MIG_H12 : N := 60 * 60 * 12.          (* seconds *)

Definition set_last_discount (s : vstate) (t : N) : vstate :=
  set_config s (s_pal s) (s_whitelist s) (s_start s) (s_price s) (s_discount s) t.

Definition minter_migrate (vr : variant) (now : N) (stored_name_ok : bool) (stored : option version)
           (is_wasm_admin : bool) (s : vstate) : result vstate :=
  if negb is_wasm_admin then Err
  else if negb stored_name_ok then Err
  else match stored, code_version (vending_contract vr) with
       | Some v, Some code =>
           if ver_ltb code v then Err
           else if ver_eqb v code then Ok s
           else if ver_ltb v DISCOUNT_INIT_BELOW then
             do t <- minus_seconds now MIG_H12;
             Ok (set_last_discount s t)
           else Ok s
       | _, _ => Err
       end.

Definition o_minter_migrate (vr : ovariant) (now : N) (stored_name_ok : bool) (stored : option version)
           (is_wasm_admin : bool) (s : ostate) : result ostate :=
  if negb is_wasm_admin then Err
  else if negb stored_name_ok then Err
  else match stored, code_version (oe_contract vr) with
       | Some v, Some code => if ver_ltb code v then Err else Ok s
       | _, _ => Err
       end.
