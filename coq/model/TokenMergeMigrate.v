(* token-merge-minter `migrate` and the factory's sudo UpdateParams as seen from one
   existing minter, as separate functions next to model/TokenMerge.v (whose operation
   type and proofs stay as they are).

   migrate: contracts/minters/token-merge-minter/src/contract.rs `migrate` reads and
   writes the cw2 info only; its accept/refuse logic is the KSimple case of
   model/Migrate.v (the model property C20 is stated over).  cw2 is not part of
   `tm_state`, so the whole token-merge state is framed: `tm_migrate` returns the state it
   was given.  The wasm-level admin check (only the contract admin may migrate; the
   factory makes the CreateMinter sender the admin) is the chain's, carried as a boolean.

   sudo UpdateParams on the factory: an existing minter reads max_per_address_limit,
   airdrop_mint_price and shuffle_fee from the factory on every call, so those three
   (constant fields in TokenMerge.v) move; nothing the minter itself stores does -- in
   particular its own per_address_limit, ledger, counters and supply. *)
From Coq Require String.
From LP Require Export TokenMerge.
From LP Require Migrate.

Definition cw2info := (String.string * String.string)%type.      (* (contract name, version) *)

Definition no_slots : Migrate.slots := Migrate.mkSlots None None None None None None None None.

Definition tm_migrate (is_admin : bool) (stored : cw2info) (st : tm_state) : result (tm_state * cw2info) :=
  if is_admin then
    match Migrate.migrate Migrate.TokenMergeMinter 0 None (Migrate.mkState (fst stored) (snd stored) no_slots) with
    | Ok (cs, _) => Ok (st, (Migrate.c_name cs, Migrate.c_version cs))
    | Err => Err
    end
  else Err.

Definition opt_or (o : option N) (d : N) : N := match o with Some x => x | None => d end.

Definition tm_sudo_params (max_limit airdrop_price shuffle_fee : option N) (st : tm_state) : tm_state :=
  mkTm (tm_admin st) (tm_start st) (tm_limit st) (tm_num_tokens st) (tm_req st)
       (opt_or max_limit (tm_max_limit st)) (opt_or airdrop_price (tm_airdrop_price st))
       (opt_or shuffle_fee (tm_shuffle_fee st))
       (tm_mintable st) (tm_avail st) (tm_counts st) (tm_ledger st).

(* ---------- histories that interleave entry points, migrations and governance ---------- *)
Inductive hstep :=
| HOp (now : N) (op : tm_op)
| HMigrate (is_admin : bool) (stored : cw2info)
| HSudo (max_limit airdrop_price shuffle_fee : option N).

(* the minter state after a migrate attempt (accepted or refused) *)
Definition after_migrate (is_admin : bool) (stored : cw2info) (st : tm_state) : tm_state :=
  match tm_migrate is_admin stored st with Ok (st', _) => st' | Err => st end.

Definition gxstep (minter : N) (sg : tm_state * ghost) (e : hstep) : tm_state * ghost :=
  match e with
  | HOp now op => gstep minter sg (now, op)
  | HMigrate a c => (after_migrate a c (fst sg), snd sg)
  | HSudo mx ap sf => (tm_sudo_params mx ap sf (fst sg), snd sg)
  end.
Definition gxrun (minter : N) (h : list hstep) (sg : tm_state * ghost) : tm_state * ghost :=
  fold_left (gxstep minter) h sg.

(* ---------- world level: one more kind of step for the correspondence ---------- *)
Inductive xstep :=
| XOp (op : wop)
| XMigrate (is_admin : bool) (stored : cw2info)
| XSudo (max_limit airdrop_price shuffle_fee : option N).

Definition with_minter (w : world) (m : tm_state) : world := mkWorld m (w_minter w) (w_src w) (w_tgt w).

(* result: world, ok, and the cw2 info the call leaves behind when it is a migrate *)
Definition wxstep (now : N) (x : xstep) (w : world) : world * bool * option cw2info :=
  match x with
  | XOp op => (wstep now op w, None)
  | XMigrate a c =>
      match tm_migrate a c (w_m w) with
      | Ok (m', c') => (with_minter w m', true, Some c')
      | Err => (w, false, Some c)
      end
  | XSudo mx ap sf => (with_minter w (tm_sudo_params mx ap sf (w_m w)), true, None)
  end.
