(* Minter status flags (packages/sg4: Status, SudoMsg::UpdateStatus, QueryMsg::Status)
   and `update_status` of the eleven minters.  Executable, no proofs.

   The eleven `update_status` functions are textually identical (load STATUS, assign the
   three flags, save STATUS) and `instantiate` of every minter stores Status::default().
   There is therefore ONE status model; `minter_kind` only names which contract a
   correspondence case was run on.  It is the tie (every flag triple on every variant,
   each created through its factory), not the model, that tells the variants apart: a
   variant that drops the write disagrees with this model on its own cases. *)
From LP Require Export Prelude.

Record status := mkStatus { is_verified : bool; is_blocked : bool; is_explicit : bool }.

Definition status_default : status := mkStatus false false false.

Inductive minter_kind :=
| MBase | MVending | MVendingFeatured | MVendingWlFlex | MVendingWlFlexFeatured
| MVendingMerkleWl | MVendingMerkleWlFeatured
| MOpenEdition | MOpenEditionWlFlex | MOpenEditionMerkleWl | MTokenMerge.

Definition all_minter_kinds : list minter_kind :=
  [MBase; MVending; MVendingFeatured; MVendingWlFlex; MVendingWlFlexFeatured;
   MVendingMerkleWl; MVendingMerkleWlFeatured;
   MOpenEdition; MOpenEditionWlFlex; MOpenEditionMerkleWl; MTokenMerge].

(* a minter contract: its status and everything else it stores *)
Record minter_state (R : Type) := mkMS { ms_status : status; ms_rest : R }.
Arguments mkMS {R}. Arguments ms_status {R}. Arguments ms_rest {R}.

Definition minter_instantiate {R} (k : minter_kind) (rest : R) : minter_state R :=
  {| ms_status := status_default; ms_rest := rest |}.

(* sudo UpdateStatus { is_verified, is_blocked, is_explicit }: never fails *)
Definition sudo_update_status {R} (k : minter_kind) (s : minter_state R) (v b e : bool)
  : result (minter_state R) :=
  Ok {| ms_status := mkStatus v b e; ms_rest := ms_rest s |}.

(* QueryMsg::Status {} *)
Definition query_status {R} (s : minter_state R) : bool * bool * bool :=
  (is_verified (ms_status s), is_blocked (ms_status s), is_explicit (ms_status s)).

Definition apply_status_seq {R} (k : minter_kind) (s : minter_state R) (fs : list (bool * bool * bool))
  : minter_state R :=
  fold_left (fun q f => match f with (v, b, e) =>
               match sudo_update_status k q v b e with Ok q' => q' | Err => q end end) fs s.
