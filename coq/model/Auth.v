(* C05 — authorization models.

   For the six vending minters the property is proved over the full handler model
   (MinterVending.step; see proofs/AuthProofs.v).  For every other contract this file
   holds a small executable model of EXACTLY the authorization logic of its execute
   entry point, read from the Rust:

   * cw-ownable 0.5.1 (two-step ownership with optional expiry) as used by
     sg721-base `mint` / `update_start_trading_time` through `assert_minter_owner`;
   * sg721-base creator checks (`update_collection_info`, `freeze_collection_info`),
     creator hand-over through UpdateCollectionInfo{creator}, the frozen flag (checked
     BEFORE the creator in update_collection_info);
   * cw721-base 0.18 token permissions (`check_can_send`, `check_can_approve`);
   * sg721-updatable metadata operations (creator, frozen, enabled — in that order);
   * sg721-nt's reduced message set;
   * the whitelists' AdminList {admins, mutable}: `can_execute` (= is_admin) on every
     membership/schedule handler, `can_modify` (= mutable && is_admin) on UpdateAdmins and
     Freeze; IncreaseMemberLimit has no check (see DESIGN §7 C05);
   * sg-splits `can_distribute` and cw-controllers `Admin::execute_update_admin`;
   * base-minter (sender against the collection's CURRENT creator, a query -> part of
     the state the harness reads), open-edition and token-merge minters (sender against
     Config.extension.admin, handler by handler: `admin_only`);
   * factories (CreateMinter is open; nothing an execute message can do touches Params);
   * sg-eth-airdrop ClaimAirdrop (the signature binds the claiming wallet).

   A step answers Err when the message is refused ON THE AUTHORIZATION DIMENSION (or
   does not exist for that contract); Ok st' means "authorized", st' being the
   principal-relevant state if every other guard (payment, time, supply, argument
   validity) passes too.  The other guards are not modelled here: the correspondence
   check supplies them as the oracle `guards_ok` (observed: the identical call by a
   principal succeeded from the same state).  Err carries no state. *)
From LP Require Export Prelude.

(* ---------------------------------------------------------------- small list helpers *)
Definition mem (a : addr) (l : list addr) : bool := existsb (fun x => x =? a) l.
Definition remove_addr (a : addr) (l : list addr) : list addr := filter (fun x => negb (x =? a)) l.
Definition pair_eqb (p q : addr * addr) : bool := (fst p =? fst q) && (snd p =? snd q).
Definition mem_pair (p : addr * addr) (l : list (addr * addr)) : bool := existsb (pair_eqb p) l.
Definition remove_pair (p : addr * addr) (l : list (addr * addr)) : list (addr * addr) :=
  filter (fun q => negb (pair_eqb p q)) l.
Definition opt_is (o : option addr) (a : addr) : bool :=
  match o with Some x => x =? a | None => false end.

(* ---------------------------------------------------------------- block, expiry *)
Record aenv := mkAE { ae_now : N; ae_height : N }.

(* cw_utils::Expiration *)
Inductive expiry := ExNever | ExAtTime (t : N) | ExAtHeight (h : N).
Definition expired (e : expiry) (env : aenv) : bool :=
  match e with
  | ExNever => false
  | ExAtTime t => t <=? ae_now env
  | ExAtHeight h => h <=? ae_height env
  end.

(* ---------------------------------------------------------------- cw-ownable *)
Record ownership := mkOwn { ow_owner : option addr; ow_pending : option addr; ow_expiry : option expiry }.

Definition is_owner (o : ownership) (a : addr) : bool := opt_is (ow_owner o) a.
(* assert_owner: NoOwner when renounced, NotOwner otherwise *)
Definition assert_owner (o : ownership) (a : addr) : result unit := guard (is_owner o a).

Inductive own_action :=
| TransferOwnership (new_owner : addr) (exp : option expiry)
| AcceptOwnership
| RenounceOwnership.

Definition update_ownership (o : ownership) (env : aenv) (sender : addr) (a : own_action) : result ownership :=
  match a with
  | TransferOwnership n e =>
      match ow_owner o with
      | None => Err
      | Some cur => if sender =? cur then Ok (mkOwn (Some cur) (Some n) e) else Err
      end
  | AcceptOwnership =>
      match ow_pending o with
      | None => Err
      | Some p =>
          if negb (sender =? p) then Err
          else if (match ow_expiry o with Some e => expired e env | None => false end) then Err
          else Ok (mkOwn (Some p) None None)
      end
  | RenounceOwnership =>
      match ow_owner o with
      | None => Err
      | Some cur => if sender =? cur then Ok (mkOwn None None None) else Err
      end
  end.

(* ---------------------------------------------------------------- collections *)
Inductive collkind := Sg721Base | Sg721Updatable | Sg721Metadata | Sg721Nt.

Record token := mkTok { t_id : N; t_owner : addr; t_approvals : list addr }.

Record cstate := mkCS {
  c_own : ownership;                 (* cw-ownable: owner = the minter *)
  c_creator : addr;                  (* CollectionInfo.creator *)
  c_frozen : bool;                   (* frozen_collection_info *)
  c_meta_frozen : bool;              (* sg721-updatable FROZEN_TOKEN_METADATA *)
  c_enabled : bool;                  (* sg721-updatable ENABLE_UPDATABLE *)
  c_tokens : list token;
  c_operators : list (addr * addr)   (* (owner, operator), ApproveAll *)
}.

Inductive cmsg :=
| CTransferNft (tok : N) (recipient : addr)
| CSendNft (tok : N) (contract : addr)
| CApprove (tok : N) (spender : addr)
| CRevoke (tok : N) (spender : addr)
| CApproveAll (operator : addr)
| CRevokeAll (operator : addr)
| CMint (tok : N) (owner : addr)
| CBurn (tok : N)
| CExtension
| CUpdateCollectionInfo (new_creator : option addr)
| CUpdateStartTradingTime
| CFreezeCollectionInfo
| CUpdateOwnership (a : own_action)
| CFreezeTokenMetadata
| CUpdateTokenMetadata (tok : N)
| CEnableUpdatable.

(* which variants the contract's ExecuteMsg has (anything else does not deserialize) *)
Definition coll_has (k : collkind) (m : cmsg) : bool :=
  match k, m with
  | Sg721Nt, (CMint _ _ | CBurn _ | CUpdateCollectionInfo _ | CFreezeCollectionInfo) => true
  | Sg721Nt, _ => false
  | Sg721Updatable, CUpdateOwnership _ => false
  | Sg721Updatable, _ => true
  | (Sg721Base | Sg721Metadata), (CFreezeTokenMetadata | CUpdateTokenMetadata _ | CEnableUpdatable) => false
  | (Sg721Base | Sg721Metadata), _ => true
  end.

Fixpoint find_token (l : list token) (id : N) : option token :=
  match l with
  | [] => None
  | t :: r => if t_id t =? id then Some t else find_token r id
  end.
Fixpoint put_token (l : list token) (t' : token) : list token :=
  match l with
  | [] => []
  | t :: r => if t_id t =? t_id t' then t' :: r else t :: put_token r t'
  end.
Definition del_token (l : list token) (id : N) : list token := filter (fun t => negb (t_id t =? id)) l.

(* cw721-base check_can_send / check_can_approve (approvals and operators never expire
   here: the harness grants them with `expires: null`) *)
Definition can_send (s : cstate) (t : token) (sender : addr) : bool :=
  (t_owner t =? sender) || mem sender (t_approvals t) || mem_pair (t_owner t, sender) (c_operators s).
Definition can_approve (s : cstate) (t : token) (sender : addr) : bool :=
  (t_owner t =? sender) || mem_pair (t_owner t, sender) (c_operators s).

Definition set_tokens (s : cstate) (l : list token) : cstate :=
  mkCS (c_own s) (c_creator s) (c_frozen s) (c_meta_frozen s) (c_enabled s) l (c_operators s).
Definition set_operators (s : cstate) (l : list (addr * addr)) : cstate :=
  mkCS (c_own s) (c_creator s) (c_frozen s) (c_meta_frozen s) (c_enabled s) (c_tokens s) l.

Definition transfer (s : cstate) (sender : addr) (id : N) (to : addr) : result cstate :=
  match find_token (c_tokens s) id with
  | None => Err
  | Some t => if can_send s t sender then Ok (set_tokens s (put_token (c_tokens s) (mkTok id to []))) else Err
  end.

Definition coll_step (k : collkind) (s : cstate) (env : aenv) (sender : addr) (m : cmsg) : result cstate :=
  if negb (coll_has k m) then Err else
  match m with
  | CTransferNft id to => transfer s sender id to
  | CSendNft id to => transfer s sender id to
  | CApprove id sp =>
      match find_token (c_tokens s) id with
      | None => Err
      | Some t =>
          if can_approve s t sender
          then Ok (set_tokens s (put_token (c_tokens s) (mkTok id (t_owner t) (remove_addr sp (t_approvals t) ++ [sp]))))
          else Err
      end
  | CRevoke id sp =>
      match find_token (c_tokens s) id with
      | None => Err
      | Some t =>
          if can_approve s t sender
          then Ok (set_tokens s (put_token (c_tokens s) (mkTok id (t_owner t) (remove_addr sp (t_approvals t)))))
          else Err
      end
  | CApproveAll op => Ok (set_operators s (remove_pair (sender, op) (c_operators s) ++ [(sender, op)]))
  | CRevokeAll op => Ok (set_operators s (remove_pair (sender, op) (c_operators s)))
  | CMint id owner =>
      do _ <- assert_owner (c_own s) sender;
      match find_token (c_tokens s) id with
      | Some _ => Err
      | None => Ok (set_tokens s (c_tokens s ++ [mkTok id owner []]))
      end
  | CBurn id =>
      match find_token (c_tokens s) id with
      | None => Err
      | Some t => if can_send s t sender then Ok (set_tokens s (del_token (c_tokens s) id)) else Err
      end
  | CExtension => Err                           (* todo!() / unreachable!(): panics for everyone *)
  | CUpdateCollectionInfo nc =>
      if c_frozen s then Err
      else if negb (c_creator s =? sender) then Err
      else Ok (mkCS (c_own s) (match nc with Some c => c | None => c_creator s end) (c_frozen s)
                    (c_meta_frozen s) (c_enabled s) (c_tokens s) (c_operators s))
  | CUpdateStartTradingTime => do _ <- assert_owner (c_own s) sender; Ok s
  | CFreezeCollectionInfo =>
      if negb (c_creator s =? sender) then Err
      else Ok (mkCS (c_own s) (c_creator s) true (c_meta_frozen s) (c_enabled s) (c_tokens s) (c_operators s))
  | CUpdateOwnership a =>
      do o <- update_ownership (c_own s) env sender a;
      Ok (mkCS o (c_creator s) (c_frozen s) (c_meta_frozen s) (c_enabled s) (c_tokens s) (c_operators s))
  | CFreezeTokenMetadata =>
      if negb (sender =? c_creator s) then Err
      else Ok (mkCS (c_own s) (c_creator s) (c_frozen s) true (c_enabled s) (c_tokens s) (c_operators s))
  | CUpdateTokenMetadata id =>
      if negb (sender =? c_creator s) then Err
      else if c_meta_frozen s then Err
      else if negb (c_enabled s) then Err
      else match find_token (c_tokens s) id with None => Err | Some _ => Ok s end
  | CEnableUpdatable =>
      if c_enabled s then Err
      else if negb (sender =? c_creator s) then Err
      else Ok (mkCS (c_own s) (c_creator s) (c_frozen s) (c_meta_frozen s) true (c_tokens s) (c_operators s))
  end.

(* the principals, as functions of the current state *)
Definition coll_minter (s : cstate) : option addr := ow_owner (c_own s).

(* ---------------------------------------------------------------- minters *)
Inductive mfamily := FVending | FOpenEdition | FTokenMerge | FBase.

Inductive mkind :=
| KMint | KSetWhitelist | KPurge | KUpdateMintPrice | KUpdateStartTime | KUpdateEndTime
| KUpdateStartTradingTime | KUpdatePerAddressLimit | KMintTo | KMintFor | KShuffle
| KBurnRemaining | KUpdateDiscountPrice | KRemoveDiscountPrice | KReceiveNft.

(* the ExecuteMsg of each family (contracts/minters/*/src/msg.rs) *)
Definition has_msg (f : mfamily) (k : mkind) : bool :=
  match f, k with
  | FVending, (KUpdateEndTime | KReceiveNft) => false
  | FVending, _ => true
  | FOpenEdition, (KMintFor | KShuffle | KUpdateDiscountPrice | KRemoveDiscountPrice | KReceiveNft) => false
  | FOpenEdition, _ => true
  | FTokenMerge, (KMint | KSetWhitelist | KUpdateMintPrice | KUpdateEndTime | KUpdateDiscountPrice
                  | KRemoveDiscountPrice) => false
  | FTokenMerge, _ => true
  | FBase, (KMint | KUpdateStartTradingTime) => true
  | FBase, _ => false
  end.

(* handlers that compare info.sender with config.extension.admin.  Mint, Purge, Shuffle
   and ReceiveNft are open to anyone (ReceiveNft: to the listed burn collections, which
   is not an authorization the property speaks about). *)
Definition admin_only (f : mfamily) (k : mkind) : bool :=
  match f with
  | FBase => false
  | _ => match k with
         | KMint | KPurge | KShuffle | KReceiveNft => false
         | _ => true
         end
  end.

(* base-minter: both handlers compare info.sender with the collection's current creator *)
Definition creator_only (f : mfamily) (k : mkind) : bool :=
  match f, k with
  | FBase, (KMint | KUpdateStartTradingTime) => true
  | _, _ => false
  end.

Record mstate := mkMS {
  m_admin : addr;          (* Config.extension.admin; 0 for the base minter, which has none *)
  m_coll_creator : addr;   (* CollectionInfo.creator of the minter's collection, as answered now *)
  m_status : N;            (* Status{is_verified,is_blocked,is_explicit} as bits 4,2,1 *)
  m_params : N             (* the factory's Params answer (an id the harness gives to its text) *)
}.

(* No execute message changes any of the four fields: the admin is written once at
   instantiation, Status only by sudo, Params live in the factory and only its sudo
   writes them, the creator lives in the collection. *)
Definition minter_step (f : mfamily) (s : mstate) (sender : addr) (k : mkind) : result mstate :=
  if negb (has_msg f k) then Err
  else if admin_only f k && negb (sender =? m_admin s) then Err
  else if creator_only f k && negb (sender =? m_coll_creator s) then Err
  else Ok s.

(* ---------------------------------------------------------------- whitelists *)
Inductive wlkind := WPlain | WFlex | WTiered | WTieredFlex | WMerkle | WTieredMerkle | WImmutable.

Inductive wkind :=
| WUpdateStartTime | WUpdateEndTime | WAddMembers | WRemoveMembers | WUpdatePerAddressLimit
| WIncreaseMemberLimit | WAddStage | WRemoveStage | WUpdateStageConfig.

Inductive wmsg := WOp (k : wkind) | WUpdateAdmins (l : list addr) | WFreeze.

Definition wl_has (w : wlkind) (k : wkind) : bool :=
  match w, k with
  | WPlain, (WUpdateStartTime | WUpdateEndTime | WAddMembers | WRemoveMembers | WUpdatePerAddressLimit
             | WIncreaseMemberLimit) => true
  | WFlex, (WUpdateStartTime | WUpdateEndTime | WAddMembers | WRemoveMembers | WIncreaseMemberLimit) => true
  | (WTiered | WTieredFlex), (WAddStage | WRemoveStage | WAddMembers | WRemoveMembers | WUpdateStageConfig
                              | WIncreaseMemberLimit) => true
  | WMerkle, (WUpdateStartTime | WUpdateEndTime) => true
  | WTieredMerkle, WUpdateStageConfig => true
  | _, _ => false
  end.

(* every handler calls can_execute except execute_increase_member_limit *)
Definition wl_admin_gated (k : wkind) : bool := match k with WIncreaseMemberLimit => false | _ => true end.

Record wstate := mkWS { w_admins : list addr; w_mutable : bool }.
Definition is_admin (s : wstate) (a : addr) : bool := mem a (w_admins s).
Definition can_modify (s : wstate) (a : addr) : bool := w_mutable s && is_admin s a.

Definition wl_step (w : wlkind) (s : wstate) (sender : addr) (m : wmsg) : result wstate :=
  match w with
  | WImmutable => Err                      (* `pub enum ExecuteMsg {}`: nothing deserializes *)
  | _ =>
      match m with
      | WOp k =>
          if negb (wl_has w k) then Err
          else if wl_admin_gated k && negb (is_admin s sender) then Err
          else Ok s
      | WUpdateAdmins l => if can_modify s sender then Ok (mkWS l (w_mutable s)) else Err
      | WFreeze => if can_modify s sender then Ok (mkWS (w_admins s) false) else Err
      end
  end.

(* ---------------------------------------------------------------- splits *)
Record sstate := mkSS { sp_admin : option addr; sp_members : list addr }.
Inductive smsg := SDistribute | SUpdateAdmin (new_admin : option addr).

Definition can_distribute (s : sstate) (a : addr) : bool :=
  match sp_admin s with
  | Some ad => ad =? a
  | None => mem a (sp_members s)
  end.

Definition splits_step (s : sstate) (sender : addr) (m : smsg) : result sstate :=
  match m with
  | SDistribute => if can_distribute s sender then Ok s else Err
  | SUpdateAdmin n =>
      (* cw-controllers Admin::assert_admin: NotAdmin also when no admin is set *)
      if opt_is (sp_admin s) sender then Ok (mkSS n (sp_members s)) else Err
  end.

(* ---------------------------------------------------------------- the table *)
Inductive astate :=
| AMinter (f : mfamily) (s : mstate)
| AColl (k : collkind) (s : cstate)
| AWl (k : wlkind) (s : wstate)
| ASplits (s : sstate)
| AFactory (params : N)
| AAirdrop.

Inductive amsg :=
| MM (k : mkind)
| CM (m : cmsg)
| WM (m : wmsg)
| SM (m : smsg)
| FCreateMinter                     (* the factories' only ExecuteMsg; open to anyone who pays *)
| AClaim (signed_wallet : addr)     (* ClaimAirdrop with a signature over the text naming `signed_wallet` *)
| XUndecodable.                     (* bytes that are not an ExecuteMsg of the contract, e.g. a SudoMsg *)

Definition auth_step (st : astate) (env : aenv) (sender : addr) (m : amsg) : result astate :=
  match st, m with
  | AMinter f s, MM k => do s' <- minter_step f s sender k; Ok (AMinter f s')
  | AColl k s, CM c => do s' <- coll_step k s env sender c; Ok (AColl k s')
  | AWl k s, WM w => do s' <- wl_step k s sender w; Ok (AWl k s')
  | ASplits s, SM x => do s' <- splits_step s sender x; Ok (ASplits s')
  | AFactory p, FCreateMinter => Ok (AFactory p)
  | AAirdrop, AClaim w => if sender =? w then Ok AAirdrop else Err
  | _, _ => Err
  end.

(* a failed call leaves the state as it was *)
Definition apply_auth (st : astate) (c : aenv * addr * amsg) : astate :=
  let '(env, sender, m) := c in
  match auth_step st env sender m with Ok st' => st' | Err => st end.
Definition run_auth (st : astate) (cs : list (aenv * addr * amsg)) : astate := fold_left apply_auth cs st.

(* ---------------------------------------------------------------- migration *)
(* MsgMigrateContract is the other message a user account can send to a contract.  The
   chain lets it through only for the contract's wasm-level admin (the factories make the
   creator the wasm admin of its minter and of its collection), then the contract's
   `migrate` entry point runs.  On the principal-relevant state every migrate entry point
   of the workspace is a FRAME: version bookkeeping and back-fills of slots this state
   does not contain — in particular a minter's migrate takes `Empty` and must leave its
   Status alone, and a factory's migrate with no parameter message must leave its Params
   alone.  The one documented exception (C20): a factory's migrate may carry an explicit
   UpdateParams message, applied like the sudo one; `explicit_params` = Some q stands for
   it, q being the parameters that result (an oracle the harness reads back).
   Whether the stored cw2 (name, version) pair is acceptable is not an authorization
   matter: the correspondence case supplies it (`version_ok`). *)
Definition migrate_step (st : astate) (sender_is_wasm_admin : bool) (explicit_params : option N) : result astate :=
  if negb sender_is_wasm_admin then Err
  else match explicit_params, st with
       | None, _ => Ok st
       | Some q, AFactory _ => Ok (AFactory q)
       | Some _, _ => Err              (* every other migrate entry point takes `Empty` *)
       end.

(* everything a user account can send to a contract *)
Inductive umsg :=
| UExecute (m : amsg)
| UMigrate (sender_is_wasm_admin : bool) (explicit_params : option N).

Definition user_step (st : astate) (env : aenv) (sender : addr) (u : umsg) : result astate :=
  match u with
  | UExecute m => auth_step st env sender m
  | UMigrate adm ex => migrate_step st adm ex
  end.
Definition apply_user (st : astate) (c : aenv * addr * umsg) : astate :=
  let '(env, sender, u) := c in
  match user_step st env sender u with Ok st' => st' | Err => st end.
Definition run_user (st : astate) (cs : list (aenv * addr * umsg)) : astate := fold_left apply_user cs st.

(* a history in which no migrate carries an explicit parameter message *)
Definition no_explicit_params (c : aenv * addr * umsg) : bool :=
  match snd c with UMigrate _ (Some _) => false | _ => true end.

(* ---------------------------------------------------------------- who owns what *)
(* The table of the property sentence: the role each message is reserved to, and who
   holds that role in a given state.  Total over the message types, so a message added
   to a model without a line here does not compile.  proofs/AuthProofs.v shows that a
   sender who does not hold the role is refused (`table_sound`). *)
Inductive role :=
| RMinterAdmin            (* Config.extension.admin of a vending / open-edition / token-merge minter *)
| RCollectionCreatorNow   (* base minter: the collection's current creator *)
| RCollectionMinter       (* cw-ownable owner of the collection *)
| RProposedMinter         (* cw-ownable pending owner *)
| RCreator                (* CollectionInfo.creator *)
| RTokenSender (id : N)   (* owner of the token, approved spender, operator of the owner *)
| RTokenApprover (id : N) (* owner of the token or operator of the owner *)
| RWhitelistAdmin         (* member of AdminList.admins *)
| RWhitelistAdminWhileMutable
| RSplitsDistributor      (* the admin, or any group member when no admin is set *)
| RSplitsAdmin
| RSignedWallet (w : addr)
| RAnyone                 (* not reserved by the property sentence *)
| RNobody.                (* no such message / always refused *)

Definition coll_reserved (m : cmsg) : role :=
  match m with
  | CTransferNft id _ | CSendNft id _ | CBurn id => RTokenSender id
  | CApprove id _ | CRevoke id _ => RTokenApprover id
  | CApproveAll _ | CRevokeAll _ => RAnyone
  | CMint _ _ | CUpdateStartTradingTime => RCollectionMinter
  | CUpdateOwnership (TransferOwnership _ _) | CUpdateOwnership RenounceOwnership => RCollectionMinter
  | CUpdateOwnership AcceptOwnership => RProposedMinter
  | CExtension => RNobody
  | CUpdateCollectionInfo _ | CFreezeCollectionInfo | CFreezeTokenMetadata | CUpdateTokenMetadata _
  | CEnableUpdatable => RCreator
  end.

Definition minter_reserved (f : mfamily) (k : mkind) : role :=
  if negb (has_msg f k) then RNobody
  else match f with
       | FBase => RCollectionCreatorNow
       | _ => match k with
              | KMint | KPurge | KShuffle | KReceiveNft => RAnyone
              | _ => RMinterAdmin
              end
       end.

Definition wl_reserved (w : wlkind) (m : wmsg) : role :=
  match w with
  | WImmutable => RNobody
  | _ => match m with
         | WOp k => if negb (wl_has w k) then RNobody
                    else match k with WIncreaseMemberLimit => RAnyone | _ => RWhitelistAdmin end
         | WUpdateAdmins _ | WFreeze => RWhitelistAdminWhileMutable
         end
  end.

Definition reserved_to (st : astate) (m : amsg) : role :=
  match st, m with
  | AMinter f _, MM k => minter_reserved f k
  | AColl k _, CM c => if coll_has k c then coll_reserved c else RNobody
  | AWl w _, WM x => wl_reserved w x
  | ASplits _, SM SDistribute => RSplitsDistributor
  | ASplits _, SM (SUpdateAdmin _) => RSplitsAdmin
  | AFactory _, FCreateMinter => RAnyone
  | AAirdrop, AClaim w => RSignedWallet w
  | _, _ => RNobody
  end.

Definition holds_role (st : astate) (sender : addr) (r : role) : bool :=
  match r with
  | RAnyone => true
  | RNobody => false
  | RSignedWallet w => sender =? w
  | _ =>
    match st with
    | AMinter _ s =>
        match r with
        | RMinterAdmin => sender =? m_admin s
        | RCollectionCreatorNow => sender =? m_coll_creator s
        | _ => false
        end
    | AColl _ s =>
        match r with
        | RCollectionMinter => opt_is (ow_owner (c_own s)) sender
        | RProposedMinter => opt_is (ow_pending (c_own s)) sender
        | RCreator => sender =? c_creator s
        | RTokenSender id => match find_token (c_tokens s) id with Some t => can_send s t sender | None => false end
        | RTokenApprover id => match find_token (c_tokens s) id with Some t => can_approve s t sender | None => false end
        | _ => false
        end
    | AWl _ s =>
        match r with
        | RWhitelistAdmin => is_admin s sender
        | RWhitelistAdminWhileMutable => can_modify s sender
        | _ => false
        end
    | ASplits s =>
        match r with
        | RSplitsDistributor => can_distribute s sender
        | RSplitsAdmin => opt_is (sp_admin s) sender
        | _ => false
        end
    | _ => false
    end
  end.

(* ---------------------------------------------------------------- instantiation *)
(* Who may instantiate.  The decisive party is the SENDER of the instantiate message:
   collections ask `WasmQuery::ContractInfo{info.sender}` (the sender must be a contract),
   minters ask `Sg2QueryMsg::Params` of info.sender (the sender must be a factory).  The
   message also NAMES addresses — a collection's `minter`, a minter's creator / payment
   address — and in every ordinary flow the named minter is the sender itself; whether a
   named address is a contract is recorded with each case but is not an input of the
   decision: a user account that names an existing contract as minter is still a user
   account.  All three facts are oracle inputs. *)
Inductive inst_target := ICollection | IMinter.
Record inst_parties := mkIP {
  ip_sender_is_contract : bool;      (* ContractInfo{info.sender} answers *)
  ip_sender_answers_params : bool;   (* Params{} on info.sender answers *)
  ip_named_is_contract : bool        (* the address named in the message is a contract: recorded, never consulted *)
}.
Definition inst_allowed (t : inst_target) (p : inst_parties) : bool :=
  match t with
  | ICollection => ip_sender_is_contract p
  | IMinter => ip_sender_is_contract p && ip_sender_answers_params p
  end.
