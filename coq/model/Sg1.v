(* packages/sg1/src/lib.rs : fee splitting.  Recipient ids: the three hard-wired
   protocol addresses are fixed ids; the harness maps the documented address strings
   to them (and any other string to a fresh id, so a changed constant shows up). *)
From LP Require Export Num Pay.
From LP Require Import Consts.

Definition A_FOUNDATION : addr := 1.
Definition A_LAUNCHPAD_DAO : addr := 2.
Definition A_LIQUIDITY_DAO : addr := 3.

(* u128 subtraction; release builds have overflow-checks = true, so underflow aborts *)
Definition sub128 (a b : N) : result N := if b <=? a then Ok (a - b) else Err.

Definition fair_burn (sender : addr) (fee : N) (dev : option addr) : result (list bmsg) :=
  let burn_fee := mul_floor fee (dec_percent sg1__FEE_BURN_PERCENT) in
  do remainder <- sub128 fee burn_fee;
  Ok (Burn NATIVE burn_fee ::
      match dev with
      | Some d => [Send d NATIVE remainder]
      | None => [FundPool sender NATIVE remainder]
      end).

Definition checked_fair_burn (contract : addr) (funds : list coin) (fee : N) (dev : option addr)
  : result (list bmsg) :=
  do payment <- may_pay funds NATIVE;
  if payment <? fee then Err
  else if payment =? 0 then Ok []
  else fair_burn contract fee dev.

Definition ibc_denom_fair_burn (d : denom) (fee : N) (dev : option addr) : result (list bmsg) :=
  match dev with
  | Some dv =>
      let dev_fee := mul_ceil fee (dec_percent sg1__FEE_BURN_PERCENT) in
      do rest <- sub128 fee dev_fee;
      Ok [Send dv d dev_fee; Send A_FOUNDATION d rest]
  | None => Ok [Send A_FOUNDATION d fee]
  end.

Definition liquidity_ratio (featured : bool) : N :=
  if featured
  then dec_from_ratio sg1__liquidity_dao_ratio_featured_num sg1__liquidity_dao_ratio_featured_den
  else dec_from_ratio sg1__liquidity_dao_ratio_num sg1__liquidity_dao_ratio_den.

Definition distribute_mint_fees (d : denom) (fee : N) (featured : bool) (dev : option addr)
  : result (list bmsg) :=
  let ratio := liquidity_ratio featured in
  match dev with
  | Some dv =>
      let dev_fee := mul_ceil fee (dec_percent sg1__FEE_BURN_PERCENT) in
      do remaining <- sub128 fee dev_fee;
      let liq := mul_ceil remaining ratio in
      do lp <- sub128 remaining liq;
      Ok [Send dv d dev_fee; Send A_LIQUIDITY_DAO d liq; Send A_LAUNCHPAD_DAO d lp]
  | None =>
      let liq := mul_ceil fee ratio in
      do lp <- sub128 fee liq;
      Ok [Send A_LIQUIDITY_DAO d liq; Send A_LAUNCHPAD_DAO d lp]
  end.

Definition transfer_funds_to_launchpad_dao (funds : list coin) (fee : N) (accepted : denom)
  : result (list bmsg) :=
  do payment <- must_pay funds accepted;
  if payment <? fee then Err else Ok [Send A_LAUNCHPAD_DAO accepted payment].
