(* contracts/whitelists/{tiered-whitelist, tiered-whitelist-flex}/src/{contract,helpers}.rs
   and whitelist-immutable/src/contract.rs.  The two tiered crates are one model with a
   `flex` flag (flex: members carry a mint count, no sort+dedup, no per-address limit in
   the stages, whale cap).  Storage is modelled as it is: WHITELIST_STAGES is one map
   keyed by (stage id, address), MEMBER_COUNT a map keyed by stage id. *)
From LP Require Export Wl.
From LP Require Import Consts.

Record stage := mkStage { s_start : N; s_end : N; s_pal : N; s_denom : N }.

Definition T_MAX_MEMBERS (flex : bool) : N :=
  if flex then tiered_whitelist_flex__MAX_MEMBERS else tiered_whitelist__MAX_MEMBERS.
Definition T_PRICE (flex : bool) : N :=
  if flex then tiered_whitelist_flex__PRICE_PER_1000_MEMBERS else tiered_whitelist__PRICE_PER_1000_MEMBERS.
Definition T_MAX_PAL : N := tiered_whitelist__MAX_PER_ADDRESS_LIMIT.

Definition t_creation_fee (flex : bool) (limit : N) : N := tiers limit * T_PRICE flex.
Definition t_upgrade_fee (flex : bool) (old new : N) : N :=
  if tiers old <? tiers new then (tiers new - tiers old) * T_PRICE flex else 0.

(* Map<(u32, Addr), _> *)
Definition tmem := list (N * addr * N).
Definition e_stage (p : N * addr * N) : N := fst (fst p).
Definition e_addr (p : N * addr * N) : addr := snd (fst p).
Definition is_key (k : N) (a : addr) (p : N * addr * N) : bool := (e_stage p =? k) && (e_addr p =? a).
Definition t_has (k : N) (a : addr) (m : tmem) : bool := existsb (is_key k a) m.
Definition t_del (k : N) (a : addr) (m : tmem) : tmem := filter (fun p => negb (is_key k a p)) m.
Definition t_set (k : N) (a : addr) (c : N) (m : tmem) : tmem := (k, a, c) :: t_del k a m.
Definition t_stage (k : N) (m : tmem) : tmem := filter (fun p => e_stage p =? k) m.
(* entries of the stages k .. n-1 / the rest *)
Definition in_range (k n : N) (p : N * addr * N) : bool := (k <=? e_stage p) && (e_stage p <? n).
Definition t_range (k n : N) (m : tmem) : tmem := filter (in_range k n) m.
Definition t_del_range (k n : N) (m : tmem) : tmem := filter (fun p => negb (in_range k n p)) m.

(* Map<u32, u32> *)
Definition cnts := list (N * N).
Fixpoint c_get (k : N) (c : cnts) : N :=
  match c with [] => 0 | (j, v) :: t => if j =? k then v else c_get k t end.
Definition c_del (k : N) (c : cnts) : cnts := filter (fun p => negb (fst p =? k)) c.
Definition c_set (k v : N) (c : cnts) : cnts := (k, v) :: c_del k c.
Definition c_del_range (k n : N) (c : cnts) : cnts :=
  filter (fun p => negb ((k <=? fst p) && (fst p <? n))) c.

Record tw := mkTw {
  t_flex : bool;
  t_stages : list stage;
  t_num : N; t_limit : N;
  t_whale : option N;
  t_admins : list addr; t_mutable : bool;
  t_mem : tmem; t_cnt : cnts
}.

Definition tw_members (w : tw) (num : N) (m : tmem) (c : cnts) : tw :=
  mkTw (t_flex w) (t_stages w) num (t_limit w) (t_whale w) (t_admins w) (t_mutable w) m c.
Definition tw_stages (w : tw) (st : list stage) (num : N) (m : tmem) (c : cnts) : tw :=
  mkTw (t_flex w) st num (t_limit w) (t_whale w) (t_admins w) (t_mutable w) m c.
Definition tw_limit (w : tw) (l : N) : tw :=
  mkTw (t_flex w) (t_stages w) (t_num w) l (t_whale w) (t_admins w) (t_mutable w) (t_mem w) (t_cnt w).
Definition tw_admins (w : tw) (l : list addr) (mu : bool) : tw :=
  mkTw (t_flex w) (t_stages w) (t_num w) (t_limit w) (t_whale w) l mu (t_mem w) (t_cnt w).

Record timsg := mkTimsg {
  ti_members : list (list (addr * N));
  ti_stages : list stage;
  ti_limit : N;
  ti_whale : option N;
  ti_admins : list addr; ti_mutable : bool
}.

Inductive top :=
| TAdd (k : N) (ms : list (addr * N))
| TRemove (k : N) (ms : list addr)
| TAddStage (s : stage) (ms : list (addr * N))
| TRemoveStage (k : N)
| TUpdStage (k : N) (start end_ pal : option N)
| TIncrease (n : N)
| TUpdAdmins (l : list addr)
| TFreeze.


(* helpers.rs validate_stages / validate_update *)
Fixpoint stages_ordered (l : list stage) : bool :=
  match l with
  | [] => true
  | s :: t => (s_start s <? s_end s) && forallb (fun o => s_end s <=? s_start o) t && stages_ordered t
  end.
Definition validate_stages (flex : bool) (future : option N) (l : list stage) : result unit :=
  match l with
  | [] => Err
  | s0 :: _ =>
      do _ <- guard (nlen l <? 4);
      do _ <- guard (flex || forallb (fun s => negb (s_pal s =? 0) && (s_pal s <=? T_MAX_PAL)) l);
      do _ <- guard (forallb (fun s => s_denom s =? s_denom s0) l);
      do _ <- guard (match future with Some now => now <? s_start s0 | None => true end);
      guard (stages_ordered l)
  end.

Section WithOracle.
Variable valid : addr -> bool.

Definition t_is_admin (a : addr) (w : tw) : bool := existsb (N.eqb a) (t_admins w).
Definition t_can_modify (a : addr) (w : tw) : bool := t_mutable w && t_is_admin a w.

Definition whale_ok (whale : option N) (c : N) : bool :=
  match whale with Some wc => c <=? wc | None => true end.

(* instantiate, one stage of the non-flex contract: the list is already sorted and
   de-duplicated; MEMBER_COUNT := its length *)
Fixpoint store_plain (k : N) (ms : list addr) (m : tmem) : result tmem :=
  match ms with
  | [] => Ok m
  | a :: t => do _ <- guard (valid a); store_plain k t (t_set k a 1 m)
  end.

(* instantiate, one stage of the flex contract: message order; a repeated address
   overwrites its entry and takes one off the stage count and the total *)
Fixpoint store_flex (whale : option N) (k : N) (ms : list (addr * N)) (sm num : N) (m : tmem)
  : result (N * N * tmem) :=
  match ms with
  | [] => Ok (sm, num, m)
  | (a, c) :: t =>
      do _ <- guard (valid a);
      do _ <- guard (whale_ok whale c);
      if t_has k a m then
        do sm' <- dec1 sm; do num' <- dec1 num; store_flex whale k t sm' num' (t_set k a c m)
      else store_flex whale k t sm num (t_set k a c m)
  end.

(* for stage in 0..stages.len() { ... msg.members[stage] ... }  -- indexing panics when
   there are fewer member lists than stages *)
Fixpoint inst_loop (flex : bool) (whale : option N) (k : N) (nst : nat) (lists : list (list (addr * N)))
         (num : N) (m : tmem) (c : cnts) : result (N * tmem * cnts) :=
  match nst with
  | O => Ok (num, m, c)
  | S n =>
      match lists with
      | [] => Err
      | l :: rest =>
          if flex then
            do r <- store_flex whale k l (nlen l) num m;
            inst_loop flex whale (k + 1) n rest (snd (fst r)) (snd r) (c_set k (fst (fst r)) c)
          else
            do m' <- store_plain k (map fst l) m;
            inst_loop flex whale (k + 1) n rest num m' (c_set k (nlen l) c)
      end
  end.

Definition sum_len (ls : list (list (addr * N))) : N := fold_right (fun l acc => nlen l + acc) 0 ls.

Definition t_inst (flex : bool) (self : addr) (e : env) (m : timsg) : result (tw * list bmsg) :=
  do _ <- guard (negb (ti_limit m =? 0) && (ti_limit m <=? T_MAX_MEMBERS flex));
  do _ <- validate_stages flex (Some (e_now e)) (ti_stages m);
  let fee := t_creation_fee flex (ti_limit m) in
  do payment <- must_pay (e_funds e) NATIVE;
  do _ <- guard (payment =? fee);
  (* non-flex: every list sorted and de-duplicated first *)
  let lists := if flex then ti_members m
               else map (fun l => map (fun a => (a, 1)) (sort_dedup (map fst l))) (ti_members m) in
  do _ <- guard (if flex then match ti_whale m with Some wc => ti_limit m <? wc | None => true end else true);
  let nst := length (ti_stages m) in
  let num := sum_len (firstn nst lists) in
  do _ <- guard (forallb valid (ti_admins m));
  do msgs <- checked_fair_burn self (e_funds e) fee None;
  do _ <- guard (num <=? ti_limit m);
  do r <- inst_loop flex (if flex then ti_whale m else None) 0 nst lists num [] [];
  Ok (mkTw flex (ti_stages m) (fst (fst r)) (ti_limit m) (if flex then ti_whale m else None)
           (ti_admins m) (ti_mutable m) (snd (fst r)) (snd r), msgs).

(* execute_add_members (both crates): limit test, validate, skip when present, store,
   MEMBER_COUNT += 1, num_members += 1 *)
Fixpoint t_add (k : N) (ms : list (addr * N)) (limit num : N) (m : tmem) (c : cnts) : result (N * tmem * cnts) :=
  match ms with
  | [] => Ok (num, m, c)
  | (a, v) :: t =>
      do _ <- guard (num <? limit);
      do _ <- guard (valid a);
      if t_has k a m then t_add k t limit num m c
      else t_add k t limit (num + 1) (t_set k a v m) (c_set k (c_get k c + 1) c)
  end.

Fixpoint t_remove (k : N) (ms : list addr) (num : N) (m : tmem) (c : cnts) : result (N * tmem * cnts) :=
  match ms with
  | [] => Ok (num, m, c)
  | a :: t =>
      do _ <- guard (valid a);
      do _ <- guard (t_has k a m);
      do num' <- dec1 num;
      t_remove k t num' (t_del k a m) (c_set k (c_get k c - 1) c)    (* saturating_sub *)
  end.

(* execute_add_stage loop; `sm` counts the entries stored (flex uses it for MEMBER_COUNT) *)
Fixpoint t_add_stage (whale : option N) (k : N) (ms : list (addr * N)) (limit num sm : N) (m : tmem)
  : result (N * N * tmem) :=
  match ms with
  | [] => Ok (num, sm, m)
  | (a, v) :: t =>
      do _ <- guard (num <? limit);
      do _ <- guard (valid a);
      do _ <- guard (whale_ok whale v);
      if t_has k a m then t_add_stage whale k t limit num sm m
      else t_add_stage whale k t limit (num + 1) (sm + 1) (t_set k a v m)
  end.

Definition upd_stage (flex : bool) (s : stage) (start end_ pal : option N) : stage :=
  mkStage (match start with Some x => x | None => s_start s end)
          (match end_ with Some x => x | None => s_end s end)
          (if flex then s_pal s else match pal with Some x => x | None => s_pal s end)
          (s_denom s).

Fixpoint replace_nth {A} (n : nat) (x : A) (l : list A) : list A :=
  match l, n with
  | [], _ => []
  | _ :: t, O => x :: t
  | y :: t, S n' => y :: replace_nth n' x t
  end.

Definition t_exec (self : addr) (e : env) (o : top) (w : tw) : result (tw * list bmsg) :=
  let now := e_now e in
  let flex := t_flex w in
  let nst := nlen (t_stages w) in
  match o with
  | TAdd k ms =>
      do _ <- guard (t_is_admin (e_sender e) w);
      do _ <- guard (k <? nst);
      let l := if flex then ms else map (fun a => (a, 1)) (sort_dedup (map fst ms)) in
      do r <- t_add k l (t_limit w) (t_num w) (t_mem w) (t_cnt w);
      Ok (tw_members w (fst (fst r)) (snd (fst r)) (snd r), [])
  | TRemove k ms =>
      do _ <- guard (t_is_admin (e_sender e) w);
      match nth_error (t_stages w) (N.to_nat k) with
      | None => Err
      | Some s =>
          do _ <- guard (now <? s_start s);
          do r <- t_remove k ms (t_num w) (t_mem w) (t_cnt w);
          Ok (tw_members w (fst (fst r)) (snd (fst r)) (snd r), [])
      end
  | TAddStage s ms =>
      do _ <- guard (t_is_admin (e_sender e) w);
      do _ <- guard (nst <? 3);
      let stages' := t_stages w ++ [s] in
      do _ <- validate_stages flex (Some now) stages';
      let k := nst in                                   (* new len - 1 *)
      let l := if flex then ms else map (fun a => (a, 1)) (sort_dedup (map fst ms)) in
      do r <- t_add_stage (if flex then t_whale w else None) k l (t_limit w) (t_num w) 0 (t_mem w);
      let cnt := if flex then snd (fst r) else nlen l in
      Ok (tw_stages w stages' (fst (fst r)) (snd r) (c_set k cnt (t_cnt w)), [])
  | TRemoveStage k =>
      do _ <- guard (t_is_admin (e_sender e) w);
      match nth_error (t_stages w) (N.to_nat k) with
      | None => Err
      | Some s =>
          do _ <- guard (now <? s_start s);
          let gone := nlen (t_range k nst (t_mem w)) in
          do _ <- guard (gone <=? t_num w);              (* num_members -= 1 per entry, checked *)
          Ok (tw_stages w (firstn (N.to_nat k) (t_stages w)) (t_num w - gone)
                        (t_del_range k nst (t_mem w)) (c_del_range k nst (t_cnt w)), [])
      end
  | TUpdStage k start end_ pal =>
      do _ <- guard (t_is_admin (e_sender e) w);
      match nth_error (t_stages w) (N.to_nat k) with
      | None => Err                                       (* config.stages[stage_id] panics *)
      | Some s =>
          let stages' := replace_nth (N.to_nat k) (upd_stage flex s start end_ pal) (t_stages w) in
          do _ <- validate_stages flex None stages';
          Ok (tw_stages w stages' (t_num w) (t_mem w) (t_cnt w), [])
      end
  | TIncrease n =>
      do _ <- guard ((t_limit w <? n) && (n <=? T_MAX_MEMBERS flex));
      let fee := t_upgrade_fee flex (t_limit w) n in
      do payment <- may_pay (e_funds e) NATIVE;
      do _ <- guard (payment =? fee);
      do msgs <- (if 0 <? fee then checked_fair_burn self (e_funds e) fee None else Ok []);
      Ok (tw_limit w n, msgs)
  | TUpdAdmins l =>
      do _ <- guard (t_can_modify (e_sender e) w);
      do _ <- guard (forallb valid l);
      Ok (tw_admins w l (t_mutable w), [])
  | TFreeze =>
      do _ <- guard (t_can_modify (e_sender e) w);
      Ok (tw_admins w (t_admins w) false, [])
  end.

(* queries *)
Fixpoint active_index (now : N) (k : N) (l : list stage) : option N :=
  match l with
  | [] => None
  | s :: t => if (s_start s <=? now) && (now <=? s_end s) then Some k else active_index now (k + 1) t
  end.
Definition tq_has (now : N) (a : addr) (w : tw) : result bool :=
  if valid a then
    Ok (match active_index now 0 (t_stages w) with Some k => t_has k a (t_mem w) | None => false end)
  else Err.
(* StageMemberInfo.is_member; the non-flex contract indexes config.stages first *)
Definition tq_stage_member (k : N) (a : addr) (w : tw) : result bool :=
  if valid a then
    if t_flex w || (k <? nlen (t_stages w)) then Ok (t_has k a (t_mem w)) else Err
  else Err.
(* Stage { stage_id }.member_count *)
Definition tq_stage_count (k : N) (w : tw) : result N :=
  if k <? nlen (t_stages w) then Ok (c_get k (t_cnt w)) else Err.

(* AllStageMemberInfo { member }: one entry per configured stage: (stage id, is_member,
   per_address_limit) where the last is the stage's per-address limit (non-flex) or the
   member's stored mint count, 0 when absent (flex) *)
Fixpoint t_get (k : N) (a : addr) (m : tmem) : option N :=
  match m with
  | [] => None
  | p :: t => if is_key k a p then Some (snd p) else t_get k a t
  end.
Fixpoint all_info (flex : bool) (a : addr) (m : tmem) (k : N) (l : list stage) : list (N * bool * N) :=
  match l with
  | [] => []
  | s :: t =>
      (k, t_has k a m, if flex then match t_get k a m with Some c => c | None => 0 end else s_pal s)
      :: all_info flex a m (k + 1) t
  end.
Definition tq_all_member (a : addr) (w : tw) : result (list (N * bool * N)) :=
  if valid a then Ok (all_info (t_flex w) a (t_mem w) 0 (t_stages w)) else Err.
(* tiered-whitelist-flex Member { member }: the mint count stored for the active stage;
   an error without an active stage or when not stored there; not a query of the non-flex kind *)
Definition tq_member (now : N) (a : addr) (w : tw) : result N :=
  if t_flex w then
    if valid a then
      match active_index now 0 (t_stages w) with
      | Some k => match t_get k a (t_mem w) with Some c => Ok c | None => Err end
      | None => Err
      end
    else Err
  else Err.
Definition tq_can_execute (a : addr) (w : tw) : result bool :=
  if valid a then Ok (t_is_admin a w) else Err.
Definition tq_admin_list (w : tw) : list addr * bool := (t_admins w, t_mutable w).

Definition t_step (self : addr) (w : tw) (eo : env * top) : tw :=
  match t_exec self (fst eo) (snd eo) w with Ok (w', _) => w' | Err => w end.
Definition t_run (self : addr) (h : list (env * top)) (w : tw) : tw := fold_left (t_step self) h w.

End WithOracle.

(* ---- whitelist-immutable: instantiate only; addresses are not validated ---- *)
Definition imm_inst (funds : list coin) (ms : list addr) : result (list addr * N) :=
  do _ <- nonpayable funds;
  let l := sort_dedup ms in
  do _ <- guard (1 <=? nlen l);
  Ok (l, nlen l).
Definition imm_includes (a : addr) (st : list addr * N) : bool := existsb (N.eqb a) (fst st).
(* Config / Admin / PerAddressLimit: instantiate stores the sender as admin and the two
   numbers verbatim; ExecuteMsg is an empty enum, so every execute call is rejected *)
Definition imm_config (sender : addr) (pal : N) (bps : option N) : addr * N * option N := (sender, pal, bps).
Definition imm_exec : result unit := Err.
