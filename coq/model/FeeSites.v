(* The call sites of the sg1 fee functions in the contracts: for every place that
   disposes of a protocol fee, WHICH sg1 function is called, WHICH denom decides the
   route, WHAT payment test precedes it and WHO is named as the sender.  Each site is a
   function to the bank messages the contract emits for the fee, written by calling the
   Sg1 model the way the Rust call site does.  No proofs here. *)
From LP Require Export Sg1 Bank.
From LP Require Import Consts.

(* ---- the four factories: execute_create_minter ---------------------------------
   must_pay(creation_fee.denom) (open-edition: and payment == fee), then the route is
   chosen by the denom of the CREATION FEE; the denom of min_mint_price plays no part
   (the argument is there so that the theorems can say so). *)
Inductive fsite := FsBase | FsVending | FsOpen | FsTokenMerge.

Definition site_creation_fee (k : fsite) (self : addr) (fee_denom mint_denom : denom) (fee : N)
                             (funds : list coin) : result (list bmsg) :=
  do paid <- must_pay funds fee_denom;
  do _ <- (match k with FsOpen => guard (paid =? fee) | _ => Ok tt end);
  if fee_denom =? NATIVE then checked_fair_burn self funds fee None
  else transfer_funds_to_launchpad_dao funds fee fee_denom.

(* ---- sites that fair-burn a native fee through checked_fair_burn(info, env, fee, None) *)
Inductive pay_rule :=
| PayAtLeast      (* only checked_fair_burn's own test: shuffle, EnableUpdatable *)
| PayExactMust    (* must_pay(ustars) and payment == fee first: whitelist creation (Merkle kinds
                     included), base-minter mint *)
| PayExactMay.    (* may_pay(ustars) and payment == fee first, nothing emitted for a zero fee:
                     IncreaseMemberLimit *)

Definition site_fair_burn_fee (r : pay_rule) (self : addr) (fee : N) (funds : list coin) : result (list bmsg) :=
  match r with
  | PayAtLeast => checked_fair_burn self funds fee None
  | PayExactMust =>
      do p <- must_pay funds NATIVE;
      if negb (p =? fee) then Err else checked_fair_burn self funds fee None
  | PayExactMay =>
      do p <- may_pay funds NATIVE;
      if negb (p =? fee) then Err
      else if 0 <? fee then checked_fair_burn self funds fee None else Ok []
  end.

(* fee amounts of the whitelist family: ceil(member_limit / 1000) units of the price *)
Inductive wlsite := WsPlain | WsFlex | WsTiered | WsTieredFlex.
Definition wl_price_per_1000 (k : wlsite) : N :=
  match k with
  | WsPlain => whitelist__PRICE_PER_1000_MEMBERS
  | WsFlex => whitelist_flex__PRICE_PER_1000_MEMBERS
  | WsTiered => tiered_whitelist__PRICE_PER_1000_MEMBERS
  | WsTieredFlex => tiered_whitelist_flex__PRICE_PER_1000_MEMBERS
  end.
Definition wl_max_members (k : wlsite) : N :=
  match k with
  | WsPlain => whitelist__MAX_MEMBERS
  | WsFlex => whitelist_flex__MAX_MEMBERS
  | WsTiered => tiered_whitelist__MAX_MEMBERS
  | WsTieredFlex => tiered_whitelist_flex__MAX_MEMBERS
  end.
Definition thousands (n : N) : N := (n + 999) / 1000.
Definition wl_creation_fee (k : wlsite) (member_limit : N) : N := thousands member_limit * wl_price_per_1000 k.
Definition wl_upgrade_fee (k : wlsite) (old new : N) : N :=
  if thousands old <? thousands new then (thousands new - thousands old) * wl_price_per_1000 k else 0.

Definition site_wl_create (k : wlsite) (self : addr) (member_limit : N) (funds : list coin) :=
  site_fair_burn_fee PayExactMust self (wl_creation_fee k member_limit) funds.

Definition site_wl_increase (k : wlsite) (self : addr) (old new : N) (funds : list coin) : result (list bmsg) :=
  if (new <=? old) || (wl_max_members k <? new) then Err
  else site_fair_burn_fee PayExactMay self (wl_upgrade_fee k old new) funds.

Definition site_wl_merkle_create (tiered : bool) (self : addr) (funds : list coin) :=
  site_fair_burn_fee PayExactMust self
    (if tiered then tiered_whitelist_merkletree__CREATION_FEE else whitelist_merkletree__CREATION_FEE) funds.

Definition site_enable_updatable (self : addr) (funds : list coin) :=
  site_fair_burn_fee PayAtLeast self sg721_updatable__ENABLE_UPDATABLE_FEE funds.

(* shuffle (six vending minters, token-merge minter): the AMOUNT of the factory's
   shuffle_fee, always taken in ustars *)
Definition site_shuffle (self : addr) (fee : N) (funds : list coin) := site_fair_burn_fee PayAtLeast self fee funds.

(* network fee of a mint: mint_price * Decimal::bps(bps), floor *)
Definition mint_fee (price bps : N) : N := price * bps / 10000.

(* base-minter Mint: the payment must be exactly the network fee and all of it is fair burned *)
Definition site_base_mint (self : addr) (price bps : N) (funds : list coin) :=
  site_fair_burn_fee PayExactMust self (mint_fee price bps) funds.

(* ---- sg-eth-airdrop instantiate: must_pay(ustars) >= INSTANTIATION_FEE, then
   fair_burn(env.contract.address, INSTANTIATION_FEE, None) *)
Definition site_airdrop_init (self : addr) (funds : list coin) : result (list bmsg) :=
  do p <- must_pay funds NATIVE;
  if p <? sg_eth_airdrop__INSTANTIATION_FEE then Err
  else fair_burn self sg_eth_airdrop__INSTANTIATION_FEE None.

(* ---- mint-fee distribution in the minters: exact payment of the price in the price's
   denom, fee = floor(price * bps / 10^4), nothing emitted for a zero fee.
   vending family: no developer, featured as the variant says;
   open-edition family: the factory's dev_fee_address AS CONFIGURED is the developer, never
   featured; the string goes through addr_validate when (and only when) there is a fee to
   distribute, and a string the chain's address rules refuse aborts the mint -- `valid` is
   that answer (an oracle input: the harness asks the chain's own addr_validate);
   token-merge (airdrop mints only): no developer, not featured. *)
Inductive msite := MsVending (featured : bool) | MsOpen (dev : addr) (valid : bool) | MsTokenMerge.

Definition site_mint_fee (k : msite) (d : denom) (price bps : N) (funds : list coin) : result (list bmsg) :=
  do p <- may_pay funds d;
  if negb (p =? price) then Err
  else
    let fee := mint_fee price bps in
    if fee =? 0 then Ok []
    else match k with
         | MsVending ft => distribute_mint_fees d fee ft None
         | MsOpen dev valid => if valid then distribute_mint_fees d fee false (Some dev) else Err
         | MsTokenMerge => distribute_mint_fees d fee false None
         end.

(* ---- one vocabulary for all sites ---- *)
Inductive site :=
| SCreate (k : fsite) (fee_denom mint_denom : denom) (fee : N)
| SShuffle (fee : N)
| SWlCreate (k : wlsite) (member_limit : N)
| SWlIncrease (k : wlsite) (old new : N)
| SWlMerkleCreate (tiered : bool)
| SEnableUpdatable
| SAirdropInit
| SBaseMint (price bps : N)
| SMint (k : msite) (d : denom) (price bps : N).

Definition site_msgs (s : site) (self : addr) (funds : list coin) : result (list bmsg) :=
  match s with
  | SCreate k fd md fee => site_creation_fee k self fd md fee funds
  | SShuffle fee => site_shuffle self fee funds
  | SWlCreate k ml => site_wl_create k self ml funds
  | SWlIncrease k o n => site_wl_increase k self o n funds
  | SWlMerkleCreate t => site_wl_merkle_create t self funds
  | SEnableUpdatable => site_enable_updatable self funds
  | SAirdropInit => site_airdrop_init self funds
  | SBaseMint price bps => site_base_mint self price bps funds
  | SMint k d price bps => site_mint_fee k d price bps funds
  end.

(* the fee messages at world level: the payment moves from the payer to the contract,
   then the contract's fee messages are executed by the bank (all or nothing) *)
Definition site_world (s : site) (self payer : addr) (funds : list coin) (b : bal) : result bal :=
  do ms <- site_msgs s self funds;
  do b1 <- attach b payer self funds;
  apply_bmsgs self b1 ms.

(* the sender named in the MsgFundFairburnPool of a message list, if there is one *)
Fixpoint fund_sender (ms : list bmsg) : option addr :=
  match ms with
  | [] => None
  | FundPool s _ _ :: _ => Some s
  | _ :: r => fund_sender r
  end.
