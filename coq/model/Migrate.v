(* The `migrate` entry points of the workspace (eighteen contracts), as one function
   over the contract, the stored cw2 info, the block time, the optional factory message
   and the handful of storage slots a migration may touch.  Everything else a contract
   stores is untouched by every migrate function, which the harness checks on the raw
   storage and on every smart query ("rest unchanged").

   Names and versions come from gen/Consts.v (`<crate>__CONTRACT_NAME`,
   `<crate>__CONTRACT_VERSION`, `sg721_updatable__EARLIEST_COMPATIBLE_VERSION`).  Inline
   in the code, hence hand-written here and tied by the correspondence grid: the four
   names sg721-updatable accepts, the 3.9.0 / 3.0.0 / 3.1.0 thresholds, 12 h and 24 h. *)
From Coq Require Import String.
From LP Require Export Semver.
From LP Require Import Consts.
Local Open Scope N_scope.

Inductive contract :=
| VendingMinter | VendingMinterFeatured | VendingMinterWlFlex | VendingMinterWlFlexFeatured
| VendingMinterMerkleWl | VendingMinterMerkleWlFeatured
| OpenEditionMinter | OpenEditionMinterWlFlex | OpenEditionMinterMerkleWl
| TokenMergeMinter
| BaseFactory | VendingFactory | OpenEditionFactory | TokenMergeFactory
| Splits | WhitelistMerkletree | TieredWhitelistMerkletree
| Sg721Updatable.

Inductive kind := KVending | KSimple | KFactory | KUpdatable.

Definition kind_of (c : contract) : kind :=
  match c with
  | VendingMinter | VendingMinterFeatured | VendingMinterWlFlex | VendingMinterWlFlexFeatured
  | VendingMinterMerkleWl | VendingMinterMerkleWlFeatured => KVending
  | OpenEditionMinter | OpenEditionMinterWlFlex | OpenEditionMinterMerkleWl
  | TokenMergeMinter | Splits | WhitelistMerkletree | TieredWhitelistMerkletree => KSimple
  | BaseFactory | VendingFactory | OpenEditionFactory | TokenMergeFactory => KFactory
  | Sg721Updatable => KUpdatable
  end.

Definition own_name (c : contract) : string :=
  match c with
  | VendingMinter => vending_minter__CONTRACT_NAME
  | VendingMinterFeatured => vending_minter_featured__CONTRACT_NAME
  | VendingMinterWlFlex => vending_minter_wl_flex__CONTRACT_NAME
  | VendingMinterWlFlexFeatured => vending_minter_wl_flex_featured__CONTRACT_NAME
  | VendingMinterMerkleWl => vending_minter_merkle_wl__CONTRACT_NAME
  | VendingMinterMerkleWlFeatured => vending_minter_merkle_wl_featured__CONTRACT_NAME
  | OpenEditionMinter => open_edition_minter__CONTRACT_NAME
  | OpenEditionMinterWlFlex => open_edition_minter_wl_flex__CONTRACT_NAME
  | OpenEditionMinterMerkleWl => open_edition_minter_merkle_wl__CONTRACT_NAME
  | TokenMergeMinter => token_merge_minter__CONTRACT_NAME
  | BaseFactory => base_factory__CONTRACT_NAME
  | VendingFactory => vending_factory__CONTRACT_NAME
  | OpenEditionFactory => open_edition_factory__CONTRACT_NAME
  | TokenMergeFactory => token_merge_factory__CONTRACT_NAME
  | Splits => splits__CONTRACT_NAME
  | WhitelistMerkletree => whitelist_merkletree__CONTRACT_NAME
  | TieredWhitelistMerkletree => tiered_whitelist_merkletree__CONTRACT_NAME
  | Sg721Updatable => sg721_updatable__CONTRACT_NAME
  end.

Definition code_version_string (c : contract) : string :=
  match c with
  | VendingMinter => vending_minter__CONTRACT_VERSION
  | VendingMinterFeatured => vending_minter_featured__CONTRACT_VERSION
  | VendingMinterWlFlex => vending_minter_wl_flex__CONTRACT_VERSION
  | VendingMinterWlFlexFeatured => vending_minter_wl_flex_featured__CONTRACT_VERSION
  | VendingMinterMerkleWl => vending_minter_merkle_wl__CONTRACT_VERSION
  | VendingMinterMerkleWlFeatured => vending_minter_merkle_wl_featured__CONTRACT_VERSION
  | OpenEditionMinter => open_edition_minter__CONTRACT_VERSION
  | OpenEditionMinterWlFlex => open_edition_minter_wl_flex__CONTRACT_VERSION
  | OpenEditionMinterMerkleWl => open_edition_minter_merkle_wl__CONTRACT_VERSION
  | TokenMergeMinter => token_merge_minter__CONTRACT_VERSION
  | BaseFactory => base_factory__CONTRACT_VERSION
  | VendingFactory => vending_factory__CONTRACT_VERSION
  | OpenEditionFactory => open_edition_factory__CONTRACT_VERSION
  | TokenMergeFactory => token_merge_factory__CONTRACT_VERSION
  | Splits => splits__CONTRACT_VERSION
  | WhitelistMerkletree => whitelist_merkletree__CONTRACT_VERSION
  | TieredWhitelistMerkletree => tiered_whitelist_merkletree__CONTRACT_VERSION
  | Sg721Updatable => sg721_updatable__CONTRACT_VERSION
  end.

(* COMPATIBLE_CONTRACT_NAMES_FOR_MIGRATION of sg721-updatable (inline array) *)
Definition updatable_names : list string :=
  ["sg721-base"; "crates.io:sg721-base"; "sg721-updatable"; "crates.io:sg721-updatable"]%string.
(* the two names whose state lacks the updatable flags *)
Definition base_names : list string := ["sg721-base"; "crates.io:sg721-base"]%string.

Definition accepted_names (c : contract) : list string :=
  match kind_of c with
  | KUpdatable => updatable_names
  | _ => [own_name c]
  end.

Definition name_in (n : string) (l : list string) : bool := existsb (String.eqb n) l.

(* the slots a migration may write *)
Record slots := mkSlots {
  s_last_discount : option N;       (* LAST_DISCOUNT_TIME, nanoseconds *)
  s_frozen_meta : option bool;      (* FROZEN_TOKEN_METADATA *)
  s_enable_updatable : option bool; (* ENABLE_UPDATABLE *)
  s_royalty_at : option N;          (* royalty_updated_at, nanoseconds *)
  s_legacy_minter : option N;       (* cw721 0.16 `minter` item (an address id) *)
  s_owner : option N;               (* cw-ownable owner (an address id) *)
  s_status : option (bool * bool * bool); (* minter STATUS: is_verified, is_blocked, is_explicit --
                                       written only by sudo UpdateStatus; no migrate function touches it *)
  s_mintable : option N             (* MINTABLE_NUM_TOKENS: what is left to mint (0 after BurnRemaining /
                                       sell-out); written by mint / burn only, never by a migration *)
}.

Record cstate := mkState { c_name : string; c_version : string; c_slots : slots }.

(* what a factory migration message can do wrong: a non-native denom in one of the
   coins it carries (the fields themselves are C18's subject) *)
Record fmsg := mkFmsg { bad_min_mint_price : bool; bad_airdrop_price : bool; bad_shuffle_fee : bool }.

Definition fmsg_ok (c : contract) (m : fmsg) : bool :=
  match c with
  | BaseFactory => negb (bad_min_mint_price m)
  | VendingFactory => negb (bad_min_mint_price m || bad_airdrop_price m || bad_shuffle_fee m)
  | OpenEditionFactory => negb (bad_min_mint_price m)     (* airdrop price is taken as is *)
  | TokenMergeFactory => negb (bad_airdrop_price m || bad_shuffle_fee m)  (* no common fields *)
  | _ => true
  end.

Definition H12 : N := 60 * 60 * 12 * 1000000000.
Definition H24 : N := 60 * 60 * 24 * 1000000000.
(* Timestamp::minus_seconds panics below zero *)
Definition minus_nanos (now d : N) : result N := if d <=? now then Ok (now - d) else Err.

Definition set_version (c : contract) (sl : slots) : cstate :=
  mkState (own_name c) (code_version_string c) sl.

(* result: new state, and whether the factory parameters may have been rewritten *)
Definition migrate (c : contract) (now : N) (msg : option fmsg) (st : cstate)
  : result (cstate * bool) :=
  match parse_version (code_version_string c) with
  | None => Err
  | Some code =>
  let sl := c_slots st in
  match kind_of c with
  | KSimple =>
      if negb (String.eqb (c_name st) (own_name c)) then Err else
      match parse_version (c_version st) with
      | None => Err
      | Some v =>
          if ver_ltb code v then Err
          else if ver_eqb v code then Ok (st, false)
          else Ok (set_version c sl, false)
      end
  | KVending =>
      if negb (String.eqb (c_name st) (own_name c)) then Err else
      match parse_version (c_version st) with
      | None => Err
      | Some v =>
          if ver_ltb code v then Err
          else if ver_eqb v code then Ok (st, false)
          else if ver_ltb v (3, 9, 0) then
            do t <- minus_nanos now H12;
            Ok (set_version c (mkSlots (Some t) (s_frozen_meta sl) (s_enable_updatable sl)
                                       (s_royalty_at sl) (s_legacy_minter sl) (s_owner sl) (s_status sl) (s_mintable sl)), false)
          else Ok (set_version c sl, false)
      end
  | KFactory =>
      match parse_version (c_version st) with
      | None => Err
      | Some v =>
          if negb (String.eqb (c_name st) (own_name c)) then Err
          else if ver_ltb code v then Err
          else match msg with
               | None => Ok (st, false)
               | Some m => if fmsg_ok c m then Ok (st, true) else Err
               end
      end
  | KUpdatable =>
      match parse_version (c_version st), parse_version sg721_updatable__EARLIEST_COMPATIBLE_VERSION with
      | Some v, Some earliest =>
          if negb (name_in (c_name st) updatable_names) then Err
          else if ver_ltb v earliest then Err
          else if ver_ltb code v then Err
          else if ver_eqb v code && String.eqb (c_name st) (own_name c) then Err
          else
            let from_base := name_in (c_name st) base_names in
            let frozen := if from_base then Some false else s_frozen_meta sl in
            let enable := if from_base then Some false else s_enable_updatable sl in
            (* < 3.0.0: cw721-base 0.17 upgrade: the legacy minter becomes the owner *)
            do lo <- (if ver_ltb v (3, 0, 0)
                      then match s_legacy_minter sl with
                           | Some m => Ok (None, Some m)
                           | None => Err
                           end
                      else Ok (s_legacy_minter sl, s_owner sl));
            (* < 3.1.0: royalty_updated_at := now - 24 h *)
            do roy <- (if ver_ltb v (3, 1, 0)
                       then do t <- minus_nanos now H24; Ok (Some t)
                       else Ok (s_royalty_at sl));
            Ok (set_version c (mkSlots (s_last_discount sl) frozen enable roy (fst lo) (snd lo) (s_status sl) (s_mintable sl)), false)
      | _, _ => Err
      end
  end
  end.
