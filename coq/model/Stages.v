(* Tiered whitelists: the stage list logic shared by tiered-whitelist (KPlain),
   tiered-whitelist-flex (KFlex) and tiered-whitelist-merkletree (KMerkle), with the
   member store of the first two and the per-stage Merkle roots of the third.
   Executable, total; no proofs here.

   Source: contracts/whitelists/tiered-whitelist{,-flex}/src/{contract,helpers}.rs,
           contracts/whitelists/tiered-whitelist-merkletree/src/{contract.rs,helpers/utils.rs}

   Conventions: times are nanoseconds (Timestamp), stage ids are positions in the
   list; names, denoms, addresses, Merkle-root strings are N identifiers owned by the
   harness (address ids are chosen so that id order = string order).  A panic
   (index out of bounds on `config.stages[id]`, `msg.members[stage]`,
   `merkle_roots[i]`) aborts the call and is an `Err` like any other. *)
From LP Require Import Prelude Consts.
Local Open Scope N_scope.

Inductive kind := KPlain | KFlex | KMerkle.

Definition kind_eqb (a b : kind) : bool :=
  match a, b with KPlain, KPlain | KFlex, KFlex | KMerkle, KMerkle => true | _, _ => false end.

Record stage := mkStage {
  s_name : N;
  s_start : N;
  s_end : N;
  s_denom : N;          (* mint_price.denom *)
  s_price : N;          (* mint_price.amount *)
  s_pal : N;            (* per_address_limit; the flex Stage has no such field: always 0 there *)
  s_mcl : option N      (* mint_count_limit *)
}.

(* ---------- validation (helpers.rs / helpers/utils.rs) ---------- *)

(* `stage.per_address_limit == 0 || > MAX_PER_ADDRESS_LIMIT` is rejected; the flex
   copy of validate_* has no such check *)
Definition pal_ok (k : kind) (s : stage) : bool :=
  match k with
  | KPlain => negb (s_pal s =? 0) && (s_pal s <=? tiered_whitelist__MAX_PER_ADDRESS_LIMIT)
  | KFlex => true
  | KMerkle => negb (s_pal s =? 0) && (s_pal s <=? tiered_whitelist_merkletree__MAX_PER_ADDRESS_LIMIT)
  end.

(* for i: start_i < end_i, and for every later j: start_j >= end_i *)
Fixpoint windows_ok (l : list stage) : bool :=
  match l with
  | [] => true
  | s :: r => (s_start s <? s_end s) && forallb (fun o => s_end s <=? s_start o) r && windows_ok r
  end.

Definition same_denom (l : list stage) : bool :=
  match l with
  | [] => true
  | s :: _ => forallb (fun o => s_denom o =? s_denom s) l
  end.

Definition validate_common (k : kind) (l : list stage) : bool :=
  negb (Nat.eqb (length l) 0) && Nat.ltb (length l) 4 &&
  forallb (pal_ok k) l && same_denom l && windows_ok l.

(* validate_update: no clock check at all *)
Definition validate_update (k : kind) (l : list stage) : bool := validate_common k l.

(* validate_stages: additionally stages[0].start_time > now (only the first stage) *)
Definition validate_stages (k : kind) (now : N) (l : list stage) : bool :=
  validate_common k l && match l with s :: _ => now <? s_start s | [] => false end.

(* ---------- active stage (fetch_active_stage / fetch_active_stage_index) ---------- *)

Definition in_window (now : N) (s : stage) : bool := (s_start s <=? now) && (now <=? s_end s).

Fixpoint find_index {A} (p : A -> bool) (l : list A) : option nat :=
  match l with
  | [] => None
  | x :: r => if p x then Some 0%nat else option_map S (find_index p r)
  end.

Definition fetch_active_index (now : N) (l : list stage) : option nat := find_index (in_window now) l.
Definition fetch_active (now : N) (l : list stage) : option stage := find (in_window now) l.

(* ---------- member store: WHITELIST_STAGES : Map<(u32, Addr), bool | u32> ---------- *)

Definition mentry := (nat * N * N)%type.      (* stage id, address, value (1 for plain) *)
Definition me_stage (e : mentry) : nat := fst (fst e).
Definition me_addr (e : mentry) : N := snd (fst e).
Definition me_val (e : mentry) : N := snd e.
Definition mem := list mentry.

Definition key_eqb (e : mentry) (st : nat) (a : N) : bool := Nat.eqb (me_stage e) st && (me_addr e =? a).
Definition key_ltb (st : nat) (a : N) (e : mentry) : bool :=
  Nat.ltb st (me_stage e) || (Nat.eqb st (me_stage e) && (a <? me_addr e)).

Fixpoint mem_get (m : mem) (st : nat) (a : N) : option N :=
  match m with
  | [] => None
  | e :: r => if key_eqb e st a then Some (me_val e) else mem_get r st a
  end.
Definition mem_has (m : mem) (st : nat) (a : N) : bool :=
  match mem_get m st a with Some _ => true | None => false end.

(* save: overwrite or insert keeping ascending key order (cw-storage-plus iteration order) *)
Fixpoint mem_put (m : mem) (st : nat) (a v : N) : mem :=
  match m with
  | [] => [(st, a, v)]
  | e :: r =>
      if key_eqb e st a then (st, a, v) :: r
      else if key_ltb st a e then (st, a, v) :: m
      else e :: mem_put r st a v
  end.
Definition mem_del (m : mem) (st : nat) (a : N) : mem := filter (fun e => negb (key_eqb e st a)) m.
Definition mem_stage (m : mem) (st : nat) : list (N * N) :=
  map (fun e => (me_addr e, me_val e)) (filter (fun e => Nat.eqb (me_stage e) st) m).
Definition in_range (lo hi : nat) (e : mentry) : bool := Nat.leb lo (me_stage e) && Nat.ltb (me_stage e) hi.
(* remove_stage's loop `for stage in stage_id..len { remove every (stage, _) }` *)
Definition mem_drop (m : mem) (lo hi : nat) : mem := filter (fun e => negb (in_range lo hi e)) m.
Definition mem_count_range (m : mem) (lo hi : nat) : nat := length (filter (in_range lo hi) m).

(* MEMBER_COUNT : Map<u32, u32> *)
Definition cnts := list (nat * N).
Fixpoint cnt_get (c : cnts) (st : nat) : N :=
  match c with [] => 0 | (k, v) :: r => if Nat.eqb k st then v else cnt_get r st end.
Definition cnt_set (c : cnts) (st : nat) (v : N) : cnts :=
  (st, v) :: filter (fun kv => negb (Nat.eqb (fst kv) st)) c.
Definition cnt_drop (c : cnts) (lo hi : nat) : cnts :=
  filter (fun kv => negb (Nat.leb lo (fst kv) && Nat.ltb (fst kv) hi)) c.

(* `sort_unstable(); dedup()` on address strings *)
Fixpoint ins_uniq (a : N) (l : list N) : list N :=
  match l with
  | [] => [a]
  | x :: r => if a =? x then l else if a <? x then a :: l else x :: ins_uniq a r
  end.
Definition sort_dedup (l : list N) : list N := fold_right ins_uniq [] l.

(* a u32 stage id as a list position: never convert a huge id to unary *)
Definition idx_of (id : N) (len : nat) : option nat :=
  if id <? N.of_nat len then Some (N.to_nat id) else None.

(* ---------- contract state ---------- *)

Record wl := mkWl {
  w_kind : kind;
  w_stages : list stage;
  w_mem : mem;
  w_cnt : cnts;
  w_num : N;               (* Config.num_members *)
  w_limit : N;             (* Config.member_limit *)
  w_whale : option N;      (* flex only *)
  w_roots : list N;        (* Merkle only: MERKLE_ROOTS, one string id per entry *)
  w_admins : list N
}.

Definition stage_at (l : list stage) (id : N) : option (nat * stage) :=
  match idx_of id (length l) with
  | None => None
  | Some st => match nth_error l st with Some s => Some (st, s) | None => None end
  end.

Definition is_admin (w : wl) (sender : N) : bool := existsb (N.eqb sender) (w_admins w).

Definition set_stages (w : wl) (l : list stage) : wl :=
  mkWl (w_kind w) l (w_mem w) (w_cnt w) (w_num w) (w_limit w) (w_whale w) (w_roots w) (w_admins w).
Definition set_members (w : wl) (m : mem) (c : cnts) (n : N) : wl :=
  mkWl (w_kind w) (w_stages w) m c n (w_limit w) (w_whale w) (w_roots w) (w_admins w).

(* ---------- instantiate ---------- *)

Record inst := mkInst {
  i_stages : list stage;
  i_members : list (list (N * N));   (* per stage: (address, mint_count); plain ignores the count *)
  i_limit : N;
  i_whale : option N;                (* flex *)
  i_roots : list N;                  (* Merkle *)
  i_roots_ok : bool;                 (* Merkle: every root string is 32 hex digits (harness-evaluated) *)
  i_admins : list N;
  i_paid : N                         (* amount of ustars attached (single coin; 0 = no funds) *)
}.

Definition creation_fee (limit : N) : N := ((limit + 999) / 1000) * tiered_whitelist__PRICE_PER_1000_MEMBERS.
Definition creation_fee_flex (limit : N) : N := ((limit + 999) / 1000) * tiered_whitelist_flex__PRICE_PER_1000_MEMBERS.

Definition sum_lengths {A} (ls : list (list A)) : N := fold_right (fun l acc => N.of_nat (length l) + acc) 0 ls.

(* plain: store the deduplicated list of stage k *)
Definition put_all (m : mem) (st : nat) (l : list N) : mem := fold_left (fun m a => mem_put m st a 1) l m.

Fixpoint inst_plain_loop (k : nat) (ls : list (list N)) (m : mem) (c : cnts) : mem * cnts :=
  match ls with
  | [] => (m, c)
  | l :: r => inst_plain_loop (S k) r (put_all m k l) (cnt_set c k (N.of_nat (length l)))
  end.

Definition instantiate_plain (now : N) (i : inst) : result wl :=
  do _ <- guard (negb (i_limit i =? 0) && (i_limit i <=? tiered_whitelist__MAX_MEMBERS));
  do _ <- guard (validate_stages KPlain now (i_stages i));
  do _ <- guard (i_paid i =? creation_fee (i_limit i));
  let ms := map (fun l => sort_dedup (map fst l)) (i_members i) in
  let n := length (i_stages i) in
  let num := sum_lengths (firstn n ms) in
  do _ <- guard (num <=? i_limit i);
  do _ <- guard (Nat.leb n (length ms));            (* msg.members[stage] panics otherwise *)
  let '(m, c) := inst_plain_loop 0 (firstn n ms) [] [] in
  Ok (mkWl KPlain (i_stages i) m c num (i_limit i) None [] (i_admins i)).

(* flex: no dedup; a repeated address overwrites and is un-counted; whale cap per entry *)
Fixpoint inst_flex_stage (st : nat) (l : list (N * N)) (whale : option N) (m : mem) (sm num : N)
  : result (mem * N * N) :=
  match l with
  | [] => Ok (m, sm, num)
  | (a, v) :: r =>
      do _ <- guard (match whale with Some cap => v <=? cap | None => true end);
      if mem_has m st a
      then inst_flex_stage st r whale (mem_put m st a v) (sm - 1) (num - 1)
      else inst_flex_stage st r whale (mem_put m st a v) sm num
  end.

Fixpoint inst_flex_loop (k : nat) (ls : list (list (N * N))) (whale : option N) (m : mem) (c : cnts) (num : N)
  : result (mem * cnts * N) :=
  match ls with
  | [] => Ok (m, c, num)
  | l :: r =>
      do x <- inst_flex_stage k l whale m (N.of_nat (length l)) num;
      let '(m', sm, num') := x in
      inst_flex_loop (S k) r whale m' (cnt_set c k sm) num'
  end.

Definition instantiate_flex (now : N) (i : inst) : result wl :=
  do _ <- guard (negb (i_limit i =? 0) && (i_limit i <=? tiered_whitelist_flex__MAX_MEMBERS));
  do _ <- guard (validate_stages KFlex now (i_stages i));
  do _ <- guard (i_paid i =? creation_fee_flex (i_limit i));
  do _ <- guard (match i_whale i with Some cap => i_limit i <? cap | None => true end);
  let n := length (i_stages i) in
  let num := sum_lengths (firstn n (i_members i)) in
  do _ <- guard (num <=? i_limit i);
  do _ <- guard (Nat.leb n (length (i_members i)));
  do x <- inst_flex_loop 0 (firstn n (i_members i)) (i_whale i) [] [] num;
  let '(m, c, num') := x in
  Ok (mkWl KFlex (i_stages i) m c num' (i_limit i) (i_whale i) [] (i_admins i)).

(* Merkle: roots are only checked for being hash strings; their number is NOT tied to
   the number of stages *)
Definition instantiate_merkle (now : N) (i : inst) : result wl :=
  do _ <- guard (i_roots_ok i);
  do _ <- guard (i_paid i =? tiered_whitelist_merkletree__CREATION_FEE);
  do _ <- guard (validate_stages KMerkle now (i_stages i));
  Ok (mkWl KMerkle (i_stages i) [] [] 0 0 None (i_roots i) (i_admins i)).

Definition instantiate (k : kind) (now : N) (i : inst) : result wl :=
  match k with
  | KPlain => instantiate_plain now i
  | KFlex => instantiate_flex now i
  | KMerkle => instantiate_merkle now i
  end.

(* ---------- execute ---------- *)

Inductive op :=
| AddStage (sender : N) (s : stage) (ms : list (N * N))
| RemoveStage (sender : N) (id : N)
| UpdateStage (sender : N) (id : N) (name start end_ : option N) (price : option (N * N))
              (pal : option N) (mcl : option (option N))
| AddMembers (sender : N) (id : N) (ms : list (N * N))
| RemoveMembers (sender : N) (id : N) (ms : list N).

(* the add loop shared by add_members and add_stage: limit test first, then (add_stage of
   flex only) the whale cap, then skip if already stored *)
Fixpoint add_loop (st : nat) (l : list (N * N)) (limit : N) (whale : option N)
                  (m : mem) (added num : N) : result (mem * N * N) :=
  match l with
  | [] => Ok (m, added, num)
  | (a, v) :: r =>
      do _ <- guard (num <? limit);
      do _ <- guard (match whale with Some cap => v <=? cap | None => true end);
      if mem_has m st a then add_loop st r limit whale m added num
      else add_loop st r limit whale (mem_put m st a v) (added + 1) (num + 1)
  end.

Definition plain_entries (ms : list (N * N)) : list (N * N) :=
  map (fun a => (a, 1)) (sort_dedup (map fst ms)).

Definition exec_add_members (w : wl) (sender id : N) (ms : list (N * N)) : result wl :=
  do _ <- guard (negb (kind_eqb (w_kind w) KMerkle));          (* no such message there *)
  do _ <- guard (is_admin w sender);
  match idx_of id (length (w_stages w)) with
  | None => Err                                                  (* StageNotFound *)
  | Some st =>
      let l := match w_kind w with KPlain => plain_entries ms | _ => ms end in
      do x <- add_loop st l (w_limit w) None (w_mem w) 0 (w_num w);   (* add_members has no whale check *)
      let '(m, added, num) := x in
      Ok (set_members w m (cnt_set (w_cnt w) st (cnt_get (w_cnt w) st + added)) num)
  end.

Fixpoint remove_loop (st : nat) (l : list N) (m : mem) (cnt num : N) : result (mem * N * N) :=
  match l with
  | [] => Ok (m, cnt, num)
  | a :: r =>
      do _ <- guard (mem_has m st a);
      do _ <- guard (negb (num =? 0));                        (* num_members -= 1 on u32 *)
      remove_loop st r (mem_del m st a) (cnt - 1) (num - 1)   (* count: saturating_sub *)
  end.

Definition exec_remove_members (w : wl) (now sender id : N) (ms : list N) : result wl :=
  do _ <- guard (negb (kind_eqb (w_kind w) KMerkle));
  do _ <- guard (is_admin w sender);
  match stage_at (w_stages w) id with
  | None => Err
  | Some (st, s) =>
      do _ <- guard (now <? s_start s);
      do x <- remove_loop st ms (w_mem w) (cnt_get (w_cnt w) st) (w_num w);
      let '(m, cnt, num) := x in
      Ok (set_members w m (cnt_set (w_cnt w) st cnt) num)
  end.

Definition exec_add_stage (w : wl) (now sender : N) (s : stage) (ms : list (N * N)) : result wl :=
  do _ <- guard (negb (kind_eqb (w_kind w) KMerkle));
  do _ <- guard (is_admin w sender);
  do _ <- guard (Nat.ltb (length (w_stages w)) 3);
  let l' := w_stages w ++ [s] in
  do _ <- guard (validate_stages (w_kind w) now l');
  let st := length (w_stages w) in
  let l := match w_kind w with KPlain => plain_entries ms | _ => ms end in
  let whale := match w_kind w with KFlex => w_whale w | _ => None end in
  do x <- add_loop st l (w_limit w) whale (w_mem w) 0 (w_num w);
  let '(m, added, num) := x in
  let cnt := match w_kind w with KPlain => N.of_nat (length l) | _ => added end in
  Ok (set_members (set_stages w l') m (cnt_set (w_cnt w) st cnt) num).

Definition exec_remove_stage (w : wl) (now sender id : N) : result wl :=
  do _ <- guard (negb (kind_eqb (w_kind w) KMerkle));
  do _ <- guard (is_admin w sender);
  match stage_at (w_stages w) id with
  | None => Err
  | Some (st, s) =>
      do _ <- guard (now <? s_start s);
      let hi := length (w_stages w) in
      let gone := N.of_nat (mem_count_range (w_mem w) st hi) in
      do _ <- guard (gone <=? w_num w);                        (* num_members -= 1 per removed member *)
      Ok (set_members (set_stages w (firstn st (w_stages w)))
                      (mem_drop (w_mem w) st hi) (cnt_drop (w_cnt w) st hi) (w_num w - gone))
  end.

Fixpoint replace_nth {A} (l : list A) (n : nat) (x : A) : list A :=
  match l, n with
  | [], _ => []
  | _ :: r, O => x :: r
  | y :: r, S n' => y :: replace_nth r n' x
  end.

Definition opt_or {A} (o : option A) (d : A) : A := match o with Some x => x | None => d end.

Definition updated_stage (k : kind) (old : stage) (name start end_ : option N) (price : option (N * N))
                         (pal : option N) (mcl : option (option N)) : stage :=
  mkStage (opt_or name (s_name old)) (opt_or start (s_start old)) (opt_or end_ (s_end old))
          (match price with Some (d, _) => d | None => s_denom old end)
          (match price with Some (_, a) => a | None => s_price old end)
          (match k with KFlex => s_pal old | _ => opt_or pal (s_pal old) end)
          (opt_or mcl (s_mcl old)).

(* no clock guard of any kind: a started or ended stage can be edited *)
Definition exec_update_stage (w : wl) (sender id : N) (name start end_ : option N) (price : option (N * N))
                             (pal : option N) (mcl : option (option N)) : result wl :=
  (* the flex message has no per_address_limit field; cw_serde rejects unknown fields *)
  do _ <- guard (match w_kind w, pal with KFlex, Some _ => false | _, _ => true end);
  do _ <- guard (is_admin w sender);
  match stage_at (w_stages w) id with
  | None => Err                                                 (* config.stages[stage_id] panics *)
  | Some (st, old) =>
      let l' := replace_nth (w_stages w) st (updated_stage (w_kind w) old name start end_ price pal mcl) in
      do _ <- guard (validate_update (w_kind w) l');
      Ok (set_stages w l')
  end.

Definition step (w : wl) (now : N) (o : op) : result wl :=
  match o with
  | AddStage sender s ms => exec_add_stage w now sender s ms
  | RemoveStage sender id => exec_remove_stage w now sender id
  | UpdateStage sender id name start end_ price pal mcl => exec_update_stage w sender id name start end_ price pal mcl
  | AddMembers sender id ms => exec_add_members w sender id ms
  | RemoveMembers sender id ms => exec_remove_members w now sender id ms
  end.

(* a rejected call changes nothing *)
Definition step_total (w : wl) (now : N) (o : op) : wl :=
  match step w now o with Ok w' => w' | Err => w end.

(* ---------- queries ---------- *)

Definition stage_resp := (N * stage * N)%type.    (* stage_id, stage, member_count | merkle root id *)

Definition stage_extra (w : wl) (i : nat) : result N :=
  match w_kind w with
  | KMerkle => match nth_error (w_roots w) i with Some r => Ok r | None => Err end   (* merkle_roots[i] panics *)
  | _ => Ok (cnt_get (w_cnt w) i)
  end.

Fixpoint stage_list (w : wl) (i : nat) (l : list stage) : result (list stage_resp) :=
  match l with
  | [] => Ok []
  | s :: r =>
      do x <- stage_extra w i;
      do rest <- stage_list w (S i) r;
      Ok ((N.of_nat i, s, x) :: rest)
  end.

Definition q_stages (w : wl) : result (list stage_resp) :=
  match w_stages w with
  | [] => Err                                                    (* "No stages found" *)
  | l => stage_list w 0 l
  end.

Definition q_stage (w : wl) (id : N) : result stage_resp :=
  match stage_at (w_stages w) id with
  | None => Err
  | Some (st, s) => do x <- stage_extra w st; Ok (id, s, x)
  end.

(* Members{stage_id, start_after, limit}: ascending by address, strictly after
   `start_after`, at most min(limit or PAGINATION_DEFAULT_LIMIT, PAGINATION_MAX_LIMIT)
   entries.  Merkle has no such query. *)
Definition q_members_page (w : wl) (id : N) (start_after limit : option N) : result (list (N * N)) :=
  match w_kind w with
  | KMerkle => Err
  | k =>
      let dflt := match k with KFlex => tiered_whitelist_flex__PAGINATION_DEFAULT_LIMIT
                             | _ => tiered_whitelist__PAGINATION_DEFAULT_LIMIT end in
      let cap := match k with KFlex => tiered_whitelist_flex__PAGINATION_MAX_LIMIT
                            | _ => tiered_whitelist__PAGINATION_MAX_LIMIT end in
      let lim := N.min (opt_or limit dflt) cap in
      let all := map (fun e => (me_addr e, me_val e))
                     (filter (fun e => N.of_nat (me_stage e) =? id) (w_mem w)) in
      let from := match start_after with
                  | Some a => filter (fun p => a <? fst p) all
                  | None => all
                  end in
      Ok (firstn (N.to_nat lim) from)
  end.

(* the whole list of a stage id, as a client obtains it: pages of 100, each starting after
   the last address of the previous one, until an empty page *)
Fixpoint walk_members (w : wl) (id : N) (fuel : nat) (start : option N) : result (list (N * N)) :=
  match fuel with
  | O => Ok []
  | S f =>
      match q_members_page w id start (Some 100) with
      | Err => Err
      | Ok [] => Ok []
      | Ok page =>
          do rest <- walk_members w id f (Some (fst (last page (0, 0))));
          Ok (page ++ rest)
      end
  end.
Definition q_members (w : wl) (id : N) : result (list (N * N)) :=
  walk_members w id (S (length (w_mem w))) None.

(* StageMemberInfo{stage_id, member} -> (stage_id, is_member, per_address_limit).  The plain
   kind reads `stages[stage_id]` (panics when there is no such stage) and reports the
   stage's limit; the flex kind only looks the entry up and reports the stored count (0 when
   absent) whatever the id.  Merkle has no such query. *)
Definition member_info := (N * bool * N)%type.
Definition q_stage_member_info (w : wl) (id : N) (a : N) : result member_info :=
  match w_kind w with
  | KMerkle => Err
  | KPlain =>
      match stage_at (w_stages w) id with
      | None => Err
      | Some (st, s) => Ok (id, mem_has (w_mem w) st a, s_pal s)
      end
  | KFlex =>
      (* no stage lookup: an id beyond the list simply has no entry *)
      match idx_of id (length (w_stages w)) with
      | Some st => Ok (id, mem_has (w_mem w) st a, match mem_get (w_mem w) st a with Some v => v | None => 0 end)
      | None => Ok (id, existsb (fun e => (N.of_nat (me_stage e) =? id) && (me_addr e =? a)) (w_mem w),
                    fold_right (fun e acc => if (N.of_nat (me_stage e) =? id) && (me_addr e =? a) then me_val e else acc) 0 (w_mem w))
      end
  end.

(* AllStageMemberInfo{member}: one entry per existing stage *)
Fixpoint all_info (w : wl) (a : N) (i : nat) (l : list stage) : list member_info :=
  match l with
  | [] => []
  | s :: r =>
      (N.of_nat i, mem_has (w_mem w) i a,
       match w_kind w with
       | KFlex => match mem_get (w_mem w) i a with Some v => v | None => 0 end
       | _ => s_pal s
       end) :: all_info w a (S i) r
  end.
Definition q_all_stage_member_info (w : wl) (a : N) : result (list member_info) :=
  match w_kind w with
  | KMerkle => Err
  | _ => Ok (all_info w a 0 (w_stages w))
  end.

Definition q_active_stage (w : wl) (now : N) : option stage := fetch_active now (w_stages w).
Definition q_active_stage_id (w : wl) (now : N) : N :=
  match fetch_active_index now (w_stages w) with Some i => N.of_nat i + 1 | None => 0 end.
Definition q_is_active (w : wl) (now : N) : bool :=
  match fetch_active now (w_stages w) with Some _ => true | None => false end.
Definition q_has_started (w : wl) (now : N) : bool :=
  match w_stages w with [] => false | s :: _ => s_start s <=? now end.
Definition q_has_ended (w : wl) (now : N) : bool :=
  match w_stages w with [] => false | s :: r => s_end (last r s) <=? now end.

(* HasMember.  For the Merkle kind `fold` is the oracle: the id of the hash string the
   member and proof fold to (None: a proof element is not a hash string). *)
Definition q_has_member (w : wl) (now : N) (a : N) (fold : option N) : result bool :=
  match w_kind w with
  | KMerkle =>
      match fetch_active_index now (w_stages w) with
      | None => Err                                              (* "No active stage found" *)
      | Some k =>
          match nth_error (w_roots w) k with
          | None => Err
          | Some root => match fold with None => Err | Some h => Ok (root =? h) end
          end
      end
  | _ =>
      Ok match fetch_active_index now (w_stages w) with
         | Some k => mem_has (w_mem w) k a
         | None => false
         end
  end.

(* flex Member{member}: the stored mint_count at the active stage *)
Definition q_member (w : wl) (now : N) (a : N) : result N :=
  match w_kind w with
  | KFlex =>
      match fetch_active_index now (w_stages w) with
      | None => Err
      | Some k => match mem_get (w_mem w) k a with Some v => Ok v | None => Err end
      end
  | _ => Err
  end.

Record cfgobs := mkCfg {
  c_num : N; c_pal : N; c_limit : N; c_start : N; c_end : N; c_denom : N; c_price : N;
  c_active : bool; c_whale : option N
}.

Definition q_config (w : wl) (now : N) : cfgobs :=
  let num := match w_kind w with KMerkle => 0 | _ => w_num w end in
  let lim := match w_kind w with KMerkle => 0 | _ => w_limit w end in
  let whale := match w_kind w with KFlex => w_whale w | _ => None end in
  let of_stage (s : stage) (act : bool) :=
    mkCfg num (match w_kind w with KFlex => 0 | _ => s_pal s end) lim (s_start s) (s_end s)
          (s_denom s) (s_price s) act whale in
  match fetch_active now (w_stages w) with
  | Some s => of_stage s true
  | None =>
      match w_stages w with
      | [] => mkCfg num 0 lim 0 0 NATIVE 0 false whale
      | s0 :: r => of_stage (if now <? s_start s0 then s0 else last r s0) false
      end
  end.
