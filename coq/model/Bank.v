(* The bank module as the handlers see it (and as cw-multi-test implements it): balances
   per (account, denom); a transfer of a zero amount or of more than is held fails and,
   because a transaction is atomic, fails the whole call.  Burns go to the pseudo-account
   A_BURNED so that the sum over all accounts is constant (supply = initial - burned). *)
From LP Require Export Prelude.

Definition A_FAIRBURN_POOL : addr := 4.
Definition A_BURNED : addr := 5.

Definition bal := list (addr * denom * N).

Fixpoint bal_get (b : bal) (a : addr) (d : denom) : N :=
  match b with
  | [] => 0
  | (k, dd, v) :: r => if (k =? a) && (dd =? d) then v else bal_get r a d
  end.
Fixpoint bal_set (b : bal) (a : addr) (d : denom) (v : N) : bal :=
  match b with
  | [] => [(a, d, v)]
  | (k, dd, w) :: r => if (k =? a) && (dd =? d) then (k, dd, v) :: r else (k, dd, w) :: bal_set r a d v
  end.
Definition bal_add (b : bal) (a : addr) (d : denom) (x : N) : bal := bal_set b a d (bal_get b a d + x).
Definition bal_sub (b : bal) (a : addr) (d : denom) (x : N) : result bal :=
  if bal_get b a d <? x then Err else Ok (bal_set b a d (bal_get b a d - x)).

Definition transfer (b : bal) (from to : addr) (d : denom) (x : N) : result bal :=
  if x =? 0 then Err
  else do b1 <- bal_sub b from d x; Ok (bal_add b1 to d x).

(* messages emitted by contract `self` *)
Definition apply_bmsg (self : addr) (b : bal) (m : bmsg) : result bal :=
  match m with
  | Send to d x => transfer b self to d x
  | Burn d x => transfer b self A_BURNED d x
  | FundPool sender d x => if sender =? self then transfer b self A_FAIRBURN_POOL d x else Err
  | OtherMsg _ => Err
  end.

Fixpoint apply_bmsgs (self : addr) (b : bal) (ms : list bmsg) : result bal :=
  match ms with
  | [] => Ok b
  | m :: r => do b1 <- apply_bmsg self b m; apply_bmsgs self b1 r
  end.

(* funds attached to a call move from the sender to the contract first *)
Fixpoint attach (b : bal) (from to : addr) (fs : list coin) : result bal :=
  match fs with
  | [] => Ok b
  | c :: r => do b1 <- transfer b from to (c_denom c) (c_amount c); attach b1 from to r
  end.

(* compare on a list of tracked (account, denom) slots *)
Definition bal_agrees (b : bal) (obs : bal) : bool :=
  forallb (fun '(a, d, v) => bal_get b a d =? v) obs.
