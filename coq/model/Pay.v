(* cw_utils::{may_pay, must_pay, one_coin, nonpayable} over an explicit coin list. *)
From LP Require Export Prelude.

Definition nonpayable (funds : list coin) : result unit :=
  match funds with [] => Ok tt | _ => Err end.

Definition one_coin (funds : list coin) : result coin :=
  match funds with
  | [c] => if c_amount c =? 0 then Err else Ok c
  | _ => Err
  end.

Definition must_pay (funds : list coin) (d : denom) : result N :=
  do c <- one_coin funds;
  if c_denom c =? d then Ok (c_amount c) else Err.

(* two coins of the right denom make the real function panic (unwrap on None);
   a panic aborts the call like an error *)
Definition may_pay (funds : list coin) (d : denom) : result N :=
  match funds with
  | [] => Ok 0
  | [c] => if c_denom c =? d then Ok (c_amount c) else Err
  | _ => Err
  end.
