(* The parameter-update half of the four factories' `migrate` entry points
   (contracts/factories/*/src/contract.rs, the `if let Some(msg) = msg { ... }` block),
   written field by field from each migrate function, over the parameter records of
   model/Params.v, and composed with the identity / version gate of model/Migrate.v.

   base, vending and open-edition call base_factory's `update_params` for the common
   fields and then assign their extension fields; token-merge-factory's migrate assigns
   ONLY the five extension fields: code_id, the code-id lists, frozen, creation_fee and
   max_trading_offset_secs of a supplied message are not read on this path (unlike its
   sudo UpdateParams, C18). *)
From LP Require Export Migrate Params.
Local Open Scope N_scope.

Definition base_migrate_params (p : cparams) (m : cmsg) : result cparams := update_params p m.

Definition vending_migrate_params (p : vparams) (m : vmsg) : result vparams :=
  do c <- update_params (vp_common p) (vm_common m);
  let x := vp_ext p in
  let xm := vm_ext m in
  do ap <- native_or_err (vxm_airdrop_mint_price xm) (vx_airdrop_mint_price x);
  do sf <- native_or_err (vxm_shuffle_fee xm) (vx_shuffle_fee x);
  Ok {| vp_common := c;
        vp_ext := {| vx_max_token_limit := unwrap_or (vxm_max_token_limit xm) (vx_max_token_limit x);
                     vx_max_per_address_limit := unwrap_or (vxm_max_per_address_limit xm) (vx_max_per_address_limit x);
                     vx_airdrop_mint_price := ap;
                     vx_airdrop_mint_fee_bps := unwrap_or (vxm_airdrop_mint_fee_bps xm) (vx_airdrop_mint_fee_bps x);
                     vx_shuffle_fee := sf |} |}.

Definition oe_migrate_params (p : oparams) (m : omsg) : result oparams :=
  do c <- update_params (op_common p) (om_common m);
  let x := op_ext p in
  let xm := om_ext m in
  Ok {| op_common := c;
        op_ext := {| ox_max_token_limit := unwrap_or (oxm_max_token_limit xm) (ox_max_token_limit x);
                     ox_max_per_address_limit := unwrap_or (oxm_max_per_address_limit xm) (ox_max_per_address_limit x);
                     ox_airdrop_mint_fee_bps := unwrap_or (oxm_airdrop_mint_fee_bps xm) (ox_airdrop_mint_fee_bps x);
                     ox_airdrop_mint_price := unwrap_or (oxm_airdrop_mint_price xm) (ox_airdrop_mint_price x);
                     ox_dev_fee_address := unwrap_or (oxm_dev_fee_address xm) (ox_dev_fee_address x) |} |}.

Definition tm_migrate_params (p : tparams) (m : tmsg) : result tparams :=
  let x := tm_ext m in
  do ap <- native_or_err (vxm_airdrop_mint_price x) (tp_airdrop_mint_price p);
  do sf <- native_or_err (vxm_shuffle_fee x) (tp_shuffle_fee p);
  Ok {| tp_code_id := tp_code_id p;
        tp_allowed := tp_allowed p;
        tp_frozen := tp_frozen p;
        tp_creation_fee := tp_creation_fee p;
        tp_offset := tp_offset p;
        tp_max_token_limit := unwrap_or (vxm_max_token_limit x) (tp_max_token_limit p);
        tp_max_per_address_limit := unwrap_or (vxm_max_per_address_limit x) (tp_max_per_address_limit p);
        tp_airdrop_mint_price := ap;
        tp_airdrop_mint_fee_bps := unwrap_or (vxm_airdrop_mint_fee_bps x) (tp_airdrop_mint_fee_bps p);
        tp_shuffle_fee := sf |}.

(* the whole factory migration: the gate of Migrate.migrate (identity, parsable version,
   not newer than the code; the recorded cw2 info is left alone), then the parameters *)
Definition factory_migrate {P M : Type} (c : contract) (upd : P -> M -> result P)
           (now : N) (st : cstate) (p : P) (msg : option M) : result (cstate * P) :=
  match migrate c now None st with
  | Err => Err
  | Ok (st', _) =>
      match msg with
      | None => Ok (st', p)
      | Some m => do p' <- upd p m; Ok (st', p')
      end
  end.

Definition base_factory_migrate := factory_migrate BaseFactory base_migrate_params.
Definition vending_factory_migrate := factory_migrate VendingFactory vending_migrate_params.
Definition oe_factory_migrate := factory_migrate OpenEditionFactory oe_migrate_params.
Definition tm_factory_migrate := factory_migrate TokenMergeFactory tm_migrate_params.
