(* The price / denom clause of vending-factory::execute_create_minter (the only place
   where the creation-time mint price is checked; the minters' instantiate does not look
   at it).  The rest of creation (fee, token and per-address bounds, allowed collection
   code, frozen flag) belongs to the factory model of C08; the correspondence probes for
   this clause keep everything else valid.

     ensure!(params.min_mint_price.denom == msg.init_msg.mint_price.denom, DenomMismatch);
     if params.min_mint_price.amount > msg.init_msg.mint_price.amount { Err(InsufficientMintPrice) } *)
From LP Require Export MinterVending.

Definition create_price_ok (fp : fparams) (price : N) (d : denom) : bool :=
  (fp_min_denom fp =? d) && negb (price <? fp_min_price fp).
