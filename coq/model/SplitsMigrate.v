(* contracts/splits/src/contract.rs `migrate`, as a frame function over the splits world
   of model/Splits.v: the chain lets only the contract's wasm-level admin call it, the
   function itself checks the stored cw2 identity and version (model/Migrate.v, contract
   `Splits`) and then writes nothing but the cw2 info -- GROUP, ADMIN and the bank are
   not touched and no message is emitted.

   Kept apart from `op` / `step`: histories that interleave migrations are `xop` lists. *)
From LP Require Export Splits.
From LP Require Import Migrate.
Local Open Scope N_scope.

Definition no_slots : slots := mkSlots None None None None None None None None.

Definition splits_migrate (wasm_admin who : addr) (name ver : String.string) (w : world) : result world :=
  if negb (who =? wasm_admin) then Err
  else match migrate Splits 0 None (mkState name ver no_slots) with
       | Ok _ => Ok w
       | Err => Err
       end.

Inductive xop :=
| XOp (o : op)
| XMigrate (who : addr) (name ver : String.string).

Definition xstep (wasm_admin : addr) (w : world) (x : xop) : result world :=
  match x with
  | XOp o => step w o
  | XMigrate who name ver => splits_migrate wasm_admin who name ver w
  end.

Definition xstep' (wasm_admin : addr) (w : world) (x : xop) : world :=
  match xstep wasm_admin w x with Ok w' => w' | Err => w end.

Definition xrun (wasm_admin : addr) (w : world) (xs : list xop) : world :=
  fold_left (xstep' wasm_admin) xs w.

Fixpoint xdeposited (xs : list xop) (d : denom) : N :=
  match xs with
  | [] => 0
  | XOp (Deposit d' amt) :: rest => if d' =? d then amt + xdeposited rest d else xdeposited rest d
  | _ :: rest => xdeposited rest d
  end.
