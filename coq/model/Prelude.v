(* Common vocabulary of the launchpad models. Executable, total, stdlib only. *)
From Coq Require Export List NArith Bool Lia.
Export ListNotations.
Open Scope N_scope.

(* A handler either succeeds with a value or fails.  Error kinds are deliberately not
   modelled: CosmWasm discards all writes of a failed call, and which of two failing
   guards fires first is not behaviour the properties speak about. *)
Inductive result (A : Type) : Type := Ok (a : A) | Err.
Arguments Ok {A} a.
Arguments Err {A}.

Definition bind {A B} (r : result A) (f : A -> result B) : result B :=
  match r with Ok a => f a | Err => Err end.
Notation "'do' x <- r ; k" := (bind r (fun x => k)) (at level 200, x pattern, r at level 100, k at level 200).
Definition guard (b : bool) : result unit := if b then Ok tt else Err.
Definition is_ok {A} (r : result A) : bool := match r with Ok _ => true | Err => false end.

(* Identifiers: addresses, denoms, token ids are N.  The harness owns the bijection
   id <-> string. *)
Definition addr := N.
Definition denom := N.
Definition NATIVE : denom := 0.          (* sg_utils::NATIVE_DENOM, "ustars" *)

Record coin := mkCoin { c_denom : denom; c_amount : N }.

(* Bank-level messages a handler can emit. *)
Inductive bmsg :=
| Send (to : addr) (d : denom) (amt : N)
| Burn (d : denom) (amt : N)
| FundPool (sender : addr) (d : denom) (amt : N)
| OtherMsg (tag : N).   (* anything the harness could not classify; never produced by a model *)

Definition bmsg_amount (m : bmsg) : N :=
  match m with Send _ _ a => a | Burn _ a => a | FundPool _ _ a => a | OtherMsg _ => 0 end.
Definition sum_out (ms : list bmsg) : N := fold_right (fun m acc => bmsg_amount m + acc) 0 ms.

Definition bmsg_eqb (a b : bmsg) : bool :=
  match a, b with
  | Send t d x, Send t' d' x' => (t =? t') && (d =? d') && (x =? x')
  | Burn d x, Burn d' x' => (d =? d') && (x =? x')
  | FundPool s d x, FundPool s' d' x' => (s =? s') && (d =? d') && (x =? x')
  | _, _ => false
  end.

Fixpoint list_eqb {A} (eqb : A -> A -> bool) (l1 l2 : list A) : bool :=
  match l1, l2 with
  | [], [] => true
  | x :: xs, y :: ys => eqb x y && list_eqb eqb xs ys
  | _, _ => false
  end.

Definition result_eqb {A} (eqb : A -> A -> bool) (r1 r2 : result A) : bool :=
  match r1, r2 with
  | Ok a, Ok b => eqb a b
  | Err, Err => true
  | _, _ => false
  end.

Definition option_eqb {A} (eqb : A -> A -> bool) (r1 r2 : option A) : bool :=
  match r1, r2 with
  | Some a, Some b => eqb a b
  | None, None => true
  | _, _ => false
  end.

(* indices of the cases on which a check fails; the correspondence driver prints it *)
Fixpoint failing {A} (chk : A -> bool) (i : N) (l : list A) : list N :=
  match l with
  | [] => []
  | x :: xs => if chk x then failing chk (i + 1) xs else i :: failing chk (i + 1) xs
  end.

Definition U128_MAX : N := 340282366920938463463374607431768211455.
Definition U64_MAX : N := 18446744073709551615.
Definition U32_MAX : N := 4294967295.
