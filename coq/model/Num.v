(* cosmwasm_std::Decimal (18 fractional digits) and Uint128 x Decimal products.
   The intermediate product is Uint256 in the code, so unbounded N is faithful as long
   as the *result* fits u128 (it does whenever the Decimal is <= 1, which every use in
   the modelled code guarantees; where it is not guaranteed the model tests the range). *)
From LP Require Export Prelude.

Definition DEC : N := 1000000000000000000.          (* 10^18 *)
Definition dec_percent (p : N) : N := p * 10000000000000000.   (* Decimal::percent  *)
Definition dec_bps (b : N) : N := b * 100000000000000.         (* Decimal::bps      *)
Definition dec_from_ratio (n d : N) : N := n * DEC / d.        (* Decimal::from_ratio (floor) *)
Definition dec_one : N := DEC.

(* Uint128 * Decimal  and  Uint128::mul_floor *)
Definition mul_floor (a d : N) : N := a * d / DEC.
(* Uint128::mul_ceil  (cosmwasm-std 1.5: floor, +1 when the remainder is non-zero) *)
Definition mul_ceil (a d : N) : N :=
  if (a * d) mod DEC =? 0 then a * d / DEC else a * d / DEC + 1.
