(* C19 — the trading-start-time rules of every minter family, and the collection side.

   The six vending minters are modelled handler by handler in MinterVending.v (`step`,
   case OUpdateStartTradingTime; the value the minter last sent to the collection is the
   ghost field `s_trading`).  This file adds
   - the creation-time rule (vending / open-edition / token-merge `instantiate` are
     literal copies of one another; the base minter has its own),
   - the update rule of the open-edition (3), token-merge and base minters as pure
     functions of what the handler reads (clock, stored mint start, factory offset at
     call time, "sender is the admin", "no funds attached"),
   - sg721-base's `update_start_trading_time` (only the collection's minter may call),
   - a two-contract world (vending minter + its collection) in which anybody may also
     call the collection directly.
   Timestamps are u64 nanoseconds; `Timestamp::plus_seconds(o)` is `t + o * 10^9` and
   panics (= the call fails) when the product or the sum leaves u64. *)
From LP Require Export Num Pay Sg1 MinterVending.

Inductive family := FVending | FOpenEdition | FTokenMerge | FBase.

(* ---------- creation ---------- *)
(* vending-minter/src/contract.rs instantiate (same text in the featured / flex / merkle
   copies, open-edition-minter{,-wl-flex,-merkle-wl} and token-merge-minter):
     let default = msg.init_msg.start_time.plus_seconds(offset);       // eager: may panic
     if let Some(t) = requested { if t > default { return Err } }
     stored = requested.or(Some(default))
   No comparison with the clock is made at creation. *)
Definition create_trading (start offset : N) (requested : option N) : result N :=
  do bound <- plus_seconds start offset;
  match requested with
  | Some t => if bound <? t then Err else Ok t
  | None => Ok bound
  end.

(* base-minter instantiate:
     stored = requested.or_else(|| Some(env.block.time.plus_seconds(offset)))   // lazy
   no bound at all on a requested value; the sum is computed only when none is given *)
Definition create_trading_base (now offset : N) (requested : option N) : result N :=
  match requested with
  | Some t => Ok t
  | None => plus_seconds now offset
  end.

Definition create_trading_fam (f : family) (now start offset : N) (requested : option N) : result N :=
  match f with
  | FBase => create_trading_base now offset requested
  | _ => create_trading start offset requested
  end.

(* ---------- update (execute_update_start_trading_time) ---------- *)
(* vending / open-edition / token-merge: nonpayable; sender = config.admin; the bound is
   computed from the STORED mint start and the factory offset queried in this call,
   before looking at the argument (so an overflowing bound fails the call even for
   `None`); `now > t` and `t > bound` are the two rejections; the argument is forwarded
   unchanged to the collection (None clears the collection's value). The result is the
   value forwarded. *)
Definition update_trading (now start offset : N) (is_admin no_funds : bool) (t : option N)
  : result (option N) :=
  if negb no_funds then Err
  else if negb is_admin then Err
  else
    do bound <- plus_seconds start offset;
    match t with
    | Some tr => if tr <? now then Err else if bound <? tr then Err else Ok (Some tr)
    | None => Ok None
    end.

(* base minter: nonpayable; sender = the collection's CURRENT creator (queried from the
   collection in this call); only `now > t` rejects; no factory query, no bound *)
Definition update_trading_base (now : N) (is_creator no_funds : bool) (t : option N)
  : result (option N) :=
  if negb no_funds then Err
  else if negb is_creator then Err
  else match t with
       | Some tr => if tr <? now then Err else Ok (Some tr)
       | None => Ok None
       end.

Definition update_trading_fam (f : family) (now start offset : N) (is_admin no_funds : bool) (t : option N)
  : result (option N) :=
  match f with
  | FBase => update_trading_base now is_admin no_funds t
  | _ => update_trading now start offset is_admin no_funds t
  end.

(* a history of update calls on one minter of any family; everything the handler reads
   is an input of the call (the mint start may have been moved, governance may have
   changed the offset, the base minter's collection may have a new creator) *)
Record gcall := mkG {
  g_now : N; g_start : N; g_offset : N; g_admin : bool; g_nofunds : bool; g_t : option N }.

Definition gapply (f : family) (v : option N) (c : gcall) : option N :=
  match update_trading_fam f (g_now c) (g_start c) (g_offset c) (g_admin c) (g_nofunds c) (g_t c) with
  | Ok v' => v'
  | Err => v
  end.
Definition grun (f : family) (v0 : option N) (cs : list gcall) : option N := fold_left (gapply f) cs v0.

(* Some v' iff the call is a successful update (v' = the value now visible) *)
Definition gupdate (f : family) (c : gcall) : option (option N) :=
  match update_trading_fam f (g_now c) (g_start c) (g_offset c) (g_admin c) (g_nofunds c) (g_t c) with
  | Ok v' => Some v'
  | Err => None
  end.

(* ---------- the collection (sg721-base, also behind sg721-updatable) ---------- *)
(* update_start_trading_time: assert_minter_owner(sender) (the cw-ownable owner, set to
   the minter at instantiation), then collection_info.start_trading_time = argument *)
Record coll := mkColl { cl_minter : addr; cl_trading : option N }.

Definition coll_update (c : coll) (sender : addr) (t : option N) : result coll :=
  if sender =? cl_minter c then Ok (mkColl (cl_minter c) t) else Err.

(* ---------- a vending minter together with its collection ---------- *)
Record world := mkWorld { w_minter : vstate; w_coll : coll }.

Inductive wcall :=
| WMinter (e : env) (fp : fparams) (wv : option wlview) (o : vop)   (* a call on the minter *)
| WDirect (sender : addr) (t : option N).      (* UpdateStartTradingTime sent to the collection itself *)

(* the minter's messages are executed with the minter as sender; a refused message
   reverts the whole call *)
Fixpoint deliver (minter : addr) (c : coll) (ms : list omsg) : result coll :=
  match ms with
  | [] => Ok c
  | OTrading t :: r => do c' <- coll_update c minter t; deliver minter c' r
  | _ :: r => deliver minter c r
  end.

Definition wapply (vr : variant) (w : world) (x : wcall) : world :=
  match x with
  | WMinter e fp wv o =>
      match step vr (w_minter w) e fp wv o with
      | Ok (s', ms) =>
          match deliver (e_contract e) (w_coll w) ms with
          | Ok c' => mkWorld s' c'
          | Err => w
          end
      | Err => w
      end
  | WDirect sender t =>
      match coll_update (w_coll w) sender t with
      | Ok c' => mkWorld (w_minter w) c'
      | Err => w
      end
  end.
Definition wrun (vr : variant) (w : world) (cs : list wcall) : world := fold_left (wapply vr) cs w.

(* Some t iff x is an UpdateStartTradingTime(t) on the minter that the minter accepts in w *)
Definition trading_update (vr : variant) (w : world) (x : wcall) : option (option N) :=
  match x with
  | WMinter e fp wv (OUpdateStartTradingTime t) =>
      if is_ok (step vr (w_minter w) e fp wv (OUpdateStartTradingTime t)) then Some t else None
  | _ => None
  end.

(* calls that can occur: the minter runs at its own address; the minter contract sends
   nothing to the collection except through its handlers, so a direct call never comes
   from the minter's address *)
Definition wf_call (minter : addr) (x : wcall) : Prop :=
  match x with
  | WMinter e _ _ _ => e_contract e = minter
  | WDirect sender _ => sender <> minter
  end.

(* the same for the ghost alone, over plain minter histories *)
Definition with_trading (s : vstate) (v : option N) : vstate :=
  mkVS (s_admin s) (s_payment s) (s_num_tokens s) (s_pal s) (s_whitelist s) (s_start s)
       (s_price s) (s_denom s) (s_discount s) (s_mintable s) (s_positions s) (s_minted s) (s_burned s)
       (s_public s) (s_wl s) (s_fs s) (s_ss s) (s_ts s) (s_fs_count s) (s_ss_count s) (s_ts_count s)
       (s_airdrops s) (s_last_discount s) v.
