(* The collection contracts: cw721-base 0.18.0 core (as used through sg721-base), cw-ownable
   0.5.1 two-step ownership, the sg721 layer (collection info, freeze, royalties), the
   sg721-updatable layer (token metadata update / freeze / enable) and the sg721-nt
   restriction, parameterised by the collection type.

   Sources followed line by line:
     contracts/collections/sg721-base/src/contract.rs   (instantiate, execute, update_collection_info,
                                                          update_start_trading_time, freeze_collection_info, mint)
     contracts/collections/sg721-base/src/msg.rs        (CollectionInfoResponse::royalty_payout)
     contracts/collections/sg721-updatable/src/{contract,lib,msg}.rs
     contracts/collections/sg721-nt/src/{lib,msg}.rs
     contracts/collections/sg721-metadata-onchain/src/lib.rs
     cw721-base-0.18.0/src/{execute,state,query}.rs, cw-ownable-0.5.1/src/lib.rs, cw-utils expiration.rs

   Conventions (DESIGN.md section 3): addresses, token ids, token URIs and text values are N
   identifiers owned by the harness; Decimal shares are N atomics (18 decimals); timestamps
   are N nanoseconds.  A text value carries the two facts the code asks about it: its byte
   length and whether Url::parse accepts it (oracle inputs, fixed per string).
   Stated bound: Expiration is restricted to Never and AtTime (AtHeight is not modelled).
   Wire-level quirk followed: UpdateCollectionInfoMsg.{external_link,royalty_info} are
   Option<Option<_>>; JSON cannot express Some(None) (null deserialises to the outer None)
   and the code ignores Some(None) for royalties anyway, so the message carries a plain
   option: None = leave unchanged. *)
From LP Require Export Num Pay Sg1.
From LP Require Import Consts Semver.
From Coq Require String DecimalString.

(* ------------------------------------------------------------------ vocabulary *)
Inductive ctype := Base | Updatable | Onchain | NT.

Definition ctype_eqb (a b : ctype) : bool :=
  match a, b with
  | Base, Base | Updatable, Updatable | Onchain, Onchain | NT, NT => true
  | _, _ => false
  end.

Inductive expiration := ExNever | ExAt (t : N).

Definition is_expired (now : N) (e : expiration) : bool :=
  match e with ExNever => false | ExAt t => t <=? now end.       (* block.time >= t *)

Definition exp_default (e : option expiration) : expiration :=
  match e with Some x => x | None => ExNever end.

Record txt := mkTxt { t_id : N; t_len : N; t_url : bool }.

Record royalty := mkRoy { r_addr : addr; r_share : N }.

Record cinfo := mkInfo {
  ci_creator : addr;
  ci_description : txt;
  ci_image : txt;
  ci_external_link : option txt;
  ci_explicit : option bool;
  ci_start_trading : option N;
  ci_royalty : option royalty }.

Record token := mkTok { k_owner : addr; k_approvals : list (addr * expiration); k_uri : option N }.

Record ownership := mkOwn { o_owner : option addr; o_pending : option addr; o_expiry : option expiration }.

Record state := mkSt {
  tokens : list (N * token);                         (* ascending by token id *)
  token_count : N;
  operators : list ((addr * addr) * expiration);     (* (granter, operator), ascending *)
  own : ownership;
  info : cinfo;
  frozen : bool;                                     (* frozen_collection_info *)
  royalty_updated_at : N;
  md_frozen : bool;                                  (* FROZEN_TOKEN_METADATA (updatable only) *)
  md_enabled : bool }.                               (* ENABLE_UPDATABLE (updatable only) *)

Record env := mkEnv { now : N; sender : addr; funds : list coin }.

Record upd_msg := mkUpd {
  u_description : option txt;
  u_image : option txt;
  u_external_link : option txt;
  u_explicit : option bool;
  u_royalty : option royalty;
  u_creator : option addr }.

Inductive op :=
| OMint (id : N) (owner : addr) (uri : option N)
| OTransfer (to : addr) (id : N)
| OSend (to : addr) (id : N) (accepts : bool)        (* accepts: the receiver's ReceiveNft succeeds (oracle) *)
| OApprove (sp : addr) (id : N) (e : option expiration)
| ORevoke (sp : addr) (id : N)
| OApproveAll (opr : addr) (e : option expiration)
| ORevokeAll (opr : addr)
| OBurn (id : N)
| OUpdateInfo (m : upd_msg)
| OStartTrading (t : option N)
| OFreezeInfo
| OOwnTransfer (new : addr) (e : option expiration)
| OOwnAccept
| OOwnRenounce
| OUpdateTokenMd (id : N) (uri : option N)
| OFreezeTokenMd
| OEnableUpdatable.

(* which messages exist in each contract's ExecuteMsg: sg721-nt has only Mint, Burn,
   UpdateCollectionInfo, FreezeCollectionInfo; sg721-updatable's enum has no
   UpdateOwnership; the three metadata messages exist only on sg721-updatable *)
Definition supports (ct : ctype) (o : op) : bool :=
  match ct, o with
  | NT, (OMint _ _ _ | OBurn _ | OUpdateInfo _ | OFreezeInfo) => true
  | NT, _ => false
  | Updatable, (OOwnTransfer _ _ | OOwnAccept | OOwnRenounce) => false
  | Updatable, _ => true
  | _, (OUpdateTokenMd _ _ | OFreezeTokenMd | OEnableUpdatable) => false
  | _, _ => true
  end.

(* ------------------------------------------------------------------ token table *)
Fixpoint tfind (id : N) (l : list (N * token)) : option token :=
  match l with
  | [] => None
  | (k, t) :: r => if k =? id then Some t else tfind id r
  end.

(* insert keeping the list ascending (used for a fresh id only) *)
Fixpoint tinsert (id : N) (t : token) (l : list (N * token)) : list (N * token) :=
  match l with
  | [] => [(id, t)]
  | (k, x) :: r => if id <? k then (id, t) :: (k, x) :: r else (k, x) :: tinsert id t r
  end.

(* overwrite the first entry with this key *)
Fixpoint tupdate (id : N) (t : token) (l : list (N * token)) : list (N * token) :=
  match l with
  | [] => []
  | (k, x) :: r => if k =? id then (k, t) :: r else (k, x) :: tupdate id t r
  end.

Fixpoint tremove (id : N) (l : list (N * token)) : list (N * token) :=
  match l with
  | [] => []
  | (k, x) :: r => if k =? id then r else (k, x) :: tremove id r
  end.

(* ------------------------------------------------------------------ operator table *)
Definition pair_eqb (a b : addr * addr) : bool := (fst a =? fst b) && (snd a =? snd b).
Definition pair_ltb (a b : addr * addr) : bool :=
  (fst a <? fst b) || ((fst a =? fst b) && (snd a <? snd b)).

Fixpoint ofind (k : addr * addr) (l : list ((addr * addr) * expiration)) : option expiration :=
  match l with
  | [] => None
  | (k', e) :: r => if pair_eqb k' k then Some e else ofind k r
  end.

Fixpoint oset (k : addr * addr) (e : expiration) (l : list ((addr * addr) * expiration)) :=
  match l with
  | [] => [(k, e)]
  | (k', e') :: r =>
      if pair_eqb k' k then (k, e) :: r
      else if pair_ltb k k' then (k, e) :: (k', e') :: r
      else (k', e') :: oset k e r
  end.

Fixpoint oremove (k : addr * addr) (l : list ((addr * addr) * expiration)) :=
  match l with
  | [] => []
  | (k', e') :: r => if pair_eqb k' k then r else (k', e') :: oremove k r
  end.

(* ------------------------------------------------------------------ cw721-base permissions *)
Definition operator_live (nw : N) (ops : list ((addr * addr) * expiration)) (owner who : addr) : bool :=
  match ofind (owner, who) ops with
  | Some e => negb (is_expired nw e)
  | None => false
  end.

Definition check_can_approve (nw : N) (who : addr) (s : state) (t : token) : bool :=
  (k_owner t =? who) || operator_live nw (operators s) (k_owner t) who.

Definition check_can_send (nw : N) (who : addr) (s : state) (t : token) : bool :=
  (k_owner t =? who)
  || existsb (fun a => (fst a =? who) && negb (is_expired nw (snd a))) (k_approvals t)
  || operator_live nw (operators s) (k_owner t) who.

Definition is_minter (who : addr) (s : state) : bool :=       (* cw_ownable::assert_owner *)
  match o_owner (own s) with Some o => o =? who | None => false end.

(* ------------------------------------------------------------------ state updates *)
Definition set_tokens (s : state) (l : list (N * token)) (c : N) : state :=
  mkSt l c (operators s) (own s) (info s) (frozen s) (royalty_updated_at s) (md_frozen s) (md_enabled s).
Definition set_operators (s : state) (l : list ((addr * addr) * expiration)) : state :=
  mkSt (tokens s) (token_count s) l (own s) (info s) (frozen s) (royalty_updated_at s) (md_frozen s) (md_enabled s).
Definition set_own (s : state) (o : ownership) : state :=
  mkSt (tokens s) (token_count s) (operators s) o (info s) (frozen s) (royalty_updated_at s) (md_frozen s) (md_enabled s).
Definition set_info (s : state) (i : cinfo) (upd_at : N) : state :=
  mkSt (tokens s) (token_count s) (operators s) (own s) i (frozen s) upd_at (md_frozen s) (md_enabled s).
Definition set_frozen (s : state) : state :=
  mkSt (tokens s) (token_count s) (operators s) (own s) (info s) true (royalty_updated_at s) (md_frozen s) (md_enabled s).
Definition set_md (s : state) (fr en : bool) : state :=
  mkSt (tokens s) (token_count s) (operators s) (own s) (info s) (frozen s) (royalty_updated_at s) fr en.

(* ------------------------------------------------------------------ sg721 layer *)
Definition DAY_NS : N := 86400 * 1000000000.                       (* plus_seconds(24 * 60 * 60) *)
Definition MAX_DESC : N := sg721_base__MAX_DESCRIPTION_LENGTH.
Definition MAX_DELTA : N := dec_percent sg721_base__MAX_SHARE_DELTA_PCT.
Definition MAX_SHARE : N := dec_percent sg721_base__MAX_ROYALTY_SHARE_PCT.

Definition share_validate (sh : N) : bool := sh <=? dec_one.       (* Err when share > Decimal::one() *)

Definition link_ok (l : option txt) : bool :=
  match l with Some x => t_url x | None => true end.

(* the royalty branch of update_collection_info; returns the new royalty and anchor *)
Definition update_royalty (nw : N) (old : option royalty) (upd_at : N) (new : royalty)
  : result (option royalty * N) :=
  (* last_royalty_update.plus_seconds(86400): strict_add on u64 *)
  if U64_MAX <? upd_at + DAY_NS then Err
  else if nw <? upd_at + DAY_NS then Err                          (* last + 24h > now *)
  else if negb (share_validate (r_share new)) then Err
  else
    let raise_ok :=
      match old with
      | Some o =>
          if r_share o <? r_share new
          then (r_share new - r_share o <=? MAX_DELTA) && (r_share new <=? MAX_SHARE)
          else true
      | None => true
      end in
    if raise_ok then Ok (Some new, nw) else Err.

Definition update_collection_info (e : env) (m : upd_msg) (s : state) : result state :=
  let c := info s in
  if frozen s then Err
  else if negb (ci_creator c =? sender e) then Err
  else
    let creator' := match u_creator m with Some a => a | None => ci_creator c end in
    let desc' := match u_description m with Some d => d | None => ci_description c end in
    if MAX_DESC <? t_len desc' then Err
    else
      let image' := match u_image m with Some i => i | None => ci_image c end in
      if negb (t_url image') then Err
      else
        let link' := match u_external_link m with Some l => Some l | None => ci_external_link c end in
        if negb (link_ok link') then Err
        else
          let explicit' := u_explicit m in                          (* overwritten even by None *)
          match u_royalty m with
          | Some new =>
              do ra <- update_royalty (now e) (ci_royalty c) (royalty_updated_at s) new;
              Ok (set_info s (mkInfo creator' desc' image' link' explicit' (ci_start_trading c) (fst ra)) (snd ra))
          | None =>
              Ok (set_info s (mkInfo creator' desc' image' link' explicit' (ci_start_trading c) (ci_royalty c))
                    (royalty_updated_at s))
          end.

Definition update_start_trading_time (e : env) (t : option N) (s : state) : result state :=
  if is_minter (sender e) s then
    let c := info s in
    Ok (set_info s (mkInfo (ci_creator c) (ci_description c) (ci_image c) (ci_external_link c)
                      (ci_explicit c) t (ci_royalty c)) (royalty_updated_at s))
  else Err.

Definition freeze_collection_info (e : env) (s : state) : result state :=
  if ci_creator (info s) =? sender e then Ok (set_frozen s) else Err.

(* sg721-base mint: assert_minter_owner, Claimed on an existing id, increment_tokens (u64 + 1) *)
Definition mint (e : env) (id : N) (owner : addr) (uri : option N) (s : state) : result state :=
  if negb (is_minter (sender e) s) then Err
  else match tfind id (tokens s) with
       | Some _ => Err
       | None =>
           if U64_MAX <? token_count s + 1 then Err
           else Ok (set_tokens s (tinsert id (mkTok owner [] uri) (tokens s)) (token_count s + 1))
       end.

(* ------------------------------------------------------------------ cw721-base core *)
Definition transfer (e : env) (to : addr) (id : N) (s : state) : result state :=
  match tfind id (tokens s) with
  | None => Err
  | Some t =>
      if check_can_send (now e) (sender e) s t
      then Ok (set_tokens s (tupdate id (mkTok to [] (k_uri t)) (tokens s)) (token_count s))
      else Err
  end.

Definition approve (e : env) (sp : addr) (id : N) (add : bool) (ex : option expiration) (s : state)
  : result state :=
  match tfind id (tokens s) with
  | None => Err
  | Some t =>
      if negb (check_can_approve (now e) (sender e) s t) then Err
      else
        let kept := filter (fun a => negb (fst a =? sp)) (k_approvals t) in
        if add then
          let x := exp_default ex in
          if is_expired (now e) x then Err
          else Ok (set_tokens s (tupdate id (mkTok (k_owner t) (kept ++ [(sp, x)]) (k_uri t)) (tokens s)) (token_count s))
        else Ok (set_tokens s (tupdate id (mkTok (k_owner t) kept (k_uri t)) (tokens s)) (token_count s))
  end.

Definition approve_all (e : env) (opr : addr) (ex : option expiration) (s : state) : result state :=
  let x := exp_default ex in
  if is_expired (now e) x then Err
  else Ok (set_operators s (oset (sender e, opr) x (operators s))).

Definition revoke_all (e : env) (opr : addr) (s : state) : result state :=
  Ok (set_operators s (oremove (sender e, opr) (operators s))).

(* burn: check_can_send, remove, decrement_tokens (u64 - 1) *)
Definition burn (e : env) (id : N) (s : state) : result state :=
  match tfind id (tokens s) with
  | None => Err
  | Some t =>
      if negb (check_can_send (now e) (sender e) s t) then Err
      else if token_count s =? 0 then Err
      else Ok (set_tokens s (tremove id (tokens s)) (token_count s - 1))
  end.

(* ------------------------------------------------------------------ cw-ownable *)
Definition own_transfer (e : env) (new : addr) (ex : option expiration) (s : state) : result state :=
  if is_minter (sender e) s
  then Ok (set_own s (mkOwn (o_owner (own s)) (Some new) ex))
  else Err.

Definition own_accept (e : env) (s : state) : result state :=
  match o_pending (own s) with
  | None => Err
  | Some p =>
      if negb (p =? sender e) then Err
      else if match o_expiry (own s) with Some x => is_expired (now e) x | None => false end then Err
      else Ok (set_own s (mkOwn (Some p) None None))
  end.

Definition own_renounce (e : env) (s : state) : result state :=
  if is_minter (sender e) s then Ok (set_own s (mkOwn None None None)) else Err.

(* ------------------------------------------------------------------ sg721-updatable layer *)
Definition ENABLE_FEE : N := sg721_updatable__ENABLE_UPDATABLE_FEE.

Definition update_token_metadata (e : env) (id : N) (uri : option N) (s : state) : result state :=
  do _ <- nonpayable (funds e);
  if negb (ci_creator (info s) =? sender e) then Err
  else if md_frozen s then Err
  else if negb (md_enabled s) then Err
  else match tfind id (tokens s) with
       | None => Err
       | Some t => Ok (set_tokens s (tupdate id (mkTok (k_owner t) (k_approvals t) uri) (tokens s)) (token_count s))
       end.

Definition freeze_token_metadata (e : env) (s : state) : result state :=
  do _ <- nonpayable (funds e);
  if ci_creator (info s) =? sender e then Ok (set_md s true (md_enabled s)) else Err.

Definition enable_updatable (self : addr) (e : env) (s : state) : result (state * list bmsg) :=
  if md_enabled s then Err
  else if negb (ci_creator (info s) =? sender e) then Err
  else
    do ms <- checked_fair_burn self (funds e) ENABLE_FEE None;
    Ok (set_md s (md_frozen s) true, ms).

(* ------------------------------------------------------------------ entry points *)
Definition quiet (r : result state) : result (state * list bmsg) :=
  do s <- r; Ok (s, []).

Definition exec (self : addr) (e : env) (o : op) (s : state) : result (state * list bmsg) :=
       match o with
       | OMint id owner uri => quiet (mint e id owner uri s)
       | OTransfer to id => quiet (transfer e to id s)
       | OSend to id accepts => if accepts then quiet (transfer e to id s) else Err
       | OApprove sp id ex => quiet (approve e sp id true ex s)
       | ORevoke sp id => quiet (approve e sp id false None s)
       | OApproveAll opr ex => quiet (approve_all e opr ex s)
       | ORevokeAll opr => quiet (revoke_all e opr s)
       | OBurn id => quiet (burn e id s)
       | OUpdateInfo m => quiet (update_collection_info e m s)
       | OStartTrading t => quiet (update_start_trading_time e t s)
       | OFreezeInfo => quiet (freeze_collection_info e s)
       | OOwnTransfer new ex => quiet (own_transfer e new ex s)
       | OOwnAccept => quiet (own_accept e s)
       | OOwnRenounce => quiet (own_renounce e s)
       | OUpdateTokenMd id uri => quiet (update_token_metadata e id uri s)
       | OFreezeTokenMd => quiet (freeze_token_metadata e s)
       | OEnableUpdatable => enable_updatable self e s
       end.

(* a message the contract's ExecuteMsg does not have fails to parse *)
Definition step (ct : ctype) (self : addr) (e : env) (o : op) (s : state) : result (state * list bmsg) :=
  if supports ct o then exec self e o s else Err.

(* instantiate: nonpayable, the sender must be a contract (ContractInfo query succeeds),
   description length, image / external link URLs, royalty share; royalty_updated_at is
   the instantiation time.  sg721-updatable additionally starts with metadata updates
   enabled and not frozen. *)
Definition instantiate (ct : ctype) (nw : N) (sender_is_contract : bool) (fs : list coin)
           (minter : addr) (c : cinfo) : result state :=
  do _ <- nonpayable fs;
  if negb sender_is_contract then Err
  else if MAX_DESC <? t_len (ci_description c) then Err
  else if negb (t_url (ci_image c)) then Err
  else if negb (link_ok (ci_external_link c)) then Err
  else if negb (match ci_royalty c with Some r => share_validate (r_share r) | None => true end) then Err
  else Ok (mkSt [] 0 [] (mkOwn (Some minter) None None) c false nw false
                (match ct with Updatable => true | _ => false end)).

(* a failed call leaves the state alone; histories skip it like the chain does *)
Definition apply (ct : ctype) (self : addr) (s : state) (eo : env * op) : state :=
  match step ct self (fst eo) (snd eo) s with
  | Ok (s', _) => s'
  | Err => s
  end.

Definition run (ct : ctype) (self : addr) (s : state) (l : list (env * op)) : state :=
  fold_left (apply ct self) l s.

(* ------------------------------------------------------------------ deployed contract, migration *)
(* The wasm admin can swap the code of a deployed collection for the sg721-updatable code
   (sg721-base exports no migrate entry point, so it is never a migration target; the
   sg721-nt / metadata-onchain migrations are outside this model).  What the
   sg721-updatable `_migrate` does depends on the cw2 record (contract name, version):
     contracts/collections/sg721-updatable/src/contract.rs  _migrate
     contracts/collections/sg721-base/src/upgrades/{v3_0_0,v3_1_0}.rs *)
Inductive cwname :=
| NBase          (* "crates.io:sg721-base" *)
| NBaseLegacy    (* "sg721-base" *)
| NUpd           (* "crates.io:sg721-updatable" *)
| NUpdLegacy     (* "sg721-updatable" *)
| NOther (k : N) (* anything else, e.g. the nt / metadata-onchain names *).

Definition cwname_eqb (a b : cwname) : bool :=
  match a, b with
  | NBase, NBase | NBaseLegacy, NBaseLegacy | NUpd, NUpd | NUpdLegacy, NUpdLegacy => true
  | NOther x, NOther y => x =? y
  | _, _ => false
  end.

Definition name_of (ct : ctype) : cwname :=
  match ct with Base => NBase | Updatable => NUpd | Onchain => NOther 1 | NT => NOther 2 end.

(* COMPATIBLE_CONTRACT_NAMES_FOR_MIGRATION *)
Definition compatible_name (n : cwname) : bool := match n with NOther _ => false | _ => true end.
(* ["sg721-base", "crates.io:sg721-base"]: the names whose state lacks the two flags *)
Definition is_base_name (n : cwname) : bool := match n with NBase | NBaseLegacy => true | _ => false end.

Definition CUR_VERSION : version := workspace_version_triple.
Definition EARLIEST_VERSION : option version := parse_version sg721_updatable__EARLIEST_COMPATIBLE_VERSION.

Record deployed := mkDep {
  d_ct : ctype;            (* the code the contract currently runs *)
  d_admin : addr;          (* wasm admin, fixed at instantiation *)
  d_name : cwname;         (* cw2 contract name *)
  d_ver : version;         (* cw2 version *)
  d_st : state }.

Definition with_state (d : deployed) (s : state) : deployed :=
  mkDep (d_ct d) (d_admin d) (d_name d) (d_ver d) s.

(* _migrate of sg721-updatable.  Versions below 3.0.0 run cw721-base's 0.16 -> 0.17 step,
   which loads the legacy `minter` item; a contract created by the current code has none,
   so that step fails (stated bound: no pre-3.0.0 storage layouts).  Versions below 3.1.0
   get royalty_updated_at := now - 24 h (minus_seconds: strict_sub on u64). *)
Definition migrate_to_updatable (nw : N) (d : deployed) : result deployed :=
  let v := d_ver d in
  match EARLIEST_VERSION with
  | None => Err
  | Some v0 =>
      if negb (compatible_name (d_name d)) then Err
      else if ver_ltb v v0 then Err
      else if ver_ltb CUR_VERSION v then Err
      else if ver_eqb v CUR_VERSION && cwname_eqb (d_name d) NUpd then Err
      else
        let s1 := if is_base_name (d_name d) then set_md (d_st d) false false else d_st d in
        if ver_ltb v (3, 0, 0) then Err
        else
          do s2 <- (if ver_ltb v (3, 1, 0)
                    then if nw <? DAY_NS then Err else Ok (set_info s1 (info s1) (nw - DAY_NS))
                    else Ok s1);
          Ok (mkDep Updatable (d_admin d) NUpd CUR_VERSION s2)
  end.

(* ---- each variant's own migrate entry point (same code id) ------------------------------
   sources: contracts/collections/sg721-metadata-onchain/src/lib.rs  entry::migrate
            contracts/collections/sg721-nt/src/lib.rs                entry::migrate
            contracts/collections/sg721-base/src/contract.rs         Sg721Contract::migrate
   sg721-base's own entry module exports no migrate; `Sg721Contract::migrate` is the library
   function a contract built on sg721-base wires as its migrate entry point (the harness
   does exactly that for the sg721-base variant).  It compares version STRINGS. *)
Definition dec_str (n : N) : String.string := DecimalString.NilEmpty.string_of_uint (N.to_uint n).
Definition dot_str : String.string := String.String (Ascii.ascii_of_N 46) String.EmptyString.
Definition ver_str (v : version) : String.string :=
  let '(a, b, c) := v in
  String.append (dec_str a) (String.append dot_str (String.append (dec_str b) (String.append dot_str (dec_str c)))).

(* metadata-onchain: no name check; same version returns Ok untouched; otherwise the cw2
   record becomes (its own name, TO_VERSION = "3.0.0" - not the new version), then the
   3.0.0 step for records below 3.0.0 (legacy minter item: absent here, so it fails).
   There is NO 3.1.0 step: the royalty anchor is never touched. *)
Definition onchain_migrate (d : deployed) : result deployed :=
  match parse_version sg721_metadata_onchain__EARLIEST_VERSION,
        parse_version sg721_metadata_onchain__CONTRACT_VERSION,
        parse_version sg721_metadata_onchain__TO_VERSION with
  | Some v0, Some cur, Some tov =>
      let v := d_ver d in
      if ver_ltb v v0 then Err
      else if ver_ltb cur v then Err
      else if ver_eqb cur v then Ok d
      else if ver_ltb v (3, 0, 0) then Err
      else Ok (mkDep (d_ct d) (d_admin d) (NOther 1) tov (d_st d))
  | _, _, _ => Err
  end.

(* sg721-nt: only the crate's own constants are compared, as strings; with CONTRACT_VERSION
   string-greater than TO_VERSION every migrate is refused.  (Were they equal it would
   return Ok untouched; otherwise cw721-base's 0.16 -> 0.17 step needs the legacy minter.) *)
Definition nt_migrate (d : deployed) : result deployed :=
  let cv := sg721_nt__CONTRACT_VERSION in
  if str_ltb cv sg721_nt__EARLIEST_VERSION then Err
  else if str_ltb sg721_nt__TO_VERSION cv then Err
  else if String.eqb cv sg721_nt__TO_VERSION then Ok d
  else Err.

(* Sg721Contract::migrate: name must be the sg721-base name; the stored version STRING must
   be string-less than CONTRACT_VERSION; string-below "3.0.0" runs the 3.0.0 step (fails
   here), string-below "3.1.0" re-creates the royalty anchor at now - 24 h; records
   (sg721-base name, CONTRACT_VERSION). *)
Definition base_lib_migrate (nw : N) (d : deployed) : result deployed :=
  let vs := ver_str (d_ver d) in
  let cvs := sg721_base__CONTRACT_VERSION in
  if negb (cwname_eqb (d_name d) NBase) then Err
  else if negb (str_ltb vs cvs) then Err
  else if str_ltb vs (ver_str (3, 0, 0)) then Err
  else match parse_version cvs with
       | None => Err
       | Some cur =>
           do s2 <- (if str_ltb vs (ver_str (3, 1, 0))
                     then if nw <? DAY_NS then Err
                          else Ok (set_info (d_st d) (info (d_st d)) (nw - DAY_NS))
                     else Ok (d_st d));
           Ok (mkDep (d_ct d) (d_admin d) NBase cur s2)
       end.

Definition migrate_self (nw : N) (d : deployed) : result deployed :=
  match d_ct d with
  | Base => base_lib_migrate nw d
  | Updatable => migrate_to_updatable nw d
  | Onchain => onchain_migrate d
  | NT => nt_migrate d
  end.

Inductive action :=
| ACall (o : op)
| AMigrate            (* code swap to the sg721-updatable code *)
| AMigrateSelf.       (* migrate with the code the contract already runs *)

(* one transaction: a call of the contract, or a MsgMigrateContract (the chain lets only
   the admin migrate) *)
Definition dstep (self : addr) (e : env) (a : action) (d : deployed) : result (deployed * list bmsg) :=
  match a with
  | ACall o => do r <- step (d_ct d) self e o (d_st d); Ok (with_state d (fst r), snd r)
  | AMigrate =>
      if d_admin d =? sender e
      then do d' <- migrate_to_updatable (now e) d; Ok (d', [])
      else Err
  | AMigrateSelf =>
      if d_admin d =? sender e
      then do d' <- migrate_self (now e) d; Ok (d', [])
      else Err
  end.

Definition dapply (self : addr) (d : deployed) (ea : env * action) : deployed :=
  match dstep self (fst ea) (snd ea) d with
  | Ok (d', _) => d'
  | Err => d
  end.

Definition drun (self : addr) (d : deployed) (l : list (env * action)) : deployed :=
  fold_left (dapply self) l d.

(* ------------------------------------------------------------------ royalty payout helper *)
(* CollectionInfoResponse::royalty_payout: Uint128 * Decimal is multiply_ratio (floor,
   panics when the result exceeds u128); Uint128 + Uint128 panics on overflow *)
Definition royalty_payout (roy : option royalty) (payment protocol_fee : N) (finders : option N)
  : result (N * list bmsg) :=
  match roy with
  | None => Ok (0, [])
  | Some r =>
      if r_share r =? 0 then Ok (0, [])
      else
        let amt := mul_floor payment (r_share r) in
        if U128_MAX <? amt then Err
        else
          let total := protocol_fee + match finders with Some f => f | None => 0 end + amt in
          if U128_MAX <? total then Err
          else if payment <? total then Err
          else Ok (amt, [Send (r_addr r) NATIVE amt])
  end.

(* ------------------------------------------------------------------ observations *)
(* what the queries return: CollectionInfo; NumTokens; AllTokens with OwnerOf
   (include_expired) and NftInfo per token; Minter / Ownership (sg721-updatable has no
   Ownership query: only the owner is visible there); AllOperators (include_expired) of
   every tracked account; the two sg721-updatable flags; the cw2 record *)
Record obs := mkObs {
  ob_info : cinfo;
  ob_count : N;
  ob_tokens : list (N * token);
  ob_own : ownership;
  ob_ops : list ((addr * addr) * expiration);
  ob_md_frozen : bool;
  ob_md_enabled : bool;
  ob_name : cwname;
  ob_ver : version }.

Definition obs_of (d : deployed) : obs :=
  let s := d_st d in
  mkObs (info s) (token_count s) (tokens s)
        (match d_ct d with Updatable => mkOwn (o_owner (own s)) None None | _ => own s end)
        (operators s)
        (match d_ct d with Updatable => md_frozen s | _ => false end)
        (match d_ct d with Updatable => md_enabled s | _ => false end)
        (d_name d) (d_ver d).

Definition exp_eqb (a b : expiration) : bool :=
  match a, b with
  | ExNever, ExNever => true
  | ExAt x, ExAt y => x =? y
  | _, _ => false
  end.
Definition txt_eqb (a b : txt) : bool :=
  (t_id a =? t_id b) && (t_len a =? t_len b) && Bool.eqb (t_url a) (t_url b).
Definition roy_eqb (a b : royalty) : bool := (r_addr a =? r_addr b) && (r_share a =? r_share b).
Definition cinfo_eqb (a b : cinfo) : bool :=
  (ci_creator a =? ci_creator b) && txt_eqb (ci_description a) (ci_description b)
  && txt_eqb (ci_image a) (ci_image b)
  && option_eqb txt_eqb (ci_external_link a) (ci_external_link b)
  && option_eqb Bool.eqb (ci_explicit a) (ci_explicit b)
  && option_eqb N.eqb (ci_start_trading a) (ci_start_trading b)
  && option_eqb roy_eqb (ci_royalty a) (ci_royalty b).
Definition appr_eqb (a b : addr * expiration) : bool := (fst a =? fst b) && exp_eqb (snd a) (snd b).
Definition token_eqb (a b : token) : bool :=
  (k_owner a =? k_owner b) && list_eqb appr_eqb (k_approvals a) (k_approvals b)
  && option_eqb N.eqb (k_uri a) (k_uri b).
Definition entry_eqb (a b : N * token) : bool := (fst a =? fst b) && token_eqb (snd a) (snd b).
Definition own_eqb (a b : ownership) : bool :=
  option_eqb N.eqb (o_owner a) (o_owner b) && option_eqb N.eqb (o_pending a) (o_pending b)
  && option_eqb exp_eqb (o_expiry a) (o_expiry b).
Definition opent_eqb (a b : (addr * addr) * expiration) : bool :=
  pair_eqb (fst a) (fst b) && exp_eqb (snd a) (snd b).
Definition obs_eqb (a b : obs) : bool :=
  cinfo_eqb (ob_info a) (ob_info b) && (ob_count a =? ob_count b)
  && list_eqb entry_eqb (ob_tokens a) (ob_tokens b)
  && own_eqb (ob_own a) (ob_own b)
  && list_eqb opent_eqb (ob_ops a) (ob_ops b)
  && Bool.eqb (ob_md_frozen a) (ob_md_frozen b) && Bool.eqb (ob_md_enabled a) (ob_md_enabled b)
  && cwname_eqb (ob_name a) (ob_name b) && ver_eqb (ob_ver a) (ob_ver b).

(* ------------------------------------------------------------------ history replay *)
(* One recorded transaction: the inputs, what the implementation answered (ok with the
   amounts burned and sent to the fair-burn pool, or an error) and, when the queries
   changed since the previous step, the new observation. *)
Inductive outcome := Done (burned pooled : N) | Failed.

Record hstep := mkStep { h_env : env; h_act : action; h_out : outcome; h_obs : option obs }.

Record history := mkHist {
  h_ct : ctype;                      (* the code the collection is instantiated with *)
  h_migrated : bool;                 (* migrated to sg721-updatable by the admin right after creation *)
  h_self : addr;
  h_admin : addr;
  h_time0 : N;
  h_sender_is_contract : bool;
  h_funds0 : list coin;
  h_minter : addr;
  h_info0 : cinfo;
  h_cw2 : option (cwname * version); (* cw2 record overwritten after creation (an older deployment) *)
  h_init : option obs;               (* None: the instantiation was rejected *)
  h_steps : list hstep }.

Definition burned_of (ms : list bmsg) : N :=
  fold_right (fun m acc => match m with Burn _ a => a + acc | _ => acc end) 0 ms.
Definition pooled_of (ms : list bmsg) : N :=
  fold_right (fun m acc => match m with FundPool _ _ a => a + acc | _ => acc end) 0 ms.

Fixpoint replay (self : addr) (d : deployed) (l : list hstep) : bool :=
  match l with
  | [] => true
  | h :: r =>
      match dstep self (h_env h) (h_act h) d, h_out h with
      | Ok (d', ms), Done b p =>
          (burned_of ms =? b) && (pooled_of ms =? p)
          && match h_obs h with
             | Some o => obs_eqb (obs_of d') o
             | None => obs_eqb (obs_of d') (obs_of d)
             end
          && replay self d' r
      | Err, Failed =>
          match h_obs h with Some _ => false | None => replay self d r end
      | _, _ => false
      end
  end.

Definition boot (h : history) : result deployed :=
  do s <- instantiate (h_ct h) (h_time0 h) (h_sender_is_contract h) (h_funds0 h) (h_minter h) (h_info0 h);
  let d0 := match h_cw2 h with
            | Some nv => mkDep (h_ct h) (h_admin h) (fst nv) (snd nv) s
            | None => mkDep (h_ct h) (h_admin h) (name_of (h_ct h)) CUR_VERSION s
            end in
  if h_migrated h then migrate_to_updatable (h_time0 h) d0 else Ok d0.

Definition history_check (h : history) : bool :=
  match boot h, h_init h with
  | Ok d, Some o => obs_eqb (obs_of d) o && replay (h_self h) d (h_steps h)
  | Err, None => match h_steps h with [] => true | _ => false end
  | _, _ => false
  end.
