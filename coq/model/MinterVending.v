(* The six vending minters (vending-minter, -featured, -wl-flex, -wl-flex-featured,
   -merkle-wl, -merkle-wl-featured): one handler-level model, three variant flags.

   Cross-contract queries are ORACLE INPUTS of each step: the factory parameters as
   they are at call time (`fparams`) and what the attached whitelist answers at call
   time (`wlview`).  Theorems quantify over all oracle answers; the whitelist and the
   factory have their own models and properties.  The pseudo-random position pick and
   the shuffle permutation are oracle inputs too (validated for legality by the model,
   never re-implemented).  A failed call returns Err and carries no state. *)
From LP Require Export Num Pay Sg1.
From LP Require Import Consts.

Record variant := mkVariant { v_featured : bool; v_flex : bool; v_merkle : bool }.

(* factory parameters a minter reads *)
Record fparams := mkFP {
  fp_min_price : N; fp_min_denom : denom;
  fp_mint_fee_bps : N;
  fp_airdrop_price : N; fp_airdrop_denom : denom; fp_airdrop_fee_bps : N;
  fp_shuffle_fee : N;
  fp_max_per_address : N;
  fp_offset_secs : N }.

(* what the minter can learn from its whitelist in one call.  `None` in an option
   field = that query fails (the call then fails where the code needs the answer). *)
Record wlview := mkWV {
  wv_active : bool;
  wv_price : N; wv_denom : denom;
  wv_limit : N;                      (* Config.per_address_limit *)
  wv_member_limit : N; wv_num_members : N;
  wv_has_plain : option bool;        (* HasMember{member: sender} *)
  wv_has_proof : option bool;        (* Merkle HasMember{leaf(stage,sender,allocation), proof} *)
  wv_tiered : bool;                  (* cw2 name contains "tiered-whitelist" *)
  wv_stage_id : option N;            (* ActiveStageId *)
  wv_stage_limit : option (option N);(* Stage{id-1}.mint_count_limit *)
  wv_flex_count : option N           (* flex Member{sender}.mint_count *)
}.

Record vstate := mkVS {
  s_admin : addr;
  s_payment : option addr;
  s_num_tokens : N;
  s_pal : N;                         (* per_address_limit *)
  s_whitelist : option addr;
  s_start : N;
  s_price : N; s_denom : denom;      (* mint_price *)
  s_discount : option N;
  s_mintable : N;
  s_positions : list (N * N);        (* position -> token id, ascending position *)
  s_minted : list N;                 (* ghost: ids handed to the collection, newest first *)
  s_burned : N;                      (* ghost: ids destroyed by burn-remaining *)
  s_public : list (addr * N);        (* MINTER_ADDRS *)
  s_wl : list (addr * N);            (* WHITELIST_MINTER_ADDRS *)
  s_fs : list (addr * N); s_ss : list (addr * N); s_ts : list (addr * N);
  s_fs_count : N; s_ss_count : N; s_ts_count : N;
  s_airdrops : N;
  s_last_discount : N;
  s_trading : option N               (* ghost: start_trading_time last sent to the collection *)
}.

Record env := mkEnv { e_now : N; e_sender : addr; e_funds : list coin; e_contract : addr }.

Inductive vop :=
| OMint (stage : option N) (proof : bool) (alloc : option N) (choice : N)
| OMintTo (recipient_ok : bool) (recipient : addr) (choice : N)
| OMintFor (token_id : N) (recipient_ok : bool) (recipient : addr)
| OPurge
| OShuffle (newids : list N)
| OBurnRemaining
| OUpdateMintPrice (p : N)
| OUpdateStartTime (t : N)
| OUpdateStartTradingTime (t : option N)
| OUpdatePerAddressLimit (l : N)
| OSetWhitelist (w_ok : bool) (w : addr) (newview : option wlview)
| OUpdateDiscountPrice (p : N)
| ORemoveDiscountPrice.

Inductive omsg :=
| OBank (m : bmsg)
| OMintNft (token_id : N) (owner : addr)
| OTrading (t : option N).

(* ---- small map helpers (association lists with default 0) ---- *)
Fixpoint get (m : list (addr * N)) (a : addr) : N :=
  match m with
  | [] => 0
  | (k, v) :: r => if k =? a then v else get r a
  end.
Fixpoint set (m : list (addr * N)) (a : addr) (v : N) : list (addr * N) :=
  match m with
  | [] => [(a, v)]
  | (k, w) :: r => if k =? a then (k, v) :: r else (k, w) :: set r a v
  end.

Fixpoint find_id (ps : list (N * N)) (id : N) : option N :=
  match ps with
  | [] => None
  | (p, i) :: r => if i =? id then Some p else find_id r id
  end.
Fixpoint remove_pos (ps : list (N * N)) (p : N) : list (N * N) :=
  match ps with
  | [] => []
  | (q, i) :: r => if q =? p then r else (q, i) :: remove_pos r p
  end.
Fixpoint index_of (ps : list (N * N)) (id : N) (k : N) : option N :=
  match ps with
  | [] => None
  | (_, i) :: r => if i =? id then Some k else index_of r id (k + 1)
  end.

(* the "baby shuffle" window: the pick is one of the first or last min(50, remaining)
   positions in key order *)
Definition WINDOW : N := 50.
Definition legal_choice (ps : list (N * N)) (id : N) : bool :=
  let n := N.of_nat (length ps) in
  let w := N.min WINDOW n in
  match index_of ps id 0 with
  | None => false
  | Some k => (k <? w) || (n - w <=? k)
  end.

(* u64 timestamp arithmetic (panics abort the call) *)
Definition NANOS : N := 1000000000.
Definition plus_seconds (t s : N) : result N :=
  if U64_MAX <? s * NANOS then Err
  else if U64_MAX <? t + s * NANOS then Err else Ok (t + s * NANOS).
Definition minus_seconds (t s : N) : result N :=
  if U64_MAX <? s * NANOS then Err
  else if t <? s * NANOS then Err else Ok (t - s * NANOS).

Definition GENESIS : N := sg_utils__GENESIS_MINT_START_TIME.

(* validation.rs *)
Definition three_percent (n : N) : N := if (n * 3) mod 100 =? 0 then n * 3 / 100 else n * 3 / 100 + 1.
Definition check_dynamic_pal (pal n maxpal : N) : bool :=
  if maxpal <? pal then false
  else if n <? 100 then pal <=? 3
  else pal <=? three_percent n.

(* ---- price selection ---- *)
Definition public_or_discount (s : vstate) : N :=
  match s_discount s with Some d => d | None => s_price s end.

(* mint_price(is_admin): a coin; the whitelist Config query is needed only when a
   whitelist is attached and the mint is not an airdrop *)
Definition mint_price (s : vstate) (fp : fparams) (wv : option wlview) (is_admin : bool)
  : result (N * denom) :=
  if is_admin then Ok (fp_airdrop_price fp, fp_airdrop_denom fp)
  else match s_whitelist s with
       | None => Ok (public_or_discount s, s_denom s)
       | Some _ =>
           match wv with
           | None => Err
           | Some v => if wv_active v then Ok (wv_price v, wv_denom v)
                       else Ok (public_or_discount s, s_denom s)
           end
       end.

(* whitelist_mint_count: (count, tiered, stage) *)
Definition wl_count (s : vstate) (v : wlview) (a : addr) : result (N * bool * option N) :=
  if wv_tiered v then
    match wv_stage_id v with
    | None => Err
    | Some 1 => Ok (get (s_fs s) a, true, Some 1)
    | Some 2 => Ok (get (s_ss s) a, true, Some 2)
    | Some 3 => Ok (get (s_ts s) a, true, Some 3)
    | Some _ => Err
    end
  else Ok (get (s_wl s) a, false, None).

Definition is_merkle_tree_wl (v : wlview) : bool :=
  (wv_member_limit v =? 0) && (wv_num_members v =? 0).

(* is_public_mint: Ok true = public rules apply, Ok false = whitelist mint allowed *)
Definition is_public_mint (vr : variant) (s : vstate) (wv : option wlview) (a : addr)
           (proof : bool) (alloc : option N) : result bool :=
  match s_whitelist s with
  | None => Ok true
  | Some _ =>
      match wv with
      | None => Err
      | Some v =>
          if negb (wv_active v) then Ok true
          else
            let verified := v_merkle vr && is_merkle_tree_wl v && proof in
            let has := if verified then wv_has_proof v else wv_has_plain v in
            match has with
            | None => Err
            | Some false => Err
            | Some true =>
                do c <- wl_count s v a;
                let '(cnt, tiered, stage) := c in
                do maxc <- (if v_flex vr then
                              match wv_flex_count v with Some m => Ok m | None => Err end
                            else if v_merkle vr then
                              match alloc with
                              | Some al => if verified then Ok al else Ok (wv_limit v)
                              | None => Ok (wv_limit v)
                              end
                            else Ok (wv_limit v));
                if maxc <=? cnt then Err
                else
                  match tiered, stage with
                  | true, Some st =>
                      match wv_stage_limit v with
                      | None => Err
                      | Some None => Ok false
                      | Some (Some lim) =>
                          let sc := match st with 1 => s_fs_count s | 2 => s_ss_count s | _ => s_ts_count s end in
                          if lim <=? sc then Err else Ok false
                      end
                  | _, _ => Ok false
                  end
            end
      end
  end.

(* the flex merkle combination does not exist; flags are independent in the model *)

Definition fee_msgs (vr : variant) (d : denom) (fee : N) : result (list bmsg) :=
  if fee =? 0 then Ok [] else distribute_mint_fees d fee (v_featured vr) None.

(* _execute_mint *)
Definition execute_mint_core (vr : variant) (s : vstate) (e : env) (fp : fparams) (wv : option wlview)
           (is_admin : bool) (recipient : option addr) (token : option N) (choice : N) (is_public : bool)
  : result (vstate * list omsg) :=
  if s_mintable s =? 0 then Err else
  do _ <- (match token with
           | Some t => guard (negb ((t =? 0) || (s_num_tokens s <? t)))
           | None => Ok tt end);
  let recipient_addr := match recipient with Some r => r | None => e_sender e end in
  do pr <- mint_price s fp wv is_admin;
  let '(amount, dn) := pr in
  do payment <- may_pay (e_funds e) dn;
  if negb (payment =? amount) then Err else
  let bps := if is_admin then fp_airdrop_fee_bps fp else fp_mint_fee_bps fp in
  let network_fee := mul_floor amount (dec_bps bps) in
  if U128_MAX <? network_fee then Err else
  do fmsgs <- fee_msgs vr dn network_fee;
  do tid <- (match token with
             | Some t => match find_id (s_positions s) t with Some _ => Ok t | None => Err end
             | None => if legal_choice (s_positions s) choice then Ok choice else Err
             end);
  do pos <- (match find_id (s_positions s) tid with Some p => Ok p | None => Err end);
  let positions' := remove_pos (s_positions s) pos in
  let mintable' := s_mintable s - 1 in
  let airdrops' := if is_admin then s_airdrops s + 1 else s_airdrops s in
  (* counters *)
  do s1 <- (if is_public then
              Ok (mkVS (s_admin s) (s_payment s) (s_num_tokens s) (s_pal s) (s_whitelist s) (s_start s)
                       (s_price s) (s_denom s) (s_discount s) mintable' positions' (tid :: s_minted s) (s_burned s)
                       (set (s_public s) (e_sender e) (get (s_public s) (e_sender e) + 1))
                       (s_wl s) (s_fs s) (s_ss s) (s_ts s) (s_fs_count s) (s_ss_count s) (s_ts_count s)
                       airdrops' (s_last_discount s) (s_trading s))
            else
              match wv with
              | None => Err
              | Some v =>
                  do c <- wl_count s v (e_sender e);
                  let '(cnt, tiered, stage) := c in
                  match tiered, stage with
                  | true, Some 1 =>
                      Ok (mkVS (s_admin s) (s_payment s) (s_num_tokens s) (s_pal s) (s_whitelist s) (s_start s)
                               (s_price s) (s_denom s) (s_discount s) mintable' positions' (tid :: s_minted s) (s_burned s)
                               (s_public s) (s_wl s) (set (s_fs s) (e_sender e) (cnt + 1)) (s_ss s) (s_ts s)
                               (s_fs_count s + 1) (s_ss_count s) (s_ts_count s) airdrops' (s_last_discount s) (s_trading s))
                  | true, Some 2 =>
                      Ok (mkVS (s_admin s) (s_payment s) (s_num_tokens s) (s_pal s) (s_whitelist s) (s_start s)
                               (s_price s) (s_denom s) (s_discount s) mintable' positions' (tid :: s_minted s) (s_burned s)
                               (s_public s) (s_wl s) (s_fs s) (set (s_ss s) (e_sender e) (cnt + 1)) (s_ts s)
                               (s_fs_count s) (s_ss_count s + 1) (s_ts_count s) airdrops' (s_last_discount s) (s_trading s))
                  | true, Some 3 =>
                      Ok (mkVS (s_admin s) (s_payment s) (s_num_tokens s) (s_pal s) (s_whitelist s) (s_start s)
                               (s_price s) (s_denom s) (s_discount s) mintable' positions' (tid :: s_minted s) (s_burned s)
                               (s_public s) (s_wl s) (s_fs s) (s_ss s) (set (s_ts s) (e_sender e) (cnt + 1))
                               (s_fs_count s) (s_ss_count s) (s_ts_count s + 1) airdrops' (s_last_discount s) (s_trading s))
                  | true, _ => Err
                  | false, _ =>
                      Ok (mkVS (s_admin s) (s_payment s) (s_num_tokens s) (s_pal s) (s_whitelist s) (s_start s)
                               (s_price s) (s_denom s) (s_discount s) mintable' positions' (tid :: s_minted s) (s_burned s)
                               (s_public s) (set (s_wl s) (e_sender e) (cnt + 1)) (s_fs s) (s_ss s) (s_ts s)
                               (s_fs_count s) (s_ss_count s) (s_ts_count s) airdrops' (s_last_discount s) (s_trading s))
                  end
              end);
  (* seller payout: only for non-admin mints; airdrops keep price - fee in the minter *)
  do smsgs <- (if is_admin then Ok []
               else do amt <- sub128 amount network_fee;
                    if amt =? 0 then Ok []
                    else Ok [Send (match s_payment s with Some p => p | None => s_admin s end) dn amt]);
  Ok (s1, map OBank fmsgs ++ [OMintNft tid recipient_addr] ++ map OBank smsgs).

Definition is_admin_sender (s : vstate) (e : env) : bool := e_sender e =? s_admin s.

Definition set_config (s : vstate) (pal : N) (wl : option addr) (start price : N) (disc : option N) (last : N)
  : vstate :=
  mkVS (s_admin s) (s_payment s) (s_num_tokens s) pal wl start price (s_denom s) disc
       (s_mintable s) (s_positions s) (s_minted s) (s_burned s) (s_public s) (s_wl s) (s_fs s) (s_ss s) (s_ts s)
       (s_fs_count s) (s_ss_count s) (s_ts_count s) (s_airdrops s) last (s_trading s).

Fixpoint retable (ps : list (N * N)) (ids : list N) : list (N * N) :=
  match ps, ids with
  | (p, _) :: r, i :: r' => (p, i) :: retable r r'
  | _, _ => []
  end.

(* same multiset of ids: every id occurs equally often in both lists *)
Fixpoint count_occ_N (l : list N) (x : N) : N :=
  match l with [] => 0 | y :: r => (if y =? x then 1 else 0) + count_occ_N r x end.
Definition same_ids (a b : list N) : bool :=
  (N.of_nat (length a) =? N.of_nat (length b)) &&
  forallb (fun x => count_occ_N a x =? count_occ_N b x) a.

Definition step (vr : variant) (s : vstate) (e : env) (fp : fparams) (wv : option wlview) (o : vop)
  : result (vstate * list omsg) :=
  match o with
  | OMint stage proof alloc choice =>
      do isp <- is_public_mint vr s wv (e_sender e) proof alloc;
      if isp && (e_now e <? s_start s) then Err
      else if isp && (s_pal s <=? get (s_public s) (e_sender e)) then Err
      else execute_mint_core vr s e fp wv false None None choice isp
  | OMintTo rok r choice =>
      if negb rok then Err
      else if negb (is_admin_sender s e) then Err
      else execute_mint_core vr s e fp wv true (Some r) None choice true
  | OMintFor t rok r =>
      if negb rok then Err
      else if negb (is_admin_sender s e) then Err
      else execute_mint_core vr s e fp wv true (Some r) (Some t) 0 true
  | OPurge =>
      do _ <- nonpayable (e_funds e);
      if negb (s_mintable s =? 0) then Err
      else Ok (mkVS (s_admin s) (s_payment s) (s_num_tokens s) (s_pal s) (s_whitelist s) (s_start s)
                    (s_price s) (s_denom s) (s_discount s) (s_mintable s) (s_positions s) (s_minted s) (s_burned s)
                    [] (if v_flex vr then [] else s_wl s) (s_fs s) (s_ss s) (s_ts s)
                    (s_fs_count s) (s_ss_count s) (s_ts_count s) (s_airdrops s) (s_last_discount s) (s_trading s), [])
  | OShuffle newids =>
      do fmsgs <- checked_fair_burn (e_contract e) (e_funds e) (fp_shuffle_fee fp) None;
      if s_mintable s =? 0 then Err
      else if negb (same_ids (map snd (s_positions s)) newids) then Err
      else Ok (mkVS (s_admin s) (s_payment s) (s_num_tokens s) (s_pal s) (s_whitelist s) (s_start s)
                    (s_price s) (s_denom s) (s_discount s) (s_mintable s) (retable (s_positions s) newids)
                    (s_minted s) (s_burned s) (s_public s) (s_wl s) (s_fs s) (s_ss s) (s_ts s)
                    (s_fs_count s) (s_ss_count s) (s_ts_count s) (s_airdrops s) (s_last_discount s) (s_trading s),
               map OBank fmsgs)
  | OBurnRemaining =>
      do _ <- nonpayable (e_funds e);
      if negb (is_admin_sender s e) then Err
      else if s_mintable s =? 0 then Err
      else
        let total := N.of_nat (length (s_positions s)) in
        if s_mintable s <? total then Err
        else Ok (mkVS (s_admin s) (s_payment s) (s_num_tokens s) (s_pal s) (s_whitelist s) (s_start s)
                      (s_price s) (s_denom s) (s_discount s) (s_mintable s - total) [] (s_minted s)
                      (s_burned s + total) (s_public s) (s_wl s) (s_fs s) (s_ss s) (s_ts s)
                      (s_fs_count s) (s_ss_count s) (s_ts_count s) (s_airdrops s) (s_last_discount s) (s_trading s), [])
  | OUpdateMintPrice p =>
      do _ <- nonpayable (e_funds e);
      if negb (is_admin_sender s e) then Err
      else if (s_start s <=? e_now e) && (s_price s <=? p) then Err
      else if p <? fp_min_price fp then Err
      else Ok (set_config s (s_pal s) (s_whitelist s) (s_start s) p (s_discount s) (s_last_discount s), [])
  | OUpdateStartTime t =>
      do _ <- nonpayable (e_funds e);
      if negb (is_admin_sender s e) then Err
      else if s_start s <=? e_now e then Err
      else if t <? e_now e then Err
      else if t <? GENESIS then Err
      else Ok (set_config s (s_pal s) (s_whitelist s) t (s_price s) (s_discount s) (s_last_discount s), [])
  | OUpdateStartTradingTime t =>
      do _ <- nonpayable (e_funds e);
      if negb (is_admin_sender s e) then Err
      else
        do bound <- plus_seconds (s_start s) (fp_offset_secs fp);
        match t with
        | Some tr =>
            if tr <? e_now e then Err
            else if bound <? tr then Err
            else Ok (mkVS (s_admin s) (s_payment s) (s_num_tokens s) (s_pal s) (s_whitelist s) (s_start s)
                          (s_price s) (s_denom s) (s_discount s) (s_mintable s) (s_positions s) (s_minted s) (s_burned s)
                          (s_public s) (s_wl s) (s_fs s) (s_ss s) (s_ts s) (s_fs_count s) (s_ss_count s) (s_ts_count s)
                          (s_airdrops s) (s_last_discount s) (Some tr), [OTrading (Some tr)])
        | None =>
            Ok (mkVS (s_admin s) (s_payment s) (s_num_tokens s) (s_pal s) (s_whitelist s) (s_start s)
                     (s_price s) (s_denom s) (s_discount s) (s_mintable s) (s_positions s) (s_minted s) (s_burned s)
                     (s_public s) (s_wl s) (s_fs s) (s_ss s) (s_ts s) (s_fs_count s) (s_ss_count s) (s_ts_count s)
                     (s_airdrops s) (s_last_discount s) None, [OTrading None])
        end
  | OUpdatePerAddressLimit l =>
      do _ <- nonpayable (e_funds e);
      if negb (is_admin_sender s e) then Err
      else if (l =? 0) || (fp_max_per_address fp <? l) then Err
      else if negb (v_flex vr) && negb (check_dynamic_pal l (s_num_tokens s) (fp_max_per_address fp)) then Err
      else Ok (set_config s l (s_whitelist s) (s_start s) (s_price s) (s_discount s) (s_last_discount s), [])
  | OSetWhitelist wok w newview =>
      do _ <- nonpayable (e_funds e);
      if negb (is_admin_sender s e) then Err
      else if negb (e_now e <? s_start s) then Err
      else
        do _ <- (match s_whitelist s with
                 | None => Ok tt
                 | Some _ => match wv with None => Err | Some v => guard (negb (wv_active v)) end
                 end);
        if negb wok then Err else
        match newview with
        | None => Err
        | Some nv =>
            if wv_active nv then Err
            else if negb (v_flex vr) && negb (wv_denom nv =? s_denom s) then Err
            else if wv_price nv <? fp_min_price fp then Err
            else if negb (fp_min_denom fp =? wv_denom nv) then Err
            else Ok (set_config s (s_pal s) (Some w) (s_start s) (s_price s) (s_discount s) (s_last_discount s), [])
        end
  | OUpdateDiscountPrice p =>
      do _ <- nonpayable (e_funds e);
      if negb (is_admin_sender s e) then Err
      else if e_now e <? s_start s then Err
      else
        do t12 <- plus_seconds (s_last_discount s) (12 * 60 * 60);
        if e_now e <? t12 then Err
        else if s_price s <? p then Err
        else if p <? fp_min_price fp then Err
        else Ok (set_config s (s_pal s) (s_whitelist s) (s_start s) (s_price s) (Some p) (e_now e), [])
  | ORemoveDiscountPrice =>
      do _ <- nonpayable (e_funds e);
      if negb (is_admin_sender s e) then Err
      else
        do t1 <- plus_seconds (s_last_discount s) (60 * 60);
        if e_now e <? t1 then Err
        else Ok (set_config s (s_pal s) (s_whitelist s) (s_start s) (s_price s) None (e_now e), [])
  end.

(* ---- queries ---- *)
Definition q_mint_count (vr : variant) (s : vstate) (a : addr) : N * N :=
  let pub := get (s_public s) a in
  let wl := get (s_wl s) a + (get (s_fs s) a + get (s_ss s) a + get (s_ts s) a) in
  if v_flex vr then (pub, wl) else (pub + wl, 0).

(* MintPrice.current_price = mint_price(false) *)
Definition q_current_price (s : vstate) (fp : fparams) (wv : option wlview) : result (N * denom) :=
  mint_price s fp wv false.
