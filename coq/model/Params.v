(* Factory governance parameters and `sudo UpdateParams` of the four factories
   (contracts/factories/{base,vending,open-edition,token-merge}-factory/src/contract.rs),
   the three parameter queries, and the factory-side checks of CreateMinter as far as
   they read the parameters.  Executable, no proofs.

   Strings (denoms, the open-edition dev_fee_address) are N identifiers; NATIVE = 0 is
   "ustars".  u32/u64 message fields are N: the handlers do no arithmetic on them, so
   the only thing the bounded types add is that out-of-range values cannot be sent.
   `Err` carries no state: a failed sudo call leaves SUDO_PARAMS untouched.

   base-factory's `extension : Option<Empty>` slot is never written by any update and
   is not modelled (the harness compares it as part of the "nothing else changes"
   digest). *)
From LP Require Export Num Pay.
Local Open Scope N_scope.

Definition unwrap_or {A} (o : option A) (d : A) : A :=
  match o with Some x => x | None => d end.

(* ---------- allowed collection code ids ---------- *)

(* Vec::dedup : removes *consecutive* repeated elements only *)
Fixpoint dedup (l : list N) : list N :=
  match l with
  | [] => []
  | x :: xs =>
      match xs with
      | [] => [x]
      | y :: _ => if x =? y then dedup xs else x :: dedup xs
      end
  end.

(* Vec::retain(|&x| x != c) *)
Definition retain_ne (c : N) (l : list N) : list N := filter (fun x => negb (x =? c)) l.

(* for code_id in rm { ids.retain(|&x| x != code_id) } *)
Definition remove_all (rm l : list N) : list N := fold_left (fun acc c => retain_ne c acc) rm l.

(* push every addition, dedup (always, also without additions), then the removals *)
Definition update_code_ids (ids : list N) (add rm : option (list N)) : list N :=
  let pushed := match add with Some xs => ids ++ xs | None => ids end in
  let d := dedup pushed in
  match rm with Some r => remove_all r d | None => d end.

(* ---------- the fields every sg2::MinterParams has ---------- *)

Record cparams := mkCP {
  cp_code_id : N;
  cp_allowed : list N;
  cp_frozen : bool;
  cp_creation_fee : coin;
  cp_min_mint_price : coin;
  cp_mint_fee_bps : N;
  cp_offset : N                      (* max_trading_offset_secs *)
}.

(* sg2::msg::UpdateMinterParamsMsg<T> without its extension *)
Record cmsg := mkCM {
  cm_code_id : option N;
  cm_add : option (list N);
  cm_rm : option (list N);
  cm_frozen : option bool;
  cm_creation_fee : option coin;
  cm_min_mint_price : option coin;
  cm_mint_fee_bps : option N;
  cm_offset : option N
}.

(* `if let Some(c) = field { ensure_eq!(c.denom, NATIVE_DENOM); slot = c }` *)
Definition native_or_err (o : option coin) (old : coin) : result coin :=
  match o with
  | None => Ok old
  | Some c => if c_denom c =? NATIVE then Ok c else Err
  end.

(* base_factory::contract::update_params, shared by base, vending, open-edition *)
Definition update_params (p : cparams) (m : cmsg) : result cparams :=
  do mmp <- native_or_err (cm_min_mint_price m) (cp_min_mint_price p);
  Ok {| cp_code_id := unwrap_or (cm_code_id m) (cp_code_id p);
        cp_allowed := update_code_ids (cp_allowed p) (cm_add m) (cm_rm m);
        cp_frozen := unwrap_or (cm_frozen m) (cp_frozen p);
        cp_creation_fee := unwrap_or (cm_creation_fee m) (cp_creation_fee p);
        cp_min_mint_price := mmp;
        cp_mint_fee_bps := unwrap_or (cm_mint_fee_bps m) (cp_mint_fee_bps p);
        cp_offset := unwrap_or (cm_offset m) (cp_offset p) |}.

(* ---------- base-factory ---------- *)
Definition base_sudo (p : cparams) (m : cmsg) : result cparams := update_params p m.

(* ---------- vending-factory ---------- *)
Record vext := mkVX {
  vx_max_token_limit : N;
  vx_max_per_address_limit : N;
  vx_airdrop_mint_price : coin;
  vx_airdrop_mint_fee_bps : N;
  vx_shuffle_fee : coin
}.
Record vparams := mkVP { vp_common : cparams; vp_ext : vext }.

(* VendingUpdateParamsExtension; token-merge-factory's extension message has the same
   five fields *)
Record vxmsg := mkVXM {
  vxm_max_token_limit : option N;
  vxm_max_per_address_limit : option N;
  vxm_airdrop_mint_price : option coin;
  vxm_airdrop_mint_fee_bps : option N;
  vxm_shuffle_fee : option coin
}.
Record vmsg := mkVM { vm_common : cmsg; vm_ext : vxmsg }.

Definition vext_update (x : vext) (m : vxmsg) : result vext :=
  do ap <- native_or_err (vxm_airdrop_mint_price m) (vx_airdrop_mint_price x);
  do sf <- native_or_err (vxm_shuffle_fee m) (vx_shuffle_fee x);
  Ok {| vx_max_token_limit := unwrap_or (vxm_max_token_limit m) (vx_max_token_limit x);
        vx_max_per_address_limit := unwrap_or (vxm_max_per_address_limit m) (vx_max_per_address_limit x);
        vx_airdrop_mint_price := ap;
        vx_airdrop_mint_fee_bps := unwrap_or (vxm_airdrop_mint_fee_bps m) (vx_airdrop_mint_fee_bps x);
        vx_shuffle_fee := sf |}.

Definition vending_sudo (p : vparams) (m : vmsg) : result vparams :=
  do c <- update_params (vp_common p) (vm_common m);
  do x <- vext_update (vp_ext p) (vm_ext m);
  Ok {| vp_common := c; vp_ext := x |}.

(* ---------- open-edition-factory ---------- *)
Record oext := mkOX {
  ox_max_token_limit : N;
  ox_max_per_address_limit : N;
  ox_airdrop_mint_fee_bps : N;
  ox_airdrop_mint_price : coin;
  ox_dev_fee_address : N
}.
Record oparams := mkOP { op_common : cparams; op_ext : oext }.

(* OpenEditionUpdateParamsExtension.  `oxm_min_mint_price` exists in the message but the
   open-edition ParamsExtension has no such slot and the handler never reads it: the
   top-level `min_mint_price` of the same message is the one that governs. *)
Record oxmsg := mkOXM {
  oxm_max_token_limit : option N;
  oxm_max_per_address_limit : option N;
  oxm_min_mint_price : option coin;
  oxm_airdrop_mint_fee_bps : option N;
  oxm_airdrop_mint_price : option coin;
  oxm_dev_fee_address : option N
}.
Record omsg := mkOM { om_common : cmsg; om_ext : oxmsg }.

(* no native-denom requirement on the open-edition airdrop price: plain unwrap_or *)
Definition oext_update (x : oext) (m : oxmsg) : oext :=
  {| ox_max_token_limit := unwrap_or (oxm_max_token_limit m) (ox_max_token_limit x);
     ox_max_per_address_limit := unwrap_or (oxm_max_per_address_limit m) (ox_max_per_address_limit x);
     ox_airdrop_mint_fee_bps := unwrap_or (oxm_airdrop_mint_fee_bps m) (ox_airdrop_mint_fee_bps x);
     ox_airdrop_mint_price := unwrap_or (oxm_airdrop_mint_price m) (ox_airdrop_mint_price x);
     ox_dev_fee_address := unwrap_or (oxm_dev_fee_address m) (ox_dev_fee_address x) |}.

Definition oe_sudo (p : oparams) (m : omsg) : result oparams :=
  do c <- update_params (op_common p) (om_common m);
  Ok {| op_common := c; op_ext := oext_update (op_ext p) (om_ext m) |}.

(* ---------- token-merge-factory (flat structure, own message type; no
   min_mint_price and no mint_fee_bps anywhere) ---------- *)
Record tparams := mkTP {
  tp_code_id : N;
  tp_allowed : list N;
  tp_frozen : bool;
  tp_creation_fee : coin;
  tp_offset : N;
  tp_max_token_limit : N;
  tp_max_per_address_limit : N;
  tp_airdrop_mint_price : coin;
  tp_airdrop_mint_fee_bps : N;
  tp_shuffle_fee : coin
}.
Record tmsg := mkTM {
  tm_code_id : option N;
  tm_add : option (list N);
  tm_rm : option (list N);
  tm_frozen : option bool;
  tm_creation_fee : option coin;
  tm_offset : option N;
  tm_ext : vxmsg
}.

Definition tm_sudo (p : tparams) (m : tmsg) : result tparams :=
  let x := tm_ext m in
  do ap <- native_or_err (vxm_airdrop_mint_price x) (tp_airdrop_mint_price p);
  do sf <- native_or_err (vxm_shuffle_fee x) (tp_shuffle_fee p);
  Ok {| tp_code_id := unwrap_or (tm_code_id m) (tp_code_id p);
        tp_allowed := update_code_ids (tp_allowed p) (tm_add m) (tm_rm m);
        tp_frozen := unwrap_or (tm_frozen m) (tp_frozen p);
        tp_creation_fee := unwrap_or (tm_creation_fee m) (tp_creation_fee p);
        tp_offset := unwrap_or (tm_offset m) (tp_offset p);
        tp_max_token_limit := unwrap_or (vxm_max_token_limit x) (tp_max_token_limit p);
        tp_max_per_address_limit := unwrap_or (vxm_max_per_address_limit x) (tp_max_per_address_limit p);
        tp_airdrop_mint_price := ap;
        tp_airdrop_mint_fee_bps := unwrap_or (vxm_airdrop_mint_fee_bps x) (tp_airdrop_mint_fee_bps p);
        tp_shuffle_fee := sf |}.

(* ---------- queries ---------- *)
(* Params {} returns the stored structure itself; the other two read its id list *)
Definition q_allowed_ids (ids : list N) : list N := ids.
Definition q_allowed_id (ids : list N) (x : N) : bool := existsb (N.eqb x) ids.

(* ---------- the factory contract as a whole: parameters + everything else it stores
   (cw2 contract info) ---------- *)
Record fstate (P R : Type) := mkFS { fs_params : P; fs_rest : R }.
Arguments mkFS {P R}. Arguments fs_params {P R}. Arguments fs_rest {P R}.

Definition fstate_sudo {P M R} (upd : P -> M -> result P) (s : fstate P R) (m : M) : result (fstate P R) :=
  do p' <- upd (fs_params s) m;
  Ok {| fs_params := p'; fs_rest := fs_rest s |}.
Definition fstate_query {P R} (s : fstate P R) : P := fs_params s.

(* a sequence of governance messages: a refused one leaves the state as it was *)
Definition apply_seq {P M} (upd : P -> M -> result P) (p : P) (ms : list M) : P :=
  fold_left (fun q m => match upd q m with Ok q' => q' | Err => q end) ms p.

(* ---------- CreateMinter: the factory-side checks that read the parameters ----------
   Everything else a creation needs (valid URLs and times, collection info, the
   minter's own instantiate) is outside this model; the harness keeps those valid.
   Scope of the fee clause: the payment reaches the fee split only after
   `must_pay(funds, fee.denom)` succeeded, after which `checked_fair_burn` (native) and
   `transfer_funds_to_launchpad_dao` (other denoms) both reduce to `payment >= fee`;
   open-edition additionally demands `payment == fee` (`must_pay_exact_amount`).
   Bank-level failures of the emitted fee messages (amounts 0) are C06/C08 matters. *)
Definition fee_ok (exact : bool) (fee : coin) (funds : list coin) : result unit :=
  do pay <- must_pay funds (c_denom fee);
  guard (if exact then pay =? c_amount fee else c_amount fee <=? pay).

Record breq := mkBR { br_funds : list coin; br_code_id : N }.

Definition base_create (p : cparams) (r : breq) : result unit :=
  do _ <- fee_ok false (cp_creation_fee p) (br_funds r);
  do _ <- guard (q_allowed_id (cp_allowed p) (br_code_id r));
  guard (negb (cp_frozen p)).

Record vreq := mkVR {
  vr_funds : list coin; vr_code_id : N;
  vr_num_tokens : N; vr_per_address_limit : N; vr_mint_price : coin
}.

Definition limit_ok (x max : N) : bool := negb (x =? 0) && (x <=? max).

Definition vending_create (p : vparams) (r : vreq) : result unit :=
  let c := vp_common p in
  do _ <- fee_ok false (cp_creation_fee c) (vr_funds r);
  do _ <- guard (q_allowed_id (cp_allowed c) (vr_code_id r));
  do _ <- guard (negb (cp_frozen c));
  do _ <- guard (limit_ok (vr_num_tokens r) (vx_max_token_limit (vp_ext p)));
  do _ <- guard (limit_ok (vr_per_address_limit r) (vx_max_per_address_limit (vp_ext p)));
  do _ <- guard (c_denom (cp_min_mint_price c) =? c_denom (vr_mint_price r));
  guard (c_amount (cp_min_mint_price c) <=? c_amount (vr_mint_price r)).

Record oreq := mkOR {
  or_funds : list coin; or_code_id : N;
  or_num_tokens : option N; or_per_address_limit : N; or_mint_price : coin;
  or_has_end_time : bool
}.

Definition oe_create (p : oparams) (r : oreq) : result unit :=
  let c := op_common p in
  do _ <- fee_ok true (cp_creation_fee c) (or_funds r);
  do _ <- guard (q_allowed_id (cp_allowed c) (or_code_id r));
  do _ <- guard (negb (cp_frozen c));
  do _ <- guard (match or_num_tokens r with
                 | Some n => limit_ok n (ox_max_token_limit (op_ext p))
                 | None => true end);
  do _ <- guard (limit_ok (or_per_address_limit r) (ox_max_per_address_limit (op_ext p)));
  do _ <- guard (or_has_end_time r || match or_num_tokens r with Some _ => true | None => false end);
  do _ <- guard (c_amount (cp_min_mint_price c) <=? c_amount (or_mint_price r));
  do _ <- guard (c_denom (cp_min_mint_price c) =? c_denom (or_mint_price r));
  do _ <- guard (match or_num_tokens r with
                 | None => negb (c_amount (or_mint_price r) =? 0)
                 | Some _ => true end);
  guard (match or_num_tokens r with
         | None => negb (c_amount (ox_airdrop_mint_price (op_ext p)) =? 0)
         | Some _ => true end).

Record treq := mkTR {
  tr_funds : list coin; tr_code_id : N; tr_num_tokens : N; tr_per_address_limit : N
}.

Definition tm_create (p : tparams) (r : treq) : result unit :=
  do _ <- fee_ok false (tp_creation_fee p) (tr_funds r);
  do _ <- guard (q_allowed_id (tp_allowed p) (tr_code_id r));
  do _ <- guard (negb (tp_frozen p));
  do _ <- guard (limit_ok (tr_num_tokens r) (tp_max_token_limit p));
  guard (limit_ok (tr_per_address_limit r) (tp_max_per_address_limit p)).

(* ---------- what a public mint reads from the factory at mint time ----------
   vending and open-edition minters: network fee = price * Decimal::bps(mint_fee_bps)
   (floor); the seller receives the rest.  Open-edition hands ceil(fee/2) of it to the
   factory's current dev_fee_address (sg1::distribute_mint_fees, C06).  The base minter
   demands exactly min_mint_price_at_creation * bps(current mint_fee_bps) as payment. *)
Definition mint_network_fee (price bps : N) : N := mul_floor price (dec_bps bps).
Definition mint_seller_share (price bps : N) : result N :=
  let fee := mint_network_fee price bps in
  if fee <=? price then Ok (price - fee) else Err.
Definition mint_dev_share (price bps : N) : N := (mint_network_fee price bps + 1) / 2.
