(* semver::Version as the migrate functions use it: `str::parse::<Version>()` and the
   derived ordering, restricted to MAJOR.MINOR.PATCH.

   Bound (stated): pre-release ("-rc.1") and build ("+abc") suffixes are outside the
   model; `parse_version` answers None for them although the crate accepts them.  The
   correspondence grid stays inside MAJOR.MINOR.PATCH plus malformed strings that both
   sides reject. *)
From Coq Require Import String Ascii.
From LP Require Export Prelude.
Local Open Scope N_scope.

Definition version := (N * N * N)%type.

Definition digit_of (c : ascii) : option N :=
  let n := N_of_ascii c in
  if (48 <=? n) && (n <=? 57) then Some (n - 48) else None.

Fixpoint digits_val (s : string) (acc : N) : option N :=
  match s with
  | EmptyString => Some acc
  | String c r =>
      match digit_of c with
      | Some d => digits_val r (acc * 10 + d)
      | None => None
      end
  end.

(* numeric identifier: at least one digit, no leading zero unless the number is "0",
   value within u64 *)
Definition parse_num (s : string) : option N :=
  match s with
  | EmptyString => None
  | String c r =>
      if (N_of_ascii c =? 48) && negb (match r with EmptyString => true | _ => false end)
      then None
      else match digits_val s 0 with
           | Some v => if v <=? U64_MAX then Some v else None
           | None => None
           end
  end.

Definition is_dot (c : ascii) : bool := N_of_ascii c =? 46.

Fixpoint split_dot (s : string) : list string :=
  match s with
  | EmptyString => [EmptyString]
  | String c r =>
      if is_dot c then EmptyString :: split_dot r
      else match split_dot r with
           | h :: t => String c h :: t
           | [] => [String c EmptyString]
           end
  end.

Definition parse_version (s : string) : option version :=
  match split_dot s with
  | [a; b; c] =>
      match parse_num a, parse_num b, parse_num c with
      | Some x, Some y, Some z => Some (x, y, z)
      | _, _, _ => None
      end
  | _ => None
  end.

(* derived Ord on (major, minor, patch) *)
Definition ver_ltb (a b : version) : bool :=
  let '(a1, a2, a3) := a in
  let '(b1, b2, b3) := b in
  (a1 <? b1) || ((a1 =? b1) && ((a2 <? b2) || ((a2 =? b2) && (a3 <? b3)))).
Definition ver_eqb (a b : version) : bool :=
  let '(a1, a2, a3) := a in
  let '(b1, b2, b3) := b in
  (a1 =? b1) && (a2 =? b2) && (a3 =? b3).
Definition ver_leb (a b : version) : bool := ver_ltb a b || ver_eqb a b.

(* byte-wise string order (what comparing the version *strings* would give) *)
Fixpoint str_ltb (a b : string) : bool :=
  match a, b with
  | EmptyString, EmptyString => false
  | EmptyString, String _ _ => true
  | String _ _, EmptyString => false
  | String x r, String y t =>
      (N_of_ascii x <? N_of_ascii y) || ((N_of_ascii x =? N_of_ascii y) && str_ltb r t)
  end.
