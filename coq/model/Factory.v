(* Minter creation through the four factories: the factory's execute_create_minter,
   the minter's instantiate-time validation, and the wiring of the new minter and
   collection.  What the collection's own instantiate accepts (royalty share, description
   length, URLs) and URL / nft-data well-formedness are oracle booleans of the request;
   the whitelist named in the request answers through `r_wl_active`. *)
From LP Require Export Num Pay Sg1 Bank MinterVending.
From LP Require Import Consts.

Inductive fkind := FBase | FVending | FOpen | FTokenMerge.

(* governance parameters of a factory (union over the four kinds; unused fields ignored) *)
Record gparams := mkGP {
  g_code_id : N;
  g_allowed : list N;
  g_frozen : bool;
  g_fee : N; g_fee_denom : denom;
  g_min_price : N; g_min_denom : denom;      (* not in token-merge *)
  g_offset : N;
  g_max_tokens : N; g_max_pal : N;           (* not in base *)
  g_airdrop_price : N                        (* vending / open / token-merge *)
}.

Record create_req := mkReq {
  r_coll_code : N;
  r_creator : addr;
  r_num_tokens : option N;       (* vending / token-merge: Some n ; open edition: optional cap *)
  r_pal : N;
  r_price : N; r_price_denom : denom;
  r_start : N;
  r_end : option N;              (* open edition *)
  r_trading : option N;          (* requested start_trading_time *)
  r_nft_ok : bool;               (* open edition: NftData::validate *)
  r_uri_ok : bool;               (* base token uri / image parses as a URL *)
  r_wl : option bool;            (* whitelist named in the request: Some active? ; None = none given *)
  r_flex : bool;                 (* vending: the minter code is a wl-flex variant (no 3% rule) *)
  r_coll_ok : bool               (* the collection's own instantiate accepts the collection info *)
}.

Definition opt_default (o : option N) (d : N) : N := match o with Some x => x | None => d end.

(* ---- fee disposal (identical in the four factories, except the payment test) ---- *)
Definition fee_disposal (self : addr) (p : gparams) (funds : list coin) : result (list bmsg) :=
  if g_fee_denom p =? NATIVE then checked_fair_burn self funds (g_fee p) None
  else transfer_funds_to_launchpad_dao funds (g_fee p) (g_fee_denom p).

(* ---- factory side ---- *)
Definition factory_create (k : fkind) (self : addr) (p : gparams) (now : N) (funds : list coin) (r : create_req)
  : result (list bmsg) :=
  do paid <- must_pay funds (g_fee_denom p);
  do _ <- (match k with FOpen => guard (paid =? g_fee p) | _ => Ok tt end);
  if negb (existsb (N.eqb (r_coll_code r)) (g_allowed p)) then Err
  else if g_frozen p then Err
  else
    do ms <- fee_disposal self p funds;
    match k with
    | FBase => Ok ms
    | FVending =>
        match r_num_tokens r with
        | None => Err
        | Some n =>
            if (n =? 0) || (g_max_tokens p <? n) then Err
            else if (r_pal r =? 0) || (g_max_pal p <? r_pal r) then Err
            else if negb (g_min_denom p =? r_price_denom r) then Err
            else if r_price r <? g_min_price p then Err
            else Ok ms
        end
    | FTokenMerge =>
        match r_num_tokens r with
        | None => Err
        | Some n =>
            if (n =? 0) || (g_max_tokens p <? n) then Err
            else if (r_pal r =? 0) || (g_max_pal p <? r_pal r) then Err
            else Ok ms
        end
    | FOpen =>
        if negb (r_nft_ok r) then Err
        else if (match r_num_tokens r with Some n => (n =? 0) || (g_max_tokens p <? n) | None => false end) then Err
        else if (r_pal r <? 1) || (g_max_pal p <? r_pal r) then Err
        else if r_start r <=? now then Err
        else if (match r_end r with Some e => e <=? r_start r | None => false end) then Err
        else if (match r_end r, r_num_tokens r with None, None => true | _, _ => false end) then Err
        else if r_price r <? g_min_price p then Err
        else if negb (g_min_denom p =? r_price_denom r) then Err
        else if (match r_num_tokens r with None => r_price r =? 0 | Some _ => false end) then Err
        else if (g_airdrop_price p =? 0) && (match r_num_tokens r with None => true | Some _ => false end) then Err
        else Ok ms
    end.

(* ---- minter side: instantiate-time validation; returns the trading time handed to
   the collection ---- *)
Definition trading_at_creation (start offset : N) (requested : option N) : result N :=
  do bound <- plus_seconds start offset;
  match requested with
  | Some t => if bound <? t then Err else Ok t
  | None => Ok bound
  end.

Definition minter_init (k : fkind) (p : gparams) (now : N) (r : create_req) : result N :=
  match k with
  | FBase =>
      match r_trading r with
      | Some t => Ok t
      | None => plus_seconds now (g_offset p)
      end
  | FVending | FTokenMerge =>
      let n := opt_default (r_num_tokens r) 0 in
      if negb (r_flex r && match k with FVending => true | _ => false end)
         && negb (check_dynamic_pal (r_pal r) n (g_max_pal p)) then Err
      else if negb (r_uri_ok r) then Err
      else if r_start r <? GENESIS then Err
      else if r_start r <? now then Err
      else if (match k, r_wl r with FVending, Some true => true | _, _ => false end) then Err
      else trading_at_creation (r_start r) (g_offset p) (r_trading r)
  | FOpen =>
      if negb (r_uri_ok r) then Err
      else if (match r_wl r with Some true => true | _ => false end) then Err
      else trading_at_creation (r_start r) (g_offset p) (r_trading r)
  end.

(* ---- the world-level result of CreateMinter ---- *)
Record created := mkCreated {
  cr_minter_factory : addr;        (* minter Config.factory *)
  cr_minter_admin : addr;          (* minter Config.admin *)
  cr_minter_contract_admin : addr; (* wasm-level admin of the minter *)
  cr_coll_minter : addr;           (* collection's owner (cw-ownable) = the new minter *)
  cr_coll_creator : addr;          (* collection_info.creator *)
  cr_coll_contract_admin : addr;   (* wasm-level admin of the collection *)
  cr_trading : N;                  (* collection_info.start_trading_time *)
  cr_msgs : list bmsg              (* bank messages emitted by the factory *)
}.

(* `new_minter` is the address the chain assigns (oracle); everything else is computed *)
Definition create_minter (k : fkind) (self : addr) (p : gparams) (now : N) (sender : addr) (funds : list coin)
           (r : create_req) (new_minter : addr) : result created :=
  do ms <- factory_create k self p now funds r;
  do tr <- minter_init k p now r;
  if negb (r_coll_ok r) then Err
  else Ok (mkCreated self (r_creator r) sender new_minter (r_creator r) (r_creator r) tr ms).

(* balances: funds move to the factory, then the factory's messages run; any failure
   reverts everything *)
Definition create_world (k : fkind) (self : addr) (p : gparams) (now : N) (sender : addr) (funds : list coin)
           (r : create_req) (new_minter : addr) (b : bal) : result (created * bal) :=
  do b1 <- attach b sender self funds;
  do c <- create_minter k self p now sender funds r new_minter;
  do b2 <- apply_bmsgs self b1 (cr_msgs c);
  Ok (c, b2).
