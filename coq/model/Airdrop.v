(* contracts/sg-eth-airdrop (claim_airdrop.rs, contract.rs, query.rs, reply.rs),
   packages/ethereum-verify (decode.rs, signature_verify.rs),
   contracts/whitelists/whitelist-immutable (the eligibility list) and the one entry point
   of contracts/whitelists/whitelist the claim reaches (AddMembers).

   Strings are lists of bytes (N below 256): the claim text, the claimant's Stargaze
   address, the Ethereum address and the signature are compared and spliced as text by
   the code, so the model keeps them as text.  A wallet is identified by its address
   string.

   Cryptography and hex decoding are NOT modelled: `hexdec`, `keccak`, `recover`,
   `address_of`, `verify` are Section variables, universally quantified in every theorem.
   At correspondence time they are instantiated with the answers an independent
   implementation gave (C16Corr.v). *)
From LP Require Export Prelude Pay Sg1.
From LP Require Import Consts.

Definition bytes := list N.
Definition bytes_eqb : bytes -> bytes -> bool := list_eqb N.eqb.
Definition len (s : bytes) : N := N.of_nat (length s).

Fixpoint mem (x : bytes) (l : list bytes) : bool :=
  match l with [] => false | y :: l' => bytes_eqb x y || mem x l' end.

(* ---------- text ---------- *)

(* "{wallet}" *)
Definition WALLET : bytes := [123; 119; 97; 108; 108; 101; 116; 125].

Fixpoint prefixb (p s : bytes) : bool :=
  match p, s with
  | [], _ => true
  | a :: p', b :: s' => (a =? b) && prefixb p' s'
  | _ :: _, [] => false
  end.

(* str::contains *)
Fixpoint containsb (p s : bytes) : bool :=
  match s with
  | [] => prefixb p []
  | _ :: s' => prefixb p s || containsb p s'
  end.

(* str::replace(pat, to) for a non-empty pattern: scan left to right; at a position where
   the pattern matches emit `to` and continue after the match (matches never overlap),
   otherwise copy one element.  `skip` counts the elements of a match still to be
   dropped, which keeps the recursion structural.  On UTF-8 text with an ASCII pattern
   byte-wise scanning is what Rust does. *)
Fixpoint replace_go (pat to : bytes) (skip : nat) (s : bytes) : bytes :=
  match s with
  | [] => []
  | c :: s' =>
      match skip with
      | S k => replace_go pat to k s'
      | O => if prefixb pat s
             then to ++ replace_go pat to (pred (length pat)) s'
             else c :: replace_go pat to O s'
      end
  end.
Definition replace (pat to s : bytes) : bytes := replace_go pat to O s.

(* compute_plaintext_msg: every "{wallet}" of the template becomes the sender's address *)
Definition plaintext (template sender : bytes) : bytes := replace WALLET sender template.

(* usize::to_string *)
Fixpoint digits_fuel (fuel : nat) (n : N) (acc : bytes) : bytes :=
  match fuel with
  | O => acc
  | S f => let acc' := (48 + n mod 10) :: acc in
           if n <? 10 then acc' else digits_fuel f (n / 10) acc'
  end.
Definition decimal (n : N) : bytes := digits_fuel 40 n [].   (* exact below 10^40 *)

(* "\x19Ethereum Signed Message:\n" *)
Definition ETH_PREFIX : bytes :=
  [25; 69; 116; 104; 101; 114; 101; 117; 109; 32; 83; 105; 103; 110; 101; 100; 32;
   77; 101; 115; 115; 97; 103; 101; 58; 10].
Definition eth_preimage (m : bytes) : bytes := ETH_PREFIX ++ decimal (len m) ++ m.

(* signature.split_last() *)
Definition split_last (s : bytes) : option (N * bytes) :=
  match rev s with [] => None | v :: r => Some (v, rev r) end.

(* get_recovery_param *)
Definition recovery_param (v : N) : result N :=
  if (v =? 0) || (v =? 1) then Ok v
  else if v =? 27 then Ok 0
  else if v =? 28 then Ok 1
  else Err.

(* ---------- state ---------- *)

(* finite maps keyed by a string (ADDRS_TO_MINT_COUNT; amounts received per wallet) *)
Definition bmap := list (bytes * N).
Fixpoint bmap_find (k : bytes) (m : bmap) : option N :=
  match m with
  | [] => None
  | (k', v) :: m' => if bytes_eqb k k' then Some v else bmap_find k m'
  end.
Definition bmap_get (k : bytes) (m : bmap) : N := match bmap_find k m with Some v => v | None => 0 end.
Fixpoint bmap_set (k : bytes) (v : N) (m : bmap) : bmap :=
  match m with
  | [] => [(k, v)]
  | (k', v') :: m' => if bytes_eqb k k' then (k, v) :: m' else (k', v') :: bmap_set k v m'
  end.

(* the airdrop contract together with the whitelist-immutable it creates (that contract
   has no execute entry point that changes anything, so its list and limit are constants
   of the airdrop) *)
Record astate := mkAState {
  a_template : bytes;          (* Config.claim_msg_plaintext *)
  a_amount : N;                (* Config.airdrop_amount *)
  a_list : list bytes;         (* whitelist-immutable WHITELIST keys: strings, compared exactly *)
  a_limit : N;                 (* whitelist-immutable per_address_limit *)
  a_counts : bmap              (* ADDRS_TO_MINT_COUNT, keyed by the eth_address string as given *)
}.
Definition set_counts (st : astate) (c : bmap) : astate :=
  mkAState (a_template st) (a_amount st) (a_list st) (a_limit st) c.

Inductive amsg :=
| ASend (to : bytes) (d : denom) (amt : N)           (* BankMsg::Send to the wallet *)
| AAddMembers (wl : N) (members : list bytes).       (* sg-whitelist ExecuteMsg::AddMembers to contract wl *)

(* query AirdropEligible / whitelist-immutable IncludesAddress: exact string match *)
Definition eligible (st : astate) (eth_addr : bytes) : bool := mem eth_addr (a_list st).

Section Crypto.
  Variable hexdec : bytes -> option bytes.                 (* hex::decode *)
  Variable keccak : bytes -> bytes.                        (* Keccak-256 *)
  Variable recover : bytes -> bytes -> N -> option bytes.  (* secp256k1_recover_pubkey hash (r||s) recovery-id *)
  Variable address_of : bytes -> option bytes.             (* ethereum_address_raw *)
  Variable verify : bytes -> bytes -> bytes -> option bool. (* secp256k1_verify hash (r||s) pubkey *)

  (* decode_address: 42 characters, "0x", 40 hex digits *)
  Definition decode_address (a : bytes) : result bytes :=
    if negb (len a =? 42) then Err else
    match a with
    | c0 :: c1 :: digits =>
        if negb ((c0 =? 48) && (c1 =? 120)) then Err else      (* "0x" *)
        match hexdec digits with
        | Some d => if len d =? 20 then Ok d else Err
        | None => Err
        end
    | _ => Err
    end.

  Definition eth_hash (m : bytes) : bytes := keccak (eth_preimage m).

  (* verify_ethereum_text *)
  Definition verify_ethereum_text (msg sig signer : bytes) : result bool :=
    do a <- decode_address signer;
    let h := eth_hash msg in
    match split_last sig with
    | None => Err
    | Some (v, rs) =>
        do rid <- recovery_param v;
        if negb (len rs =? 64) then Err else        (* cosmwasm-crypto read_signature *)
        match recover h rs rid with
        | None => Err
        | Some pk =>
            match address_of pk with
            | None => Err
            | Some a' =>
                if negb (bytes_eqb a a') then Ok false else
                match verify h rs pk with
                | None => Err
                | Some b => Ok b
                end
            end
        end
    end.

  (* execute ClaimAirdrop.  `minter_wl` is what the configured minter's Config query
     reports as its whitelist at the time of the call. *)
  Definition claim (minter_wl : option N) (st : astate) (sender eth_addr eth_sig : bytes)
    : result (astate * list amsg) :=
    (* validate_is_eligible *)
    if negb (eligible st eth_addr) then Err else
    (* validate_eth_sig *)
    let text := plaintext (a_template st) sender in
    match hexdec eth_sig with
    | None => Err
    | Some sig =>
        do good <- verify_ethereum_text text sig eth_addr;
        if negb good then Err else
        (* validate_mints_remaining *)
        let c := bmap_get eth_addr (a_counts st) in
        if negb (c <? a_limit st) then Err else
        (* claim_and_whitelist_add *)
        match minter_wl with
        | None => Err
        | Some wl =>
            (* increment_local_mint_count_for_address: c < limit <= u32::MAX, no overflow *)
            Ok (set_counts st (bmap_set eth_addr (c + 1) (a_counts st)),
                [ASend sender NATIVE (a_amount st); AAddMembers wl [sender]])
        end
    end.
End Crypto.

(* ---------- instantiate ---------- *)

(* contract.rs instantiate + the whitelist-immutable sub-instantiate + reply.  `contract`
   is the airdrop contract's own address: the fee is fair-burned on its behalf
   (env.contract.address is the sender named in the pool message). *)
Definition instantiate (contract : addr) (funds : list coin) (template : bytes) (amount : N)
                       (addresses : list bytes) (limit : N) : result (astate * list bmsg) :=
  if amount <? sg_eth_airdrop__MIN_AIRDROP then Err else
  if sg_eth_airdrop__MAX_AIRDROP <? amount then Err else
  if negb (containsb WALLET template) then Err else
  if 1000 <? len template then Err else
  do paid <- must_pay funds NATIVE;
  if paid <? sg_eth_airdrop__INSTANTIATION_FEE then Err else
  do fee_msgs <- fair_burn contract sg_eth_airdrop__INSTANTIATION_FEE None;
  (* whitelist-immutable: validate_nonempty_whitelist *)
  match addresses with
  | [] => Err
  | _ => Ok (mkAState template amount addresses limit [], fee_msgs)
  end.

(* ---------- world: bank + collection whitelist ---------- *)

(* the collection's sg-whitelist, as far as AddMembers goes *)
Record cwl := mkCwl {
  cw_airdrop_admin : bool;     (* can_execute(airdrop contract) *)
  cw_members : list bytes;
  cw_num : N;                  (* Config.num_members *)
  cw_limit : N                 (* Config.member_limit *)
}.

(* execute_add_members after the admin check: the limit test comes before the
   already-a-member skip *)
Fixpoint cwl_add (c : cwl) (ms : list bytes) : result cwl :=
  match ms with
  | [] => Ok c
  | m :: ms' =>
      if cw_limit c <=? cw_num c then Err
      else if mem m (cw_members c) then cwl_add c ms'
      else cwl_add (mkCwl (cw_airdrop_admin c) (m :: cw_members c) (cw_num c + 1) (cw_limit c)) ms'
  end.
Definition cwl_add_members (c : cwl) (ms : list bytes) : result cwl :=
  if cw_airdrop_admin c then cwl_add c ms else Err.

Record world := mkWorld {
  w_air : astate;
  w_bal : N;                   (* ustars held by the airdrop contract *)
  w_minter_wl : option N;      (* the minter's configured whitelist *)
  w_cwl_id : N;                (* address of the collection whitelist *)
  w_cwl : cwl;
  w_recv : bmap                (* ustars received from the airdrop, per wallet *)
}.

Definition exec_msg (w : world) (m : amsg) : result world :=
  match m with
  | ASend to d amt =>
      if (d =? NATIVE) && (0 <? amt) && (amt <=? w_bal w)
      then Ok (mkWorld (w_air w) (w_bal w - amt) (w_minter_wl w) (w_cwl_id w) (w_cwl w)
                       (bmap_set to (bmap_get to (w_recv w) + amt) (w_recv w)))
      else Err
  | AAddMembers wl ms =>
      if wl =? w_cwl_id w
      then do c <- cwl_add_members (w_cwl w) ms;
           Ok (mkWorld (w_air w) (w_bal w) (w_minter_wl w) (w_cwl_id w) c (w_recv w))
      else Err
  end.

Fixpoint dispatch (w : world) (ms : list amsg) : result world :=
  match ms with
  | [] => Ok w
  | m :: ms' => do w' <- exec_msg w m; dispatch w' ms'
  end.

Definition set_air (w : world) (st : astate) : world :=
  mkWorld st (w_bal w) (w_minter_wl w) (w_cwl_id w) (w_cwl w) (w_recv w).

Section World.
  Variable hexdec : bytes -> option bytes.
  Variable keccak : bytes -> bytes.
  Variable recover : bytes -> bytes -> N -> option bytes.
  Variable address_of : bytes -> option bytes.
  Variable verify : bytes -> bytes -> bytes -> option bool.

  (* a whole ClaimAirdrop transaction: the handler, then its messages; any failure
     reverts everything *)
  Definition claim_tx (w : world) (sender eth_addr eth_sig : bytes) : result world :=
    do r <- claim hexdec keccak recover address_of verify (w_minter_wl w) (w_air w) sender eth_addr eth_sig;
    dispatch (set_air w (fst r)) (snd r).

  (* a failed transaction leaves the world as it was *)
  Definition step (w : world) (c : bytes * bytes * bytes) : world :=
    let '(sender, eth_addr, eth_sig) := c in
    match claim_tx w sender eth_addr eth_sig with Ok w' => w' | Err => w end.

  Definition run (w : world) (cs : list (bytes * bytes * bytes)) : world := fold_left step cs w.
End World.

(* ---------- the collection whitelist's admin entry points (used between claims) ---------- *)

(* execute_remove_members by a whitelist admin, one member: NoMemberFound unless present *)
Definition cwl_remove (c : cwl) (m : bytes) : result cwl :=
  if mem m (cw_members c)
  then Ok (mkCwl (cw_airdrop_admin c) (filter (fun x => negb (bytes_eqb x m)) (cw_members c))
                 (cw_num c - 1) (cw_limit c))
  else Err.
(* execute_update_admins: whether the airdrop contract is on the new admin list *)
Definition cwl_set_airdrop_admin (c : cwl) (b : bool) : cwl :=
  mkCwl b (cw_members c) (cw_num c) (cw_limit c).
Definition set_cwl (w : world) (c : cwl) : world :=
  mkWorld (w_air w) (w_bal w) (w_minter_wl w) (w_cwl_id w) c (w_recv w).
