(* Holder-side operations on the COLLECTION (cw721 Burn / TransferNft) interleaved with
   minter calls.  No minter handler is involved in them, so they are not constructors of
   any minter's op type: they are a frame around an arbitrary minter model
     St            minter state
     Call          one minter call with its oracle inputs
     apply s c     state after the call (a failed call leaves the state)
     emit s c      the (token id, owner) pairs the call hands to the collection ([] if it fails)
   and act on a ghost of the collection only: the tokens it holds with their holders.
   The minter never reads that ghost; what the world-level statements say is that its
   books and the ids it issues are the same whatever holders do in between. *)
From LP Require Export Prelude.

Inductive holder_op :=
| HBurn (who : addr) (t : N)
| HTransfer (who to : addr) (t : N).

Definition coll := list (N * addr).          (* tokens the collection holds now: (id, holder) *)

Fixpoint coll_owner (c : coll) (t : N) : option addr :=
  match c with
  | [] => None
  | (i, o) :: r => if i =? t then Some o else coll_owner r t
  end.
Fixpoint coll_remove (c : coll) (t : N) : coll :=
  match c with
  | [] => []
  | (i, o) :: r => if i =? t then r else (i, o) :: coll_remove r t
  end.
Fixpoint coll_set_owner (c : coll) (t : N) (o' : addr) : coll :=
  match c with
  | [] => []
  | (i, o) :: r => if i =? t then (i, o') :: r else (i, o) :: coll_set_owner r t o'
  end.

(* only the holder may burn or transfer (approvals are not used in the histories); a
   refused operation changes nothing *)
Definition holder_step (c : coll) (h : holder_op) : coll :=
  match h with
  | HBurn who t =>
      match coll_owner c t with
      | Some o => if o =? who then coll_remove c t else c
      | None => c
      end
  | HTransfer who to t =>
      match coll_owner c t with
      | Some o => if o =? who then coll_set_owner c t to else c
      | None => c
      end
  end.

Section Frame.
  Variables St Call : Type.
  Variable apply : St -> Call -> St.
  Variable emit : St -> Call -> list (N * addr).

  Inductive wcall := WMinter (c : Call) | WHolder (h : holder_op).

  (* world = (minter state, tokens the collection holds) *)
  Definition wapply (w : St * coll) (x : wcall) : St * coll :=
    match x with
    | WMinter c => (apply (fst w) c, snd w ++ emit (fst w) c)
    | WHolder h => (fst w, holder_step (snd w) h)
    end.
  Definition wrun (w : St * coll) (xs : list wcall) : St * coll := fold_left wapply xs w.

  (* every (id, owner) the minter EVER issued during the history, oldest first *)
  Fixpoint wissued (s : St) (xs : list wcall) : list (N * addr) :=
    match xs with
    | [] => []
    | WMinter c :: r => emit s c ++ wissued (apply s c) r
    | WHolder _ :: r => wissued s r
    end.

  (* the minter calls of the history, in order *)
  Fixpoint minter_calls (xs : list wcall) : list Call :=
    match xs with
    | [] => []
    | WMinter c :: r => c :: minter_calls r
    | WHolder _ :: r => minter_calls r
    end.

  (* the same over minter calls alone *)
  Fixpoint issued (s : St) (cs : list Call) : list (N * addr) :=
    match cs with
    | [] => []
    | c :: r => emit s c ++ issued (apply s c) r
    end.
End Frame.
Arguments WMinter {Call} c.
Arguments WHolder {Call} h.
